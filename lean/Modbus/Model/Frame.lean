import Modbus.Model.Basic
/-
Model of src/frame/mod.rs, src/frame/coils.rs, src/frame/data.rs (default features: tcp + rtu).
-/
namespace Modbus

/-- `FunctionCode` (frame/mod.rs:13-69) -/
inductive FunctionCode where
  | readCoils | readDiscreteInputs | writeSingleCoil | writeSingleRegister
  | readHoldingRegisters | readInputRegisters | writeMultipleCoils | writeMultipleRegisters
  | maskWriteRegister | readWriteMultipleRegisters
  | readExceptionStatus | diagnostics | getCommEventCounter | getCommEventLog | reportServerId
  | custom (c : UInt8)
  deriving Repr, DecidableEq

/-- `FunctionCode::new` (frame/mod.rs:73-99) -/
def FunctionCode.new (v : UInt8) : FunctionCode :=
  if v = 0x01 then .readCoils
  else if v = 0x02 then .readDiscreteInputs
  else if v = 0x05 then .writeSingleCoil
  else if v = 0x06 then .writeSingleRegister
  else if v = 0x03 then .readHoldingRegisters
  else if v = 0x04 then .readInputRegisters
  else if v = 0x0F then .writeMultipleCoils
  else if v = 0x10 then .writeMultipleRegisters
  else if v = 0x16 then .maskWriteRegister
  else if v = 0x17 then .readWriteMultipleRegisters
  else if v = 0x07 then .readExceptionStatus
  else if v = 0x08 then .diagnostics
  else if v = 0x0B then .getCommEventCounter
  else if v = 0x0C then .getCommEventLog
  else if v = 0x11 then .reportServerId
  else .custom v

/-- `FunctionCode::value` (frame/mod.rs:101-129) -/
def FunctionCode.value : FunctionCode → UInt8
  | .readCoils => 0x01
  | .readDiscreteInputs => 0x02
  | .writeSingleCoil => 0x05
  | .writeSingleRegister => 0x06
  | .readHoldingRegisters => 0x03
  | .readInputRegisters => 0x04
  | .writeMultipleCoils => 0x0F
  | .writeMultipleRegisters => 0x10
  | .maskWriteRegister => 0x16
  | .readWriteMultipleRegisters => 0x17
  | .readExceptionStatus => 0x07
  | .diagnostics => 0x08
  | .getCommEventCounter => 0x0B
  | .getCommEventLog => 0x0C
  | .reportServerId => 0x11
  | .custom c => c

/-- `Exception` with its discriminants (frame/mod.rs:307-319) -/
inductive Exception where
  | illegalFunction | illegalDataAddress | illegalDataValue | serverDeviceFailure
  | acknowledge | serverDeviceBusy | memoryParityError | gatewayPathUnavailable | gatewayTargetDevice
  deriving Repr, DecidableEq

/-- `exception as u8` -/
def Exception.val : Exception → UInt8
  | .illegalFunction => 0x01
  | .illegalDataAddress => 0x02
  | .illegalDataValue => 0x03
  | .serverDeviceFailure => 0x04
  | .acknowledge => 0x05
  | .serverDeviceBusy => 0x06
  | .memoryParityError => 0x08
  | .gatewayPathUnavailable => 0x0A
  | .gatewayTargetDevice => 0x0B

/-- `Exception::try_from(u8)` (codec/mod.rs:16-36) -/
def Exception.tryFrom (code : UInt8) : Res Exception :=
  if code = 0x01 then .ok .illegalFunction
  else if code = 0x02 then .ok .illegalDataAddress
  else if code = 0x03 then .ok .illegalDataValue
  else if code = 0x04 then .ok .serverDeviceFailure
  else if code = 0x05 then .ok .acknowledge
  else if code = 0x06 then .ok .serverDeviceBusy
  else if code = 0x08 then .ok .memoryParityError
  else if code = 0x0A then .ok .gatewayPathUnavailable
  else if code = 0x0B then .ok .gatewayTargetDevice
  else .err (.exceptionCode code)

/-! ### Coils (frame/coils.rs) -/

/-- `Coils { data, quantity }` — raw slice and count, exactly as the Rust keeps them -/
structure Coils where
  data : Bytes
  quantity : Nat
  deriving Repr, DecidableEq

/-- `packed_coils_len` -/
def packedCoilsLen (bitcount : Nat) : Nat := (bitcount + 7) / 8

/-- the PUBLIC function `packed_coils_len(bitcount: usize)` called directly: `bitcount + 7` is a checked
    addition, so arguments above `usize::MAX - 7` panic.  Every internal call site passes a `u16` quantity
    or a slice length, far below that, which is why the rest of the model uses the plain `packedCoilsLen`. -/
def packedCoilsLenPub (bitcount : Nat) : Res Nat :=
  if bitcount + 7 < usizeLimit then .ok (packedCoilsLen bitcount) else .panic

/-- `bool_to_u16_coil` -/
def boolToU16Coil (state : Bool) : UInt16 := if state then 0xFF00 else 0x0000

/-- `u16_coil_to_bool` -/
def u16CoilToBool (coil : UInt16) : Res Bool :=
  if coil = 0xFF00 then .ok true
  else if coil = 0x0000 then .ok false
  else .err (.coilValue coil)

/-- `(byte >> k) & 1 > 0` for `k < 8` -/
def bitOf (b : UInt8) (k : Nat) : Bool := b.toNat.testBit k

/-- `byte |= v << k` for `k < 8`, `v ∈ {0,1}` -/
def orBitByte (x : UInt8) (k : Nat) (b : Bool) : UInt8 := UInt8.ofNat (x.toNat ||| (b.toNat <<< k))

/-- one iteration of the packing loop: `bytes[i / 8] |= v << (i % 8)` -/
def orBit (buf : Bytes) (i : Nat) (b : Bool) : Res Bytes :=
  match buf[i / 8]? with
  | some x => .ok (buf.set (i / 8) (orBitByte x (i % 8) b))
  | none => .panic

def packLoop : List Bool → Nat → Bytes → Res Bytes
  | [], _, buf => .ok buf
  | b :: bs, i, buf =>
    match orBit buf i b with
    | .ok buf' => packLoop bs (i + 1) buf'
    | .err e => .err e
    | .panic => .panic

/-- `pack_coils` (frame/coils.rs): length check, clear the packed bytes, OR the bits in.
    Returns the packed size and the whole target afterwards. -/
def packCoils (coils : List Bool) (bytes : Bytes) : Res (Nat × Bytes) :=
  let packedSize := packedCoilsLen coils.length
  if bytes.length < packedSize then .err .bufferSize
  else (packLoop coils 0 (List.replicate packedSize 0 ++ bytes.drop packedSize)).map (fun b => (packedSize, b))

/-- the read loop of `unpack_coils`: `coils[i] = (bytes[i / 8] >> (i % 8)) & 1 > 0` for `i` in `0..count`;
    `n` items remain, `acc` holds the items written so far (newest first) -/
def unpackLoop (bytes : Bytes) : Nat → Nat → List Bool → Res (List Bool)
  | 0, _, acc => .ok acc.reverse
  | n + 1, i, acc =>
    match bytes[i / 8]? with
    | some x => unpackLoop bytes n (i + 1) (bitOf x (i % 8) :: acc)
    | none => .panic

/-- `unpack_coils(bytes, count, coils)`; returns the output slice afterwards -/
def unpackCoils (bytes : Bytes) (count : UInt16) (coils : List Bool) : Res (List Bool) :=
  if coils.length < count.toNat ∨ bytes.length < packedCoilsLen count.toNat then .err .bufferSize
  else (unpackLoop bytes count.toNat 0 []).map (fun bs => bs ++ coils.drop count.toNat)

/-- `Coils::from_bools(bools, target)`; the value keeps the packed bytes only: `&target[..packed_len]` -/
def Coils.fromBools (bools : List Bool) (target : Bytes) : Res Coils :=
  if bools.isEmpty then .err .bufferSize
  else (packCoils bools target).map (fun r => { data := r.2.take r.1, quantity := bools.length })

def Coils.len (c : Coils) : Nat := c.quantity
def Coils.packedLen (c : Coils) : Nat := packedCoilsLen c.quantity
def Coils.isEmpty (c : Coils) : Bool := c.quantity == 0

/-- `Coils::get(idx)` -/
def Coils.get (c : Coils) (i : Nat) : Res (Option Bool) :=
  if i ≥ c.quantity then .ok none
  else match c.data[i / 8]? with
    | some x => .ok (some (bitOf x (i % 8)))
    | none => .panic

/-- iteration (`CoilsIter::next` until `None`): fuel = quantity + 1 calls suffice -/
def Coils.iterFrom (c : Coils) : Nat → Nat → List Bool → Res (List Bool)
  | 0, _, acc => .ok acc.reverse
  | fuel + 1, i, acc =>
    match c.get i with
    | .ok (some b) => c.iterFrom fuel (i + 1) (b :: acc)
    | .ok none => .ok acc.reverse
    | .err e => .err e
    | .panic => .panic

def Coils.iter (c : Coils) : Res (List Bool) := c.iterFrom (c.quantity + 1) 0 []

/-- `x & ((1 << k) - 1)`: the low `k` bits of a byte -/
def maskLow (x : UInt8) (k : Nat) : UInt8 := UInt8.ofNat (x.toNat % 2 ^ k)

/-- `buf[len - 1] &= (1 << used) - 1` on the copied bytes -/
def maskLastByte (raw : Bytes) (used : Nat) : Bytes :=
  raw.take (raw.length - 1) ++ (raw.drop (raw.length - 1)).map (fun x => maskLow x used)

/-- `Coils::copy_to(buf)` (after the copy the unused bits of the last byte are cleared): `debug_assert!(buf.len() >= packed_len)`, then `buf[i] = self.data[i]`.
    Returns the bytes to be stored (the store itself is a `writeAt`). -/
def Coils.copyBytes (c : Coils) : Res Bytes :=
  if c.data.length < c.packedLen then .panic else
  let raw := c.data.take c.packedLen
  if c.quantity % 8 = 0 then .ok raw else .ok (maskLastByte raw (c.quantity % 8))

/-! ### Data (frame/data.rs) -/

structure Data where
  data : Bytes
  quantity : Nat
  deriving Repr, DecidableEq

def wordsBytes : List UInt16 → Bytes
  | [] => []
  | w :: ws => be16 w ++ wordsBytes ws

/-- the store loop of `from_words`: `BigEndian::write_u16(&mut target[i * 2..], w)` for each word.
    The loop writes at offsets 0, 2, 4, …, so it is modelled with a cursor: `acc` holds the bytes
    already written (newest first), the third argument is `target[i * 2..]`; it panics exactly when
    fewer than two bytes remain. -/
def Data.writeWords : List UInt16 → Bytes → Bytes → Res Bytes
  | [], rest, acc => .ok (acc.reverse ++ rest)
  | w :: ws, _ :: _ :: rest, acc =>
    Data.writeWords ws rest (UInt8.ofNat (w.toNat % 256) :: UInt8.ofNat (w.toNat / 256) :: acc)
  | _ :: _, _, _ => .panic

/-- `Data::from_words(words, target)`: writes the words big-endian and keeps `&target[..2n]` -/
def Data.fromWords (words : List UInt16) (target : Bytes) : Res Data :=
  if words.length * 2 > target.length ∨ words.isEmpty then .err .bufferSize
  else (Data.writeWords words target []).map
    (fun t => { data := t.take (words.length * 2), quantity := words.length })

def Data.len (d : Data) : Nat := d.quantity
def Data.isEmpty (d : Data) : Bool := d.quantity == 0

/-- `Data::get(idx)` -/
def Data.get (d : Data) (i : Nat) : Res (Option UInt16) :=
  if i ≥ d.quantity then .ok none
  else match d.data[i * 2]?, d.data[i * 2 + 1]? with
    | some hi, some lo => .ok (some (rd16 hi lo))
    | _, _ => .panic

def Data.iterFrom (d : Data) : Nat → Nat → List UInt16 → Res (List UInt16)
  | 0, _, acc => .ok acc.reverse
  | fuel + 1, i, acc =>
    match d.get i with
    | .ok (some w) => d.iterFrom fuel (i + 1) (w :: acc)
    | .ok none => .ok acc.reverse
    | .err e => .err e
    | .panic => .panic

def Data.iter (d : Data) : Res (List UInt16) := d.iterFrom (d.quantity + 1) 0 []

/-- `Data::copy_to(buf)`: `cnt = quantity * 2`, `buf[i] = self.data[i]` -/
def Data.copyBytes (d : Data) : Res Bytes :=
  if d.data.length < d.quantity * 2 then .panic else .ok (d.data.take (d.quantity * 2))

/-! ### Request / Response (frame/mod.rs) -/

inductive Request where
  | readCoils (a q : UInt16)
  | readDiscreteInputs (a q : UInt16)
  | writeSingleCoil (a : UInt16) (c : Bool)
  | writeMultipleCoils (a : UInt16) (coils : Coils)
  | readInputRegisters (a q : UInt16)
  | readHoldingRegisters (a q : UInt16)
  | writeSingleRegister (a w : UInt16)
  | writeMultipleRegisters (a : UInt16) (d : Data)
  | readWriteMultipleRegisters (ra rq wa : UInt16) (d : Data)
  | readExceptionStatus
  | diagnostics (sub : UInt16) (d : Data)
  | getCommEventCounter
  | getCommEventLog
  | reportServerId
  | custom (fc : FunctionCode) (data : Bytes)
  deriving Repr, DecidableEq

structure ExceptionResponse where
  function : FunctionCode
  exception : Exception
  deriving Repr, DecidableEq

inductive Response where
  | readCoils (coils : Coils)
  | readDiscreteInputs (coils : Coils)
  | writeSingleCoil (a : UInt16)
  | writeMultipleCoils (a q : UInt16)
  | readInputRegisters (d : Data)
  | readHoldingRegisters (d : Data)
  | writeSingleRegister (a w : UInt16)
  | writeMultipleRegisters (a q : UInt16)
  | readWriteMultipleRegisters (d : Data)
  | readExceptionStatus (s : UInt8)
  | diagnostics (d : Data)
  | getCommEventCounter (status count : UInt16)
  | getCommEventLog (status count msgs : UInt16) (events : Bytes)
  | reportServerId (id : Bytes) (run : Bool)
  | custom (fc : FunctionCode) (data : Bytes)
  deriving Repr, DecidableEq

/-- `ResponsePdu(Result<Response, ExceptionResponse>)` -/
inductive ResponsePdu where
  | ok (r : Response)
  | error (e : ExceptionResponse)
  deriving Repr, DecidableEq

/-- `From<Request> for FunctionCode` -/
def Request.fc : Request → FunctionCode
  | .readCoils _ _ => .readCoils
  | .readDiscreteInputs _ _ => .readDiscreteInputs
  | .writeSingleCoil _ _ => .writeSingleCoil
  | .writeMultipleCoils _ _ => .writeMultipleCoils
  | .readInputRegisters _ _ => .readInputRegisters
  | .readHoldingRegisters _ _ => .readHoldingRegisters
  | .writeSingleRegister _ _ => .writeSingleRegister
  | .writeMultipleRegisters _ _ => .writeMultipleRegisters
  | .readWriteMultipleRegisters _ _ _ _ => .readWriteMultipleRegisters
  | .readExceptionStatus => .readExceptionStatus
  | .diagnostics _ _ => .diagnostics
  | .getCommEventCounter => .getCommEventCounter
  | .getCommEventLog => .getCommEventLog
  | .reportServerId => .reportServerId
  | .custom c _ => c

/-- `From<Response> for FunctionCode` -/
def Response.fc : Response → FunctionCode
  | .readCoils _ => .readCoils
  | .readDiscreteInputs _ => .readDiscreteInputs
  | .writeSingleCoil _ => .writeSingleCoil
  | .writeMultipleCoils _ _ => .writeMultipleCoils
  | .readInputRegisters _ => .readInputRegisters
  | .readHoldingRegisters _ => .readHoldingRegisters
  | .writeSingleRegister _ _ => .writeSingleRegister
  | .writeMultipleRegisters _ _ => .writeMultipleRegisters
  | .readWriteMultipleRegisters _ => .readWriteMultipleRegisters
  | .readExceptionStatus _ => .readExceptionStatus
  | .diagnostics _ => .diagnostics
  | .getCommEventCounter _ _ => .getCommEventCounter
  | .getCommEventLog _ _ _ _ => .getCommEventLog
  | .reportServerId _ _ => .reportServerId
  | .custom c _ => c

/-- `Request::pdu_len` (the RTU-only kinds are `todo!()`) -/
def Request.pduLen : Request → Res Nat
  | .readCoils _ _ | .readDiscreteInputs _ _ | .readInputRegisters _ _ | .readHoldingRegisters _ _
  | .writeSingleRegister _ _ | .writeSingleCoil _ _ => .ok 5
  | .writeMultipleCoils _ coils => .ok (6 + coils.packedLen)
  | .writeMultipleRegisters _ words => .ok (6 + words.data.length)
  | .readWriteMultipleRegisters _ _ _ words => .ok (10 + words.data.length)
  | .custom _ data => .ok (1 + data.length)
  | _ => .panic

/-- `Response::pdu_len` (the RTU-only kinds other than ReadExceptionStatus are `unimplemented!()`) -/
def Response.pduLen : Response → Res Nat
  | .readCoils coils | .readDiscreteInputs coils => .ok (2 + coils.packedLen)
  | .writeSingleCoil _ => .ok 3
  | .writeMultipleCoils _ _ | .writeMultipleRegisters _ _ | .writeSingleRegister _ _ => .ok 5
  | .readInputRegisters words | .readHoldingRegisters words | .readWriteMultipleRegisters words =>
      .ok (2 + words.len * 2)
  | .custom _ data => .ok (1 + data.length)
  | .readExceptionStatus _ => .ok 2
  | _ => .panic

end Modbus

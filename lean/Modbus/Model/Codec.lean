import Modbus.Model.Frame
/-
Model of src/codec/mod.rs: PDU decoders (`TryFrom<&[u8]>`) and encoders (`Encode`).
-/
namespace Modbus

/-- `min_request_pdu_len` -/
def minRequestPduLen : FunctionCode → Nat
  | .readCoils | .readDiscreteInputs | .readInputRegisters | .writeSingleCoil
  | .readHoldingRegisters | .writeSingleRegister => 5
  | .writeMultipleCoils | .writeMultipleRegisters => 6
  | .readWriteMultipleRegisters => 10
  | _ => 1

/-- `min_response_pdu_len` -/
def minResponsePduLen : FunctionCode → Nat
  | .readCoils | .readDiscreteInputs | .readInputRegisters | .readHoldingRegisters
  | .readWriteMultipleRegisters => 2
  | .writeSingleCoil => 3
  | .writeMultipleCoils | .writeSingleRegister | .writeMultipleRegisters => 5
  | .readExceptionStatus => 2
  | _ => 1

/-- `ExceptionResponse::try_from(&[u8])` -/
def ExceptionResponse.decode (bytes : Bytes) : Res ExceptionResponse :=
  if bytes.length < 2 then .err .bufferSize else
  (idx bytes 0).bind fun fnErrCode =>
  if fnErrCode < 0x80 then .err (.exceptionFnCode fnErrCode) else
  (idx bytes 1).bind fun code =>
  (Exception.tryFrom code).bind fun ex =>
  .ok { function := FunctionCode.new (fnErrCode - 0x80), exception := ex }

/-- `Request::try_from(&[u8])` -/
def Request.decode (bytes : Bytes) : Res Request :=
  if bytes.isEmpty then .err .bufferSize else
  (idx bytes 0).bind fun fnCode =>
  if bytes.length < minRequestPduLen (FunctionCode.new fnCode) then .err .bufferSize else
  match FunctionCode.new fnCode with
  | .readCoils =>
    (read16 bytes 1).bind fun a => (read16 bytes 3).bind fun q => .ok (.readCoils a q)
  | .readDiscreteInputs =>
    (read16 bytes 1).bind fun a => (read16 bytes 3).bind fun q => .ok (.readDiscreteInputs a q)
  | .readInputRegisters =>
    (read16 bytes 1).bind fun a => (read16 bytes 3).bind fun q => .ok (.readInputRegisters a q)
  | .readHoldingRegisters =>
    (read16 bytes 1).bind fun a => (read16 bytes 3).bind fun q => .ok (.readHoldingRegisters a q)
  | .writeSingleRegister =>
    (read16 bytes 1).bind fun a => (read16 bytes 3).bind fun q => .ok (.writeSingleRegister a q)
  | .writeSingleCoil =>
    (read16 bytes 1).bind fun a => (read16 bytes 3).bind fun v =>
    (u16CoilToBool v).bind fun c => .ok (.writeSingleCoil a c)
  | .writeMultipleCoils =>
    (read16 bytes 1).bind fun a => (read16 bytes 3).bind fun q =>
    (idx bytes 5).bind fun byteCount =>
    if bytes.length < 6 + byteCount.toNat ∨ packedCoilsLen q.toNat > 255 then .err (.byteCount byteCount) else
    (sliceFrom bytes 6).bind fun data =>
    .ok (.writeMultipleCoils a { data := data, quantity := q.toNat })
  | .writeMultipleRegisters =>
    (read16 bytes 1).bind fun a => (read16 bytes 3).bind fun q =>
    (idx bytes 5).bind fun byteCount =>
    if bytes.length < 6 + byteCount.toNat ∨ byteCount.toNat ≠ q.toNat * 2 then .err (.byteCount byteCount) else
    (slice bytes 6 (6 + byteCount.toNat)).bind fun data =>
    .ok (.writeMultipleRegisters a { data := data, quantity := q.toNat })
  | .readWriteMultipleRegisters =>
    (read16 bytes 1).bind fun ra => (read16 bytes 3).bind fun rq =>
    (read16 bytes 5).bind fun wa => (read16 bytes 7).bind fun wq =>
    (idx bytes 9).bind fun writeCount =>
    if bytes.length < 10 + writeCount.toNat ∨ writeCount.toNat ≠ wq.toNat * 2 then .err (.byteCount writeCount) else
    (slice bytes 10 (10 + writeCount.toNat)).bind fun data =>
    .ok (.readWriteMultipleRegisters ra rq wa { data := data, quantity := wq.toNat })
  | _ =>
    if fnCode < 0x80 then (sliceFrom bytes 1).bind fun d => .ok (.custom (.custom fnCode) d)
    else .err (.fnCode fnCode)

/-- `Response::try_from(&[u8])` -/
def Response.decode (bytes : Bytes) : Res Response :=
  if bytes.isEmpty then .err .bufferSize else
  (idx bytes 0).bind fun fnCode =>
  if bytes.length < minResponsePduLen (FunctionCode.new fnCode) then .err .bufferSize else
  match FunctionCode.new fnCode with
  | .readCoils =>
    (idx bytes 1).bind fun bc =>
    if bc.toNat + 2 > bytes.length then .err .bufferSize else
    (slice bytes 2 (bc.toNat + 2)).bind fun data =>
    .ok (.readCoils { data := data, quantity := bc.toNat * 8 })
  | .readDiscreteInputs =>
    (idx bytes 1).bind fun bc =>
    if bc.toNat + 2 > bytes.length then .err .bufferSize else
    (slice bytes 2 (bc.toNat + 2)).bind fun data =>
    .ok (.readDiscreteInputs { data := data, quantity := bc.toNat * 8 })
  | .writeSingleCoil =>
    (read16 bytes 1).bind fun a => .ok (.writeSingleCoil a)
  | .writeMultipleCoils =>
    (read16 bytes 1).bind fun a => (read16 bytes 3).bind fun p => .ok (.writeMultipleCoils a p)
  | .writeSingleRegister =>
    (read16 bytes 1).bind fun a => (read16 bytes 3).bind fun p => .ok (.writeSingleRegister a p)
  | .writeMultipleRegisters =>
    (read16 bytes 1).bind fun a => (read16 bytes 3).bind fun p => .ok (.writeMultipleRegisters a p)
  | .readInputRegisters =>
    (idx bytes 1).bind fun bc =>
    if bc.toNat + 2 > bytes.length then .err .bufferSize else
    (slice bytes 2 (2 + bc.toNat / 2 * 2)).bind fun data =>
    .ok (.readInputRegisters { data := data, quantity := bc.toNat / 2 })
  | .readHoldingRegisters =>
    (idx bytes 1).bind fun bc =>
    if bc.toNat + 2 > bytes.length then .err .bufferSize else
    (slice bytes 2 (2 + bc.toNat / 2 * 2)).bind fun data =>
    .ok (.readHoldingRegisters { data := data, quantity := bc.toNat / 2 })
  | .readWriteMultipleRegisters =>
    (idx bytes 1).bind fun bc =>
    if bc.toNat + 2 > bytes.length then .err .bufferSize else
    (slice bytes 2 (2 + bc.toNat / 2 * 2)).bind fun data =>
    .ok (.readWriteMultipleRegisters { data := data, quantity := bc.toNat / 2 })
  | .readExceptionStatus =>
    (idx bytes 1).bind fun s => .ok (.readExceptionStatus s)
  | _ =>
    (sliceFrom bytes 1).bind fun d => .ok (.custom (FunctionCode.new fnCode) d)

/-! ### Encoders.  `encode : value → buffer → Res (written, buffer afterwards)`.
Each body is the list of stores the Rust performs, in order (`applyWrites`). -/

def finish (n : Nat) (r : Res Bytes) : Res (Nat × Bytes) := r.map (fun b => (n, b))

/-- `impl Encode for Request` -/
def Request.encode (r : Request) (buf : Bytes) : Res (Nat × Bytes) :=
  r.pduLen.bind fun n =>
  if buf.length < n then .err .bufferSize else
  let fc := r.fc.value
  match r with
  | .readCoils a p | .readDiscreteInputs a p | .readInputRegisters a p | .readHoldingRegisters a p
  | .writeSingleRegister a p =>
    finish n (applyWrites buf [(0, [fc]), (1, be16 a), (3, be16 p)])
  | .writeSingleCoil a s =>
    finish n (applyWrites buf [(0, [fc]), (1, be16 a), (3, be16 (boolToU16Coil s))])
  | .writeMultipleCoils a coils =>
    (applyWrites buf [(0, [fc]), (1, be16 a)]).bind fun buf =>
    (u8TryFrom coils.packedLen).bind fun bc =>
    (applyWrites buf [(3, be16 (UInt16.ofNat coils.len)), (5, [bc])]).bind fun buf =>
    coils.copyBytes.bind fun payload =>
    finish n (applyWrites buf [(6, payload)])
  | .writeMultipleRegisters a words =>
    (applyWrites buf [(0, [fc]), (1, be16 a)]).bind fun buf =>
    (u8TryFrom (words.len * 2)).bind fun bc =>
    finish n (applyWrites buf [(3, be16 (UInt16.ofNat words.len)), (5, [bc]), (6, words.data)])
  | .readWriteMultipleRegisters ra q wa words =>
    (applyWrites buf [(0, [fc]), (1, be16 ra), (3, be16 q), (5, be16 wa)]).bind fun buf =>
    (u8TryFrom (words.len * 2)).bind fun bc =>
    finish n (applyWrites buf [(7, be16 (UInt16.ofNat words.len)), (9, [bc]), (10, words.data)])
  | .custom _ d =>
    finish n (applyWrites buf [(0, [fc]), (1, d)])
  | _ => .panic

/-- `impl Encode for Response` -/
def Response.encode (r : Response) (buf : Bytes) : Res (Nat × Bytes) :=
  r.pduLen.bind fun n =>
  if buf.length < n then .err .bufferSize else
  let fc := r.fc.value
  match r with
  | .readCoils coils | .readDiscreteInputs coils =>
    (applyWrites buf [(0, [fc])]).bind fun buf =>
    (u8TryFrom coils.packedLen).bind fun bc =>
    (applyWrites buf [(1, [bc])]).bind fun buf =>
    coils.copyBytes.bind fun payload =>
    finish n (applyWrites buf [(2, payload)])
  | .readInputRegisters regs | .readHoldingRegisters regs | .readWriteMultipleRegisters regs =>
    (applyWrites buf [(0, [fc])]).bind fun buf =>
    (u8TryFrom (regs.len * 2)).bind fun bc =>
    (applyWrites buf [(1, [bc])]).bind fun buf =>
    regs.copyBytes.bind fun payload =>
    finish n (applyWrites buf [(2, payload)])
  | .writeSingleCoil a =>
    finish n (applyWrites buf [(0, [fc]), (1, be16 a)])
  | .writeMultipleCoils a p | .writeMultipleRegisters a p | .writeSingleRegister a p =>
    finish n (applyWrites buf [(0, [fc]), (1, be16 a), (3, be16 p)])
  | .custom _ d =>
    finish n (applyWrites buf [(0, [fc]), (1, d)])
  | .readExceptionStatus s =>
    finish n (applyWrites buf [(0, [fc]), (1, [s])])
  | _ => .panic

/-- `From<ExceptionResponse> for [u8; 2]` (`debug_assert!(fn_code < 0x80)`, `fn_code + 0x80`) -/
def ExceptionResponse.toBytes (e : ExceptionResponse) : Res (UInt8 × UInt8) :=
  if e.function.value < 0x80 then .ok (e.function.value + 0x80, e.exception.val) else .panic

/-- `impl Encode for ExceptionResponse` -/
def ExceptionResponse.encode (e : ExceptionResponse) (buf : Bytes) : Res (Nat × Bytes) :=
  if buf.length < 2 then .err .bufferSize else
  e.toBytes.bind fun ce => finish 2 (applyWrites buf [(0, [ce.1]), (1, [ce.2])])

/-- `impl Encode for RequestPdu` -/
def RequestPdu.encode (r : Request) (buf : Bytes) : Res (Nat × Bytes) := r.encode buf

/-- `impl Encode for ResponsePdu` -/
def ResponsePdu.encode (p : ResponsePdu) (buf : Bytes) : Res (Nat × Bytes) :=
  if buf.isEmpty then .err .bufferSize else
  match p with
  | .ok r => r.encode buf
  | .error e => e.encode buf

end Modbus

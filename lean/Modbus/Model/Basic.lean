/-
Model of slowtec/modbus-core — basic vocabulary.

Conventions (DESIGN.md §2): every Rust panic site is an explicit `Res.panic`; `u8 = UInt8`,
`u16 = UInt16`, `usize = Nat` (with explicit 2^64 overflow where a caller controls the value);
`&[u8] = List UInt8`.  No totalising defaults inside modelled functions.
-/
namespace Modbus

abbrev Bytes := List UInt8

/-- `modbus_core::Error` (src/error.rs) -/
inductive Error where
  | coilValue (v : UInt16)
  | bufferSize
  | fnCode (c : UInt8)
  | exceptionCode (c : UInt8)
  | exceptionFnCode (c : UInt8)
  | crc (expected actual : UInt16)
  | byteCount (c : UInt8)
  | lengthMismatch (lengthField pduLenPlus1 : Nat)
  | protocolNotModbus (p : UInt16)
  deriving Repr, DecidableEq

/-- outcome of a modelled Rust call: `Ok`, `Err`, or a panic (index, slice, overflow, `unreachable!`, `todo!`) -/
inductive Res (α : Type) where
  | ok (a : α)
  | err (e : Error)
  | panic
  deriving Repr, DecidableEq

namespace Res
@[inline] def bind {α β} (x : Res α) (f : α → Res β) : Res β :=
  match x with
  | .ok a => f a
  | .err e => .err e
  | .panic => .panic

@[inline] def map {α β} (f : α → β) (x : Res α) : Res β :=
  match x with
  | .ok a => .ok (f a)
  | .err e => .err e
  | .panic => .panic

instance : Monad Res where
  pure := .ok
  bind := Res.bind

def isOk {α} : Res α → Bool | .ok _ => true | _ => false
def isErr {α} : Res α → Bool | .err _ => true | _ => false
def isPanic {α} : Res α → Bool | .panic => true | _ => false

@[simp] theorem bind_ok {α β} (a : α) (f : α → Res β) : (Res.ok a >>= f) = f a := rfl
@[simp] theorem bind_err {α β} (e : Error) (f : α → Res β) : ((Res.err e : Res α) >>= f) = .err e := rfl
@[simp] theorem bind_panic {α β} (f : α → Res β) : ((Res.panic : Res α) >>= f) = .panic := rfl
@[simp] theorem pure_eq {α} (a : α) : (pure a : Res α) = .ok a := rfl
@[simp] theorem bind'_ok {α β} (a : α) (f : α → Res β) : (Res.ok a).bind f = f a := rfl
@[simp] theorem bind'_err {α β} (e : Error) (f : α → Res β) : (Res.err e : Res α).bind f = .err e := rfl
@[simp] theorem bind'_panic {α β} (f : α → Res β) : (Res.panic : Res α).bind f = .panic := rfl
@[simp] theorem map_ok {α β} (a : α) (f : α → β) : (Res.ok a).map f = .ok (f a) := rfl
@[simp] theorem map_err {α β} (e : Error) (f : α → β) : (Res.err e : Res α).map f = .err e := rfl
@[simp] theorem map_panic {α β} (f : α → β) : (Res.panic : Res α).map f = .panic := rfl
end Res

/-- `usize::MAX + 1` on the 64-bit target the tests run on -/
def usizeLimit : Nat := 18446744073709551616

/-- `BigEndian::write_u16` image of a word -/
def be16 (v : UInt16) : Bytes := [UInt8.ofNat (v.toNat / 256), UInt8.ofNat (v.toNat % 256)]

/-- `BigEndian::read_u16` of two bytes -/
def rd16 (hi lo : UInt8) : UInt16 := UInt16.ofNat (hi.toNat * 256 + lo.toNat)

/-- `b[i]` -/
def idx (b : Bytes) (i : Nat) : Res UInt8 :=
  match b[i]? with
  | some x => .ok x
  | none => .panic

/-- `BigEndian::read_u16(&b[i..])` / `read_u16(&b[i..i+2])`: panics unless two bytes are there -/
def read16 (b : Bytes) (i : Nat) : Res UInt16 :=
  match b[i]?, b[i+1]? with
  | some hi, some lo => .ok (rd16 hi lo)
  | _, _ => .panic

/-- `&b[i..]` -/
def sliceFrom (b : Bytes) (i : Nat) : Res Bytes :=
  if i ≤ b.length then .ok (b.drop i) else .panic

/-- `&b[i..j]` -/
def slice (b : Bytes) (i j : Nat) : Res Bytes :=
  if i ≤ j ∧ j ≤ b.length then .ok ((b.drop i).take (j - i)) else .panic

/-- write `bs` into `buf` at `off` (one Rust store statement or copy loop); an empty write never indexes -/
def writeAt (buf : Bytes) (off : Nat) (bs : Bytes) : Res Bytes :=
  if bs = [] then .ok buf
  else if off + bs.length ≤ buf.length then .ok (buf.take off ++ bs ++ buf.drop (off + bs.length))
  else .panic

/-- run a list of checked writes, left to right -/
def applyWrites (buf : Bytes) : List (Nat × Bytes) → Res Bytes
  | [] => .ok buf
  | (off, bs) :: ws =>
    match writeAt buf off bs with
    | .ok b => applyWrites b ws
    | .err e => .err e
    | .panic => .panic

/-- `u8::try_from(n).map_err(|_| Error::BufferSize)` -/
def u8TryFrom (n : Nat) : Res UInt8 :=
  if n ≤ 255 then .ok (UInt8.ofNat n) else .err .bufferSize

/-- `u16::try_from(n).map_err(|_| Error::BufferSize)` -/
def u16TryFrom (n : Nat) : Res UInt16 :=
  if n ≤ 65535 then .ok (UInt16.ofNat n) else .err .bufferSize

end Modbus

import Modbus.Model.Frame
import Modbus.Spec.Bits
import Modbus.Lemmas.Coils
import Modbus.Lemmas.Words
/-
Proved-equal fast implementations of the model's list loops, substituted by the compiler through
`@[csimp]`.  The model definitions in `Modbus/Model/Frame.lean` stay as they are (they follow the
Rust loops bit by bit and are quadratic on lists); every theorem below is a function-level equality
`@f = @fFast`, so compiled code that imports this module runs the one-pass version while all proofs
keep talking about the original.

  packCoils        -> packCoilsFast        eight coils per step, one pass
  Coils.fromBools  -> Coils.fromBoolsFast  same text, recompiled here so that it calls the fast packCoils
  Coils.iter       -> Coils.iterFast       one pass over the data bytes, same panic behaviour
  unpackCoils      -> unpackCoilsFast      one pass over the bytes
  Data.get         -> Data.getFast         one walk down the list instead of two
  Data.iter        -> Data.iterFast        one pass, two bytes per step, same panic behaviour
  Coils.getAll     -> Coils.getAllFast     (new helper) `get 0 … get (len-1)` in one pass
  Data.getAll      -> Data.getAllFast      (new helper) `get 0 … get (len-1)` in one pass

`csimp` only affects declarations compiled after the lemma is in scope; callers that were compiled
in `Frame.lean` (only `Coils.fromBools`) therefore get their own lemma.
-/
namespace Modbus
namespace Fast

/-- the byte with the given eight bits, LSB first -/
def byteOf8 (c0 c1 c2 c3 c4 c5 c6 c7 : Bool) : UInt8 :=
  (if c0 then 1 else 0) ||| (if c1 then 2 else 0) ||| (if c2 then 4 else 0) ||| (if c3 then 8 else 0) |||
  (if c4 then 16 else 0) ||| (if c5 then 32 else 0) ||| (if c6 then 64 else 0) ||| (if c7 then 128 else 0)

theorem byteOf8_eq : ∀ c0 c1 c2 c3 c4 c5 c6 c7 : Bool,
    byteOf8 c0 c1 c2 c3 c4 c5 c6 c7 = UInt8.ofNat (byteOfBits c0 c1 c2 c3 c4 c5 c6 c7) := by
  decide +kernel

/-- pack eight coils per step; `acc` holds the bytes produced so far, newest first -/
def packBitsAux : List Bool → Bytes → Bytes
  | c0 :: c1 :: c2 :: c3 :: c4 :: c5 :: c6 :: c7 :: rest, acc =>
      packBitsAux rest (byteOf8 c0 c1 c2 c3 c4 c5 c6 c7 :: acc)
  | [], acc => acc.reverse
  | [c0], acc => (byteOf8 c0 false false false false false false false :: acc).reverse
  | [c0, c1], acc => (byteOf8 c0 c1 false false false false false false :: acc).reverse
  | [c0, c1, c2], acc => (byteOf8 c0 c1 c2 false false false false false :: acc).reverse
  | [c0, c1, c2, c3], acc => (byteOf8 c0 c1 c2 c3 false false false false :: acc).reverse
  | [c0, c1, c2, c3, c4], acc => (byteOf8 c0 c1 c2 c3 c4 false false false :: acc).reverse
  | [c0, c1, c2, c3, c4, c5], acc => (byteOf8 c0 c1 c2 c3 c4 c5 false false :: acc).reverse
  | [c0, c1, c2, c3, c4, c5, c6], acc => (byteOf8 c0 c1 c2 c3 c4 c5 c6 false :: acc).reverse

theorem bitAt_cons (x : UInt8) (xs : Bytes) (p : Nat) :
    bitAt (x :: xs) p = if p < 8 then bitOf x p else bitAt xs (p - 8) := by
  have := bitAt_append [x] xs p
  simp only [List.singleton_append, List.length_singleton, Nat.mul_one] at this
  rw [this]
  by_cases h : p < 8
  · have e1 : p / 8 = 0 := by omega
    have e2 : p % 8 = p := by omega
    simp [h, bitAt, e1, e2]
  · simp [h]

theorem bitOf_byteOfBits (c0 c1 c2 c3 c4 c5 c6 c7 : Bool) (j : Nat) :
    bitOf (UInt8.ofNat (byteOfBits c0 c1 c2 c3 c4 c5 c6 c7)) j =
      [c0, c1, c2, c3, c4, c5, c6, c7].getD j false := by
  obtain ⟨hlt, h0, h1, h2, h3, h4, h5, h6, h7⟩ := byteOfBits_spec c0 c1 c2 c3 c4 c5 c6 c7
  match j with
  | 0 => unfold bitOf; rw [UInt8.toNat_ofNat', Nat.mod_eq_of_lt hlt]; exact h0
  | 1 => unfold bitOf; rw [UInt8.toNat_ofNat', Nat.mod_eq_of_lt hlt]; exact h1
  | 2 => unfold bitOf; rw [UInt8.toNat_ofNat', Nat.mod_eq_of_lt hlt]; exact h2
  | 3 => unfold bitOf; rw [UInt8.toNat_ofNat', Nat.mod_eq_of_lt hlt]; exact h3
  | 4 => unfold bitOf; rw [UInt8.toNat_ofNat', Nat.mod_eq_of_lt hlt]; exact h4
  | 5 => unfold bitOf; rw [UInt8.toNat_ofNat', Nat.mod_eq_of_lt hlt]; exact h5
  | 6 => unfold bitOf; rw [UInt8.toNat_ofNat', Nat.mod_eq_of_lt hlt]; exact h6
  | 7 => unfold bitOf; rw [UInt8.toNat_ofNat', Nat.mod_eq_of_lt hlt]; exact h7
  | n + 8 => rw [bitOf_ge_eight _ (by omega)]; rfl

/-- the spec's packed field, eight coils at a time -/
theorem packBits_cons8 (c0 c1 c2 c3 c4 c5 c6 c7 : Bool) (rest : List Bool) :
    Spec.packBits (c0 :: c1 :: c2 :: c3 :: c4 :: c5 :: c6 :: c7 :: rest) =
      byteOf8 c0 c1 c2 c3 c4 c5 c6 c7 :: Spec.packBits rest := by
  rw [byteOf8_eq]
  apply Bytes.ext_bitAt
  · simp only [packBits_length, List.length_cons, packedCoilsLen]; omega
  · intro p _
    rw [bitAt_packBits, bitAt_cons, bitAt_packBits, bitOf_byteOfBits]
    by_cases h : p < 8
    · rw [if_pos h]
      match p, h with
      | 0, _ => rfl
      | 1, _ => rfl
      | 2, _ => rfl
      | 3, _ => rfl
      | 4, _ => rfl
      | 5, _ => rfl
      | 6, _ => rfl
      | 7, _ => rfl
      | n + 8, h => omega
    · rw [if_neg h]
      obtain ⟨q, rfl⟩ : ∃ q, p = q + 8 := ⟨p - 8, by omega⟩
      simp

theorem packBits_short (l : List Bool) (h1 : 0 < l.length) (h8 : l.length < 8) :
    Spec.packBits l = [UInt8.ofNat (byteOfBits (l.getD 0 false) (l.getD 1 false) (l.getD 2 false)
      (l.getD 3 false) (l.getD 4 false) (l.getD 5 false) (l.getD 6 false) (l.getD 7 false))] := by
  have e : (l.length + 7) / 8 = 1 := by omega
  unfold Spec.packBits
  rw [e]
  show [UInt8.ofNat (Spec.packedByte l 0)] = _
  rw [packedByte_eq]

theorem packBitsAux_eq (l : List Bool) (acc : Bytes) :
    packBitsAux l acc = acc.reverse ++ Spec.packBits l := by
  induction l, acc using packBitsAux.induct with
  | case1 c0 c1 c2 c3 c4 c5 c6 c7 rest acc ih =>
    rw [packBitsAux, ih, packBits_cons8]; simp
  | case2 acc => simp [packBitsAux, Spec.packBits]
  | case3 c0 acc => rw [packBitsAux, byteOf8_eq, List.reverse_cons, packBits_short _ (by simp) (by simp)]; rfl
  | case4 c0 c1 acc => rw [packBitsAux, byteOf8_eq, List.reverse_cons, packBits_short _ (by simp) (by simp)]; rfl
  | case5 c0 c1 c2 acc => rw [packBitsAux, byteOf8_eq, List.reverse_cons, packBits_short _ (by simp) (by simp)]; rfl
  | case6 c0 c1 c2 c3 acc => rw [packBitsAux, byteOf8_eq, List.reverse_cons, packBits_short _ (by simp) (by simp)]; rfl
  | case7 c0 c1 c2 c3 c4 acc => rw [packBitsAux, byteOf8_eq, List.reverse_cons, packBits_short _ (by simp) (by simp)]; rfl
  | case8 c0 c1 c2 c3 c4 c5 acc => rw [packBitsAux, byteOf8_eq, List.reverse_cons, packBits_short _ (by simp) (by simp)]; rfl
  | case9 c0 c1 c2 c3 c4 c5 c6 acc => rw [packBitsAux, byteOf8_eq, List.reverse_cons, packBits_short _ (by simp) (by simp)]; rfl

/-- `pack_coils` in one pass -/
def packCoilsFast (coils : List Bool) (bytes : Bytes) : Res (Nat × Bytes) :=
  let packedSize := packedCoilsLen coils.length
  if bytes.length < packedSize then .err .bufferSize
  else .ok (packedSize, packBitsAux coils [] ++ bytes.drop packedSize)

@[csimp] theorem packCoils_eq_fast : @packCoils = @packCoilsFast := by
  funext coils bytes
  unfold packCoilsFast
  by_cases h : bytes.length < packedCoilsLen coils.length
  · simp only [if_pos h]; exact packCoils_small coils bytes h
  · simp only [if_neg h]
    rw [packCoils_eq coils bytes (by omega), packBitsAux_eq]; rfl

/-! ### reading bits: one pass over the bytes -/

/-- push bits `k, k+1, …, k+n-1` of `x` onto `acc` (newest first) -/
def pushBits (x : UInt8) : Nat → Nat → List Bool → List Bool
  | 0, _, acc => acc
  | n + 1, k, acc => pushBits x n (k + 1) (bitOf x k :: acc)

theorem pushBits_eq (x : UInt8) : ∀ (n k : Nat) (acc : List Bool),
    pushBits x n k acc = ((List.range' k n).map (bitOf x)).reverse ++ acc := by
  intro n
  induction n with
  | zero => intro k acc; simp [pushBits]
  | succ n ih => intro k acc; rw [pushBits, ih, List.range'_succ]; simp

/-- read `n` bits from the front of `data`; panics when the bytes run out first -/
def readBits : Bytes → Nat → List Bool → Res (List Bool)
  | _, 0, acc => .ok acc.reverse
  | [], _ + 1, _ => .panic
  | x :: xs, n + 1, acc => readBits xs (n + 1 - 8) (pushBits x (min (n + 1) 8) 0 acc)

theorem map_bitAt_cons (x : UInt8) (xs : Bytes) (n : Nat) :
    (List.range n).map (bitAt (x :: xs)) =
      (List.range' 0 (min n 8)).map (bitOf x) ++ (List.range (n - 8)).map (bitAt xs) := by
  apply List.ext_getElem
  · simp only [List.length_map, List.length_range, List.length_append, List.length_range']; omega
  · intro i h1 h2
    simp only [List.length_map, List.length_range] at h1
    rw [List.getElem_map, List.getElem_range, bitAt_cons]
    by_cases h : i < 8
    · rw [if_pos h, List.getElem_append_left (by simp only [List.length_map, List.length_range']; omega)]
      simp [List.getElem_range']
    · rw [if_neg h, List.getElem_append_right (by simp only [List.length_map, List.length_range']; omega)]
      have e : min n 8 = 8 := by omega
      simp [e]

theorem readBits_eq (data : Bytes) : ∀ (n : Nat) (acc : List Bool),
    readBits data n acc =
      if n ≤ 8 * data.length then .ok (acc.reverse ++ (List.range n).map (bitAt data)) else .panic := by
  induction data with
  | nil =>
    intro n acc
    cases n with
    | zero => simp [readBits]
    | succ n => simp [readBits]
  | cons x xs ih =>
    intro n acc
    cases n with
    | zero => simp [readBits]
    | succ n =>
      rw [readBits, ih, pushBits_eq, map_bitAt_cons]
      by_cases h : n + 1 ≤ 8 * (x :: xs).length
      · have h' : n + 1 - 8 ≤ 8 * xs.length := by simp only [List.length_cons] at h; omega
        rw [if_pos h, if_pos h']
        simp
      · have h' : ¬ n + 1 - 8 ≤ 8 * xs.length := by simp only [List.length_cons] at h; omega
        rw [if_neg h, if_neg h']

/-! ### `Coils::iter` -/

theorem Coils.get_of_lt (c : Coils) (i : Nat) (h : i < c.quantity) (hd : i < 8 * c.data.length) :
    c.get i = .ok (some (bitAt c.data i)) := by
  have hi : i / 8 < c.data.length := by omega
  have hx := List.getElem?_eq_getElem hi
  unfold Coils.get
  rw [if_neg (by omega)]
  simp only [hx]
  rw [← bitAt_of_getElem? hx]

theorem Coils.get_of_ge (c : Coils) (i : Nat) (h : c.quantity ≤ i) : c.get i = .ok none := by
  unfold Coils.get
  rw [if_pos h]

theorem Coils.get_panic (c : Coils) (i : Nat) (h : i < c.quantity) (hd : 8 * c.data.length ≤ i) :
    c.get i = .panic := by
  have hi : c.data.length ≤ i / 8 := by omega
  unfold Coils.get
  rw [if_neg (by omega)]
  simp [List.getElem?_eq_none hi]

/-- the slow iteration when the data covers all the coils -/
theorem Coils.iterFrom_ok (c : Coils) (hq : c.quantity ≤ 8 * c.data.length) :
    ∀ (fuel i : Nat) (acc : List Bool), i ≤ c.quantity → c.quantity - i < fuel →
      c.iterFrom fuel i acc = .ok (acc.reverse ++ (List.range' i (c.quantity - i)).map (bitAt c.data)) := by
  intro fuel
  induction fuel with
  | zero => intro i acc _ h; omega
  | succ fuel ih =>
    intro i acc hi hf
    rw [Coils.iterFrom]
    by_cases h : i < c.quantity
    · rw [Coils.get_of_lt c i h (by omega)]
      simp only
      rw [ih (i + 1) _ (by omega) (by omega)]
      have e : c.quantity - i = (c.quantity - (i + 1)) + 1 := by omega
      rw [e, List.range'_succ]
      simp
    · rw [Coils.get_of_ge c i (by omega)]
      have e : c.quantity - i = 0 := by omega
      simp [e]

/-- the slow iteration when the data is too short: it reaches the missing byte and panics -/
theorem Coils.iterFrom_panic (c : Coils) (hq : 8 * c.data.length < c.quantity) :
    ∀ (fuel i : Nat) (acc : List Bool), i < c.quantity → c.quantity - i < fuel →
      c.iterFrom fuel i acc = .panic := by
  intro fuel
  induction fuel with
  | zero => intro i acc _ h; omega
  | succ fuel ih =>
    intro i acc hi hf
    rw [Coils.iterFrom]
    by_cases h : i < 8 * c.data.length
    · rw [Coils.get_of_lt c i hi h]
      simp only
      exact ih (i + 1) _ (by omega) (by omega)
    · rw [Coils.get_panic c i hi (by omega)]

def Coils.iterFast (c : Coils) : Res (List Bool) := readBits c.data c.quantity []

@[csimp] theorem Coils.iter_eq_fast : @Coils.iter = @Coils.iterFast := by
  funext c
  unfold Coils.iter Coils.iterFast
  rw [readBits_eq]
  by_cases h : c.quantity ≤ 8 * c.data.length
  · rw [if_pos h, Coils.iterFrom_ok c h _ 0 [] (by omega) (by omega)]
    simp [List.range_eq_range']
  · rw [if_neg h, Coils.iterFrom_panic c (by omega) _ 0 [] (by omega) (by omega)]

/-! ### `unpack_coils` -/

def unpackCoilsFast (bytes : Bytes) (count : UInt16) (coils : List Bool) : Res (List Bool) :=
  if coils.length < count.toNat ∨ bytes.length < packedCoilsLen count.toNat then .err .bufferSize
  else (readBits bytes count.toNat []).map (fun bs => bs ++ coils.drop count.toNat)

@[csimp] theorem unpackCoils_eq_fast : @unpackCoils = @unpackCoilsFast := by
  funext bytes count coils
  unfold unpackCoilsFast
  by_cases h : coils.length < count.toNat ∨ bytes.length < packedCoilsLen count.toNat
  · rw [if_pos h]; unfold unpackCoils; rw [if_pos h]
  · rw [if_neg h]
    have hb := packedCoilsLen_bound count.toNat
    rw [unpackCoils_eq bytes count coils (by omega) (by omega), readBits_eq, if_pos (by omega)]
    simp

/-! ### `Coils::from_bools`: same text, compiled against the fast `packCoils` -/

def Coils.fromBoolsFast (bools : List Bool) (target : Bytes) : Res Coils :=
  if bools.isEmpty then .err .bufferSize
  else (packCoils bools target).map (fun r => { data := r.2.take r.1, quantity := bools.length })

@[csimp] theorem Coils.fromBools_eq_fast : @Coils.fromBools = @Coils.fromBoolsFast := rfl

/-! ### `Data::get`, `Data::iter` -/

/-- `Data::get` with one walk down the list instead of two -/
def Data.getFast (d : Data) (i : Nat) : Res (Option UInt16) :=
  if i ≥ d.quantity then .ok none
  else match d.data.drop (i * 2) with
    | hi :: lo :: _ => .ok (some (rd16 hi lo))
    | _ => .panic

theorem Data.get_eq_drop (d : Data) (i : Nat) :
    d.get i =
      if i ≥ d.quantity then .ok none
      else match d.data.drop (i * 2) with
        | hi :: lo :: _ => .ok (some (rd16 hi lo))
        | _ => .panic := by
  unfold Data.get
  by_cases h : i ≥ d.quantity
  · rw [if_pos h, if_pos h]
  · rw [if_neg h, if_neg h]
    have h0 : d.data[i * 2]? = (d.data.drop (i * 2))[0]? := by simp [List.getElem?_drop]
    have h1 : d.data[i * 2 + 1]? = (d.data.drop (i * 2))[1]? := by simp [List.getElem?_drop]
    rw [h0, h1]
    match d.data.drop (i * 2) with
    | [] => rfl
    | [_] => rfl
    | _ :: _ :: _ => rfl

@[csimp] theorem Data.get_eq_fast : @Data.get = @Data.getFast := by
  funext d i
  rw [Data.get_eq_drop]; rfl

/-- read `n` big-endian words from the front of the bytes; panics when fewer than two bytes remain -/
def readWords : Bytes → Nat → List UInt16 → Res (List UInt16)
  | _, 0, acc => .ok acc.reverse
  | hi :: lo :: rest, n + 1, acc => readWords rest n (rd16 hi lo :: acc)
  | [], _ + 1, _ => .panic
  | [_], _ + 1, _ => .panic

/-- the slow iteration from word `i` is the one-pass reader on the bytes from offset `2i` -/
theorem Data.iterFrom_eq (d : Data) :
    ∀ (fuel i : Nat) (acc : List UInt16), i ≤ d.quantity → d.quantity - i < fuel →
      d.iterFrom fuel i acc = readWords (d.data.drop (i * 2)) (d.quantity - i) acc := by
  intro fuel
  induction fuel with
  | zero => intro i acc _ h; omega
  | succ fuel ih =>
    intro i acc hi hf
    rw [Data.iterFrom, Data.get_eq_drop]
    by_cases h : i < d.quantity
    · rw [if_neg (by omega)]
      have e : d.quantity - i = (d.quantity - (i + 1)) + 1 := by omega
      have hdrop : d.data.drop ((i + 1) * 2) = (d.data.drop (i * 2)).drop 2 := by
        rw [List.drop_drop]; congr 1; omega
      have ih' := fun acc' => ih (i + 1) acc' (by omega) (by omega)
      rw [hdrop] at ih'
      rw [e]
      generalize d.data.drop (i * 2) = t at ih'
      match t with
      | [] => simp [readWords]
      | [_] => simp [readWords]
      | hi :: lo :: rest =>
        simp only [readWords]
        rw [ih']
        rfl
    · rw [if_pos (by omega)]
      have e : d.quantity - i = 0 := by omega
      rw [e]
      cases d.data.drop (i * 2) <;> simp [readWords]

def Data.iterFast (d : Data) : Res (List UInt16) := readWords d.data d.quantity []

@[csimp] theorem Data.iter_eq_fast : @Data.iter = @Data.iterFast := by
  funext d
  unfold Data.iter Data.iterFast
  rw [Data.iterFrom_eq d _ 0 [] (by omega) (by omega)]
  rfl

/-! ### every `get` at once (for printing a whole value)

`Coils.getAll` / `Data.getAll` are not part of the model: they name the list `get 0, …, get (len-1)` that the
driver prints, so that it too can be computed in one pass (each single `get i` on a list costs `O(i)`). -/

end Fast

/-- what `get` returns at every valid index, in order (the driver prints exactly this) -/
def Coils.getAll (c : Coils) : List (Res (Option Bool)) := (List.range c.quantity).map fun i => c.get i

/-- what `get` returns at every valid index, in order -/
def Data.getAll (d : Data) : List (Res (Option UInt16)) := (List.range d.quantity).map fun i => d.get i

namespace Fast

/-- `Coils::get` below `quantity`: the indexed bit, or a panic when the byte is missing -/
def getBit (data : Bytes) (i : Nat) : Res (Option Bool) :=
  match data[i / 8]? with
  | some x => .ok (some (bitOf x (i % 8)))
  | none => .panic

theorem Coils.get_eq_getBit (c : Coils) (i : Nat) (h : i < c.quantity) : c.get i = getBit c.data i := by
  unfold Coils.get getBit
  rw [if_neg (by omega)]
  cases c.data[i / 8]? <;> rfl

theorem getBit_nil (i : Nat) : getBit [] i = .panic := by simp [getBit]

theorem getBit_cons (x : UInt8) (xs : Bytes) (i : Nat) :
    getBit (x :: xs) i = if i < 8 then .ok (some (bitOf x i)) else getBit xs (i - 8) := by
  unfold getBit
  by_cases h : i < 8
  · have e1 : i / 8 = 0 := by omega
    have e2 : i % 8 = i := by omega
    simp [h, e1, e2]
  · have e1 : i / 8 = (i - 8) / 8 + 1 := by omega
    have e2 : (i - 8) % 8 = i % 8 := by omega
    rw [if_neg h, e1, List.getElem?_cons_succ, e2]

/-- push `get`'s answers for bits `k, …, k+n-1` of `x` onto `acc` (newest first) -/
def pushGets (x : UInt8) : Nat → Nat → List (Res (Option Bool)) → List (Res (Option Bool))
  | 0, _, acc => acc
  | n + 1, k, acc => pushGets x n (k + 1) (.ok (some (bitOf x k)) :: acc)

theorem pushGets_eq (x : UInt8) : ∀ (n k : Nat) (acc : List (Res (Option Bool))),
    pushGets x n k acc = ((List.range' k n).map fun j => Res.ok (some (bitOf x j))).reverse ++ acc := by
  intro n
  induction n with
  | zero => intro k acc; simp [pushGets]
  | succ n ih => intro k acc; rw [pushGets, ih, List.range'_succ]; simp

/-- `get 0 … get (n-1)` in one pass over the bytes -/
def getBits : Bytes → Nat → List (Res (Option Bool)) → List (Res (Option Bool))
  | _, 0, acc => acc.reverse
  | [], n + 1, acc => acc.reverse ++ List.replicate (n + 1) .panic
  | x :: xs, n + 1, acc => getBits xs (n + 1 - 8) (pushGets x (min (n + 1) 8) 0 acc)

theorem map_getBit_cons (x : UInt8) (xs : Bytes) (n : Nat) :
    (List.range n).map (getBit (x :: xs)) =
      ((List.range' 0 (min n 8)).map fun j => Res.ok (some (bitOf x j))) ++ (List.range (n - 8)).map (getBit xs) := by
  apply List.ext_getElem
  · simp only [List.length_map, List.length_range, List.length_append, List.length_range']; omega
  · intro i h1 h2
    simp only [List.length_map, List.length_range] at h1
    rw [List.getElem_map, List.getElem_range, getBit_cons]
    by_cases h : i < 8
    · rw [if_pos h, List.getElem_append_left (by simp only [List.length_map, List.length_range']; omega)]
      simp [List.getElem_range']
    · rw [if_neg h, List.getElem_append_right (by simp only [List.length_map, List.length_range']; omega)]
      have e : min n 8 = 8 := by omega
      simp [e]

theorem getBits_eq (data : Bytes) : ∀ (n : Nat) (acc : List (Res (Option Bool))),
    getBits data n acc = acc.reverse ++ (List.range n).map (getBit data) := by
  induction data with
  | nil =>
    intro n acc
    cases n with
    | zero => simp [getBits]
    | succ n =>
      rw [getBits]
      congr 1
      apply List.ext_getElem (by simp)
      intro i h1 h2
      simp [getBit_nil]
  | cons x xs ih =>
    intro n acc
    cases n with
    | zero => simp [getBits]
    | succ n => rw [getBits, ih, pushGets_eq, map_getBit_cons]; simp

def Coils.getAllFast (c : Coils) : List (Res (Option Bool)) := getBits c.data c.quantity []

@[csimp] theorem Coils.getAll_eq_fast : @Coils.getAll = @Coils.getAllFast := by
  funext c
  unfold Coils.getAll Coils.getAllFast
  rw [getBits_eq]
  simp only [List.reverse_nil, List.nil_append]
  apply List.map_congr_left
  intro i hi
  exact Coils.get_eq_getBit c i (List.mem_range.mp hi)

/-- `Data::get` below `quantity`: the word at byte offset `2i`, or a panic when it is not all there -/
def getWord (data : Bytes) (i : Nat) : Res (Option UInt16) :=
  match data.drop (i * 2) with
  | hi :: lo :: _ => .ok (some (rd16 hi lo))
  | _ => .panic

theorem Data.get_eq_getWord (d : Data) (i : Nat) (h : i < d.quantity) : d.get i = getWord d.data i := by
  rw [Data.get_eq_drop, if_neg (by omega)]; rfl

theorem getWord_nil (i : Nat) : getWord [] i = .panic := by simp [getWord]

theorem getWord_single (x : UInt8) (i : Nat) : getWord [x] i = .panic := by
  cases i with
  | zero => simp [getWord]
  | succ i =>
    have e : (i + 1) * 2 = (i * 2 + 1) + 1 := by omega
    simp [getWord, e]

theorem getWord_zero (hi lo : UInt8) (rest : Bytes) : getWord (hi :: lo :: rest) 0 = .ok (some (rd16 hi lo)) := by
  simp [getWord]

theorem getWord_succ (hi lo : UInt8) (rest : Bytes) (i : Nat) :
    getWord (hi :: lo :: rest) (i + 1) = getWord rest i := by
  have e : (i + 1) * 2 = (i * 2 + 1) + 1 := by omega
  simp [getWord, e]

/-- `get 0 … get (n-1)` in one pass, two bytes per step -/
def getWords : Bytes → Nat → List (Res (Option UInt16)) → List (Res (Option UInt16))
  | _, 0, acc => acc.reverse
  | hi :: lo :: rest, n + 1, acc => getWords rest n (.ok (some (rd16 hi lo)) :: acc)
  | [], n + 1, acc => acc.reverse ++ List.replicate (n + 1) .panic
  | [_], n + 1, acc => acc.reverse ++ List.replicate (n + 1) .panic

theorem map_const_panic {α} (f : Nat → Res α) (n : Nat) (h : ∀ i, f i = .panic) :
    (List.range n).map f = List.replicate n .panic := by
  apply List.ext_getElem (by simp)
  intro i h1 h2
  simp [h]

theorem getWords_eq : ∀ (n : Nat) (data : Bytes) (acc : List (Res (Option UInt16))),
    getWords data n acc = acc.reverse ++ (List.range n).map (getWord data) := by
  intro n
  induction n with
  | zero => intro data acc; simp [getWords]
  | succ n ih =>
    intro data acc
    match data with
    | [] => rw [getWords, map_const_panic _ _ getWord_nil]
    | [x] => rw [getWords, map_const_panic _ _ (getWord_single x)]
    | hi :: lo :: rest =>
      rw [getWords, ih, List.range_succ_eq_map, List.map_cons, List.map_map, getWord_zero]
      have : (getWord (hi :: lo :: rest) ∘ Nat.succ) = getWord rest := by
        funext i; exact getWord_succ hi lo rest i
      rw [this]
      simp

def Data.getAllFast (d : Data) : List (Res (Option UInt16)) := getWords d.data d.quantity []

@[csimp] theorem Data.getAll_eq_fast : @Data.getAll = @Data.getAllFast := by
  funext d
  unfold Data.getAll Data.getAllFast
  rw [getWords_eq]
  simp only [List.reverse_nil, List.nil_append]
  apply List.map_congr_left
  intro i hi
  exact Data.get_eq_getWord d i (List.mem_range.mp hi)

/-! ### sanity instances -/

example : packCoilsFast [true, false, true] [0xAA, 0xBB] = .ok (1, [5, 0xBB]) := by decide
example : packCoilsFast [true, false, true, true, false, false, false, true, true] [0xAA, 0xBB, 0xCC] =
    .ok (2, [0x8D, 0x01, 0xCC]) := by decide
example : packCoilsFast [true, false, true, true, false, false, false, true, true] [0xAA] = .err .bufferSize := by
  decide
example : Coils.iterFast ⟨[0x8D, 0x01], 9⟩ = .ok [true, false, true, true, false, false, false, true, true] := by
  decide
example : Coils.iterFast ⟨[0x8D], 9⟩ = .panic := by decide
example : Coils.iter ⟨[0x8D], 9⟩ = .panic := by decide
example : unpackCoilsFast [0x8D, 0x01] 9 (List.replicate 10 false) =
    .ok [true, false, true, true, false, false, false, true, true, false] := by decide
example : Data.iterFast ⟨[0x12, 0x34, 0x56, 0x78], 2⟩ = .ok [0x1234, 0x5678] := by decide
example : Data.iterFast ⟨[0x12, 0x34, 0x56], 2⟩ = .panic := by decide
example : Data.iter ⟨[0x12, 0x34, 0x56], 2⟩ = .panic := by decide
example : Data.getFast ⟨[0x12, 0x34, 0x56], 2⟩ 1 = .panic := by decide
example : Data.getFast ⟨[0x12, 0x34, 0x56, 0x78], 2⟩ 1 = .ok (some 0x5678) := by decide

example : Coils.getAllFast ⟨[0x05], 10⟩ =
    [.ok (some true), .ok (some false), .ok (some true), .ok (some false), .ok (some false), .ok (some false),
     .ok (some false), .ok (some false), .panic, .panic] := by decide
example : Coils.getAll ⟨[0x05], 10⟩ = Coils.getAllFast ⟨[0x05], 10⟩ := by decide
example : Data.getAllFast ⟨[0x12, 0x34, 0x56], 3⟩ = [.ok (some 0x1234), .panic, .panic] := by decide
example : Data.getAll ⟨[0x12, 0x34, 0x56], 3⟩ = Data.getAllFast ⟨[0x12, 0x34, 0x56], 3⟩ := by decide

end Fast
end Modbus

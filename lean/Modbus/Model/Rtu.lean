import Modbus.Model.Codec
import Modbus.Model.Crc
import Modbus.Model.Scan
/- Model of src/codec/rtu/{mod,client,server}.rs. -/
namespace Modbus
namespace Rtu

/-- `rtu::DecodedFrame` -/
structure Frame where
  slave : UInt8
  pdu : Bytes
  deriving Repr, DecidableEq

/-- `rtu::request_pdu_len` — the 0x0F/0x10 arm reads offset 4 as the unedited tree does (open finding D4) -/
def requestPduLen (adu : Bytes) : Res (Option Nat) :=
  if adu.length < 2 then .ok none else
  (idx adu 1).bind fun fnCode =>
  if 0x01 ≤ fnCode ∧ fnCode ≤ 0x06 then .ok (some 5)
  else if fnCode = 0x07 ∨ fnCode = 0x0B ∨ fnCode = 0x0C ∨ fnCode = 0x11 then .ok (some 1)
  else if fnCode = 0x0F ∨ fnCode = 0x10 then
    if adu.length > 4 then (idx adu 4).bind fun c => .ok (some (6 + c.toNat)) else .ok none
  else if fnCode = 0x16 then .ok (some 7)
  else if fnCode = 0x18 then .ok (some 3)
  else if fnCode = 0x17 then
    if adu.length > 10 then (idx adu 10).bind fun c => .ok (some (10 + c.toNat)) else .ok none
  else .err (.fnCode fnCode)

/-- `rtu::response_pdu_len` -/
def responsePduLen (adu : Bytes) : Res (Option Nat) :=
  if adu.length < 2 then .ok none else
  (idx adu 1).bind fun fnCode =>
  if (0x01 ≤ fnCode ∧ fnCode ≤ 0x04) ∨ fnCode = 0x0C ∨ fnCode = 0x17 then
    if adu.length > 2 then (idx adu 2).bind fun c => .ok (some (2 + c.toNat)) else .ok none
  else if fnCode = 0x05 ∨ fnCode = 0x06 ∨ fnCode = 0x0B ∨ fnCode = 0x0F ∨ fnCode = 0x10 then .ok (some 5)
  else if fnCode = 0x07 ∨ (0x81 ≤ fnCode ∧ fnCode ≤ 0xAB) then .ok (some 2)
  else if fnCode = 0x16 then .ok (some 7)
  else if fnCode = 0x18 then
    if adu.length > 3 then (read16 adu 2).bind fun c => .ok (some (3 + c.toNat)) else .ok none
  else .err (.fnCode fnCode)

/-- `rtu::extract_frame(buf, pdu_len)`; `1 + pdu_len` and `adu_len + 2` are checked `usize` additions -/
def extractFrame (buf : Bytes) (pduLen : Nat) : Res (Option Frame) :=
  if buf.isEmpty then .err .bufferSize else
  if 1 + pduLen + 2 ≥ usizeLimit then .panic else
  let aduLen := 1 + pduLen
  if buf.length ≥ aduLen + 2 then
    let aduBuf := buf.take aduLen
    let rest := buf.drop aduLen
    (read16 rest 0).bind fun expected =>
    let actual := crc16 aduBuf
    if expected != actual then .err (.crc expected actual) else
    (idx aduBuf 0).bind fun slave =>
    .ok (some { slave := slave, pdu := aduBuf.drop 1 })
  else .ok none

def attemptReq : Attempt Frame := mkAttempt requestPduLen extractFrame 3
def attemptRsp : Attempt Frame := mkAttempt responsePduLen extractFrame 3

/-- `rtu::decode(DecoderType::Request, buf)` -/
def decodeReq (buf : Bytes) : Res (Option (Frame × Loc)) := scan attemptReq buf
/-- `rtu::decode(DecoderType::Response, buf)` -/
def decodeRsp (buf : Bytes) : Res (Option (Frame × Loc)) := scan attemptRsp buf

/-- `rtu::server::decode_request` -/
def serverDecodeRequest (buf : Bytes) : Res (Option (UInt8 × Request)) :=
  if buf.isEmpty then .ok none else
  (decodeReq buf).bind fun
    | none => .ok none
    | some (f, _) => (Request.decode f.pdu).map fun r => some (f.slave, r)

/-- `rtu::client::decode_response`: exception first, then normal response -/
def clientDecodeResponse (buf : Bytes) : Res (Option (UInt8 × ResponsePdu)) :=
  if buf.isEmpty then .ok none else
  (decodeRsp buf).bind fun
    | none => .ok none
    | some (f, _) =>
      match ExceptionResponse.decode f.pdu with
      | .ok e => .ok (some (f.slave, .error e))
      | .panic => .panic
      | .err _ => (Response.decode f.pdu).map fun r => some (f.slave, .ok r)

/-- the common body of `rtu::client::encode_request` and `rtu::server::encode_response` -/
def encodeAdu (slave : UInt8) (encPdu : Bytes → Res (Nat × Bytes)) (buf : Bytes) : Res (Nat × Bytes) :=
  if buf.length < 2 then .err .bufferSize else
  (encPdu (buf.drop 1)).bind fun (len, tail) =>
  let buf := buf.take 1 ++ tail
  if buf.length < len + 3 then .err .bufferSize else
  (applyWrites buf [(0, [slave])]).bind fun buf =>
  let crc := crc16 (buf.take (len + 1))
  finish (len + 3) (applyWrites buf [(len + 1, be16 crc)])

/-- `rtu::client::encode_request` -/
def clientEncodeRequest (slave : UInt8) (r : Request) (buf : Bytes) : Res (Nat × Bytes) :=
  encodeAdu slave (RequestPdu.encode r) buf

/-- `rtu::server::encode_response` -/
def serverEncodeResponse (slave : UInt8) (p : ResponsePdu) (buf : Bytes) : Res (Nat × Bytes) :=
  encodeAdu slave p.encode buf

end Rtu
end Modbus

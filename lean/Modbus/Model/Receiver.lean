import Modbus.Model.Scan
/-
The caller-side receive loop of property C11: append each arriving piece to the buffer, then
repeatedly scan and remove `start + size` bytes for every frame reported.  The state lives in
the caller; the library is stateless.
-/
namespace Modbus
namespace Receiver

variable {F : Type}

/-- scan, consume `start + size`, repeat.  A zero-size report, an error or a panic raises the fault flag. -/
def drain (scanf : Bytes → Res (Option (F × Loc))) (buf : Bytes) (out : List F) : Bytes × List F × Bool :=
  if _hb : buf = [] then (buf, out, false) else
  match scanf buf with
  | .ok (some (x, loc)) =>
      if _h0 : loc.start + loc.size = 0 then (buf, out, true)
      else drain scanf (buf.drop (loc.start + loc.size)) (out ++ [x])
  | .ok none => (buf, out, false)
  | .err _ => (buf, out, true)
  | .panic => (buf, out, true)
termination_by buf.length
decreasing_by
  have : buf.length ≠ 0 := by simpa using _hb
  simp [List.length_drop]; omega

structure St (F : Type) where
  buf : Bytes
  out : List F
  fault : Bool

/-- one arriving piece -/
def recv (scanf : Bytes → Res (Option (F × Loc))) (s : St F) (chunk : Bytes) : St F :=
  let r := drain scanf (s.buf ++ chunk) s.out
  ⟨r.1, r.2.1, s.fault || r.2.2⟩

end Receiver
end Modbus

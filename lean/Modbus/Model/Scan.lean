import Modbus.Model.Basic
/-
The scan loop shared by `rtu::decode` and `tcp::decode` (rtu/mod.rs:31-92, tcp/mod.rs:31-93),
generic in the per-offset attempt (length prediction followed by frame extraction).
-/
namespace Modbus

/-- `FrameLocation { start, size }` -/
structure Loc where
  start : Nat
  size : Nat
  deriving Repr, DecidableEq

/-- one attempt at the front of a buffer: error, incomplete (`none`) or a frame occupying `size` bytes -/
abbrev Attempt (F : Type) := Bytes → Res (Option (F × Nat))

/-- `MAX_FRAME_LEN` -/
def maxFrameLen : Nat := 256

/-- the `loop` of `decode`; `d` is `drop_cnt` -/
def scanFrom {F : Type} (att : Attempt F) (buf : Bytes) (d : Nat) : Res (Option (F × Loc)) :=
  if _h : d + 1 ≥ buf.length then .ok none
  else match att (buf.drop d) with
    | .ok none => .ok none
    | .ok (some (f, sz)) => .ok (some (f, ⟨d, sz⟩))
    | .panic => .panic
    | .err e => if d + 1 ≥ maxFrameLen then .err e else scanFrom att buf (d + 1)
termination_by buf.length - d
decreasing_by omega

/-- `decode(decoder_type, buf)` -/
def scan {F : Type} (att : Attempt F) (buf : Bytes) : Res (Option (F × Loc)) :=
  if buf.isEmpty then .err .bufferSize else scanFrom att buf 0

/-- the attempt built from a length predictor and an extractor; `hdr` = ADU size minus PDU length -/
def mkAttempt {F : Type} (predict : Bytes → Res (Option Nat)) (extract : Bytes → Nat → Res (Option F))
    (overhead : Nat) : Attempt F := fun raw =>
  (predict raw).bind fun
    | none => .ok none
    | some pduLen => (extract raw pduLen).map fun
      | none => none
      | some f => some (f, pduLen + overhead)

end Modbus

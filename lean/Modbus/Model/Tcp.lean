import Modbus.Model.Codec
import Modbus.Model.Scan
/- Model of src/codec/tcp/{mod,server}.rs. -/
namespace Modbus
namespace Tcp

/-- `tcp::DecodedFrame` -/
structure Frame where
  transactionId : UInt16
  unitId : UInt8
  pdu : Bytes
  deriving Repr, DecidableEq

/-- `tcp::request_pdu_len` -/
def requestPduLen (adu : Bytes) : Res (Option Nat) :=
  if adu.length < 8 then .ok none else
  (idx adu 7).bind fun fnCode =>
  if 0x01 ≤ fnCode ∧ fnCode ≤ 0x06 then .ok (some 5)
  else if fnCode = 0x07 ∨ fnCode = 0x0B ∨ fnCode = 0x0C ∨ fnCode = 0x11 then .ok (some 1)
  else if fnCode = 0x0F ∨ fnCode = 0x10 then
    if adu.length > 12 then (idx adu 12).bind fun c => .ok (some (6 + c.toNat)) else .ok none
  else if fnCode = 0x16 then .ok (some 7)
  else if fnCode = 0x18 then .ok (some 3)
  else if fnCode = 0x17 then
    if adu.length > 16 then (idx adu 16).bind fun c => .ok (some (10 + c.toNat)) else .ok none
  else .err (.fnCode fnCode)

/-- `tcp::response_pdu_len` -/
def responsePduLen (adu : Bytes) : Res (Option Nat) :=
  if adu.length < 8 then .ok none else
  (idx adu 7).bind fun fnCode =>
  if (0x01 ≤ fnCode ∧ fnCode ≤ 0x04) ∨ fnCode = 0x0C ∨ fnCode = 0x17 then
    if adu.length > 8 then (idx adu 8).bind fun c => .ok (some (2 + c.toNat)) else .ok none
  else if fnCode = 0x05 ∨ fnCode = 0x06 ∨ fnCode = 0x0B ∨ fnCode = 0x0F ∨ fnCode = 0x10 then .ok (some 5)
  else if fnCode = 0x07 ∨ (0x81 ≤ fnCode ∧ fnCode ≤ 0xAB) then .ok (some 2)
  else if fnCode = 0x16 then .ok (some 7)
  else if fnCode = 0x18 then
    if adu.length > 9 then (read16 adu 8).bind fun c => .ok (some (3 + c.toNat)) else .ok none
  else .err (.fnCode fnCode)

/-- `check_protocol_id`: the protocol identifier of the MBAP header, as soon as its bytes are there -/
def checkProtocolId (adu : Bytes) : Res Unit :=
  if adu.length ≥ 4 then
    (read16 adu 2).bind fun protocolId =>
    if protocolId != 0 then .err (.protocolNotModbus protocolId) else .ok ()
  else .ok ()

/-- the length field against the predicted PDU length, as soon as its bytes are there -/
def checkLengthField (buf : Bytes) (pduLen : Nat) : Res Unit :=
  if buf.length ≥ 6 then
    (read16 buf 4).bind fun mLength =>
    if mLength.toNat ≠ pduLen + 1 then .err (.lengthMismatch mLength.toNat (pduLen + 1)) else .ok ()
  else .ok ()

/-- `tcp::extract_frame(buf, pdu_len)`; `7 + pdu_len` and `pdu_len + 1` are checked `usize` additions.
    The header is verified before the size test (and, as in the Rust, once more after it). -/
def extractFrame (buf : Bytes) (pduLen : Nat) : Res (Option Frame) :=
  if buf.isEmpty then .err .bufferSize else
  if 7 + pduLen ≥ usizeLimit then .panic else
  let aduLen := 7 + pduLen
  (checkProtocolId buf).bind fun _ =>
  (checkLengthField buf pduLen).bind fun _ =>
  if buf.length ≥ aduLen then
    let aduBuf := buf.take aduLen
    (read16 aduBuf 2).bind fun protocolId =>
    if protocolId != 0 then .err (.protocolNotModbus protocolId) else
    (read16 aduBuf 0).bind fun transaction =>
    (read16 aduBuf 4).bind fun mLength =>
    (idx aduBuf 6).bind fun unit =>
    if mLength.toNat ≠ pduLen + 1 then .err (.lengthMismatch mLength.toNat (pduLen + 1)) else
    .ok (some { transactionId := transaction, unitId := unit, pdu := aduBuf.drop 7 })
  else .ok none

/-- in `tcp::decode` the protocol identifier is checked before the length is predicted -/
def attemptReq : Attempt Frame :=
  mkAttempt (fun raw => (checkProtocolId raw).bind fun _ => requestPduLen raw) extractFrame 7
def attemptRsp : Attempt Frame :=
  mkAttempt (fun raw => (checkProtocolId raw).bind fun _ => responsePduLen raw) extractFrame 7

/-- `tcp::decode(DecoderType::Request, buf)` -/
def decodeReq (buf : Bytes) : Res (Option (Frame × Loc)) := scan attemptReq buf
/-- `tcp::decode(DecoderType::Response, buf)` -/
def decodeRsp (buf : Bytes) : Res (Option (Frame × Loc)) := scan attemptRsp buf

/-- `tcp::server::decode_request` -/
def decodeRequest (buf : Bytes) : Res (Option (UInt16 × UInt8 × Request)) :=
  if buf.isEmpty then .ok none else
  (decodeReq buf).bind fun
    | none => .ok none
    | some (f, _) => (Request.decode f.pdu).map fun r => some (f.transactionId, f.unitId, r)

/-- `tcp::server::decode_response`: exception first, then normal response -/
def decodeResponse (buf : Bytes) : Res (Option (UInt16 × UInt8 × ResponsePdu)) :=
  if buf.isEmpty then .err .bufferSize else
  (decodeRsp buf).bind fun
    | none => .ok none
    | some (f, _) =>
      match ExceptionResponse.decode f.pdu with
      | .ok e => .ok (some (f.transactionId, f.unitId, .error e))
      | .panic => .panic
      | .err _ => (Response.decode f.pdu).map fun r => some (f.transactionId, f.unitId, .ok r)

/-- the common body of `tcp::server::encode_request` / `encode_response` -/
def encodeAdu (tid : UInt16) (uid : UInt8) (encPdu : Bytes → Res (Nat × Bytes)) (buf : Bytes) :
    Res (Nat × Bytes) :=
  if buf.length < 7 then .err .bufferSize else
  (applyWrites buf [(0, be16 tid), (2, be16 0), (6, [uid])]).bind fun buf =>
  (encPdu (buf.drop 7)).bind fun (len, tail) =>
  let buf := buf.take 7 ++ tail
  if buf.length < len + 7 then .err .bufferSize else
  (u16TryFrom (len + 1)).bind fun mLength =>
  finish (len + 7) (applyWrites buf [(4, be16 mLength)])

def encodeRequest (tid : UInt16) (uid : UInt8) (r : Request) (buf : Bytes) : Res (Nat × Bytes) :=
  encodeAdu tid uid (RequestPdu.encode r) buf

def encodeResponse (tid : UInt16) (uid : UInt8) (p : ResponsePdu) (buf : Bytes) : Res (Nat × Bytes) :=
  encodeAdu tid uid p.encode buf

end Tcp
end Modbus

import Modbus.Model.Basic
/- Model of `rtu::crc16` (rtu/mod.rs:124-141). -/
namespace Modbus

/-- one round of the inner loop -/
def crcRound (c : UInt16) : UInt16 :=
  if c &&& 1 != 0 then (c >>> 1) ^^^ 0xA001 else c >>> 1

/-- `crc ^= u16::from(x)` followed by eight rounds -/
def crcByte (c : UInt16) (x : UInt8) : UInt16 :=
  crcRound (crcRound (crcRound (crcRound (crcRound (crcRound (crcRound (crcRound (c ^^^ x.toUInt16))))))))

/-- the register after the outer loop, from an arbitrary start value -/
def crcRaw (init : UInt16) (data : Bytes) : UInt16 := data.foldl crcByte init

/-- `u16::rotate_right(8)` -/
def rotr8 (c : UInt16) : UInt16 := (c >>> 8) ||| (c <<< 8)

/-- `crc16(data)` -/
def crc16 (data : Bytes) : UInt16 := rotr8 (crcRaw 0xFFFF data)

end Modbus

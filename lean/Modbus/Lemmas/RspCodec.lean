import Modbus.Model.Codec
import Modbus.Spec.Wire
import Modbus.Lemmas.Basic
import Modbus.Lemmas.Bytes
import Modbus.Lemmas.Encode
import Modbus.Lemmas.Sem
import Modbus.Lemmas.Coils
import Modbus.Lemmas.Words
import Modbus.Props.C16
import Modbus.Props.C17
import Modbus.Props.C18
/-
Response side of the PDU codec (C02, C03 response half, C19 response half): the relation between a
model response and the meaning it was built from through the public constructors, what the response
decoder returns on each wire layout, and the meaning of what it returns.
-/
namespace Modbus

/-! ### responses built through the public constructors -/

/-- `BuiltRsp r m`: the model response `r` was built from the meaning `m` through the crate's public
    constructors — payload containers by `Coils::from_bools` / `Data::from_words` over ANY target
    slice `t` (any capacity, any previous contents), the fixed-size kinds directly, custom responses
    from any `FunctionCode` value and any data.  No bound on the payload length. -/
inductive BuiltRsp : Response → Spec.RspMeaning → Prop
  | readCoils {bs : List Bool} {t : Bytes} {c : Coils} (h : Coils.fromBools bs t = .ok c) :
      BuiltRsp (.readCoils c) (.readCoils bs)
  | readDiscreteInputs {bs : List Bool} {t : Bytes} {c : Coils} (h : Coils.fromBools bs t = .ok c) :
      BuiltRsp (.readDiscreteInputs c) (.readDiscreteInputs bs)
  | readHoldingRegisters {ws : List UInt16} {t : Bytes} {d : Data} (h : Data.fromWords ws t = .ok d) :
      BuiltRsp (.readHoldingRegisters d) (.readHoldingRegisters ws)
  | readInputRegisters {ws : List UInt16} {t : Bytes} {d : Data} (h : Data.fromWords ws t = .ok d) :
      BuiltRsp (.readInputRegisters d) (.readInputRegisters ws)
  | readWriteMultipleRegisters {ws : List UInt16} {t : Bytes} {d : Data} (h : Data.fromWords ws t = .ok d) :
      BuiltRsp (.readWriteMultipleRegisters d) (.readWriteMultipleRegisters ws)
  | writeSingleCoil (a : UInt16) : BuiltRsp (.writeSingleCoil a) (.writeSingleCoil a)
  | writeSingleRegister (a w : UInt16) : BuiltRsp (.writeSingleRegister a w) (.writeSingleRegister a w)
  | writeMultipleCoils (a q : UInt16) : BuiltRsp (.writeMultipleCoils a q) (.writeMultipleCoils a q)
  | writeMultipleRegisters (a q : UInt16) : BuiltRsp (.writeMultipleRegisters a q) (.writeMultipleRegisters a q)
  | custom (fc : FunctionCode) (data : Bytes) : BuiltRsp (.custom fc data) (.custom fc.value data)
  | readExceptionStatus (s : UInt8) : BuiltRsp (.readExceptionStatus s) (.readExceptionStatus s)

/-- the meanings whose wire form the response decoder reads back as the same kind: everything except a
    *custom* response carrying one of the ten codes the decoder models as a dedicated kind (the nine
    request-side codes and 0x07, Read Exception Status; such bytes are, correctly, decoded as that dedicated
    kind).  Any other code byte is in scope, including ≥ 0x80. -/
def InScopeRsp : Spec.RspMeaning → Prop
  | .custom c _ => c ∉ modelledRspCodes
  | _ => True

/-! ### `padTo8` -/

theorem padTo8_length (bs : List Bool) : (padTo8 bs).length = 8 * ((bs.length + 7) / 8) := by
  simp only [padTo8, List.length_append, List.length_replicate]; omega

theorem padTo8_take (bs : List Bool) : (padTo8 bs).take bs.length = bs := by
  simp [padTo8]

theorem padTo8_drop (bs : List Bool) :
    (padTo8 bs).drop bs.length = List.replicate (8 * ((bs.length + 7) / 8) - bs.length) false := by
  simp only [padTo8, List.drop_left']
  congr 1; omega

theorem padTo8_getElem?_lt (bs : List Bool) (i : Nat) (h : i < bs.length) : (padTo8 bs)[i]? = bs[i]? := by
  simp only [padTo8]; rw [List.getElem?_append_left h]

theorem padTo8_getElem?_ge (bs : List Bool) (i : Nat) (h1 : bs.length ≤ i) (h2 : i < 8 * ((bs.length + 7) / 8)) :
    (padTo8 bs)[i]? = some false := by
  simp only [padTo8]
  rw [List.getElem?_append_right h1, List.getElem?_replicate, if_pos (by omega)]

theorem padTo8_getD (bs : List Bool) (p : Nat) : (padTo8 bs).getD p false = bs.getD p false := by
  simp only [List.getD_eq_getElem?_getD]
  by_cases h : p < bs.length
  · rw [padTo8_getElem?_lt bs p h]
  · rw [List.getElem?_eq_none (show bs.length ≤ p by omega)]
    by_cases h2 : p < 8 * ((bs.length + 7) / 8)
    · rw [padTo8_getElem?_ge bs p (by omega) h2]; rfl
    · rw [List.getElem?_eq_none (by rw [padTo8_length]; omega)]

/-- a list that is already a whole number of bytes is not padded -/
theorem padTo8_of_multiple (bs : List Bool) (h : bs.length % 8 = 0) : padTo8 bs = bs := by
  have : (bs.length + 7) / 8 * 8 - bs.length = 0 := by omega
  simp [padTo8, this]

/-- padding with off-coils up to a whole byte does not change the packed field -/
theorem packBits_padTo8 (bs : List Bool) : Spec.packBits (padTo8 bs) = Spec.packBits bs := by
  apply Bytes.ext_bitAt
  · rw [packBits_length, packBits_length, padTo8_length]; unfold packedCoilsLen; omega
  · intro p _
    rw [bitAt_packBits, bitAt_packBits, padTo8_getD]

/-- iterating over the spec's packed field with the count a coil response carries (bytes × 8)
    yields the coils padded to a whole byte with off-coils -/
theorem Coils.iter_packBits_padded (bs : List Bool) :
    (Coils.mk (Spec.packBits bs) ((bs.length + 7) / 8 * 8)).iter = .ok (padTo8 bs) := by
  have := Coils.iter_packBits (padTo8 bs) []
  rw [packBits_padTo8, List.append_nil, padTo8_length, Nat.mul_comm] at this
  exact this

theorem Coils.items_packBits_padded (bs : List Bool) :
    (Coils.mk (Spec.packBits bs) ((bs.length + 7) / 8 * 8)).items = some (padTo8 bs) := by
  simp [Coils.items, Coils.iter_packBits_padded]

theorem Data.items_wordsBE (ws : List UInt16) : (Data.mk (Spec.wordsBE ws) ws.length).items = some ws := by
  simp [Data.items, C17.iter_from_words]

/-! ### what the response decoder returns on each layout -/

theorem Rsp.fc_new_01 : FunctionCode.new 0x01 = .readCoils := by decide
theorem Rsp.fc_new_02 : FunctionCode.new 0x02 = .readDiscreteInputs := by decide
theorem Rsp.fc_new_03 : FunctionCode.new 0x03 = .readHoldingRegisters := by decide
theorem Rsp.fc_new_04 : FunctionCode.new 0x04 = .readInputRegisters := by decide
theorem Rsp.fc_new_05 : FunctionCode.new 0x05 = .writeSingleCoil := by decide
theorem Rsp.fc_new_06 : FunctionCode.new 0x06 = .writeSingleRegister := by decide
theorem Rsp.fc_new_0F : FunctionCode.new 0x0F = .writeMultipleCoils := by decide
theorem Rsp.fc_new_10 : FunctionCode.new 0x10 = .writeMultipleRegisters := by decide
theorem Rsp.fc_new_17 : FunctionCode.new 0x17 = .readWriteMultipleRegisters := by decide

theorem Rsp.slice_cons2_take (x y : UInt8) (rest : Bytes) (n : Nat) (h : n ≤ rest.length) :
    slice (x :: y :: rest) 2 (n + 2) = .ok (rest.take n) := by
  unfold slice
  rw [if_pos ⟨by omega, by simp only [List.length_cons]; omega⟩]
  simp

theorem Rsp.slice_cons2_take' (x y : UInt8) (rest : Bytes) (n : Nat) (h : n ≤ rest.length) :
    slice (x :: y :: rest) 2 (2 + n) = .ok (rest.take n) := by
  rw [Nat.add_comm]; exact Rsp.slice_cons2_take x y rest n h

/-- Read Coils response: code, byte count, that many bytes (anything after them is ignored);
    the value's count is bytes × 8 -/
theorem Response.decode_readCoils (bc : UInt8) (rest : Bytes) (h : bc.toNat ≤ rest.length) :
    Response.decode (0x01 :: bc :: rest) = .ok (.readCoils ⟨rest.take bc.toNat, bc.toNat * 8⟩) := by
  have hl : ¬ (bc.toNat + 2 > (0x01 :: bc :: rest).length) := by simp only [List.length_cons]; omega
  simp only [Response.decode, List.isEmpty_cons, Bool.false_eq_true, if_false, idx, List.getElem?_cons_zero,
    Res.bind'_ok, Rsp.fc_new_01, minResponsePduLen, List.getElem?_cons_succ, hl, Rsp.slice_cons2_take _ _ _ _ h]
  simp

theorem Response.decode_readDiscreteInputs (bc : UInt8) (rest : Bytes) (h : bc.toNat ≤ rest.length) :
    Response.decode (0x02 :: bc :: rest) = .ok (.readDiscreteInputs ⟨rest.take bc.toNat, bc.toNat * 8⟩) := by
  have hl : ¬ (bc.toNat + 2 > (0x02 :: bc :: rest).length) := by simp only [List.length_cons]; omega
  simp only [Response.decode, List.isEmpty_cons, Bool.false_eq_true, if_false, idx, List.getElem?_cons_zero,
    Res.bind'_ok, Rsp.fc_new_02, minResponsePduLen, List.getElem?_cons_succ, hl, Rsp.slice_cons2_take _ _ _ _ h]
  simp

/-- register reads: code, byte count `bc`, `bc` bytes; the value keeps the `bc / 2` WHOLE registers — a
    dangling odd byte is not part of the decoded `Data` (anything after the `bc` bytes is ignored) -/
theorem Response.decode_readHoldingRegisters (bc : UInt8) (rest : Bytes) (h : bc.toNat ≤ rest.length) :
    Response.decode (0x03 :: bc :: rest) = .ok (.readHoldingRegisters ⟨rest.take (bc.toNat / 2 * 2), bc.toNat / 2⟩) := by
  have hl : ¬ (bc.toNat + 2 > (0x03 :: bc :: rest).length) := by simp only [List.length_cons]; omega
  have h2 : bc.toNat / 2 * 2 ≤ rest.length := by omega
  simp only [Response.decode, List.isEmpty_cons, Bool.false_eq_true, if_false, idx, List.getElem?_cons_zero,
    Res.bind'_ok, Rsp.fc_new_03, minResponsePduLen, List.getElem?_cons_succ, hl, Rsp.slice_cons2_take' _ _ _ _ h2]
  simp

theorem Response.decode_readInputRegisters (bc : UInt8) (rest : Bytes) (h : bc.toNat ≤ rest.length) :
    Response.decode (0x04 :: bc :: rest) = .ok (.readInputRegisters ⟨rest.take (bc.toNat / 2 * 2), bc.toNat / 2⟩) := by
  have hl : ¬ (bc.toNat + 2 > (0x04 :: bc :: rest).length) := by simp only [List.length_cons]; omega
  have h2 : bc.toNat / 2 * 2 ≤ rest.length := by omega
  simp only [Response.decode, List.isEmpty_cons, Bool.false_eq_true, if_false, idx, List.getElem?_cons_zero,
    Res.bind'_ok, Rsp.fc_new_04, minResponsePduLen, List.getElem?_cons_succ, hl, Rsp.slice_cons2_take' _ _ _ _ h2]
  simp

theorem Response.decode_readWriteMultipleRegisters (bc : UInt8) (rest : Bytes) (h : bc.toNat ≤ rest.length) :
    Response.decode (0x17 :: bc :: rest) = .ok (.readWriteMultipleRegisters ⟨rest.take (bc.toNat / 2 * 2), bc.toNat / 2⟩) := by
  have hl : ¬ (bc.toNat + 2 > (0x17 :: bc :: rest).length) := by simp only [List.length_cons]; omega
  have h2 : bc.toNat / 2 * 2 ≤ rest.length := by omega
  simp only [Response.decode, List.isEmpty_cons, Bool.false_eq_true, if_false, idx, List.getElem?_cons_zero,
    Res.bind'_ok, Rsp.fc_new_17, minResponsePduLen, List.getElem?_cons_succ, hl, Rsp.slice_cons2_take' _ _ _ _ h2]
  simp

/-- Write Single Coil response: the decoder needs only code and address; whatever follows
    (nothing in the crate's own three-byte form, the echoed value in the specification's) is ignored -/
theorem Response.decode_writeSingleCoil (h l : UInt8) (rest : Bytes) :
    Response.decode (0x05 :: h :: l :: rest) = .ok (.writeSingleCoil (rd16 h l)) := by
  simp [Response.decode, idx, Rsp.fc_new_05, minResponsePduLen, read16]

theorem Response.decode_writeSingleRegister (a1 a2 v1 v2 : UInt8) (rest : Bytes) :
    Response.decode (0x06 :: a1 :: a2 :: v1 :: v2 :: rest) = .ok (.writeSingleRegister (rd16 a1 a2) (rd16 v1 v2)) := by
  simp [Response.decode, idx, Rsp.fc_new_06, minResponsePduLen, read16]

theorem Response.decode_writeMultipleCoils (a1 a2 v1 v2 : UInt8) (rest : Bytes) :
    Response.decode (0x0F :: a1 :: a2 :: v1 :: v2 :: rest) = .ok (.writeMultipleCoils (rd16 a1 a2) (rd16 v1 v2)) := by
  simp [Response.decode, idx, Rsp.fc_new_0F, minResponsePduLen, read16]

theorem Response.decode_writeMultipleRegisters (a1 a2 v1 v2 : UInt8) (rest : Bytes) :
    Response.decode (0x10 :: a1 :: a2 :: v1 :: v2 :: rest) = .ok (.writeMultipleRegisters (rd16 a1 a2) (rd16 v1 v2)) := by
  simp [Response.decode, idx, Rsp.fc_new_10, minResponsePduLen, read16]

theorem Rsp.fc_new_07 : FunctionCode.new 0x07 = .readExceptionStatus := by decide

/-- Read Exception Status response: code and the status byte; anything after the status is ignored -/
theorem Response.decode_readExceptionStatus (s : UInt8) (rest : Bytes) :
    Response.decode (0x07 :: s :: rest) = .ok (.readExceptionStatus s) := by
  simp [Response.decode, idx, Rsp.fc_new_07, minResponsePduLen]

/-- … and the code byte alone is too short -/
theorem Response.decode_readExceptionStatus_short : Response.decode [0x07] = .err .bufferSize := by
  decide

/-- a code byte that is none of the ten modelled response kinds — any other byte, including the other
    RTU-only codes and bytes ≥ 0x80 — is decoded by the catch-all as a custom response carrying
    that code and all remaining bytes -/
theorem Response.decode_custom (c : UInt8) (hc : c ∉ modelledRspCodes) (d : Bytes) :
    Response.decode (c :: d) = .ok (.custom (FunctionCode.new c) d) := by
  have hv := C18.value_new c
  simp only [modelledRspCodes_eq, List.mem_cons, List.not_mem_nil, or_false, not_or] at hc
  cases hfc : FunctionCode.new c <;> rw [hfc] at hv <;>
    first
    | (exfalso; simp only [FunctionCode.value] at hv; simp [← hv] at hc; done)
    | simp [Response.decode, idx, hfc, minResponsePduLen, sliceFrom]


/-! ### decoding the specification's layouts -/

theorem Rsp.toNat_ofNat_u8 {n : Nat} (h : n ≤ 255) : (UInt8.ofNat n).toNat = n := by
  rw [UInt8.toNat_ofNat']; omega

theorem Rsp.rd16_hi_lo (a : UInt16) : rd16 (Spec.hi a) (Spec.lo a) = a := rd16_be16 a

theorem Rsp.word_eq_be16 (a : UInt16) : Spec.word a = be16 a := rfl

/-- the specification's Read Coils response, decoded: the packed field and the count bytes × 8 -/
theorem Response.decode_spec_readCoils (bs : List Bool) (h : (bs.length + 7) / 8 ≤ 255) :
    Response.decode (Spec.rspBytes (.readCoils bs)) =
      .ok (.readCoils ⟨Spec.packBits bs, (bs.length + 7) / 8 * 8⟩) := by
  have ht := Rsp.toNat_ofNat_u8 h
  have hl : (Spec.packBits bs).length = (bs.length + 7) / 8 := packBits_length bs
  simp only [Spec.rspBytes]
  rw [Response.decode_readCoils _ _ (by rw [ht, hl]; exact Nat.le_refl _), ht,
    List.take_of_length_le (by rw [hl]; exact Nat.le_refl _)]

theorem Response.decode_spec_readDiscreteInputs (bs : List Bool) (h : (bs.length + 7) / 8 ≤ 255) :
    Response.decode (Spec.rspBytes (.readDiscreteInputs bs)) =
      .ok (.readDiscreteInputs ⟨Spec.packBits bs, (bs.length + 7) / 8 * 8⟩) := by
  have ht := Rsp.toNat_ofNat_u8 h
  have hl : (Spec.packBits bs).length = (bs.length + 7) / 8 := packBits_length bs
  simp only [Spec.rspBytes]
  rw [Response.decode_readDiscreteInputs _ _ (by rw [ht, hl]; exact Nat.le_refl _), ht,
    List.take_of_length_le (by rw [hl]; exact Nat.le_refl _)]

theorem Response.decode_spec_readHoldingRegisters (ws : List UInt16) (h : 2 * ws.length ≤ 255) :
    Response.decode (Spec.rspBytes (.readHoldingRegisters ws)) =
      .ok (.readHoldingRegisters ⟨Spec.wordsBE ws, ws.length⟩) := by
  have ht := Rsp.toNat_ofNat_u8 h
  have hl : (Spec.wordsBE ws).length = 2 * ws.length := by rw [wordsBE_length]; omega
  simp only [Spec.rspBytes]
  rw [Response.decode_readHoldingRegisters _ _ (by rw [ht, hl]; exact Nat.le_refl _), ht,
    List.take_of_length_le (by rw [hl]; omega)]
  congr 3; omega

theorem Response.decode_spec_readInputRegisters (ws : List UInt16) (h : 2 * ws.length ≤ 255) :
    Response.decode (Spec.rspBytes (.readInputRegisters ws)) =
      .ok (.readInputRegisters ⟨Spec.wordsBE ws, ws.length⟩) := by
  have ht := Rsp.toNat_ofNat_u8 h
  have hl : (Spec.wordsBE ws).length = 2 * ws.length := by rw [wordsBE_length]; omega
  simp only [Spec.rspBytes]
  rw [Response.decode_readInputRegisters _ _ (by rw [ht, hl]; exact Nat.le_refl _), ht,
    List.take_of_length_le (by rw [hl]; omega)]
  congr 3; omega

theorem Response.decode_spec_readWriteMultipleRegisters (ws : List UInt16) (h : 2 * ws.length ≤ 255) :
    Response.decode (Spec.rspBytes (.readWriteMultipleRegisters ws)) =
      .ok (.readWriteMultipleRegisters ⟨Spec.wordsBE ws, ws.length⟩) := by
  have ht := Rsp.toNat_ofNat_u8 h
  have hl : (Spec.wordsBE ws).length = 2 * ws.length := by rw [wordsBE_length]; omega
  simp only [Spec.rspBytes]
  rw [Response.decode_readWriteMultipleRegisters _ _ (by rw [ht, hl]; exact Nat.le_refl _), ht,
    List.take_of_length_le (by rw [hl]; omega)]
  congr 3; omega

/-- the specification's five-byte Write Single Coil response is accepted; the address comes back -/
theorem Response.decode_spec_writeSingleCoil (a : UInt16) :
    Response.decode (Spec.rspBytes (.writeSingleCoil a)) = .ok (.writeSingleCoil a) := by
  simp only [Spec.rspBytes, Spec.word, List.cons_append, List.nil_append]
  rw [Response.decode_writeSingleCoil, Rsp.rd16_hi_lo]

theorem Response.decode_spec_writeSingleRegister (a w : UInt16) :
    Response.decode (Spec.rspBytes (.writeSingleRegister a w)) = .ok (.writeSingleRegister a w) := by
  simp only [Spec.rspBytes, Spec.word, List.cons_append, List.nil_append]
  rw [Response.decode_writeSingleRegister, Rsp.rd16_hi_lo, Rsp.rd16_hi_lo]

theorem Response.decode_spec_writeMultipleCoils (a q : UInt16) :
    Response.decode (Spec.rspBytes (.writeMultipleCoils a q)) = .ok (.writeMultipleCoils a q) := by
  simp only [Spec.rspBytes, Spec.word, List.cons_append, List.nil_append]
  rw [Response.decode_writeMultipleCoils, Rsp.rd16_hi_lo, Rsp.rd16_hi_lo]

theorem Response.decode_spec_writeMultipleRegisters (a q : UInt16) :
    Response.decode (Spec.rspBytes (.writeMultipleRegisters a q)) = .ok (.writeMultipleRegisters a q) := by
  simp only [Spec.rspBytes, Spec.word, List.cons_append, List.nil_append]
  rw [Response.decode_writeMultipleRegisters, Rsp.rd16_hi_lo, Rsp.rd16_hi_lo]

theorem Response.decode_spec_readExceptionStatus (s : UInt8) :
    Response.decode (Spec.rspBytes (.readExceptionStatus s)) = .ok (.readExceptionStatus s) :=
  Response.decode_readExceptionStatus s []

theorem Response.decode_spec_custom (c : UInt8) (hc : c ∉ modelledRspCodes) (d : Bytes) :
    Response.decode (Spec.rspBytes (.custom c d)) = .ok (.custom (FunctionCode.new c) d) :=
  Response.decode_custom c hc d

/-- every spec-conformant response PDU within the count-field range is decoded to the meaning the
    specification assigns it (coil reads: rounded up to a whole byte, padding off) -/
theorem Response.decode_spec (m : Spec.RspMeaning) (hf : m.fits) (hs : InScopeRsp m) :
    ∃ r', Response.decode (Spec.rspBytes m) = .ok r' ∧ r'.sem = some m.padded := by
  cases m with
  | readCoils bs =>
    exact ⟨_, Response.decode_spec_readCoils bs hf.2, by
      simp [Response.sem, Coils.items_packBits_padded, Spec.RspMeaning.padded]⟩
  | readDiscreteInputs bs =>
    exact ⟨_, Response.decode_spec_readDiscreteInputs bs hf.2, by
      simp [Response.sem, Coils.items_packBits_padded, Spec.RspMeaning.padded]⟩
  | readHoldingRegisters ws =>
    exact ⟨_, Response.decode_spec_readHoldingRegisters ws hf.2, by
      simp [Response.sem, Data.items_wordsBE, Spec.RspMeaning.padded]⟩
  | readInputRegisters ws =>
    exact ⟨_, Response.decode_spec_readInputRegisters ws hf.2, by
      simp [Response.sem, Data.items_wordsBE, Spec.RspMeaning.padded]⟩
  | readWriteMultipleRegisters ws =>
    exact ⟨_, Response.decode_spec_readWriteMultipleRegisters ws hf.2, by
      simp [Response.sem, Data.items_wordsBE, Spec.RspMeaning.padded]⟩
  | writeSingleCoil a => exact ⟨_, Response.decode_spec_writeSingleCoil a, rfl⟩
  | writeSingleRegister a w => exact ⟨_, Response.decode_spec_writeSingleRegister a w, rfl⟩
  | writeMultipleCoils a q => exact ⟨_, Response.decode_spec_writeMultipleCoils a q, rfl⟩
  | writeMultipleRegisters a q => exact ⟨_, Response.decode_spec_writeMultipleRegisters a q, rfl⟩
  | readExceptionStatus s => exact ⟨_, Response.decode_spec_readExceptionStatus s, rfl⟩
  | custom c d =>
    exact ⟨_, Response.decode_spec_custom c hs d, by
      simp [Response.sem, C18.value_new, Spec.RspMeaning.padded]⟩



/-! ### responses built through the constructors: encodability, image, length, oversize -/

theorem Rsp.fromBools_ok {bs : List Bool} {t : Bytes} {c : Coils} (h : Coils.fromBools bs t = .ok c) :
    bs ≠ [] ∧ packedCoilsLen bs.length ≤ t.length ∧
    c = ⟨Spec.packBits bs, bs.length⟩ := by
  rw [C16.from_bools_total] at h
  split at h
  · simp at h
  · rename_i hc
    cases h
    exact ⟨fun e => hc (Or.inl e), by omega, rfl⟩

theorem Rsp.fromWords_ok {ws : List UInt16} {t : Bytes} {d : Data} (h : Data.fromWords ws t = .ok d) :
    ws ≠ [] ∧ d = ⟨Spec.wordsBE ws, ws.length⟩ := by
  rw [C17.from_words_total] at h
  split at h
  · simp at h
  · rename_i hc
    cases h
    exact ⟨fun e => hc (Or.inl e), rfl⟩

theorem Rsp.length_pos {α} {l : List α} (h : l ≠ []) : 1 ≤ l.length := by
  cases l with
  | nil => exact absurd rfl h
  | cons _ _ => simp

/-- for a response built through the constructors, "the encoder can serialise it" is exactly
    "the payload's byte count fits the one-byte count field" -/
theorem BuiltRsp.encodable_iff {r : Response} {m : Spec.RspMeaning} (hb : BuiltRsp r m) :
    r.Encodable ↔ m.fits := by
  cases hb with
  | readCoils h =>
    obtain ⟨hne, hl, rfl⟩ := Rsp.fromBools_ok h
    have := Rsp.length_pos hne
    simp only [Response.Encodable, Spec.RspMeaning.fits, Coils.packedLen, List.length_append, packBits_length,
      List.length_drop, packedCoilsLen] at *
    omega
  | readDiscreteInputs h =>
    obtain ⟨hne, hl, rfl⟩ := Rsp.fromBools_ok h
    have := Rsp.length_pos hne
    simp only [Response.Encodable, Spec.RspMeaning.fits, Coils.packedLen, List.length_append, packBits_length,
      List.length_drop, packedCoilsLen] at *
    omega
  | readHoldingRegisters h =>
    obtain ⟨hne, rfl⟩ := Rsp.fromWords_ok h
    have := Rsp.length_pos hne
    simp only [Response.Encodable, Spec.RspMeaning.fits, Data.len, wordsBE_length]
    omega
  | readInputRegisters h =>
    obtain ⟨hne, rfl⟩ := Rsp.fromWords_ok h
    have := Rsp.length_pos hne
    simp only [Response.Encodable, Spec.RspMeaning.fits, Data.len, wordsBE_length]
    omega
  | readWriteMultipleRegisters h =>
    obtain ⟨hne, rfl⟩ := Rsp.fromWords_ok h
    have := Rsp.length_pos hne
    simp only [Response.Encodable, Spec.RspMeaning.fits, Data.len, wordsBE_length]
    omega
  | writeSingleCoil a => simp [Response.Encodable, Spec.RspMeaning.fits]
  | writeSingleRegister a w => simp [Response.Encodable, Spec.RspMeaning.fits]
  | writeMultipleCoils a q => simp [Response.Encodable, Spec.RspMeaning.fits]
  | writeMultipleRegisters a q => simp [Response.Encodable, Spec.RspMeaning.fits]
  | custom fc d => simp [Response.Encodable, Spec.RspMeaning.fits]
  | readExceptionStatus s => simp [Response.Encodable, Spec.RspMeaning.fits]

/-- the wire image is the specification's PDU of the meaning, for EVERY payload size — with the one
    exception of Write Single Coil (D12) -/
theorem BuiltRsp.image_eq {r : Response} {m : Spec.RspMeaning} (hb : BuiltRsp r m)
    (hn : ∀ a, m ≠ .writeSingleCoil a) : r.image = Spec.rspBytes m := by
  cases hb with
  | readCoils h => exact (C16.built_coils_image _ _ _ 0 h).2.1
  | readDiscreteInputs h => exact (C16.built_coils_image _ _ _ 0 h).2.2
  | readHoldingRegisters h =>
    obtain ⟨_, rfl⟩ := Rsp.fromWords_ok h; exact C17.rsp_read_holding_registers_image _
  | readInputRegisters h =>
    obtain ⟨_, rfl⟩ := Rsp.fromWords_ok h; exact C17.rsp_read_input_registers_image _
  | readWriteMultipleRegisters h =>
    obtain ⟨_, rfl⟩ := Rsp.fromWords_ok h; exact C17.rsp_read_write_multiple_registers_image _
  | writeSingleCoil a => exact absurd rfl (hn a)
  | writeSingleRegister a w => rfl
  | writeMultipleCoils a q => rfl
  | writeMultipleRegisters a q => rfl
  | custom fc d => rfl
  | readExceptionStatus s => rfl

/-- `pdu_len` is defined for every built response (any payload size) and is the image's length -/
theorem BuiltRsp.pduLen_eq {r : Response} {m : Spec.RspMeaning} (hb : BuiltRsp r m) :
    r.pduLen = .ok r.image.length := by
  cases hb with
  | readCoils h =>
    obtain ⟨_, hl, rfl⟩ := Rsp.fromBools_ok h
    simp only [Response.pduLen, Response.image, Coils.wire_packBits, Coils.packedLen, List.length_append,
      packBits_length, List.length_cons, List.length_nil]
  | readDiscreteInputs h =>
    obtain ⟨_, hl, rfl⟩ := Rsp.fromBools_ok h
    simp only [Response.pduLen, Response.image, Coils.wire_packBits, Coils.packedLen, List.length_append,
      packBits_length, List.length_cons, List.length_nil]
  | readHoldingRegisters h =>
    obtain ⟨_, rfl⟩ := Rsp.fromWords_ok h
    simp only [Response.pduLen, Response.image, Data.len, List.length_append, List.length_take,
      wordsBE_length, List.length_cons, List.length_nil]
    congr 1; omega
  | readInputRegisters h =>
    obtain ⟨_, rfl⟩ := Rsp.fromWords_ok h
    simp only [Response.pduLen, Response.image, Data.len, List.length_append, List.length_take,
      wordsBE_length, List.length_cons, List.length_nil]
    congr 1; omega
  | readWriteMultipleRegisters h =>
    obtain ⟨_, rfl⟩ := Rsp.fromWords_ok h
    simp only [Response.pduLen, Response.image, Data.len, List.length_append, List.length_take,
      wordsBE_length, List.length_cons, List.length_nil]
    congr 1; omega
  | writeSingleCoil a => rfl
  | writeSingleRegister a w => rfl
  | writeMultipleCoils a q => rfl
  | writeMultipleRegisters a q => rfl
  | custom fc d => simp [Response.pduLen, Response.image]; omega
  | readExceptionStatus s => rfl

theorem BuiltRsp.image_pos {r : Response} {m : Spec.RspMeaning} (hb : BuiltRsp r m) : 1 ≤ r.image.length := by
  cases hb <;> simp [Response.image]

theorem Rsp.applyWrites_head1 (buf : Bytes) (fc : UInt8) (h : 1 ≤ buf.length) :
    applyWrites buf [(0, [fc])] = .ok (fc :: buf.drop 1) := by
  have := applyWrites_from_zero [(0, [fc])] buf (by simp [Tiled]) (by simpa [segBytes] using h)
  simpa [segBytes] using this

theorem Rsp.u8TryFrom_big {n : Nat} (h : 255 < n) : u8TryFrom n = .err .bufferSize := by
  simp [u8TryFrom]; omega

/-- a coil payload of more than 255 bytes is refused with `BufferSize`, whatever the buffer -/
theorem Response.encode_readCoils_big (c : Coils) (buf : Bytes) (h : 255 < c.packedLen) :
    (Response.readCoils c).encode buf = .err .bufferSize := by
  simp only [Response.encode, Response.pduLen, Res.bind'_ok]
  split
  · rfl
  · rw [Rsp.applyWrites_head1 _ _ (by omega)]
    simp only [Res.bind'_ok, Rsp.u8TryFrom_big h, Res.bind'_err]

theorem Response.encode_readDiscreteInputs_big (c : Coils) (buf : Bytes) (h : 255 < c.packedLen) :
    (Response.readDiscreteInputs c).encode buf = .err .bufferSize := by
  simp only [Response.encode, Response.pduLen, Res.bind'_ok]
  split
  · rfl
  · rw [Rsp.applyWrites_head1 _ _ (by omega)]
    simp only [Res.bind'_ok, Rsp.u8TryFrom_big h, Res.bind'_err]

theorem Response.encode_readHoldingRegisters_big (d : Data) (buf : Bytes) (h : 255 < d.len * 2) :
    (Response.readHoldingRegisters d).encode buf = .err .bufferSize := by
  simp only [Response.encode, Response.pduLen, Res.bind'_ok]
  split
  · rfl
  · rw [Rsp.applyWrites_head1 _ _ (by omega)]
    simp only [Res.bind'_ok, Rsp.u8TryFrom_big h, Res.bind'_err]

theorem Response.encode_readInputRegisters_big (d : Data) (buf : Bytes) (h : 255 < d.len * 2) :
    (Response.readInputRegisters d).encode buf = .err .bufferSize := by
  simp only [Response.encode, Response.pduLen, Res.bind'_ok]
  split
  · rfl
  · rw [Rsp.applyWrites_head1 _ _ (by omega)]
    simp only [Res.bind'_ok, Rsp.u8TryFrom_big h, Res.bind'_err]

theorem Response.encode_readWriteMultipleRegisters_big (d : Data) (buf : Bytes) (h : 255 < d.len * 2) :
    (Response.readWriteMultipleRegisters d).encode buf = .err .bufferSize := by
  simp only [Response.encode, Response.pduLen, Res.bind'_ok]
  split
  · rfl
  · rw [Rsp.applyWrites_head1 _ _ (by omega)]
    simp only [Res.bind'_ok, Rsp.u8TryFrom_big h, Res.bind'_err]

/-- a built response whose payload does not fit the count field is refused with `BufferSize` by the
    encoder, for every output buffer: no wrapped count, no truncated payload, no panic -/
theorem BuiltRsp.encode_oversize {r : Response} {m : Spec.RspMeaning} (hb : BuiltRsp r m) (hf : ¬ m.fits)
    (buf : Bytes) : r.encode buf = .err .bufferSize := by
  cases hb with
  | readCoils h =>
    obtain ⟨hne, _, rfl⟩ := Rsp.fromBools_ok h
    have := Rsp.length_pos hne
    apply Response.encode_readCoils_big
    simp only [Spec.RspMeaning.fits] at hf
    simp only [Coils.packedLen, packedCoilsLen]; omega
  | readDiscreteInputs h =>
    obtain ⟨hne, _, rfl⟩ := Rsp.fromBools_ok h
    have := Rsp.length_pos hne
    apply Response.encode_readDiscreteInputs_big
    simp only [Spec.RspMeaning.fits] at hf
    simp only [Coils.packedLen, packedCoilsLen]; omega
  | readHoldingRegisters h =>
    obtain ⟨hne, rfl⟩ := Rsp.fromWords_ok h
    have := Rsp.length_pos hne
    apply Response.encode_readHoldingRegisters_big
    simp only [Spec.RspMeaning.fits] at hf
    simp only [Data.len]; omega
  | readInputRegisters h =>
    obtain ⟨hne, rfl⟩ := Rsp.fromWords_ok h
    have := Rsp.length_pos hne
    apply Response.encode_readInputRegisters_big
    simp only [Spec.RspMeaning.fits] at hf
    simp only [Data.len]; omega
  | readWriteMultipleRegisters h =>
    obtain ⟨hne, rfl⟩ := Rsp.fromWords_ok h
    have := Rsp.length_pos hne
    apply Response.encode_readWriteMultipleRegisters_big
    simp only [Spec.RspMeaning.fits] at hf
    simp only [Data.len]; omega
  | writeSingleCoil a => exact absurd trivial hf
  | writeSingleRegister a w => exact absurd trivial hf
  | writeMultipleCoils a q => exact absurd trivial hf
  | writeMultipleRegisters a q => exact absurd trivial hf
  | custom fc d => exact absurd trivial hf
  | readExceptionStatus s => exact absurd trivial hf

/-- the encoder's whole outcome on a built response that fits: `BufferSize` when the buffer is shorter
    than the PDU, otherwise the image followed by the untouched rest of the buffer -/
theorem BuiltRsp.encode_fits {r : Response} {m : Spec.RspMeaning} (hb : BuiltRsp r m) (hf : m.fits)
    (buf : Bytes) :
    r.encode buf = if buf.length < r.image.length then .err .bufferSize
      else .ok (r.image.length, r.image ++ buf.drop r.image.length) :=
  Response.encode_eq r buf (hb.encodable_iff.mpr hf)

/-- the crate's own three-byte Write Single Coil response is read back by the decoder -/
theorem Response.decode_image_writeSingleCoil (a : UInt16) :
    Response.decode (Response.writeSingleCoil a).image = .ok (.writeSingleCoil a) := by
  simp only [Response.image, be16, List.cons_append, List.nil_append]
  rw [Response.decode_writeSingleCoil, rd16_be16]

/-- decoding the image of a built response that fits gives back the meaning (coil reads padded) -/
theorem BuiltRsp.decode_image {r : Response} {m : Spec.RspMeaning} (hb : BuiltRsp r m) (hf : m.fits)
    (hs : InScopeRsp m) : ∃ r', Response.decode r.image = .ok r' ∧ r'.sem = some m.padded := by
  by_cases hn : ∀ a, m ≠ .writeSingleCoil a
  · rw [hb.image_eq hn]; exact Response.decode_spec m hf hs
  · cases hb with
    | writeSingleCoil a => exact ⟨_, Response.decode_image_writeSingleCoil a, rfl⟩
    | _ => exact absurd (fun a h => by cases h) hn



/-! ### exception responses -/

/-- arithmetic of the exception marker, for every function code below 0x80 (all 128 instances) -/
theorem Rsp.exc_marker (f : UInt8) (hf : f < 0x80) : ¬ (f + 0x80 < 0x80) ∧ f + 0x80 - 0x80 = f := by
  revert f
  apply byte_cases
  decide +kernel

/-- arithmetic of the marker on the decoding side, for every first byte ≥ 0x80 -/
theorem Rsp.exc_unmarker (c : UInt8) (hc : ¬ c < 0x80) : c - 0x80 < 0x80 ∧ c - 0x80 + 0x80 = c := by
  revert c
  apply byte_cases
  decide +kernel

/-- the exception decoder on any input of at least two bytes (anything after them is ignored) -/
theorem ExceptionResponse.decode_cons (c code : UInt8) (rest : Bytes) :
    ExceptionResponse.decode (c :: code :: rest) =
      if c < 0x80 then .err (.exceptionFnCode c)
      else (Exception.tryFrom code).bind fun ex => .ok ⟨FunctionCode.new (c - 0x80), ex⟩ := by
  have hl : ¬ ((c :: code :: rest).length < 2) := by simp only [List.length_cons]; omega
  simp only [ExceptionResponse.decode, hl, if_false, idx, List.getElem?_cons_zero, List.getElem?_cons_succ,
    Res.bind'_ok]

theorem ExceptionResponse.decode_short (b : Bytes) (h : b.length < 2) :
    ExceptionResponse.decode b = .err .bufferSize := by
  simp [ExceptionResponse.decode, h]

/-- decoding the specification's exception PDU of function `f < 0x80` and exception `k` -/
theorem ExceptionResponse.decode_spec (f : UInt8) (hf : f < 0x80) (k : Exception) (rest : Bytes) :
    ExceptionResponse.decode ((f + 0x80) :: k.val :: rest) = .ok ⟨FunctionCode.new f, k⟩ := by
  obtain ⟨h1, h2⟩ := Rsp.exc_marker f hf
  rw [ExceptionResponse.decode_cons, if_neg h1, C18.exception_roundtrip, h2]
  rfl

/-- `Exception::val` enumerates exactly the nine codes of the specification -/
theorem Rsp.exception_val_mem (k : Exception) : k.val ∈ Spec.excCodes := by
  cases k <;> decide

theorem Rsp.exception_of_code (code : UInt8) (h : code ∈ Spec.excCodes) : ∃ k : Exception, k.val = code := by
  simp only [Spec.excCodes, List.mem_cons, List.not_mem_nil, or_false] at h
  rcases h with h | h | h | h | h | h | h | h | h <;> subst h
  · exact ⟨.illegalFunction, rfl⟩
  · exact ⟨.illegalDataAddress, rfl⟩
  · exact ⟨.illegalDataValue, rfl⟩
  · exact ⟨.serverDeviceFailure, rfl⟩
  · exact ⟨.acknowledge, rfl⟩
  · exact ⟨.serverDeviceBusy, rfl⟩
  · exact ⟨.memoryParityError, rfl⟩
  · exact ⟨.gatewayPathUnavailable, rfl⟩
  · exact ⟨.gatewayTargetDevice, rfl⟩



/-! ### the meaning of a built response, read through its own accessors -/

/-- `m` is what the built value itself means to a user iterating over its payload: the relation
    `BuiltRsp` is not an arbitrary labelling -/
theorem BuiltRsp.sem_eq {r : Response} {m : Spec.RspMeaning} (hb : BuiltRsp r m) : r.sem = some m := by
  cases hb with
  | readCoils h =>
    obtain ⟨_, _, rfl⟩ := Rsp.fromBools_ok h
    simp [Response.sem, Coils.items, Coils.iter_packBits_exact]
  | readDiscreteInputs h =>
    obtain ⟨_, _, rfl⟩ := Rsp.fromBools_ok h
    simp [Response.sem, Coils.items, Coils.iter_packBits_exact]
  | readHoldingRegisters h =>
    obtain ⟨_, rfl⟩ := Rsp.fromWords_ok h
    simp [Response.sem, Data.items_wordsBE]
  | readInputRegisters h =>
    obtain ⟨_, rfl⟩ := Rsp.fromWords_ok h
    simp [Response.sem, Data.items_wordsBE]
  | readWriteMultipleRegisters h =>
    obtain ⟨_, rfl⟩ := Rsp.fromWords_ok h
    simp [Response.sem, Data.items_wordsBE]
  | writeSingleCoil a => rfl
  | writeSingleRegister a w => rfl
  | writeMultipleCoils a q => rfl
  | writeMultipleRegisters a q => rfl
  | custom fc d => rfl
  | readExceptionStatus s => rfl

/-- every meaning with a non-empty payload is the meaning of some built response (the constructors
    accept any payload length): `BuiltRsp` has instances for every `m` that `fits` — and beyond -/
theorem BuiltRsp.exists_of_nonempty (m : Spec.RspMeaning)
    (hne : match m with
      | .readCoils bs | .readDiscreteInputs bs => bs ≠ []
      | .readHoldingRegisters ws | .readInputRegisters ws | .readWriteMultipleRegisters ws => ws ≠ []
      | _ => True) : ∃ r, BuiltRsp r m := by
  cases m with
  | readCoils bs =>
    exact ⟨_, .readCoils (C16.from_bools_spec bs (List.replicate (packedCoilsLen bs.length) 0) hne (by simp))⟩
  | readDiscreteInputs bs =>
    exact ⟨_, .readDiscreteInputs (C16.from_bools_spec bs (List.replicate (packedCoilsLen bs.length) 0) hne (by simp))⟩
  | readHoldingRegisters ws =>
    exact ⟨_, .readHoldingRegisters (C17.from_words_spec ws (List.replicate (ws.length * 2) 0) hne (by simp))⟩
  | readInputRegisters ws =>
    exact ⟨_, .readInputRegisters (C17.from_words_spec ws (List.replicate (ws.length * 2) 0) hne (by simp))⟩
  | readWriteMultipleRegisters ws =>
    exact ⟨_, .readWriteMultipleRegisters (C17.from_words_spec ws (List.replicate (ws.length * 2) 0) hne (by simp))⟩
  | writeSingleCoil a => exact ⟨_, .writeSingleCoil a⟩
  | writeSingleRegister a w => exact ⟨_, .writeSingleRegister a w⟩
  | writeMultipleCoils a q => exact ⟨_, .writeMultipleCoils a q⟩
  | writeMultipleRegisters a q => exact ⟨_, .writeMultipleRegisters a q⟩
  | readExceptionStatus s => exact ⟨_, .readExceptionStatus s⟩
  | custom c d => exact ⟨_, C18.value_custom c ▸ BuiltRsp.custom (.custom c) d⟩


end Modbus

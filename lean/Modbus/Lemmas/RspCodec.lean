import Modbus.Model.Codec
import Modbus.Spec.Wire
import Modbus.Lemmas.Basic
import Modbus.Lemmas.Bytes
import Modbus.Lemmas.Encode
import Modbus.Lemmas.Sem
import Modbus.Lemmas.Coils
import Modbus.Lemmas.Words
import Modbus.Props.C16
import Modbus.Props.C17
import Modbus.Props.C18
/-
Response side of the PDU codec (C02, C03 response half, C19 response half): the relation between a
model response and the meaning it was built from through the public constructors, what the response
decoder returns on each wire layout, and the meaning of what it returns.
-/
namespace Modbus

/-! ### responses built through the public constructors -/

/-- `BuiltRsp r m`: the model response `r` was built from the meaning `m` through the crate's public
    constructors — payload containers by `Coils::from_bools` / `Data::from_words` over ANY target
    slice `t` (any capacity, any previous contents), the fixed-size kinds directly, custom responses
    from any `FunctionCode` value and any data.  No bound on the payload length. -/
inductive BuiltRsp : Response → Spec.RspMeaning → Prop
  | readCoils {bs : List Bool} {t : Bytes} {c : Coils} (h : Coils.fromBools bs t = .ok c) :
      BuiltRsp (.readCoils c) (.readCoils bs)
  | readDiscreteInputs {bs : List Bool} {t : Bytes} {c : Coils} (h : Coils.fromBools bs t = .ok c) :
      BuiltRsp (.readDiscreteInputs c) (.readDiscreteInputs bs)
  | readHoldingRegisters {ws : List UInt16} {t : Bytes} {d : Data} (h : Data.fromWords ws t = .ok d) :
      BuiltRsp (.readHoldingRegisters d) (.readHoldingRegisters ws)
  | readInputRegisters {ws : List UInt16} {t : Bytes} {d : Data} (h : Data.fromWords ws t = .ok d) :
      BuiltRsp (.readInputRegisters d) (.readInputRegisters ws)
  | readWriteMultipleRegisters {ws : List UInt16} {t : Bytes} {d : Data} (h : Data.fromWords ws t = .ok d) :
      BuiltRsp (.readWriteMultipleRegisters d) (.readWriteMultipleRegisters ws)
  | writeSingleCoil (a : UInt16) : BuiltRsp (.writeSingleCoil a) (.writeSingleCoil a)
  | writeSingleRegister (a w : UInt16) : BuiltRsp (.writeSingleRegister a w) (.writeSingleRegister a w)
  | writeMultipleCoils (a q : UInt16) : BuiltRsp (.writeMultipleCoils a q) (.writeMultipleCoils a q)
  | writeMultipleRegisters (a q : UInt16) : BuiltRsp (.writeMultipleRegisters a q) (.writeMultipleRegisters a q)
  | custom (fc : FunctionCode) (data : Bytes) : BuiltRsp (.custom fc data) (.custom fc.value data)

/-- the meanings whose wire form the response decoder reads back as the same kind: everything except a
    *custom* response carrying one of the nine codes the decoder models as a dedicated kind (such bytes
    are, correctly, decoded as that dedicated kind).  Any other code byte is in scope, including ≥ 0x80. -/
def InScopeRsp : Spec.RspMeaning → Prop
  | .custom c _ => c ∉ modelledReqCodes
  | _ => True

/-! ### `padTo8` -/

theorem padTo8_length (bs : List Bool) : (padTo8 bs).length = 8 * ((bs.length + 7) / 8) := by
  simp only [padTo8, List.length_append, List.length_replicate]; omega

theorem padTo8_take (bs : List Bool) : (padTo8 bs).take bs.length = bs := by
  simp [padTo8]

theorem padTo8_drop (bs : List Bool) :
    (padTo8 bs).drop bs.length = List.replicate (8 * ((bs.length + 7) / 8) - bs.length) false := by
  simp only [padTo8, List.drop_left']
  congr 1; omega

theorem padTo8_getElem?_lt (bs : List Bool) (i : Nat) (h : i < bs.length) : (padTo8 bs)[i]? = bs[i]? := by
  simp only [padTo8]; rw [List.getElem?_append_left h]

theorem padTo8_getElem?_ge (bs : List Bool) (i : Nat) (h1 : bs.length ≤ i) (h2 : i < 8 * ((bs.length + 7) / 8)) :
    (padTo8 bs)[i]? = some false := by
  simp only [padTo8]
  rw [List.getElem?_append_right h1, List.getElem?_replicate, if_pos (by omega)]

theorem padTo8_getD (bs : List Bool) (p : Nat) : (padTo8 bs).getD p false = bs.getD p false := by
  simp only [List.getD_eq_getElem?_getD]
  by_cases h : p < bs.length
  · rw [padTo8_getElem?_lt bs p h]
  · rw [List.getElem?_eq_none (show bs.length ≤ p by omega)]
    by_cases h2 : p < 8 * ((bs.length + 7) / 8)
    · rw [padTo8_getElem?_ge bs p (by omega) h2]; rfl
    · rw [List.getElem?_eq_none (by rw [padTo8_length]; omega)]

/-- a list that is already a whole number of bytes is not padded -/
theorem padTo8_of_multiple (bs : List Bool) (h : bs.length % 8 = 0) : padTo8 bs = bs := by
  have : (bs.length + 7) / 8 * 8 - bs.length = 0 := by omega
  simp [padTo8, this]

/-- padding with off-coils up to a whole byte does not change the packed field -/
theorem packBits_padTo8 (bs : List Bool) : Spec.packBits (padTo8 bs) = Spec.packBits bs := by
  apply Bytes.ext_bitAt
  · rw [packBits_length, packBits_length, padTo8_length]; unfold packedCoilsLen; omega
  · intro p _
    rw [bitAt_packBits, bitAt_packBits, padTo8_getD]

/-- iterating over the spec's packed field with the count a coil response carries (bytes × 8)
    yields the coils padded to a whole byte with off-coils -/
theorem Coils.iter_packBits_padded (bs : List Bool) :
    (Coils.mk (Spec.packBits bs) ((bs.length + 7) / 8 * 8)).iter = .ok (padTo8 bs) := by
  have := Coils.iter_packBits (padTo8 bs) []
  rw [packBits_padTo8, List.append_nil, padTo8_length, Nat.mul_comm] at this
  exact this

theorem Coils.items_packBits_padded (bs : List Bool) :
    (Coils.mk (Spec.packBits bs) ((bs.length + 7) / 8 * 8)).items = some (padTo8 bs) := by
  simp [Coils.items, Coils.iter_packBits_padded]

theorem Data.items_wordsBE (ws : List UInt16) : (Data.mk (Spec.wordsBE ws) ws.length).items = some ws := by
  simp [Data.items, C17.iter_from_words]

/-! ### what the response decoder returns on each layout -/

theorem Rsp.fc_new_01 : FunctionCode.new 0x01 = .readCoils := by decide
theorem Rsp.fc_new_02 : FunctionCode.new 0x02 = .readDiscreteInputs := by decide
theorem Rsp.fc_new_03 : FunctionCode.new 0x03 = .readHoldingRegisters := by decide
theorem Rsp.fc_new_04 : FunctionCode.new 0x04 = .readInputRegisters := by decide
theorem Rsp.fc_new_05 : FunctionCode.new 0x05 = .writeSingleCoil := by decide
theorem Rsp.fc_new_06 : FunctionCode.new 0x06 = .writeSingleRegister := by decide
theorem Rsp.fc_new_0F : FunctionCode.new 0x0F = .writeMultipleCoils := by decide
theorem Rsp.fc_new_10 : FunctionCode.new 0x10 = .writeMultipleRegisters := by decide
theorem Rsp.fc_new_17 : FunctionCode.new 0x17 = .readWriteMultipleRegisters := by decide

theorem Rsp.slice_cons2_take (x y : UInt8) (rest : Bytes) (n : Nat) (h : n ≤ rest.length) :
    slice (x :: y :: rest) 2 (n + 2) = .ok (rest.take n) := by
  unfold slice
  rw [if_pos ⟨by omega, by simp only [List.length_cons]; omega⟩]
  simp

theorem Rsp.slice_cons2_take' (x y : UInt8) (rest : Bytes) (n : Nat) (h : n ≤ rest.length) :
    slice (x :: y :: rest) 2 (2 + n) = .ok (rest.take n) := by
  rw [Nat.add_comm]; exact Rsp.slice_cons2_take x y rest n h

/-- Read Coils response: code, byte count, that many bytes (anything after them is ignored);
    the value's count is bytes × 8 -/
theorem Response.decode_readCoils (bc : UInt8) (rest : Bytes) (h : bc.toNat ≤ rest.length) :
    Response.decode (0x01 :: bc :: rest) = .ok (.readCoils ⟨rest.take bc.toNat, bc.toNat * 8⟩) := by
  have hl : ¬ (bc.toNat + 2 > (0x01 :: bc :: rest).length) := by simp only [List.length_cons]; omega
  simp only [Response.decode, List.isEmpty_cons, Bool.false_eq_true, if_false, idx, List.getElem?_cons_zero,
    Res.bind'_ok, Rsp.fc_new_01, minResponsePduLen, List.getElem?_cons_succ, hl, Rsp.slice_cons2_take _ _ _ _ h]
  simp

theorem Response.decode_readDiscreteInputs (bc : UInt8) (rest : Bytes) (h : bc.toNat ≤ rest.length) :
    Response.decode (0x02 :: bc :: rest) = .ok (.readDiscreteInputs ⟨rest.take bc.toNat, bc.toNat * 8⟩) := by
  have hl : ¬ (bc.toNat + 2 > (0x02 :: bc :: rest).length) := by simp only [List.length_cons]; omega
  simp only [Response.decode, List.isEmpty_cons, Bool.false_eq_true, if_false, idx, List.getElem?_cons_zero,
    Res.bind'_ok, Rsp.fc_new_02, minResponsePduLen, List.getElem?_cons_succ, hl, Rsp.slice_cons2_take _ _ _ _ h]
  simp

theorem Response.decode_readHoldingRegisters (bc : UInt8) (rest : Bytes) (h : bc.toNat ≤ rest.length) :
    Response.decode (0x03 :: bc :: rest) = .ok (.readHoldingRegisters ⟨rest.take bc.toNat, bc.toNat / 2⟩) := by
  have hl : ¬ (bc.toNat + 2 > (0x03 :: bc :: rest).length) := by simp only [List.length_cons]; omega
  simp only [Response.decode, List.isEmpty_cons, Bool.false_eq_true, if_false, idx, List.getElem?_cons_zero,
    Res.bind'_ok, Rsp.fc_new_03, minResponsePduLen, List.getElem?_cons_succ, hl, Rsp.slice_cons2_take' _ _ _ _ h]
  simp

theorem Response.decode_readInputRegisters (bc : UInt8) (rest : Bytes) (h : bc.toNat ≤ rest.length) :
    Response.decode (0x04 :: bc :: rest) = .ok (.readInputRegisters ⟨rest.take bc.toNat, bc.toNat / 2⟩) := by
  have hl : ¬ (bc.toNat + 2 > (0x04 :: bc :: rest).length) := by simp only [List.length_cons]; omega
  simp only [Response.decode, List.isEmpty_cons, Bool.false_eq_true, if_false, idx, List.getElem?_cons_zero,
    Res.bind'_ok, Rsp.fc_new_04, minResponsePduLen, List.getElem?_cons_succ, hl, Rsp.slice_cons2_take' _ _ _ _ h]
  simp

theorem Response.decode_readWriteMultipleRegisters (bc : UInt8) (rest : Bytes) (h : bc.toNat ≤ rest.length) :
    Response.decode (0x17 :: bc :: rest) = .ok (.readWriteMultipleRegisters ⟨rest.take bc.toNat, bc.toNat / 2⟩) := by
  have hl : ¬ (bc.toNat + 2 > (0x17 :: bc :: rest).length) := by simp only [List.length_cons]; omega
  simp only [Response.decode, List.isEmpty_cons, Bool.false_eq_true, if_false, idx, List.getElem?_cons_zero,
    Res.bind'_ok, Rsp.fc_new_17, minResponsePduLen, List.getElem?_cons_succ, hl, Rsp.slice_cons2_take' _ _ _ _ h]
  simp

/-- Write Single Coil response: the decoder needs only code and address; whatever follows
    (nothing in the crate's own three-byte form, the echoed value in the specification's) is ignored -/
theorem Response.decode_writeSingleCoil (h l : UInt8) (rest : Bytes) :
    Response.decode (0x05 :: h :: l :: rest) = .ok (.writeSingleCoil (rd16 h l)) := by
  simp [Response.decode, idx, Rsp.fc_new_05, minResponsePduLen, read16]

theorem Response.decode_writeSingleRegister (a1 a2 v1 v2 : UInt8) (rest : Bytes) :
    Response.decode (0x06 :: a1 :: a2 :: v1 :: v2 :: rest) = .ok (.writeSingleRegister (rd16 a1 a2) (rd16 v1 v2)) := by
  simp [Response.decode, idx, Rsp.fc_new_06, minResponsePduLen, read16]

theorem Response.decode_writeMultipleCoils (a1 a2 v1 v2 : UInt8) (rest : Bytes) :
    Response.decode (0x0F :: a1 :: a2 :: v1 :: v2 :: rest) = .ok (.writeMultipleCoils (rd16 a1 a2) (rd16 v1 v2)) := by
  simp [Response.decode, idx, Rsp.fc_new_0F, minResponsePduLen, read16]

theorem Response.decode_writeMultipleRegisters (a1 a2 v1 v2 : UInt8) (rest : Bytes) :
    Response.decode (0x10 :: a1 :: a2 :: v1 :: v2 :: rest) = .ok (.writeMultipleRegisters (rd16 a1 a2) (rd16 v1 v2)) := by
  simp [Response.decode, idx, Rsp.fc_new_10, minResponsePduLen, read16]

/-- a code byte that is none of the nine modelled response kinds — any other byte, including the
    RTU-only codes and bytes ≥ 0x80 — is decoded by the catch-all as a custom response carrying
    that code and all remaining bytes -/
theorem Response.decode_custom (c : UInt8) (hc : c ∉ modelledReqCodes) (d : Bytes) :
    Response.decode (c :: d) = .ok (.custom (FunctionCode.new c) d) := by
  have hv := C18.value_new c
  simp only [modelledReqCodes, List.mem_cons, List.not_mem_nil, or_false, not_or] at hc
  cases hfc : FunctionCode.new c <;> rw [hfc] at hv <;>
    first
    | (exfalso; simp only [FunctionCode.value] at hv; simp [← hv] at hc; done)
    | simp [Response.decode, idx, hfc, minResponsePduLen, sliceFrom]


/-! ### decoding the specification's layouts -/

theorem Rsp.toNat_ofNat_u8 {n : Nat} (h : n ≤ 255) : (UInt8.ofNat n).toNat = n := by
  rw [UInt8.toNat_ofNat']; omega

theorem Rsp.rd16_hi_lo (a : UInt16) : rd16 (Spec.hi a) (Spec.lo a) = a := rd16_be16 a

theorem Rsp.word_eq_be16 (a : UInt16) : Spec.word a = be16 a := rfl

/-- the specification's Read Coils response, decoded: the packed field and the count bytes × 8 -/
theorem Response.decode_spec_readCoils (bs : List Bool) (h : (bs.length + 7) / 8 ≤ 255) :
    Response.decode (Spec.rspBytes (.readCoils bs)) =
      .ok (.readCoils ⟨Spec.packBits bs, (bs.length + 7) / 8 * 8⟩) := by
  have ht := Rsp.toNat_ofNat_u8 h
  have hl : (Spec.packBits bs).length = (bs.length + 7) / 8 := packBits_length bs
  simp only [Spec.rspBytes]
  rw [Response.decode_readCoils _ _ (by rw [ht, hl]; exact Nat.le_refl _), ht,
    List.take_of_length_le (by rw [hl]; exact Nat.le_refl _)]

theorem Response.decode_spec_readDiscreteInputs (bs : List Bool) (h : (bs.length + 7) / 8 ≤ 255) :
    Response.decode (Spec.rspBytes (.readDiscreteInputs bs)) =
      .ok (.readDiscreteInputs ⟨Spec.packBits bs, (bs.length + 7) / 8 * 8⟩) := by
  have ht := Rsp.toNat_ofNat_u8 h
  have hl : (Spec.packBits bs).length = (bs.length + 7) / 8 := packBits_length bs
  simp only [Spec.rspBytes]
  rw [Response.decode_readDiscreteInputs _ _ (by rw [ht, hl]; exact Nat.le_refl _), ht,
    List.take_of_length_le (by rw [hl]; exact Nat.le_refl _)]

theorem Response.decode_spec_readHoldingRegisters (ws : List UInt16) (h : 2 * ws.length ≤ 255) :
    Response.decode (Spec.rspBytes (.readHoldingRegisters ws)) =
      .ok (.readHoldingRegisters ⟨Spec.wordsBE ws, ws.length⟩) := by
  have ht := Rsp.toNat_ofNat_u8 h
  have hl : (Spec.wordsBE ws).length = 2 * ws.length := by rw [wordsBE_length]; omega
  simp only [Spec.rspBytes]
  rw [Response.decode_readHoldingRegisters _ _ (by rw [ht, hl]; exact Nat.le_refl _), ht,
    List.take_of_length_le (by rw [hl]; exact Nat.le_refl _)]
  congr 3; omega

theorem Response.decode_spec_readInputRegisters (ws : List UInt16) (h : 2 * ws.length ≤ 255) :
    Response.decode (Spec.rspBytes (.readInputRegisters ws)) =
      .ok (.readInputRegisters ⟨Spec.wordsBE ws, ws.length⟩) := by
  have ht := Rsp.toNat_ofNat_u8 h
  have hl : (Spec.wordsBE ws).length = 2 * ws.length := by rw [wordsBE_length]; omega
  simp only [Spec.rspBytes]
  rw [Response.decode_readInputRegisters _ _ (by rw [ht, hl]; exact Nat.le_refl _), ht,
    List.take_of_length_le (by rw [hl]; exact Nat.le_refl _)]
  congr 3; omega

theorem Response.decode_spec_readWriteMultipleRegisters (ws : List UInt16) (h : 2 * ws.length ≤ 255) :
    Response.decode (Spec.rspBytes (.readWriteMultipleRegisters ws)) =
      .ok (.readWriteMultipleRegisters ⟨Spec.wordsBE ws, ws.length⟩) := by
  have ht := Rsp.toNat_ofNat_u8 h
  have hl : (Spec.wordsBE ws).length = 2 * ws.length := by rw [wordsBE_length]; omega
  simp only [Spec.rspBytes]
  rw [Response.decode_readWriteMultipleRegisters _ _ (by rw [ht, hl]; exact Nat.le_refl _), ht,
    List.take_of_length_le (by rw [hl]; exact Nat.le_refl _)]
  congr 3; omega

/-- the specification's five-byte Write Single Coil response is accepted; the address comes back -/
theorem Response.decode_spec_writeSingleCoil (a : UInt16) :
    Response.decode (Spec.rspBytes (.writeSingleCoil a)) = .ok (.writeSingleCoil a) := by
  simp only [Spec.rspBytes, Spec.word, List.cons_append, List.nil_append]
  rw [Response.decode_writeSingleCoil, Rsp.rd16_hi_lo]

theorem Response.decode_spec_writeSingleRegister (a w : UInt16) :
    Response.decode (Spec.rspBytes (.writeSingleRegister a w)) = .ok (.writeSingleRegister a w) := by
  simp only [Spec.rspBytes, Spec.word, List.cons_append, List.nil_append]
  rw [Response.decode_writeSingleRegister, Rsp.rd16_hi_lo, Rsp.rd16_hi_lo]

theorem Response.decode_spec_writeMultipleCoils (a q : UInt16) :
    Response.decode (Spec.rspBytes (.writeMultipleCoils a q)) = .ok (.writeMultipleCoils a q) := by
  simp only [Spec.rspBytes, Spec.word, List.cons_append, List.nil_append]
  rw [Response.decode_writeMultipleCoils, Rsp.rd16_hi_lo, Rsp.rd16_hi_lo]

theorem Response.decode_spec_writeMultipleRegisters (a q : UInt16) :
    Response.decode (Spec.rspBytes (.writeMultipleRegisters a q)) = .ok (.writeMultipleRegisters a q) := by
  simp only [Spec.rspBytes, Spec.word, List.cons_append, List.nil_append]
  rw [Response.decode_writeMultipleRegisters, Rsp.rd16_hi_lo, Rsp.rd16_hi_lo]

theorem Response.decode_spec_custom (c : UInt8) (hc : c ∉ modelledReqCodes) (d : Bytes) :
    Response.decode (Spec.rspBytes (.custom c d)) = .ok (.custom (FunctionCode.new c) d) :=
  Response.decode_custom c hc d

/-- every spec-conformant response PDU within the count-field range is decoded to the meaning the
    specification assigns it (coil reads: rounded up to a whole byte, padding off) -/
theorem Response.decode_spec (m : Spec.RspMeaning) (hf : m.fits) (hs : InScopeRsp m) :
    ∃ r', Response.decode (Spec.rspBytes m) = .ok r' ∧ r'.sem = some m.padded := by
  cases m with
  | readCoils bs =>
    exact ⟨_, Response.decode_spec_readCoils bs hf.2, by
      simp [Response.sem, Coils.items_packBits_padded, Spec.RspMeaning.padded]⟩
  | readDiscreteInputs bs =>
    exact ⟨_, Response.decode_spec_readDiscreteInputs bs hf.2, by
      simp [Response.sem, Coils.items_packBits_padded, Spec.RspMeaning.padded]⟩
  | readHoldingRegisters ws =>
    exact ⟨_, Response.decode_spec_readHoldingRegisters ws hf.2, by
      simp [Response.sem, Data.items_wordsBE, Spec.RspMeaning.padded]⟩
  | readInputRegisters ws =>
    exact ⟨_, Response.decode_spec_readInputRegisters ws hf.2, by
      simp [Response.sem, Data.items_wordsBE, Spec.RspMeaning.padded]⟩
  | readWriteMultipleRegisters ws =>
    exact ⟨_, Response.decode_spec_readWriteMultipleRegisters ws hf.2, by
      simp [Response.sem, Data.items_wordsBE, Spec.RspMeaning.padded]⟩
  | writeSingleCoil a => exact ⟨_, Response.decode_spec_writeSingleCoil a, rfl⟩
  | writeSingleRegister a w => exact ⟨_, Response.decode_spec_writeSingleRegister a w, rfl⟩
  | writeMultipleCoils a q => exact ⟨_, Response.decode_spec_writeMultipleCoils a q, rfl⟩
  | writeMultipleRegisters a q => exact ⟨_, Response.decode_spec_writeMultipleRegisters a q, rfl⟩
  | custom c d =>
    exact ⟨_, Response.decode_spec_custom c hs d, by
      simp [Response.sem, C18.value_new, Spec.RspMeaning.padded]⟩


end Modbus

import Modbus.Model.Tcp
import Modbus.Lemmas.Basic
/-
The MBAP header checks of `tcp::decode` / `tcp::extract_frame` (protocol identifier as soon as four
bytes are there, length field as soon as six bytes are there), and `Tcp.extractFrame` / the two TCP
attempts in terms of them.
-/
namespace Modbus.Tcp

/-- a big-endian word is zero exactly if both of its bytes are -/
theorem rd16_eq_zero_iff (hi lo : UInt8) : rd16 hi lo = 0 ↔ hi = 0 ∧ lo = 0 := by
  constructor
  · intro h
    have h1 : (rd16 hi lo).toNat = 0 := by rw [h]; rfl
    rw [rd16_toNat] at h1
    constructor
    · apply UInt8.toNat_inj.1; show hi.toNat = 0; omega
    · apply UInt8.toNat_inj.1; show lo.toNat = 0; omega
  · rintro ⟨rfl, rfl⟩; rfl

/-! ### `check_protocol_id` -/

theorem checkProtocolId_of_short {raw : Bytes} (h : raw.length < 4) : checkProtocolId raw = .ok () := by
  unfold checkProtocolId
  rw [if_neg (by omega)]

theorem checkProtocolId_of_ge {raw : Bytes} (h : 4 ≤ raw.length) :
    checkProtocolId raw =
      if rd16 raw[2] raw[3] != 0 then .err (.protocolNotModbus (rd16 raw[2] raw[3])) else .ok () := by
  unfold checkProtocolId
  rw [if_pos h, read16_eq_ok (by omega)]
  rfl

/-- visible and wrong: the error carries the identifier read -/
theorem checkProtocolId_bad {raw : Bytes} (h : 4 ≤ raw.length) (hb : ¬ (raw[2] = 0 ∧ raw[3] = 0)) :
    checkProtocolId raw = .err (.protocolNotModbus (rd16 raw[2] raw[3])) := by
  rw [checkProtocolId_of_ge h]
  have : rd16 raw[2] raw[3] ≠ 0 := fun hz => hb ((rd16_eq_zero_iff _ _).1 hz)
  simp [this]

theorem checkProtocolId_good {raw : Bytes} (h : 4 ≤ raw.length) (h2 : raw[2] = 0) (h3 : raw[3] = 0) :
    checkProtocolId raw = .ok () := by
  rw [checkProtocolId_of_ge h, h2, h3]
  rfl

/-- the check passes exactly if the identifier is not visible yet or is 0 -/
theorem checkProtocolId_eq_ok_iff (raw : Bytes) :
    checkProtocolId raw = .ok () ↔ ∀ h : 4 ≤ raw.length, raw[2] = 0 ∧ raw[3] = 0 := by
  by_cases h : 4 ≤ raw.length
  · constructor
    · intro hok _
      apply Decidable.by_contra
      intro hb
      rw [checkProtocolId_bad h hb] at hok
      cases hok
    · intro hz
      exact checkProtocolId_good h (hz h).1 (hz h).2
  · simp only [checkProtocolId_of_short (Nat.lt_of_not_le h), true_iff]
    intro h'; exact absurd h' h

/-- the check is passed or fails with `ProtocolNotModbus` -/
theorem checkProtocolId_cases (raw : Bytes) :
    checkProtocolId raw = .ok () ∨
      ∃ _h : 4 ≤ raw.length, ¬ (raw[2] = 0 ∧ raw[3] = 0) ∧
        checkProtocolId raw = .err (.protocolNotModbus (rd16 raw[2] raw[3])) := by
  by_cases h : 4 ≤ raw.length
  · by_cases hb : raw[2] = 0 ∧ raw[3] = 0
    · exact .inl (checkProtocolId_good h hb.1 hb.2)
    · exact .inr ⟨h, hb, checkProtocolId_bad h hb⟩
  · exact .inl (checkProtocolId_of_short (Nat.lt_of_not_le h))

theorem checkProtocolId_ne_panic (raw : Bytes) : checkProtocolId raw ≠ .panic := by
  rcases checkProtocolId_cases raw with h | ⟨_, _, h⟩ <;> rw [h] <;> simp

theorem prefix_getElem {p q : Bytes} (h : p <+: q) {i : Nat} (hi : i < p.length) :
    p[i] = q[i]'(Nat.lt_of_lt_of_le hi h.length_le) := by
  obtain ⟨t, rfl⟩ := h
  exact (List.getElem_append_left hi).symm

/-- a prefix of a buffer that passes the check passes it -/
theorem checkProtocolId_prefix {p q : Bytes} (h : p <+: q) (hq : checkProtocolId q = .ok ()) :
    checkProtocolId p = .ok () := by
  rw [checkProtocolId_eq_ok_iff] at hq ⊢
  intro hp
  have hl := h.length_le
  have := hq (by omega)
  rw [prefix_getElem h (by omega), prefix_getElem h (by omega)]
  exact this

/-- … and the check only looks at the first four bytes -/
theorem checkProtocolId_append {p : Bytes} (rest : Bytes) (h4 : 4 ≤ p.length) :
    checkProtocolId (p ++ rest) = checkProtocolId p := by
  have hl : 4 ≤ (p ++ rest).length := by rw [List.length_append]; omega
  rw [checkProtocolId_of_ge hl, checkProtocolId_of_ge h4,
    List.getElem_append_left (by omega), List.getElem_append_left (by omega)]

/-! ### the length field -/

theorem checkLengthField_of_short {buf : Bytes} (n : Nat) (h : buf.length < 6) :
    checkLengthField buf n = .ok () := by
  unfold checkLengthField
  rw [if_neg (by omega)]

theorem checkLengthField_of_ge {buf : Bytes} (n : Nat) (h : 6 ≤ buf.length) :
    checkLengthField buf n =
      if (rd16 buf[4] buf[5]).toNat ≠ n + 1 then .err (.lengthMismatch (rd16 buf[4] buf[5]).toNat (n + 1))
      else .ok () := by
  unfold checkLengthField
  rw [if_pos h, read16_eq_ok (by omega)]
  rfl

theorem checkLengthField_bad {buf : Bytes} (n : Nat) (h : 6 ≤ buf.length)
    (hb : (rd16 buf[4] buf[5]).toNat ≠ n + 1) :
    checkLengthField buf n = .err (.lengthMismatch (rd16 buf[4] buf[5]).toNat (n + 1)) := by
  rw [checkLengthField_of_ge n h, if_pos hb]

theorem checkLengthField_good {buf : Bytes} (n : Nat) (h : 6 ≤ buf.length)
    (hg : (rd16 buf[4] buf[5]).toNat = n + 1) : checkLengthField buf n = .ok () := by
  rw [checkLengthField_of_ge n h, if_neg (by simp [hg])]

theorem checkLengthField_eq_ok_iff (buf : Bytes) (n : Nat) :
    checkLengthField buf n = .ok () ↔ ∀ h : 6 ≤ buf.length, (rd16 buf[4] buf[5]).toNat = n + 1 := by
  by_cases h : 6 ≤ buf.length
  · constructor
    · intro hok _
      apply Decidable.by_contra
      intro hb
      rw [checkLengthField_bad n h hb] at hok
      cases hok
    · intro hz
      exact checkLengthField_good n h (hz h)
  · simp only [checkLengthField_of_short n (Nat.lt_of_not_le h), true_iff]
    intro h'; exact absurd h' h

theorem checkLengthField_cases (buf : Bytes) (n : Nat) :
    checkLengthField buf n = .ok () ∨
      ∃ _h : 6 ≤ buf.length, (rd16 buf[4] buf[5]).toNat ≠ n + 1 ∧
        checkLengthField buf n = .err (.lengthMismatch (rd16 buf[4] buf[5]).toNat (n + 1)) := by
  by_cases h : 6 ≤ buf.length
  · by_cases hb : (rd16 buf[4] buf[5]).toNat = n + 1
    · exact .inl (checkLengthField_good n h hb)
    · exact .inr ⟨h, hb, checkLengthField_bad n h hb⟩
  · exact .inl (checkLengthField_of_short n (Nat.lt_of_not_le h))

theorem checkLengthField_ne_panic (buf : Bytes) (n : Nat) : checkLengthField buf n ≠ .panic := by
  rcases checkLengthField_cases buf n with h | ⟨_, _, h⟩ <;> rw [h] <;> simp

theorem checkLengthField_prefix {p q : Bytes} {n : Nat} (h : p <+: q)
    (hq : checkLengthField q n = .ok ()) : checkLengthField p n = .ok () := by
  rw [checkLengthField_eq_ok_iff] at hq ⊢
  intro hp
  have hl := h.length_le
  have := hq (by omega)
  rw [prefix_getElem h (by omega), prefix_getElem h (by omega)]
  exact this

/-! ### `extract_frame` in terms of the two checks -/

theorem isEmpty_eq_false_of_ne {b : Bytes} (h : b ≠ []) : b.isEmpty = false := by
  cases b with
  | nil => exact absurd rfl h
  | cons _ _ => rfl

/-- non-empty buffer, no overflow: header checks, then the size test, then the frame -/
theorem extractFrame_eq {buf : Bytes} {n : Nat} (hne : buf ≠ []) (hn : 7 + n < usizeLimit) :
    extractFrame buf n =
      (checkProtocolId buf).bind fun _ => (checkLengthField buf n).bind fun _ =>
        if h : buf.length ≥ 7 + n then
          .ok (some ⟨rd16 buf[0] buf[1], buf[6], (buf.drop 7).take n⟩)
        else .ok none := by
  unfold extractFrame
  rw [isEmpty_eq_false_of_ne hne]
  simp only [Bool.false_eq_true, if_false]
  rw [if_neg (by omega)]
  rcases checkProtocolId_cases buf with hp | ⟨_, _, hp⟩
  · rw [hp]
    simp only [Res.bind'_ok]
    rcases checkLengthField_cases buf n with hl | ⟨_, _, hl⟩
    · rw [hl]
      simp only [Res.bind'_ok]
      by_cases hlen : buf.length ≥ 7 + n
      · rw [if_pos hlen, dif_pos hlen]
        have hlt : (buf.take (7 + n)).length = 7 + n := by rw [List.length_take]; omega
        have hr2 : read16 (buf.take (7 + n)) 2 = .ok (rd16 buf[2] buf[3]) := by
          rw [read16_eq_ok (by omega)]; simp only [List.getElem_take]
        have hr0 : read16 (buf.take (7 + n)) 0 = .ok (rd16 buf[0] buf[1]) := by
          rw [read16_eq_ok (by omega)]; simp only [List.getElem_take]
        have hr4 : read16 (buf.take (7 + n)) 4 = .ok (rd16 buf[4] buf[5]) := by
          rw [read16_eq_ok (by omega)]; simp only [List.getElem_take]
        have hi6 : idx (buf.take (7 + n)) 6 = .ok buf[6] := by
          rw [idx_eq_ok (by omega)]; simp only [List.getElem_take]
        have h23 := (checkProtocolId_eq_ok_iff buf).1 hp (by omega)
        have h45 := (checkLengthField_eq_ok_iff buf n).1 hl (by omega)
        have hz : rd16 buf[2] buf[3] = 0 := (rd16_eq_zero_iff _ _).2 h23
        rw [hr2]
        simp only [Res.bind'_ok, hz, bne_self_eq_false, Bool.false_eq_true, if_false, hr0, hr4, hi6]
        rw [if_neg (by simp [h45])]
        congr 3
        rw [List.drop_take]; congr 1; omega
      · rw [if_neg hlen, dif_neg hlen]
    · rw [hl]; rfl
  · rw [hp]; rfl

theorem extractFrame_proto_err {buf : Bytes} {n : Nat} {e : Error} (hne : buf ≠ [])
    (hn : 7 + n < usizeLimit) (hp : checkProtocolId buf = .err e) : extractFrame buf n = .err e := by
  rw [extractFrame_eq hne hn, hp]; rfl

theorem extractFrame_len_err {buf : Bytes} {n : Nat} {e : Error} (hne : buf ≠ [])
    (hn : 7 + n < usizeLimit) (hp : checkProtocolId buf = .ok ()) (hl : checkLengthField buf n = .err e) :
    extractFrame buf n = .err e := by
  rw [extractFrame_eq hne hn, hp, Res.bind'_ok, hl]; rfl

/-- the visible part of the header is consistent, the ADU is not all there yet: incomplete -/
theorem extractFrame_short {buf : Bytes} {n : Nat} (hne : buf ≠ []) (hn : 7 + n < usizeLimit)
    (hp : checkProtocolId buf = .ok ()) (hl : checkLengthField buf n = .ok ())
    (hlt : buf.length < 7 + n) : extractFrame buf n = .ok none := by
  rw [extractFrame_eq hne hn, hp, Res.bind'_ok, hl, Res.bind'_ok, dif_neg (by omega)]

theorem extractFrame_whole {buf : Bytes} {n : Nat} (hn : 7 + n < usizeLimit)
    (hp : checkProtocolId buf = .ok ()) (hl : checkLengthField buf n = .ok ())
    (hge : 7 + n ≤ buf.length) :
    extractFrame buf n = .ok (some ⟨rd16 buf[0] buf[1], buf[6], (buf.drop 7).take n⟩) := by
  have hne : buf ≠ [] := by intro h; rw [h] at hge; simp at hge
  rw [extractFrame_eq hne hn, hp, Res.bind'_ok, hl, Res.bind'_ok, dif_pos hge]

/-- a returned frame: the whole ADU is there, both checks passed, and the frame is read off the buffer -/
theorem extractFrame_some {buf : Bytes} {n : Nat} {f : Frame} (h : extractFrame buf n = .ok (some f)) :
    ∃ _hl : 7 + n ≤ buf.length, checkProtocolId buf = .ok () ∧ checkLengthField buf n = .ok () ∧
      f = ⟨rd16 buf[0] buf[1], buf[6], (buf.drop 7).take n⟩ := by
  have hne : buf ≠ [] := by
    intro he; rw [he] at h; simp [extractFrame] at h
  have hn : 7 + n < usizeLimit := by
    apply Decidable.by_contra
    intro ho
    unfold extractFrame at h
    rw [isEmpty_eq_false_of_ne hne] at h
    simp only [Bool.false_eq_true, if_false] at h
    rw [if_pos (by omega)] at h
    cases h
  rw [extractFrame_eq hne hn] at h
  rcases checkProtocolId_cases buf with hp | ⟨_, _, hp⟩
  · rw [hp, Res.bind'_ok] at h
    rcases checkLengthField_cases buf n with hl | ⟨_, _, hl⟩
    · rw [hl, Res.bind'_ok] at h
      by_cases hlen : buf.length ≥ 7 + n
      · rw [dif_pos hlen] at h
        simp only [Res.ok.injEq, Option.some.injEq] at h
        exact ⟨hlen, hp, hl, h.symm⟩
      · rw [dif_neg hlen] at h
        simp at h
    · rw [hl] at h; cases h
  · rw [hp] at h; cases h

/-! ### the two attempts -/

/-- the attempt of `tcp::decode` for a length predictor `pred` -/
abbrev attemptOf (pred : Bytes → Res (Option Nat)) : Attempt Frame :=
  mkAttempt (fun raw => (checkProtocolId raw).bind fun _ => pred raw) extractFrame 7

theorem attemptReq_eq : attemptReq = attemptOf requestPduLen := rfl
theorem attemptRsp_eq : attemptRsp = attemptOf responsePduLen := rfl

/-- wrong protocol identifier: the attempt is that error, whatever the predictor would say -/
theorem attemptOf_proto_err (pred : Bytes → Res (Option Nat)) {raw : Bytes} {e : Error}
    (hp : checkProtocolId raw = .err e) : attemptOf pred raw = .err e := by
  simp only [attemptOf, mkAttempt, hp, Res.bind'_err]

/-- protocol identifier not visible or 0: prediction followed by extraction -/
theorem attemptOf_proto_ok (pred : Bytes → Res (Option Nat)) {raw : Bytes}
    (hp : checkProtocolId raw = .ok ()) : attemptOf pred raw = mkAttempt pred extractFrame 7 raw := by
  simp only [attemptOf, mkAttempt, hp, Res.bind'_ok]

end Modbus.Tcp

import Modbus.Model.Crc
import Modbus.Spec.Crc
import Modbus.Lemmas.Basic
import Modbus.Lemmas.Bytes
/-
Register algebra of the CRC round (`crcRound`) on `BitVec 16`, and the bridge between the model
(`crcRound`/`crcByte`/`crcRaw` on `UInt16`) and the bit-serial specification (`Spec.lfsrStep`, `Spec.feed`).
-/
namespace Modbus
namespace Crc

/-- the model's round, on `BitVec 16` -/
def L (s : BitVec 16) : BitVec 16 :=
  if s &&& 1#16 != 0#16 then (s >>> 1) ^^^ 0xA001#16 else s >>> 1

/-- the feedback constant -/
def P : BitVec 16 := 0xA001#16

theorem bne_toBitVec (a b : UInt16) : (a != b) = (a.toBitVec != b.toBitVec) := by
  rw [Bool.eq_iff_iff]; simp [UInt16.toBitVec_inj]

/-- `crcRound` is `L` on the underlying bit vector -/
theorem crcRound_toBitVec (c : UInt16) : (crcRound c).toBitVec = L c.toBitVec := by
  unfold crcRound L
  rw [bne_toBitVec]
  simp only [UInt16.toBitVec_and]
  split <;> rename_i h
  · rw [if_pos (by simpa using h)]; simp
  · rw [if_neg (by simpa using h)]; simp

theorem and_one_ne (s : BitVec 16) : (s &&& 1#16 != 0#16) = s.getLsbD 0 := by
  rcases hb : s.getLsbD 0 with _ | _
  · have : s &&& 1#16 = 0#16 := by
      ext i hi
      by_cases h0 : i = 0
      · subst h0; simpa using hb
      · simp [h0]
    simp [this]
  · have : s &&& 1#16 ≠ 0#16 := by
      intro h
      have h2 := congrArg (fun v => v.getLsbD 0) h
      simp at h2
      rw [BitVec.getLsbD_eq_getElem (by decide)] at hb
      rw [hb] at h2; exact absurd h2 (by decide)
    simp [this]

theorem L_def (s : BitVec 16) : L s = (s >>> 1) ^^^ (if s.getLsbD 0 then P else 0#16) := by
  unfold L P
  rw [and_one_ne]; split <;> simp

theorem xor_cancel_left (p a : BitVec 16) : p ^^^ (p ^^^ a) = a := by
  rw [← BitVec.xor_assoc, BitVec.xor_self, BitVec.zero_xor]

/-- the round is linear over GF(2) -/
theorem L_xor (x y : BitVec 16) : L (x ^^^ y) = L x ^^^ L y := by
  simp only [L_def, BitVec.getLsbD_xor, BitVec.ushiftRight_xor_distrib]
  rcases x.getLsbD 0 with _ | _ <;> rcases y.getLsbD 0 with _ | _ <;> simp
  · ac_rfl
  · ac_rfl
  · have : x >>> 1 ^^^ P ^^^ (y >>> 1 ^^^ P) = P ^^^ (P ^^^ (x >>> 1 ^^^ y >>> 1)) := by ac_rfl
    rw [this, xor_cancel_left]

theorem L_zero : L 0#16 = 0#16 := by decide

/-- the round has trivial kernel -/
theorem L_eq_zero (s : BitVec 16) (h : L s = 0#16) : s = 0#16 := by
  rw [L_def] at h
  rcases hb : s.getLsbD 0 with _ | _
  · rw [hb] at h
    simp at h
    have hs : s.toNat / 2 = 0 := by
      have := congrArg BitVec.toNat h
      simpa [BitVec.toNat_ushiftRight, Nat.shiftRight_eq_div_pow] using this
    have h0 : s.toNat % 2 = 0 := by
      have : s.getLsbD 0 = s.toNat.testBit 0 := rfl
      rw [this, Nat.testBit_zero] at hb
      simpa using hb
    apply BitVec.eq_of_toNat_eq
    simp; omega
  · rw [hb] at h
    simp only [if_true] at h
    have h' : s >>> 1 = P := BitVec.xor_eq_zero_iff.mp h
    have := congrArg BitVec.toNat h'
    simp [BitVec.toNat_ushiftRight, Nat.shiftRight_eq_div_pow, P] at this
    have := s.isLt
    omega

/-- … hence it is injective -/
theorem L_inj {x y : BitVec 16} (h : L x = L y) : x = y := by
  have : L (x ^^^ y) = 0#16 := by rw [L_xor, h, BitVec.xor_self]
  exact BitVec.xor_eq_zero_iff.mp (L_eq_zero _ this)

/-- `n` rounds -/
def Lpow : Nat → BitVec 16 → BitVec 16
  | 0, s => s
  | n + 1, s => Lpow n (L s)

@[simp] theorem Lpow_zero' (s : BitVec 16) : Lpow 0 s = s := rfl
theorem Lpow_succ (n : Nat) (s : BitVec 16) : Lpow (n + 1) s = Lpow n (L s) := rfl

theorem Lpow_succ' (n : Nat) (s : BitVec 16) : Lpow (n + 1) s = L (Lpow n s) := by
  induction n generalizing s with
  | zero => rfl
  | succ n ih => rw [Lpow_succ, ih]; rfl

theorem Lpow_add (m n : Nat) (s : BitVec 16) : Lpow (m + n) s = Lpow n (Lpow m s) := by
  induction m generalizing s with
  | zero => simp
  | succ m ih => rw [Nat.add_right_comm, Lpow_succ, ih]; rfl

theorem Lpow_xor (n : Nat) (x y : BitVec 16) : Lpow n (x ^^^ y) = Lpow n x ^^^ Lpow n y := by
  induction n generalizing x y with
  | zero => rfl
  | succ n ih => simp only [Lpow_succ, L_xor, ih]

theorem Lpow_zero (n : Nat) : Lpow n 0#16 = 0#16 := by
  induction n with
  | zero => rfl
  | succ n ih => rw [Lpow_succ, L_zero, ih]

theorem Lpow_eq_zero (n : Nat) (s : BitVec 16) (h : Lpow n s = 0#16) : s = 0#16 := by
  induction n generalizing s with
  | zero => exact h
  | succ n ih => exact L_eq_zero _ (ih _ h)

theorem Lpow_inj (n : Nat) {x y : BitVec 16} (h : Lpow n x = Lpow n y) : x = y := by
  have : Lpow n (x ^^^ y) = 0#16 := by rw [Lpow_xor, h, BitVec.xor_self]
  exact BitVec.xor_eq_zero_iff.mp (Lpow_eq_zero _ _ this)

/-! ### the specification's bit-serial step -/

/-- a message bit as a register value -/
def bit (b : Bool) : BitVec 16 := if b then 1#16 else 0#16

/-- one specification step = xor the message bit into the low end, then one round of the model -/
theorem lfsrStep_eq_L (s : BitVec 16) (b : Bool) : Spec.lfsrStep s b = L (s ^^^ bit b) := by
  rw [L_def]
  have h1 : (s ^^^ bit b) >>> 1 = s >>> 1 := by
    cases b <;> simp [bit, BitVec.ushiftRight_xor_distrib]
  have h2 : (s ^^^ bit b).getLsbD 0 = (s.getLsbD 0 ^^ b) := by
    cases b <;> simp [bit]
  rw [h1, h2]
  unfold Spec.lfsrStep P
  split <;> simp

theorem lfsrStep_false (s : BitVec 16) : Spec.lfsrStep s false = L s := by
  rw [lfsrStep_eq_L]; simp [bit]

theorem lfsrStep_eq (s : BitVec 16) (b : Bool) :
    Spec.lfsrStep s b = (s >>> 1) ^^^ (if (s.getLsbD 0 ^^ b) then P else 0#16) := by
  unfold Spec.lfsrStep P
  split <;> simp

theorem feed_nil (s : BitVec 16) : Spec.feed s [] = s := rfl
theorem feed_cons (s : BitVec 16) (b : Bool) (w : List Bool) :
    Spec.feed s (b :: w) = Spec.feed (Spec.lfsrStep s b) w := rfl
theorem feed_append (s : BitVec 16) (v w : List Bool) :
    Spec.feed s (v ++ w) = Spec.feed (Spec.feed s v) w := by
  simp [Spec.feed, List.foldl_append]

/-- the register is affine in (start value, message): start value and message separate -/
theorem feed_xor (s t : BitVec 16) (w : List Bool) :
    Spec.feed (s ^^^ t) w = Lpow w.length s ^^^ Spec.feed t w := by
  induction w generalizing s t with
  | nil => rfl
  | cons b w ih =>
    rw [feed_cons, feed_cons, List.length_cons, Lpow_succ, ← ih]
    congr 1
    rw [lfsrStep_eq_L, lfsrStep_eq_L, BitVec.xor_assoc, L_xor]

theorem feed_eq_Lpow_xor (s : BitVec 16) (w : List Bool) :
    Spec.feed s w = Lpow w.length s ^^^ Spec.feed 0#16 w := by
  have := feed_xor s 0#16 w
  simpa using this

/-- feeding zeros is just running the rounds -/
theorem feed_allFalse (s : BitVec 16) (w : List Bool) (h : ∀ b ∈ w, b = false) :
    Spec.feed s w = Lpow w.length s := by
  induction w generalizing s with
  | nil => rfl
  | cons b w ih =>
    have hb : b = false := h b (by simp)
    subst hb
    rw [feed_cons, lfsrStep_false, ih _ (fun b hb => h b (by simp [hb]))]
    rfl

theorem crcByte_toBitVec (c : UInt16) (x : UInt8) :
    (crcByte c x).toBitVec = Lpow 8 (c.toBitVec ^^^ x.toUInt16.toBitVec) := by
  simp only [crcByte, crcRound_toBitVec, Lpow, UInt16.toBitVec_xor]

theorem bitsLSB_length (x : UInt8) : (Spec.bitsLSB x).length = 8 := by simp [Spec.bitsLSB]

theorem byte_rounds_eq_feed (x : UInt8) :
    Lpow 8 x.toUInt16.toBitVec = Spec.feed 0#16 (Spec.bitsLSB x) := by
  revert x
  apply byte_cases
  decide +kernel

/-- the one-byte lemma: xor the byte into the low half and run eight rounds
    = feed the byte's eight bits, least significant first, to the bit-serial register -/
theorem crcByte_eq_feed (c : UInt16) (x : UInt8) :
    (crcByte c x).toBitVec = Spec.feed c.toBitVec (Spec.bitsLSB x) := by
  rw [crcByte_toBitVec, Lpow_xor, byte_rounds_eq_feed, feed_eq_Lpow_xor c.toBitVec, bitsLSB_length]

theorem messageBits_nil : Spec.messageBits [] = [] := rfl
theorem messageBits_cons (x : UInt8) (m : Bytes) :
    Spec.messageBits (x :: m) = Spec.bitsLSB x ++ Spec.messageBits m := by
  simp [Spec.messageBits]
theorem messageBits_append (a b : Bytes) :
    Spec.messageBits (a ++ b) = Spec.messageBits a ++ Spec.messageBits b := by
  simp [Spec.messageBits]
theorem messageBits_length (m : Bytes) : (Spec.messageBits m).length = 8 * m.length := by
  induction m with
  | nil => rfl
  | cons x m ih => rw [messageBits_cons, List.length_append, bitsLSB_length, ih, List.length_cons]; omega

theorem crcRaw_nil (s : UInt16) : crcRaw s [] = s := rfl
theorem crcRaw_cons (s : UInt16) (x : UInt8) (m : Bytes) : crcRaw s (x :: m) = crcRaw (crcByte s x) m := rfl
theorem crcRaw_append (s : UInt16) (a b : Bytes) : crcRaw s (a ++ b) = crcRaw (crcRaw s a) b := by
  simp [crcRaw, List.foldl_append]

/-- the model's register equals the specification's, from any start value, for every byte string -/
theorem crcRaw_eq_feed (s : UInt16) (msg : Bytes) :
    (crcRaw s msg).toBitVec = Spec.feed s.toBitVec (Spec.messageBits msg) := by
  induction msg generalizing s with
  | nil => rfl
  | cons x m ih => rw [crcRaw_cons, ih, crcByte_eq_feed, messageBits_cons, feed_append]

/-! ### bytes and words -/

theorem rotr8_toNat (c : UInt16) : (rotr8 c).toNat = c.toNat / 256 + (c.toNat % 256) * 256 := by
  unfold rotr8
  simp only [UInt16.toNat_or, UInt16.toNat_shiftRight, UInt16.toNat_shiftLeft]
  have e8 : UInt16.toNat 8 % 16 = 8 := by decide
  rw [e8]
  have h1 : c.toNat <<< 8 % 2 ^ 16 = (c.toNat % 256) <<< 8 := by
    simp only [Nat.shiftLeft_eq]; omega
  have h2 : c.toNat >>> 8 = c.toNat / 256 := by
    simp [Nat.shiftRight_eq_div_pow]
  have hlt : c.toNat / 256 < 2 ^ 8 := by have := c.toNat_lt; omega
  rw [h1, h2, Nat.or_comm, ← Nat.shiftLeft_add_eq_or_of_lt hlt, Nat.shiftLeft_eq]
  omega

theorem xor_shiftLeft8 (x y : Nat) (hx : x < 256) : x ^^^ (y <<< 8) = y * 256 + x := by
  have h : y * 256 + x = y <<< 8 ||| x := by
    rw [← Nat.shiftLeft_add_eq_or_of_lt (i := 8) (by simpa using hx), Nat.shiftLeft_eq]
  rw [h]
  apply Nat.eq_of_testBit_eq
  intro i
  rw [Nat.testBit_xor, Nat.testBit_or, Nat.testBit_shiftLeft]
  by_cases hi : i < 8
  · have h8 : ¬ 8 ≤ i := by omega
    simp [h8]
  · have : x.testBit i = false := by
      apply Nat.testBit_lt_two_pow
      calc x < 256 := hx
        _ = 2 ^ 8 := rfl
        _ ≤ 2 ^ i := Nat.pow_le_pow_right (by decide) (by omega)
    simp [this]

/-- the 16-bit word whose low byte is `a` and high byte `b` -/
def word (a b : UInt8) : UInt16 := a.toUInt16 ^^^ (b.toUInt16 <<< 8)

theorem word_toNat (a b : UInt8) : (word a b).toNat = b.toNat * 256 + a.toNat := by
  unfold word
  simp only [UInt16.toNat_xor, UInt16.toNat_shiftLeft, UInt8.toNat_toUInt16]
  have e8 : UInt16.toNat 8 % 16 = 8 := by decide
  rw [e8]
  have : b.toNat <<< 8 % 2 ^ 16 = b.toNat <<< 8 := by
    have := b.toNat_lt
    simp only [Nat.shiftLeft_eq]; omega
  rw [this, xor_shiftLeft8 _ _ a.toNat_lt]


theorem word_eq_rd16 (a b : UInt8) : word a b = rd16 b a := by
  apply UInt16.toNat_inj.mp
  rw [word_toNat, rd16_toNat]

/-- rotating by 8 swaps the two bytes -/
theorem rotr8_word (a b : UInt8) : rotr8 (word a b) = rd16 a b := by
  apply UInt16.toNat_inj.mp
  have := a.toNat_lt; have := b.toNat_lt
  rw [rotr8_toNat, word_toNat, rd16_toNat]; omega

theorem rotr8_rotr8 (c : UInt16) : rotr8 (rotr8 c) = c := by
  apply UInt16.toNat_inj.mp
  have := c.toNat_lt
  rw [rotr8_toNat, rotr8_toNat]; omega

theorem rotr8_inj {c d : UInt16} (h : rotr8 c = rotr8 d) : c = d := by
  rw [← rotr8_rotr8 c, h, rotr8_rotr8]

/-- low byte, high byte -/
def lo (c : UInt16) : UInt8 := UInt8.ofNat (c.toNat % 256)
def hi (c : UInt16) : UInt8 := UInt8.ofNat (c.toNat / 256)

theorem lo_toNat (c : UInt16) : (lo c).toNat = c.toNat % 256 := by
  unfold lo; rw [UInt8.toNat_ofNat']; omega
theorem hi_toNat (c : UInt16) : (hi c).toNat = c.toNat / 256 := by
  have := c.toNat_lt
  unfold hi; rw [UInt8.toNat_ofNat']; omega

theorem word_lo_hi (c : UInt16) : word (lo c) (hi c) = c := by
  apply UInt16.toNat_inj.mp
  rw [word_toNat, lo_toNat, hi_toNat]; omega

theorem lo_word (a b : UInt8) : lo (word a b) = a := by
  apply UInt8.toNat_inj.mp
  have := a.toNat_lt
  rw [lo_toNat, word_toNat]; omega
theorem hi_word (a b : UInt8) : hi (word a b) = b := by
  apply UInt8.toNat_inj.mp
  have := a.toNat_lt
  rw [hi_toNat, word_toNat]; omega

/-- big-endian serialisation of the rotated word: low byte first -/
theorem be16_rotr8 (c : UInt16) : be16 (rotr8 c) = [lo c, hi c] := by
  have := c.toNat_lt
  unfold be16 lo hi
  rw [rotr8_toNat]
  congr 3 <;> omega

/-- eight rounds on a byte sitting in the high half just shift it down (no feedback) -/
theorem Lpow8_high (b : UInt8) :
    Lpow 8 (b.toUInt16 <<< 8).toBitVec = b.toUInt16.toBitVec := by
  revert b
  apply byte_cases
  decide +kernel

/-- two bytes fed to the model: sixteen rounds of the register xor the little-endian word -/
theorem crcRaw_two (s : UInt16) (a b : UInt8) :
    (crcRaw s [a, b]).toBitVec = Lpow 16 (s ^^^ word a b).toBitVec := by
  rw [crcRaw_cons, crcRaw_cons, crcRaw_nil, crcByte_toBitVec, crcByte_toBitVec]
  rw [← Lpow8_high b, ← Lpow_xor, ← Lpow_add]
  unfold word
  simp only [UInt16.toBitVec_xor, BitVec.xor_assoc]

/-- two further bytes bring the register to zero exactly when they spell the register, low byte first -/
theorem crcRaw_two_eq_zero (s : UInt16) (a b : UInt8) : crcRaw s [a, b] = 0 ↔ s = word a b := by
  rw [← UInt16.toBitVec_inj, crcRaw_two]
  constructor
  · intro h
    have h0 := Lpow_eq_zero 16 _ h
    rw [UInt16.toBitVec_xor] at h0
    exact UInt16.toBitVec_inj.mp (BitVec.xor_eq_zero_iff.mp h0)
  · intro h
    subst h
    rw [UInt16.xor_self]
    exact Lpow_zero 16

end Crc
end Modbus

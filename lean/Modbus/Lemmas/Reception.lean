import Modbus.Model.Rtu
import Modbus.Model.Tcp
import Modbus.Model.Receiver
import Modbus.Spec.Frames
import Modbus.Lemmas.Basic
import Modbus.Lemmas.Bytes
/-
Incremental reception (C10), generic part.

* the scan loop on a buffer whose first attempt succeeds / is incomplete;
* `Good scanf f x`: what property C10 says about one frame `f` with meaning `x`;
* `good_of_attempt`: a frame is `Good` for `scan (mkAttempt predict extract overhead)` as soon as the
  predictor and the extractor behave on the frame (with any suffix) and on its strict prefixes;
* the specification's predictor `Spec.predict`: shifting by a header, monotonicity along prefixes,
  a bound on complete PDUs.
-/
namespace Modbus.Reception
open Spec

/-! ### the scan loop -/

section Scan
variable {F : Type}

/-- a buffer whose first attempt finds a frame: reported at offset 0 -/
theorem scan_at_zero (att : Attempt F) (buf : Bytes) (f : F) (sz : Nat)
    (h : att buf = .ok (some (f, sz))) (h2 : 2 ≤ buf.length) :
    scan att buf = .ok (some (f, ⟨0, sz⟩)) := by
  have hne : buf.isEmpty = false := by
    cases buf with
    | nil => simp at h2
    | cons _ _ => rfl
  have hl : ¬ (0 + 1 ≥ buf.length) := by omega
  unfold scan
  rw [hne, scanFrom]
  simp only [Bool.false_eq_true, if_false, hl, dite_false, List.drop_zero, h]

/-- a buffer whose first attempt is incomplete: the scan is incomplete -/
theorem scan_prefix_none (att : Attempt F) (p : Bytes)
    (h : att p = .ok none) (h2 : 2 ≤ p.length) : scan att p = .ok none := by
  have hne : p.isEmpty = false := by
    cases p with
    | nil => simp at h2
    | cons _ _ => rfl
  have hl : ¬ (0 + 1 ≥ p.length) := by omega
  unfold scan
  rw [hne, scanFrom]
  simp only [Bool.false_eq_true, if_false, hl, dite_false, List.drop_zero, h]

/-- a single byte is never attempted (`drop_cnt + 1 >= buf.len()`) -/
theorem scan_one_byte (att : Attempt F) (p : Bytes) (h1 : p.length = 1) : scan att p = .ok none := by
  have hne : p.isEmpty = false := by
    cases p with
    | nil => simp at h1
    | cons _ _ => rfl
  have hl : 0 + 1 ≥ p.length := by omega
  unfold scan
  rw [hne, scanFrom]
  simp only [Bool.false_eq_true, if_false, hl, dite_true]

end Scan

/-! ### what C10 says about one frame -/

/-- `f` is received incrementally by `scanf` with meaning `x`: it is found at `(0, f.length)` whatever
follows it (`rest` is arbitrary: *stable under appended bytes*), and every strict non-empty prefix
is answered 'incomplete'. -/
structure Good {F : Type} (scanf : Bytes → Res (Option (F × Loc))) (f : Bytes) (x : F) : Prop where
  pos : 1 ≤ f.length
  whole : ∀ rest, scanf (f ++ rest) = .ok (some (x, ⟨0, f.length⟩))
  pre : ∀ p, p ≠ [] → p <+: f → p.length < f.length → scanf p = .ok none

/-- the whole frame alone -/
theorem Good.exact {F : Type} {scanf : Bytes → Res (Option (F × Loc))} {f : Bytes} {x : F}
    (g : Good scanf f x) : scanf f = .ok (some (x, ⟨0, f.length⟩)) := by
  simpa using g.whole []

/-- appending bytes does not change the answer -/
theorem Good.stable {F : Type} {scanf : Bytes → Res (Option (F × Loc))} {f : Bytes} {x : F}
    (g : Good scanf f x) (rest : Bytes) : scanf (f ++ rest) = scanf f := by
  rw [g.whole rest, g.exact]

/-- From the behaviour of predictor and extractor to `Good`. -/
theorem good_of_attempt {F : Type} (predict : Bytes → Res (Option Nat))
    (extract : Bytes → Nat → Res (Option F)) (overhead : Nat) (f : Bytes) (x : F) (n : Nat)
    (hlen : f.length = n + overhead) (h2 : 2 ≤ f.length)
    (hp_whole : ∀ rest, predict (f ++ rest) = .ok (some n))
    (hp_pre : ∀ p, p <+: f → 2 ≤ p.length → predict p = .ok none ∨ predict p = .ok (some n))
    (he_whole : ∀ rest, extract (f ++ rest) n = .ok (some x))
    (he_pre : ∀ p, p ≠ [] → p <+: f → p.length < f.length → extract p n = .ok none) :
    Good (scan (mkAttempt predict extract overhead)) f x := by
  refine ⟨by omega, ?_, ?_⟩
  · intro rest
    apply scan_at_zero
    · simp only [mkAttempt, hp_whole rest, Res.bind'_ok, he_whole rest, Res.map_ok, hlen]
    · simp; omega
  · intro p hne hpre hlt
    by_cases h1 : p.length = 1
    · exact scan_one_byte _ p h1
    · have hp2 : 2 ≤ p.length := by
        cases p with
        | nil => exact absurd rfl hne
        | cons a t => simp at h1 ⊢; cases t with
          | nil => simp at h1
          | cons _ _ => simp
      apply scan_prefix_none _ _ _ hp2
      rcases hp_pre p hpre hp2 with h | h
      · simp only [mkAttempt, h, Res.bind'_ok]
      · simp only [mkAttempt, h, Res.bind'_ok, he_pre p hne hpre hlt, Res.map_ok]

/-! ### the specification's predictor -/


/-- a prefix either is still incomplete or already gets the final answer -/
theorem predict_prefix (hdr : Nat) (d : Dir) (p q : List UInt8) (h : p <+: q) :
    predict hdr d p = .incomplete ∨ predict hdr d p = predict hdr d q := by
  obtain ⟨t, rfl⟩ := h
  have key : ∀ (i : Nat) (x : UInt8), p[i]? = some x → (p ++ t)[i]? = some x := by
    intro i x hx
    have hi : i < p.length := by
      rcases Nat.lt_or_ge i p.length with h | h
      · exact h
      · rw [List.getElem?_eq_none h] at hx; cases hx
    rw [List.getElem?_append_left hi]; exact hx
  unfold predict
  by_cases hl : p.length < hdr + 1
  · left; simp only [hl, if_true]
  · have hl' : ¬ (p ++ t).length < hdr + 1 := by simp; omega
    simp only [hl, hl', if_false]
    cases hfc : p[hdr]? with
    | none => left; rfl
    | some fc =>
      rw [key _ _ hfc]
      simp only
      cases lenRule d fc.toNat with
      | fixed n => right; rfl
      | unknown => right; rfl
      | count1 base off =>
        simp only
        cases hc : p[hdr + off]? with
        | none => left; rfl
        | some c => right; rw [key _ _ hc]
      | count2 base off =>
        simp only
        cases hc : p[hdr + off]? with
        | none => left; rfl
        | some c =>
          rw [key _ _ hc]
          cases hc2 : p[hdr + off + 1]? with
          | none => left; rfl
          | some c2 => right; rw [key _ _ hc2]

/-- a header of `hdr` bytes in front shifts the predictor -/
theorem predict_shift (hdr : Nat) (d : Dir) (H b : List UInt8) (hH : H.length = hdr) :
    predict hdr d (H ++ b) = predict 0 d b := by
  subst hH
  have key : ∀ k, (H ++ b)[H.length + k]? = b[k]? := by
    intro k
    rw [List.getElem?_append_right (by omega)]
    congr 1; omega
  have k0 := key 0
  simp only [Nat.add_zero] at k0
  unfold predict
  have e1 : ((H ++ b).length < H.length + 1) = (b.length < 0 + 1) := by
    simp only [List.length_append, eq_iff_iff]; omega
  simp only [e1, k0, Nat.add_assoc, key, Nat.zero_add]

/-- the bounds of the table's entries -/
def RuleBounded : LenRule → Prop
  | .fixed n => 1 ≤ n ∧ n ≤ 7
  | .count1 base _ => 1 ≤ base ∧ base ≤ 10
  | .count2 base _ => 1 ≤ base ∧ base ≤ 3
  | .unknown => True

instance : DecidablePred RuleBounded := fun r => by
  cases r <;> unfold RuleBounded <;> infer_instance

theorem lenRule_bounds (d : Dir) (fc : UInt8) : RuleBounded (lenRule d fc.toNat) := by
  cases d
  · revert fc; apply byte_cases; decide +kernel
  · revert fc; apply byte_cases; decide +kernel

/-- any predicted length is between 1 and 65538 -/
theorem predict_len_bounds (hdr : Nat) (d : Dir) (b : List UInt8) (n : Nat)
    (h : predict hdr d b = .len n) : 1 ≤ n ∧ n ≤ 65538 := by
  unfold predict at h
  split at h
  · cases h
  · cases hfc : b[hdr]? with
    | none => rw [hfc] at h; cases h
    | some fc =>
      rw [hfc] at h
      simp only at h
      have hb := lenRule_bounds d fc
      cases hr : lenRule d fc.toNat with
      | fixed m =>
        rw [hr] at h hb; simp only [RuleBounded] at h hb
        cases h; omega
      | unknown => rw [hr] at h; cases h
      | count1 base off =>
        rw [hr] at h hb; simp only [RuleBounded] at h hb
        cases hc : b[hdr + off]? with
        | none => rw [hc] at h; cases h
        | some c =>
          rw [hc] at h; simp only at h
          have := c.toNat_lt
          cases h; omega
      | count2 base off =>
        rw [hr] at h hb; simp only [RuleBounded] at h hb
        cases hc : b[hdr + off]? with
        | none => rw [hc] at h; cases h
        | some c =>
          rw [hc] at h
          cases hc2 : b[hdr + off + 1]? with
          | none => rw [hc2] at h; cases h
          | some c2 =>
            rw [hc2] at h; simp only at h
            have := c.toNat_lt
            have := c2.toNat_lt
            cases h; omega

/-- a complete PDU has between 1 and 65538 bytes -/
theorem pduComplete_bounds {d : Dir} {pdu : List UInt8} (h : PduComplete d pdu) :
    1 ≤ pdu.length ∧ pdu.length ≤ 65538 := predict_len_bounds 0 d pdu _ h

/-- a complete PDU behind a header, followed by anything: the prediction is its length -/
theorem predict_framed {d : Dir} {pdu : List UInt8} (h : PduComplete d pdu)
    (hdr : Nat) (H tail : List UInt8) (hH : H.length = hdr) :
    predict hdr d (H ++ (pdu ++ tail)) = .len pdu.length := by
  rw [predict_shift hdr d H _ hH]
  rcases predict_prefix 0 d pdu (pdu ++ tail) (List.prefix_append _ _) with h' | h'
  · rw [h] at h'; cases h'
  · rw [← h', h]

/-- … and on a prefix of such a buffer it is 'incomplete' or that length -/
theorem predict_framed_prefix {d : Dir} {pdu : List UInt8} (h : PduComplete d pdu)
    (hdr : Nat) (H tail p : List UInt8) (hH : H.length = hdr) (hp : p <+: H ++ (pdu ++ tail)) :
    predict hdr d p = .incomplete ∨ predict hdr d p = .len pdu.length := by
  rcases predict_prefix hdr d p _ hp with h' | h'
  · exact .inl h'
  · right; rw [h', predict_framed h hdr H tail hH]


/-- the answer of a model predictor corresponding to an answer of the specification's;
`fc` is the byte reported in the error -/
def predRes (fc : UInt8) : Spec.Pred → Res (Option Nat)
  | .len n => .ok (some n)
  | .incomplete => .ok none
  | .reject => .err (.fnCode fc)

end Modbus.Reception

import Modbus.Lemmas.Reception3
/-
Incremental reception (C10), second observation point: the four ADU decoders are the scanner
followed by a PDU decode of the bytes the scanner returns, so on a `Good` frame they answer
'incomplete' on every strict non-empty prefix, and on the frame followed by anything they answer
what the PDU decoder says about the frame's PDU.
-/
namespace Modbus.Reception

/-- `ExceptionResponse::try_from` first, then `Response::try_from` (the client-side order) -/
def decodeRspPdu (pdu : Bytes) : Res ResponsePdu :=
  match ExceptionResponse.decode pdu with
  | .ok e => .ok (.error e)
  | .panic => .panic
  | .err _ => (Response.decode pdu).map .ok

theorem append_ne_nil_of_pos {f : Bytes} (h : 1 ≤ f.length) (rest : Bytes) : (f ++ rest).isEmpty = false := by
  cases f with
  | nil => simp at h
  | cons _ _ => rfl

theorem isEmpty_false_of_ne {p : Bytes} (h : p ≠ []) : p.isEmpty = false := by
  cases p with
  | nil => exact absurd rfl h
  | cons _ _ => rfl

/-! ### RTU -/

theorem rtu_serverDecodeRequest_prefix {f : Bytes} {x : Rtu.Frame} (g : Good Rtu.decodeReq f x)
    (p : Bytes) (hne : p ≠ []) (hp : p <+: f) (hlt : p.length < f.length) :
    Rtu.serverDecodeRequest p = .ok none := by
  unfold Rtu.serverDecodeRequest
  simp only [isEmpty_false_of_ne hne, Bool.false_eq_true, if_false, g.pre p hne hp hlt, Res.bind'_ok]

theorem rtu_serverDecodeRequest_whole {f : Bytes} {x : Rtu.Frame} (g : Good Rtu.decodeReq f x)
    (rest : Bytes) :
    Rtu.serverDecodeRequest (f ++ rest) = (Request.decode x.pdu).map fun r => some (x.slave, r) := by
  unfold Rtu.serverDecodeRequest
  simp only [append_ne_nil_of_pos g.pos rest, Bool.false_eq_true, if_false, g.whole rest, Res.bind'_ok]

theorem rtu_clientDecodeResponse_prefix {f : Bytes} {x : Rtu.Frame} (g : Good Rtu.decodeRsp f x)
    (p : Bytes) (hne : p ≠ []) (hp : p <+: f) (hlt : p.length < f.length) :
    Rtu.clientDecodeResponse p = .ok none := by
  unfold Rtu.clientDecodeResponse
  simp only [isEmpty_false_of_ne hne, Bool.false_eq_true, if_false, g.pre p hne hp hlt, Res.bind'_ok]

theorem rtu_clientDecodeResponse_whole {f : Bytes} {x : Rtu.Frame} (g : Good Rtu.decodeRsp f x)
    (rest : Bytes) :
    Rtu.clientDecodeResponse (f ++ rest) = (decodeRspPdu x.pdu).map fun r => some (x.slave, r) := by
  unfold Rtu.clientDecodeResponse decodeRspPdu
  simp only [append_ne_nil_of_pos g.pos rest, Bool.false_eq_true, if_false, g.whole rest, Res.bind'_ok]
  cases ExceptionResponse.decode x.pdu with
  | ok e => rfl
  | panic => rfl
  | err _ =>
    simp only
    cases Response.decode x.pdu <;> rfl

/-! ### TCP -/

theorem tcp_decodeRequest_prefix {f : Bytes} {x : Tcp.Frame} (g : Good Tcp.decodeReq f x)
    (p : Bytes) (hne : p ≠ []) (hp : p <+: f) (hlt : p.length < f.length) :
    Tcp.decodeRequest p = .ok none := by
  unfold Tcp.decodeRequest
  simp only [isEmpty_false_of_ne hne, Bool.false_eq_true, if_false, g.pre p hne hp hlt, Res.bind'_ok]

theorem tcp_decodeRequest_whole {f : Bytes} {x : Tcp.Frame} (g : Good Tcp.decodeReq f x)
    (rest : Bytes) :
    Tcp.decodeRequest (f ++ rest) =
      (Request.decode x.pdu).map fun r => some (x.transactionId, x.unitId, r) := by
  unfold Tcp.decodeRequest
  simp only [append_ne_nil_of_pos g.pos rest, Bool.false_eq_true, if_false, g.whole rest, Res.bind'_ok]

theorem tcp_decodeResponse_prefix {f : Bytes} {x : Tcp.Frame} (g : Good Tcp.decodeRsp f x)
    (p : Bytes) (hne : p ≠ []) (hp : p <+: f) (hlt : p.length < f.length) :
    Tcp.decodeResponse p = .ok none := by
  unfold Tcp.decodeResponse
  simp only [isEmpty_false_of_ne hne, Bool.false_eq_true, if_false, g.pre p hne hp hlt, Res.bind'_ok]

theorem tcp_decodeResponse_whole {f : Bytes} {x : Tcp.Frame} (g : Good Tcp.decodeRsp f x)
    (rest : Bytes) :
    Tcp.decodeResponse (f ++ rest) =
      (decodeRspPdu x.pdu).map fun r => some (x.transactionId, x.unitId, r) := by
  unfold Tcp.decodeResponse decodeRspPdu
  simp only [append_ne_nil_of_pos g.pos rest, Bool.false_eq_true, if_false, g.whole rest, Res.bind'_ok]
  cases ExceptionResponse.decode x.pdu with
  | ok e => rfl
  | panic => rfl
  | err _ =>
    simp only
    cases Response.decode x.pdu <;> rfl

end Modbus.Reception

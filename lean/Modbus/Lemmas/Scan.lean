import Modbus.Model.Scan
/-
Theory of the scan loop `scanFrom` / `scan` (Model/Scan.lean), for an arbitrary per-offset attempt
`att : Attempt F`, every buffer, no bound on its length.
-/
namespace Modbus

/-- what the loop returns when it stops at offset `d` with attempt result `r` -/
def Attempt.place {F : Type} (d : Nat) : Res (Option (F × Nat)) → Res (Option (F × Loc))
  | .ok none => .ok none
  | .ok (some (f, sz)) => .ok (some (f, ⟨d, sz⟩))
  | .panic => .panic
  | .err e => .err e

theorem Res.isErr_iff {α : Type} (r : Res α) : r.isErr = true ↔ ∃ e, r = .err e := by
  cases r <;> simp [Res.isErr]

theorem Res.not_isErr_ok {α : Type} (a : α) : ¬ ((Res.ok a).isErr = true) := by simp [Res.isErr]
theorem Res.not_isErr_panic {α : Type} : ¬ ((Res.panic : Res α).isErr = true) := by simp [Res.isErr]

/-- at the end of the buffer (fewer than two bytes left) the loop says "incomplete" -/
theorem scanFrom_end {F : Type} (att : Attempt F) (buf : Bytes) (d : Nat) (h : buf.length ≤ d + 1) :
    scanFrom att buf d = .ok none := by
  rw [scanFrom]
  have h1 : d + 1 ≥ buf.length := h
  simp only [h1, dite_true]

/-- one step of the loop where at least two bytes are left -/
theorem scanFrom_step {F : Type} (att : Attempt F) (buf : Bytes) (d : Nat) (h : d + 1 < buf.length) :
    scanFrom att buf d =
      match att (buf.drop d) with
      | .ok none => .ok none
      | .ok (some (f, sz)) => .ok (some (f, ⟨d, sz⟩))
      | .panic => .panic
      | .err e => if d + 1 ≥ maxFrameLen then .err e else scanFrom att buf (d + 1) := by
  rw [scanFrom]
  have h1 : ¬ (d + 1 ≥ buf.length) := by omega
  simp only [h1, dite_false]
  cases att (buf.drop d) with
  | ok a =>
    cases a with
    | none => rfl
    | some p => rfl
  | panic => rfl
  | err e => rfl

/-- the loop stops at the first offset whose attempt is not an error -/
theorem scanFrom_stop {F : Type} (att : Attempt F) (buf : Bytes) (d : Nat) (h : d + 1 < buf.length)
    (hne : ¬ (att (buf.drop d)).isErr = true) :
    scanFrom att buf d = Attempt.place d (att (buf.drop d)) := by
  rw [scanFrom_step att buf d h]
  cases hatt : att (buf.drop d) with
  | ok a =>
    cases a with
    | none => rfl
    | some p => cases p; rfl
  | panic => rfl
  | err e => simp [hatt, Res.isErr] at hne

/-- an error below the limit moves on to the next offset -/
theorem scanFrom_next {F : Type} (att : Attempt F) (buf : Bytes) (d : Nat) (h : d + 1 < buf.length)
    (hd : d + 1 < maxFrameLen) (he : (att (buf.drop d)).isErr = true) :
    scanFrom att buf d = scanFrom att buf (d + 1) := by
  rw [scanFrom_step att buf d h]
  cases hatt : att (buf.drop d) with
  | ok a => simp [hatt, Res.isErr] at he
  | panic => simp [hatt, Res.isErr] at he
  | err e =>
    have h2 : ¬ (d + 1 ≥ maxFrameLen) := by omega
    simp only [h2, if_false]

/-- an error at the last offset examined (`drop_cnt = 255`) is returned -/
theorem scanFrom_limit {F : Type} (att : Attempt F) (buf : Bytes) (d : Nat) (h : d + 1 < buf.length)
    (hd : maxFrameLen ≤ d + 1) (e : Error) (he : att (buf.drop d) = .err e) :
    scanFrom att buf d = .err e := by
  rw [scanFrom_step att buf d h, he]
  have h2 : d + 1 ≥ maxFrameLen := hd
  simp only [h2, if_true]

/-- all offsets in `[d, s)` are errors ⇒ the loop reaches `s` -/
theorem scanFrom_skip {F : Type} (att : Attempt F) (buf : Bytes) (d s : Nat) (hds : d ≤ s)
    (hs : s + 1 < buf.length) (hs2 : s < maxFrameLen)
    (herr : ∀ i, d ≤ i → i < s → (att (buf.drop i)).isErr = true) :
    scanFrom att buf d = scanFrom att buf s := by
  induction h : s - d generalizing d with
  | zero =>
    have : d = s := by omega
    subst this; rfl
  | succ n ih =>
    have hlt : d < s := by omega
    rw [scanFrom_next att buf d (by omega) (by omega) (herr d (Nat.le_refl _) hlt)]
    exact ih (d + 1) (by omega) (fun i hi1 hi2 => herr i (by omega) hi2) (by omega)

/-- Complete characterisation of the loop started at offset `d ≤ 255`: either there is a first
non-error offset `s` (with at least two bytes left, `s ≤ 255`) and the result is that attempt's result
placed at `s`; or every examined offset is an error, and then the result is the error of offset 255
when that offset was examined (`buf.length ≥ 257`), "incomplete" otherwise. -/
theorem scanFrom_spec {F : Type} (att : Attempt F) (buf : Bytes) (d : Nat) (hd : d ≤ 255) :
    (∃ s, d ≤ s ∧ s ≤ 255 ∧ s + 1 < buf.length ∧
        (∀ i, d ≤ i → i < s → (att (buf.drop i)).isErr = true) ∧
        ¬ (att (buf.drop s)).isErr = true ∧
        scanFrom att buf d = Attempt.place s (att (buf.drop s)))
    ∨ ((∀ i, d ≤ i → i ≤ 255 → i + 1 < buf.length → (att (buf.drop i)).isErr = true) ∧
        ((257 ≤ buf.length ∧ ∃ e, att (buf.drop 255) = .err e ∧ scanFrom att buf d = .err e)
          ∨ (buf.length ≤ 256 ∧ scanFrom att buf d = .ok none))) := by
  induction h : 255 - d generalizing d with
  | zero =>
    have hd255 : d = 255 := by omega
    subst hd255
    by_cases hlen : 255 + 1 < buf.length
    · by_cases he : (att (buf.drop 255)).isErr = true
      · right
        obtain ⟨e, hee⟩ := (Res.isErr_iff _).1 he
        refine ⟨?_, Or.inl ⟨by omega, e, hee, ?_⟩⟩
        · intro i hi1 hi2 _
          have : i = 255 := by omega
          subst this; exact he
        · exact scanFrom_limit att buf 255 hlen (by simp [maxFrameLen]) e hee
      · left
        exact ⟨255, Nat.le_refl _, Nat.le_refl _, hlen, fun i hi1 hi2 => by omega, he,
          scanFrom_stop att buf 255 hlen he⟩
    · right
      refine ⟨?_, Or.inr ⟨by omega, scanFrom_end att buf 255 (by omega)⟩⟩
      intro i hi1 hi2 hi3
      omega
  | succ n ih =>
    by_cases hlen : d + 1 < buf.length
    · by_cases he : (att (buf.drop d)).isErr = true
      · rw [scanFrom_next att buf d hlen (by simp [maxFrameLen]; omega) he]
        rcases ih (d + 1) (by omega) (by omega) with ⟨s, h1, h2, h3, h4, h5, h6⟩ | ⟨h1, h2⟩
        · left
          refine ⟨s, by omega, h2, h3, ?_, h5, h6⟩
          intro i hi1 hi2
          by_cases hid : i = d
          · subst hid; exact he
          · exact h4 i (by omega) hi2
        · right
          refine ⟨?_, h2⟩
          intro i hi1 hi2 hi3
          by_cases hid : i = d
          · subst hid; exact he
          · exact h1 i (by omega) hi2 hi3
      · left
        exact ⟨d, Nat.le_refl _, hd, hlen, fun i hi1 hi2 => by omega, he,
          scanFrom_stop att buf d hlen he⟩
    · right
      refine ⟨?_, Or.inr ⟨by omega, scanFrom_end att buf d (by omega)⟩⟩
      intro i hi1 hi2 hi3
      omega

theorem scan_empty {F : Type} (att : Attempt F) : scan att [] = .err .bufferSize := rfl

theorem scan_eq_scanFrom {F : Type} (att : Attempt F) (buf : Bytes) (h : buf ≠ []) :
    scan att buf = scanFrom att buf 0 := by
  unfold scan
  cases buf with
  | nil => exact absurd rfl h
  | cons a t => rfl

/-- **Complete characterisation of `scan`** on a non-empty buffer.  Let `d` be the first offset among
`0 .. min (buf.length - 2) 255` whose attempt is not an error.  If it exists the result is that
attempt's result with the location placed at `d` (`ok none ↦ ok none`, `ok (some (f, sz)) ↦
ok (some (f, ⟨d, sz⟩))`, `panic ↦ panic`).  If every such offset is an error the result is the error of
offset 255 when `buf.length ≥ 257`, and `ok none` when `buf.length ≤ 256`. -/
theorem scan_spec {F : Type} (att : Attempt F) (buf : Bytes) (hne : buf ≠ []) :
    (∃ d, d ≤ 255 ∧ d + 1 < buf.length ∧
        (∀ i, i < d → (att (buf.drop i)).isErr = true) ∧
        ¬ (att (buf.drop d)).isErr = true ∧
        scan att buf = Attempt.place d (att (buf.drop d)))
    ∨ ((∀ i, i ≤ 255 → i + 1 < buf.length → (att (buf.drop i)).isErr = true) ∧
        ((257 ≤ buf.length ∧ ∃ e, att (buf.drop 255) = .err e ∧ scan att buf = .err e)
          ∨ (buf.length ≤ 256 ∧ scan att buf = .ok none))) := by
  rw [scan_eq_scanFrom att buf hne]
  rcases scanFrom_spec att buf 0 (by omega) with ⟨s, _, h2, h3, h4, h5, h6⟩ | ⟨h1, h2⟩
  · exact Or.inl ⟨s, h2, h3, fun i hi => h4 i (Nat.zero_le _) hi, h5, h6⟩
  · exact Or.inr ⟨fun i hi1 hi2 => h1 i (Nat.zero_le _) hi1 hi2, h2⟩

/-- the first non-error offset decides: the direct form of the first half of `scan_spec` -/
theorem scan_first {F : Type} (att : Attempt F) (buf : Bytes) (d : Nat) (hd : d ≤ 255)
    (hlen : d + 1 < buf.length) (herr : ∀ i, i < d → (att (buf.drop i)).isErr = true)
    (hne : ¬ (att (buf.drop d)).isErr = true) :
    scan att buf = Attempt.place d (att (buf.drop d)) := by
  have hb : buf ≠ [] := by intro h; subst h; simp at hlen
  rw [scan_eq_scanFrom att buf hb,
    scanFrom_skip att buf 0 d (Nat.zero_le _) hlen (by simp [maxFrameLen]; omega)
      (fun i _ hi => herr i hi)]
  exact scanFrom_stop att buf d hlen hne

/-- the results `scan_spec` allows are mutually exclusive: there is only one first non-error offset -/
theorem scan_first_unique {F : Type} (att : Attempt F) (buf : Bytes) (d d' : Nat)
    (herr : ∀ i, i < d → (att (buf.drop i)).isErr = true) (hne : ¬ (att (buf.drop d)).isErr = true)
    (herr' : ∀ i, i < d' → (att (buf.drop i)).isErr = true) (hne' : ¬ (att (buf.drop d')).isErr = true) :
    d = d' := by
  rcases Nat.lt_trichotomy d d' with h | h | h
  · exact absurd (herr' d h) hne
  · exact h
  · exact absurd (herr d' h) hne'

/-- a frame at the front of the buffer is found at start 0 -/
theorem scan_at_zero {F : Type} (att : Attempt F) (buf : Bytes) (f : F) (sz : Nat)
    (hatt : att buf = .ok (some (f, sz))) (hl : 2 ≤ buf.length) :
    scan att buf = .ok (some (f, ⟨0, sz⟩)) := by
  have h := scan_first att buf 0 (by omega) (by omega) (fun i hi => by omega)
    (by rw [List.drop_zero, hatt]; exact Res.not_isErr_ok _)
  rw [h, List.drop_zero, hatt]; rfl

/-- an incomplete frame at the front of the buffer makes the scan say "incomplete" -/
theorem scan_prefix_none {F : Type} (att : Attempt F) (buf : Bytes)
    (hatt : att buf = .ok none) (hl : 2 ≤ buf.length) :
    scan att buf = .ok none := by
  have h := scan_first att buf 0 (by omega) (by omega) (fun i hi => by omega)
    (by rw [List.drop_zero, hatt]; exact Res.not_isErr_ok _)
  rw [h, List.drop_zero, hatt]; rfl

/-- … also for a one-byte buffer (never examined): any non-empty buffer -/
theorem scan_prefix_none' {F : Type} (att : Attempt F) (buf : Bytes)
    (hatt : att buf = .ok none) (hne : buf ≠ []) :
    scan att buf = .ok none := by
  by_cases hl : 2 ≤ buf.length
  · exact scan_prefix_none att buf hatt hl
  · have hb : buf.length ≠ 0 := fun h => hne (List.length_eq_zero_iff.1 h)
    rw [scan_eq_scanFrom att buf hne]
    exact scanFrom_end att buf 0 (by omega)

/-- a panic of the attempt at the front of the buffer is a panic of the scan -/
theorem scan_panic_at_zero {F : Type} (att : Attempt F) (buf : Bytes)
    (hatt : att buf = .panic) (hl : 2 ≤ buf.length) :
    scan att buf = .panic := by
  have h := scan_first att buf 0 (by omega) (by omega) (fun i hi => by omega)
    (by rw [List.drop_zero, hatt]; exact Res.not_isErr_panic)
  rw [h, List.drop_zero, hatt]; rfl

/-- a single byte is never examined -/
theorem scan_short {F : Type} (att : Attempt F) (buf : Bytes) (hl : buf.length = 1) :
    scan att buf = .ok none := by
  have hb : buf ≠ [] := by intro h; subst h; simp at hl
  rw [scan_eq_scanFrom att buf hb]
  exact scanFrom_end att buf 0 (by omega)

/-- C14, first clause, generic in the attempt: up to 255 bytes of noise, each offset of which is
rejected in context, in front of a frame: exactly that frame, `start = noise.length` -/
theorem scan_found {F : Type} (att : Attempt F) (noise frame rest : Bytes) (f : F)
    (hn : noise.length ≤ 255) (hfl : 2 ≤ frame.length)
    (herr : ∀ i, i < noise.length → (att ((noise ++ frame ++ rest).drop i)).isErr = true)
    (hatt : att (frame ++ rest) = .ok (some (f, frame.length))) :
    scan att (noise ++ frame ++ rest) = .ok (some (f, ⟨noise.length, frame.length⟩)) := by
  have hd : (noise ++ frame ++ rest).drop noise.length = frame ++ rest := by
    rw [List.append_assoc, List.drop_left]
  have hlen : (noise ++ frame ++ rest).length = noise.length + frame.length + rest.length := by
    rw [List.length_append, List.length_append]
  have h := scan_first att (noise ++ frame ++ rest) noise.length hn (by omega) herr
    (by rw [hd, hatt]; exact Res.not_isErr_ok _)
  rw [h, hd, hatt]; rfl

/-- C14, second clause, generic: a reported frame starts within the first 256 offsets, has at least
two bytes of buffer at its start, is what the attempt produced there, and **every earlier offset was
rejected** — so no offset before the reported one could start a frame. -/
theorem scan_no_later {F : Type} (att : Attempt F) (buf : Bytes) (f : F) (loc : Loc)
    (h : scan att buf = .ok (some (f, loc))) :
    loc.start < 256 ∧ loc.start + 1 < buf.length ∧
    att (buf.drop loc.start) = .ok (some (f, loc.size)) ∧
    ∀ d, d < loc.start → (att (buf.drop d)).isErr = true := by
  have hb : buf ≠ [] := by
    intro hnil; subst hnil; rw [scan_empty] at h; cases h
  rcases scan_spec att buf hb with ⟨d, h1, h2, h3, h4, h5⟩ | ⟨_, ⟨_, e, _, h5⟩ | ⟨_, h5⟩⟩
  · rw [h5] at h
    cases hatt : att (buf.drop d) with
    | ok a =>
      cases a with
      | none => rw [hatt] at h; simp [Attempt.place] at h
      | some p =>
        obtain ⟨f', sz⟩ := p
        rw [hatt] at h
        simp only [Attempt.place, Res.ok.injEq, Option.some.injEq, Prod.mk.injEq] at h
        obtain ⟨rfl, rfl⟩ := h
        exact ⟨by simp only; omega, h2, hatt, h3⟩
    | panic => rw [hatt] at h; simp [Attempt.place] at h
    | err e => rw [hatt] at h; simp [Attempt.place] at h
  · rw [h5] at h; cases h
  · rw [h5] at h; simp at h

/-- consequence of `scan_no_later` in the property's words: if the attempt at an offset `d` is not an
error (in particular if a complete well-formed frame starts there), no frame is reported at a later start -/
theorem scan_not_after {F : Type} (att : Attempt F) (buf : Bytes) (f : F) (loc : Loc) (d : Nat)
    (h : scan att buf = .ok (some (f, loc))) (hd : ¬ (att (buf.drop d)).isErr = true) :
    loc.start ≤ d := by
  rcases Nat.lt_or_ge d loc.start with hlt | hge
  · exact absurd ((scan_no_later att buf f loc h).2.2.2 d hlt) hd
  · exact hge

/-- C14, third clause, generic: 256 rejected offsets in a buffer of ≥ 257 bytes ⇒ an error (the one of
offset 255), not "incomplete" -/
theorem scan_gives_up_err {F : Type} (att : Attempt F) (buf : Bytes) (hl : 257 ≤ buf.length)
    (herr : ∀ d, d < 256 → (att (buf.drop d)).isErr = true) :
    ∃ e, att (buf.drop 255) = .err e ∧ scan att buf = .err e := by
  have hb : buf ≠ [] := by intro h; subst h; simp at hl
  obtain ⟨e, he⟩ := (Res.isErr_iff _).1 (herr 255 (by omega))
  refine ⟨e, he, ?_⟩
  rw [scan_eq_scanFrom att buf hb,
    scanFrom_skip att buf 0 255 (by omega) (by omega) (by simp [maxFrameLen])
      (fun i _ hi => herr i (by omega))]
  exact scanFrom_limit att buf 255 (by omega) (by simp [maxFrameLen]) e he

theorem scan_gives_up {F : Type} (att : Attempt F) (buf : Bytes) (hl : 257 ≤ buf.length)
    (herr : ∀ d, d < 256 → (att (buf.drop d)).isErr = true) :
    (scan att buf).isErr = true := by
  obtain ⟨e, _, h⟩ := scan_gives_up_err att buf hl herr
  rw [h]; rfl

/-- the complementary case: all examined offsets rejected but the buffer has at most 256 bytes ⇒
"incomplete" (the designed behaviour for short garbage) -/
theorem scan_incomplete_short {F : Type} (att : Attempt F) (buf : Bytes) (hne : buf ≠ [])
    (hl : buf.length ≤ 256)
    (herr : ∀ d, d + 1 < buf.length → (att (buf.drop d)).isErr = true) :
    scan att buf = .ok none := by
  rcases scan_spec att buf hne with ⟨d, _, h2, _, h4, _⟩ | ⟨_, ⟨h3, _⟩ | ⟨_, h5⟩⟩
  · exact absurd (herr d h2) h4
  · omega
  · exact h5

/-- a scan never reports a frame, and never panics, unless some attempt did -/
theorem scan_panic_iff {F : Type} (att : Attempt F) (buf : Bytes) :
    scan att buf = .panic ↔
      ∃ d, d ≤ 255 ∧ d + 1 < buf.length ∧ (∀ i, i < d → (att (buf.drop i)).isErr = true) ∧
        att (buf.drop d) = .panic := by
  constructor
  · intro h
    have hb : buf ≠ [] := by
      intro hnil; subst hnil; rw [scan_empty] at h; cases h
    rcases scan_spec att buf hb with ⟨d, h1, h2, h3, h4, h5⟩ | ⟨_, ⟨_, e, _, h5⟩ | ⟨_, h5⟩⟩
    · refine ⟨d, h1, h2, h3, ?_⟩
      rw [h5] at h
      cases hatt : att (buf.drop d) with
      | ok a =>
        rw [hatt] at h
        cases a with
        | none => simp [Attempt.place] at h
        | some p => cases p; simp [Attempt.place] at h
      | panic => rfl
      | err e => rw [hatt] at h; simp [Attempt.place] at h
    · rw [h5] at h; cases h
    · rw [h5] at h; cases h
  · rintro ⟨d, h1, h2, h3, h4⟩
    rw [scan_first att buf d h1 h2 h3 (by rw [h4]; exact Res.not_isErr_panic), h4]; rfl

theorem Attempt.place_isErr {F : Type} (d : Nat) (r : Res (Option (F × Nat))) :
    (Attempt.place d r).isErr = r.isErr := by
  cases r with
  | ok a =>
    cases a with
    | none => rfl
    | some p => cases p; rfl
  | panic => rfl
  | err e => rfl

/-- clause 3 as an equivalence: the scan is an error **exactly** when the buffer is empty, or it has at
least 257 bytes and all of the first 256 offsets are rejected -/
theorem scan_isErr_iff {F : Type} (att : Attempt F) (buf : Bytes) :
    (scan att buf).isErr = true ↔
      buf = [] ∨ (257 ≤ buf.length ∧ ∀ d, d < 256 → (att (buf.drop d)).isErr = true) := by
  constructor
  · intro h
    by_cases hb : buf = []
    · exact Or.inl hb
    right
    rcases scan_spec att buf hb with ⟨d, _, _, _, h4, h5⟩ | ⟨h1, ⟨hl, _⟩ | ⟨_, hs⟩⟩
    · rw [h5, Attempt.place_isErr] at h; exact absurd h h4
    · exact ⟨hl, fun d hd => h1 d (by omega) (by omega)⟩
    · rw [hs] at h; exact absurd h (Res.not_isErr_ok _)
  · rintro (hb | ⟨hl, herr⟩)
    · subst hb; rfl
    · exact scan_gives_up att buf hl herr

/-! ### The loop as a search -/

/-- non-recursive reference scanner: search the offsets `0 .. min (buf.length - 2) 255` for the first
attempt that is not an error -/
def scanRef {F : Type} (att : Attempt F) (buf : Bytes) : Res (Option (F × Loc)) :=
  if buf = [] then .err .bufferSize else
  match (List.range (min (buf.length - 1) 256)).find? (fun d => !(att (buf.drop d)).isErr) with
  | some d => Attempt.place d (att (buf.drop d))
  | none => if 257 ≤ buf.length then Attempt.place 255 (att (buf.drop 255)) else .ok none

/-- `scan_spec` as an equation: the loop computes the reference scanner, on every buffer -/
theorem scan_eq_scanRef {F : Type} (att : Attempt F) (buf : Bytes) : scan att buf = scanRef att buf := by
  unfold scanRef
  by_cases hb : buf = []
  · subst hb; rfl
  rw [if_neg hb]
  rcases scan_spec att buf hb with ⟨d, h1, h2, h3, h4, h5⟩ | ⟨h1, h2⟩
  · have hf : (List.range (min (buf.length - 1) 256)).find? (fun d => !(att (buf.drop d)).isErr) = some d := by
      rw [List.find?_range_eq_some]
      refine ⟨?_, ?_, ?_⟩
      · simpa using h4
      · rw [List.mem_range]; omega
      · intro j hj; simpa using h3 j hj
    rw [hf]; exact h5
  · have hf : (List.range (min (buf.length - 1) 256)).find? (fun d => !(att (buf.drop d)).isErr) = none := by
      rw [List.find?_range_eq_none]
      intro i hi
      simpa using h1 i (by omega) (by omega)
    rw [hf]
    rcases h2 with ⟨hl, e, he, hs⟩ | ⟨hl, hs⟩
    · simp only
      rw [if_pos hl, he, hs]; rfl
    · simp only
      rw [if_neg (by omega), hs]

/-! ### `mkAttempt`: predictor followed by extractor -/

/-- a frame comes out of an attempt only if the predictor gave a length and the extractor a frame for
that length; the reported size is that length plus the overhead -/
theorem mkAttempt_some {F : Type} (predict : Bytes → Res (Option Nat))
    (extract : Bytes → Nat → Res (Option F)) (oh : Nat) (raw : Bytes) (f : F) (sz : Nat)
    (h : mkAttempt predict extract oh raw = .ok (some (f, sz))) :
    ∃ n, predict raw = .ok (some n) ∧ extract raw n = .ok (some f) ∧ sz = n + oh := by
  unfold mkAttempt at h
  cases hp : predict raw with
  | ok a =>
    cases a with
    | none => simp [hp] at h
    | some n =>
      rw [hp] at h
      simp only [Res.bind'_ok] at h
      cases he : extract raw n with
      | ok b =>
        cases b with
        | none => simp [he] at h
        | some g =>
          simp [he] at h
          exact ⟨n, rfl, by rw [he, h.1], h.2.symm⟩
      | panic => simp [he] at h
      | err e => simp [he] at h
  | panic => simp [hp] at h
  | err e => simp [hp] at h

theorem mkAttempt_of_some {F : Type} (predict : Bytes → Res (Option Nat))
    (extract : Bytes → Nat → Res (Option F)) (oh : Nat) (raw : Bytes) (n : Nat) (f : F)
    (hp : predict raw = .ok (some n)) (he : extract raw n = .ok (some f)) :
    mkAttempt predict extract oh raw = .ok (some (f, n + oh)) := by
  simp [mkAttempt, hp, he]

/-- an error of the predictor is an error of the attempt -/
theorem mkAttempt_predict_err {F : Type} (predict : Bytes → Res (Option Nat))
    (extract : Bytes → Nat → Res (Option F)) (oh : Nat) (raw : Bytes) (e : Error)
    (hp : predict raw = .err e) : mkAttempt predict extract oh raw = .err e := by
  simp [mkAttempt, hp]

/-- an error of the extractor (for the predicted length) is an error of the attempt -/
theorem mkAttempt_extract_err {F : Type} (predict : Bytes → Res (Option Nat))
    (extract : Bytes → Nat → Res (Option F)) (oh : Nat) (raw : Bytes) (n : Nat) (e : Error)
    (hp : predict raw = .ok (some n)) (he : extract raw n = .err e) :
    mkAttempt predict extract oh raw = .err e := by
  simp [mkAttempt, hp, he]

theorem mkAttempt_predict_none {F : Type} (predict : Bytes → Res (Option Nat))
    (extract : Bytes → Nat → Res (Option F)) (oh : Nat) (raw : Bytes)
    (hp : predict raw = .ok none) : mkAttempt predict extract oh raw = .ok none := by
  simp [mkAttempt, hp]

end Modbus

import Modbus.Model.Codec
import Modbus.Lemmas.Basic
import Modbus.Lemmas.Coils
/-
Encoders collapse to `image ++ buf.drop n`: the wire image of a value, its encodability
predicate, and the equation every encoder satisfies for every buffer (C12; used by C01–C05, C18, C19).
-/
namespace Modbus

theorem applyWrites_append (buf : Bytes) (ws1 ws2 : List (Nat × Bytes)) :
    applyWrites buf (ws1 ++ ws2) = (applyWrites buf ws1).bind (fun b => applyWrites b ws2) := by
  induction ws1 generalizing buf with
  | nil => simp [applyWrites]
  | cons w ws ih =>
    obtain ⟨off, bs⟩ := w
    simp only [List.cons_append, applyWrites]
    cases writeAt buf off bs with
    | ok b => simpa using ih b
    | err e => simp
    | panic => simp

theorem applyWrites_bind_bind {β} (buf : Bytes) (ws1 ws2 : List (Nat × Bytes)) (k : Bytes → Res β) :
    (applyWrites buf ws1).bind (fun b => (applyWrites b ws2).bind k) = (applyWrites buf (ws1 ++ ws2)).bind k := by
  rw [applyWrites_append]
  cases applyWrites buf ws1 <;> simp

theorem applyWrites_bind_finish (buf : Bytes) (ws1 ws2 : List (Nat × Bytes)) (n : Nat) :
    (applyWrites buf ws1).bind (fun b => finish n (applyWrites b ws2)) = finish n (applyWrites buf (ws1 ++ ws2)) := by
  rw [applyWrites_append]
  cases applyWrites buf ws1 <;> simp [finish]

/-- the general form every encoder body reduces to -/
theorem applyWrites_image (ws : List (Nat × Bytes)) (buf : Bytes) (n : Nat)
    (ht : Tiled 0 ws) (hn : (segBytes ws).length = n) (hl : n ≤ buf.length) :
    finish n (applyWrites buf ws) = .ok (n, segBytes ws ++ buf.drop n) := by
  rw [applyWrites_from_zero ws buf ht (by omega)]
  simp [finish, hn]

/-! ### requests -/

/-- wire image of a request (meaningful when `Encodable`) -/
def Request.image : Request → Bytes
  | .readCoils a q => [0x01] ++ be16 a ++ be16 q
  | .readDiscreteInputs a q => [0x02] ++ be16 a ++ be16 q
  | .readInputRegisters a q => [0x04] ++ be16 a ++ be16 q
  | .readHoldingRegisters a q => [0x03] ++ be16 a ++ be16 q
  | .writeSingleRegister a w => [0x06] ++ be16 a ++ be16 w
  | .writeSingleCoil a s => [0x05] ++ be16 a ++ be16 (boolToU16Coil s)
  | .writeMultipleCoils a c =>
      [0x0F] ++ be16 a ++ be16 (UInt16.ofNat c.len) ++ [UInt8.ofNat c.packedLen] ++ c.wire
  | .writeMultipleRegisters a d =>
      [0x10] ++ be16 a ++ be16 (UInt16.ofNat d.len) ++ [UInt8.ofNat (d.len * 2)] ++ d.data
  | .readWriteMultipleRegisters ra q wa d =>
      [0x17] ++ be16 ra ++ be16 q ++ be16 wa ++ be16 (UInt16.ofNat d.len) ++ [UInt8.ofNat (d.len * 2)] ++ d.data
  | .custom fc d => [fc.value] ++ d
  | _ => []

/-- the requests `encode` can serialise: implemented kinds whose byte count fits its one-byte field
    and whose container holds the bytes its count promises -/
def Request.Encodable : Request → Prop
  | .writeMultipleCoils _ c => c.packedLen ≤ 255 ∧ c.packedLen ≤ c.data.length
  | .writeMultipleRegisters _ d => d.len * 2 ≤ 255
  | .readWriteMultipleRegisters _ _ _ d => d.len * 2 ≤ 255
  | .readExceptionStatus | .diagnostics _ _ | .getCommEventCounter | .getCommEventLog | .reportServerId => False
  | _ => True

theorem Request.pduLen_eq (r : Request) (h : r.Encodable) : r.pduLen = .ok r.image.length := by
  cases r <;> simp_all [Request.pduLen, Request.image, Request.Encodable, Coils.packedLen] <;> omega

theorem u8TryFrom_ok {n : Nat} (h : n ≤ 255) : u8TryFrom n = .ok (UInt8.ofNat n) := by
  simp [u8TryFrom, h]

/-- C12 for request PDUs: for every encodable request and every buffer (any length, any contents) -/
theorem Request.encode_eq (r : Request) (buf : Bytes) (h : r.Encodable) :
    r.encode buf =
      if buf.length < r.image.length then .err .bufferSize
      else .ok (r.image.length, r.image ++ buf.drop r.image.length) := by
  unfold Request.encode
  rw [Request.pduLen_eq r h]
  simp only [Res.bind'_ok]
  by_cases hb : buf.length < r.image.length
  · simp [hb]
  · simp only [hb, if_false]
    have hb' : r.image.length ≤ buf.length := by omega
    cases r with
    | readCoils a q => exact applyWrites_image _ buf _ (by simp [Tiled]) (by simp [segBytes, Request.image]) hb'
    | readDiscreteInputs a q => exact applyWrites_image _ buf _ (by simp [Tiled]) (by simp [segBytes, Request.image]) hb'
    | readInputRegisters a q => exact applyWrites_image _ buf _ (by simp [Tiled]) (by simp [segBytes, Request.image]) hb'
    | readHoldingRegisters a q => exact applyWrites_image _ buf _ (by simp [Tiled]) (by simp [segBytes, Request.image]) hb'
    | writeSingleRegister a q => exact applyWrites_image _ buf _ (by simp [Tiled]) (by simp [segBytes, Request.image]) hb'
    | writeSingleCoil a q => exact applyWrites_image _ buf _ (by simp [Tiled]) (by simp [segBytes, Request.image]) hb'
    | custom fc d =>
      have := applyWrites_image [(0, [fc.value]), (1, d)] buf (Request.custom fc d).image.length
        (by simp [Tiled]) (by simp [segBytes, Request.image]) hb'
      simpa [segBytes, Request.image, Request.fc] using this
    | writeMultipleCoils a c =>
      obtain ⟨h1, h2⟩ := h
      have hc : ¬ c.data.length < c.packedLen := by omega
      simp only [Request.fc, FunctionCode.value, Res.bind'_ok, u8TryFrom_ok h1,
        Coils.copyBytes_eq, hc, if_false, applyWrites_bind_bind, applyWrites_bind_finish, List.cons_append, List.nil_append]
      have := applyWrites_image [(0, [0x0F]), (1, be16 a), (3, be16 (UInt16.ofNat c.len)),
          (5, [UInt8.ofNat c.packedLen]), (6, c.wire)] buf
        (Request.writeMultipleCoils a c).image.length
        (by simp [Tiled]) (by simp [segBytes, Request.image]) hb'
      simpa [segBytes, Request.image] using this
    | writeMultipleRegisters a d =>
      have h1 : d.len * 2 ≤ 255 := h
      simp only [Request.fc, FunctionCode.value, Res.bind'_ok, u8TryFrom_ok h1,
        applyWrites_bind_bind, applyWrites_bind_finish, List.cons_append, List.nil_append]
      have := applyWrites_image [(0, [0x10]), (1, be16 a), (3, be16 (UInt16.ofNat d.len)),
          (5, [UInt8.ofNat (d.len * 2)]), (6, d.data)] buf
        (Request.writeMultipleRegisters a d).image.length
        (by simp [Tiled]) (by simp [segBytes, Request.image]) hb'
      simpa [segBytes, Request.image] using this
    | readWriteMultipleRegisters ra q wa d =>
      have h1 : d.len * 2 ≤ 255 := h
      simp only [Request.fc, FunctionCode.value, Res.bind'_ok, u8TryFrom_ok h1,
        applyWrites_bind_bind, applyWrites_bind_finish, List.cons_append, List.nil_append]
      have := applyWrites_image [(0, [0x17]), (1, be16 ra), (3, be16 q), (5, be16 wa),
          (7, be16 (UInt16.ofNat d.len)), (9, [UInt8.ofNat (d.len * 2)]), (10, d.data)] buf
        (Request.readWriteMultipleRegisters ra q wa d).image.length
        (by simp [Tiled]) (by simp [segBytes, Request.image]) hb'
      simpa [segBytes, Request.image] using this
    | readExceptionStatus => simp [Request.Encodable] at h
    | diagnostics s d => simp [Request.Encodable] at h
    | getCommEventCounter => simp [Request.Encodable] at h
    | getCommEventLog => simp [Request.Encodable] at h
    | reportServerId => simp [Request.Encodable] at h


theorem Res.bind_const_err_ne_ok {α β} (x : Res α) (e : Error) (v : β) :
    x.bind (fun _ => (Res.err e : Res β)) ≠ .ok v := by
  cases x <;> simp

theorem Res.bind_const_panic_ne_ok {α β} (x : Res α) (v : β) :
    x.bind (fun _ => (Res.panic : Res β)) ≠ .ok v := by
  cases x <;> simp

/-- a request that `encode` serialises successfully is `Encodable` -/
theorem Request.encodable_of_ok (r : Request) (buf : Bytes) (v : Nat × Bytes)
    (h : r.encode buf = .ok v) : r.Encodable := by
  cases r with
  | writeMultipleCoils a c =>
    by_cases h1 : c.packedLen ≤ 255
    · by_cases h2 : c.packedLen ≤ c.data.length
      · exact ⟨h1, h2⟩
      · exfalso
        have hc : c.data.length < c.packedLen := by omega
        simp only [Request.encode, Request.pduLen, Res.bind'_ok, u8TryFrom_ok h1, Coils.copyBytes_eq, hc, if_true] at h
        split at h
        · simp at h
        · cases hh : applyWrites buf [(0, [(Request.writeMultipleCoils a c).fc.value]), (1, be16 a)] with
          | ok b =>
            rw [hh] at h; simp only [Res.bind'_ok] at h
            exact Res.bind_const_panic_ne_ok _ _ h
          | err e => rw [hh] at h; simp at h
          | panic => rw [hh] at h; simp at h
    · exfalso
      have hu : u8TryFrom c.packedLen = .err .bufferSize := by simp [u8TryFrom, h1]
      simp only [Request.encode, Request.pduLen, Res.bind'_ok, hu, Res.bind'_err] at h
      split at h
      · simp at h
      · exact Res.bind_const_err_ne_ok _ _ _ h
  | writeMultipleRegisters a d =>
    by_cases h1 : d.len * 2 ≤ 255
    · exact h1
    · exfalso
      have hu : u8TryFrom (d.len * 2) = .err .bufferSize := by simp [u8TryFrom, h1]
      simp only [Request.encode, Request.pduLen, Res.bind'_ok, hu, Res.bind'_err] at h
      split at h
      · simp at h
      · exact Res.bind_const_err_ne_ok _ _ _ h
  | readWriteMultipleRegisters ra q wa d =>
    by_cases h1 : d.len * 2 ≤ 255
    · exact h1
    · exfalso
      have hu : u8TryFrom (d.len * 2) = .err .bufferSize := by simp [u8TryFrom, h1]
      simp only [Request.encode, Request.pduLen, Res.bind'_ok, hu, Res.bind'_err] at h
      split at h
      · simp at h
      · exact Res.bind_const_err_ne_ok _ _ _ h
  | readExceptionStatus => simp [Request.encode, Request.pduLen] at h
  | diagnostics s d => simp [Request.encode, Request.pduLen] at h
  | getCommEventCounter => simp [Request.encode, Request.pduLen] at h
  | getCommEventLog => simp [Request.encode, Request.pduLen] at h
  | reportServerId => simp [Request.encode, Request.pduLen] at h
  | _ => trivial

/-! ### responses -/

def Response.image : Response → Bytes
  | .readCoils c => [0x01] ++ [UInt8.ofNat c.packedLen] ++ c.wire
  | .readDiscreteInputs c => [0x02] ++ [UInt8.ofNat c.packedLen] ++ c.wire
  | .readInputRegisters d => [0x04] ++ [UInt8.ofNat (d.len * 2)] ++ d.data.take (d.len * 2)
  | .readHoldingRegisters d => [0x03] ++ [UInt8.ofNat (d.len * 2)] ++ d.data.take (d.len * 2)
  | .readWriteMultipleRegisters d => [0x17] ++ [UInt8.ofNat (d.len * 2)] ++ d.data.take (d.len * 2)
  | .writeSingleCoil a => [0x05] ++ be16 a
  | .writeMultipleCoils a q => [0x0F] ++ be16 a ++ be16 q
  | .writeMultipleRegisters a q => [0x10] ++ be16 a ++ be16 q
  | .writeSingleRegister a w => [0x06] ++ be16 a ++ be16 w
  | .custom fc d => [fc.value] ++ d
  | .readExceptionStatus s => [0x07, s]
  | _ => []

def Response.Encodable : Response → Prop
  | .readCoils c | .readDiscreteInputs c => c.packedLen ≤ 255 ∧ c.packedLen ≤ c.data.length
  | .readInputRegisters d | .readHoldingRegisters d | .readWriteMultipleRegisters d =>
      d.len * 2 ≤ 255 ∧ d.len * 2 ≤ d.data.length
  | .diagnostics _ | .getCommEventCounter _ _ | .getCommEventLog _ _ _ _ | .reportServerId _ _ => False
  | _ => True

theorem Response.pduLen_eq (r : Response) (h : r.Encodable) : r.pduLen = .ok r.image.length := by
  cases r <;> simp_all [Response.pduLen, Response.image, Response.Encodable, Coils.packedLen, Data.len] <;> omega

/-- C12 for response PDUs -/
theorem Response.encode_eq (r : Response) (buf : Bytes) (h : r.Encodable) :
    r.encode buf =
      if buf.length < r.image.length then .err .bufferSize
      else .ok (r.image.length, r.image ++ buf.drop r.image.length) := by
  unfold Response.encode
  rw [Response.pduLen_eq r h]
  simp only [Res.bind'_ok]
  by_cases hb : buf.length < r.image.length
  · simp [hb]
  · simp only [hb, if_false]
    have hb' : r.image.length ≤ buf.length := by omega
    cases r with
    | readCoils c =>
      obtain ⟨h1, h2⟩ := h
      have hc : ¬ c.data.length < c.packedLen := by omega
      simp only [Response.fc, FunctionCode.value, Res.bind'_ok, u8TryFrom_ok h1, Coils.copyBytes_eq, hc, if_false,
        applyWrites_bind_bind, applyWrites_bind_finish, List.cons_append, List.nil_append]
      have := applyWrites_image [(0, [0x01]), (1, [UInt8.ofNat c.packedLen]), (2, c.wire)] buf
        (Response.readCoils c).image.length (by simp [Tiled]) (by simp [segBytes, Response.image]) hb'
      simpa [segBytes, Response.image] using this
    | readDiscreteInputs c =>
      obtain ⟨h1, h2⟩ := h
      have hc : ¬ c.data.length < c.packedLen := by omega
      simp only [Response.fc, FunctionCode.value, Res.bind'_ok, u8TryFrom_ok h1, Coils.copyBytes_eq, hc, if_false,
        applyWrites_bind_bind, applyWrites_bind_finish, List.cons_append, List.nil_append]
      have := applyWrites_image [(0, [0x02]), (1, [UInt8.ofNat c.packedLen]), (2, c.wire)] buf
        (Response.readDiscreteInputs c).image.length (by simp [Tiled]) (by simp [segBytes, Response.image]) hb'
      simpa [segBytes, Response.image] using this
    | readInputRegisters d =>
      obtain ⟨h1, h2⟩ := h
      have hc : ¬ d.data.length < d.quantity * 2 := by simp only [Data.len] at h2; omega
      simp only [Response.fc, FunctionCode.value, Res.bind'_ok, u8TryFrom_ok h1, Data.copyBytes, hc, if_false,
        applyWrites_bind_bind, applyWrites_bind_finish, List.cons_append, List.nil_append]
      have := applyWrites_image [(0, [0x04]), (1, [UInt8.ofNat (d.len * 2)]), (2, d.data.take (d.quantity * 2))] buf
        (Response.readInputRegisters d).image.length (by simp [Tiled]) (by simp [segBytes, Response.image, Data.len]) hb'
      simpa [segBytes, Response.image, Data.len] using this
    | readHoldingRegisters d =>
      obtain ⟨h1, h2⟩ := h
      have hc : ¬ d.data.length < d.quantity * 2 := by simp only [Data.len] at h2; omega
      simp only [Response.fc, FunctionCode.value, Res.bind'_ok, u8TryFrom_ok h1, Data.copyBytes, hc, if_false,
        applyWrites_bind_bind, applyWrites_bind_finish, List.cons_append, List.nil_append]
      have := applyWrites_image [(0, [0x03]), (1, [UInt8.ofNat (d.len * 2)]), (2, d.data.take (d.quantity * 2))] buf
        (Response.readHoldingRegisters d).image.length (by simp [Tiled]) (by simp [segBytes, Response.image, Data.len]) hb'
      simpa [segBytes, Response.image, Data.len] using this
    | readWriteMultipleRegisters d =>
      obtain ⟨h1, h2⟩ := h
      have hc : ¬ d.data.length < d.quantity * 2 := by simp only [Data.len] at h2; omega
      simp only [Response.fc, FunctionCode.value, Res.bind'_ok, u8TryFrom_ok h1, Data.copyBytes, hc, if_false,
        applyWrites_bind_bind, applyWrites_bind_finish, List.cons_append, List.nil_append]
      have := applyWrites_image [(0, [0x17]), (1, [UInt8.ofNat (d.len * 2)]), (2, d.data.take (d.quantity * 2))] buf
        (Response.readWriteMultipleRegisters d).image.length (by simp [Tiled]) (by simp [segBytes, Response.image, Data.len]) hb'
      simpa [segBytes, Response.image, Data.len] using this
    | writeSingleCoil a => exact applyWrites_image _ buf _ (by simp [Tiled]) (by simp [segBytes, Response.image]) hb'
    | writeMultipleCoils a q => exact applyWrites_image _ buf _ (by simp [Tiled]) (by simp [segBytes, Response.image]) hb'
    | writeMultipleRegisters a q => exact applyWrites_image _ buf _ (by simp [Tiled]) (by simp [segBytes, Response.image]) hb'
    | writeSingleRegister a q => exact applyWrites_image _ buf _ (by simp [Tiled]) (by simp [segBytes, Response.image]) hb'
    | readExceptionStatus s => exact applyWrites_image _ buf _ (by simp [Tiled]) (by simp [segBytes, Response.image]) hb'
    | custom fc d =>
      have := applyWrites_image [(0, [fc.value]), (1, d)] buf (Response.custom fc d).image.length
        (by simp [Tiled]) (by simp [segBytes, Response.image]) hb'
      simpa [segBytes, Response.image, Response.fc] using this
    | diagnostics d => simp [Response.Encodable] at h
    | getCommEventCounter a b => simp [Response.Encodable] at h
    | getCommEventLog a b c d => simp [Response.Encodable] at h
    | reportServerId a b => simp [Response.Encodable] at h

/-- a response that `encode` serialises successfully is `Encodable` -/
theorem Response.encodable_of_ok (r : Response) (buf : Bytes) (v : Nat × Bytes)
    (h : r.encode buf = .ok v) : r.Encodable := by
  have coils : ∀ (c : Coils) (fc : UInt8) (n : Nat),
      ((if buf.length < n then (Res.err Error.bufferSize : Res (Nat × Bytes)) else
        (applyWrites buf [(0, [fc])]).bind fun buf =>
        (u8TryFrom c.packedLen).bind fun bc =>
        (applyWrites buf [(1, [bc])]).bind fun buf =>
        c.copyBytes.bind fun payload =>
        finish n (applyWrites buf [(2, payload)])) = .ok v) →
      c.packedLen ≤ 255 ∧ c.packedLen ≤ c.data.length := by
    intro c fc n h
    split at h
    · simp at h
    · by_cases h1 : c.packedLen ≤ 255
      · by_cases h2 : c.packedLen ≤ c.data.length
        · exact ⟨h1, h2⟩
        · exfalso
          have hc : c.data.length < c.packedLen := by omega
          simp only [u8TryFrom_ok h1, Res.bind'_ok, Coils.copyBytes_eq, hc, if_true, Res.bind'_panic] at h
          cases hh : applyWrites buf [(0, [fc])] with
          | ok b => rw [hh] at h; simp only [Res.bind'_ok] at h; exact Res.bind_const_panic_ne_ok _ _ h
          | err e => rw [hh] at h; simp at h
          | panic => rw [hh] at h; simp at h
      · exfalso
        have hu : u8TryFrom c.packedLen = .err .bufferSize := by simp [u8TryFrom, h1]
        simp only [hu, Res.bind'_err] at h
        exact Res.bind_const_err_ne_ok _ _ _ h
  have regs : ∀ (d : Data) (fc : UInt8) (n : Nat),
      ((if buf.length < n then (Res.err Error.bufferSize : Res (Nat × Bytes)) else
        (applyWrites buf [(0, [fc])]).bind fun buf =>
        (u8TryFrom (d.len * 2)).bind fun bc =>
        (applyWrites buf [(1, [bc])]).bind fun buf =>
        d.copyBytes.bind fun payload =>
        finish n (applyWrites buf [(2, payload)])) = .ok v) →
      d.len * 2 ≤ 255 ∧ d.len * 2 ≤ d.data.length := by
    intro d fc n h
    split at h
    · simp at h
    · by_cases h1 : d.len * 2 ≤ 255
      · by_cases h2 : d.len * 2 ≤ d.data.length
        · exact ⟨h1, h2⟩
        · exfalso
          have hc : d.data.length < d.quantity * 2 := by simp only [Data.len] at h2; omega
          simp only [u8TryFrom_ok h1, Res.bind'_ok, Data.copyBytes, hc, if_true, Res.bind'_panic] at h
          cases hh : applyWrites buf [(0, [fc])] with
          | ok b => rw [hh] at h; simp only [Res.bind'_ok] at h; exact Res.bind_const_panic_ne_ok _ _ h
          | err e => rw [hh] at h; simp at h
          | panic => rw [hh] at h; simp at h
      · exfalso
        have hu : u8TryFrom (d.len * 2) = .err .bufferSize := by simp [u8TryFrom, h1]
        simp only [hu, Res.bind'_err] at h
        exact Res.bind_const_err_ne_ok _ _ _ h
  cases r with
  | readCoils c => exact coils c _ _ (by simpa [Response.encode, Response.pduLen] using h)
  | readDiscreteInputs c => exact coils c _ _ (by simpa [Response.encode, Response.pduLen] using h)
  | readInputRegisters d => exact regs d _ _ (by simpa [Response.encode, Response.pduLen] using h)
  | readHoldingRegisters d => exact regs d _ _ (by simpa [Response.encode, Response.pduLen] using h)
  | readWriteMultipleRegisters d => exact regs d _ _ (by simpa [Response.encode, Response.pduLen] using h)
  | diagnostics d => simp [Response.encode, Response.pduLen] at h
  | getCommEventCounter a b => simp [Response.encode, Response.pduLen] at h
  | getCommEventLog a b c d => simp [Response.encode, Response.pduLen] at h
  | reportServerId a b => simp [Response.encode, Response.pduLen] at h
  | _ => trivial

/-! ### exception responses and `ResponsePdu` -/

def ExceptionResponse.image (e : ExceptionResponse) : Bytes := [e.function.value + 0x80, e.exception.val]

/-- C12 for exception responses (function code below 0x80) -/
theorem ExceptionResponse.encode_eq (e : ExceptionResponse) (buf : Bytes) (h : e.function.value < 0x80) :
    e.encode buf =
      if buf.length < 2 then .err .bufferSize else .ok (2, e.image ++ buf.drop 2) := by
  unfold ExceptionResponse.encode
  by_cases hb : buf.length < 2
  · simp [hb]
  · simp only [hb, if_false, ExceptionResponse.toBytes, h, if_true, Res.bind'_ok]
    have := applyWrites_image [(0, [e.function.value + 0x80]), (1, [e.exception.val])] buf 2
      (by simp [Tiled]) (by simp [segBytes]) (by omega)
    simpa [segBytes, ExceptionResponse.image] using this

def ResponsePdu.image : ResponsePdu → Bytes
  | .ok r => r.image
  | .error e => e.image

def ResponsePdu.Encodable : ResponsePdu → Prop
  | .ok r => r.Encodable ∧ 1 ≤ r.image.length
  | .error e => e.function.value < 0x80

theorem Response.image_pos (r : Response) (h : r.Encodable) : 1 ≤ r.image.length := by
  cases r <;> simp_all [Response.image, Response.Encodable]

/-- C12 for `ResponsePdu::encode` -/
theorem ResponsePdu.encode_eq (p : ResponsePdu) (buf : Bytes) (h : p.Encodable) :
    p.encode buf =
      if buf.length < p.image.length then .err .bufferSize
      else .ok (p.image.length, p.image ++ buf.drop p.image.length) := by
  unfold ResponsePdu.encode
  cases p with
  | ok r =>
    obtain ⟨h1, h2⟩ := h
    by_cases he : buf.isEmpty
    · have : buf = [] := by simpa using he
      subst this
      have : (0 : Nat) < r.image.length := by omega
      simp [ResponsePdu.image, this]
    · simp only [he, Bool.false_eq_true, if_false, ResponsePdu.image]
      exact Response.encode_eq r buf h1
  | error e =>
    by_cases he : buf.isEmpty
    · have : buf = [] := by simpa using he
      subst this
      simp [ResponsePdu.image, ExceptionResponse.image]
    · simp only [he, Bool.false_eq_true, if_false, ResponsePdu.image]
      rw [ExceptionResponse.encode_eq e buf h]
      simp [ExceptionResponse.image]

end Modbus

import Modbus.Model.Codec
import Modbus.Spec.Wire
/-
What a model value *means*: the abstract request / response of Spec/Wire.lean, read through the
same accessors a user has (iteration over the payload container).  "The same request" in C01, C02,
C04, C05, C13, C19 is equality of meanings — never equality of raw slices.
-/
namespace Modbus

/-- the coils a container yields by iteration (`none` if an accessor would panic) -/
def Coils.items (c : Coils) : Option (List Bool) :=
  match c.iter with
  | .ok l => some l
  | _ => none

/-- the words a container yields by iteration -/
def Data.items (d : Data) : Option (List UInt16) :=
  match d.iter with
  | .ok l => some l
  | _ => none

/-- meaning of a request; RTU-only kinds (not implemented by the codec) have none -/
def Request.sem : Request → Option Spec.ReqMeaning
  | .readCoils a q => some (.readCoils a q)
  | .readDiscreteInputs a q => some (.readDiscreteInputs a q)
  | .readHoldingRegisters a q => some (.readHoldingRegisters a q)
  | .readInputRegisters a q => some (.readInputRegisters a q)
  | .writeSingleCoil a c => some (.writeSingleCoil a c)
  | .writeSingleRegister a w => some (.writeSingleRegister a w)
  | .writeMultipleCoils a c => c.items.map (.writeMultipleCoils a)
  | .writeMultipleRegisters a d => d.items.map (.writeMultipleRegisters a)
  | .readWriteMultipleRegisters ra rq wa d => d.items.map (.readWriteMultipleRegisters ra rq wa)
  | .custom fc d => some (.custom fc.value d)
  | _ => none

/-- meaning of a response.  `ReadExceptionStatus(s)` is the one RTU-only kind both the encoder and the
    decoder implement: its wire form is `07 s`, which the decoder reads back as `ReadExceptionStatus(s)`. -/
def Response.sem : Response → Option Spec.RspMeaning
  | .readCoils c => c.items.map .readCoils
  | .readDiscreteInputs c => c.items.map .readDiscreteInputs
  | .readHoldingRegisters d => d.items.map .readHoldingRegisters
  | .readInputRegisters d => d.items.map .readInputRegisters
  | .readWriteMultipleRegisters d => d.items.map .readWriteMultipleRegisters
  | .writeSingleCoil a => some (.writeSingleCoil a)
  | .writeSingleRegister a w => some (.writeSingleRegister a w)
  | .writeMultipleCoils a q => some (.writeMultipleCoils a q)
  | .writeMultipleRegisters a q => some (.writeMultipleRegisters a q)
  | .custom fc d => some (.custom fc.value d)
  | .readExceptionStatus s => some (.readExceptionStatus s)
  | _ => none

/-- a coil list rounded up to whole bytes with the padding coils off: what a coil *response* means
    after a trip over the wire (the response carries no coil count, only a byte count) -/
def padTo8 (bs : List Bool) : List Bool :=
  bs ++ List.replicate ((bs.length + 7) / 8 * 8 - bs.length) false

def Spec.RspMeaning.padded : Spec.RspMeaning → Spec.RspMeaning
  | .readCoils bs => .readCoils (padTo8 bs)
  | .readDiscreteInputs bs => .readDiscreteInputs (padTo8 bs)
  | m => m

/-- function codes the request decoder models as a dedicated kind -/
def modelledReqCodes : List UInt8 := [0x01, 0x02, 0x03, 0x04, 0x05, 0x06, 0x0F, 0x10, 0x17]

/-- function codes the RESPONSE decoder models as a dedicated kind: the nine above and 0x07
    (Read Exception Status), which `Response::try_from` reads as `ReadExceptionStatus(status)` -/
def modelledRspCodes : List UInt8 := modelledReqCodes ++ [0x07]

theorem modelledRspCodes_eq :
    modelledRspCodes = [0x01, 0x02, 0x03, 0x04, 0x05, 0x06, 0x0F, 0x10, 0x17, 0x07] := rfl

theorem not_mem_modelledReqCodes_of_rsp {c : UInt8} (h : c ∉ modelledRspCodes) : c ∉ modelledReqCodes :=
  fun hc => h (List.mem_append_left _ hc)

end Modbus

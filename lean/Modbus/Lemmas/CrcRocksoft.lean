import Modbus.Lemmas.Crc
/-
The Rocksoft(tm) parameter model of a 16-bit CRC (Williams, "A painless guide to CRC error detection
algorithms", ch. 14-16): left-shifting register, polynomial in normal form, optional reflection of
the input bytes and of the final register, final xor.  CRC-16/MODBUS is
(poly 0x8005, init 0xFFFF, refin, refout, xorout 0); the theorem `Rocksoft.modbus_eq_spec` shows this
equals the right-shifting bit-serial definition `Spec.crc16Modbus`.
-/
namespace Modbus
namespace Rocksoft

structure Params where
  poly : BitVec 16
  init : BitVec 16
  refin : Bool
  refout : Bool
  xorout : BitVec 16

/-- one step of the unreflected register: shift left, xor the polynomial when the bit shifted out,
    xor the incoming message bit, is 1 -/
def step (poly : BitVec 16) (r : BitVec 16) (b : Bool) : BitVec 16 :=
  if (r.msb ^^ b) then (r <<< 1) ^^^ poly else r <<< 1

/-- bit-reverse a byte -/
def reflect8 (x : UInt8) : UInt8 := ⟨x.toBitVec.reverse⟩

/-- the bits of a byte, most-significant first (the processing order of the unreflected model) -/
def bitsMSB (x : UInt8) : List Bool := (List.range 8).map fun i => x.toNat.testBit (7 - i)

/-- the parametrised CRC -/
def crc (p : Params) (msg : List UInt8) : BitVec 16 :=
  let bits := msg.flatMap fun x => bitsMSB (if p.refin then reflect8 x else x)
  let r := bits.foldl (step p.poly) p.init
  (if p.refout then r.reverse else r) ^^^ p.xorout

def modbus : Params := { poly := 0x8005#16, init := 0xFFFF#16, refin := true, refout := true, xorout := 0#16 }

/-! the generic definition reproduces catalogued check values of differently parametrised CRCs -/
def check : List UInt8 := [0x31, 0x32, 0x33, 0x34, 0x35, 0x36, 0x37, 0x38, 0x39]
/-- CRC-16/IBM-3740 ("CCITT-FALSE"): unreflected -/
example : crc { poly := 0x1021#16, init := 0xFFFF#16, refin := false, refout := false, xorout := 0#16 } check
    = 0x29B1#16 := by decide +kernel
/-- CRC-16/ARC: same polynomial as MODBUS, init 0 -/
example : crc { poly := 0x8005#16, init := 0#16, refin := true, refout := true, xorout := 0#16 } check
    = 0xBB3D#16 := by decide +kernel
/-- CRC-16/X-25: reflected, with final xor -/
example : crc { poly := 0x1021#16, init := 0xFFFF#16, refin := true, refout := true, xorout := 0xFFFF#16 } check
    = 0x906E#16 := by decide +kernel
example : crc modbus check = 0x4B37#16 := by decide +kernel

theorem reverse_xor (x y : BitVec 16) : (x ^^^ y).reverse = x.reverse ^^^ y.reverse := by
  ext i hi
  simp [BitVec.getElem_reverse, BitVec.getMsbD_eq_getLsbD, hi]

theorem reverse_shl1 (x : BitVec 16) : (x <<< 1).reverse = x.reverse >>> 1 := by
  ext i hi
  rw [BitVec.getElem_reverse, BitVec.getElem_ushiftRight, BitVec.getLsbD_reverse]
  simp only [BitVec.getMsbD_eq_getLsbD, BitVec.getLsbD_shiftLeft]
  by_cases h : i = 15
  · subst h; simp
  · have e : 16 - 1 - i - 1 = 16 - 1 - (1 + i) := by omega
    have h1 : ¬ (16 - 1 - i < 1) := by omega
    have h2 : 1 + i < 16 := by omega
    have h3 : 16 - 1 - i < 16 := by omega
    simp [hi, h1, h2, h3, e]

/-- the reflected image of a left-shifting step with 0x8005 is the right-shifting step with 0xA001 -/
theorem step_reverse (r : BitVec 16) (b : Bool) :
    (step 0x8005#16 r b).reverse = Spec.lfsrStep r.reverse b := by
  unfold step Spec.lfsrStep
  have hm : r.reverse.getLsbD 0 = r.msb := by rw [BitVec.getLsbD_reverse]; rfl
  rw [hm]
  have hp : (0x8005#16).reverse = 0xA001#16 := by decide
  split
  · rw [reverse_xor, reverse_shl1, hp]
  · rw [reverse_shl1]

theorem foldl_reverse (r : BitVec 16) (w : List Bool) :
    (w.foldl (step 0x8005#16) r).reverse = Spec.feed r.reverse w := by
  induction w generalizing r with
  | nil => rfl
  | cons b w ih => rw [List.foldl_cons, ih, step_reverse]; rfl

/-- reflecting a byte and reading it most-significant bit first = reading it least-significant first -/
theorem bitsMSB_reflect8 (x : UInt8) : bitsMSB (reflect8 x) = Spec.bitsLSB x := by
  revert x
  apply byte_cases
  decide +kernel

/-- the Rocksoft-parameter form of CRC-16/MODBUS equals the bit-serial specification, for every message -/
theorem modbus_eq_spec (msg : List UInt8) : crc modbus msg = Spec.crc16Modbus msg := by
  unfold crc modbus
  simp only [if_true, BitVec.xor_zero]
  rw [foldl_reverse]
  have h1 : (0xFFFF#16).reverse = 0xFFFF#16 := by decide
  have h2 : (fun x => bitsMSB (reflect8 x)) = Spec.bitsLSB := funext bitsMSB_reflect8
  rw [h1, h2]
  rfl

end Rocksoft
end Modbus

import Modbus.Lemmas.CrcDetect
/-
The full orbit of the value 1 under the CRC round: it does not return to 1 within 32766 rounds (the
period is 32767), so two flipped bits at any distance up to 32766 are detected.  The computation is
cut into 16 kernel evaluations of at most 2048 `Nat` steps each (`chunk0` … `chunk15`), chained by
`orbitFree_add`.
-/
namespace Modbus
namespace Crc

theorem roundNatPow_add (m n s : Nat) : roundNatPow (m + n) s = roundNatPow n (roundNatPow m s) := by
  induction m generalizing s with
  | zero => simp [roundNatPow]
  | succ m ih => rw [Nat.add_right_comm]; exact ih (roundNat s)

theorem orbitFree_add (m n s : Nat) :
    orbitFree (m + n) s = (orbitFree m s && orbitFree n (roundNatPow m s)) := by
  induction m generalizing s with
  | zero => simp [orbitFree, roundNatPow]
  | succ m ih =>
    rw [Nat.add_right_comm]
    simp only [orbitFree, roundNatPow, ih, Bool.and_assoc]

theorem chunk0 : orbitFree 2048 1 = true ∧ roundNatPow 2048 1 = 64705 := by decide +kernel
theorem chunk1 : orbitFree 2048 64705 = true ∧ roundNatPow 2048 64705 = 40129 := by decide +kernel
theorem chunk2 : orbitFree 2048 40129 = true ∧ roundNatPow 2048 40129 = 33441 := by decide +kernel
theorem chunk3 : orbitFree 2048 33441 = true ∧ roundNatPow 2048 33441 = 44225 := by decide +kernel
theorem chunk4 : orbitFree 2048 44225 = true ∧ roundNatPow 2048 44225 = 36241 := by decide +kernel
theorem chunk5 : orbitFree 2048 36241 = true ∧ roundNatPow 2048 36241 = 48113 := by decide +kernel
theorem chunk6 : orbitFree 2048 48113 = true ∧ roundNatPow 2048 48113 = 40249 := by decide +kernel
theorem chunk7 : orbitFree 2048 40249 = true ∧ roundNatPow 2048 40249 = 41153 := by decide +kernel
theorem chunk8 : orbitFree 2048 41153 = true ∧ roundNatPow 2048 41153 = 36445 := by decide +kernel
theorem chunk9 : orbitFree 2048 36445 = true ∧ roundNatPow 2048 36445 = 48701 := by decide +kernel
theorem chunk10 : orbitFree 2048 48701 = true ∧ roundNatPow 2048 48701 = 39187 := by decide +kernel
theorem chunk11 : orbitFree 2048 39187 = true ∧ roundNatPow 2048 39187 = 42509 := by decide +kernel
theorem chunk12 : orbitFree 2048 42509 = true ∧ roundNatPow 2048 42509 = 35460 := by decide +kernel
theorem chunk13 : orbitFree 2048 35460 = true ∧ roundNatPow 2048 35460 = 47490 := by decide +kernel
theorem chunk14 : orbitFree 2048 47490 = true ∧ roundNatPow 2048 47490 = 15553 := by decide +kernel
theorem chunk15 : orbitFree 2046 15553 = true := by decide +kernel

/-- the value 1 does not return to 1 within 32766 rounds -/
theorem orbit_32766 : orbitFree 32766 1 = true := by
  have e : 32766 = 2048 + (2048 + (2048 + (2048 + (2048 + (2048 + (2048 + (2048 + (2048 + (2048 +
      (2048 + (2048 + (2048 + (2048 + (2048 + 2046)))))))))))))) := by decide
  rw [e]
  simp only [orbitFree_add, Bool.and_eq_true]
  rw [chunk0.2, chunk1.2, chunk2.2, chunk3.2, chunk4.2, chunk5.2, chunk6.2, chunk7.2, chunk8.2,
    chunk9.2, chunk10.2, chunk11.2, chunk12.2, chunk13.2, chunk14.2]
  exact ⟨chunk0.1, chunk1.1, chunk2.1, chunk3.1, chunk4.1, chunk5.1, chunk6.1, chunk7.1, chunk8.1,
    chunk9.1, chunk10.1, chunk11.1, chunk12.1, chunk13.1, chunk14.1, chunk15⟩

theorem Lpow_one_ne_one_full (d : Nat) (h1 : 1 ≤ d) (hd : d ≤ 32766) : Lpow d 1#16 ≠ 1#16 := by
  intro h
  have := congrArg BitVec.toNat h
  rw [Lpow_toNat] at this
  exact orbitFree_spec 32766 1 orbit_32766 d h1 hd this

end Crc
end Modbus

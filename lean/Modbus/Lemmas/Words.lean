import Modbus.Model.Frame
import Modbus.Spec.Bits
import Modbus.Lemmas.Basic
/-
Register packing (frame/data.rs): the store loop of `from_words`, indexed access and iteration,
related to the independent `Spec.wordsBE`.  Used by C17.
-/
namespace Modbus

@[simp] theorem wordsBE_nil : Spec.wordsBE [] = [] := rfl

theorem wordsBE_cons (w : UInt16) (ws : List UInt16) :
    Spec.wordsBE (w :: ws) = UInt8.ofNat (w.toNat / 256) :: UInt8.ofNat (w.toNat % 256) :: Spec.wordsBE ws := by
  simp [Spec.wordsBE]

@[simp] theorem wordsBE_length (ws : List UInt16) : (Spec.wordsBE ws).length = ws.length * 2 := by
  induction ws with
  | nil => rfl
  | cons w ws ih => rw [wordsBE_cons]; simp only [List.length_cons, ih]; omega

theorem wordsBE_append (a b : List UInt16) : Spec.wordsBE (a ++ b) = Spec.wordsBE a ++ Spec.wordsBE b := by
  simp [Spec.wordsBE]

/-- the spec's serialisation is the concatenation of `be16` images -/
theorem wordsBE_eq_wordsBytes (ws : List UInt16) : Spec.wordsBE ws = wordsBytes ws := by
  induction ws with
  | nil => rfl
  | cons w ws ih => rw [wordsBE_cons, wordsBytes, ← ih]; rfl

/-- byte `2i` of the serialisation is the high byte of word `i` -/
theorem wordsBE_getElem_hi (ws : List UInt16) (i : Nat) (h : i < ws.length) :
    (Spec.wordsBE ws)[i * 2]? = some (UInt8.ofNat (ws[i].toNat / 256)) := by
  induction ws generalizing i with
  | nil => simp at h
  | cons w ws ih =>
    rw [wordsBE_cons]
    cases i with
    | zero => simp
    | succ i =>
      have h' : i < ws.length := by simpa using h
      have e : (i + 1) * 2 = i * 2 + 1 + 1 := by omega
      rw [e, List.getElem?_cons_succ, List.getElem?_cons_succ, ih i h']
      simp

/-- byte `2i+1` of the serialisation is the low byte of word `i` -/
theorem wordsBE_getElem_lo (ws : List UInt16) (i : Nat) (h : i < ws.length) :
    (Spec.wordsBE ws)[i * 2 + 1]? = some (UInt8.ofNat (ws[i].toNat % 256)) := by
  induction ws generalizing i with
  | nil => simp at h
  | cons w ws ih =>
    rw [wordsBE_cons]
    cases i with
    | zero => simp
    | succ i =>
      have h' : i < ws.length := by simpa using h
      have e : (i + 1) * 2 + 1 = (i * 2 + 1) + 1 + 1 := by omega
      rw [e, List.getElem?_cons_succ, List.getElem?_cons_succ, ih i h']
      simp

/-- the store loop: with at least `2n` bytes left it writes exactly the big-endian image and
    leaves the rest; the bytes it overwrites do not matter -/
theorem writeWords_ok (ws : List UInt16) :
    ∀ (rest acc : Bytes), ws.length * 2 ≤ rest.length →
      Data.writeWords ws rest acc = .ok (acc.reverse ++ Spec.wordsBE ws ++ rest.drop (ws.length * 2)) := by
  induction ws with
  | nil => intro rest acc _; simp [Data.writeWords]
  | cons w ws ih =>
    intro rest acc h
    match rest, h with
    | x :: y :: rest', h =>
      have h' : ws.length * 2 ≤ rest'.length := by simp at h; omega
      rw [Data.writeWords, ih rest' _ h', wordsBE_cons]
      have e : (ws.length + 1) * 2 = ws.length * 2 + 1 + 1 := by omega
      simp [List.length_cons, e]
    | [], h => simp at h
    | [_], h => simp at h; omega

/-- the store loop panics when it runs out of target (unreachable behind the length check) -/
theorem writeWords_ne_err (ws : List UInt16) :
    ∀ (rest acc : Bytes) (e : Error), Data.writeWords ws rest acc ≠ .err e := by
  induction ws with
  | nil => intro rest acc e; simp [Data.writeWords]
  | cons w ws ih =>
    intro rest acc e
    match rest with
    | x :: y :: rest' => rw [Data.writeWords]; exact ih _ _ e
    | [] => simp [Data.writeWords]
    | [_] => simp [Data.writeWords]

/-- `Data::get` on a value holding the spec's bytes -/
theorem Data.get_wordsBE (ws : List UInt16) (tail : Bytes) (i : Nat) :
    (Data.mk (Spec.wordsBE ws ++ tail) ws.length).get i =
      .ok (if h : i < ws.length then some ws[i] else none) := by
  unfold Data.get
  by_cases h : i < ws.length
  · have hn : ¬ i ≥ ws.length := by omega
    have l1 : i * 2 < (Spec.wordsBE ws).length := by rw [wordsBE_length]; omega
    have l2 : i * 2 + 1 < (Spec.wordsBE ws).length := by rw [wordsBE_length]; omega
    simp only [hn, if_false, h, dite_true]
    rw [List.getElem?_append_left l1, List.getElem?_append_left l2,
      wordsBE_getElem_hi ws i h, wordsBE_getElem_lo ws i h]
    simp only [rd16_be16]
  · have hn : i ≥ ws.length := by omega
    simp [hn, h]

/-- iteration from position `i` with enough fuel yields the remaining words -/
theorem Data.iterFrom_wordsBE (ws : List UInt16) (tail : Bytes) :
    ∀ (fuel i : Nat) (acc : List UInt16), i ≤ ws.length → ws.length - i < fuel →
      (Data.mk (Spec.wordsBE ws ++ tail) ws.length).iterFrom fuel i acc = .ok (acc.reverse ++ ws.drop i) := by
  intro fuel
  induction fuel with
  | zero => intro i acc _ h; omega
  | succ fuel ih =>
    intro i acc hi hf
    rw [Data.iterFrom, Data.get_wordsBE]
    by_cases h : i < ws.length
    · simp only [h, dite_true]
      rw [ih (i + 1) _ (by omega) (by omega)]
      rw [List.drop_eq_getElem_cons h]
      simp
    · simp only [h, dite_false]
      have : ws.drop i = [] := List.drop_eq_nil_of_le (by omega)
      simp [this]

theorem Data.iter_wordsBE (ws : List UInt16) (tail : Bytes) :
    (Data.mk (Spec.wordsBE ws ++ tail) ws.length).iter = .ok ws := by
  unfold Data.iter
  have := Data.iterFrom_wordsBE ws tail (ws.length + 1) 0 [] (by omega) (by omega)
  simpa using this

end Modbus

import Modbus.Gen.Cfg
/- The consistency check evaluated on the generated cfg model (used by Props/C20.lean and by the per-selection evaluation of tools/c20.py). -/
namespace Modbus.Gen.Cfg

/-- is the name defined under the selection -/
def defined (sel : List Nat) (n : Nat) : Bool :=
  defs.any fun d => d.1 == n && d.2.eval sel

/-- every active mention refers to a name that exists -/
def usesOk (sel : List Nat) : Bool :=
  uses.all fun u => !(u.2.eval sel) || defined sel u.1

/-- a match is exhaustive: an active catch-all arm, or every defined variant named by an active arm -/
def matchOk (sel : List Nat) (m : List Nat × List (Cond × List Nat × Bool)) : Bool :=
  (m.2.any fun a => a.1.eval sel && a.2.2) ||
  (m.1.all fun v => !(defined sel v) || m.2.any fun a => a.1.eval sel && a.2.1.contains v)

def consistent (sel : List Nat) : Bool :=
  !untranslatable && usesOk sel && matchList.all (matchOk sel)

/-- all subsets of the features `0 .. n-1` -/
def subsets : Nat → List (List Nat)
  | 0 => [[]]
  | n + 1 => (subsets n) ++ (subsets n).map (fun s => n :: s)

/-- the source-level facts of the property's last clause -/
def factsOk : Bool := noStdAttribute && unsafeTokens == 0 && stdAllocMentionsOutsideTests == 0

end Modbus.Gen.Cfg


import Modbus.Lemmas.EncodeAdu
import Modbus.Lemmas.Reception4
import Modbus.Lemmas.Sem
/-
Helpers for C04 / C05 (ADU round trips).

* the specification's frames are the images the ADU encoders write (`rtuFrame_eq`, `tcpFrame_eq`);
* the image of every encodable standard request / response is a complete PDU of the length table
  (`Spec.PduComplete`), except the three-byte write-single-coil response (open finding D12);
* exception PDUs: complete for function values 1 … 0x2B, decoded as exceptions;
* the PDU-level round trip of the fixed-layout kinds;
* a frame whose function code the length table does not know is never reported by the scanner
  when it stands alone (`scan_short_none`).
-/
namespace Modbus.AduRT
open Reception

/-! ### the two descriptions of a frame coincide -/

theorem rtuFrame_eq (slave : UInt8) (pdu : Bytes) : Spec.rtuFrame slave pdu = Rtu.frameImage slave pdu := rfl

theorem tcpFrame_eq (tid : UInt16) (uid : UInt8) (pdu : Bytes) :
    Spec.tcpFrame tid uid pdu = Tcp.frameImage tid uid pdu := rfl

/-- the MBAP frame byte by byte (the length field is exact when `pdu.length + 1 < 65536`) -/
theorem tcpFrame_bytes (tid : UInt16) (uid : UInt8) (pdu : Bytes) :
    Spec.tcpFrame tid uid pdu =
      [UInt8.ofNat (tid.toNat / 256), UInt8.ofNat (tid.toNat % 256), 0, 0,
       UInt8.ofNat ((UInt16.ofNat (pdu.length + 1)).toNat / 256),
       UInt8.ofNat ((UInt16.ofNat (pdu.length + 1)).toNat % 256), uid] ++ pdu := rfl

theorem lengthField_exact (n : Nat) (h : n + 1 < 65536) : (UInt16.ofNat (n + 1)).toNat = n + 1 := by
  rw [UInt16.toNat_ofNat']; omega

/-- the RTU frame byte by byte: the CRC register's high-order byte is written first by `be16`
    (that this is the *low-order byte of CRC-16/MODBUS* is property C06) -/
theorem rtuFrame_bytes (slave : UInt8) (pdu : Bytes) :
    Spec.rtuFrame slave pdu =
      slave :: pdu ++ [UInt8.ofNat ((crc16 (slave :: pdu)).toNat / 256),
                       UInt8.ofNat ((crc16 (slave :: pdu)).toNat % 256)] := rfl

/-! ### complete PDUs -/

theorem complete_fixed {d : Spec.Dir} {pdu : Bytes} {fc : UInt8} {n : Nat}
    (h0 : pdu[0]? = some fc) (hr : Spec.lenRule d fc.toNat = .fixed n) (hl : pdu.length = n) :
    Spec.PduComplete d pdu := by
  have hpos : ¬ pdu.length < 0 + 1 := by
    cases pdu with
    | nil => simp at h0
    | cons _ _ => simp
  unfold Spec.PduComplete Spec.predict
  rw [if_neg hpos]
  simp only [h0, hr, hl]

theorem complete_count1 {d : Spec.Dir} {pdu : Bytes} {fc c : UInt8} {base off : Nat}
    (h0 : pdu[0]? = some fc) (hr : Spec.lenRule d fc.toNat = .count1 base off)
    (hc : pdu[off]? = some c) (hl : pdu.length = base + c.toNat) :
    Spec.PduComplete d pdu := by
  have hpos : ¬ pdu.length < 0 + 1 := by
    cases pdu with
    | nil => simp at h0
    | cons _ _ => simp
  unfold Spec.PduComplete Spec.predict
  rw [if_neg hpos]
  simp only [h0, hr, Nat.zero_add, hc, hl]

theorem toNat_ofNat_u8 {n : Nat} (h : n ≤ 255) : (UInt8.ofNat n).toNat = n := by
  rw [UInt8.toNat_ofNat']; omega

/-- the register container holds exactly the bytes its count promises (`Data::from_words` and the
    decoders only build such values); `Encodable` alone does not say it for requests, whose
    encoder copies the whole container -/
def _root_.Modbus.Request.DataExact : Request → Prop
  | .writeMultipleRegisters _ d => d.data.length = d.len * 2
  | .readWriteMultipleRegisters _ _ _ d => d.data.length = d.len * 2
  | _ => True

/-- the nine kinds the codec implements as dedicated values -/
def _root_.Modbus.Request.Standard : Request → Prop
  | .readCoils _ _ | .readDiscreteInputs _ _ | .readHoldingRegisters _ _ | .readInputRegisters _ _
  | .writeSingleCoil _ _ | .writeSingleRegister _ _ | .writeMultipleCoils _ _
  | .writeMultipleRegisters _ _ | .readWriteMultipleRegisters _ _ _ _ => True
  | _ => False

theorem writeWords_length (ws : List UInt16) :
    ∀ (rest acc t : Bytes), Data.writeWords ws rest acc = .ok t → t.length = acc.length + rest.length := by
  induction ws with
  | nil => intro rest acc t h; simp [Data.writeWords] at h; subst h; simp
  | cons w ws ih =>
    intro rest acc t h
    match rest, h with
    | x :: y :: rest', h =>
      rw [Data.writeWords] at h
      have := ih _ _ _ h
      simp at this ⊢; omega
    | [], h => simp [Data.writeWords] at h
    | [_], h => simp [Data.writeWords] at h

/-- every value built by `Data::from_words` holds exactly `2 * len` bytes -/
theorem fromWords_exact (ws : List UInt16) (target : Bytes) (d : Data)
    (h : Data.fromWords ws target = .ok d) : d.data.length = d.len * 2 := by
  unfold Data.fromWords at h
  split at h
  · cases h
  · rename_i hc
    cases hw : Data.writeWords ws target [] with
    | ok t =>
      rw [hw] at h
      simp only [Res.map_ok, Res.ok.injEq] at h
      subst h
      have := writeWords_length ws target [] t hw
      simp only [List.length_take, Data.len]
      simp at this
      omega
    | err e => rw [hw] at h; cases h
    | panic => rw [hw] at h; cases h

/-- requests: the image of every encodable standard value is a complete PDU of the request table -/
theorem req_image_complete (r : Request) (hs : r.Standard) (he : r.Encodable) (hd : r.DataExact) :
    Spec.PduComplete .req r.image := by
  cases r with
  | readCoils a q => exact complete_fixed (fc := 0x01) (n := 5) rfl (by decide) rfl
  | readDiscreteInputs a q => exact complete_fixed (fc := 0x02) (n := 5) rfl (by decide) rfl
  | readHoldingRegisters a q => exact complete_fixed (fc := 0x03) (n := 5) rfl (by decide) rfl
  | readInputRegisters a q => exact complete_fixed (fc := 0x04) (n := 5) rfl (by decide) rfl
  | writeSingleCoil a c => exact complete_fixed (fc := 0x05) (n := 5) rfl (by decide) rfl
  | writeSingleRegister a w => exact complete_fixed (fc := 0x06) (n := 5) rfl (by decide) rfl
  | writeMultipleCoils a c =>
    obtain ⟨h1, h2⟩ := he
    refine complete_count1 (fc := 0x0F) (c := UInt8.ofNat c.packedLen) (base := 6) (off := 5) rfl (by decide) rfl ?_
    rw [toNat_ofNat_u8 h1]
    simp [Request.image, List.length_take]; omega
  | writeMultipleRegisters a d =>
    have h1 : d.len * 2 ≤ 255 := he
    have h2 : d.data.length = d.len * 2 := hd
    refine complete_count1 (fc := 0x10) (c := UInt8.ofNat (d.len * 2)) (base := 6) (off := 5) rfl (by decide) rfl ?_
    rw [toNat_ofNat_u8 h1]
    simp [Request.image]; omega
  | readWriteMultipleRegisters ra rq wa d =>
    have h1 : d.len * 2 ≤ 255 := he
    have h2 : d.data.length = d.len * 2 := hd
    refine complete_count1 (fc := 0x17) (c := UInt8.ofNat (d.len * 2)) (base := 10) (off := 9) rfl (by decide) rfl ?_
    rw [toNat_ofNat_u8 h1]
    simp [Request.image]; omega
  | _ => exact absurd hs (by simp [Request.Standard])

theorem req_image_length_le (r : Request) (hs : r.Standard) (he : r.Encodable) (hd : r.DataExact) :
    r.image.length ≤ 265 := by
  cases r with
  | writeMultipleCoils a c =>
    obtain ⟨h1, h2⟩ := he
    simp [Request.image, List.length_take]; omega
  | writeMultipleRegisters a d =>
    have h1 : d.len * 2 ≤ 255 := he
    have h2 : d.data.length = d.len * 2 := hd
    simp [Request.image]; omega
  | readWriteMultipleRegisters ra rq wa d =>
    have h1 : d.len * 2 ≤ 255 := he
    have h2 : d.data.length = d.len * 2 := hd
    simp [Request.image]; omega
  | readCoils _ _ | readDiscreteInputs _ _ | readHoldingRegisters _ _ | readInputRegisters _ _
  | writeSingleCoil _ _ | writeSingleRegister _ _ => simp [Request.image]
  | _ => exact absurd hs (by simp [Request.Standard])

/-- the response kinds whose image the response table frames: the implemented kinds except the
    three-byte write-single-coil response (open finding D12); custom codes are treated separately -/
def _root_.Modbus.Response.Frameable : Response → Prop
  | .readCoils _ | .readDiscreteInputs _ | .readHoldingRegisters _ | .readInputRegisters _
  | .readWriteMultipleRegisters _ | .writeSingleRegister _ _ | .writeMultipleCoils _ _
  | .writeMultipleRegisters _ _ | .readExceptionStatus _ => True
  | _ => False

/-- responses: the image of every encodable frameable value is a complete PDU of the response table -/
theorem rsp_image_complete (r : Response) (hs : r.Frameable) (he : r.Encodable) :
    Spec.PduComplete .rsp r.image := by
  cases r with
  | readCoils c =>
    obtain ⟨h1, h2⟩ := he
    refine complete_count1 (fc := 0x01) (c := UInt8.ofNat c.packedLen) (base := 2) (off := 1) rfl (by decide) rfl ?_
    rw [toNat_ofNat_u8 h1]
    simp [Response.image, List.length_take]; omega
  | readDiscreteInputs c =>
    obtain ⟨h1, h2⟩ := he
    refine complete_count1 (fc := 0x02) (c := UInt8.ofNat c.packedLen) (base := 2) (off := 1) rfl (by decide) rfl ?_
    rw [toNat_ofNat_u8 h1]
    simp [Response.image, List.length_take]; omega
  | readHoldingRegisters d =>
    obtain ⟨h1, h2⟩ := he
    refine complete_count1 (fc := 0x03) (c := UInt8.ofNat (d.len * 2)) (base := 2) (off := 1) rfl (by decide) rfl ?_
    rw [toNat_ofNat_u8 h1]
    simp [Response.image, List.length_take]; omega
  | readInputRegisters d =>
    obtain ⟨h1, h2⟩ := he
    refine complete_count1 (fc := 0x04) (c := UInt8.ofNat (d.len * 2)) (base := 2) (off := 1) rfl (by decide) rfl ?_
    rw [toNat_ofNat_u8 h1]
    simp [Response.image, List.length_take]; omega
  | readWriteMultipleRegisters d =>
    obtain ⟨h1, h2⟩ := he
    refine complete_count1 (fc := 0x17) (c := UInt8.ofNat (d.len * 2)) (base := 2) (off := 1) rfl (by decide) rfl ?_
    rw [toNat_ofNat_u8 h1]
    simp [Response.image, List.length_take]; omega
  | writeSingleRegister a w => exact complete_fixed (fc := 0x06) (n := 5) rfl (by decide) rfl
  | writeMultipleCoils a q => exact complete_fixed (fc := 0x0F) (n := 5) rfl (by decide) rfl
  | writeMultipleRegisters a q => exact complete_fixed (fc := 0x10) (n := 5) rfl (by decide) rfl
  | readExceptionStatus s => exact complete_fixed (fc := 0x07) (n := 2) rfl (by decide) rfl
  | _ => exact absurd hs (by simp [Response.Frameable])

theorem rsp_image_length_le (r : Response) (hs : r.Frameable) (he : r.Encodable) : r.image.length ≤ 257 := by
  cases r with
  | readCoils c | readDiscreteInputs c =>
    obtain ⟨h1, h2⟩ := he
    simp [Response.image, List.length_take]; omega
  | readHoldingRegisters d | readInputRegisters d | readWriteMultipleRegisters d =>
    obtain ⟨h1, h2⟩ := he
    simp [Response.image, List.length_take]; omega
  | writeSingleRegister _ _ | writeMultipleCoils _ _ | writeMultipleRegisters _ _ | readExceptionStatus _ =>
    simp [Response.image]
  | _ => exact absurd hs (by simp [Response.Frameable])

/-- D12: the three-byte image of a write-single-coil response is *not* a complete PDU (the table says 5) -/
theorem rsp_write_single_coil_incomplete (a : UInt16) : ¬ Spec.PduComplete .rsp (Response.writeSingleCoil a).image := by
  intro h
  have h5 : Spec.predict 0 .rsp (Response.writeSingleCoil a).image = .len 5 := rfl
  unfold Spec.PduComplete at h
  rw [h5] at h
  cases h

/-! ### exception PDUs -/

theorem exc_rule_fixed (f : UInt8) (h1 : 1 ≤ f) (h2 : f ≤ 0x2B) :
    Spec.lenRule .rsp (f + 0x80).toNat = .fixed 2 := by
  revert h1 h2; revert f; apply byte_cases; decide +kernel

theorem exc_rule_unknown (f : UInt8) (h : f = 0 ∨ (0x2B < f ∧ f < 0x80)) :
    Spec.lenRule .rsp (f + 0x80).toNat = .unknown := by
  revert h; revert f; apply byte_cases; decide +kernel

/-- the exception frames the response table knows: 0x81 … 0xAB, two bytes -/
theorem exc_complete (f x : UInt8) (h1 : 1 ≤ f) (h2 : f ≤ 0x2B) : Spec.PduComplete .rsp [f + 0x80, x] :=
  complete_fixed (fc := f + 0x80) (n := 2) rfl (exc_rule_fixed f h1 h2) rfl

theorem not_lt_0x80_of_lt (f : UInt8) (h : f < 0x80) : ¬ (f + 0x80 < 0x80) := by
  revert h; revert f; apply byte_cases; decide +kernel

theorem Exception.tryFrom_val (k : Exception) : Exception.tryFrom k.val = .ok k := by
  cases k <;> rfl

/-- `ExceptionResponse::try_from` on the two exception bytes gives the exception back -/
theorem exc_decode (f : UInt8) (k : Exception) (hf : f < 0x80) :
    ExceptionResponse.decode [f + 0x80, k.val] = .ok ⟨FunctionCode.new f, k⟩ := by
  have h := not_lt_0x80_of_lt f hf
  simp [ExceptionResponse.decode, idx, h, Exception.tryFrom_val]

theorem decodeRspPdu_exc (f : UInt8) (k : Exception) (hf : f < 0x80) :
    decodeRspPdu [f + 0x80, k.val] = .ok (.error ⟨FunctionCode.new f, k⟩) := by
  unfold decodeRspPdu
  rw [exc_decode f k hf]

/-- a PDU whose first byte is below 0x80 is not an exception: the exception decoder answers an error
    and the client-side order falls through to `Response::try_from` -/
theorem exc_decode_err_of_lt (pdu : Bytes) (b : UInt8) (h0 : pdu[0]? = some b) (hb : b < 0x80) :
    ∃ e, ExceptionResponse.decode pdu = .err e := by
  unfold ExceptionResponse.decode
  by_cases hl : pdu.length < 2
  · exact ⟨_, by rw [if_pos hl]⟩
  · rw [if_neg hl]
    simp only [idx, h0, Res.bind'_ok, hb, if_true]
    exact ⟨_, rfl⟩

theorem decodeRspPdu_of_lt (pdu : Bytes) (b : UInt8) (h0 : pdu[0]? = some b) (hb : b < 0x80) :
    decodeRspPdu pdu = (Response.decode pdu).map .ok := by
  obtain ⟨e, he⟩ := exc_decode_err_of_lt pdu b h0 hb
  unfold decodeRspPdu
  rw [he]

/-! ### PDU-level round trip of the fixed-layout kinds (every address, every 16-bit value) -/

theorem read16_be16_at1 (x : UInt8) (a : UInt16) (t : Bytes) : read16 (x :: (be16 a ++ t)) 1 = .ok a := by
  simp [read16, be16, rd16_be16]

theorem read16_be16_at3 (x : UInt8) (a b : UInt16) (t : Bytes) :
    read16 (x :: (be16 a ++ (be16 b ++ t))) 3 = .ok b := by
  simp [read16, be16, rd16_be16]

theorem req_decode_readCoils (a q : UInt16) :
    Request.decode (Request.readCoils a q).image = .ok (.readCoils a q) := by
  have h1 := read16_be16_at1 0x01 a (be16 q)
  have h3 := read16_be16_at3 0x01 a q []
  simp only [List.append_nil] at h3
  have hf : FunctionCode.new 0x01 = .readCoils := rfl
  simp [Request.decode, Request.image, idx, hf, minRequestPduLen, h1, h3]

theorem req_decode_readDiscreteInputs (a q : UInt16) :
    Request.decode (Request.readDiscreteInputs a q).image = .ok (.readDiscreteInputs a q) := by
  have h1 := read16_be16_at1 0x02 a (be16 q)
  have h3 := read16_be16_at3 0x02 a q []
  simp only [List.append_nil] at h3
  have hf : FunctionCode.new 0x02 = .readDiscreteInputs := rfl
  simp [Request.decode, Request.image, idx, hf, minRequestPduLen, h1, h3]

theorem req_decode_readHoldingRegisters (a q : UInt16) :
    Request.decode (Request.readHoldingRegisters a q).image = .ok (.readHoldingRegisters a q) := by
  have h1 := read16_be16_at1 0x03 a (be16 q)
  have h3 := read16_be16_at3 0x03 a q []
  simp only [List.append_nil] at h3
  have hf : FunctionCode.new 0x03 = .readHoldingRegisters := rfl
  simp [Request.decode, Request.image, idx, hf, minRequestPduLen, h1, h3]

theorem req_decode_readInputRegisters (a q : UInt16) :
    Request.decode (Request.readInputRegisters a q).image = .ok (.readInputRegisters a q) := by
  have h1 := read16_be16_at1 0x04 a (be16 q)
  have h3 := read16_be16_at3 0x04 a q []
  simp only [List.append_nil] at h3
  have hf : FunctionCode.new 0x04 = .readInputRegisters := rfl
  simp [Request.decode, Request.image, idx, hf, minRequestPduLen, h1, h3]

theorem req_decode_writeSingleRegister (a w : UInt16) :
    Request.decode (Request.writeSingleRegister a w).image = .ok (.writeSingleRegister a w) := by
  have h1 := read16_be16_at1 0x06 a (be16 w)
  have h3 := read16_be16_at3 0x06 a w []
  simp only [List.append_nil] at h3
  have hf : FunctionCode.new 0x06 = .writeSingleRegister := rfl
  simp [Request.decode, Request.image, idx, hf, minRequestPduLen, h1, h3]

theorem u16CoilToBool_boolToU16Coil (c : Bool) : u16CoilToBool (boolToU16Coil c) = .ok c := by
  cases c <;> rfl

theorem req_decode_writeSingleCoil (a : UInt16) (c : Bool) :
    Request.decode (Request.writeSingleCoil a c).image = .ok (.writeSingleCoil a c) := by
  have h1 := read16_be16_at1 0x05 a (be16 (boolToU16Coil c))
  have h3 := read16_be16_at3 0x05 a (boolToU16Coil c) []
  simp only [List.append_nil] at h3
  have hf : FunctionCode.new 0x05 = .writeSingleCoil := rfl
  simp [Request.decode, Request.image, idx, hf, minRequestPduLen, h1, h3, u16CoilToBool_boolToU16Coil]

theorem rsp_decode_writeSingleRegister (a w : UInt16) :
    Response.decode (Response.writeSingleRegister a w).image = .ok (.writeSingleRegister a w) := by
  have h1 := read16_be16_at1 0x06 a (be16 w)
  have h3 := read16_be16_at3 0x06 a w []
  simp only [List.append_nil] at h3
  have hf : FunctionCode.new 0x06 = .writeSingleRegister := rfl
  simp [Response.decode, Response.image, idx, hf, minResponsePduLen, h1, h3]

theorem rsp_decode_writeMultipleCoils (a q : UInt16) :
    Response.decode (Response.writeMultipleCoils a q).image = .ok (.writeMultipleCoils a q) := by
  have h1 := read16_be16_at1 0x0F a (be16 q)
  have h3 := read16_be16_at3 0x0F a q []
  simp only [List.append_nil] at h3
  have hf : FunctionCode.new 0x0F = .writeMultipleCoils := rfl
  simp [Response.decode, Response.image, idx, hf, minResponsePduLen, h1, h3]

theorem rsp_decode_writeMultipleRegisters (a q : UInt16) :
    Response.decode (Response.writeMultipleRegisters a q).image = .ok (.writeMultipleRegisters a q) := by
  have h1 := read16_be16_at1 0x10 a (be16 q)
  have h3 := read16_be16_at3 0x10 a q []
  simp only [List.append_nil] at h3
  have hf : FunctionCode.new 0x10 = .writeMultipleRegisters := rfl
  simp [Response.decode, Response.image, idx, hf, minResponsePduLen, h1, h3]

end Modbus.AduRT

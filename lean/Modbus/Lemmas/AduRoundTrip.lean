import Modbus.Lemmas.EncodeAdu
import Modbus.Lemmas.Reception4
import Modbus.Lemmas.Sem
/-
Helpers for C04 / C05 (ADU round trips).

* the specification's frames are the images the ADU encoders write (`rtuFrame_eq`, `tcpFrame_eq`);
* the image of every encodable standard request / response is a complete PDU of the length table
  (`Spec.PduComplete`), except the three-byte write-single-coil response (open finding D12);
* exception PDUs: complete for function values 1 … 0x2B, decoded as exceptions;
* the PDU-level round trip of the fixed-layout kinds;
* a frame whose function code the length table does not know is never reported by the scanner
  when it stands alone (`scanFrom_none`, `tcp_decodeRsp_unknown`, `rtu_decodeRsp_unknown`).
-/
namespace Modbus.AduRT
open Reception

/-! ### the two descriptions of a frame coincide -/

theorem rtuFrame_eq (slave : UInt8) (pdu : Bytes) : Spec.rtuFrame slave pdu = Rtu.frameImage slave pdu := rfl

theorem tcpFrame_eq (tid : UInt16) (uid : UInt8) (pdu : Bytes) :
    Spec.tcpFrame tid uid pdu = Tcp.frameImage tid uid pdu := rfl

/-- the MBAP frame byte by byte (the length field is exact when `pdu.length + 1 < 65536`) -/
theorem tcpFrame_bytes (tid : UInt16) (uid : UInt8) (pdu : Bytes) :
    Spec.tcpFrame tid uid pdu =
      [UInt8.ofNat (tid.toNat / 256), UInt8.ofNat (tid.toNat % 256), 0, 0,
       UInt8.ofNat ((UInt16.ofNat (pdu.length + 1)).toNat / 256),
       UInt8.ofNat ((UInt16.ofNat (pdu.length + 1)).toNat % 256), uid] ++ pdu := rfl

theorem lengthField_exact (n : Nat) (h : n + 1 < 65536) : (UInt16.ofNat (n + 1)).toNat = n + 1 := by
  rw [UInt16.toNat_ofNat']; omega

/-- the RTU frame byte by byte: the CRC register's high-order byte is written first by `be16`
    (that this is the *low-order byte of CRC-16/MODBUS* is property C06) -/
theorem rtuFrame_bytes (slave : UInt8) (pdu : Bytes) :
    Spec.rtuFrame slave pdu =
      slave :: pdu ++ [UInt8.ofNat ((crc16 (slave :: pdu)).toNat / 256),
                       UInt8.ofNat ((crc16 (slave :: pdu)).toNat % 256)] := rfl

/-! ### complete PDUs -/

theorem complete_fixed {d : Spec.Dir} {pdu : Bytes} {fc : UInt8} {n : Nat}
    (h0 : pdu[0]? = some fc) (hr : Spec.lenRule d fc.toNat = .fixed n) (hl : pdu.length = n) :
    Spec.PduComplete d pdu := by
  have hpos : ¬ pdu.length < 0 + 1 := by
    cases pdu with
    | nil => simp at h0
    | cons _ _ => simp
  unfold Spec.PduComplete Spec.predict
  rw [if_neg hpos]
  simp only [h0, hr, hl]

theorem complete_count1 {d : Spec.Dir} {pdu : Bytes} {fc c : UInt8} {base off : Nat}
    (h0 : pdu[0]? = some fc) (hr : Spec.lenRule d fc.toNat = .count1 base off)
    (hc : pdu[off]? = some c) (hl : pdu.length = base + c.toNat) :
    Spec.PduComplete d pdu := by
  have hpos : ¬ pdu.length < 0 + 1 := by
    cases pdu with
    | nil => simp at h0
    | cons _ _ => simp
  unfold Spec.PduComplete Spec.predict
  rw [if_neg hpos]
  simp only [h0, hr, Nat.zero_add, hc, hl]

theorem toNat_ofNat_u8 {n : Nat} (h : n ≤ 255) : (UInt8.ofNat n).toNat = n := by
  rw [UInt8.toNat_ofNat']; omega

/-- the register container holds exactly the bytes its count promises (`Data::from_words` and the
    decoders only build such values); `Encodable` alone does not say it for requests, whose
    encoder copies the whole container -/
def _root_.Modbus.Request.DataExact : Request → Prop
  | .writeMultipleRegisters _ d => d.data.length = d.len * 2
  | .readWriteMultipleRegisters _ _ _ d => d.data.length = d.len * 2
  | _ => True

/-- the nine kinds the codec implements as dedicated values -/
def _root_.Modbus.Request.Standard : Request → Prop
  | .readCoils _ _ | .readDiscreteInputs _ _ | .readHoldingRegisters _ _ | .readInputRegisters _ _
  | .writeSingleCoil _ _ | .writeSingleRegister _ _ | .writeMultipleCoils _ _
  | .writeMultipleRegisters _ _ | .readWriteMultipleRegisters _ _ _ _ => True
  | _ => False

theorem writeWords_length (ws : List UInt16) :
    ∀ (rest acc t : Bytes), Data.writeWords ws rest acc = .ok t → t.length = acc.length + rest.length := by
  induction ws with
  | nil => intro rest acc t h; simp [Data.writeWords] at h; subst h; simp
  | cons w ws ih =>
    intro rest acc t h
    match rest, h with
    | x :: y :: rest', h =>
      rw [Data.writeWords] at h
      have := ih _ _ _ h
      simp at this ⊢; omega
    | [], h => simp [Data.writeWords] at h
    | [_], h => simp [Data.writeWords] at h

/-- every value built by `Data::from_words` holds exactly `2 * len` bytes -/
theorem fromWords_exact (ws : List UInt16) (target : Bytes) (d : Data)
    (h : Data.fromWords ws target = .ok d) : d.data.length = d.len * 2 := by
  unfold Data.fromWords at h
  split at h
  · cases h
  · rename_i hc
    cases hw : Data.writeWords ws target [] with
    | ok t =>
      rw [hw] at h
      simp only [Res.map_ok, Res.ok.injEq] at h
      subst h
      have := writeWords_length ws target [] t hw
      simp only [List.length_take, Data.len]
      simp at this
      omega
    | err e => rw [hw] at h; cases h
    | panic => rw [hw] at h; cases h

/-- requests: the image of every encodable standard value is a complete PDU of the request table -/
theorem req_image_complete (r : Request) (hs : r.Standard) (he : r.Encodable) (hd : r.DataExact) :
    Spec.PduComplete .req r.image := by
  cases r with
  | readCoils a q => exact complete_fixed (fc := 0x01) (n := 5) rfl (by decide) rfl
  | readDiscreteInputs a q => exact complete_fixed (fc := 0x02) (n := 5) rfl (by decide) rfl
  | readHoldingRegisters a q => exact complete_fixed (fc := 0x03) (n := 5) rfl (by decide) rfl
  | readInputRegisters a q => exact complete_fixed (fc := 0x04) (n := 5) rfl (by decide) rfl
  | writeSingleCoil a c => exact complete_fixed (fc := 0x05) (n := 5) rfl (by decide) rfl
  | writeSingleRegister a w => exact complete_fixed (fc := 0x06) (n := 5) rfl (by decide) rfl
  | writeMultipleCoils a c =>
    obtain ⟨h1, h2⟩ := he
    refine complete_count1 (fc := 0x0F) (c := UInt8.ofNat c.packedLen) (base := 6) (off := 5) rfl (by decide) rfl ?_
    rw [toNat_ofNat_u8 h1]
    simp [Request.image, List.length_take]; omega
  | writeMultipleRegisters a d =>
    have h1 : d.len * 2 ≤ 255 := he
    have h2 : d.data.length = d.len * 2 := hd
    refine complete_count1 (fc := 0x10) (c := UInt8.ofNat (d.len * 2)) (base := 6) (off := 5) rfl (by decide) rfl ?_
    rw [toNat_ofNat_u8 h1]
    simp [Request.image]; omega
  | readWriteMultipleRegisters ra rq wa d =>
    have h1 : d.len * 2 ≤ 255 := he
    have h2 : d.data.length = d.len * 2 := hd
    refine complete_count1 (fc := 0x17) (c := UInt8.ofNat (d.len * 2)) (base := 10) (off := 9) rfl (by decide) rfl ?_
    rw [toNat_ofNat_u8 h1]
    simp [Request.image]; omega
  | _ => exact absurd hs (by simp [Request.Standard])

theorem req_image_length_le (r : Request) (hs : r.Standard) (he : r.Encodable) (hd : r.DataExact) :
    r.image.length ≤ 265 := by
  cases r with
  | writeMultipleCoils a c =>
    obtain ⟨h1, h2⟩ := he
    simp [Request.image, List.length_take]; omega
  | writeMultipleRegisters a d =>
    have h1 : d.len * 2 ≤ 255 := he
    have h2 : d.data.length = d.len * 2 := hd
    simp [Request.image]; omega
  | readWriteMultipleRegisters ra rq wa d =>
    have h1 : d.len * 2 ≤ 255 := he
    have h2 : d.data.length = d.len * 2 := hd
    simp [Request.image]; omega
  | readCoils _ _ | readDiscreteInputs _ _ | readHoldingRegisters _ _ | readInputRegisters _ _
  | writeSingleCoil _ _ | writeSingleRegister _ _ => simp [Request.image]
  | _ => exact absurd hs (by simp [Request.Standard])

/-- the response kinds whose image the response table frames: the implemented kinds except the
    three-byte write-single-coil response (open finding D12); custom codes are treated separately -/
def _root_.Modbus.Response.Frameable : Response → Prop
  | .readCoils _ | .readDiscreteInputs _ | .readHoldingRegisters _ | .readInputRegisters _
  | .readWriteMultipleRegisters _ | .writeSingleRegister _ _ | .writeMultipleCoils _ _
  | .writeMultipleRegisters _ _ | .readExceptionStatus _ => True
  | _ => False

/-- responses: the image of every encodable frameable value is a complete PDU of the response table -/
theorem rsp_image_complete (r : Response) (hs : r.Frameable) (he : r.Encodable) :
    Spec.PduComplete .rsp r.image := by
  cases r with
  | readCoils c =>
    obtain ⟨h1, h2⟩ := he
    refine complete_count1 (fc := 0x01) (c := UInt8.ofNat c.packedLen) (base := 2) (off := 1) rfl (by decide) rfl ?_
    rw [toNat_ofNat_u8 h1]
    simp [Response.image, List.length_take]; omega
  | readDiscreteInputs c =>
    obtain ⟨h1, h2⟩ := he
    refine complete_count1 (fc := 0x02) (c := UInt8.ofNat c.packedLen) (base := 2) (off := 1) rfl (by decide) rfl ?_
    rw [toNat_ofNat_u8 h1]
    simp [Response.image, List.length_take]; omega
  | readHoldingRegisters d =>
    obtain ⟨h1, h2⟩ := he
    refine complete_count1 (fc := 0x03) (c := UInt8.ofNat (d.len * 2)) (base := 2) (off := 1) rfl (by decide) rfl ?_
    rw [toNat_ofNat_u8 h1]
    simp [Response.image, List.length_take]; omega
  | readInputRegisters d =>
    obtain ⟨h1, h2⟩ := he
    refine complete_count1 (fc := 0x04) (c := UInt8.ofNat (d.len * 2)) (base := 2) (off := 1) rfl (by decide) rfl ?_
    rw [toNat_ofNat_u8 h1]
    simp [Response.image, List.length_take]; omega
  | readWriteMultipleRegisters d =>
    obtain ⟨h1, h2⟩ := he
    refine complete_count1 (fc := 0x17) (c := UInt8.ofNat (d.len * 2)) (base := 2) (off := 1) rfl (by decide) rfl ?_
    rw [toNat_ofNat_u8 h1]
    simp [Response.image, List.length_take]; omega
  | writeSingleRegister a w => exact complete_fixed (fc := 0x06) (n := 5) rfl (by decide) rfl
  | writeMultipleCoils a q => exact complete_fixed (fc := 0x0F) (n := 5) rfl (by decide) rfl
  | writeMultipleRegisters a q => exact complete_fixed (fc := 0x10) (n := 5) rfl (by decide) rfl
  | readExceptionStatus s => exact complete_fixed (fc := 0x07) (n := 2) rfl (by decide) rfl
  | _ => exact absurd hs (by simp [Response.Frameable])

theorem rsp_image_length_le (r : Response) (hs : r.Frameable) (he : r.Encodable) : r.image.length ≤ 257 := by
  cases r with
  | readCoils c | readDiscreteInputs c =>
    obtain ⟨h1, h2⟩ := he
    simp [Response.image, List.length_take]; omega
  | readHoldingRegisters d | readInputRegisters d | readWriteMultipleRegisters d =>
    obtain ⟨h1, h2⟩ := he
    simp [Response.image, List.length_take]; omega
  | writeSingleRegister _ _ | writeMultipleCoils _ _ | writeMultipleRegisters _ _ | readExceptionStatus _ =>
    simp [Response.image]
  | _ => exact absurd hs (by simp [Response.Frameable])

/-- D12: the three-byte image of a write-single-coil response is *not* a complete PDU (the table says 5) -/
theorem rsp_write_single_coil_incomplete (a : UInt16) : ¬ Spec.PduComplete .rsp (Response.writeSingleCoil a).image := by
  intro h
  have h5 : Spec.predict 0 .rsp (Response.writeSingleCoil a).image = .len 5 := rfl
  unfold Spec.PduComplete at h
  rw [h5] at h
  cases h

/-! ### exception PDUs -/

theorem exc_rule_fixed (f : UInt8) (h1 : 1 ≤ f) (h2 : f ≤ 0x2B) :
    Spec.lenRule .rsp (f + 0x80).toNat = .fixed 2 := by
  revert h1 h2; revert f; apply byte_cases; decide +kernel

theorem exc_rule_unknown (f : UInt8) (h : f = 0 ∨ (0x2B < f ∧ f < 0x80)) :
    Spec.lenRule .rsp (f + 0x80).toNat = .unknown := by
  revert h; revert f; apply byte_cases; decide +kernel

/-- the exception frames the response table knows: 0x81 … 0xAB, two bytes -/
theorem exc_complete (f x : UInt8) (h1 : 1 ≤ f) (h2 : f ≤ 0x2B) : Spec.PduComplete .rsp [f + 0x80, x] :=
  complete_fixed (fc := f + 0x80) (n := 2) rfl (exc_rule_fixed f h1 h2) rfl

theorem not_lt_0x80_of_lt (f : UInt8) (h : f < 0x80) : ¬ (f + 0x80 < 0x80) := by
  revert h; revert f; apply byte_cases; decide +kernel

theorem Exception.tryFrom_val (k : Exception) : Exception.tryFrom k.val = .ok k := by
  cases k <;> rfl

/-- `ExceptionResponse::try_from` on the two exception bytes gives the exception back -/
theorem exc_decode (f : UInt8) (k : Exception) (hf : f < 0x80) :
    ExceptionResponse.decode [f + 0x80, k.val] = .ok ⟨FunctionCode.new f, k⟩ := by
  have h := not_lt_0x80_of_lt f hf
  simp [ExceptionResponse.decode, idx, h, Exception.tryFrom_val]

theorem decodeRspPdu_exc (f : UInt8) (k : Exception) (hf : f < 0x80) :
    decodeRspPdu [f + 0x80, k.val] = .ok (.error ⟨FunctionCode.new f, k⟩) := by
  unfold decodeRspPdu
  rw [exc_decode f k hf]

/-- a PDU whose first byte is below 0x80 is not an exception: the exception decoder answers an error
    and the client-side order falls through to `Response::try_from` -/
theorem exc_decode_err_of_lt (pdu : Bytes) (b : UInt8) (h0 : pdu[0]? = some b) (hb : b < 0x80) :
    ∃ e, ExceptionResponse.decode pdu = .err e := by
  unfold ExceptionResponse.decode
  by_cases hl : pdu.length < 2
  · exact ⟨_, by rw [if_pos hl]⟩
  · rw [if_neg hl]
    simp only [idx, h0, Res.bind'_ok, hb, if_true]
    exact ⟨_, rfl⟩

theorem decodeRspPdu_of_lt (pdu : Bytes) (b : UInt8) (h0 : pdu[0]? = some b) (hb : b < 0x80) :
    decodeRspPdu pdu = (Response.decode pdu).map .ok := by
  obtain ⟨e, he⟩ := exc_decode_err_of_lt pdu b h0 hb
  unfold decodeRspPdu
  rw [he]

/-! ### PDU-level round trip of the fixed-layout kinds (every address, every 16-bit value) -/

theorem read16_be16_at1 (x : UInt8) (a : UInt16) (t : Bytes) : read16 (x :: (be16 a ++ t)) 1 = .ok a := by
  simp [read16, be16, rd16_be16]

theorem read16_be16_at3 (x : UInt8) (a b : UInt16) (t : Bytes) :
    read16 (x :: (be16 a ++ (be16 b ++ t))) 3 = .ok b := by
  simp [read16, be16, rd16_be16]

theorem req_decode_readCoils (a q : UInt16) :
    Request.decode (Request.readCoils a q).image = .ok (.readCoils a q) := by
  have h1 := read16_be16_at1 0x01 a (be16 q)
  have h3 := read16_be16_at3 0x01 a q []
  simp only [List.append_nil] at h3
  have hf : FunctionCode.new 0x01 = .readCoils := rfl
  simp [Request.decode, Request.image, idx, hf, minRequestPduLen, h1, h3]

theorem req_decode_readDiscreteInputs (a q : UInt16) :
    Request.decode (Request.readDiscreteInputs a q).image = .ok (.readDiscreteInputs a q) := by
  have h1 := read16_be16_at1 0x02 a (be16 q)
  have h3 := read16_be16_at3 0x02 a q []
  simp only [List.append_nil] at h3
  have hf : FunctionCode.new 0x02 = .readDiscreteInputs := rfl
  simp [Request.decode, Request.image, idx, hf, minRequestPduLen, h1, h3]

theorem req_decode_readHoldingRegisters (a q : UInt16) :
    Request.decode (Request.readHoldingRegisters a q).image = .ok (.readHoldingRegisters a q) := by
  have h1 := read16_be16_at1 0x03 a (be16 q)
  have h3 := read16_be16_at3 0x03 a q []
  simp only [List.append_nil] at h3
  have hf : FunctionCode.new 0x03 = .readHoldingRegisters := rfl
  simp [Request.decode, Request.image, idx, hf, minRequestPduLen, h1, h3]

theorem req_decode_readInputRegisters (a q : UInt16) :
    Request.decode (Request.readInputRegisters a q).image = .ok (.readInputRegisters a q) := by
  have h1 := read16_be16_at1 0x04 a (be16 q)
  have h3 := read16_be16_at3 0x04 a q []
  simp only [List.append_nil] at h3
  have hf : FunctionCode.new 0x04 = .readInputRegisters := rfl
  simp [Request.decode, Request.image, idx, hf, minRequestPduLen, h1, h3]

theorem req_decode_writeSingleRegister (a w : UInt16) :
    Request.decode (Request.writeSingleRegister a w).image = .ok (.writeSingleRegister a w) := by
  have h1 := read16_be16_at1 0x06 a (be16 w)
  have h3 := read16_be16_at3 0x06 a w []
  simp only [List.append_nil] at h3
  have hf : FunctionCode.new 0x06 = .writeSingleRegister := rfl
  simp [Request.decode, Request.image, idx, hf, minRequestPduLen, h1, h3]

theorem u16CoilToBool_boolToU16Coil (c : Bool) : u16CoilToBool (boolToU16Coil c) = .ok c := by
  cases c <;> rfl

theorem req_decode_writeSingleCoil (a : UInt16) (c : Bool) :
    Request.decode (Request.writeSingleCoil a c).image = .ok (.writeSingleCoil a c) := by
  have h1 := read16_be16_at1 0x05 a (be16 (boolToU16Coil c))
  have h3 := read16_be16_at3 0x05 a (boolToU16Coil c) []
  simp only [List.append_nil] at h3
  have hf : FunctionCode.new 0x05 = .writeSingleCoil := rfl
  simp [Request.decode, Request.image, idx, hf, minRequestPduLen, h1, h3, u16CoilToBool_boolToU16Coil]

theorem rsp_decode_writeSingleRegister (a w : UInt16) :
    Response.decode (Response.writeSingleRegister a w).image = .ok (.writeSingleRegister a w) := by
  have h1 := read16_be16_at1 0x06 a (be16 w)
  have h3 := read16_be16_at3 0x06 a w []
  simp only [List.append_nil] at h3
  have hf : FunctionCode.new 0x06 = .writeSingleRegister := rfl
  simp [Response.decode, Response.image, idx, hf, minResponsePduLen, h1, h3]

theorem rsp_decode_writeMultipleCoils (a q : UInt16) :
    Response.decode (Response.writeMultipleCoils a q).image = .ok (.writeMultipleCoils a q) := by
  have h1 := read16_be16_at1 0x0F a (be16 q)
  have h3 := read16_be16_at3 0x0F a q []
  simp only [List.append_nil] at h3
  have hf : FunctionCode.new 0x0F = .writeMultipleCoils := rfl
  simp [Response.decode, Response.image, idx, hf, minResponsePduLen, h1, h3]

theorem rsp_decode_writeMultipleRegisters (a q : UInt16) :
    Response.decode (Response.writeMultipleRegisters a q).image = .ok (.writeMultipleRegisters a q) := by
  have h1 := read16_be16_at1 0x10 a (be16 q)
  have h3 := read16_be16_at3 0x10 a q []
  simp only [List.append_nil] at h3
  have hf : FunctionCode.new 0x10 = .writeMultipleRegisters := rfl
  simp [Response.decode, Response.image, idx, hf, minResponsePduLen, h1, h3]

/-! ### a lone frame with an unknown function code is never reported -/

/-- the scan loop on a buffer of at most `MAX_FRAME_LEN` bytes all of whose remaining attempts are
    'incomplete' or an error: every error is followed by a retry one byte later, until the buffer is
    exhausted — the answer is 'incomplete' -/
theorem scanFrom_none {F : Type} (att : Attempt F) (buf : Bytes) (hl : buf.length ≤ maxFrameLen) :
    ∀ (n d0 : Nat), buf.length - d0 = n →
      (∀ d, d0 ≤ d → d + 1 < buf.length → att (buf.drop d) = .ok none ∨ ∃ e, att (buf.drop d) = .err e) →
      scanFrom att buf d0 = .ok none := by
  intro n
  induction n with
  | zero =>
    intro d0 hn _
    rw [scanFrom]
    have : d0 + 1 ≥ buf.length := by omega
    simp only [this, dite_true]
  | succ n ih =>
    intro d0 hn h
    rw [scanFrom]
    by_cases hd : d0 + 1 ≥ buf.length
    · simp only [hd, dite_true]
    · simp only [hd, dite_false]
      rcases h d0 (Nat.le_refl _) (by omega) with h1 | ⟨e, h1⟩
      · rw [h1]
      · rw [h1]
        have hm : ¬ (d0 + 1 ≥ maxFrameLen) := by omega
        simp only [hm, if_false]
        exact ih (d0 + 1) (by omega) (fun d hd' hlt => h d (by omega) hlt)

/-- bounds of the response table's entries: no response PDU is shorter than two bytes -/
def RspRuleGe2 : Spec.LenRule → Prop
  | .fixed n => 2 ≤ n
  | .count1 base _ => 2 ≤ base
  | .count2 base _ => 2 ≤ base
  | .unknown => True

instance : DecidablePred RspRuleGe2 := fun r => by
  cases r <;> unfold RspRuleGe2 <;> infer_instance

theorem rsp_rule_ge2 (fc : UInt8) : RspRuleGe2 (Spec.lenRule .rsp fc.toNat) := by
  revert fc; apply byte_cases; decide +kernel

theorem predict_rsp_ge2 (hdr : Nat) (b : Bytes) (n : Nat) (h : Spec.predict hdr .rsp b = .len n) : 2 ≤ n := by
  unfold Spec.predict at h
  split at h
  · cases h
  · cases hfc : b[hdr]? with
    | none => rw [hfc] at h; cases h
    | some fc =>
      rw [hfc] at h
      simp only at h
      have hb := rsp_rule_ge2 fc
      cases hr : Spec.lenRule .rsp fc.toNat with
      | fixed m => rw [hr] at h hb; simp only [RspRuleGe2] at h hb; cases h; omega
      | unknown => rw [hr] at h; cases h
      | count1 base off =>
        rw [hr] at h hb; simp only [RspRuleGe2] at h hb
        cases hc : b[hdr + off]? with
        | none => rw [hc] at h; cases h
        | some c => rw [hc] at h; simp only at h; cases h; omega
      | count2 base off =>
        rw [hr] at h hb; simp only [RspRuleGe2] at h hb
        cases hc : b[hdr + off]? with
        | none => rw [hc] at h; cases h
        | some c =>
          rw [hc] at h
          cases hc2 : b[hdr + off + 1]? with
          | none => rw [hc2] at h; cases h
          | some c2 => rw [hc2] at h; simp only at h; cases h; omega

theorem predict_reject {d : Spec.Dir} {b : Bytes} {c : UInt8} (h0 : b[0]? = some c)
    (hu : Spec.lenRule d c.toNat = .unknown) : Spec.predict 0 d b = .reject := by
  have hpos : ¬ b.length < 0 + 1 := by
    cases b with
    | nil => simp at h0
    | cons _ _ => simp
  unfold Spec.predict
  rw [if_neg hpos]
  simp only [h0, hu]

/-- a TCP response attempt on at most eight bytes never finds a frame (the shortest is 7 + 2) -/
theorem tcp_attemptRsp_short (p : Bytes) (hne : p ≠ []) (hl : p.length ≤ 8) :
    Tcp.attemptRsp p = .ok none ∨ ∃ e, Tcp.attemptRsp p = .err e := by
  rcases Tcp.checkProtocolId_cases p with hc | ⟨_, _, hc⟩
  · rw [Tcp.attemptRsp_eq, Tcp.attemptOf_proto_ok _ hc]
    unfold mkAttempt
    rw [tcp_responsePduLen_eq]
    cases hp : Spec.predict 7 .rsp p with
    | incomplete => left; rfl
    | reject => right; exact ⟨_, rfl⟩
    | len n =>
      have h2 := predict_rsp_ge2 7 p n hp
      have hb := (predict_len_bounds 7 .rsp p n hp).2
      rcases Tcp.checkLengthField_cases p n with hf | ⟨_, _, hf⟩
      · left
        simp only [predRes, Res.bind'_ok, tcp_extractFrame_short p n hne hb hc hf (by omega), Res.map_ok]
      · right
        refine ⟨.lengthMismatch (rd16 p[4] p[5]).toNat (n + 1), ?_⟩
        simp only [predRes, Res.bind'_ok,
          Tcp.extractFrame_len_err hne (by unfold usizeLimit; omega) hc hf, Res.map_err]
  · right
    exact ⟨_, by rw [Tcp.attemptRsp_eq]; exact Tcp.attemptOf_proto_err _ hc⟩

/-- an RTU response attempt on at most four bytes never finds a frame (the shortest is 3 + 2) -/
theorem rtu_attemptRsp_short (p : Bytes) (hne : p ≠ []) (hl : p.length ≤ 4) :
    Rtu.attemptRsp p = .ok none ∨ ∃ e, Rtu.attemptRsp p = .err e := by
  unfold Rtu.attemptRsp mkAttempt
  rw [rtu_responsePduLen_eq]
  cases hp : Spec.predict 1 .rsp p with
  | incomplete => left; rfl
  | reject => right; exact ⟨_, rfl⟩
  | len n =>
    left
    have h2 := predict_rsp_ge2 1 p n hp
    have hb := (predict_len_bounds 1 .rsp p n hp).2
    simp only [predRes, Res.bind'_ok, rtu_extractFrame_short p n hne hb (by omega), Res.map_ok]

theorem drop_ne_nil {b : Bytes} {d : Nat} (h : d + 1 < b.length) : b.drop d ≠ [] := by
  intro he
  have := congrArg List.length he
  simp at this; omega

/-- TCP: a two-byte PDU whose function code the response table does not know, framed and standing
    alone, is answered 'incomplete' by `tcp::decode` -/
theorem tcp_decodeRsp_unknown (tid : UInt16) (uid : UInt8) (pdu : Bytes) (c : UInt8)
    (hlen : pdu.length ≤ 2) (h0 : pdu[0]? = some c) (hu : Spec.lenRule .rsp c.toNat = .unknown) :
    Tcp.decodeRsp (Spec.tcpFrame tid uid pdu) = .ok none := by
  have hpos : 1 ≤ pdu.length := by
    cases pdu with
    | nil => simp at h0
    | cons _ _ => simp
  have hL := tcpFrame_length tid uid pdu
  have hne : (Spec.tcpFrame tid uid pdu).isEmpty = false := by
    have := append_ne_nil_of_pos (f := Spec.tcpFrame tid uid pdu) (by omega) []
    simpa using this
  -- the attempt at offset 0 is an error
  have h1 : Tcp.attemptRsp (Spec.tcpFrame tid uid pdu) = .err (.fnCode ((Spec.tcpFrame tid uid pdu)[7]?.getD 0)) := by
    rw [Tcp.attemptRsp_eq, Tcp.attemptOf_proto_ok _
      (by simpa using (tcp_checks_frame tid uid pdu [] (by omega)).1)]
    unfold mkAttempt
    rw [tcp_responsePduLen_eq]
    have e := tcpFrame_split tid uid pdu []
    rw [List.append_nil] at e
    have : Spec.predict 7 .rsp (Spec.tcpFrame tid uid pdu) = .reject := by
      rw [e, predict_shift 7 .rsp _ _ rfl]
      exact predict_reject (by simpa using h0) hu
    rw [this]; rfl
  unfold Tcp.decodeRsp scan
  rw [hne]
  simp only [Bool.false_eq_true, if_false]
  rw [scanFrom]
  have hd : ¬ (0 + 1 ≥ (Spec.tcpFrame tid uid pdu).length) := by omega
  have hm : ¬ (0 + 1 ≥ maxFrameLen) := by unfold maxFrameLen; omega
  simp only [hd, dite_false, List.drop_zero, h1, hm, if_false]
  apply scanFrom_none _ _ (by unfold maxFrameLen; omega) _ _ rfl
  intro d hd1 hlt
  exact tcp_attemptRsp_short _ (drop_ne_nil hlt) (by rw [List.length_drop]; omega)

/-- RTU: the same for `rtu::decode` -/
theorem rtu_decodeRsp_unknown (slave : UInt8) (pdu : Bytes) (c : UInt8)
    (hlen : pdu.length ≤ 2) (h0 : pdu[0]? = some c) (hu : Spec.lenRule .rsp c.toNat = .unknown) :
    Rtu.decodeRsp (Spec.rtuFrame slave pdu) = .ok none := by
  have hpos : 1 ≤ pdu.length := by
    cases pdu with
    | nil => simp at h0
    | cons _ _ => simp
  have hL := rtuFrame_length slave pdu
  have hne : (Spec.rtuFrame slave pdu).isEmpty = false := rfl
  have h1 : Rtu.attemptRsp (Spec.rtuFrame slave pdu) = .err (.fnCode ((Spec.rtuFrame slave pdu)[1]?.getD 0)) := by
    unfold Rtu.attemptRsp mkAttempt
    rw [rtu_responsePduLen_eq]
    have e := rtuFrame_split slave pdu []
    rw [List.append_nil] at e
    have : Spec.predict 1 .rsp (Spec.rtuFrame slave pdu) = .reject := by
      rw [e, predict_shift 1 .rsp _ _ rfl]
      refine predict_reject (c := c) ?_ hu
      rw [List.getElem?_append_left (by omega)]; exact h0
    rw [this]; rfl
  unfold Rtu.decodeRsp scan
  rw [hne]
  simp only [Bool.false_eq_true, if_false]
  rw [scanFrom]
  have hd : ¬ (0 + 1 ≥ (Spec.rtuFrame slave pdu).length) := by omega
  have hm : ¬ (0 + 1 ≥ maxFrameLen) := by unfold maxFrameLen; omega
  simp only [hd, dite_false, List.drop_zero, h1, hm, if_false]
  apply scanFrom_none _ _ (by unfold maxFrameLen; omega) _ _ rfl
  intro d hd1 hlt
  exact rtu_attemptRsp_short _ (drop_ne_nil hlt) (by rw [List.length_drop]; omega)

/-! ### kinds, first bytes -/

/-- requests whose PDU is a function code and two 16-bit fields -/
def _root_.Modbus.Request.FixedLayout : Request → Prop
  | .readCoils _ _ | .readDiscreteInputs _ _ | .readHoldingRegisters _ _ | .readInputRegisters _ _
  | .writeSingleCoil _ _ | .writeSingleRegister _ _ => True
  | _ => False

/-- responses whose PDU is a function code and two 16-bit fields -/
def _root_.Modbus.Response.FixedLayout : Response → Prop
  | .writeSingleRegister _ _ | .writeMultipleCoils _ _ | .writeMultipleRegisters _ _ => True
  | _ => False

theorem req_fixed_standard {r : Request} (h : r.FixedLayout) : r.Standard := by
  cases r <;> first | trivial | exact absurd h (by simp [Request.FixedLayout])

theorem req_fixed_encodable {r : Request} (h : r.FixedLayout) : r.Encodable := by
  cases r <;> first | trivial | exact absurd h (by simp [Request.FixedLayout])

theorem req_fixed_dataExact {r : Request} (h : r.FixedLayout) : r.DataExact := by
  cases r <;> first | trivial | exact absurd h (by simp [Request.FixedLayout])

theorem rsp_fixed_frameable {r : Response} (h : r.FixedLayout) : r.Frameable := by
  cases r <;> first | trivial | exact absurd h (by simp [Response.FixedLayout])

theorem rsp_fixed_encodable {r : Response} (h : r.FixedLayout) : r.Encodable := by
  cases r <;> first | trivial | exact absurd h (by simp [Response.FixedLayout])

/-- PDU-level round trip of the fixed-layout requests: every address, every 16-bit value, both coil states -/
theorem req_decode_fixed (r : Request) (h : r.FixedLayout) : Request.decode r.image = .ok r := by
  cases r with
  | readCoils a q => exact req_decode_readCoils a q
  | readDiscreteInputs a q => exact req_decode_readDiscreteInputs a q
  | readHoldingRegisters a q => exact req_decode_readHoldingRegisters a q
  | readInputRegisters a q => exact req_decode_readInputRegisters a q
  | writeSingleCoil a c => exact req_decode_writeSingleCoil a c
  | writeSingleRegister a w => exact req_decode_writeSingleRegister a w
  | _ => exact absurd h (by simp [Request.FixedLayout])

/-- PDU-level round trip of the fixed-layout responses -/
theorem rsp_decode_fixed (r : Response) (h : r.FixedLayout) : Response.decode r.image = .ok r := by
  cases r with
  | writeSingleRegister a w => exact rsp_decode_writeSingleRegister a w
  | writeMultipleCoils a q => exact rsp_decode_writeMultipleCoils a q
  | writeMultipleRegisters a q => exact rsp_decode_writeMultipleRegisters a q
  | _ => exact absurd h (by simp [Response.FixedLayout])

theorem req_image_length_fixed (r : Request) (h : r.FixedLayout) : r.image.length = 5 := by
  cases r <;> first | rfl | exact absurd h (by simp [Request.FixedLayout])

theorem rsp_image_length_fixed (r : Response) (h : r.FixedLayout) : r.image.length = 5 := by
  cases r <;> first | rfl | exact absurd h (by simp [Response.FixedLayout])

/-- the first byte of a frameable response image is a function code below 0x80 -/
theorem rsp_image_first_lt (r : Response) (hs : r.Frameable) : ∃ b, r.image[0]? = some b ∧ b < 0x80 := by
  cases r with
  | readCoils c => exact ⟨0x01, rfl, by decide⟩
  | readDiscreteInputs c => exact ⟨0x02, rfl, by decide⟩
  | readHoldingRegisters d => exact ⟨0x03, rfl, by decide⟩
  | readInputRegisters d => exact ⟨0x04, rfl, by decide⟩
  | readWriteMultipleRegisters d => exact ⟨0x17, rfl, by decide⟩
  | writeSingleRegister a w => exact ⟨0x06, rfl, by decide⟩
  | writeMultipleCoils a q => exact ⟨0x0F, rfl, by decide⟩
  | writeMultipleRegisters a q => exact ⟨0x10, rfl, by decide⟩
  | readExceptionStatus s => exact ⟨0x07, rfl, by decide⟩
  | _ => exact absurd hs (by simp [Response.Frameable])

/-- the standard request kinds serial-line framing handles today: all but 0x0F / 0x10 (open finding D4) -/
def _root_.Modbus.Request.RtuFrameable : Request → Prop
  | .readCoils _ _ | .readDiscreteInputs _ _ | .readHoldingRegisters _ _ | .readInputRegisters _ _
  | .writeSingleCoil _ _ | .writeSingleRegister _ _ | .readWriteMultipleRegisters _ _ _ _ => True
  | _ => False

theorem req_rtuFrameable_standard {r : Request} (h : r.RtuFrameable) : r.Standard := by
  cases r <;> first | trivial | exact absurd h (by simp [Request.RtuFrameable])

theorem req_image_first_ne (r : Request) (h : r.RtuFrameable) :
    r.image[0]? ≠ some 0x0F ∧ r.image[0]? ≠ some 0x10 := by
  cases r with
  | readCoils a q => exact ⟨by simp [Request.image], by simp [Request.image]⟩
  | readDiscreteInputs a q => exact ⟨by simp [Request.image], by simp [Request.image]⟩
  | readHoldingRegisters a q => exact ⟨by simp [Request.image], by simp [Request.image]⟩
  | readInputRegisters a q => exact ⟨by simp [Request.image], by simp [Request.image]⟩
  | writeSingleCoil a c => exact ⟨by simp [Request.image], by simp [Request.image]⟩
  | writeSingleRegister a w => exact ⟨by simp [Request.image], by simp [Request.image]⟩
  | readWriteMultipleRegisters ra rq wa d => exact ⟨by simp [Request.image], by simp [Request.image]⟩
  | _ => exact absurd h (by simp [Request.RtuFrameable])

/-- `FunctionCode::new` keeps the byte -/
theorem value_new (f : UInt8) : (FunctionCode.new f).value = f := by
  revert f; apply byte_cases; decide +kernel

theorem req_image_pos (r : Request) (h : r.Encodable) : 1 ≤ r.image.length := by
  cases r <;> simp_all [Request.image, Request.Encodable]

theorem rspPdu_image_pos (p : ResponsePdu) (h : p.Encodable) : 1 ≤ p.image.length := by
  cases p with
  | ok r => exact h.2
  | error e => simp [ResponsePdu.image, ExceptionResponse.image]

/-! ### the request table's bound; custom function codes -/

/-- bounds of the request table's entries -/
def ReqRuleLe : Spec.LenRule → Prop
  | .fixed n => n ≤ 7
  | .count1 base _ => base ≤ 10
  | .count2 _ _ => False
  | .unknown => True

instance : DecidablePred ReqRuleLe := fun r => by
  cases r <;> unfold ReqRuleLe <;> infer_instance

theorem req_rule_le (fc : UInt8) : ReqRuleLe (Spec.lenRule .req fc.toNat) := by
  revert fc; apply byte_cases; decide +kernel

theorem predict_req_le (hdr : Nat) (b : Bytes) (n : Nat) (h : Spec.predict hdr .req b = .len n) : n ≤ 265 := by
  unfold Spec.predict at h
  split at h
  · cases h
  · cases hfc : b[hdr]? with
    | none => rw [hfc] at h; cases h
    | some fc =>
      rw [hfc] at h
      simp only at h
      have hb := req_rule_le fc
      cases hr : Spec.lenRule .req fc.toNat with
      | fixed m => rw [hr] at h hb; simp only [ReqRuleLe] at h hb; cases h; omega
      | unknown => rw [hr] at h; cases h
      | count1 base off =>
        rw [hr] at h hb; simp only [ReqRuleLe] at h hb
        cases hc : b[hdr + off]? with
        | none => rw [hc] at h; cases h
        | some c => rw [hc] at h; simp only at h; have := c.toNat_lt; cases h; omega
      | count2 base off => rw [hr] at hb; exact absurd hb (by simp [ReqRuleLe])

/-- a complete request PDU has at most 265 bytes, so its MBAP length field is exact -/
theorem req_complete_le {pdu : Bytes} (h : Spec.PduComplete .req pdu) : pdu.length ≤ 265 :=
  predict_req_le 0 pdu _ h

/-- a complete PDU starts with a function code the table knows -/
theorem complete_known {d : Spec.Dir} {pdu : Bytes} (h : Spec.PduComplete d pdu) :
    ∃ c, pdu[0]? = some c ∧ Spec.lenRule d c.toNat ≠ .unknown := by
  unfold Spec.PduComplete Spec.predict at h
  split at h
  · cases h
  · cases hfc : pdu[0]? with
    | none => rw [hfc] at h; cases h
    | some fc =>
      refine ⟨fc, rfl, ?_⟩
      intro hu
      rw [hfc] at h
      simp only [hu] at h
      cases h

theorem req_known_lt (c : UInt8) (h : Spec.lenRule .req c.toNat ≠ .unknown) : c < 0x80 := by
  revert h; revert c; apply byte_cases; decide +kernel

/-- PDU-level round trip of a custom request whose code is not one of the nine modelled kinds:
    the decoder returns `Custom(FunctionCode::Custom(code), data)` -/
theorem req_decode_custom (fc : FunctionCode) (d : Bytes) (hlt : fc.value < 0x80)
    (hm : fc.value ∉ modelledReqCodes) :
    Request.decode (Request.custom fc d).image = .ok (.custom (.custom fc.value) d) := by
  have hv := value_new fc.value
  simp only [modelledReqCodes, List.mem_cons, List.not_mem_nil, or_false, not_or] at hm
  show Request.decode ([fc.value] ++ d) = _
  unfold Request.decode
  simp only [List.singleton_append, List.isEmpty_cons, idx, List.getElem?_cons_zero, Res.bind'_ok,
    Bool.false_eq_true, if_false]
  generalize FunctionCode.new fc.value = g at hv
  cases g
  case custom c =>
    have hc : c = fc.value := hv
    subst hc
    simp [minRequestPduLen, hlt, sliceFrom]
  all_goals first
    | (exfalso; rw [← hv] at hm; simp [FunctionCode.value] at hm; done)
    | simp [minRequestPduLen, hlt, sliceFrom]

/-- … and of a custom response: `Custom(FunctionCode::new(code), data)` -/
theorem rsp_decode_custom (fc : FunctionCode) (d : Bytes)
    (hm : fc.value ∉ modelledRspCodes) :
    Response.decode (Response.custom fc d).image = .ok (.custom (FunctionCode.new fc.value) d) := by
  have hv := value_new fc.value
  simp only [modelledRspCodes_eq, List.mem_cons, List.not_mem_nil, or_false, not_or] at hm
  show Response.decode ([fc.value] ++ d) = _
  unfold Response.decode
  simp only [List.singleton_append, List.isEmpty_cons, idx, List.getElem?_cons_zero, Res.bind'_ok,
    Bool.false_eq_true, if_false]
  generalize FunctionCode.new fc.value = g at hv
  cases g
  case custom c =>
    have hc : c = fc.value := hv
    subst hc
    simp [minResponsePduLen, sliceFrom]
  all_goals first
    | (exfalso; rw [← hv] at hm; simp [FunctionCode.value] at hm; done)
    | simp [minResponsePduLen, sliceFrom]

end Modbus.AduRT

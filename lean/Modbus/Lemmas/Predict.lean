import Modbus.Model.Rtu
import Modbus.Model.Tcp
import Modbus.Spec.Lengths
import Modbus.Lemmas.Basic
import Modbus.Lemmas.Bytes
/-
Helper lemmas for C15: the four frame-length predictors of the model, written as
"classify the function-code byte, then interpret the rule", and the classification compared
with the specification's table for each of the 256 function codes.
-/
namespace Modbus.Predict
open Spec

/-- a specified prediction as a model result; `e` is the error reported for a rejected code -/
def predRes (e : Error) : Pred → Res (Option Nat)
  | .len n => .ok (some n)
  | .incomplete => .ok none
  | .reject => .err e

@[simp] theorem predRes_len (e : Error) (n : Nat) : predRes e (.len n) = .ok (some n) := rfl
@[simp] theorem predRes_incomplete (e : Error) : predRes e .incomplete = .ok none := rfl
@[simp] theorem predRes_reject (e : Error) : predRes e .reject = .err e := rfl

/-- what a length rule means for a buffer whose PDU starts at `h` (model-side reading:
    every access is an optional lookup, nothing can panic) -/
def ruleRes (adu : Bytes) (h : Nat) (fc : UInt8) : LenRule → Res (Option Nat)
  | .fixed n => .ok (some n)
  | .count1 base off =>
    (match adu[h + off]? with
     | some c => .ok (some (base + c.toNat))
     | none => .ok none)
  | .count2 base off =>
    (match adu[h + off]?, adu[h + off + 1]? with
     | some hi, some lo => .ok (some (base + (hi.toNat * 256 + lo.toNat)))
     | _, _ => .ok none)
  | .unknown => .err (.fnCode fc)

/-- the specified predictor, once the function code is present, is the rule's reading -/
theorem predRes_predict (h : Nat) (d : Dir) (buf : Bytes) (fc : UInt8)
    (hfc : buf[h]? = some fc) :
    predRes (.fnCode fc) (predict h d buf) = ruleRes buf h fc (lenRule d fc.toNat) := by
  have hl : ¬ buf.length < h + 1 := by
    intro hlt
    have : buf[h]? = none := List.getElem?_eq_none (by omega)
    rw [this] at hfc; cases hfc
  unfold predict
  rw [if_neg hl, hfc]
  simp only
  cases lenRule d fc.toNat with
  | fixed n => rfl
  | count1 base off =>
    simp only [ruleRes]
    cases buf[h + off]? <;> rfl
  | count2 base off =>
    simp only [ruleRes]
    cases buf[h + off]? <;> cases buf[h + off + 1]? <;> rfl
  | unknown => rfl

/-- before the function code and one more byte can be there the specified predictor says incomplete -/
theorem predict_short (h : Nat) (d : Dir) (buf : Bytes) (hl : buf.length < h + 1) :
    predict h d buf = .incomplete := by
  unfold predict; rw [if_pos hl]

/-! ### response direction -/

/-- the `UInt8` range tests of `response_pdu_len`, as a classification of the function code -/
def rspClass (fc : UInt8) : LenRule :=
  if (0x01 ≤ fc ∧ fc ≤ 0x04) ∨ fc = 0x0C ∨ fc = 0x17 then .count1 2 1
  else if fc = 0x05 ∨ fc = 0x06 ∨ fc = 0x0B ∨ fc = 0x0F ∨ fc = 0x10 then .fixed 5
  else if fc = 0x07 ∨ (0x81 ≤ fc ∧ fc ≤ 0xAB) then .fixed 2
  else if fc = 0x16 then .fixed 7
  else if fc = 0x18 then .count2 3 1
  else .unknown

/-- the response classification is the specified table, for each of the 256 codes -/
theorem rspClass_eq_spec (fc : UInt8) : rspClass fc = lenRule .rsp fc.toNat := by
  revert fc; apply byte_cases; decide +kernel

/-- the body of `response_pdu_len` after the function code `fc` has been read; `h` = PDU offset -/
def rspBody (adu : Bytes) (h : Nat) (fc : UInt8) : Res (Option Nat) :=
  if (0x01 ≤ fc ∧ fc ≤ 0x04) ∨ fc = 0x0C ∨ fc = 0x17 then
    if adu.length > h + 1 then (idx adu (h + 1)).bind fun c => .ok (some (2 + c.toNat)) else .ok none
  else if fc = 0x05 ∨ fc = 0x06 ∨ fc = 0x0B ∨ fc = 0x0F ∨ fc = 0x10 then .ok (some 5)
  else if fc = 0x07 ∨ (0x81 ≤ fc ∧ fc ≤ 0xAB) then .ok (some 2)
  else if fc = 0x16 then .ok (some 7)
  else if fc = 0x18 then
    if adu.length > h + 2 then (read16 adu (h + 1)).bind fun c => .ok (some (3 + c.toNat)) else .ok none
  else .err (.fnCode fc)

theorem count1_guarded (adu : Bytes) (i base : Nat) :
    (if adu.length > i then (idx adu i).bind fun c => .ok (some (base + c.toNat)) else .ok none)
      = (match adu[i]? with
         | some c => (.ok (some (base + c.toNat)) : Res (Option Nat))
         | none => .ok none) := by
  by_cases hl : adu.length > i
  · rw [if_pos hl, idx_eq_ok hl, List.getElem?_eq_getElem hl]; rfl
  · rw [if_neg hl, List.getElem?_eq_none (by omega)]

theorem count2_guarded (adu : Bytes) (i base : Nat) :
    (if adu.length > i + 1 then (read16 adu i).bind fun c => .ok (some (base + c.toNat)) else .ok none)
      = (match adu[i]?, adu[i + 1]? with
         | some hi, some lo => (.ok (some (base + (hi.toNat * 256 + lo.toNat))) : Res (Option Nat))
         | _, _ => .ok none) := by
  by_cases hl : adu.length > i + 1
  · have h0 : i < adu.length := by omega
    rw [if_pos hl, read16_eq_ok hl, List.getElem?_eq_getElem hl, List.getElem?_eq_getElem h0]
    simp only [Res.bind'_ok, rd16_toNat]
  · rw [if_neg hl, List.getElem?_eq_none (i := i + 1) (by omega)]
    cases adu[i]? <;> rfl

theorem rspBody_eq (adu : Bytes) (h : Nat) (fc : UInt8) :
    rspBody adu h fc = ruleRes adu h fc (rspClass fc) := by
  unfold rspBody rspClass
  by_cases c1 : (0x01 ≤ fc ∧ fc ≤ 0x04) ∨ fc = 0x0C ∨ fc = 0x17
  · rw [if_pos c1, if_pos c1]; exact count1_guarded adu (h + 1) 2
  rw [if_neg c1, if_neg c1]
  by_cases c2 : fc = 0x05 ∨ fc = 0x06 ∨ fc = 0x0B ∨ fc = 0x0F ∨ fc = 0x10
  · rw [if_pos c2, if_pos c2]; rfl
  rw [if_neg c2, if_neg c2]
  by_cases c3 : fc = 0x07 ∨ (0x81 ≤ fc ∧ fc ≤ 0xAB)
  · rw [if_pos c3, if_pos c3]; rfl
  rw [if_neg c3, if_neg c3]
  by_cases c4 : fc = 0x16
  · rw [if_pos c4, if_pos c4]; rfl
  rw [if_neg c4, if_neg c4]
  by_cases c5 : fc = 0x18
  · rw [if_pos c5, if_pos c5]; exact count2_guarded adu (h + 1) 3
  rw [if_neg c5, if_neg c5]; rfl

/-- the response body is the specified predictor -/
theorem rspBody_eq_spec (adu : Bytes) (h : Nat) (fc : UInt8) (hfc : adu[h]? = some fc) :
    rspBody adu h fc = predRes (.fnCode fc) (predict h .rsp adu) := by
  rw [rspBody_eq, rspClass_eq_spec, predRes_predict h .rsp adu fc hfc]

/-! ### request direction -/

/-- the `UInt8` range tests of `request_pdu_len`, as a classification of the function code;
    `o` is the PDU offset of the count byte the 0x0F/0x10 arm reads -/
def reqClass (o : Nat) (fc : UInt8) : LenRule :=
  if 0x01 ≤ fc ∧ fc ≤ 0x06 then .fixed 5
  else if fc = 0x07 ∨ fc = 0x0B ∨ fc = 0x0C ∨ fc = 0x11 then .fixed 1
  else if fc = 0x0F ∨ fc = 0x10 then .count1 6 o
  else if fc = 0x16 then .fixed 7
  else if fc = 0x18 then .fixed 3
  else if fc = 0x17 then .count1 10 9
  else .unknown

/-- with the count of 0x0F/0x10 at PDU offset 5 the request classification is the specified table -/
theorem reqClass_eq_spec (fc : UInt8) : reqClass 5 fc = lenRule .req fc.toNat := by
  revert fc; apply byte_cases; decide +kernel

/-- apart from 0x0F/0x10 the offset parameter is irrelevant -/
theorem reqClass_eq_spec_of_ne (o : Nat) (fc : UInt8) (h : fc ≠ 0x0F ∧ fc ≠ 0x10) :
    reqClass o fc = lenRule .req fc.toNat := by
  rw [← reqClass_eq_spec]
  unfold reqClass
  have : ¬ (fc = 0x0F ∨ fc = 0x10) := by intro h'; cases h' <;> simp_all
  simp only [if_neg this]

/-- the body of `request_pdu_len` after the function code `fc` has been read; `h` = PDU offset,
    `o` = PDU offset of the byte the 0x0F/0x10 arm reads -/
def reqBody (adu : Bytes) (h o : Nat) (fc : UInt8) : Res (Option Nat) :=
  if 0x01 ≤ fc ∧ fc ≤ 0x06 then .ok (some 5)
  else if fc = 0x07 ∨ fc = 0x0B ∨ fc = 0x0C ∨ fc = 0x11 then .ok (some 1)
  else if fc = 0x0F ∨ fc = 0x10 then
    if adu.length > h + o then (idx adu (h + o)).bind fun c => .ok (some (6 + c.toNat)) else .ok none
  else if fc = 0x16 then .ok (some 7)
  else if fc = 0x18 then .ok (some 3)
  else if fc = 0x17 then
    if adu.length > h + 9 then (idx adu (h + 9)).bind fun c => .ok (some (10 + c.toNat)) else .ok none
  else .err (.fnCode fc)

theorem reqBody_eq (adu : Bytes) (h o : Nat) (fc : UInt8) :
    reqBody adu h o fc = ruleRes adu h fc (reqClass o fc) := by
  unfold reqBody reqClass
  by_cases c1 : 0x01 ≤ fc ∧ fc ≤ 0x06
  · rw [if_pos c1, if_pos c1]; rfl
  rw [if_neg c1, if_neg c1]
  by_cases c2 : fc = 0x07 ∨ fc = 0x0B ∨ fc = 0x0C ∨ fc = 0x11
  · rw [if_pos c2, if_pos c2]; rfl
  rw [if_neg c2, if_neg c2]
  by_cases c3 : fc = 0x0F ∨ fc = 0x10
  · rw [if_pos c3, if_pos c3]; exact count1_guarded adu (h + o) 6
  rw [if_neg c3, if_neg c3]
  by_cases c4 : fc = 0x16
  · rw [if_pos c4, if_pos c4]; rfl
  rw [if_neg c4, if_neg c4]
  by_cases c5 : fc = 0x18
  · rw [if_pos c5, if_pos c5]; rfl
  rw [if_neg c5, if_neg c5]
  by_cases c6 : fc = 0x17
  · rw [if_pos c6, if_pos c6]; exact count1_guarded adu (h + 9) 10
  rw [if_neg c6, if_neg c6]; rfl

/-- with the count at PDU offset 5 the request body is the specified predictor -/
theorem reqBody_eq_spec (adu : Bytes) (h : Nat) (fc : UInt8) (hfc : adu[h]? = some fc) :
    reqBody adu h 5 fc = predRes (.fnCode fc) (predict h .req adu) := by
  rw [reqBody_eq, reqClass_eq_spec, predRes_predict h .req adu fc hfc]

/-- for every other code it is the specified predictor whatever offset the 0x0F/0x10 arm reads -/
theorem reqBody_eq_spec_of_ne (adu : Bytes) (h o : Nat) (fc : UInt8) (hfc : adu[h]? = some fc)
    (hne : fc ≠ 0x0F ∧ fc ≠ 0x10) :
    reqBody adu h o fc = predRes (.fnCode fc) (predict h .req adu) := by
  rw [reqBody_eq, reqClass_eq_spec_of_ne o fc hne, predRes_predict h .req adu fc hfc]

/-! ### the four predictors in "header guard, then body" form -/

theorem Rtu.responsePduLen_eq (adu : Bytes) :
    Rtu.responsePduLen adu =
      if adu.length < 2 then .ok none else (idx adu 1).bind (rspBody adu 1) := rfl

theorem Tcp.responsePduLen_eq (adu : Bytes) :
    Tcp.responsePduLen adu =
      if adu.length < 8 then .ok none else (idx adu 7).bind (rspBody adu 7) := rfl

theorem Tcp.requestPduLen_eq (adu : Bytes) :
    Tcp.requestPduLen adu =
      if adu.length < 8 then .ok none else (idx adu 7).bind (reqBody adu 7 5) := rfl

/-- RTU requests: the 0x0F/0x10 arm reads ADU offset 4 = PDU offset 3 (finding D4) -/
theorem Rtu.requestPduLen_eq (adu : Bytes) :
    Rtu.requestPduLen adu =
      if adu.length < 2 then .ok none else (idx adu 1).bind (reqBody adu 1 3) := rfl

/-- a predictor of the shape "incomplete below `h + 1` bytes, else read the code at `h` and run `body`" -/
theorem guarded_eq_spec (adu : Bytes) (h : Nat) (d : Dir) (body : UInt8 → Res (Option Nat))
    (hb : ∀ fc, adu[h]? = some fc → body fc = predRes (.fnCode fc) (predict h d adu)) :
    (if adu.length < h + 1 then .ok none else (idx adu h).bind body)
      = predRes (.fnCode (adu[h]?.getD 0)) (predict h d adu) := by
  by_cases hl : adu.length < h + 1
  · rw [if_pos hl, predict_short h d adu hl]; rfl
  · have hlt : h < adu.length := by omega
    rw [if_neg hl, idx_eq_ok hlt, List.getElem?_eq_getElem hlt]
    exact hb _ (List.getElem?_eq_getElem hlt)

/-- `rtu::response_pdu_len` is the specified predictor (the error names the offending code) -/
theorem Rtu.responsePduLen_eq_spec (adu : Bytes) :
    Rtu.responsePduLen adu = predRes (.fnCode (adu[1]?.getD 0)) (predict 1 .rsp adu) := by
  rw [Rtu.responsePduLen_eq]
  exact guarded_eq_spec adu 1 .rsp _ (rspBody_eq_spec adu 1)

theorem Tcp.responsePduLen_eq_spec (adu : Bytes) :
    Tcp.responsePduLen adu = predRes (.fnCode (adu[7]?.getD 0)) (predict 7 .rsp adu) := by
  rw [Tcp.responsePduLen_eq]
  exact guarded_eq_spec adu 7 .rsp _ (rspBody_eq_spec adu 7)

theorem Tcp.requestPduLen_eq_spec (adu : Bytes) :
    Tcp.requestPduLen adu = predRes (.fnCode (adu[7]?.getD 0)) (predict 7 .req adu) := by
  rw [Tcp.requestPduLen_eq]
  exact guarded_eq_spec adu 7 .req _ (reqBody_eq_spec adu 7)

theorem Rtu.requestPduLen_eq_spec_of_ne (adu : Bytes)
    (hne : adu[1]? ≠ some 0x0F ∧ adu[1]? ≠ some 0x10) :
    Rtu.requestPduLen adu = predRes (.fnCode (adu[1]?.getD 0)) (predict 1 .req adu) := by
  rw [Rtu.requestPduLen_eq]
  apply guarded_eq_spec adu 1 .req
  intro fc hfc
  apply reqBody_eq_spec_of_ne adu 1 3 fc hfc
  rw [hfc] at hne
  exact ⟨fun h => hne.1 (by rw [h]), fun h => hne.2 (by rw [h])⟩

/-! ### bounds used by the scan-loop proofs -/

theorem ruleRes_ne_panic (adu : Bytes) (h : Nat) (fc : UInt8) (r : LenRule) :
    ruleRes adu h fc r ≠ .panic := by
  cases r with
  | fixed n => simp [ruleRes]
  | count1 base off => simp only [ruleRes]; cases adu[h + off]? <;> simp
  | count2 base off =>
    simp only [ruleRes]; cases adu[h + off]? <;> cases adu[h + off + 1]? <;> simp
  | unknown => simp [ruleRes]

end Modbus.Predict

import Modbus.Lemmas.Encode
import Modbus.Lemmas.Sem
import Modbus.Lemmas.Bytes
import Modbus.Lemmas.Total
/-
Helper lemmas for C13 (decoded values are coherent and safe to use):

* payload containers: `Coils.Ok` / `Data.Ok` ("the raw slice holds the bytes the quantity promises") is
  exactly what indexing and iteration need; taking a long enough prefix of the slice changes nothing
  a user can observe;
* inversion of the PDU decoders: what a successfully decoded value looks like (`Request.Decoded`,
  `Response.Decoded`);
* the decoders on the wire images of such values (decoding is idempotent up to normalisation);
* the D5b region on the wire bytes (`WmcMismatch`, `WmcShort`, `WmcTruncated`) and what follows for a
  decoded value inside / outside it;
* the ADU scan: the frame it returns is what the attempt saw at `loc.start`, its PDU a slice of the input.
-/
namespace Modbus
open Modbus.Total

/-! ### coherence of the payload containers -/

/-- indexing returns an item for every index below the length and nothing at or above it — for every
    index value — and iteration yields exactly that many items -/
def CoilsCoherent (c : Coils) : Prop :=
  (∀ i, i < c.len → ∃ b, c.get i = .ok (some b)) ∧
  (∀ i, c.len ≤ i → c.get i = .ok none) ∧
  (∃ l, c.iter = .ok l ∧ l.length = c.len)

def DataCoherent (d : Data) : Prop :=
  (∀ i, i < d.len → ∃ w, d.get i = .ok (some w)) ∧
  (∀ i, d.len ≤ i → d.get i = .ok none) ∧
  (∃ l, d.iter = .ok l ∧ l.length = d.len)

/-- the raw slice holds the ⌈quantity/8⌉ bytes the quantity promises -/
def Coils.Ok (c : Coils) : Prop := c.packedLen ≤ c.data.length

/-- the raw slice holds the 2·quantity bytes the quantity promises -/
def Data.Ok (d : Data) : Prop := d.quantity * 2 ≤ d.data.length

instance (c : Coils) : Decidable c.Ok := by unfold Coils.Ok; infer_instance
instance (d : Data) : Decidable d.Ok := by unfold Data.Ok; infer_instance

theorem Coils.get_of_ge (c : Coils) {i : Nat} (h : c.quantity ≤ i) : c.get i = .ok none := by
  simp [Coils.get, h]

theorem Coils.get_of_lt (c : Coils) {i : Nat} (hi : i < c.quantity) (hd : i / 8 < c.data.length) :
    c.get i = .ok (some (bitOf c.data[i / 8] (i % 8))) := by
  have hn : ¬ i ≥ c.quantity := by omega
  simp [Coils.get, hn, List.getElem?_eq_getElem hd]

theorem Coils.get_panic (c : Coils) {i : Nat} (hi : i < c.quantity) (hd : c.data.length ≤ i / 8) :
    c.get i = .panic := by
  have hn : ¬ i ≥ c.quantity := by omega
  simp [Coils.get, hn, List.getElem?_eq_none hd]

theorem Coils.Ok.index {c : Coils} (h : c.Ok) {i : Nat} (hi : i < c.quantity) : i / 8 < c.data.length := by
  unfold Coils.Ok Coils.packedLen packedCoilsLen at h
  omega

theorem Data.get_of_ge (d : Data) {i : Nat} (h : d.quantity ≤ i) : d.get i = .ok none := by
  simp [Data.get, h]

theorem Data.get_of_lt (d : Data) {i : Nat} (hi : i < d.quantity) (hd : i * 2 + 1 < d.data.length) :
    d.get i = .ok (some (rd16 d.data[i * 2] d.data[i * 2 + 1])) := by
  have hn : ¬ i ≥ d.quantity := by omega
  have h0 : i * 2 < d.data.length := by omega
  simp [Data.get, hn, List.getElem?_eq_getElem hd, List.getElem?_eq_getElem h0]

theorem Data.get_panic (d : Data) {i : Nat} (hi : i < d.quantity) (hd : d.data.length ≤ i * 2 + 1) :
    d.get i = .panic := by
  have hn : ¬ i ≥ d.quantity := by omega
  unfold Data.get
  rw [if_neg hn, List.getElem?_eq_none hd]
  cases d.data[i * 2]? <;> rfl

theorem Data.Ok.index {d : Data} (h : d.Ok) {i : Nat} (hi : i < d.quantity) : i * 2 + 1 < d.data.length := by
  unfold Data.Ok at h
  omega

/-- iteration, given that indexing works below the quantity: exactly the remaining items -/
theorem Coils.iterFrom_length (c : Coils) (hget : ∀ i, i < c.quantity → ∃ b, c.get i = .ok (some b)) :
    ∀ (fuel i : Nat) (acc : List Bool), i ≤ c.quantity → c.quantity - i < fuel →
      ∃ l, c.iterFrom fuel i acc = .ok l ∧ l.length = acc.length + (c.quantity - i) := by
  intro fuel
  induction fuel with
  | zero => intro i acc _ h; omega
  | succ fuel ih =>
    intro i acc hi hf
    rw [Coils.iterFrom]
    by_cases h : i < c.quantity
    · obtain ⟨b, hb⟩ := hget i h
      rw [hb]
      obtain ⟨l, hl, hlen⟩ := ih (i + 1) (b :: acc) (by omega) (by omega)
      exact ⟨l, hl, by rw [hlen, List.length_cons]; omega⟩
    · rw [c.get_of_ge (by omega)]
      exact ⟨acc.reverse, rfl, by rw [List.length_reverse]; omega⟩

theorem Data.iterFrom_length (d : Data) (hget : ∀ i, i < d.quantity → ∃ w, d.get i = .ok (some w)) :
    ∀ (fuel i : Nat) (acc : List UInt16), i ≤ d.quantity → d.quantity - i < fuel →
      ∃ l, d.iterFrom fuel i acc = .ok l ∧ l.length = acc.length + (d.quantity - i) := by
  intro fuel
  induction fuel with
  | zero => intro i acc _ h; omega
  | succ fuel ih =>
    intro i acc hi hf
    rw [Data.iterFrom]
    by_cases h : i < d.quantity
    · obtain ⟨w, hw⟩ := hget i h
      rw [hw]
      obtain ⟨l, hl, hlen⟩ := ih (i + 1) (w :: acc) (by omega) (by omega)
      exact ⟨l, hl, by rw [hlen, List.length_cons]; omega⟩
    · rw [d.get_of_ge (by omega)]
      exact ⟨acc.reverse, rfl, by rw [List.length_reverse]; omega⟩

/-- a container whose slice is long enough is coherent -/
theorem Coils.Ok.coherent {c : Coils} (h : c.Ok) : CoilsCoherent c := by
  have hget : ∀ i, i < c.quantity → ∃ b, c.get i = .ok (some b) :=
    fun i hi => ⟨_, c.get_of_lt hi (h.index hi)⟩
  refine ⟨hget, fun i hi => c.get_of_ge hi, ?_⟩
  obtain ⟨l, hl, hlen⟩ := c.iterFrom_length hget (c.quantity + 1) 0 [] (by omega) (by omega)
  exact ⟨l, hl, by simpa [Coils.len] using hlen⟩

theorem Data.Ok.coherent {d : Data} (h : d.Ok) : DataCoherent d := by
  have hget : ∀ i, i < d.quantity → ∃ w, d.get i = .ok (some w) :=
    fun i hi => ⟨_, d.get_of_lt hi (h.index hi)⟩
  refine ⟨hget, fun i hi => d.get_of_ge hi, ?_⟩
  obtain ⟨l, hl, hlen⟩ := d.iterFrom_length hget (d.quantity + 1) 0 [] (by omega) (by omega)
  exact ⟨l, hl, by simpa [Data.len] using hlen⟩

/-- … and conversely: a container whose slice is too short panics on its last item -/
theorem CoilsCoherent.ok {c : Coils} (h : CoilsCoherent c) : c.Ok := by
  by_cases hq : c.quantity = 0
  · simp [Coils.Ok, Coils.packedLen, packedCoilsLen, hq]
  · have hi : c.quantity - 1 < c.quantity := by omega
    obtain ⟨b, hb⟩ := h.1 (c.quantity - 1) hi
    by_cases hd : (c.quantity - 1) / 8 < c.data.length
    · unfold Coils.Ok Coils.packedLen packedCoilsLen; omega
    · rw [c.get_panic hi (by omega)] at hb; cases hb

theorem DataCoherent.ok {d : Data} (h : DataCoherent d) : d.Ok := by
  by_cases hq : d.quantity = 0
  · simp [Data.Ok, hq]
  · have hi : d.quantity - 1 < d.quantity := by omega
    obtain ⟨w, hw⟩ := h.1 (d.quantity - 1) hi
    by_cases hd : (d.quantity - 1) * 2 + 1 < d.data.length
    · unfold Data.Ok; omega
    · rw [d.get_panic hi (by omega)] at hw; cases hw

theorem coilsCoherent_iff (c : Coils) : CoilsCoherent c ↔ c.Ok := ⟨CoilsCoherent.ok, Coils.Ok.coherent⟩
theorem dataCoherent_iff (d : Data) : DataCoherent d ↔ d.Ok := ⟨DataCoherent.ok, Data.Ok.coherent⟩

theorem Coils.Ok.items_isSome {c : Coils} (h : c.Ok) : c.items.isSome := by
  obtain ⟨l, hl, _⟩ := h.coherent.2.2
  simp [Coils.items, hl]

theorem Data.Ok.items_isSome {d : Data} (h : d.Ok) : d.items.isSome := by
  obtain ⟨l, hl, _⟩ := h.coherent.2.2
  simp [Data.items, hl]

/-! ### what a user can observe depends only on `get` -/

theorem Coils.iterFrom_congr (c c' : Coils) (h : ∀ i, c.get i = c'.get i) :
    ∀ (fuel i : Nat) (acc : List Bool), c.iterFrom fuel i acc = c'.iterFrom fuel i acc := by
  intro fuel
  induction fuel with
  | zero => intro i acc; rfl
  | succ fuel ih =>
    intro i acc
    rw [Coils.iterFrom, Coils.iterFrom, h i]
    cases hg : c'.get i with
    | ok o => cases o with
      | none => rfl
      | some b => exact ih _ _
    | err e => rfl
    | panic => rfl

theorem Data.iterFrom_congr (d d' : Data) (h : ∀ i, d.get i = d'.get i) :
    ∀ (fuel i : Nat) (acc : List UInt16), d.iterFrom fuel i acc = d'.iterFrom fuel i acc := by
  intro fuel
  induction fuel with
  | zero => intro i acc; rfl
  | succ fuel ih =>
    intro i acc
    rw [Data.iterFrom, Data.iterFrom, h i]
    cases hg : d'.get i with
    | ok o => cases o with
      | none => rfl
      | some b => exact ih _ _
    | err e => rfl
    | panic => rfl

/-- keeping only the first `n ≥ ⌈quantity/8⌉` bytes of the slice changes no `get` -/
theorem Coils.get_take (c : Coils) (n : Nat) (hn : c.packedLen ≤ n) (i : Nat) :
    (Coils.mk (c.data.take n) c.quantity).get i = c.get i := by
  unfold Coils.get
  by_cases h : i ≥ c.quantity
  · simp [h]
  · have : i / 8 < n := by unfold Coils.packedLen packedCoilsLen at hn; omega
    simp only [h, if_false, List.getElem?_take, this, if_true]

theorem Coils.items_take (c : Coils) (n : Nat) (hn : c.packedLen ≤ n) :
    (Coils.mk (c.data.take n) c.quantity).items = c.items := by
  unfold Coils.items Coils.iter
  rw [Coils.iterFrom_congr _ c (c.get_take n hn)]

/-- the wire form (`copy_to`: used bytes, padding bits cleared) holds the same coils -/
theorem Coils.get_wire (c : Coils) (h : c.packedLen ≤ c.data.length) (i : Nat) :
    (Coils.mk c.wire c.quantity).get i = c.get i := by
  by_cases hi : i < c.quantity
  · have hb : c.Backed := h
    have hpb := packedCoilsLen_bound c.quantity
    have hd : i / 8 < c.data.length := by unfold Coils.packedLen packedCoilsLen at h; omega
    have hw : i / 8 < c.wire.length := by
      rw [Coils.wire_length, Nat.min_eq_left h]; unfold Coils.packedLen packedCoilsLen; omega
    rw [Coils.get_of_lt ⟨c.wire, c.quantity⟩ hi hw, c.get_of_lt hi hd]
    have := hb.bitAt_wire i (by omega)
    simp only [bitAt, List.getD_eq_getElem?_getD, List.getElem?_eq_getElem hw, List.getElem?_eq_getElem hd,
      Option.getD_some, hi, decide_true, Bool.true_and] at this
    rw [this]
  · rw [Coils.get_of_ge ⟨c.wire, c.quantity⟩ (by show c.quantity ≤ i; omega), c.get_of_ge (by omega)]

theorem Coils.items_wire (c : Coils) (h : c.packedLen ≤ c.data.length) :
    (Coils.mk c.wire c.quantity).items = c.items := by
  unfold Coils.items Coils.iter
  rw [Coils.iterFrom_congr _ c (c.get_wire h)]

/-- keeping only the first `n ≥ 2·quantity` bytes of the slice changes no `get` -/
theorem Data.get_take (d : Data) (n : Nat) (hn : d.quantity * 2 ≤ n) (i : Nat) :
    (Data.mk (d.data.take n) d.quantity).get i = d.get i := by
  unfold Data.get
  by_cases h : i ≥ d.quantity
  · simp [h]
  · have h1 : i * 2 < n := by omega
    have h2 : i * 2 + 1 < n := by omega
    simp only [h, if_false, List.getElem?_take, h1, h2, if_true]

theorem Data.items_take (d : Data) (n : Nat) (hn : d.quantity * 2 ≤ n) :
    (Data.mk (d.data.take n) d.quantity).items = d.items := by
  unfold Data.items Data.iter
  rw [Data.iterFrom_congr _ d (d.get_take n hn)]

/-! ### inversion of the request decoder -/

theorem FunctionCode.value_new (x : UInt8) : (FunctionCode.new x).value = x := by
  revert x; apply byte_cases; decide +kernel

def FunctionCode.isOther : FunctionCode → Bool
  | .readCoils | .readDiscreteInputs | .writeSingleCoil | .writeSingleRegister | .readHoldingRegisters
  | .readInputRegisters | .writeMultipleCoils | .writeMultipleRegisters | .readWriteMultipleRegisters => false
  | _ => true

/-- the quantity field of a write-multiple-coils request, read from the wire bytes -/
def wmcQuantity (b : Bytes) : Nat := (rd16 (b.getD 3 0) (b.getD 4 0)).toNat
/-- the byte-count field of a write-multiple-coils request, read from the wire bytes -/
def wmcByteCount (b : Bytes) : Nat := (b.getD 5 0).toNat

/-- the kinds the RESPONSE decoder leaves to its catch-all arm: as `isOther`, minus Read Exception Status -/
def FunctionCode.isOtherRsp : FunctionCode → Bool
  | .readExceptionStatus => false
  | fc => fc.isOther

inductive Request.Decoded (b : Bytes) : Request → Prop
  | readCoils (a q : UInt16) : Request.Decoded b (.readCoils a q)
  | readDiscreteInputs (a q : UInt16) : Request.Decoded b (.readDiscreteInputs a q)
  | readInputRegisters (a q : UInt16) : Request.Decoded b (.readInputRegisters a q)
  | readHoldingRegisters (a q : UInt16) : Request.Decoded b (.readHoldingRegisters a q)
  | writeSingleRegister (a w : UInt16) : Request.Decoded b (.writeSingleRegister a w)
  | writeSingleCoil (a : UInt16) (c : Bool) : Request.Decoded b (.writeSingleCoil a c)
  | writeMultipleCoils (a q : UInt16) :
      b[0]? = some 0x0F → q.toNat = wmcQuantity b → 6 + wmcByteCount b ≤ b.length →
      packedCoilsLen q.toNat ≤ 255 →
      Request.Decoded b (.writeMultipleCoils a ⟨b.drop 6, q.toNat⟩)
  | writeMultipleRegisters (a q : UInt16) (data : Bytes) :
      data.length = q.toNat * 2 → q.toNat * 2 ≤ 255 →
      Request.Decoded b (.writeMultipleRegisters a ⟨data, q.toNat⟩)
  | readWriteMultipleRegisters (ra rq wa q : UInt16) (data : Bytes) :
      data.length = q.toNat * 2 → q.toNat * 2 ≤ 255 →
      Request.Decoded b (.readWriteMultipleRegisters ra rq wa ⟨data, q.toNat⟩)
  | custom (fc : UInt8) (d : Bytes) :
      fc < 0x80 → (FunctionCode.new fc).isOther = true →
      Request.Decoded b (.custom (.custom fc) d)

theorem getD_of_lt (b : Bytes) {i : Nat} (h : i < b.length) : b.getD i 0 = b[i] := by
  simp [List.getD_eq_getElem?_getD, List.getElem?_eq_getElem h]

theorem head_eq {b : Bytes} (h0 : 0 < b.length) {x : UInt8} (hv : x = b[0]) : b[0]? = some x := by
  rw [List.getElem?_eq_getElem h0, hv]

/-- what `Request.decode` returns on success, and the function code it was decoded from -/
theorem Request.decode_inv {b : Bytes} {v : Request} (h : Request.decode b = .ok v) :
    Request.Decoded b v ∧ b[0]? = some v.fc.value := by
  unfold Request.decode at h
  by_cases he : b.isEmpty
  · rw [if_pos he] at h; cases h
  rw [if_neg he] at h
  have h0 := isEmpty_false_length he
  rw [idx_eq_ok h0, Res.bind'_ok] at h
  by_cases hm : b.length < minRequestPduLen (FunctionCode.new b[0])
  · rw [if_pos hm] at h; cases h
  rw [if_neg hm] at h
  have hv := FunctionCode.value_new b[0]
  cases hfc : FunctionCode.new b[0] <;> simp only [hfc, minRequestPduLen, FunctionCode.value] at hm h hv
  case readCoils | readDiscreteInputs | readInputRegisters | readHoldingRegisters | writeSingleRegister =>
    rw [read16_eq_ok (b := b) (i := 1) (by omega), read16_eq_ok (b := b) (i := 3) (by omega)] at h
    simp only [Res.bind'_ok, Res.ok.injEq] at h
    subst h
    exact ⟨by constructor, head_eq h0 hv⟩
  case writeSingleCoil =>
    rw [read16_eq_ok (b := b) (i := 1) (by omega), read16_eq_ok (b := b) (i := 3) (by omega)] at h
    simp only [Res.bind'_ok] at h
    cases hc : u16CoilToBool (rd16 b[3] b[3 + 1]) with
    | ok c =>
      rw [hc] at h; simp only [Res.bind'_ok, Res.ok.injEq] at h; subst h
      exact ⟨by constructor, head_eq h0 hv⟩
    | err e => rw [hc] at h; cases h
    | panic => rw [hc] at h; cases h
  case writeMultipleCoils =>
    rw [read16_eq_ok (b := b) (i := 1) (by omega), read16_eq_ok (b := b) (i := 3) (by omega),
      idx_eq_ok (b := b) (i := 5) (by omega)] at h
    simp only [Res.bind'_ok] at h
    by_cases hb : b.length < 6 + b[5].toNat ∨ packedCoilsLen (rd16 b[3] b[3 + 1]).toNat > 255
    · rw [if_pos hb] at h; cases h
    rw [if_neg hb] at h
    simp only [sliceFrom, if_pos (show 6 ≤ b.length by omega), Res.bind'_ok, Res.ok.injEq] at h
    subst h
    refine ⟨Request.Decoded.writeMultipleCoils _ _ (head_eq h0 hv) ?_ ?_ ?_, head_eq h0 hv⟩
    · simp only [wmcQuantity, getD_of_lt b (show 3 < b.length by omega), getD_of_lt b (show 4 < b.length by omega)]
    · simp only [wmcByteCount, getD_of_lt b (show 5 < b.length by omega)]; omega
    · omega
  case writeMultipleRegisters =>
    rw [read16_eq_ok (b := b) (i := 1) (by omega), read16_eq_ok (b := b) (i := 3) (by omega),
      idx_eq_ok (b := b) (i := 5) (by omega)] at h
    simp only [Res.bind'_ok] at h
    by_cases hb : b.length < 6 + b[5].toNat ∨ b[5].toNat ≠ (rd16 b[3] b[3 + 1]).toNat * 2
    · rw [if_pos hb] at h; cases h
    rw [if_neg hb] at h
    have hs : 6 ≤ 6 + b[5].toNat ∧ 6 + b[5].toNat ≤ b.length := by omega
    simp only [slice, if_pos hs, Res.bind'_ok, Res.ok.injEq] at h
    subst h
    have := b[5].toNat_lt
    refine ⟨Request.Decoded.writeMultipleRegisters _ _ _ ?_ ?_, head_eq h0 hv⟩
    · simp only [List.length_take, List.length_drop]; omega
    · omega
  case readWriteMultipleRegisters =>
    rw [read16_eq_ok (b := b) (i := 1) (by omega), read16_eq_ok (b := b) (i := 3) (by omega),
      read16_eq_ok (b := b) (i := 5) (by omega), read16_eq_ok (b := b) (i := 7) (by omega),
      idx_eq_ok (b := b) (i := 9) (by omega)] at h
    simp only [Res.bind'_ok] at h
    by_cases hb : b.length < 10 + b[9].toNat ∨ b[9].toNat ≠ (rd16 b[7] b[7 + 1]).toNat * 2
    · rw [if_pos hb] at h; cases h
    rw [if_neg hb] at h
    have hs : 10 ≤ 10 + b[9].toNat ∧ 10 + b[9].toNat ≤ b.length := by omega
    simp only [slice, if_pos hs, Res.bind'_ok, Res.ok.injEq] at h
    subst h
    have := b[9].toNat_lt
    refine ⟨Request.Decoded.readWriteMultipleRegisters _ _ _ _ _ ?_ ?_, head_eq h0 hv⟩
    · simp only [List.length_take, List.length_drop]; omega
    · omega
  all_goals
    by_cases hlt : b[0] < 0x80
    · rw [if_pos hlt] at h
      simp only [sliceFrom, if_pos (show 1 ≤ b.length by omega), Res.bind'_ok, Res.ok.injEq] at h
      subst h
      exact ⟨Request.Decoded.custom _ _ hlt (by rw [hfc]; rfl), List.getElem?_eq_getElem h0⟩
    · rw [if_neg hlt] at h; cases h

/-! ### inversion of the response decoder -/

/-- what a successfully decoded response looks like (`bc` is the byte-count field on the wire; a register
    response keeps the `bc / 2` whole registers, i.e. exactly `bc / 2 * 2` bytes) -/
inductive Response.Decoded : Response → Prop
  | readCoils (bc : UInt8) (data : Bytes) : data.length = bc.toNat →
      Response.Decoded (.readCoils ⟨data, bc.toNat * 8⟩)
  | readDiscreteInputs (bc : UInt8) (data : Bytes) : data.length = bc.toNat →
      Response.Decoded (.readDiscreteInputs ⟨data, bc.toNat * 8⟩)
  | writeSingleCoil (a : UInt16) : Response.Decoded (.writeSingleCoil a)
  | writeMultipleCoils (a q : UInt16) : Response.Decoded (.writeMultipleCoils a q)
  | writeSingleRegister (a w : UInt16) : Response.Decoded (.writeSingleRegister a w)
  | writeMultipleRegisters (a q : UInt16) : Response.Decoded (.writeMultipleRegisters a q)
  | readInputRegisters (bc : UInt8) (data : Bytes) : data.length = bc.toNat / 2 * 2 →
      Response.Decoded (.readInputRegisters ⟨data, bc.toNat / 2⟩)
  | readHoldingRegisters (bc : UInt8) (data : Bytes) : data.length = bc.toNat / 2 * 2 →
      Response.Decoded (.readHoldingRegisters ⟨data, bc.toNat / 2⟩)
  | readWriteMultipleRegisters (bc : UInt8) (data : Bytes) : data.length = bc.toNat / 2 * 2 →
      Response.Decoded (.readWriteMultipleRegisters ⟨data, bc.toNat / 2⟩)
  | readExceptionStatus (s : UInt8) : Response.Decoded (.readExceptionStatus s)
  | custom (fc : UInt8) (d : Bytes) : (FunctionCode.new fc).isOtherRsp = true →
      Response.Decoded (.custom (FunctionCode.new fc) d)

theorem Response.decode_inv {b : Bytes} {v : Response} (h : Response.decode b = .ok v) : Response.Decoded v := by
  unfold Response.decode at h
  by_cases he : b.isEmpty
  · rw [if_pos he] at h; cases h
  rw [if_neg he] at h
  have h0 := isEmpty_false_length he
  rw [idx_eq_ok h0, Res.bind'_ok] at h
  by_cases hm : b.length < minResponsePduLen (FunctionCode.new b[0])
  · rw [if_pos hm] at h; cases h
  rw [if_neg hm] at h
  cases hfc : FunctionCode.new b[0] <;> simp only [hfc, minResponsePduLen] at hm h
  case readCoils | readDiscreteInputs =>
    rw [idx_eq_ok (b := b) (i := 1) (by omega)] at h
    simp only [Res.bind'_ok] at h
    by_cases hb : b[1].toNat + 2 > b.length
    · rw [if_pos hb] at h; cases h
    rw [if_neg hb] at h
    have hs : 2 ≤ b[1].toNat + 2 ∧ b[1].toNat + 2 ≤ b.length := by omega
    simp only [slice, if_pos hs, Res.bind'_ok, Res.ok.injEq] at h
    subst h
    constructor
    simp only [List.length_take, List.length_drop]; omega
  case readInputRegisters | readHoldingRegisters | readWriteMultipleRegisters =>
    rw [idx_eq_ok (b := b) (i := 1) (by omega)] at h
    simp only [Res.bind'_ok] at h
    by_cases hb : b[1].toNat + 2 > b.length
    · rw [if_pos hb] at h; cases h
    rw [if_neg hb] at h
    have hs : 2 ≤ 2 + b[1].toNat / 2 * 2 ∧ 2 + b[1].toNat / 2 * 2 ≤ b.length := by omega
    simp only [slice, if_pos hs, Res.bind'_ok, Res.ok.injEq] at h
    subst h
    constructor
    simp only [List.length_take, List.length_drop]; omega
  case writeSingleCoil =>
    rw [read16_eq_ok (b := b) (i := 1) (by omega)] at h
    simp only [Res.bind'_ok, Res.ok.injEq] at h
    subst h; constructor
  case writeMultipleCoils | writeSingleRegister | writeMultipleRegisters =>
    rw [read16_eq_ok (b := b) (i := 1) (by omega), read16_eq_ok (b := b) (i := 3) (by omega)] at h
    simp only [Res.bind'_ok, Res.ok.injEq] at h
    subst h; constructor
  case readExceptionStatus =>
    rw [idx_eq_ok (b := b) (i := 1) (by omega)] at h
    simp only [Res.bind'_ok, Res.ok.injEq] at h
    subst h; constructor
  all_goals
    simp only [sliceFrom, if_pos (show 1 ≤ b.length by omega), Res.bind'_ok, Res.ok.injEq] at h
    subst h
    rw [← hfc]
    exact Response.Decoded.custom _ _ (by rw [hfc]; rfl)


/-! ### the decoders on explicit byte strings -/

theorem Request.decode_fixed_image :
    (∀ a q, Request.decode (Request.readCoils a q).image = .ok (.readCoils a q)) ∧
    (∀ a q, Request.decode (Request.readDiscreteInputs a q).image = .ok (.readDiscreteInputs a q)) ∧
    (∀ a q, Request.decode (Request.readInputRegisters a q).image = .ok (.readInputRegisters a q)) ∧
    (∀ a q, Request.decode (Request.readHoldingRegisters a q).image = .ok (.readHoldingRegisters a q)) ∧
    (∀ a q, Request.decode (Request.writeSingleRegister a q).image = .ok (.writeSingleRegister a q)) := by
  have h1 : FunctionCode.new 0x01 = .readCoils := by decide
  have h2 : FunctionCode.new 0x02 = .readDiscreteInputs := by decide
  have h3 : FunctionCode.new 0x03 = .readHoldingRegisters := by decide
  have h4 : FunctionCode.new 0x04 = .readInputRegisters := by decide
  have h6 : FunctionCode.new 0x06 = .writeSingleRegister := by decide
  refine ⟨?_, ?_, ?_, ?_, ?_⟩ <;> intro a q <;>
    simp [Request.image, be16, Request.decode, idx, read16, h1, h2, h3, h4, h6, minRequestPduLen, rd16_be16]

theorem u16CoilToBool_boolToU16Coil (s : Bool) : u16CoilToBool (boolToU16Coil s) = .ok s := by
  cases s <;> decide

theorem Request.decode_writeSingleCoil_image (a : UInt16) (s : Bool) :
    Request.decode (Request.writeSingleCoil a s).image = .ok (.writeSingleCoil a s) := by
  have h5 : FunctionCode.new 0x05 = .writeSingleCoil := by decide
  simp [Request.image, be16, Request.decode, idx, read16, h5, minRequestPduLen, rd16_be16,
    u16CoilToBool_boolToU16Coil]

theorem Request.decode_wmc_bytes (x1 x2 x3 x4 bc : UInt8) (rest : Bytes) (h : bc.toNat ≤ rest.length)
    (hq : packedCoilsLen (rd16 x3 x4).toNat ≤ 255) :
    Request.decode (0x0F :: x1 :: x2 :: x3 :: x4 :: bc :: rest) =
      .ok (.writeMultipleCoils (rd16 x1 x2) ⟨rest, (rd16 x3 x4).toNat⟩) := by
  have hfc : FunctionCode.new 0x0F = .writeMultipleCoils := by decide
  simp [Request.decode, idx, read16, hfc, minRequestPduLen, sliceFrom]
  rw [if_neg (by omega), if_neg (by omega)]

/-- a write-multiple-coils quantity whose packed size exceeds the one-byte count field (more than 2040 coils)
    is refused with `Err(ByteCount)`, however many data bytes follow -/
theorem Request.decode_wmc_bytes_big (x1 x2 x3 x4 bc : UInt8) (rest : Bytes)
    (hq : 255 < packedCoilsLen (rd16 x3 x4).toNat) :
    Request.decode (0x0F :: x1 :: x2 :: x3 :: x4 :: bc :: rest) = .err (.byteCount bc) := by
  have hfc : FunctionCode.new 0x0F = .writeMultipleCoils := by decide
  simp [Request.decode, idx, read16, hfc, minRequestPduLen, hq]

theorem Request.decode_wmr_bytes (x1 x2 x3 x4 bc : UInt8) (data : Bytes) (h : bc.toNat = data.length)
    (hq : bc.toNat = (rd16 x3 x4).toNat * 2) :
    Request.decode (0x10 :: x1 :: x2 :: x3 :: x4 :: bc :: data) =
      .ok (.writeMultipleRegisters (rd16 x1 x2) ⟨data, (rd16 x3 x4).toNat⟩) := by
  have hfc : FunctionCode.new 0x10 = .writeMultipleRegisters := by decide
  simp [Request.decode, idx, read16, hfc, minRequestPduLen, slice]
  rw [if_neg (by omega), if_neg (by omega), if_pos (by omega), h, List.take_length]
  rfl

theorem Request.decode_rwmr_bytes (r1 r2 r3 r4 x1 x2 x3 x4 bc : UInt8) (data : Bytes) (h : bc.toNat = data.length)
    (hq : bc.toNat = (rd16 x3 x4).toNat * 2) :
    Request.decode (0x17 :: r1 :: r2 :: r3 :: r4 :: x1 :: x2 :: x3 :: x4 :: bc :: data) =
      .ok (.readWriteMultipleRegisters (rd16 r1 r2) (rd16 r3 r4) (rd16 x1 x2) ⟨data, (rd16 x3 x4).toNat⟩) := by
  have hfc : FunctionCode.new 0x17 = .readWriteMultipleRegisters := by decide
  simp [Request.decode, idx, read16, hfc, minRequestPduLen, slice]
  rw [if_neg (by omega), if_neg (by omega), if_pos (by omega), h, List.take_length]
  rfl

theorem Request.decode_custom_bytes (fc : UInt8) (d : Bytes) (hlt : fc < 0x80)
    (ho : (FunctionCode.new fc).isOther = true) :
    Request.decode (fc :: d) = .ok (.custom (.custom fc) d) := by
  cases hfc : FunctionCode.new fc <;> simp [hfc, FunctionCode.isOther] at ho <;>
    simp [Request.decode, idx, hfc, minRequestPduLen, sliceFrom, hlt]

theorem Response.decode_custom_bytes (fc : UInt8) (d : Bytes) (ho : (FunctionCode.new fc).isOtherRsp = true) :
    Response.decode (fc :: d) = .ok (.custom (FunctionCode.new fc) d) := by
  cases hfc : FunctionCode.new fc <;> simp [hfc, FunctionCode.isOther, FunctionCode.isOtherRsp] at ho <;>
    simp [Response.decode, idx, hfc, minResponsePduLen, sliceFrom]

theorem Response.decode_coils_bytes (bc : UInt8) (data : Bytes) (h : bc.toNat = data.length) :
    Response.decode (0x01 :: bc :: data) = .ok (.readCoils ⟨data, bc.toNat * 8⟩) ∧
    Response.decode (0x02 :: bc :: data) = .ok (.readDiscreteInputs ⟨data, bc.toNat * 8⟩) := by
  have h1 : FunctionCode.new 0x01 = .readCoils := by decide
  have h2 : FunctionCode.new 0x02 = .readDiscreteInputs := by decide
  constructor <;> simp [Response.decode, idx, h1, h2, minResponsePduLen, slice] <;>
    rw [if_neg (by omega), if_neg (by omega), if_pos (by omega), h, List.take_length] <;> rfl

/-- a register response on explicit bytes: the `bc / 2` whole registers are kept, a dangling odd byte (and
    anything after the `bc` counted bytes) is not part of the decoded value -/
theorem Response.decode_regs_bytes (bc : UInt8) (data : Bytes) (h : bc.toNat ≤ data.length) :
    Response.decode (0x03 :: bc :: data) =
      .ok (.readHoldingRegisters ⟨data.take (bc.toNat / 2 * 2), bc.toNat / 2⟩) ∧
    Response.decode (0x04 :: bc :: data) =
      .ok (.readInputRegisters ⟨data.take (bc.toNat / 2 * 2), bc.toNat / 2⟩) ∧
    Response.decode (0x17 :: bc :: data) =
      .ok (.readWriteMultipleRegisters ⟨data.take (bc.toNat / 2 * 2), bc.toNat / 2⟩) := by
  have h3 : FunctionCode.new 0x03 = .readHoldingRegisters := by decide
  have h4 : FunctionCode.new 0x04 = .readInputRegisters := by decide
  have h17 : FunctionCode.new 0x17 = .readWriteMultipleRegisters := by decide
  refine ⟨?_, ?_, ?_⟩ <;> simp [Response.decode, idx, h3, h4, h17, minResponsePduLen, slice] <;>
    rw [if_neg (by omega), if_neg (by omega), if_pos (by omega)] <;> rfl

theorem Response.decode_fixed_image :
    (∀ a, Response.decode (Response.writeSingleCoil a).image = .ok (.writeSingleCoil a)) ∧
    (∀ a q, Response.decode (Response.writeMultipleCoils a q).image = .ok (.writeMultipleCoils a q)) ∧
    (∀ a q, Response.decode (Response.writeSingleRegister a q).image = .ok (.writeSingleRegister a q)) ∧
    (∀ a q, Response.decode (Response.writeMultipleRegisters a q).image = .ok (.writeMultipleRegisters a q)) ∧
    (∀ s, Response.decode (Response.readExceptionStatus s).image = .ok (.readExceptionStatus s)) := by
  have h7 : FunctionCode.new 0x07 = .readExceptionStatus := by decide
  have h5 : FunctionCode.new 0x05 = .writeSingleCoil := by decide
  have h6 : FunctionCode.new 0x06 = .writeSingleRegister := by decide
  have hf : FunctionCode.new 0x0F = .writeMultipleCoils := by decide
  have h10 : FunctionCode.new 0x10 = .writeMultipleRegisters := by decide
  refine ⟨?_, ?_, ?_, ?_, ?_⟩ <;> intros <;>
    simp [Response.image, be16, Response.decode, idx, read16, h5, h6, hf, h10, h7, minResponsePduLen, rd16_be16]


/-! ### decoding the wire image of a value (general in the value) -/

theorem UInt8.toNat_ofNat_of_le {n : Nat} (h : n ≤ 255) : (UInt8.ofNat n).toNat = n := by
  rw [UInt8.toNat_ofNat']; omega

theorem rd16_ofNat_split {n : Nat} (h : n < 65536) :
    (rd16 (UInt8.ofNat ((UInt16.ofNat n).toNat / 256)) (UInt8.ofNat ((UInt16.ofNat n).toNat % 256))).toNat = n := by
  rw [rd16_be16, UInt16.toNat_ofNat']; omega

theorem Request.redecode_wmc (a : UInt16) (c : Coils) (hq : c.quantity < 65536)
    (h1 : c.packedLen ≤ 255) (h2 : c.packedLen ≤ c.data.length) :
    Request.decode (Request.writeMultipleCoils a c).image =
      .ok (.writeMultipleCoils a ⟨c.wire, c.quantity⟩) := by
  have himg : (Request.writeMultipleCoils a c).image =
      0x0F :: UInt8.ofNat (a.toNat / 256) :: UInt8.ofNat (a.toNat % 256) ::
        UInt8.ofNat ((UInt16.ofNat c.quantity).toNat / 256) :: UInt8.ofNat ((UInt16.ofNat c.quantity).toNat % 256) ::
        UInt8.ofNat c.packedLen :: c.wire := rfl
  rw [himg, Request.decode_wmc_bytes _ _ _ _ _ _
    (by rw [UInt8.toNat_ofNat_of_le h1, Coils.wire_length]; omega)
    (by rw [rd16_ofNat_split hq]; exact h1), rd16_be16, rd16_ofNat_split hq]

theorem Request.redecode_wmr (a : UInt16) (d : Data) (hq : d.quantity < 65536)
    (h1 : d.quantity * 2 ≤ 255) (h2 : d.data.length = d.quantity * 2) :
    Request.decode (Request.writeMultipleRegisters a d).image = .ok (.writeMultipleRegisters a d) := by
  have himg : (Request.writeMultipleRegisters a d).image =
      0x10 :: UInt8.ofNat (a.toNat / 256) :: UInt8.ofNat (a.toNat % 256) ::
        UInt8.ofNat ((UInt16.ofNat d.quantity).toNat / 256) :: UInt8.ofNat ((UInt16.ofNat d.quantity).toNat % 256) ::
        UInt8.ofNat (d.quantity * 2) :: d.data := rfl
  rw [himg, Request.decode_wmr_bytes _ _ _ _ _ _
    (by rw [UInt8.toNat_ofNat_of_le h1, h2])
    (by rw [UInt8.toNat_ofNat_of_le h1, rd16_ofNat_split hq]), rd16_be16, rd16_ofNat_split hq]

theorem Request.redecode_rwmr (ra rq wa : UInt16) (d : Data) (hq : d.quantity < 65536)
    (h1 : d.quantity * 2 ≤ 255) (h2 : d.data.length = d.quantity * 2) :
    Request.decode (Request.readWriteMultipleRegisters ra rq wa d).image =
      .ok (.readWriteMultipleRegisters ra rq wa d) := by
  have himg : (Request.readWriteMultipleRegisters ra rq wa d).image =
      0x17 :: UInt8.ofNat (ra.toNat / 256) :: UInt8.ofNat (ra.toNat % 256) ::
        UInt8.ofNat (rq.toNat / 256) :: UInt8.ofNat (rq.toNat % 256) ::
        UInt8.ofNat (wa.toNat / 256) :: UInt8.ofNat (wa.toNat % 256) ::
        UInt8.ofNat ((UInt16.ofNat d.quantity).toNat / 256) :: UInt8.ofNat ((UInt16.ofNat d.quantity).toNat % 256) ::
        UInt8.ofNat (d.quantity * 2) :: d.data := rfl
  rw [himg, Request.decode_rwmr_bytes _ _ _ _ _ _ _ _ _ _
    (by rw [UInt8.toNat_ofNat_of_le h1, h2])
    (by rw [UInt8.toNat_ofNat_of_le h1, rd16_ofNat_split hq]), rd16_be16, rd16_be16, rd16_be16,
    rd16_ofNat_split hq]

theorem Response.redecode_coils (c : Coils) (h1 : c.packedLen ≤ 255) (h2 : c.packedLen ≤ c.data.length) :
    Response.decode (Response.readCoils c).image =
      .ok (.readCoils ⟨c.wire, c.packedLen * 8⟩) ∧
    Response.decode (Response.readDiscreteInputs c).image =
      .ok (.readDiscreteInputs ⟨c.wire, c.packedLen * 8⟩) := by
  have hl : (UInt8.ofNat c.packedLen).toNat = c.wire.length := by
    rw [UInt8.toNat_ofNat_of_le h1, Coils.wire_length]; omega
  have := Response.decode_coils_bytes (UInt8.ofNat c.packedLen) c.wire hl
  rw [UInt8.toNat_ofNat_of_le h1] at this
  exact this

theorem Response.redecode_regs (d : Data) (h1 : d.quantity * 2 ≤ 255) (h2 : d.quantity * 2 ≤ d.data.length) :
    Response.decode (Response.readHoldingRegisters d).image =
      .ok (.readHoldingRegisters ⟨d.data.take (d.quantity * 2), d.quantity⟩) ∧
    Response.decode (Response.readInputRegisters d).image =
      .ok (.readInputRegisters ⟨d.data.take (d.quantity * 2), d.quantity⟩) ∧
    Response.decode (Response.readWriteMultipleRegisters d).image =
      .ok (.readWriteMultipleRegisters ⟨d.data.take (d.quantity * 2), d.quantity⟩) := by
  have hl : (UInt8.ofNat (d.quantity * 2)).toNat ≤ (d.data.take (d.quantity * 2)).length := by
    rw [UInt8.toNat_ofNat_of_le h1, List.length_take]; omega
  have := Response.decode_regs_bytes (UInt8.ofNat (d.quantity * 2)) (d.data.take (d.quantity * 2)) hl
  rw [UInt8.toNat_ofNat_of_le h1, Nat.mul_div_cancel _ (by omega : 0 < 2), List.take_take, Nat.min_self] at this
  exact this


/-! ### the write-multiple-coils defect region (open finding D5b), on the wire bytes -/

/- The fields are read with `getD … 0`, so the predicates are total and decidable on every byte string;
   a string too short to have the fields (fewer than six bytes) is rejected by the decoder anyway, so
   the default never matters for an accepted input. -/

/-- function code 0x0F and the byte-count field differs from ⌈quantity/8⌉ -/
def WmcMismatch (b : Bytes) : Prop := b[0]? = some 0x0F ∧ wmcByteCount b ≠ (wmcQuantity b + 7) / 8
/-- function code 0x0F and the byte-count field is smaller than ⌈quantity/8⌉ -/
def WmcShort (b : Bytes) : Prop := b[0]? = some 0x0F ∧ wmcByteCount b < (wmcQuantity b + 7) / 8
/-- function code 0x0F and fewer than ⌈quantity/8⌉ data bytes follow the six header bytes -/
def WmcTruncated (b : Bytes) : Prop := b[0]? = some 0x0F ∧ b.length - 6 < (wmcQuantity b + 7) / 8

instance (b : Bytes) : Decidable (WmcMismatch b) := by unfold WmcMismatch; infer_instance
instance (b : Bytes) : Decidable (WmcShort b) := by unfold WmcShort; infer_instance
instance (b : Bytes) : Decidable (WmcTruncated b) := by unfold WmcTruncated; infer_instance

theorem WmcShort.mismatch {b : Bytes} (h : WmcShort b) : WmcMismatch b := ⟨h.1, by have := h.2; omega⟩

/-- the payload container (if any) holds the bytes its quantity promises -/
def Request.PayloadOk : Request → Prop
  | .writeMultipleCoils _ c => c.Ok
  | .writeMultipleRegisters _ d | .readWriteMultipleRegisters _ _ _ d | .diagnostics _ d => d.Ok
  | _ => True

def Response.PayloadOk : Response → Prop
  | .readCoils c | .readDiscreteInputs c => c.Ok
  | .readInputRegisters d | .readHoldingRegisters d | .readWriteMultipleRegisters d | .diagnostics d => d.Ok
  | _ => True

/-! ### facts about decoded requests -/

theorem Request.Decoded.payloadOk {b : Bytes} {v : Request} (hd : Request.Decoded b v)
    (h : ¬ WmcTruncated b) : v.PayloadOk := by
  cases hd with
  | writeMultipleCoils a q h0 hq hl =>
    show packedCoilsLen q.toNat ≤ (b.drop 6).length
    have : ¬ (b.length - 6 < (wmcQuantity b + 7) / 8) := fun h' => h ⟨h0, h'⟩
    rw [List.length_drop, hq]; unfold packedCoilsLen
    omega
  | writeMultipleRegisters a q data h1 h2 => show q.toNat * 2 ≤ data.length; omega
  | readWriteMultipleRegisters ra rq wa q data h1 h2 => show q.toNat * 2 ≤ data.length; omega
  | _ => trivial

theorem Request.Decoded.not_truncated {b : Bytes} {v : Request} (hd : Request.Decoded b v)
    (hh : b[0]? = some v.fc.value) (hp : v.PayloadOk) : ¬ WmcTruncated b := by
  intro ⟨h0, ht⟩
  rw [h0] at hh
  have hh := Option.some.inj hh
  cases hd with
  | writeMultipleCoils a q h0 hq hl =>
    have hp : packedCoilsLen q.toNat ≤ (b.drop 6).length := hp
    rw [List.length_drop, hq] at hp; unfold packedCoilsLen at hp
    omega
  | custom fc d hlt ho =>
    have : fc = 0x0F := hh.symm
    subst this
    exact absurd ho (by decide)
  | _ => exact absurd hh (by simp [Request.fc, FunctionCode.value])

theorem Request.Decoded.not_truncated_of_not_short {b : Bytes} {v : Request} (hd : Request.Decoded b v)
    (hh : b[0]? = some v.fc.value) (h : ¬ WmcShort b) : ¬ WmcTruncated b := by
  intro ⟨h0, ht⟩
  rw [h0] at hh
  have hh := Option.some.inj hh
  cases hd with
  | writeMultipleCoils a q h0 hq hl => exact h ⟨h0, by omega⟩
  | custom fc d hlt ho =>
    have : fc = 0x0F := hh.symm
    subst this
    exact absurd ho (by decide)
  | _ => exact absurd hh (by simp [Request.fc, FunctionCode.value])

theorem Request.Decoded.pduLen_ne_panic {b : Bytes} {v : Request} (hd : Request.Decoded b v) :
    v.pduLen ≠ .panic := by
  cases hd <;> simp [Request.pduLen]

theorem Request.Decoded.encodable {b : Bytes} {v : Request} (hd : Request.Decoded b v)
    (h : ¬ WmcShort b) : v.Encodable := by
  cases hd with
  | writeMultipleCoils a q h0 hq hl =>
    have h' : ¬ (wmcByteCount b < (wmcQuantity b + 7) / 8) := fun h' => h ⟨h0, h'⟩
    have hbc : wmcByteCount b ≤ 255 := by
      have := (b.getD 5 0).toNat_lt; unfold wmcByteCount; omega
    show packedCoilsLen q.toNat ≤ 255 ∧ packedCoilsLen q.toNat ≤ (b.drop 6).length
    rw [List.length_drop, hq]; unfold packedCoilsLen
    omega
  | writeMultipleRegisters a q data h1 h2 => exact h2
  | readWriteMultipleRegisters ra rq wa q data h1 h2 => exact h2
  | _ => trivial

/-- outside the TRUNCATED class (the container holds the bytes its quantity promises) a decoded request is
    encodable: the decoder refuses quantities whose packed size does not fit the count field -/
theorem Request.Decoded.encodable_of_payloadOk {b : Bytes} {v : Request} (hd : Request.Decoded b v)
    (hp : v.PayloadOk) : v.Encodable := by
  cases hd with
  | writeMultipleCoils a q h0 hq hl h255 => exact ⟨h255, hp⟩
  | writeMultipleRegisters a q data h1 h2 => exact h2
  | readWriteMultipleRegisters ra rq wa q data h1 h2 => exact h2
  | _ => trivial

/-- a write-multiple-coils value of more than 2040 coils is refused by the encoder (an error, not a panic) -/
theorem Request.encode_wmc_big (a : UInt16) (c : Coils) (h : 255 < c.packedLen) (buf : Bytes) :
    (Request.writeMultipleCoils a c).encode buf = .err .bufferSize := by
  unfold Request.encode
  simp only [Request.pduLen, Res.bind'_ok]
  by_cases hb : buf.length < 6 + c.packedLen
  · rw [if_pos hb]
  · rw [if_neg hb]
    have hw := applyWrites_from_zero [(0, [(Request.writeMultipleCoils a c).fc.value]), (1, be16 a)] buf
      (by simp [Tiled]) (by simp [segBytes]; omega)
    have hu : u8TryFrom c.packedLen = .err .bufferSize := by
      simp only [u8TryFrom, if_neg (show ¬ c.packedLen ≤ 255 by omega)]
    simp only [hw, Res.bind'_ok, hu, Res.bind'_err]

theorem Request.Decoded.encode_ne_panic {b : Bytes} {v : Request} (hd : Request.Decoded b v)
    (hp : v.PayloadOk) (buf : Bytes) : v.encode buf ≠ .panic := by
  by_cases he : v.Encodable
  · rw [Request.encode_eq v buf he]; split <;> simp
  · cases hd with
    | writeMultipleCoils a q h0 hq hl =>
      have hp : packedCoilsLen q.toNat ≤ (b.drop 6).length := hp
      have : 255 < (Coils.mk (b.drop 6) q.toNat).packedLen := by
        apply Nat.lt_of_not_le
        intro h1
        exact he ⟨h1, hp⟩
      rw [Request.encode_wmc_big _ _ this]; simp
    | writeMultipleRegisters a q data h1 h2 => exact absurd h2 he
    | readWriteMultipleRegisters ra rq wa q data h1 h2 => exact absurd h2 he
    | _ => exact absurd trivial he

/-- decoding the wire image of a decoded request succeeds and gives a value with the same meaning -/
theorem Request.Decoded.redecode {b : Bytes} {v : Request} (hd : Request.Decoded b v) (he : v.Encodable) :
    ∃ v', Request.decode v.image = .ok v' ∧ v'.sem = v.sem := by
  cases hd with
  | readCoils a q => exact ⟨_, Request.decode_fixed_image.1 a q, rfl⟩
  | readDiscreteInputs a q => exact ⟨_, Request.decode_fixed_image.2.1 a q, rfl⟩
  | readInputRegisters a q => exact ⟨_, Request.decode_fixed_image.2.2.1 a q, rfl⟩
  | readHoldingRegisters a q => exact ⟨_, Request.decode_fixed_image.2.2.2.1 a q, rfl⟩
  | writeSingleRegister a q => exact ⟨_, Request.decode_fixed_image.2.2.2.2 a q, rfl⟩
  | writeSingleCoil a c => exact ⟨_, Request.decode_writeSingleCoil_image a c, rfl⟩
  | writeMultipleCoils a q h0 hq hl =>
    obtain ⟨h1, h2⟩ := he
    refine ⟨_, Request.redecode_wmc a _ (by have := q.toNat_lt; simpa using this) h1 h2, ?_⟩
    show (Coils.items _).map _ = (Coils.items _).map _
    rw [Coils.items_wire ⟨b.drop 6, q.toNat⟩ h2]
  | writeMultipleRegisters a q data h1 h2 =>
    exact ⟨_, Request.redecode_wmr a _ (by have := q.toNat_lt; simpa using this) h2 h1, rfl⟩
  | readWriteMultipleRegisters ra rq wa q data h1 h2 =>
    exact ⟨_, Request.redecode_rwmr ra rq wa _ (by have := q.toNat_lt; simpa using this) h2 h1, rfl⟩
  | custom fc d hlt ho => exact ⟨_, Request.decode_custom_bytes fc d hlt ho, rfl⟩

theorem Request.Decoded.sem_isSome {b : Bytes} {v : Request} (hd : Request.Decoded b v)
    (hp : v.PayloadOk) : v.sem.isSome = true := by
  cases hd with
  | writeMultipleCoils a q h0 hq hl =>
    have := Coils.Ok.items_isSome (c := ⟨b.drop 6, q.toNat⟩) hp
    simpa [Request.sem] using this
  | writeMultipleRegisters a q data h1 h2 =>
    have := Data.Ok.items_isSome (d := ⟨data, q.toNat⟩) hp
    simpa [Request.sem] using this
  | readWriteMultipleRegisters ra rq wa q data h1 h2 =>
    have := Data.Ok.items_isSome (d := ⟨data, q.toNat⟩) hp
    simpa [Request.sem] using this
  | _ => rfl


/-! ### facts about decoded responses (no exclusion: the response decoder derives the quantity from the byte count) -/

theorem Response.Decoded.encodable {v : Response} (hd : Response.Decoded v) : v.Encodable := by
  cases hd with
  | readCoils bc data h | readDiscreteInputs bc data h =>
    have := bc.toNat_lt
    show packedCoilsLen (bc.toNat * 8) ≤ 255 ∧ packedCoilsLen (bc.toNat * 8) ≤ data.length
    unfold packedCoilsLen; omega
  | readInputRegisters bc data h | readHoldingRegisters bc data h | readWriteMultipleRegisters bc data h =>
    have := bc.toNat_lt
    show bc.toNat / 2 * 2 ≤ 255 ∧ bc.toNat / 2 * 2 ≤ data.length
    omega
  | _ => trivial

theorem Response.Decoded.payloadOk {v : Response} (hd : Response.Decoded v) : v.PayloadOk := by
  cases hd with
  | readCoils bc data h | readDiscreteInputs bc data h =>
    show packedCoilsLen (bc.toNat * 8) ≤ data.length
    unfold packedCoilsLen; omega
  | readInputRegisters bc data h | readHoldingRegisters bc data h | readWriteMultipleRegisters bc data h =>
    show bc.toNat / 2 * 2 ≤ data.length
    omega
  | _ => trivial

theorem Response.Decoded.pduLen_ne_panic {v : Response} (hd : Response.Decoded v) : v.pduLen ≠ .panic := by
  cases hd <;> simp [Response.pduLen]

/-- decoding the wire image of a decoded response succeeds and gives a value with the same meaning
    (a decoded register response holds whole registers only, so nothing is dropped) -/
theorem Response.Decoded.redecode {v : Response} (hd : Response.Decoded v) :
    ∃ v', Response.decode v.image = .ok v' ∧ v'.sem = v.sem := by
  have he := hd.encodable
  cases hd with
  | readCoils bc data h =>
    obtain ⟨h1, h2⟩ := he
    refine ⟨_, (Response.redecode_coils _ h1 h2).1, ?_⟩
    have hq : (Coils.mk data (bc.toNat * 8)).packedLen * 8 = bc.toNat * 8 := by
      show packedCoilsLen (bc.toNat * 8) * 8 = _; unfold packedCoilsLen; omega
    rw [hq]
    show (Coils.items _).map _ = (Coils.items _).map _
    rw [Coils.items_wire ⟨data, bc.toNat * 8⟩ h2]
  | readDiscreteInputs bc data h =>
    obtain ⟨h1, h2⟩ := he
    refine ⟨_, (Response.redecode_coils _ h1 h2).2, ?_⟩
    have hq : (Coils.mk data (bc.toNat * 8)).packedLen * 8 = bc.toNat * 8 := by
      show packedCoilsLen (bc.toNat * 8) * 8 = _; unfold packedCoilsLen; omega
    rw [hq]
    show (Coils.items _).map _ = (Coils.items _).map _
    rw [Coils.items_wire ⟨data, bc.toNat * 8⟩ h2]
  | readHoldingRegisters bc data h =>
    obtain ⟨h1, h2⟩ := he
    refine ⟨_, (Response.redecode_regs _ h1 h2).1, ?_⟩
    show (Data.items _).map _ = (Data.items _).map _
    rw [Data.items_take ⟨data, bc.toNat / 2⟩ _ (Nat.le_refl _)]
  | readInputRegisters bc data h =>
    obtain ⟨h1, h2⟩ := he
    refine ⟨_, (Response.redecode_regs _ h1 h2).2.1, ?_⟩
    show (Data.items _).map _ = (Data.items _).map _
    rw [Data.items_take ⟨data, bc.toNat / 2⟩ _ (Nat.le_refl _)]
  | readWriteMultipleRegisters bc data h =>
    obtain ⟨h1, h2⟩ := he
    refine ⟨_, (Response.redecode_regs _ h1 h2).2.2, ?_⟩
    show (Data.items _).map _ = (Data.items _).map _
    rw [Data.items_take ⟨data, bc.toNat / 2⟩ _ (Nat.le_refl _)]
  | writeSingleCoil a => exact ⟨_, Response.decode_fixed_image.1 a, rfl⟩
  | writeMultipleCoils a q => exact ⟨_, Response.decode_fixed_image.2.1 a q, rfl⟩
  | writeSingleRegister a q => exact ⟨_, Response.decode_fixed_image.2.2.1 a q, rfl⟩
  | writeMultipleRegisters a q => exact ⟨_, Response.decode_fixed_image.2.2.2.1 a q, rfl⟩
  | readExceptionStatus s => exact ⟨_, Response.decode_fixed_image.2.2.2.2 s, rfl⟩
  | custom fc d ho =>
    refine ⟨_, ?_, rfl⟩
    show Response.decode ((FunctionCode.new fc).value :: d) = _
    rw [FunctionCode.value_new]
    exact Response.decode_custom_bytes fc d ho

/-- a decoded register response holds exactly `2 · quantity` bytes, at most 254 -/
theorem Response.Decoded.dataExact {v : Response} (hd : Response.Decoded v) :
    match v with
    | .readInputRegisters d | .readHoldingRegisters d | .readWriteMultipleRegisters d =>
        d.data.length = d.quantity * 2 ∧ d.quantity * 2 ≤ 255
    | _ => True := by
  cases hd with
  | readInputRegisters bc data h | readHoldingRegisters bc data h | readWriteMultipleRegisters bc data h =>
    have := bc.toNat_lt
    exact ⟨h, by show bc.toNat / 2 * 2 ≤ 255; omega⟩
  | _ => trivial

/-- **decoding is idempotent on the nose for responses**: the wire image of a decoded response decodes to
    the very same value (register payloads hold whole registers only, coil payloads whole bytes) -/
theorem Response.Decoded.redecode_exact {v : Response} (hd : Response.Decoded v) :
    Response.decode v.image = .ok v := by
  have he := hd.encodable
  cases hd with
  | readCoils bc data h =>
    obtain ⟨h1, h2⟩ := he
    have hq : (Coils.mk data (bc.toNat * 8)).packedLen = bc.toNat := by
      show packedCoilsLen (bc.toNat * 8) = _; unfold packedCoilsLen; omega
    have := (Response.redecode_coils _ h1 h2).1
    rw [Coils.wire_of_multiple _ (by show bc.toNat * 8 % 8 = 0; omega), hq,
      List.take_of_length_le (by show data.length ≤ _; omega)] at this
    exact this
  | readDiscreteInputs bc data h =>
    obtain ⟨h1, h2⟩ := he
    have hq : (Coils.mk data (bc.toNat * 8)).packedLen = bc.toNat := by
      show packedCoilsLen (bc.toNat * 8) = _; unfold packedCoilsLen; omega
    have := (Response.redecode_coils _ h1 h2).2
    rw [Coils.wire_of_multiple _ (by show bc.toNat * 8 % 8 = 0; omega), hq,
      List.take_of_length_le (by show data.length ≤ _; omega)] at this
    exact this
  | readHoldingRegisters bc data h =>
    obtain ⟨h1, h2⟩ := he
    have := (Response.redecode_regs _ h1 h2).1
    rw [List.take_of_length_le (by show data.length ≤ bc.toNat / 2 * 2; omega)] at this
    exact this
  | readInputRegisters bc data h =>
    obtain ⟨h1, h2⟩ := he
    have := (Response.redecode_regs _ h1 h2).2.1
    rw [List.take_of_length_le (by show data.length ≤ bc.toNat / 2 * 2; omega)] at this
    exact this
  | readWriteMultipleRegisters bc data h =>
    obtain ⟨h1, h2⟩ := he
    have := (Response.redecode_regs _ h1 h2).2.2
    rw [List.take_of_length_le (by show data.length ≤ bc.toNat / 2 * 2; omega)] at this
    exact this
  | writeSingleCoil a => exact Response.decode_fixed_image.1 a
  | writeMultipleCoils a q => exact Response.decode_fixed_image.2.1 a q
  | writeSingleRegister a q => exact Response.decode_fixed_image.2.2.1 a q
  | writeMultipleRegisters a q => exact Response.decode_fixed_image.2.2.2.1 a q
  | readExceptionStatus s => exact Response.decode_fixed_image.2.2.2.2 s
  | custom fc d ho =>
    show Response.decode ((FunctionCode.new fc).value :: d) = _
    rw [FunctionCode.value_new]
    exact Response.decode_custom_bytes fc d ho

theorem Response.Decoded.sem_isSome {v : Response} (hd : Response.Decoded v) : v.sem.isSome = true := by
  have hp := hd.payloadOk
  cases hd with
  | readCoils bc data h | readDiscreteInputs bc data h =>
    have := Coils.Ok.items_isSome (c := ⟨data, bc.toNat * 8⟩) hp
    simpa [Response.sem] using this
  | readInputRegisters bc data h | readHoldingRegisters bc data h | readWriteMultipleRegisters bc data h =>
    have := Data.Ok.items_isSome (d := ⟨data, bc.toNat / 2⟩) hp
    simpa [Response.sem] using this
  | _ => rfl


/-! ### the ADU decoders: the frame found is what the attempt saw at its start offset, and its PDU is a
contiguous slice of the input -/

theorem scanFrom_found {F : Type} (att : Attempt F) (buf : Bytes) (f : F) (loc : Loc) :
    ∀ d, scanFrom att buf d = .ok (some (f, loc)) → att (buf.drop loc.start) = .ok (some (f, loc.size)) := by
  suffices h : ∀ k d, buf.length - d ≤ k → scanFrom att buf d = .ok (some (f, loc)) →
      att (buf.drop loc.start) = .ok (some (f, loc.size)) from
    fun d => h (buf.length - d) d (Nat.le_refl _)
  intro k
  induction k with
  | zero =>
    intro d hk h
    rw [scanFrom, dif_pos (by omega)] at h; cases h
  | succ k ih =>
    intro d hk h
    rw [scanFrom] at h
    by_cases hd : d + 1 ≥ buf.length
    · rw [dif_pos hd] at h; cases h
    · rw [dif_neg hd] at h
      cases hatt : att (buf.drop d) with
      | panic => rw [hatt] at h; cases h
      | ok o =>
        rw [hatt] at h
        cases o with
        | none => cases h
        | some p =>
          obtain ⟨f', sz⟩ := p
          simp only [Res.ok.injEq, Option.some.injEq, Prod.mk.injEq] at h
          obtain ⟨rfl, rfl⟩ := h
          exact hatt
      | err e =>
        rw [hatt] at h
        simp only at h
        by_cases hm : d + 1 ≥ maxFrameLen
        · rw [if_pos hm] at h; cases h
        · rw [if_neg hm] at h
          exact ih (d + 1) (by omega) h

theorem scan_found_at {F : Type} (att : Attempt F) (buf : Bytes) (f : F) (loc : Loc)
    (h : scan att buf = .ok (some (f, loc))) : att (buf.drop loc.start) = .ok (some (f, loc.size)) := by
  unfold scan at h
  by_cases he : buf.isEmpty
  · rw [if_pos he] at h; cases h
  · rw [if_neg he] at h; exact scanFrom_found att buf f loc 0 h

theorem mkAttempt_found {F : Type} (predict : Bytes → Res (Option Nat))
    (extract : Bytes → Nat → Res (Option F)) (oh : Nat) (raw : Bytes) (f : F) (sz : Nat)
    (h : mkAttempt predict extract oh raw = .ok (some (f, sz))) :
    ∃ n, extract raw n = .ok (some f) ∧ sz = n + oh := by
  unfold mkAttempt at h
  cases hp : predict raw with
  | err e => rw [hp] at h; cases h
  | panic => rw [hp] at h; cases h
  | ok o =>
    rw [hp] at h
    cases o with
    | none => cases h
    | some n =>
      simp only [Res.bind'_ok] at h
      cases hx : extract raw n with
      | err e => rw [hx] at h; cases h
      | panic => rw [hx] at h; cases h
      | ok r =>
        rw [hx] at h
        cases r with
        | none => simp at h
        | some f' =>
          simp only [Res.map_ok, Res.ok.injEq, Option.some.injEq, Prod.mk.injEq] at h
          obtain ⟨rfl, rfl⟩ := h
          exact ⟨n, hx, rfl⟩

theorem Rtu.extractFrame_pdu (raw : Bytes) (n : Nat) (f : Rtu.Frame)
    (h : Rtu.extractFrame raw n = .ok (some f)) : f.pdu = (raw.drop 1).take n ∧ n + 3 ≤ raw.length := by
  unfold Rtu.extractFrame at h
  by_cases he : raw.isEmpty
  · rw [if_pos he] at h; cases h
  rw [if_neg he] at h
  by_cases ho : 1 + n + 2 ≥ usizeLimit
  · rw [if_pos ho] at h; cases h
  rw [if_neg ho] at h
  simp only at h
  by_cases hl : raw.length ≥ 1 + n + 2
  · rw [if_pos hl] at h
    cases hr : read16 (raw.drop (1 + n)) 0 with
    | err e => rw [hr] at h; cases h
    | panic => rw [hr] at h; cases h
    | ok ex =>
      rw [hr] at h
      simp only [Res.bind'_ok] at h
      by_cases hc : (ex != crc16 (raw.take (1 + n))) = true
      · rw [if_pos hc] at h; cases h
      · rw [if_neg hc] at h
        cases hi : idx (raw.take (1 + n)) 0 with
        | err e => rw [hi] at h; cases h
        | panic => rw [hi] at h; cases h
        | ok s =>
          rw [hi] at h
          simp only [Res.bind'_ok, Res.ok.injEq, Option.some.injEq] at h
          subst h
          refine ⟨?_, by omega⟩
          show (raw.take (1 + n)).drop 1 = (raw.drop 1).take n
          rw [List.drop_take]
          congr 1; omega
  · rw [if_neg hl] at h; cases h

theorem Tcp.extractFrame_pdu (raw : Bytes) (n : Nat) (f : Tcp.Frame)
    (h : Tcp.extractFrame raw n = .ok (some f)) : f.pdu = (raw.drop 7).take n ∧ n + 7 ≤ raw.length := by
  obtain ⟨hl, _, _, rfl⟩ := Tcp.extractFrame_some h
  exact ⟨rfl, by omega⟩

/-- the PDU of a frame found by the RTU scan is the `n` bytes after the slave byte at `loc.start` -/
theorem Rtu.scan_pdu_slice (att : Attempt Rtu.Frame) (predict : Bytes → Res (Option Nat))
    (hatt : att = mkAttempt predict Rtu.extractFrame 3) (buf : Bytes) (f : Rtu.Frame) (loc : Loc)
    (h : scan att buf = .ok (some (f, loc))) :
    ∃ n, f.pdu = (buf.drop (loc.start + 1)).take n ∧ loc.size = n + 3 ∧ loc.start + n + 3 ≤ buf.length := by
  subst hatt
  obtain ⟨n, hx, hsz⟩ := mkAttempt_found _ _ _ _ _ _ (scan_found_at _ buf f loc h)
  obtain ⟨hp, hl⟩ := Rtu.extractFrame_pdu _ _ _ hx
  refine ⟨n, ?_, hsz, ?_⟩
  · rw [hp, List.drop_drop]
  · rw [List.length_drop] at hl; omega

theorem Tcp.scan_pdu_slice (att : Attempt Tcp.Frame) (predict : Bytes → Res (Option Nat))
    (hatt : att = mkAttempt predict Tcp.extractFrame 7) (buf : Bytes) (f : Tcp.Frame) (loc : Loc)
    (h : scan att buf = .ok (some (f, loc))) :
    ∃ n, f.pdu = (buf.drop (loc.start + 7)).take n ∧ loc.size = n + 7 ∧ loc.start + n + 7 ≤ buf.length := by
  subst hatt
  obtain ⟨n, hx, hsz⟩ := mkAttempt_found _ _ _ _ _ _ (scan_found_at _ buf f loc h)
  obtain ⟨hp, hl⟩ := Tcp.extractFrame_pdu _ _ _ hx
  refine ⟨n, ?_, hsz, ?_⟩
  · rw [hp, List.drop_drop]
  · rw [List.length_drop] at hl; omega

end Modbus

import Modbus.Lemmas.Sem
import Modbus.Lemmas.Encode
import Modbus.Lemmas.Bytes
import Modbus.Props.C16
import Modbus.Props.C17
import Modbus.Props.C18
/-
Request side of the PDU codec (C01, C03 request half, C19 request half).

* `Request.Built r m` — `r` is a request a user can construct through the public constructors
  (`Coils::from_bools`, `Data::from_words` over ANY target, any `FunctionCode`), and `m` is the
  meaning it was built from.
* what the decoder does on the byte shapes of Spec/Wire.lean (`Request.decode_*`), and on the
  spec's bytes of a meaning (`Request.decode_reqBytes`, `…_sem`, `…_refuse`);
* what the encoder does on a built request: the spec's bytes when the payload fits the one-byte
  count field (`Request.Built.encode_fits`), `Err(BufferSize)` for every buffer when it does not
  (`Request.Built.encode_oversize`).
-/
namespace Modbus

/-! ### constructible requests and their meanings -/

/-- `Built r m`: the request value `r` is what the public constructors give for the meaning `m`.
    Every target `t` (any capacity, any contents) is allowed for the payload containers, and every
    `FunctionCode` value (`FunctionCode::new b` or `FunctionCode::Custom(b)`) for custom requests.
    No bound on payload sizes: `from_bools` / `from_words` accept any non-empty slice. -/
inductive Request.Built : Request → Spec.ReqMeaning → Prop
  | readCoils (a q : UInt16) : Built (.readCoils a q) (.readCoils a q)
  | readDiscreteInputs (a q : UInt16) : Built (.readDiscreteInputs a q) (.readDiscreteInputs a q)
  | readHoldingRegisters (a q : UInt16) : Built (.readHoldingRegisters a q) (.readHoldingRegisters a q)
  | readInputRegisters (a q : UInt16) : Built (.readInputRegisters a q) (.readInputRegisters a q)
  | writeSingleCoil (a : UInt16) (on : Bool) : Built (.writeSingleCoil a on) (.writeSingleCoil a on)
  | writeSingleRegister (a v : UInt16) : Built (.writeSingleRegister a v) (.writeSingleRegister a v)
  | writeMultipleCoils (a : UInt16) (bs : List Bool) (t : Bytes) (c : Coils) :
      Coils.fromBools bs t = .ok c → Built (.writeMultipleCoils a c) (.writeMultipleCoils a bs)
  | writeMultipleRegisters (a : UInt16) (ws : List UInt16) (t : Bytes) (d : Data) :
      Data.fromWords ws t = .ok d → Built (.writeMultipleRegisters a d) (.writeMultipleRegisters a ws)
  | readWriteMultipleRegisters (ra rq wa : UInt16) (ws : List UInt16) (t : Bytes) (d : Data) :
      Data.fromWords ws t = .ok d →
      Built (.readWriteMultipleRegisters ra rq wa d) (.readWriteMultipleRegisters ra rq wa ws)
  | custom (fc : FunctionCode) (data : Bytes) : Built (.custom fc data) (.custom fc.value data)

/-- "a custom function code that the library does not model as one of those kinds":
    the nine standard kinds always; a custom meaning when its code byte is none of the nine codes the
    request decoder parses as a dedicated kind -/
def Spec.ReqMeaning.Unmodelled : Spec.ReqMeaning → Prop
  | .custom c _ => c ∉ modelledReqCodes
  | _ => True

/-- the scope of the round trip: as `Unmodelled`, and a custom code is below 0x80 -/
def Spec.ReqMeaning.InScope : Spec.ReqMeaning → Prop
  | .custom c _ => c < 0x80 ∧ c ∉ modelledReqCodes
  | _ => True

instance Spec.ReqMeaning.decFits (m : Spec.ReqMeaning) : Decidable m.fits := by
  cases m <;> unfold Spec.ReqMeaning.fits <;> infer_instance

instance Spec.ReqMeaning.decUnmodelled (m : Spec.ReqMeaning) : Decidable m.Unmodelled := by
  cases m <;> unfold Spec.ReqMeaning.Unmodelled <;> infer_instance

instance Spec.ReqMeaning.decInScope (m : Spec.ReqMeaning) : Decidable m.InScope := by
  cases m <;> unfold Spec.ReqMeaning.InScope <;> infer_instance

theorem Spec.ReqMeaning.InScope.unmodelled {m : Spec.ReqMeaning} (h : m.InScope) : m.Unmodelled := by
  cases m <;> first | trivial | exact h.2

/-! ### small arithmetic -/

theorem Req.rd16_hi_lo (v : UInt16) : rd16 (Spec.hi v) (Spec.lo v) = v := rd16_be16 v

theorem Req.be16_eq_word (v : UInt16) : be16 v = Spec.word v := rfl

theorem Req.u16_toNat_ofNat_of_lt {n : Nat} (h : n < 65536) : (UInt16.ofNat n).toNat = n := by
  rw [UInt16.toNat_ofNat']; exact Nat.mod_eq_of_lt h

theorem Req.u8_toNat_ofNat_of_le {n : Nat} (h : n ≤ 255) : (UInt8.ofNat n).toNat = n := by
  rw [UInt8.toNat_ofNat']; exact Nat.mod_eq_of_lt (by omega)

theorem Req.u8_toNat_ofNat_le (n : Nat) : (UInt8.ofNat n).toNat ≤ n := by
  rw [UInt8.toNat_ofNat']; exact Nat.mod_le _ _

/-! ### the decoder on each byte layout (any field bytes, any trailing bytes where it allows them) -/

theorem Request.decode_readCoils (h1 l1 h2 l2 : UInt8) (rest : Bytes) :
    Request.decode (0x01 :: h1 :: l1 :: h2 :: l2 :: rest) = .ok (.readCoils (rd16 h1 l1) (rd16 h2 l2)) := by
  have e : ¬ (rest.length + 1 + 1 + 1 + 1 + 1 < 5) := by omega
  simp [Request.decode, idx, read16, C18.new_standard, minRequestPduLen, e]

theorem Request.decode_readDiscreteInputs (h1 l1 h2 l2 : UInt8) (rest : Bytes) :
    Request.decode (0x02 :: h1 :: l1 :: h2 :: l2 :: rest) =
      .ok (.readDiscreteInputs (rd16 h1 l1) (rd16 h2 l2)) := by
  have e : ¬ (rest.length + 1 + 1 + 1 + 1 + 1 < 5) := by omega
  simp [Request.decode, idx, read16, C18.new_standard, minRequestPduLen, e]

theorem Request.decode_readHoldingRegisters (h1 l1 h2 l2 : UInt8) (rest : Bytes) :
    Request.decode (0x03 :: h1 :: l1 :: h2 :: l2 :: rest) =
      .ok (.readHoldingRegisters (rd16 h1 l1) (rd16 h2 l2)) := by
  have e : ¬ (rest.length + 1 + 1 + 1 + 1 + 1 < 5) := by omega
  simp [Request.decode, idx, read16, C18.new_standard, minRequestPduLen, e]

theorem Request.decode_readInputRegisters (h1 l1 h2 l2 : UInt8) (rest : Bytes) :
    Request.decode (0x04 :: h1 :: l1 :: h2 :: l2 :: rest) =
      .ok (.readInputRegisters (rd16 h1 l1) (rd16 h2 l2)) := by
  have e : ¬ (rest.length + 1 + 1 + 1 + 1 + 1 < 5) := by omega
  simp [Request.decode, idx, read16, C18.new_standard, minRequestPduLen, e]

theorem Request.decode_writeSingleRegister (h1 l1 h2 l2 : UInt8) (rest : Bytes) :
    Request.decode (0x06 :: h1 :: l1 :: h2 :: l2 :: rest) =
      .ok (.writeSingleRegister (rd16 h1 l1) (rd16 h2 l2)) := by
  have e : ¬ (rest.length + 1 + 1 + 1 + 1 + 1 < 5) := by omega
  simp [Request.decode, idx, read16, C18.new_standard, minRequestPduLen, e]

theorem Request.decode_writeSingleCoil (h1 l1 h2 l2 : UInt8) (rest : Bytes) :
    Request.decode (0x05 :: h1 :: l1 :: h2 :: l2 :: rest) =
      (u16CoilToBool (rd16 h2 l2)).bind fun c => .ok (.writeSingleCoil (rd16 h1 l1) c) := by
  have e : ¬ (rest.length + 1 + 1 + 1 + 1 + 1 < 5) := by omega
  simp [Request.decode, idx, read16, C18.new_standard, minRequestPduLen, e]

/-- Write Multiple Coils: the decoder keeps everything after the byte count as the container's slice
    and the quantity field as its count (it does not compare the two); the quantity must be one whose
    packed size fits the one-byte count field (at most 2040 coils) -/
theorem Request.decode_writeMultipleCoils (h1 l1 h2 l2 bc : UInt8) (data : Bytes) (h : bc.toNat ≤ data.length)
    (hq : packedCoilsLen (rd16 h2 l2).toNat ≤ 255) :
    Request.decode (0x0F :: h1 :: l1 :: h2 :: l2 :: bc :: data) =
      .ok (.writeMultipleCoils (rd16 h1 l1) ⟨data, (rd16 h2 l2).toNat⟩) := by
  have e1 : ¬ (data.length + 1 + 1 + 1 + 1 + 1 + 1 < 6) := by omega
  have e2 : ¬ (data.length + 1 + 1 + 1 + 1 + 1 + 1 < 6 + bc.toNat) := by omega
  have e3 : 6 ≤ data.length + 1 + 1 + 1 + 1 + 1 + 1 := by omega
  have e4 : ¬ (255 < packedCoilsLen (rd16 h2 l2).toNat) := by omega
  simp [Request.decode, idx, read16, C18.new_standard, minRequestPduLen, sliceFrom, e1, e2, e3, e4]

/-- … and a quantity above 2040 is refused with `Err(ByteCount)`, however many data bytes follow -/
theorem Request.decode_writeMultipleCoils_big (h1 l1 h2 l2 bc : UInt8) (data : Bytes)
    (hq : 255 < packedCoilsLen (rd16 h2 l2).toNat) :
    Request.decode (0x0F :: h1 :: l1 :: h2 :: l2 :: bc :: data) = .err (.byteCount bc) := by
  have e1 : ¬ (data.length + 1 + 1 + 1 + 1 + 1 + 1 < 6) := by omega
  simp [Request.decode, idx, read16, C18.new_standard, minRequestPduLen, e1, hq]

theorem Request.decode_writeMultipleRegisters (h1 l1 h2 l2 bc : UInt8) (data : Bytes)
    (h : bc.toNat ≤ data.length) (hq : bc.toNat = (rd16 h2 l2).toNat * 2) :
    Request.decode (0x10 :: h1 :: l1 :: h2 :: l2 :: bc :: data) =
      .ok (.writeMultipleRegisters (rd16 h1 l1) ⟨data.take bc.toNat, (rd16 h2 l2).toNat⟩) := by
  have e1 : ¬ (data.length + 1 + 1 + 1 + 1 + 1 + 1 < 6) := by omega
  have e2 : ¬ (data.length + 1 + 1 + 1 + 1 + 1 + 1 < 6 + (rd16 h2 l2).toNat * 2) := by omega
  have e3 : 6 + (rd16 h2 l2).toNat * 2 ≤ data.length + 1 + 1 + 1 + 1 + 1 + 1 := by omega
  simp [Request.decode, idx, read16, C18.new_standard, minRequestPduLen, slice, hq, e1, e2, e3]

theorem Request.decode_readWriteMultipleRegisters (h1 l1 h2 l2 h3 l3 h4 l4 bc : UInt8) (data : Bytes)
    (h : bc.toNat ≤ data.length) (hq : bc.toNat = (rd16 h4 l4).toNat * 2) :
    Request.decode (0x17 :: h1 :: l1 :: h2 :: l2 :: h3 :: l3 :: h4 :: l4 :: bc :: data) =
      .ok (.readWriteMultipleRegisters (rd16 h1 l1) (rd16 h2 l2) (rd16 h3 l3)
        ⟨data.take bc.toNat, (rd16 h4 l4).toNat⟩) := by
  have e1 : ¬ (data.length + 1 + 1 + 1 + 1 + 1 + 1 + 1 + 1 + 1 + 1 < 10) := by omega
  have e2 : ¬ (data.length + 1 + 1 + 1 + 1 + 1 + 1 + 1 + 1 + 1 + 1 < 10 + (rd16 h4 l4).toNat * 2) := by omega
  have e3 : 10 + (rd16 h4 l4).toNat * 2 ≤ data.length + 1 + 1 + 1 + 1 + 1 + 1 + 1 + 1 + 1 + 1 := by omega
  simp [Request.decode, idx, read16, C18.new_standard, minRequestPduLen, slice, hq, e1, e2, e3]

/-- any first byte that is not one of the nine modelled codes (including 0x07, 0x08, 0x0B, 0x0C, 0x11,
    0x16, which `FunctionCode::new` names): a custom request carrying that byte and all remaining
    bytes when the byte is below 0x80, otherwise `Err(FnCode)` -/
theorem Request.decode_other (c : UInt8) (d : Bytes) (hc : c ∉ modelledReqCodes) :
    Request.decode (c :: d) = if c < 0x80 then .ok (.custom (.custom c) d) else .err (.fnCode c) := by
  have hv := C18.value_new c
  have hm : ∀ x ∈ modelledReqCodes, c ≠ x := fun x hx e => hc (e ▸ hx)
  simp only [modelledReqCodes, List.mem_cons, List.not_mem_nil, or_false, forall_eq_or_imp, forall_eq] at hm
  simp only [Request.decode, List.isEmpty_cons, Bool.false_eq_true, if_false, idx, List.getElem?_cons_zero,
    Res.bind'_ok, List.length_cons]
  cases hfc : FunctionCode.new c <;> rw [hfc] at hv <;> simp only [FunctionCode.value] at hv <;>
    simp_all [minRequestPduLen, sliceFrom]

/-! ### the decoder on the specification's bytes -/

/-- conformant bytes decode to the meaning the specification assigns them -/
theorem Request.decode_reqBytes (m : Spec.ReqMeaning) (hf : m.fits) (hs : m.InScope) :
    ∃ r', Request.decode (Spec.reqBytes m) = .ok r' ∧ r'.sem = some m := by
  cases m with
  | readCoils a q =>
    exact ⟨_, Request.decode_readCoils _ _ _ _ [], by simp [Request.sem, Req.rd16_hi_lo]⟩
  | readDiscreteInputs a q =>
    exact ⟨_, Request.decode_readDiscreteInputs _ _ _ _ [], by simp [Request.sem, Req.rd16_hi_lo]⟩
  | readHoldingRegisters a q =>
    exact ⟨_, Request.decode_readHoldingRegisters _ _ _ _ [], by simp [Request.sem, Req.rd16_hi_lo]⟩
  | readInputRegisters a q =>
    exact ⟨_, Request.decode_readInputRegisters _ _ _ _ [], by simp [Request.sem, Req.rd16_hi_lo]⟩
  | writeSingleRegister a v =>
    exact ⟨_, Request.decode_writeSingleRegister _ _ _ _ [], by simp [Request.sem, Req.rd16_hi_lo]⟩
  | writeSingleCoil a on =>
    refine ⟨.writeSingleCoil a on, ?_, rfl⟩
    cases on
    · show Request.decode (0x05 :: Spec.hi a :: Spec.lo a :: 0x00 :: 0x00 :: []) = _
      rw [Request.decode_writeSingleCoil, Req.rd16_hi_lo]
      have : u16CoilToBool (rd16 0x00 0x00) = .ok false := by decide
      rw [this]; rfl
    · show Request.decode (0x05 :: Spec.hi a :: Spec.lo a :: 0xFF :: 0x00 :: []) = _
      rw [Request.decode_writeSingleCoil, Req.rd16_hi_lo]
      have : u16CoilToBool (rd16 0xFF 0x00) = .ok true := by decide
      rw [this]; rfl
  | writeMultipleCoils a bs =>
    obtain ⟨h1, h255⟩ := hf
    have hn : bs.length < 65536 := by omega
    refine ⟨.writeMultipleCoils a ⟨Spec.packBits bs, bs.length⟩, ?_, ?_⟩
    · show Request.decode (0x0F :: Spec.hi a :: Spec.lo a :: Spec.hi (UInt16.ofNat bs.length) ::
          Spec.lo (UInt16.ofNat bs.length) :: UInt8.ofNat ((bs.length + 7) / 8) :: Spec.packBits bs) = _
      rw [Request.decode_writeMultipleCoils _ _ _ _ _ _
        (by rw [packBits_length]; exact Req.u8_toNat_ofNat_le _)
        (by rw [Req.rd16_hi_lo, Req.u16_toNat_ofNat_of_lt hn]; exact h255),
        Req.rd16_hi_lo, Req.rd16_hi_lo, Req.u16_toNat_ofNat_of_lt hn]
    · have := Coils.iter_packBits bs []
      rw [List.append_nil] at this
      simp [Request.sem, Coils.items, this]
  | writeMultipleRegisters a ws =>
    obtain ⟨h1, h255⟩ := hf
    have hn : ws.length < 65536 := by omega
    have hbc : (UInt8.ofNat (2 * ws.length)).toNat = ws.length * 2 := by
      rw [Req.u8_toNat_ofNat_of_le h255]; omega
    refine ⟨.writeMultipleRegisters a ⟨Spec.wordsBE ws, ws.length⟩, ?_, ?_⟩
    · show Request.decode (0x10 :: Spec.hi a :: Spec.lo a :: Spec.hi (UInt16.ofNat ws.length) ::
          Spec.lo (UInt16.ofNat ws.length) :: UInt8.ofNat (2 * ws.length) :: Spec.wordsBE ws) = _
      rw [Request.decode_writeMultipleRegisters _ _ _ _ _ _
        (by rw [hbc, wordsBE_length]; exact Nat.le_refl _)
        (by rw [hbc, Req.rd16_hi_lo, Req.u16_toNat_ofNat_of_lt hn]),
        Req.rd16_hi_lo, Req.rd16_hi_lo, Req.u16_toNat_ofNat_of_lt hn, hbc, C17.take_wordsBE]
    · have := Data.iter_wordsBE ws []
      rw [List.append_nil] at this
      simp [Request.sem, Data.items, this]
  | readWriteMultipleRegisters ra rq wa ws =>
    obtain ⟨h1, h255⟩ := hf
    have hn : ws.length < 65536 := by omega
    have hbc : (UInt8.ofNat (2 * ws.length)).toNat = ws.length * 2 := by
      rw [Req.u8_toNat_ofNat_of_le h255]; omega
    refine ⟨.readWriteMultipleRegisters ra rq wa ⟨Spec.wordsBE ws, ws.length⟩, ?_, ?_⟩
    · show Request.decode (0x17 :: Spec.hi ra :: Spec.lo ra :: Spec.hi rq :: Spec.lo rq :: Spec.hi wa ::
          Spec.lo wa :: Spec.hi (UInt16.ofNat ws.length) :: Spec.lo (UInt16.ofNat ws.length) ::
          UInt8.ofNat (2 * ws.length) :: Spec.wordsBE ws) = _
      rw [Request.decode_readWriteMultipleRegisters _ _ _ _ _ _ _ _ _ _
        (by rw [hbc, wordsBE_length]; exact Nat.le_refl _)
        (by rw [hbc, Req.rd16_hi_lo, Req.u16_toNat_ofNat_of_lt hn]),
        Req.rd16_hi_lo, Req.rd16_hi_lo, Req.rd16_hi_lo, Req.rd16_hi_lo, Req.u16_toNat_ofNat_of_lt hn, hbc, C17.take_wordsBE]
    · have := Data.iter_wordsBE ws []
      rw [List.append_nil] at this
      simp [Request.sem, Data.items, this]
  | custom c d =>
    obtain ⟨hlt, hc⟩ := hs
    refine ⟨.custom (.custom c) d, ?_, rfl⟩
    show Request.decode (c :: d) = _
    rw [Request.decode_other c d hc, if_pos hlt]

/-- a custom code at or above 0x80 (outside the modelled nine) is refused with `Err(FnCode)` -/
theorem Request.decode_reqBytes_refuse (c : UInt8) (d : Bytes) (hc : c ∉ modelledReqCodes) (h80 : ¬ c < 0x80) :
    Request.decode (Spec.reqBytes (.custom c d)) = .err (.fnCode c) := by
  show Request.decode (c :: d) = _
  rw [Request.decode_other c d hc, if_neg h80]

/-- "may refuse, never a different request": whatever the decoder returns for the spec's bytes of a
    meaning whose payload fits the count field (custom: any code the library does not model) has that meaning -/
theorem Request.decode_reqBytes_sem (m : Spec.ReqMeaning) (hf : m.fits) (hu : m.Unmodelled) (r' : Request)
    (h : Request.decode (Spec.reqBytes m) = .ok r') : r'.sem = some m := by
  have std : m.InScope → r'.sem = some m := by
    intro hs
    obtain ⟨r'', h1, h2⟩ := Request.decode_reqBytes m hf hs
    rw [h1] at h
    cases h
    exact h2
  cases m with
  | custom c d =>
    by_cases h80 : c < 0x80
    · exact std ⟨h80, hu⟩
    · rw [Request.decode_reqBytes_refuse c d hu h80] at h
      cases h
  | _ => exact std trivial

/-! ### what the constructors give -/

theorem Coils.fromBools_ok {bs : List Bool} {t : Bytes} {c : Coils} (h : Coils.fromBools bs t = .ok c) :
    bs ≠ [] ∧ packedCoilsLen bs.length ≤ t.length ∧
    c = ⟨Spec.packBits bs, bs.length⟩ := by
  rw [C16.from_bools_total] at h
  split at h
  · cases h
  · rename_i hc
    cases h
    exact ⟨fun e => hc (Or.inl e), by omega, rfl⟩

theorem Data.fromWords_ok {ws : List UInt16} {t : Bytes} {d : Data} (h : Data.fromWords ws t = .ok d) :
    ws ≠ [] ∧ d = ⟨Spec.wordsBE ws, ws.length⟩ := by
  rw [C17.from_words_total] at h
  split at h
  · cases h
  · rename_i hc
    cases h
    exact ⟨fun e => hc (Or.inl e), rfl⟩

theorem Req.length_pos_of_ne_nil {α} {l : List α} (h : l ≠ []) : 1 ≤ l.length := by
  cases l with
  | nil => exact absurd rfl h
  | cons _ _ => simp

/-! ### the encoder on constructible requests -/

/-- the wire image of a constructible request is the specification's PDU of its meaning — for every
    payload size, target and function code (no trace of the target's contents or capacity) -/
theorem Request.Built.image_eq {r : Request} {m : Spec.ReqMeaning} (hb : r.Built m) :
    r.image = Spec.reqBytes m := by
  cases hb with
  | readCoils a q => rfl
  | readDiscreteInputs a q => rfl
  | readHoldingRegisters a q => rfl
  | readInputRegisters a q => rfl
  | writeSingleRegister a v => rfl
  | writeSingleCoil a on => cases on <;> rfl
  | writeMultipleCoils a bs t c h => exact (C16.built_coils_image bs t c a h).1
  | writeMultipleRegisters a ws t d h =>
    obtain ⟨_, rfl⟩ := Data.fromWords_ok h
    exact C17.req_write_multiple_registers_image a ws
  | readWriteMultipleRegisters ra rq wa ws t d h =>
    obtain ⟨_, rfl⟩ := Data.fromWords_ok h
    exact C17.req_read_write_multiple_registers_image ra rq wa ws
  | custom fc data => rfl

/-- a constructible request is serialisable exactly when its payload fits the one-byte count field -/
theorem Request.Built.encodable_iff {r : Request} {m : Spec.ReqMeaning} (hb : r.Built m) :
    r.Encodable ↔ m.fits := by
  cases hb with
  | writeMultipleCoils a bs t c h =>
    obtain ⟨hne, hl, rfl⟩ := Coils.fromBools_ok h
    have hpos := Req.length_pos_of_ne_nil hne
    show (packedCoilsLen bs.length ≤ 255 ∧
        packedCoilsLen bs.length ≤ (Spec.packBits bs).length) ↔
      (1 ≤ bs.length ∧ (bs.length + 7) / 8 ≤ 255)
    rw [packBits_length]
    unfold packedCoilsLen
    constructor
    · intro h; exact ⟨hpos, h.1⟩
    · intro h; exact ⟨h.2, by omega⟩
  | writeMultipleRegisters a ws t d h =>
    obtain ⟨hne, rfl⟩ := Data.fromWords_ok h
    have hpos := Req.length_pos_of_ne_nil hne
    show ws.length * 2 ≤ 255 ↔ (1 ≤ ws.length ∧ 2 * ws.length ≤ 255)
    omega
  | readWriteMultipleRegisters ra rq wa ws t d h =>
    obtain ⟨hne, rfl⟩ := Data.fromWords_ok h
    have hpos := Req.length_pos_of_ne_nil hne
    show ws.length * 2 ≤ 255 ↔ (1 ≤ ws.length ∧ 2 * ws.length ≤ 255)
    omega
  | _ => exact ⟨fun _ => trivial, fun _ => trivial⟩

/-- payload fits: the encoder's whole outcome, for every buffer, is the spec's PDU or `BufferSize` -/
theorem Request.Built.encode_fits {r : Request} {m : Spec.ReqMeaning} (hb : r.Built m) (hf : m.fits)
    (buf : Bytes) :
    r.encode buf =
      if buf.length < (Spec.reqBytes m).length then .err .bufferSize
      else .ok ((Spec.reqBytes m).length, Spec.reqBytes m ++ buf.drop (Spec.reqBytes m).length) := by
  rw [Request.encode_eq r buf (hb.encodable_iff.mpr hf), hb.image_eq]

theorem Req.applyWrites_head3 (buf : Bytes) (fc : UInt8) (a : UInt16) (h : 3 ≤ buf.length) :
    ∃ b, applyWrites buf [(0, [fc]), (1, be16 a)] = .ok b :=
  ⟨_, applyWrites_from_zero _ buf (by simp [Tiled]) (by simpa [segBytes] using h)⟩

theorem Req.applyWrites_head7 (buf : Bytes) (fc : UInt8) (a b c : UInt16) (h : 7 ≤ buf.length) :
    ∃ b', applyWrites buf [(0, [fc]), (1, be16 a), (3, be16 b), (5, be16 c)] = .ok b' :=
  ⟨_, applyWrites_from_zero _ buf (by simp [Tiled]) (by simpa [segBytes] using h)⟩

/-- Write Multiple Coils with more than 255 packed bytes: `Err(BufferSize)` for every buffer -/
theorem Request.encode_writeMultipleCoils_big (a : UInt16) (c : Coils) (buf : Bytes) (h : 255 < c.packedLen) :
    (Request.writeMultipleCoils a c).encode buf = .err .bufferSize := by
  have hu : u8TryFrom c.packedLen = .err .bufferSize := by simp [u8TryFrom]; omega
  simp only [Request.encode, Request.pduLen, Res.bind'_ok, hu, Res.bind'_err]
  split
  · rfl
  · obtain ⟨b, hbw⟩ := Req.applyWrites_head3 buf (Request.writeMultipleCoils a c).fc.value a (by omega)
    rw [hbw]; rfl

/-- Write Multiple Registers with more than 127 words: `Err(BufferSize)` for every buffer -/
theorem Request.encode_writeMultipleRegisters_big (a : UInt16) (d : Data) (buf : Bytes) (h : 255 < d.len * 2) :
    (Request.writeMultipleRegisters a d).encode buf = .err .bufferSize := by
  have hu : u8TryFrom (d.len * 2) = .err .bufferSize := by simp [u8TryFrom]; omega
  simp only [Request.encode, Request.pduLen, Res.bind'_ok, hu, Res.bind'_err]
  split
  · rfl
  · obtain ⟨b, hbw⟩ := Req.applyWrites_head3 buf (Request.writeMultipleRegisters a d).fc.value a (by omega)
    rw [hbw]; rfl

/-- Read/Write Multiple Registers with more than 127 words: `Err(BufferSize)` for every buffer -/
theorem Request.encode_readWriteMultipleRegisters_big (ra rq wa : UInt16) (d : Data) (buf : Bytes)
    (h : 255 < d.len * 2) :
    (Request.readWriteMultipleRegisters ra rq wa d).encode buf = .err .bufferSize := by
  have hu : u8TryFrom (d.len * 2) = .err .bufferSize := by simp [u8TryFrom]; omega
  simp only [Request.encode, Request.pduLen, Res.bind'_ok, hu, Res.bind'_err]
  split
  · rfl
  · obtain ⟨b, hbw⟩ := Req.applyWrites_head7 buf (Request.readWriteMultipleRegisters ra rq wa d).fc.value ra rq wa
      (by omega)
    rw [hbw]; rfl

/-- payload too large for the count field: `Err(BufferSize)` for every buffer — no bytes, no panic -/
theorem Request.Built.encode_oversize {r : Request} {m : Spec.ReqMeaning} (hb : r.Built m) (hf : ¬ m.fits)
    (buf : Bytes) : r.encode buf = .err .bufferSize := by
  cases hb with
  | writeMultipleCoils a bs t c h =>
    obtain ⟨hne, hl, rfl⟩ := Coils.fromBools_ok h
    have hpos := Req.length_pos_of_ne_nil hne
    apply Request.encode_writeMultipleCoils_big
    show 255 < (bs.length + 7) / 8
    have : ¬ (1 ≤ bs.length ∧ (bs.length + 7) / 8 ≤ 255) := hf
    omega
  | writeMultipleRegisters a ws t d h =>
    obtain ⟨hne, rfl⟩ := Data.fromWords_ok h
    have hpos := Req.length_pos_of_ne_nil hne
    apply Request.encode_writeMultipleRegisters_big
    show 255 < ws.length * 2
    have : ¬ (1 ≤ ws.length ∧ 2 * ws.length ≤ 255) := hf
    omega
  | readWriteMultipleRegisters ra rq wa ws t d h =>
    obtain ⟨hne, rfl⟩ := Data.fromWords_ok h
    have hpos := Req.length_pos_of_ne_nil hne
    apply Request.encode_readWriteMultipleRegisters_big
    show 255 < ws.length * 2
    have : ¬ (1 ≤ ws.length ∧ 2 * ws.length ≤ 255) := hf
    omega
  | _ => exact absurd trivial hf

/-- a successful encoding of a constructible request: the payload fits, the count returned is the
    length of the spec's PDU, and the first `n` bytes of the buffer are exactly that PDU -/
theorem Request.Built.of_encode_ok {r : Request} {m : Spec.ReqMeaning} (hb : r.Built m) {buf : Bytes}
    {n : Nat} {out : Bytes} (h : r.encode buf = .ok (n, out)) :
    m.fits ∧ n = (Spec.reqBytes m).length ∧ out = Spec.reqBytes m ++ buf.drop n ∧
      out.take n = Spec.reqBytes m ∧ n ≤ buf.length := by
  have hf : m.fits := hb.encodable_iff.mp (Request.encodable_of_ok r buf _ h)
  rw [hb.encode_fits hf buf] at h
  split at h
  · cases h
  · rename_i hlen
    cases h
    exact ⟨hf, rfl, rfl, by simp, by omega⟩

end Modbus

import Modbus.Lemmas.AduRoundTrip
import Modbus.Lemmas.ReqCodec
import Modbus.Lemmas.RspCodec
import Modbus.Props.C06
/-
Plumbing between the PDU-level codec facts (Lemmas/ReqCodec.lean, Lemmas/RspCodec.lean: values built
through the public constructors, their meanings, the specification's bytes) and the ADU-level
round-trip theorems (Props/C04.lean, Props/C05.lean), whose generic forms take the PDU-level facts as
hypotheses.  Everything here is about values `Built` / `BuiltRsp` through the public constructors;
the results are exactly the hypotheses of `C05.tcp_req_encode_decode`, `C04.rtu_req_encode_decode_partial`,
`C05.tcp_rsp_encode_decode`, `C04.rtu_rsp_encode_decode`.
-/
namespace Modbus
open AduRT

/-! ### "a PDU the length table frames" -/

/-- the request is one the specification's length table frames: always for the nine standard kinds
    (a theorem below, `Request.Built.complete`); for a custom function code it is the statement that
    code and data form a complete PDU of the request table (e.g. 0x16 with six data bytes) -/
def Spec.ReqMeaning.Framed : Spec.ReqMeaning → Prop
  | .custom c d => Spec.PduComplete .req (c :: d)
  | _ => True

/-- likewise for responses; a custom response must in addition carry a function code below 0x80
    (with the top bit set the two-byte PDUs 0x81 … 0xAB are exception responses) -/
def Spec.RspMeaning.Framed : Spec.RspMeaning → Prop
  | .custom c d => c < 0x80 ∧ Spec.PduComplete .rsp (c :: d)
  | _ => True

/-- MBAP only: the length field (PDU length + 1) must be representable in 16 bits.  Always true for
    the standard kinds (at most 257 bytes); a hypothesis for custom codes with a 16-bit count (0x18) -/
def Spec.RspMeaning.MbapLen : Spec.RspMeaning → Prop
  | .custom _ d => d.length + 2 < 65536
  | _ => True

/-! ### requests built through the public constructors -/

/-- register containers built by `Data::from_words` hold exactly `2·len` bytes -/
theorem Request.Built.dataExact {r : Request} {m : Spec.ReqMeaning} (hb : r.Built m) : r.DataExact := by
  cases hb with
  | writeMultipleRegisters a ws t d h => exact fromWords_exact ws t d h
  | readWriteMultipleRegisters ra rq wa ws t d h => exact fromWords_exact ws t d h
  | _ => trivial

/-- the image of a built request whose payload fits the count field is a complete PDU of the request
    table: a theorem for the nine standard kinds, the `Framed` hypothesis for custom codes -/
theorem Request.Built.complete {r : Request} {m : Spec.ReqMeaning} (hb : r.Built m) (hf : m.fits)
    (hfr : m.Framed) : Spec.PduComplete .req r.image := by
  have he := hb.encodable_iff.mpr hf
  have hx := hb.dataExact
  cases hb with
  | custom fc d => exact hfr
  | _ => exact req_image_complete _ trivial he hx

/-- … hence of the specification's bytes of the meaning -/
theorem Request.Built.reqBytes_complete {r : Request} {m : Spec.ReqMeaning} (hb : r.Built m) (hf : m.fits)
    (hfr : m.Framed) : Spec.PduComplete .req (Spec.reqBytes m) := by
  rw [← hb.image_eq]; exact hb.complete hf hfr

/-- PDU-level round trip on the image of a built request (C01) -/
theorem Request.Built.decode_image {r : Request} {m : Spec.ReqMeaning} (hb : r.Built m) (hf : m.fits)
    (hs : m.InScope) : ∃ r', Request.decode r.image = .ok r' ∧ r'.sem = some m := by
  rw [hb.image_eq]; exact Request.decode_reqBytes m hf hs

/-- the first byte of the image of a built request whose meaning is neither write-multiple-coils
    nor write-multiple-registers is neither 0x0F nor 0x10 (custom codes: `InScope` excludes them) -/
theorem Request.Built.first_ne {r : Request} {m : Spec.ReqMeaning} (hb : r.Built m) (hs : m.InScope)
    (hC : ∀ a bs, m ≠ .writeMultipleCoils a bs) (hR : ∀ a ws, m ≠ .writeMultipleRegisters a ws) :
    r.image[0]? ≠ some 0x0F ∧ r.image[0]? ≠ some 0x10 := by
  cases hb with
  | writeMultipleCoils a bs t c h => exact absurd rfl (hC a bs)
  | writeMultipleRegisters a ws t d h => exact absurd rfl (hR a ws)
  | custom fc d =>
    have hm : fc.value ∉ modelledReqCodes := hs.2
    simp only [modelledReqCodes, List.mem_cons, List.not_mem_nil, or_false, not_or] at hm
    have h0 : (Request.custom fc d).image[0]? = some fc.value := rfl
    rw [h0]
    exact ⟨fun h => hm.2.2.2.2.2.2.1 (Option.some.inj h), fun h => hm.2.2.2.2.2.2.2.1 (Option.some.inj h)⟩
  | readCoils a q => exact req_image_first_ne _ trivial
  | readDiscreteInputs a q => exact req_image_first_ne _ trivial
  | readHoldingRegisters a q => exact req_image_first_ne _ trivial
  | readInputRegisters a q => exact req_image_first_ne _ trivial
  | writeSingleCoil a on => exact req_image_first_ne _ trivial
  | writeSingleRegister a v => exact req_image_first_ne _ trivial
  | readWriteMultipleRegisters ra rq wa ws t d h => exact req_image_first_ne _ trivial

/-! ### responses built through the public constructors -/

/-- the image of a built response that fits is a complete PDU of the response table — every kind
    except write-single-coil (D12); custom codes by the `Framed` hypothesis -/
theorem BuiltRsp.complete {r : Response} {m : Spec.RspMeaning} (hb : BuiltRsp r m) (hf : m.fits)
    (hn : ∀ a, m ≠ .writeSingleCoil a) (hfr : m.Framed) : Spec.PduComplete .rsp r.image := by
  have he := hb.encodable_iff.mpr hf
  cases hb with
  | writeSingleCoil a => exact absurd rfl (hn a)
  | custom fc d => exact hfr.2
  | _ => exact rsp_image_complete _ trivial he

/-- the first byte of that image is a function code below 0x80, so the exception decoder rejects it -/
theorem BuiltRsp.not_exception {r : Response} {m : Spec.RspMeaning} (hb : BuiltRsp r m)
    (hfr : m.Framed) : ∃ e, ExceptionResponse.decode r.image = .err e := by
  cases hb with
  | custom fc d => exact exc_decode_err_of_lt _ fc.value rfl hfr.1
  | writeSingleCoil a => exact exc_decode_err_of_lt _ 0x05 rfl (by decide)
  | readCoils h => exact exc_decode_err_of_lt _ 0x01 rfl (by decide)
  | readDiscreteInputs h => exact exc_decode_err_of_lt _ 0x02 rfl (by decide)
  | readHoldingRegisters h => exact exc_decode_err_of_lt _ 0x03 rfl (by decide)
  | readInputRegisters h => exact exc_decode_err_of_lt _ 0x04 rfl (by decide)
  | readWriteMultipleRegisters h => exact exc_decode_err_of_lt _ 0x17 rfl (by decide)
  | writeSingleRegister a w => exact exc_decode_err_of_lt _ 0x06 rfl (by decide)
  | writeMultipleCoils a q => exact exc_decode_err_of_lt _ 0x0F rfl (by decide)
  | writeMultipleRegisters a q => exact exc_decode_err_of_lt _ 0x10 rfl (by decide)
  | readExceptionStatus s => exact exc_decode_err_of_lt _ 0x07 rfl (by decide)

/-- the MBAP length field of that image is exact -/
theorem BuiltRsp.mbap_len {r : Response} {m : Spec.RspMeaning} (hb : BuiltRsp r m) (hf : m.fits)
    (hl : m.MbapLen) : r.image.length + 1 < 65536 := by
  have he := hb.encodable_iff.mpr hf
  cases hb with
  | custom fc d =>
    have h1 : (Response.custom fc d).image.length = d.length + 1 := by simp [Response.image]
    have h2 : d.length + 2 < 65536 := hl
    omega
  | writeSingleCoil a =>
    have h1 : (Response.writeSingleCoil a).image.length = 3 := rfl
    omega
  | _ => have := rsp_image_length_le _ (by trivial) he; omega

/-- a built response that fits is what `ResponsePdu::encode` serialises -/
theorem BuiltRsp.pdu_encodable {r : Response} {m : Spec.RspMeaning} (hb : BuiltRsp r m) (hf : m.fits) :
    (ResponsePdu.ok r).Encodable :=
  ⟨hb.encodable_iff.mpr hf, hb.image_pos⟩

/-! ### the RTU trailer in CRC-16/MODBUS terms -/

/-- the serial-line frame: slave id, PDU, CRC-16/MODBUS of both, low-order CRC byte first (C06) -/
theorem rtuFrame_crcWire (slave : UInt8) (pdu : Bytes) :
    Spec.rtuFrame slave pdu = slave :: pdu ++ Spec.crcWire (slave :: pdu) := by
  show slave :: pdu ++ be16 (crc16 (slave :: pdu)) = _
  rw [C06.crc_wire_low_first]

end Modbus

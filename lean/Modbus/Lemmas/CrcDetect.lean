import Modbus.Lemmas.Crc
import Modbus.Model.Rtu
/-
Error detection by the RTU checksum.
 1. Register level, on the specification's bit-serial register `Spec.feed`: a non-empty error window of
    at most 16 bits never returns the zero register to zero (back-step argument, `feed_window_ne_zero`);
    two set bits at distance d do so only if `L^d 1 = 1`, excluded for 1 ≤ d ≤ 2047 by one kernel
    computation on a `Nat` copy of the round (`orbit_2047`, `feed_two_ne_zero`).
 2. Frame level: `xorBytes`, `CrcOk` (the comparison made by `rtu::extract_frame` at full length),
    `errBit` (transmission-order bit of a string); linearity over equal-length strings
    (`crcRaw_xorBytes`), acceptance ⇔ zero residue (`crcOk_iff_residue`), hence
    `crcOk_xor_iff : CrcOk (F ⊕ E) ↔ crcRaw 0 E = 0` for valid `F`.
 3. Classes of error patterns (`SingleBit`, `Burst16`, `DoubleBit`, the concrete `bitError n p`) and the
    link between `CrcOk` and `Rtu.extractFrame f (f.length - 3)` (`extract_full`, `extract_full_ok`).
-/
namespace Modbus
namespace Crc

theorem msb_shr1 (s : BitVec 16) : (s >>> 1).msb = false := by
  simp [BitVec.msb_ushiftRight]

theorem lfsrStep_msb (s : BitVec 16) (b : Bool) : (Spec.lfsrStep s b).msb = (s.getLsbD 0 ^^ b) := by
  rw [lfsrStep_eq, BitVec.msb_xor, msb_shr1]
  cases (s.getLsbD 0 ^^ b) <;> simp [P] <;> decide

/-- if the new state's top bit is clear there was no feedback: the input bit equalled the register's low bit -/
theorem step_back (s : BitVec 16) (b : Bool) (h : (Spec.lfsrStep s b).msb = false) :
    b = s.getLsbD 0 ∧ Spec.lfsrStep s b = s >>> 1 := by
  rw [lfsrStep_msb] at h
  have hb : b = s.getLsbD 0 := by
    rw [BitVec.getLsbD_eq_getElem (by decide)] at h ⊢
    cases b <;> cases hs : s[0] <;> simp [hs] at h ⊢
  refine ⟨hb, ?_⟩
  rw [lfsrStep_eq, h]; simp

theorem msb_false_of_shr_zero (x : BitVec 16) (k : Nat) (hk : k ≤ 15) (h : x >>> k = 0#16) :
    x.msb = false := by
  have := congrArg (fun v => v.getLsbD (15 - k)) h
  simp at this
  have e : k + (15 - k) = 15 := by omega
  rw [e] at this
  simpa [BitVec.msb_eq_getLsbD_last] using this

/-- a window of at most 16 bits that brings the register to 0 merely spells out the register's own low bits -/
theorem feed_zero_back : ∀ (w : List Bool) (s : BitVec 16), w.length ≤ 16 → Spec.feed s w = 0#16 →
    s >>> w.length = 0#16 ∧ ∀ j (h : j < w.length), w[j] = s.getLsbD j := by
  intro w
  induction w with
  | nil => intro s _ h; simpa [Spec.feed] using h
  | cons b w ih =>
    intro s hl h
    have hl' : w.length ≤ 15 := by simpa using hl
    have h' : Spec.feed (Spec.lfsrStep s b) w = 0#16 := by simpa [Spec.feed] using h
    obtain ⟨i1, i2⟩ := ih (Spec.lfsrStep s b) (by omega) h'
    have hm : (Spec.lfsrStep s b).msb = false := msb_false_of_shr_zero _ _ hl' i1
    obtain ⟨hb, hs⟩ := step_back s b hm
    rw [hs] at i1 i2
    constructor
    · have e : s >>> (b :: w).length = s >>> 1 >>> w.length := by
        rw [← BitVec.shiftRight_add]; simp [Nat.add_comm]
      rw [e]; exact i1
    · intro j hj
      cases j with
      | zero => simpa using hb
      | succ j =>
        have := i2 j (by simpa using hj)
        simpa [Nat.add_comm] using this

/-- burst detection core: from the zero register, a non-zero window of ≤ 16 bits leaves a non-zero register -/
theorem burst_nonzero (w : List Bool) (hl : w.length ≤ 16) (hw : true ∈ w) : Spec.feed 0#16 w ≠ 0#16 := by
  intro h
  obtain ⟨_, h2⟩ := feed_zero_back w 0#16 hl h
  obtain ⟨j, hj, hjt⟩ := List.getElem_of_mem hw
  have := h2 j hj
  rw [hjt] at this
  simp at this

theorem allFalse_take (w : List Bool) (p : Nat)
    (h : ∀ k (hk : k < w.length), k < p → w[k] = false) : ∀ b ∈ w.take p, b = false := by
  intro b hb
  obtain ⟨i, hi, rfl⟩ := List.getElem_of_mem hb
  rw [List.getElem_take]
  rw [List.length_take] at hi
  exact h i (by omega) (by omega)

theorem allFalse_drop (w : List Bool) (p : Nat)
    (h : ∀ k (hk : k < w.length), p ≤ k → w[k] = false) : ∀ b ∈ w.drop p, b = false := by
  intro b hb
  obtain ⟨i, hi, rfl⟩ := List.getElem_of_mem hb
  rw [List.getElem_drop]
  rw [List.length_drop] at hi
  exact h (p + i) (by omega) (by omega)

theorem feed_ne_zero_of_allFalse (s : BitVec 16) (w : List Bool) (h : ∀ b ∈ w, b = false)
    (hs : s ≠ 0#16) : Spec.feed s w ≠ 0#16 := by
  rw [feed_allFalse s w h]
  exact fun h0 => hs (Lpow_eq_zero _ _ h0)

theorem feed_zero_of_allFalse (w : List Bool) (h : ∀ b ∈ w, b = false) : Spec.feed 0#16 w = 0#16 := by
  rw [feed_allFalse _ w h, Lpow_zero]

/-- a bit string whose set bits are non-empty and confined to a window of 16 positions does not
    bring the zero register back to zero -/
theorem feed_window_ne_zero (w : List Bool) (p : Nat)
    (hwin : ∀ k (hk : k < w.length), w[k] = true → p ≤ k ∧ k < p + 16)
    (hex : ∃ k, ∃ hk : k < w.length, w[k] = true) : Spec.feed 0#16 w ≠ 0#16 := by
  have hsplit : w = w.take p ++ ((w.drop p).take 16 ++ (w.drop p).drop 16) := by
    rw [List.take_append_drop, List.take_append_drop]
  rw [hsplit, feed_append, feed_append]
  have hA : ∀ b ∈ w.take p, b = false := by
    apply allFalse_take
    intro k hk hkp
    cases hb : w[k] with
    | false => rfl
    | true => have := hwin k hk hb; omega
  have hC : ∀ b ∈ (w.drop p).drop 16, b = false := by
    rw [List.drop_drop]
    apply allFalse_drop
    intro k hk hkp
    cases hb : w[k] with
    | false => rfl
    | true => have := hwin k hk hb; omega
  rw [feed_zero_of_allFalse _ hA]
  apply feed_ne_zero_of_allFalse _ _ hC
  apply burst_nonzero
  · rw [List.length_take]; omega
  · obtain ⟨k, hk, hkt⟩ := hex
    obtain ⟨h1, h2⟩ := hwin k hk hkt
    rw [List.mem_iff_getElem]
    refine ⟨k - p, ?_, ?_⟩
    · rw [List.length_take, List.length_drop]; omega
    · rw [List.getElem_take, List.getElem_drop]
      have e : p + (k - p) = k := by omega
      simp only [e]; exact hkt

/-! ### bit pairs -/

/-- a `Nat`-valued copy of the round, for kernel computation -/
def roundNat (n : Nat) : Nat := if n % 2 = 1 then n / 2 ^^^ 0xA001 else n / 2

theorem L_toNat (s : BitVec 16) : (L s).toNat = roundNat s.toNat := by
  rw [L_def]
  unfold roundNat
  have hb : s.getLsbD 0 = decide (s.toNat % 2 = 1) := by
    have : s.getLsbD 0 = s.toNat.testBit 0 := rfl
    rw [this, Nat.testBit_zero]
  rw [hb]
  by_cases h : s.toNat % 2 = 1
  · simp [h, P, BitVec.toNat_ushiftRight, Nat.shiftRight_eq_div_pow]
  · simp [h, BitVec.toNat_ushiftRight, Nat.shiftRight_eq_div_pow]

def roundNatPow : Nat → Nat → Nat
  | 0, s => s
  | n + 1, s => roundNatPow n (roundNat s)

theorem Lpow_toNat (n : Nat) (s : BitVec 16) : (Lpow n s).toNat = roundNatPow n s.toNat := by
  induction n generalizing s with
  | zero => rfl
  | succ n ih => rw [Lpow_succ, ih, L_toNat]; rfl

/-- `orbitFree n s`: none of the first `n` iterates of the round from `s` is 1 -/
def orbitFree : Nat → Nat → Bool
  | 0, _ => true
  | k + 1, s => roundNat s != 1 && orbitFree k (roundNat s)

theorem orbitFree_spec (n s : Nat) (h : orbitFree n s = true) (d : Nat) (h1 : 1 ≤ d) (hd : d ≤ n) :
    roundNatPow d s ≠ 1 := by
  induction n generalizing s d with
  | zero => omega
  | succ n ih =>
    simp only [orbitFree, Bool.and_eq_true, bne_iff_ne, ne_eq] at h
    obtain ⟨hne, hrest⟩ := h
    cases d with
    | zero => omega
    | succ d =>
      cases d with
      | zero => exact hne
      | succ d => exact ih (roundNat s) hrest (d + 1) (by omega) (by omega)

/-- ONE kernel computation: the value 1 does not return to 1 within 2047 rounds -/
theorem orbit_2047 : orbitFree 2047 1 = true := by decide +kernel

theorem Lpow_one_ne_one (d : Nat) (h1 : 1 ≤ d) (hd : d ≤ 2047) : Lpow d 1#16 ≠ 1#16 := by
  intro h
  have := congrArg BitVec.toNat h
  rw [Lpow_toNat] at this
  exact orbitFree_spec 2047 1 orbit_2047 d h1 hd this

theorem split_at (w : List Bool) (p : Nat) (hp : p < w.length) :
    w = w.take p ++ w[p] :: w.drop (p + 1) := by
  rw [← List.drop_eq_getElem_cons hp, List.take_append_drop]

theorem step_zero_true : Spec.lfsrStep 0#16 true = Lpow 1 1#16 := by decide

/-- exactly two set bits at distance `d` with `L^d 1 ≠ 1`: the zero register does not return to zero -/
theorem feed_two_ne_zero_of (w : List Bool) (p q : Nat) (hpq : p < q) (hq : q < w.length)
    (hord : Lpow (q - p) 1#16 ≠ 1#16)
    (h : ∀ k (hk : k < w.length), w[k] = true ↔ (k = p ∨ k = q)) : Spec.feed 0#16 w ≠ 0#16 := by
  have hp : p < w.length := by omega
  have hwp : w[p] = true := (h p hp).mpr (Or.inl rfl)
  have hwq : w[q] = true := (h q hq).mpr (Or.inr rfl)
  have hfalse : ∀ k (hk : k < w.length), k ≠ p → k ≠ q → w[k] = false := by
    intro k hk h1 h2
    cases hb : w[k] with
    | false => rfl
    | true => have := (h k hk).mp hb; omega
  -- split at p, then the remainder at q - p - 1
  have hlen1 : q - p - 1 < (w.drop (p + 1)).length := by rw [List.length_drop]; omega
  have hs1 := split_at w p hp
  have hs2 := split_at (w.drop (p + 1)) (q - p - 1) hlen1
  have e1 : (w.drop (p + 1))[q - p - 1] = true := by
    rw [List.getElem_drop]
    have e : p + 1 + (q - p - 1) = q := by omega
    simp only [e]; exact hwq
  rw [e1, List.drop_drop] at hs2
  rw [hwp, hs2] at hs1
  have hA : ∀ b ∈ w.take p, b = false :=
    allFalse_take w p (fun k hk hkp => hfalse k hk (by omega) (by omega))
  have hB : ∀ b ∈ (w.drop (p + 1)).take (q - p - 1), b = false := by
    apply allFalse_take
    intro k hk hkp
    rw [List.getElem_drop]
    rw [List.length_drop] at hk
    exact hfalse _ (by omega) (by omega) (by omega)
  have hC : ∀ b ∈ w.drop (p + 1 + (q - p - 1 + 1)), b = false :=
    allFalse_drop w _ (fun k hk hkp => hfalse k hk (by omega) (by omega))
  have hBlen : ((w.drop (p + 1)).take (q - p - 1)).length = q - p - 1 := by
    rw [List.length_take, List.length_drop]; omega
  rw [hs1, feed_append, feed_cons, feed_append, feed_cons, feed_zero_of_allFalse _ hA,
    step_zero_true, feed_allFalse _ _ hB, hBlen, ← Lpow_add, lfsrStep_eq_L]
  apply feed_ne_zero_of_allFalse _ _ hC
  intro h0
  have h1 := L_eq_zero _ h0
  have h2 : Lpow (1 + (q - p - 1)) 1#16 = 1#16 := by
    have := BitVec.xor_eq_zero_iff.mp h1
    simpa [bit] using this
  have e : 1 + (q - p - 1) = q - p := by omega
  rw [e] at h2
  exact hord h2

/-- exactly two set bits at distance `d`, `1 ≤ d ≤ 2047`: the zero register does not return to zero -/
theorem feed_two_ne_zero (w : List Bool) (p q : Nat) (hpq : p < q) (hq : q < w.length)
    (hd : q - p ≤ 2047)
    (h : ∀ k (hk : k < w.length), w[k] = true ↔ (k = p ∨ k = q)) : Spec.feed 0#16 w ≠ 0#16 :=
  feed_two_ne_zero_of w p q hpq hq (Lpow_one_ne_one _ (by omega) hd) h

end Crc

/-! ### frames: acceptance, error patterns -/

/-- bytewise xor of two strings (an error pattern applied to a frame) -/
def xorBytes (a b : Bytes) : Bytes := List.zipWith (· ^^^ ·) a b

/-- the CRC comparison `rtu::extract_frame` makes when the whole of `f` is taken as the frame:
    the last two bytes, read big-endian, equal `crc16` of everything before them -/
def CrcOk (f : Bytes) : Prop :=
  2 ≤ f.length ∧ read16 (f.drop (f.length - 2)) 0 = .ok (crc16 (f.take (f.length - 2)))

instance (f : Bytes) : Decidable (CrcOk f) := by unfold CrcOk; infer_instance

/-- bit `k` of a string in transmission order: byte `k / 8`, bit `k % 8` (least significant first) -/
def errBit (E : Bytes) (k : Nat) : Bool := (E[k / 8]?.getD 0).toNat.testBit (k % 8)

namespace Crc

@[simp] theorem xorBytes_length (a b : Bytes) : (xorBytes a b).length = min a.length b.length := by
  simp [xorBytes]

theorem xorBytes_cons (x y : UInt8) (a b : Bytes) : xorBytes (x :: a) (y :: b) = (x ^^^ y) :: xorBytes a b := rfl

theorem crcByte_xor (s t : UInt16) (x y : UInt8) :
    crcByte (s ^^^ t) (x ^^^ y) = crcByte s x ^^^ crcByte t y := by
  apply UInt16.toBitVec_inj.mp
  rw [UInt16.toBitVec_xor, crcByte_toBitVec, crcByte_toBitVec, crcByte_toBitVec, ← Lpow_xor,
    UInt8.toUInt16_xor]
  simp only [UInt16.toBitVec_xor]
  congr 1
  ac_rfl

/-- linearity over equal-length strings, general start values -/
theorem crcRaw_xorBytes' (M E : Bytes) (h : M.length = E.length) (i j : UInt16) :
    crcRaw (i ^^^ j) (xorBytes M E) = crcRaw i M ^^^ crcRaw j E := by
  induction M generalizing E i j with
  | nil =>
    cases E with
    | nil => rfl
    | cons _ _ => simp at h
  | cons x M ih =>
    cases E with
    | nil => simp at h
    | cons y E =>
      rw [xorBytes_cons, crcRaw_cons, crcRaw_cons, crcRaw_cons, crcByte_xor]
      exact ih E (by simpa using h) _ _

theorem crcRaw_xorBytes (M E : Bytes) (h : M.length = E.length) (i : UInt16) :
    crcRaw i (xorBytes M E) = crcRaw i M ^^^ crcRaw 0 E := by
  have := crcRaw_xorBytes' M E h i 0
  simpa using this

/-! acceptance ⇔ zero residue -/

theorem crcOk_append (body : Bytes) (a b : UInt8) : CrcOk (body ++ [a, b]) ↔ rd16 a b = crc16 body := by
  unfold CrcOk
  have hl : (body ++ [a, b]).length - 2 = body.length := by simp
  rw [hl, List.drop_left, List.take_left]
  simp [read16]

theorem exists_split_last2 (f : Bytes) (h : 2 ≤ f.length) : ∃ body a b, f = body ++ [a, b] := by
  have hlen : (f.drop (f.length - 2)).length = 2 := by rw [List.length_drop]; omega
  match hd : f.drop (f.length - 2), hlen with
  | [a, b], _ => exact ⟨f.take (f.length - 2), a, b, by rw [← hd, List.take_append_drop]⟩

theorem crcByte_init_ne_zero (a : UInt8) : crcByte 0xFFFF a ≠ 0 := by
  revert a
  apply byte_cases
  decide +kernel

theorem crcOk_append_iff_residue (body : Bytes) (a b : UInt8) :
    CrcOk (body ++ [a, b]) ↔ crcRaw 0xFFFF (body ++ [a, b]) = 0 := by
  rw [crcOk_append, crcRaw_append, crcRaw_two_eq_zero]
  unfold crc16
  constructor
  · intro h
    apply rotr8_inj
    rw [rotr8_word, h]
  · intro h
    rw [h, rotr8_word]

/-- the extractor's CRC comparison succeeds on `f` iff the raw register run over all of `f`
    (CRC bytes included) ends at zero -/
theorem crcOk_iff_residue (f : Bytes) : CrcOk f ↔ crcRaw 0xFFFF f = 0 := by
  by_cases hl : 2 ≤ f.length
  · obtain ⟨body, a, b, rfl⟩ := exists_split_last2 f hl
    exact crcOk_append_iff_residue body a b
  · constructor
    · intro h; exact absurd h.1 hl
    · intro h
      exfalso
      match f, hl with
      | [], _ => revert h; decide
      | [a], _ => exact crcByte_init_ne_zero a h
      | _ :: _ :: _, hl => simp at hl

theorem bitsLSB_getElem (x : UInt8) (k : Nat) (h : k < (Spec.bitsLSB x).length) :
    (Spec.bitsLSB x)[k] = x.toNat.testBit k := by
  simp [Spec.bitsLSB]

/-- `errBit` indexes the specification's transmission-order bit string -/
theorem messageBits_getElem (E : Bytes) (k : Nat) (h : k < (Spec.messageBits E).length) :
    (Spec.messageBits E)[k] = errBit E k := by
  induction E generalizing k with
  | nil => simp [messageBits_nil] at h
  | cons x m ih =>
    simp only [messageBits_cons] at h ⊢
    rw [List.getElem_append]
    split
    · rename_i hk
      rw [bitsLSB_length] at hk
      rw [bitsLSB_getElem]
      unfold errBit
      have e1 : k / 8 = 0 := by omega
      have e2 : k % 8 = k := by omega
      simp [e1, e2]
    · rename_i hk
      rw [bitsLSB_length] at hk
      rw [List.length_append, bitsLSB_length] at h
      simp only [bitsLSB_length]
      rw [ih (k - 8) (by omega)]
      unfold errBit
      have e1 : k / 8 = (k - 8) / 8 + 1 := by omega
      have e2 : k % 8 = (k - 8) % 8 := by omega
      rw [e1, e2, List.getElem?_cons_succ]

/-- with a valid frame `F`, the corrupted frame `F ⊕ E` passes the CRC comparison iff the error
    pattern's own register value from start 0 is zero -/
theorem crcOk_xor_iff (F E : Bytes) (hF : CrcOk F) (hlen : E.length = F.length) :
    CrcOk (xorBytes F E) ↔ crcRaw 0 E = 0 := by
  rw [crcOk_iff_residue] at hF ⊢
  rw [crcRaw_xorBytes F E hlen.symm, hF, UInt16.zero_xor]

theorem crcRaw_zero_ne_zero_of_feed (E : Bytes) (h : Spec.feed 0#16 (Spec.messageBits E) ≠ 0#16) :
    crcRaw 0 E ≠ 0 := by
  intro h0
  apply h
  rw [← UInt16.toBitVec_inj, crcRaw_eq_feed] at h0
  exact h0

end Crc

/-! ### classes of error patterns; the extractor at full length -/

/-- the error pattern's set bits are non-empty and confined to 16 consecutive transmitted positions -/
def Burst16 (E : Bytes) : Prop :=
  (∃ k, k < 8 * E.length ∧ errBit E k = true) ∧
  ∃ p, ∀ k, k < 8 * E.length → errBit E k = true → p ≤ k ∧ k < p + 16

/-- exactly one bit of the error pattern is set -/
def SingleBit (E : Bytes) : Prop :=
  ∃ p, p < 8 * E.length ∧ ∀ k, k < 8 * E.length → (errBit E k = true ↔ k = p)

/-- exactly two bits of the error pattern are set -/
def DoubleBit (E : Bytes) : Prop :=
  ∃ p q, p < q ∧ q < 8 * E.length ∧ ∀ k, k < 8 * E.length → (errBit E k = true ↔ (k = p ∨ k = q))

/-- the error pattern of `n` bytes with only transmitted bit `p` set -/
def bitError (n p : Nat) : Bytes :=
  (List.range n).map fun i => if i = p / 8 then UInt8.ofNat (2 ^ (p % 8)) else 0

namespace Crc

@[simp] theorem bitError_length (n p : Nat) : (bitError n p).length = n := by simp [bitError]

theorem errBit_bitError (n p k : Nat) (hk : k < 8 * n) : errBit (bitError n p) k = decide (k = p) := by
  unfold errBit bitError
  have hk8 : k / 8 < n := by omega
  rw [List.getElem?_map, List.getElem?_range hk8]
  simp only [Option.map_some, Option.getD_some]
  by_cases h : k / 8 = p / 8
  · rw [if_pos h]
    have hlt : 2 ^ (p % 8) < 256 := by
      have : p % 8 < 8 := Nat.mod_lt _ (by decide)
      calc 2 ^ (p % 8) < 2 ^ 8 := Nat.pow_lt_pow_right (by decide) this
        _ = 256 := rfl
    rw [UInt8.toNat_ofNat', Nat.mod_eq_of_lt hlt, Nat.testBit_two_pow]
    by_cases h2 : p % 8 = k % 8
    · have : k = p := by omega
      simp [h2, this]
    · have : k ≠ p := by intro e; subst e; exact h2 rfl
      simp [h2, this]
  · rw [if_neg h]
    have : k ≠ p := by intro e; subst e; exact h rfl
    simp [this]

theorem errBit_xorBytes (A B : Bytes) (h : A.length = B.length) (k : Nat) :
    errBit (xorBytes A B) k = (errBit A k ^^ errBit B k) := by
  unfold errBit xorBytes
  rw [List.getElem?_zipWith]
  cases hA : A[k / 8]? with
  | none =>
    have : B[k / 8]? = none := by
      rw [List.getElem?_eq_none_iff] at hA ⊢; omega
    simp [this]
  | some a =>
    cases hB : B[k / 8]? with
    | none =>
      exfalso
      rw [List.getElem?_eq_none_iff] at hB
      have := (List.getElem?_eq_some_iff.mp hA).1
      omega
    | some b => simp [UInt8.toNat_xor, Nat.testBit_xor]

theorem singleBit_bitError (n p : Nat) (hp : p < 8 * n) : SingleBit (bitError n p) := by
  refine ⟨p, by simpa using hp, ?_⟩
  intro k hk
  rw [bitError_length] at hk
  rw [errBit_bitError n p k hk]; simp

theorem doubleBit_bitError (n p q : Nat) (hpq : p < q) (hq : q < 8 * n) :
    DoubleBit (xorBytes (bitError n p) (bitError n q)) := by
  refine ⟨p, q, hpq, by simpa using hq, ?_⟩
  intro k hk
  have hk' : k < 8 * n := by simpa using hk
  rw [errBit_xorBytes _ _ (by simp), errBit_bitError n p k hk', errBit_bitError n q k hk']
  by_cases h1 : k = p
  · have : k ≠ q := by omega
    simp [h1]
    omega
  · simp [h1]

/-! the extractor at full length -/

theorem extract_full (f : Bytes) (h3 : 3 ≤ f.length) (hlt : f.length < usizeLimit) :
    (CrcOk f → ∃ fr, Rtu.extractFrame f (f.length - 3) = .ok (some fr)) ∧
    (¬ CrcOk f → ∃ e a, Rtu.extractFrame f (f.length - 3) = .err (.crc e a)) := by
  obtain ⟨body, a, b, rfl⟩ := exists_split_last2 f (by omega)
  have hb : 1 ≤ body.length := by simp at h3; omega
  have hl : (body ++ [a, b]).length = body.length + 2 := by simp
  rw [crcOk_append]
  rw [hl] at hlt
  have e1 : 1 + (body.length + 2 - 3) = body.length := by omega
  unfold Rtu.extractFrame
  rw [hl]
  have hne : (body ++ [a, b]).isEmpty = false := by
    cases body <;> simp
  simp only [hne, Bool.false_eq_true, if_false, e1]
  rw [if_neg (by omega), if_pos (by omega), List.take_left, List.drop_left]
  have hr : read16 [a, b] 0 = .ok (rd16 a b) := rfl
  rw [hr, Res.bind'_ok]
  constructor
  · intro h
    rw [h]
    simp only [bne_self_eq_false, Bool.false_eq_true, if_false]
    rw [idx_eq_ok (by omega), Res.bind'_ok]
    exact ⟨_, rfl⟩
  · intro h
    rw [if_pos (by simpa using h)]
    exact ⟨_, _, rfl⟩

theorem extract_full_ok (f : Bytes) (fr : Rtu.Frame)
    (h : Rtu.extractFrame f (f.length - 3) = .ok (some fr)) :
    3 ≤ f.length ∧ f.length < usizeLimit ∧ CrcOk f := by
  have h3 : 3 ≤ f.length := by
    apply Decidable.byContradiction
    intro hn
    unfold Rtu.extractFrame at h
    have e : f.length - 3 = 0 := by omega
    rw [e] at h
    split at h
    · simp at h
    · split at h
      · simp at h
      · simp only [Nat.add_zero] at h
        rw [if_neg (by omega)] at h
        simp at h
  have hlt : f.length < usizeLimit := by
    apply Decidable.byContradiction
    intro hn
    unfold Rtu.extractFrame at h
    split at h
    · simp at h
    · rw [if_pos (by omega)] at h
      simp at h
  refine ⟨h3, hlt, ?_⟩
  apply Decidable.byContradiction
  intro hc
  obtain ⟨e, a, he⟩ := (extract_full f h3 hlt).2 hc
  rw [he] at h
  simp at h

end Crc
end Modbus

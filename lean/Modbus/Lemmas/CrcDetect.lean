import Modbus.Lemmas.Crc
/-
Error detection at register level: bursts of at most 16 bits (back-step argument) and bit pairs
(order of the round on the value 1), on the specification's bit-serial register `Spec.feed`.
-/
namespace Modbus
namespace Crc

theorem msb_shr1 (s : BitVec 16) : (s >>> 1).msb = false := by
  simp [BitVec.msb_ushiftRight]

theorem lfsrStep_msb (s : BitVec 16) (b : Bool) : (Spec.lfsrStep s b).msb = (s.getLsbD 0 ^^ b) := by
  rw [lfsrStep_eq, BitVec.msb_xor, msb_shr1]
  cases (s.getLsbD 0 ^^ b) <;> simp [P] <;> decide

/-- if the new state's top bit is clear there was no feedback: the input bit equalled the register's low bit -/
theorem step_back (s : BitVec 16) (b : Bool) (h : (Spec.lfsrStep s b).msb = false) :
    b = s.getLsbD 0 ∧ Spec.lfsrStep s b = s >>> 1 := by
  rw [lfsrStep_msb] at h
  have hb : b = s.getLsbD 0 := by
    rw [BitVec.getLsbD_eq_getElem (by decide)] at h ⊢
    cases b <;> cases hs : s[0] <;> simp [hs] at h ⊢
  refine ⟨hb, ?_⟩
  rw [lfsrStep_eq, h]; simp

theorem msb_false_of_shr_zero (x : BitVec 16) (k : Nat) (hk : k ≤ 15) (h : x >>> k = 0#16) :
    x.msb = false := by
  have := congrArg (fun v => v.getLsbD (15 - k)) h
  simp at this
  have e : k + (15 - k) = 15 := by omega
  rw [e] at this
  simpa [BitVec.msb_eq_getLsbD_last] using this

/-- a window of at most 16 bits that brings the register to 0 merely spells out the register's own low bits -/
theorem feed_zero_back : ∀ (w : List Bool) (s : BitVec 16), w.length ≤ 16 → Spec.feed s w = 0#16 →
    s >>> w.length = 0#16 ∧ ∀ j (h : j < w.length), w[j] = s.getLsbD j := by
  intro w
  induction w with
  | nil => intro s _ h; simpa [Spec.feed] using h
  | cons b w ih =>
    intro s hl h
    have hl' : w.length ≤ 15 := by simpa using hl
    have h' : Spec.feed (Spec.lfsrStep s b) w = 0#16 := by simpa [Spec.feed] using h
    obtain ⟨i1, i2⟩ := ih (Spec.lfsrStep s b) (by omega) h'
    have hm : (Spec.lfsrStep s b).msb = false := msb_false_of_shr_zero _ _ hl' i1
    obtain ⟨hb, hs⟩ := step_back s b hm
    rw [hs] at i1 i2
    constructor
    · have e : s >>> (b :: w).length = s >>> 1 >>> w.length := by
        rw [← BitVec.shiftRight_add]; simp [Nat.add_comm]
      rw [e]; exact i1
    · intro j hj
      cases j with
      | zero => simpa using hb
      | succ j =>
        have := i2 j (by simpa using hj)
        simpa [Nat.add_comm] using this

/-- burst detection core: from the zero register, a non-zero window of ≤ 16 bits leaves a non-zero register -/
theorem burst_nonzero (w : List Bool) (hl : w.length ≤ 16) (hw : true ∈ w) : Spec.feed 0#16 w ≠ 0#16 := by
  intro h
  obtain ⟨_, h2⟩ := feed_zero_back w 0#16 hl h
  obtain ⟨j, hj, hjt⟩ := List.getElem_of_mem hw
  have := h2 j hj
  rw [hjt] at this
  simp at this

theorem allFalse_take (w : List Bool) (p : Nat)
    (h : ∀ k (hk : k < w.length), k < p → w[k] = false) : ∀ b ∈ w.take p, b = false := by
  intro b hb
  obtain ⟨i, hi, rfl⟩ := List.getElem_of_mem hb
  rw [List.getElem_take]
  rw [List.length_take] at hi
  exact h i (by omega) (by omega)

theorem allFalse_drop (w : List Bool) (p : Nat)
    (h : ∀ k (hk : k < w.length), p ≤ k → w[k] = false) : ∀ b ∈ w.drop p, b = false := by
  intro b hb
  obtain ⟨i, hi, rfl⟩ := List.getElem_of_mem hb
  rw [List.getElem_drop]
  rw [List.length_drop] at hi
  exact h (p + i) (by omega) (by omega)

theorem feed_ne_zero_of_allFalse (s : BitVec 16) (w : List Bool) (h : ∀ b ∈ w, b = false)
    (hs : s ≠ 0#16) : Spec.feed s w ≠ 0#16 := by
  rw [feed_allFalse s w h]
  exact fun h0 => hs (Lpow_eq_zero _ _ h0)

theorem feed_zero_of_allFalse (w : List Bool) (h : ∀ b ∈ w, b = false) : Spec.feed 0#16 w = 0#16 := by
  rw [feed_allFalse _ w h, Lpow_zero]

/-- a bit string whose set bits are non-empty and confined to a window of 16 positions does not
    bring the zero register back to zero -/
theorem feed_window_ne_zero (w : List Bool) (p : Nat)
    (hwin : ∀ k (hk : k < w.length), w[k] = true → p ≤ k ∧ k < p + 16)
    (hex : ∃ k, ∃ hk : k < w.length, w[k] = true) : Spec.feed 0#16 w ≠ 0#16 := by
  have hsplit : w = w.take p ++ ((w.drop p).take 16 ++ (w.drop p).drop 16) := by
    rw [List.take_append_drop, List.take_append_drop]
  rw [hsplit, feed_append, feed_append]
  have hA : ∀ b ∈ w.take p, b = false := by
    apply allFalse_take
    intro k hk hkp
    cases hb : w[k] with
    | false => rfl
    | true => have := hwin k hk hb; omega
  have hC : ∀ b ∈ (w.drop p).drop 16, b = false := by
    rw [List.drop_drop]
    apply allFalse_drop
    intro k hk hkp
    cases hb : w[k] with
    | false => rfl
    | true => have := hwin k hk hb; omega
  rw [feed_zero_of_allFalse _ hA]
  apply feed_ne_zero_of_allFalse _ _ hC
  apply burst_nonzero
  · rw [List.length_take]; omega
  · obtain ⟨k, hk, hkt⟩ := hex
    obtain ⟨h1, h2⟩ := hwin k hk hkt
    rw [List.mem_iff_getElem]
    refine ⟨k - p, ?_, ?_⟩
    · rw [List.length_take, List.length_drop]; omega
    · rw [List.getElem_take, List.getElem_drop]
      have e : p + (k - p) = k := by omega
      simp only [e]; exact hkt

end Crc
end Modbus

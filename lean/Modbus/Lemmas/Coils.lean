import Modbus.Model.Frame
import Modbus.Spec.Bits
/-
Coil packing (frame/coils.rs): bit algebra on bytes, the packing loop as a bitwise OR over the
buffer, the read loop, indexed access and iteration, all related to the independent arithmetic
`Spec.packBits`.  Used by C16.
-/
namespace Modbus

/-! ### bits of a byte -/

theorem bitOf_ge_eight (x : UInt8) {k : Nat} (h : 8 ≤ k) : bitOf x k = false := by
  unfold bitOf
  apply Nat.testBit_lt_two_pow
  have := x.toNat_lt
  have : 2 ^ 8 ≤ 2 ^ k := Nat.pow_le_pow_right (by omega) h
  omega

theorem UInt8.eq_of_bitOf_eq (x y : UInt8) (h : ∀ k, k < 8 → bitOf x k = bitOf y k) : x = y := by
  apply UInt8.toNat_inj.mp
  apply Nat.eq_of_testBit_eq
  intro k
  by_cases hk : k < 8
  · exact h k hk
  · have h1 := bitOf_ge_eight x (k := k) (by omega)
    have h2 := bitOf_ge_eight y (k := k) (by omega)
    unfold bitOf at h1 h2
    rw [h1, h2]

@[simp] theorem bitOf_zero (k : Nat) : bitOf 0 k = false := by
  simp [bitOf]

theorem bitOf_orBitByte (x : UInt8) (k : Nat) (b : Bool) (j : Nat) (hk : k < 8) :
    bitOf (orBitByte x k b) j = (bitOf x j || (b && decide (j = k))) := by
  have hx : x.toNat < 2 ^ 8 := x.toNat_lt
  have hb : b.toNat <<< k < 2 ^ 8 := by
    cases b
    · simp
    · simp only [Bool.toNat_true, Nat.one_shiftLeft]
      exact Nat.pow_lt_pow_right (by omega) hk
  have hlt : x.toNat ||| (b.toNat <<< k) < 2 ^ 8 := Nat.or_lt_two_pow hx hb
  unfold bitOf orBitByte
  rw [UInt8.toNat_ofNat', Nat.mod_eq_of_lt hlt, Nat.testBit_or]
  congr 1
  cases b
  · simp
  · simp only [Bool.toNat_true, Nat.one_shiftLeft, Nat.testBit_two_pow, Bool.true_and]
    simp only [eq_comm]

/-- the spec's byte as an explicit function of its eight bits -/
def byteOfBits (c0 c1 c2 c3 c4 c5 c6 c7 : Bool) : Nat :=
  0 + (if c0 then 2 ^ 0 else 0) + (if c1 then 2 ^ 1 else 0) + (if c2 then 2 ^ 2 else 0) + (if c3 then 2 ^ 3 else 0)
    + (if c4 then 2 ^ 4 else 0) + (if c5 then 2 ^ 5 else 0) + (if c6 then 2 ^ 6 else 0) + (if c7 then 2 ^ 7 else 0)

theorem packedByte_eq (coils : List Bool) (k : Nat) :
    Spec.packedByte coils k =
      byteOfBits (coils.getD (8 * k + 0) false) (coils.getD (8 * k + 1) false) (coils.getD (8 * k + 2) false)
        (coils.getD (8 * k + 3) false) (coils.getD (8 * k + 4) false) (coils.getD (8 * k + 5) false)
        (coils.getD (8 * k + 6) false) (coils.getD (8 * k + 7) false) := rfl

theorem byteOfBits_spec : ∀ c0 c1 c2 c3 c4 c5 c6 c7 : Bool,
    byteOfBits c0 c1 c2 c3 c4 c5 c6 c7 < 256 ∧
    (byteOfBits c0 c1 c2 c3 c4 c5 c6 c7).testBit 0 = c0 ∧ (byteOfBits c0 c1 c2 c3 c4 c5 c6 c7).testBit 1 = c1 ∧
    (byteOfBits c0 c1 c2 c3 c4 c5 c6 c7).testBit 2 = c2 ∧ (byteOfBits c0 c1 c2 c3 c4 c5 c6 c7).testBit 3 = c3 ∧
    (byteOfBits c0 c1 c2 c3 c4 c5 c6 c7).testBit 4 = c4 ∧ (byteOfBits c0 c1 c2 c3 c4 c5 c6 c7).testBit 5 = c5 ∧
    (byteOfBits c0 c1 c2 c3 c4 c5 c6 c7).testBit 6 = c6 ∧ (byteOfBits c0 c1 c2 c3 c4 c5 c6 c7).testBit 7 = c7 := by
  decide +kernel

theorem bitOf_packedByte (coils : List Bool) (k j : Nat) (hj : j < 8) :
    bitOf (UInt8.ofNat (Spec.packedByte coils k)) j = coils.getD (8 * k + j) false := by
  rw [packedByte_eq]
  unfold bitOf
  have hs := byteOfBits_spec (coils.getD (8 * k + 0) false) (coils.getD (8 * k + 1) false) (coils.getD (8 * k + 2) false)
        (coils.getD (8 * k + 3) false) (coils.getD (8 * k + 4) false) (coils.getD (8 * k + 5) false)
        (coils.getD (8 * k + 6) false) (coils.getD (8 * k + 7) false)
  obtain ⟨hlt, h0, h1, h2, h3, h4, h5, h6, h7⟩ := hs
  rw [UInt8.toNat_ofNat', Nat.mod_eq_of_lt hlt]
  match j, hj with
  | 0, _ => exact h0
  | 1, _ => exact h1
  | 2, _ => exact h2
  | 3, _ => exact h3
  | 4, _ => exact h4
  | 5, _ => exact h5
  | 6, _ => exact h6
  | 7, _ => exact h7
  | n + 8, h => omega


/-- bit `p` of a byte string, LSB-first within bytes: bit `p mod 8` of byte `p div 8` (`false` beyond the end) -/
def bitAt (buf : Bytes) (p : Nat) : Bool := bitOf (buf.getD (p / 8) 0) (p % 8)

theorem bitAt_of_getElem? {buf : Bytes} {p : Nat} {x : UInt8} (h : buf[p / 8]? = some x) :
    bitAt buf p = bitOf x (p % 8) := by
  simp [bitAt, List.getD_eq_getElem?_getD, h]

theorem bitAt_beyond {buf : Bytes} {p : Nat} (h : 8 * buf.length ≤ p) : bitAt buf p = false := by
  have : buf.length ≤ p / 8 := by omega
  simp [bitAt, List.getD_eq_getElem?_getD, List.getElem?_eq_none this]

theorem bitAt_append (a b : Bytes) (p : Nat) :
    bitAt (a ++ b) p = if p < 8 * a.length then bitAt a p else bitAt b (p - 8 * a.length) := by
  unfold bitAt
  simp only [List.getD_eq_getElem?_getD, List.getElem?_append]
  by_cases h : p < 8 * a.length
  · have : p / 8 < a.length := by omega
    simp [h, this]
  · have h1 : ¬ p / 8 < a.length := by omega
    have h2 : (p - 8 * a.length) / 8 = p / 8 - a.length := by omega
    have h3 : (p - 8 * a.length) % 8 = p % 8 := by omega
    simp [h, h1, h2, h3]

theorem bitAt_replicate_zero (m p : Nat) : bitAt (List.replicate m 0) p = false := by
  unfold bitAt
  simp only [List.getD_eq_getElem?_getD, List.getElem?_replicate]
  split <;> simp

/-- a byte string is determined by its length and its bits -/
theorem Bytes.ext_bitAt (a b : Bytes) (hl : a.length = b.length)
    (h : ∀ p, p < 8 * a.length → bitAt a p = bitAt b p) : a = b := by
  apply List.ext_getElem hl
  intro i h1 h2
  apply UInt8.eq_of_bitOf_eq
  intro k hk
  have := h (8 * i + k) (by omega)
  have e1 : (8 * i + k) / 8 = i := by omega
  have e2 : (8 * i + k) % 8 = k := by omega
  simpa [bitAt, e1, e2, List.getD_eq_getElem?_getD, List.getElem?_eq_getElem h1, List.getElem?_eq_getElem h2] using this

/-- one iteration of the packing loop: defined exactly when the byte exists; ORs one bit in -/
theorem orBit_ok (buf : Bytes) (i : Nat) (b : Bool) (h : i < 8 * buf.length) :
    ∃ buf', orBit buf i b = .ok buf' ∧ buf'.length = buf.length ∧
      ∀ p, bitAt buf' p = (bitAt buf p || (b && decide (p = i))) := by
  have hi : i / 8 < buf.length := by omega
  refine ⟨buf.set (i / 8) (orBitByte buf[i / 8] (i % 8) b), ?_, by simp, ?_⟩
  · simp [orBit, List.getElem?_eq_getElem hi]
  · intro p
    unfold bitAt
    simp only [List.getD_eq_getElem?_getD, List.getElem?_set]
    by_cases hp : i / 8 = p / 8
    · have hp' : p / 8 < buf.length := by omega
      have hx : buf[p / 8]? = some buf[i / 8] := by
        rw [List.getElem?_eq_getElem hp']; simp [hp]
      simp only [hp, if_true, hp', hx, Option.getD_some]
      rw [bitOf_orBitByte _ _ _ _ (by omega)]
      congr 2
      rw [decide_eq_decide]
      constructor <;> intro h' <;> omega
    · have : ¬ p = i := by intro h'; subst h'; exact hp rfl
      simp [hp, this]

theorem orBit_panic (buf : Bytes) (i : Nat) (b : Bool) (h : 8 * buf.length ≤ i) : orBit buf i b = .panic := by
  have : buf.length ≤ i / 8 := by omega
  simp [orBit, List.getElem?_eq_none this]

/-- the packing loop ORs bits `i, i+1, …` of the buffer with the coils and touches nothing else -/
theorem packLoop_ok (bs : List Bool) :
    ∀ (i : Nat) (buf : Bytes), i + bs.length ≤ 8 * buf.length →
      ∃ buf', packLoop bs i buf = .ok buf' ∧ buf'.length = buf.length ∧
        ∀ p, bitAt buf' p = (bitAt buf p || (decide (i ≤ p) && bs.getD (p - i) false)) := by
  induction bs with
  | nil => intro i buf _; exact ⟨buf, rfl, rfl, by simp⟩
  | cons b bs ih =>
    intro i buf h
    simp only [List.length_cons] at h
    obtain ⟨buf1, h1, l1, b1⟩ := orBit_ok buf i b (by omega)
    obtain ⟨buf2, h2, l2, b2⟩ := ih (i + 1) buf1 (by omega)
    refine ⟨buf2, ?_, by omega, ?_⟩
    · simp only [packLoop, h1, h2]
    · intro p
      rw [b2 p, b1 p, Bool.or_assoc]
      congr 1
      by_cases hp : p = i
      · subst hp
        have h3 : ¬ p + 1 ≤ p := by omega
        simp [h3]
      · by_cases hlt : i ≤ p
        · have e : p - i = (p - (i + 1)) + 1 := by omega
          have h3 : i + 1 ≤ p := by omega
          simp [hp, hlt, h3, e]
        · have h3 : ¬ i + 1 ≤ p := by omega
          simp [hp, hlt, h3]


/-! ### the spec's packed field, bit by bit -/

@[simp] theorem packBits_length (bs : List Bool) : (Spec.packBits bs).length = packedCoilsLen bs.length := by
  simp [Spec.packBits, packedCoilsLen]

theorem packedCoilsLen_bound (n : Nat) : n ≤ 8 * packedCoilsLen n ∧ 8 * packedCoilsLen n < n + 8 := by
  unfold packedCoilsLen; omega

theorem packBits_getElem? (bs : List Bool) (k : Nat) (h : k < packedCoilsLen bs.length) :
    (Spec.packBits bs)[k]? = some (UInt8.ofNat (Spec.packedByte bs k)) := by
  unfold packedCoilsLen at h
  simp [Spec.packBits, List.getElem?_map, List.getElem?_range h]

/-- coil `p` is bit `p mod 8` of byte `p div 8` of the spec's packed field; every other bit is zero -/
theorem bitAt_packBits (bs : List Bool) (p : Nat) : bitAt (Spec.packBits bs) p = bs.getD p false := by
  by_cases h : p < 8 * packedCoilsLen bs.length
  · have hk : p / 8 < packedCoilsLen bs.length := by omega
    rw [bitAt_of_getElem? (packBits_getElem? bs (p / 8) hk), bitOf_packedByte _ _ _ (by omega)]
    congr 1; omega
  · have hb := packedCoilsLen_bound bs.length
    rw [bitAt_beyond (by rw [packBits_length]; omega)]
    have : bs.length ≤ p := by omega
    simp [List.getD_eq_getElem?_getD, List.getElem?_eq_none this]

theorem getD_eq_getElem (bs : List Bool) (p : Nat) (h : p < bs.length) : bs.getD p false = bs[p] := by
  simp [List.getD_eq_getElem?_getD, List.getElem?_eq_getElem h]

/-! ### `pack_coils` -/

/-- with a large enough target the packing succeeds, writes exactly the spec's packed field over the
    first ⌈n/8⌉ bytes — whatever they held — and leaves the remaining bytes as they were -/
theorem packCoils_eq (bs : List Bool) (t : Bytes) (h : packedCoilsLen bs.length ≤ t.length) :
    packCoils bs t = .ok (packedCoilsLen bs.length, Spec.packBits bs ++ t.drop (packedCoilsLen bs.length)) := by
  unfold packCoils
  have hb := packedCoilsLen_bound bs.length
  simp only [if_neg (show ¬ t.length < packedCoilsLen bs.length by omega)]
  generalize hm : packedCoilsLen bs.length = m at h hb
  obtain ⟨buf', h1, l1, b1⟩ := packLoop_ok bs 0 (List.replicate m 0 ++ t.drop m)
    (by simp only [List.length_append, List.length_replicate, List.length_drop]; omega)
  rw [h1, Res.map_ok]
  congr 2
  apply Bytes.ext_bitAt
  · rw [l1]; simp [hm]
  · intro p _
    rw [b1 p, bitAt_append, bitAt_append, bitAt_replicate_zero, bitAt_packBits, packBits_length, hm,
      List.length_replicate]
    by_cases hp : p < 8 * m
    · simp [hp]
    · have : bs.length ≤ p := by omega
      simp [hp, List.getD_eq_getElem?_getD, List.getElem?_eq_none this]

theorem packCoils_small (bs : List Bool) (t : Bytes) (h : t.length < packedCoilsLen bs.length) :
    packCoils bs t = .err .bufferSize := by
  unfold packCoils
  simp only [if_pos h]

/-! ### `unpack_coils` -/

/-- the read loop: defined whenever the bytes it indexes exist; reads bits `i, i+1, …, i+n-1` -/
theorem unpackLoop_ok (bytes : Bytes) :
    ∀ (n i : Nat) (acc : List Bool), i + n ≤ 8 * bytes.length →
      unpackLoop bytes n i acc = .ok (acc.reverse ++ (List.range' i n).map (bitAt bytes)) := by
  intro n
  induction n with
  | zero => intro i acc _; simp [unpackLoop]
  | succ n ih =>
    intro i acc h
    have hi : i / 8 < bytes.length := by omega
    have hx : bytes[i / 8]? = some bytes[i / 8] := List.getElem?_eq_getElem hi
    rw [unpackLoop]
    simp only [hx]
    rw [ih (i + 1) _ (by omega), ← bitAt_of_getElem? hx, List.range'_succ]
    simp

theorem unpackCoils_eq (bytes : Bytes) (count : UInt16) (out : List Bool)
    (ho : count.toNat ≤ out.length) (hs : packedCoilsLen count.toNat ≤ bytes.length) :
    unpackCoils bytes count out =
      .ok ((List.range count.toNat).map (bitAt bytes) ++ out.drop count.toNat) := by
  unfold unpackCoils
  have hb := packedCoilsLen_bound count.toNat
  rw [if_neg (by omega), unpackLoop_ok bytes count.toNat 0 [] (by omega)]
  simp [List.range_eq_range']

/-- reading `n` bits back from the spec's packed field (followed by anything) gives the coils -/
theorem map_bitAt_packBits (bs : List Bool) (extra : Bytes) :
    (List.range bs.length).map (bitAt (Spec.packBits bs ++ extra)) = bs := by
  have hb := packedCoilsLen_bound bs.length
  apply List.ext_getElem (by simp)
  intro i h1 h2
  have hp : i < 8 * (Spec.packBits bs).length := by rw [packBits_length]; omega
  simp only [List.getElem_map, List.getElem_range, bitAt_append, hp, if_true, bitAt_packBits]
  exact getD_eq_getElem bs i h2

/-! ### `Coils::get`, iteration -/

theorem Coils.get_packBits (bs : List Bool) (tail : Bytes) (i : Nat) :
    (Coils.mk (Spec.packBits bs ++ tail) bs.length).get i =
      .ok (if h : i < bs.length then some bs[i] else none) := by
  unfold Coils.get
  have hb := packedCoilsLen_bound bs.length
  by_cases h : i < bs.length
  · have hn : ¬ i ≥ bs.length := by omega
    have hi : i / 8 < (Spec.packBits bs ++ tail).length := by
      rw [List.length_append, packBits_length]; omega
    have hx := List.getElem?_eq_getElem hi
    simp only [hn, if_false, h, dite_true, hx]
    rw [← bitAt_of_getElem? hx, bitAt_append, if_pos (by rw [packBits_length]; omega), bitAt_packBits,
      getD_eq_getElem bs i h]
  · have hn : i ≥ bs.length := by omega
    simp [hn, h]

theorem Coils.iterFrom_packBits (bs : List Bool) (tail : Bytes) :
    ∀ (fuel i : Nat) (acc : List Bool), i ≤ bs.length → bs.length - i < fuel →
      (Coils.mk (Spec.packBits bs ++ tail) bs.length).iterFrom fuel i acc = .ok (acc.reverse ++ bs.drop i) := by
  intro fuel
  induction fuel with
  | zero => intro i acc _ h; omega
  | succ fuel ih =>
    intro i acc hi hf
    rw [Coils.iterFrom, Coils.get_packBits]
    by_cases h : i < bs.length
    · simp only [h, dite_true]
      rw [ih (i + 1) _ (by omega) (by omega)]
      rw [List.drop_eq_getElem_cons h]
      simp
    · simp only [h, dite_false]
      have : bs.drop i = [] := List.drop_eq_nil_of_le (by omega)
      simp [this]

theorem Coils.iter_packBits (bs : List Bool) (tail : Bytes) :
    (Coils.mk (Spec.packBits bs ++ tail) bs.length).iter = .ok bs := by
  unfold Coils.iter
  have := Coils.iterFrom_packBits bs tail (bs.length + 1) 0 [] (by omega) (by omega)
  simpa using this

theorem Coils.iter_packBits_exact (bs : List Bool) : (Coils.mk (Spec.packBits bs) bs.length).iter = .ok bs := by
  simpa using Coils.iter_packBits bs []

/-! ### the wire form of a coil container: `Coils::copy_to` clears the unused bits of the last byte -/

/-- a coil container's slice holds (at least) the ⌈quantity/8⌉ bytes its quantity promises -/
def Coils.Backed (c : Coils) : Prop := packedCoilsLen c.quantity ≤ c.data.length

instance (c : Coils) : Decidable c.Backed := by unfold Coils.Backed; infer_instance

/-- the coils of a container, read straight off its slice: coil `i` is bit `i mod 8` of byte `i div 8` -/
def Coils.bits (c : Coils) : List Bool := (List.range c.quantity).map (bitAt c.data)

@[simp] theorem Coils.bits_length (c : Coils) : c.bits.length = c.quantity := by simp [Coils.bits]

theorem Coils.bits_getElem (c : Coils) (i : Nat) (h : i < c.bits.length) : c.bits[i] = bitAt c.data i := by
  simp [Coils.bits]

/-- the unused bits of the last used byte (positions `quantity ≤ p < 8·⌈quantity/8⌉`) are zero -/
def Coils.CleanPad (c : Coils) : Prop :=
  ∀ p, p < 8 * packedCoilsLen c.quantity → c.quantity ≤ p → bitAt c.data p = false

instance (c : Coils) : Decidable c.CleanPad := by unfold Coils.CleanPad; infer_instance

/-- `x & ((1 << k) - 1)` keeps bit `j` exactly when `j < k` -/
theorem bitOf_maskLow (x : UInt8) (k j : Nat) : bitOf (maskLow x k) j = (decide (j < k) && bitOf x j) := by
  unfold bitOf maskLow
  have hx := x.toNat_lt
  have hm : x.toNat % 2 ^ k < 2 ^ 8 := Nat.lt_of_le_of_lt (Nat.mod_le _ _) hx
  rw [UInt8.toNat_ofNat', Nat.mod_eq_of_lt hm, Nat.testBit_mod_two_pow]

theorem maskLow_eight (x : UInt8) {k : Nat} (h : 8 ≤ k) : maskLow x k = x := by
  apply UInt8.eq_of_bitOf_eq
  intro j hj
  rw [bitOf_maskLow]
  simp [show j < k by omega]

@[simp] theorem maskLastByte_length (raw : Bytes) (k : Nat) : (maskLastByte raw k).length = raw.length := by
  simp only [maskLastByte, List.length_append, List.length_take, List.length_map, List.length_drop]
  omega

theorem bitAt_take (data : Bytes) (n p : Nat) (h : p < 8 * n) : bitAt (data.take n) p = bitAt data p := by
  unfold bitAt
  have : p / 8 < n := by omega
  simp only [List.getD_eq_getElem?_getD, List.getElem?_take, this, if_true]

theorem bitAt_map (f : UInt8 → UInt8) (hf : f 0 = 0) (l : Bytes) (p : Nat) :
    bitAt (l.map f) p = bitOf (f (l.getD (p / 8) 0)) (p % 8) := by
  unfold bitAt
  simp only [List.getD_eq_getElem?_getD, List.getElem?_map]
  cases l[p / 8]? <;> simp [hf]

theorem maskLow_zero (k : Nat) : maskLow 0 k = 0 := by
  apply UInt8.eq_of_bitOf_eq
  intro j _
  rw [bitOf_maskLow]; simp

/-- bits of the masked copy: everything before the last byte unchanged, the last byte keeps its low `k` bits -/
theorem bitAt_maskLastByte (raw : Bytes) (k p : Nat) :
    bitAt (maskLastByte raw k) p =
      if p < 8 * (raw.length - 1) then bitAt raw p else (decide (p % 8 < k) && bitAt raw p) := by
  unfold maskLastByte
  rw [bitAt_append]
  have hl : (raw.take (raw.length - 1)).length = raw.length - 1 := by rw [List.length_take]; omega
  rw [hl]
  by_cases hp : p < 8 * (raw.length - 1)
  · rw [if_pos hp, if_pos hp, bitAt_take _ _ _ hp]
  · rw [if_neg hp, if_neg hp, bitAt_map _ (maskLow_zero k), bitOf_maskLow]
    have e1 : (p - 8 * (raw.length - 1)) % 8 = p % 8 := by omega
    have e2 : (p - 8 * (raw.length - 1)) / 8 = p / 8 - (raw.length - 1) := by omega
    rw [e1, e2]
    congr 1
    unfold bitAt
    simp only [List.getD_eq_getElem?_getD, List.getElem?_drop]
    congr 3
    omega

/-- the bytes `Coils::copy_to` stores: the first ⌈n/8⌉ bytes of the slice, the unused high bits of the last
    one cleared -/
def Coils.wire (c : Coils) : Bytes :=
  if c.quantity % 8 = 0 then c.data.take c.packedLen
  else maskLastByte (c.data.take c.packedLen) (c.quantity % 8)

theorem Coils.wire_of_multiple (c : Coils) (h : c.quantity % 8 = 0) : c.wire = c.data.take c.packedLen := by
  unfold Coils.wire; rw [if_pos h]

theorem Coils.copyBytes_eq (c : Coils) :
    c.copyBytes = if c.data.length < c.packedLen then .panic else .ok c.wire := by
  unfold Coils.copyBytes Coils.wire
  by_cases h : c.data.length < c.packedLen
  · simp [h]
  · by_cases h8 : c.quantity % 8 = 0 <;> simp [h, h8]

@[simp] theorem Coils.wire_length (c : Coils) : c.wire.length = min c.packedLen c.data.length := by
  unfold Coils.wire
  split <;> simp

/-- bit `p` of the wire form: coil `p` below the quantity, zero above -/
theorem Coils.Backed.bitAt_wire {c : Coils} (h : c.Backed) (p : Nat) (hp : p < 8 * packedCoilsLen c.quantity) :
    bitAt c.wire p = (decide (p < c.quantity) && bitAt c.data p) := by
  have h : packedCoilsLen c.quantity ≤ c.data.length := h
  have hb := packedCoilsLen_bound c.quantity
  unfold Coils.wire Coils.packedLen
  by_cases h8 : c.quantity % 8 = 0
  · rw [if_pos h8, bitAt_take _ _ _ hp]
    have : p < c.quantity := by unfold packedCoilsLen at hp; omega
    simp [this]
  · rw [if_neg h8, bitAt_maskLastByte, List.length_take, Nat.min_eq_left h, bitAt_take _ _ _ hp]
    unfold packedCoilsLen at hp hb ⊢
    by_cases h1 : p < 8 * ((c.quantity + 7) / 8 - 1)
    · rw [if_pos h1]
      have : p < c.quantity := by omega
      simp [this]
    · rw [if_neg h1]
      congr 1
      rw [decide_eq_decide]
      constructor <;> intro h' <;> omega

/-- **zero padding on the wire**: whatever the raw bytes of a backed container hold, the bytes `copy_to`
    stores are the specification's packed field of its coils -/
theorem Coils.Backed.wire_eq_packBits {c : Coils} (h : c.Backed) : c.wire = Spec.packBits c.bits := by
  have h' : packedCoilsLen c.quantity ≤ c.data.length := h
  apply Bytes.ext_bitAt
  · rw [Coils.wire_length, packBits_length, Coils.bits_length, Coils.packedLen]; omega
  · intro p hp
    rw [Coils.wire_length, Coils.packedLen, Nat.min_eq_left h'] at hp
    rw [h.bitAt_wire p hp, bitAt_packBits]
    by_cases hq : p < c.quantity
    · rw [getD_eq_getElem _ _ (by simpa using hq), Coils.bits_getElem]; simp [hq]
    · simp [hq, List.getD_eq_getElem?_getD, List.getElem?_eq_none (show c.bits.length ≤ p by simp; omega)]

theorem Coils.copyBytes_eq_packBits {c : Coils} (h : c.Backed) : c.copyBytes = .ok (Spec.packBits c.bits) := by
  have h' : packedCoilsLen c.quantity ≤ c.data.length := h
  rw [Coils.copyBytes_eq, if_neg (by unfold Coils.packedLen; omega), h.wire_eq_packBits]

/-- with clean padding the masking changes nothing: the wire form is the used prefix of the slice -/
theorem Coils.Backed.wire_eq_take {c : Coils} (h : c.Backed) (hc : c.CleanPad) :
    c.wire = c.data.take (packedCoilsLen c.quantity) := by
  have h' : packedCoilsLen c.quantity ≤ c.data.length := h
  apply Bytes.ext_bitAt
  · rw [Coils.wire_length, List.length_take, Coils.packedLen]
  · intro p hp
    rw [Coils.wire_length, Coils.packedLen, Nat.min_eq_left h'] at hp
    rw [h.bitAt_wire p hp, bitAt_take _ _ _ hp]
    by_cases hq : p < c.quantity
    · simp [hq]
    · simp [hq, hc p hp (by omega)]

/-- the specification's packed field is its own wire form -/
theorem Coils.wire_packBits (bs : List Bool) : (Coils.mk (Spec.packBits bs) bs.length).wire = Spec.packBits bs := by
  have hb : (Coils.mk (Spec.packBits bs) bs.length).Backed := by
    show packedCoilsLen bs.length ≤ (Spec.packBits bs).length
    rw [packBits_length]; exact Nat.le_refl _
  rw [hb.wire_eq_packBits]
  congr 1
  have := map_bitAt_packBits bs []
  simpa [Coils.bits] using this

end Modbus

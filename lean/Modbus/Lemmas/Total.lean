import Modbus.Lemmas.Predict
import Modbus.Lemmas.TcpHeader
/-
Helper lemmas for C07 (decoders are total): `≠ .panic` through `bind`/`map`, the checked reads
behind their guards, the PDU decoders, the frame extractors, the generic scan loop.
-/
namespace Modbus.Total
open Modbus.Predict

/-! ### `Res` plumbing -/

theorem Res.bind_ne_panic {α β} {x : Res α} {f : α → Res β}
    (hx : x ≠ .panic) (hf : ∀ a, x = .ok a → f a ≠ .panic) : x.bind f ≠ .panic := by
  cases x with
  | ok a => exact hf a rfl
  | err e => simp
  | panic => exact absurd rfl hx

theorem Res.map_ne_panic {α β} {x : Res α} {f : α → β} (hx : x ≠ .panic) : x.map f ≠ .panic := by
  cases x with
  | ok a => simp
  | err e => simp
  | panic => exact absurd rfl hx

theorem Res.bind_eq_panic {α β} {x : Res α} {f : α → Res β} :
    x.bind f = .panic ↔ x = .panic ∨ ∃ a, x = .ok a ∧ f a = .panic := by
  cases x <;> simp

theorem Res.map_eq_panic {α β} {x : Res α} {f : α → β} : x.map f = .panic ↔ x = .panic := by
  cases x <;> simp

theorem idx_bind_ne_panic {β} {b : Bytes} {i : Nat} {f : UInt8 → Res β}
    (h : i < b.length) (hf : ∀ a, f a ≠ .panic) : (idx b i).bind f ≠ .panic :=
  Res.bind_ne_panic (idx_ne_panic h) (fun a _ => hf a)

theorem read16_bind_ne_panic {β} {b : Bytes} {i : Nat} {f : UInt16 → Res β}
    (h : i + 1 < b.length) (hf : ∀ a, f a ≠ .panic) : (read16 b i).bind f ≠ .panic :=
  Res.bind_ne_panic (read16_ne_panic h) (fun a _ => hf a)

theorem sliceFrom_ne_panic {b : Bytes} {i : Nat} (h : i ≤ b.length) : sliceFrom b i ≠ .panic := by
  simp [sliceFrom, h]

theorem slice_ne_panic {b : Bytes} {i j : Nat} (h : i ≤ j ∧ j ≤ b.length) : slice b i j ≠ .panic := by
  simp [slice, h]

theorem sliceFrom_bind_ne_panic {β} {b : Bytes} {i : Nat} {f : Bytes → Res β}
    (h : i ≤ b.length) (hf : ∀ a, f a ≠ .panic) : (sliceFrom b i).bind f ≠ .panic :=
  Res.bind_ne_panic (sliceFrom_ne_panic h) (fun a _ => hf a)

theorem slice_bind_ne_panic {β} {b : Bytes} {i j : Nat} {f : Bytes → Res β}
    (h : i ≤ j ∧ j ≤ b.length) (hf : ∀ a, f a ≠ .panic) : (slice b i j).bind f ≠ .panic :=
  Res.bind_ne_panic (slice_ne_panic h) (fun a _ => hf a)

theorem ok_ne_panic {α} (a : α) : (Res.ok a : Res α) ≠ .panic := by simp
theorem err_ne_panic {α} (e : Error) : (Res.err e : Res α) ≠ .panic := by simp

theorem ite_ne_panic {α} {c : Prop} [Decidable c] {x y : Res α}
    (hx : c → x ≠ .panic) (hy : ¬ c → y ≠ .panic) : (if c then x else y) ≠ .panic := by
  by_cases h : c
  · rw [if_pos h]; exact hx h
  · rw [if_neg h]; exact hy h

theorem u16CoilToBool_ne_panic (v : UInt16) : u16CoilToBool v ≠ .panic := by
  unfold u16CoilToBool
  exact ite_ne_panic (fun _ => ok_ne_panic _) (fun _ => ite_ne_panic (fun _ => ok_ne_panic _) (fun _ => err_ne_panic _))

theorem Exception.tryFrom_ne_panic (c : UInt8) : Exception.tryFrom c ≠ .panic := by
  revert c; apply byte_cases; decide +kernel

theorem isEmpty_false_length {b : Bytes} (h : ¬ b.isEmpty = true) : 0 < b.length := by
  cases b with
  | nil => simp at h
  | cons x xs => simp

/-! ### PDU decoders -/

theorem ExceptionResponse.decode_ne_panic (bytes : Bytes) : ExceptionResponse.decode bytes ≠ .panic := by
  unfold ExceptionResponse.decode
  refine ite_ne_panic (fun _ => err_ne_panic _) (fun hl => ?_)
  refine idx_bind_ne_panic (by omega) (fun fnErr => ?_)
  refine ite_ne_panic (fun _ => err_ne_panic _) (fun _ => ?_)
  refine idx_bind_ne_panic (by omega) (fun code => ?_)
  exact Res.bind_ne_panic (Exception.tryFrom_ne_panic code) (fun _ _ => ok_ne_panic _)

theorem Request.decode_ne_panic (bytes : Bytes) : Request.decode bytes ≠ .panic := by
  unfold Request.decode
  refine ite_ne_panic (fun _ => err_ne_panic _) (fun he => ?_)
  have h0 := isEmpty_false_length he
  refine idx_bind_ne_panic h0 (fun fnCode => ?_)
  refine ite_ne_panic (fun _ => err_ne_panic _) (fun hm => ?_)
  cases hfc : FunctionCode.new fnCode <;> simp only [hfc, minRequestPduLen] at hm ⊢
  case readCoils | readDiscreteInputs | readInputRegisters | readHoldingRegisters | writeSingleRegister =>
    refine read16_bind_ne_panic (by omega) (fun a => ?_)
    refine read16_bind_ne_panic (by omega) (fun q => ?_)
    exact ok_ne_panic _
  case writeSingleCoil =>
    refine read16_bind_ne_panic (by omega) (fun a => ?_)
    refine read16_bind_ne_panic (by omega) (fun v => ?_)
    exact Res.bind_ne_panic (u16CoilToBool_ne_panic v) (fun _ _ => ok_ne_panic _)
  case writeMultipleCoils =>
    refine read16_bind_ne_panic (by omega) (fun a => ?_)
    refine read16_bind_ne_panic (by omega) (fun q => ?_)
    refine idx_bind_ne_panic (by omega) (fun bc => ?_)
    refine ite_ne_panic (fun _ => err_ne_panic _) (fun hb => ?_)
    exact sliceFrom_bind_ne_panic (by omega) (fun _ => ok_ne_panic _)
  case writeMultipleRegisters =>
    refine read16_bind_ne_panic (by omega) (fun a => ?_)
    refine read16_bind_ne_panic (by omega) (fun q => ?_)
    refine idx_bind_ne_panic (by omega) (fun bc => ?_)
    refine ite_ne_panic (fun _ => err_ne_panic _) (fun hb => ?_)
    exact slice_bind_ne_panic (by omega) (fun _ => ok_ne_panic _)
  case readWriteMultipleRegisters =>
    refine read16_bind_ne_panic (by omega) (fun ra => ?_)
    refine read16_bind_ne_panic (by omega) (fun rq => ?_)
    refine read16_bind_ne_panic (by omega) (fun wa => ?_)
    refine read16_bind_ne_panic (by omega) (fun wq => ?_)
    refine idx_bind_ne_panic (by omega) (fun wc => ?_)
    refine ite_ne_panic (fun _ => err_ne_panic _) (fun hb => ?_)
    exact slice_bind_ne_panic (by omega) (fun _ => ok_ne_panic _)
  all_goals
    refine ite_ne_panic (fun _ => ?_) (fun _ => err_ne_panic _)
    exact sliceFrom_bind_ne_panic (by omega) (fun _ => ok_ne_panic _)

theorem Response.decode_ne_panic (bytes : Bytes) : Response.decode bytes ≠ .panic := by
  unfold Response.decode
  refine ite_ne_panic (fun _ => err_ne_panic _) (fun he => ?_)
  have h0 := isEmpty_false_length he
  refine idx_bind_ne_panic h0 (fun fnCode => ?_)
  refine ite_ne_panic (fun _ => err_ne_panic _) (fun hm => ?_)
  cases hfc : FunctionCode.new fnCode <;> simp only [hfc, minResponsePduLen] at hm ⊢
  case readCoils | readDiscreteInputs | readInputRegisters | readHoldingRegisters
      | readWriteMultipleRegisters =>
    refine idx_bind_ne_panic (by omega) (fun bc => ?_)
    refine ite_ne_panic (fun _ => err_ne_panic _) (fun hb => ?_)
    exact slice_bind_ne_panic (by omega) (fun _ => ok_ne_panic _)
  case writeSingleCoil =>
    exact read16_bind_ne_panic (by omega) (fun a => ok_ne_panic _)
  case writeMultipleCoils | writeSingleRegister | writeMultipleRegisters =>
    refine read16_bind_ne_panic (by omega) (fun a => ?_)
    exact read16_bind_ne_panic (by omega) (fun p => ok_ne_panic _)
  case readExceptionStatus =>
    exact idx_bind_ne_panic (by omega) (fun s => ok_ne_panic _)
  all_goals
    exact sliceFrom_bind_ne_panic (by omega) (fun _ => ok_ne_panic _)

/-! ### length predictors: never panic, and bounded -/

open Spec in
/-- the largest value a rule can produce -/
def ruleMax : LenRule → Nat
  | .fixed n => n
  | .count1 base _ => base + 255
  | .count2 base _ => base + 65535
  | .unknown => 0

open Spec in
theorem ruleRes_le (adu : Bytes) (h : Nat) (fc : UInt8) (r : LenRule) (n : Nat)
    (hn : ruleRes adu h fc r = .ok (some n)) : n ≤ ruleMax r := by
  cases r with
  | fixed m =>
    simp only [ruleRes, Res.ok.injEq, Option.some.injEq] at hn
    simp [ruleMax, hn]
  | count1 base off =>
    simp only [ruleRes] at hn
    cases hc : adu[h + off]? with
    | none => rw [hc] at hn; simp at hn
    | some c =>
      rw [hc] at hn
      simp only [Res.ok.injEq, Option.some.injEq] at hn
      have := c.toNat_lt
      simp only [ruleMax]; omega
  | count2 base off =>
    simp only [ruleRes] at hn
    cases hc : adu[h + off]? with
    | none => rw [hc] at hn; simp at hn
    | some hi =>
      cases hd : adu[h + off + 1]? with
      | none => rw [hc, hd] at hn; simp at hn
      | some lo =>
        rw [hc, hd] at hn
        simp only [Res.ok.injEq, Option.some.injEq] at hn
        have := hi.toNat_lt
        have := lo.toNat_lt
        simp only [ruleMax]; omega
  | unknown => simp [ruleRes] at hn

theorem rspClass_max (fc : UInt8) : ruleMax (rspClass fc) ≤ 65538 := by
  revert fc; apply byte_cases; decide +kernel

theorem reqClass_max (o : Nat) (fc : UInt8) : ruleMax (reqClass o fc) ≤ 265 := by
  have : ruleMax (reqClass o fc) = ruleMax (reqClass 0 fc) := by
    unfold reqClass
    by_cases c1 : 0x01 ≤ fc ∧ fc ≤ 0x06
    · rw [if_pos c1, if_pos c1]
    rw [if_neg c1, if_neg c1]
    by_cases c2 : fc = 0x07 ∨ fc = 0x0B ∨ fc = 0x0C ∨ fc = 0x11
    · rw [if_pos c2, if_pos c2]
    rw [if_neg c2, if_neg c2]
    by_cases c3 : fc = 0x0F ∨ fc = 0x10
    · rw [if_pos c3, if_pos c3]; rfl
    rw [if_neg c3, if_neg c3]
  rw [this]
  clear this
  revert fc; apply byte_cases; decide +kernel

/-- a predictor of the shape "incomplete below `h + 1` bytes, else read the code at `h` and run `body`" -/
theorem guarded_ne_panic (adu : Bytes) (h : Nat) (body : UInt8 → Res (Option Nat))
    (hb : ∀ fc, body fc ≠ .panic) :
    (if adu.length < h + 1 then .ok none else (idx adu h).bind body) ≠ .panic :=
  ite_ne_panic (fun _ => ok_ne_panic _) (fun hl => idx_bind_ne_panic (by omega) hb)

theorem guarded_le (adu : Bytes) (h : Nat) (body : UInt8 → Res (Option Nat)) (m n : Nat)
    (hb : ∀ fc k, body fc = .ok (some k) → k ≤ m)
    (hn : (if adu.length < h + 1 then .ok none else (idx adu h).bind body) = .ok (some n)) : n ≤ m := by
  by_cases hl : adu.length < h + 1
  · rw [if_pos hl] at hn; simp at hn
  · rw [if_neg hl, idx_eq_ok (by omega)] at hn
    exact hb _ _ hn

theorem rspBody_ne_panic (adu : Bytes) (h : Nat) (fc : UInt8) : rspBody adu h fc ≠ .panic := by
  rw [rspBody_eq]; exact ruleRes_ne_panic _ _ _ _

theorem reqBody_ne_panic (adu : Bytes) (h o : Nat) (fc : UInt8) : reqBody adu h o fc ≠ .panic := by
  rw [reqBody_eq]; exact ruleRes_ne_panic _ _ _ _

theorem rspBody_le (adu : Bytes) (h : Nat) (fc : UInt8) (n : Nat)
    (hn : rspBody adu h fc = .ok (some n)) : n ≤ 65538 := by
  rw [rspBody_eq] at hn
  exact Nat.le_trans (ruleRes_le _ _ _ _ _ hn) (rspClass_max fc)

theorem reqBody_le (adu : Bytes) (h o : Nat) (fc : UInt8) (n : Nat)
    (hn : reqBody adu h o fc = .ok (some n)) : n ≤ 265 := by
  rw [reqBody_eq] at hn
  exact Nat.le_trans (ruleRes_le _ _ _ _ _ hn) (reqClass_max o fc)

theorem Rtu.requestPduLen_ne_panic (adu : Bytes) : Rtu.requestPduLen adu ≠ .panic := by
  rw [Rtu.requestPduLen_eq]; exact guarded_ne_panic adu 1 _ (reqBody_ne_panic adu 1 3)

theorem Rtu.responsePduLen_ne_panic (adu : Bytes) : Rtu.responsePduLen adu ≠ .panic := by
  rw [Rtu.responsePduLen_eq]; exact guarded_ne_panic adu 1 _ (rspBody_ne_panic adu 1)

theorem Tcp.requestPduLen_ne_panic (adu : Bytes) : Tcp.requestPduLen adu ≠ .panic := by
  rw [Tcp.requestPduLen_eq]; exact guarded_ne_panic adu 7 _ (reqBody_ne_panic adu 7 5)

theorem Tcp.responsePduLen_ne_panic (adu : Bytes) : Tcp.responsePduLen adu ≠ .panic := by
  rw [Tcp.responsePduLen_eq]; exact guarded_ne_panic adu 7 _ (rspBody_ne_panic adu 7)

/-- a predicted request PDU is at most 10 + 255 bytes -/
theorem Rtu.requestPduLen_le (adu : Bytes) (n : Nat) (h : Rtu.requestPduLen adu = .ok (some n)) :
    n ≤ 265 := by
  rw [Rtu.requestPduLen_eq] at h; exact guarded_le adu 1 _ 265 n (reqBody_le adu 1 3) h

theorem Tcp.requestPduLen_le (adu : Bytes) (n : Nat) (h : Tcp.requestPduLen adu = .ok (some n)) :
    n ≤ 265 := by
  rw [Tcp.requestPduLen_eq] at h; exact guarded_le adu 7 _ 265 n (reqBody_le adu 7 5) h

/-- a predicted response PDU is at most 3 + 65535 bytes (function 0x18, 16-bit count) -/
theorem Rtu.responsePduLen_le (adu : Bytes) (n : Nat) (h : Rtu.responsePduLen adu = .ok (some n)) :
    n ≤ 65538 := by
  rw [Rtu.responsePduLen_eq] at h; exact guarded_le adu 1 _ 65538 n (rspBody_le adu 1) h

theorem Tcp.responsePduLen_le (adu : Bytes) (n : Nat) (h : Tcp.responsePduLen adu = .ok (some n)) :
    n ≤ 65538 := by
  rw [Tcp.responsePduLen_eq] at h; exact guarded_le adu 7 _ 65538 n (rspBody_le adu 7) h

/-! ### frame extraction: panics exactly when the checked `usize` addition overflows -/

theorem Rtu.extractFrame_eq_panic_iff (buf : Bytes) (n : Nat) :
    Rtu.extractFrame buf n = .panic ↔ buf ≠ [] ∧ usizeLimit ≤ n + 3 := by
  unfold Rtu.extractFrame
  cases buf with
  | nil => simp
  | cons x xs =>
    simp only [List.isEmpty_cons, Bool.false_eq_true, if_false, ne_eq, reduceCtorEq,
      not_false_eq_true, true_and]
    by_cases ho : 1 + n + 2 ≥ usizeLimit
    · rw [if_pos ho]; simp only [true_iff]; omega
    · rw [if_neg ho]
      have : ¬ usizeLimit ≤ n + 3 := by omega
      simp only [this, iff_false]
      refine ite_ne_panic (fun hl => ?_) (fun _ => ok_ne_panic _)
      refine read16_bind_ne_panic (by simp only [List.length_drop]; omega) (fun e => ?_)
      refine ite_ne_panic (fun _ => err_ne_panic _) (fun _ => ?_)
      refine idx_bind_ne_panic (by simp only [List.length_take, List.length_cons]; omega) (fun s => ?_)
      exact ok_ne_panic _

theorem Rtu.extractFrame_ne_panic (buf : Bytes) (n : Nat) (h : n + 3 < usizeLimit) :
    Rtu.extractFrame buf n ≠ .panic := by
  rw [ne_eq, Rtu.extractFrame_eq_panic_iff]; omega

theorem Tcp.extractFrame_eq_panic_iff (buf : Bytes) (n : Nat) :
    Tcp.extractFrame buf n = .panic ↔ buf ≠ [] ∧ usizeLimit ≤ n + 7 := by
  cases buf with
  | nil => simp [Tcp.extractFrame]
  | cons x xs =>
    simp only [ne_eq, reduceCtorEq, not_false_eq_true, true_and]
    by_cases ho : 7 + n ≥ usizeLimit
    · unfold Tcp.extractFrame
      simp only [List.isEmpty_cons, Bool.false_eq_true, if_false]
      rw [if_pos ho]; simp only [true_iff]; omega
    · have : ¬ usizeLimit ≤ n + 7 := by omega
      simp only [this, iff_false]
      rw [Tcp.extractFrame_eq (by simp) (by omega)]
      refine Res.bind_ne_panic (Tcp.checkProtocolId_ne_panic _) (fun _ _ => ?_)
      refine Res.bind_ne_panic (Tcp.checkLengthField_ne_panic _ _) (fun _ _ => ?_)
      by_cases hl : (x :: xs).length ≥ 7 + n
      · rw [dif_pos hl]; exact ok_ne_panic _
      · rw [dif_neg hl]; exact ok_ne_panic _

theorem Tcp.extractFrame_ne_panic (buf : Bytes) (n : Nat) (h : n + 7 < usizeLimit) :
    Tcp.extractFrame buf n ≠ .panic := by
  rw [ne_eq, Tcp.extractFrame_eq_panic_iff]; omega

/-! ### the scan loop -/

/-- an attempt built from a predictor that never panics and an extractor that does not panic on
    the predictor's results never panics -/
theorem mkAttempt_ne_panic {F : Type} (predict : Bytes → Res (Option Nat))
    (extract : Bytes → Nat → Res (Option F)) (overhead : Nat) (raw : Bytes)
    (hp : predict raw ≠ .panic)
    (he : ∀ n, predict raw = .ok (some n) → extract raw n ≠ .panic) :
    mkAttempt predict extract overhead raw ≠ .panic := by
  unfold mkAttempt
  refine Res.bind_ne_panic hp (fun o ho => ?_)
  cases o with
  | none => exact ok_ne_panic _
  | some n => exact Res.map_ne_panic (he n ho)

/-- the loop panics only if an attempt does -/
theorem scanFrom_ne_panic {F : Type} (att : Attempt F) (buf : Bytes)
    (ha : ∀ raw, att raw ≠ .panic) : ∀ d, scanFrom att buf d ≠ .panic := by
  suffices h : ∀ k d, buf.length - d ≤ k → scanFrom att buf d ≠ .panic from
    fun d => h (buf.length - d) d (Nat.le_refl _)
  intro k
  induction k with
  | zero =>
    intro d hk
    rw [scanFrom, dif_pos (by omega)]; exact ok_ne_panic _
  | succ k ih =>
    intro d hk
    rw [scanFrom]
    by_cases hd : d + 1 ≥ buf.length
    · rw [dif_pos hd]; exact ok_ne_panic _
    · rw [dif_neg hd]
      have := ha (buf.drop d)
      cases hatt : att (buf.drop d) with
      | panic => exact absurd hatt this
      | ok o =>
        cases o with
        | none => exact ok_ne_panic _
        | some p => obtain ⟨f, sz⟩ := p; exact ok_ne_panic _
      | err e =>
        simp only
        exact ite_ne_panic (fun _ => err_ne_panic _) (fun _ => ih (d + 1) (by omega))

theorem scan_ne_panic {F : Type} (att : Attempt F) (buf : Bytes)
    (ha : ∀ raw, att raw ≠ .panic) : scan att buf ≠ .panic := by
  unfold scan
  exact ite_ne_panic (fun _ => err_ne_panic _) (fun _ => scanFrom_ne_panic att buf ha 0)

theorem usizeLimit_big : 70000 < usizeLimit := by decide

theorem Rtu.attemptReq_ne_panic (raw : Bytes) : Rtu.attemptReq raw ≠ .panic :=
  mkAttempt_ne_panic _ _ _ raw (Rtu.requestPduLen_ne_panic raw) (fun n hn =>
    Rtu.extractFrame_ne_panic raw n (by
      have := Rtu.requestPduLen_le raw n hn; have := usizeLimit_big; omega))

theorem Rtu.attemptRsp_ne_panic (raw : Bytes) : Rtu.attemptRsp raw ≠ .panic :=
  mkAttempt_ne_panic _ _ _ raw (Rtu.responsePduLen_ne_panic raw) (fun n hn =>
    Rtu.extractFrame_ne_panic raw n (by
      have := Rtu.responsePduLen_le raw n hn; have := usizeLimit_big; omega))

theorem Tcp.checked_ne_panic (pred : Bytes → Res (Option Nat)) (raw : Bytes) (h : pred raw ≠ .panic) :
    ((Tcp.checkProtocolId raw).bind fun _ => pred raw) ≠ .panic :=
  Res.bind_ne_panic (Tcp.checkProtocolId_ne_panic raw) (fun _ _ => h)

theorem Tcp.checked_some (pred : Bytes → Res (Option Nat)) (raw : Bytes) (n : Nat)
    (h : ((Tcp.checkProtocolId raw).bind fun _ => pred raw) = .ok (some n)) : pred raw = .ok (some n) := by
  rcases Tcp.checkProtocolId_cases raw with hp | ⟨_, _, hp⟩ <;> rw [hp] at h
  · exact h
  · cases h

theorem Tcp.attemptReq_ne_panic (raw : Bytes) : Tcp.attemptReq raw ≠ .panic :=
  mkAttempt_ne_panic _ _ _ raw (Tcp.checked_ne_panic _ raw (Tcp.requestPduLen_ne_panic raw)) (fun n hn =>
    Tcp.extractFrame_ne_panic raw n (by
      have := Tcp.requestPduLen_le raw n (Tcp.checked_some _ raw n hn); have := usizeLimit_big; omega))

theorem Tcp.attemptRsp_ne_panic (raw : Bytes) : Tcp.attemptRsp raw ≠ .panic :=
  mkAttempt_ne_panic _ _ _ raw (Tcp.checked_ne_panic _ raw (Tcp.responsePduLen_ne_panic raw)) (fun n hn =>
    Tcp.extractFrame_ne_panic raw n (by
      have := Tcp.responsePduLen_le raw n (Tcp.checked_some _ raw n hn); have := usizeLimit_big; omega))

/-! ### the "exception first, then normal response" step of the client-side ADU decoders -/

theorem excThenRsp_ne_panic {α} (pdu : Bytes) (f : ExceptionResponse → α) (g : Response → α) :
    (match ExceptionResponse.decode pdu with
     | .ok e => Res.ok (f e)
     | .panic => .panic
     | .err _ => (Response.decode pdu).map g) ≠ .panic := by
  have := ExceptionResponse.decode_ne_panic pdu
  cases h : ExceptionResponse.decode pdu with
  | ok e => exact ok_ne_panic _
  | panic => exact absurd h this
  | err e => exact Res.map_ne_panic (Response.decode_ne_panic pdu)

end Modbus.Total

import Modbus.Lemmas.Coherent
import Modbus.Lemmas.Coils
import Modbus.Lemmas.Words
import Modbus.Lemmas.ReqCodec
import Modbus.Lemmas.RspCodec
import Modbus.Props.C19X
/-
Well-formedness of ARBITRARY request / response values (C19Wf).

The crate's payload containers `Coils` / `Data` have crate-private fields; a user obtains one only from
`Coils::from_bools`, `Data::from_words`, `Request::try_from`, `Response::try_from`.  The containers are
`Copy` and the enum variants public, so a container obtained from any of these may then be placed in
ANY variant that takes one.  This file states the invariant that makes such a value safe
(`Coils.Backed`, `Data.Exact`, lifted to `Request.Wf` / `Response.Wf`) and derives, from the invariant
ALONE (no hypothesis on where the container came from):

* what the container holds (`Coils.bits`, `Data.words`) and that iteration yields exactly that;
* the meaning of the value (`Request.meaning`, `Response.meaning`, equal to `sem`);
* the encoder's complete outcome for every buffer (`Request.Wf.encode_eq`, `Response.Wf.encode_eq`);
* the count fields of the wire image match its payload (`Request.CountsMatch`, `Response.CountsMatch`);
* what the decoder returns on the wire image.
-/
namespace Modbus

/-! ### the invariants -/

/-- a register container holds exactly the bytes its quantity promises -/
def Data.Exact (d : Data) : Prop := d.data.length = d.quantity * 2

/- `Coils.Backed` ("the slice holds the ⌈quantity/8⌉ bytes its quantity promises"), `Coils.bits` and
   `Coils.CleanPad` ("the unused bits of the last used byte are zero in the RAW slice") are defined in
   Lemmas/Coils.lean, next to the wire form `Coils.wire` of a container. -/

instance (d : Data) : Decidable d.Exact := by unfold Data.Exact; infer_instance

theorem Coils.backed_iff_ok (c : Coils) : c.Backed ↔ c.Ok := Iff.rfl

theorem Data.Exact.ok {d : Data} (h : d.Exact) : d.Ok := by
  unfold Data.Exact at h; unfold Data.Ok; omega

/-- every container in the value satisfies its invariant -/
def Request.Wf : Request → Prop
  | .writeMultipleCoils _ c => c.Backed
  | .writeMultipleRegisters _ d | .readWriteMultipleRegisters _ _ _ d | .diagnostics _ d => d.Exact
  | _ => True

def Response.Wf : Response → Prop
  | .readCoils c | .readDiscreteInputs c => c.Backed
  | .readInputRegisters d | .readHoldingRegisters d | .readWriteMultipleRegisters d | .diagnostics d => d.Exact
  | _ => True

instance (r : Request) : Decidable r.Wf := by cases r <;> unfold Request.Wf <;> infer_instance
instance (r : Response) : Decidable r.Wf := by cases r <;> unfold Response.Wf <;> infer_instance

/-- the coil padding (if the value has a coil container) is clean -/
def Request.CleanPad : Request → Prop
  | .writeMultipleCoils _ c => c.CleanPad
  | _ => True

def Response.CleanPad : Response → Prop
  | .readCoils c | .readDiscreteInputs c => c.CleanPad
  | _ => True

instance (r : Request) : Decidable r.CleanPad := by cases r <;> unfold Request.CleanPad <;> infer_instance
instance (r : Response) : Decidable r.CleanPad := by cases r <;> unfold Response.CleanPad <;> infer_instance

/-- the kinds `Request::pdu_len` / `encode` implement; the five RTU-only kinds are `todo!()` / `panic!()`
    in the crate (Model/Frame.lean `Request.pduLen`, Model/Codec.lean `Request.encode`: `.panic`) -/
def Request.Implemented : Request → Prop
  | .readExceptionStatus | .diagnostics _ _ | .getCommEventCounter | .getCommEventLog | .reportServerId => False
  | _ => True

/-- the kinds `Response::pdu_len` / `encode` implement; four RTU-only kinds are `unimplemented!()`
    (`ReadExceptionStatus` IS implemented) -/
def Response.Implemented : Response → Prop
  | .diagnostics _ | .getCommEventCounter _ _ | .getCommEventLog _ _ _ _ | .reportServerId _ _ => False
  | _ => True

instance (r : Request) : Decidable r.Implemented := by cases r <;> unfold Request.Implemented <;> infer_instance
instance (r : Response) : Decidable r.Implemented := by cases r <;> unfold Response.Implemented <;> infer_instance

theorem Request.implemented_iff (r : Request) : r.Implemented ↔ r.pduLen ≠ .panic := by
  cases r <;> simp [Request.Implemented, Request.pduLen]

theorem Response.implemented_iff (r : Response) : r.Implemented ↔ r.pduLen ≠ .panic := by
  cases r <;> simp [Response.Implemented, Response.pduLen]

/-- the excluded kinds are exactly those on which the crate panics, whatever the buffer -/
theorem Request.encode_panic_of_not_implemented (r : Request) (h : ¬ r.Implemented) (buf : Bytes) :
    r.encode buf = .panic := by
  cases r <;> simp [Request.Implemented] at h <;> simp [Request.encode, Request.pduLen]

theorem Response.encode_panic_of_not_implemented (r : Response) (h : ¬ r.Implemented) (buf : Bytes) :
    r.encode buf = .panic := by
  cases r <;> simp [Response.Implemented] at h <;> simp [Response.encode, Response.pduLen]

/-! ### what a well-formed container holds -/

/-- the words of a container, read straight off its slice, big-endian -/
def Data.words (d : Data) : List UInt16 := C19X.wordsOf d.data

theorem Coils.Backed.get_eq {c : Coils} (h : c.Backed) (tail : Bytes) (i : Nat) :
    c.get i = (Coils.mk (Spec.packBits c.bits ++ tail) c.bits.length).get i := by
  rw [Coils.get_packBits]
  by_cases hi : i < c.quantity
  · have hd : i / 8 < c.data.length := Coils.Ok.index h hi
    rw [c.get_of_lt hi hd, dif_pos (by simpa using hi), Coils.bits_getElem]
    simp only [bitAt, getD_of_lt _ hd]
  · rw [c.get_of_ge (by omega), dif_neg (by simpa using hi)]

/-- iteration over a backed container yields exactly the coils its slice spells -/
theorem Coils.Backed.iter_eq {c : Coils} (h : c.Backed) : c.iter = .ok c.bits := by
  have := Coils.iter_packBits c.bits []
  unfold Coils.iter at this ⊢
  rw [Coils.iterFrom_congr c _ (h.get_eq [])]
  rw [Coils.bits_length] at this
  simpa using this

theorem Coils.Backed.items_eq {c : Coils} (h : c.Backed) : c.items = some c.bits := by
  simp [Coils.items, h.iter_eq]

/-- an exact register container is precisely the `from_words`-shaped value of its words -/
theorem Data.Exact.shape {d : Data} (h : d.Exact) :
    d = ⟨Spec.wordsBE d.words, d.words.length⟩ ∧ d.words.length = d.quantity ∧ Spec.wordsBE d.words = d.data := by
  obtain ⟨h1, h2⟩ := C19X.wordsOf_spec d.quantity d.data h
  refine ⟨?_, h2, h1⟩
  show d = ⟨Spec.wordsBE (C19X.wordsOf d.data), (C19X.wordsOf d.data).length⟩
  rw [h1, h2]

theorem Data.Exact.iter_eq {d : Data} (h : d.Exact) : d.iter = .ok d.words := by
  obtain ⟨hs, _, _⟩ := h.shape
  have := C17.iter_from_words d.words
  rw [← hs] at this
  exact this

theorem Data.Exact.items_eq {d : Data} (h : d.Exact) : d.items = some d.words := by
  simp [Data.items, h.iter_eq]

/-- with clean padding the used bytes of the slice are the specification's packed field of the coils -/
theorem Coils.Backed.take_eq_packBits {c : Coils} (h : c.Backed) (hc : c.CleanPad) :
    c.data.take (packedCoilsLen c.quantity) = Spec.packBits c.bits := by
  have hb := packedCoilsLen_bound c.quantity
  have hl : (c.data.take (packedCoilsLen c.quantity)).length = packedCoilsLen c.quantity := by
    rw [List.length_take]; unfold Coils.Backed at h; omega
  apply Bytes.ext_bitAt
  · rw [hl, packBits_length, Coils.bits_length]
  · intro p hp
    rw [hl] at hp
    have ht : bitAt (c.data.take (packedCoilsLen c.quantity)) p = bitAt c.data p := by
      unfold bitAt
      have : p / 8 < packedCoilsLen c.quantity := by omega
      simp only [List.getD_eq_getElem?_getD, List.getElem?_take, this, if_true]
    rw [ht, bitAt_packBits]
    by_cases hq : p < c.quantity
    · rw [getD_eq_getElem _ _ (by simpa using hq), Coils.bits_getElem]
    · rw [hc p hp (by omega)]
      simp [List.getD_eq_getElem?_getD, List.getElem?_eq_none (show c.bits.length ≤ p by simp; omega)]

/-- conversely the specification's packed field has clean padding -/
theorem Coils.cleanPad_packBits (bs : List Bool) (tail : Bytes) :
    (Coils.mk (Spec.packBits bs ++ tail) bs.length).CleanPad := by
  intro p hp hq
  show bitAt (Spec.packBits bs ++ tail) p = false
  rw [bitAt_append, if_pos (by rw [packBits_length]; exact hp), bitAt_packBits]
  simp [List.getD_eq_getElem?_getD, List.getElem?_eq_none (show bs.length ≤ p from hq)]

theorem Coils.bits_packBits (bs : List Bool) (tail : Bytes) :
    (Coils.mk (Spec.packBits bs ++ tail) bs.length).bits = bs :=
  map_bitAt_packBits bs tail

/-- a whole number of bytes has no padding bits at all -/
theorem Coils.cleanPad_of_multiple (c : Coils) (h : c.quantity % 8 = 0) : c.CleanPad := by
  intro p hp hq
  unfold packedCoilsLen at hp
  omega

/-! ### closure: what the public constructors give -/

theorem Data.fromWords_exact' {ws : List UInt16} {t : Bytes} {d : Data} (h : Data.fromWords ws t = .ok d) :
    d.Exact ∧ d.words = ws := by
  obtain ⟨_, rfl⟩ := Data.fromWords_ok h
  have hx : (Data.mk (Spec.wordsBE ws) ws.length).Exact := by
    show (Spec.wordsBE ws).length = ws.length * 2
    rw [wordsBE_length]
  refine ⟨hx, ?_⟩
  have h1 := hx.iter_eq
  rw [C17.iter_from_words] at h1
  exact (Res.ok.inj h1).symm

theorem Coils.fromBools_backed' {bs : List Bool} {t : Bytes} {c : Coils} (h : Coils.fromBools bs t = .ok c) :
    c.Backed ∧ c.CleanPad ∧ c.bits = bs := by
  obtain ⟨_, hl, rfl⟩ := Coils.fromBools_ok h
  refine ⟨?_, by simpa using Coils.cleanPad_packBits bs [], by simpa using Coils.bits_packBits bs []⟩
  show packedCoilsLen bs.length ≤ (Spec.packBits bs).length
  rw [packBits_length]; omega

/-- every value the response decoder returns is well-formed, with clean (in fact no) coil padding -/
theorem Response.Decoded.wf {v : Response} (hd : Response.Decoded v) : v.Wf ∧ v.CleanPad := by
  cases hd with
  | readCoils bc data h | readDiscreteInputs bc data h =>
    refine ⟨?_, Coils.cleanPad_of_multiple _ (by show bc.toNat * 8 % 8 = 0; omega)⟩
    show packedCoilsLen (bc.toNat * 8) ≤ data.length
    unfold packedCoilsLen; omega
  | readInputRegisters bc data h | readHoldingRegisters bc data h | readWriteMultipleRegisters bc data h =>
    exact ⟨h, trivial⟩
  | _ => exact ⟨trivial, trivial⟩

/-- a value the request decoder returns is well-formed exactly outside the truncated write-multiple-coils
    region (open finding D5b); its register containers are always exact -/
theorem Request.Decoded.wf_iff {b : Bytes} {v : Request} (hd : Request.Decoded b v)
    (hh : b[0]? = some v.fc.value) : v.Wf ↔ ¬ WmcTruncated b := by
  constructor
  · intro hw
    apply hd.not_truncated hh
    cases hd with
    | writeMultipleCoils a q h0 hq hl => exact hw
    | writeMultipleRegisters a q data h1 h2 => exact Data.Exact.ok (d := ⟨data, q.toNat⟩) h1
    | readWriteMultipleRegisters ra rq wa q data h1 h2 => exact Data.Exact.ok (d := ⟨data, q.toNat⟩) h1
    | _ => trivial
  · intro ht
    have hp := hd.payloadOk ht
    cases hd with
    | writeMultipleCoils a q h0 hq hl => exact hp
    | writeMultipleRegisters a q data h1 h2 => exact h1
    | readWriteMultipleRegisters ra rq wa q data h1 h2 => exact h1
    | _ => trivial

theorem Request.Decoded.dataExact {b : Bytes} {v : Request} (hd : Request.Decoded b v) :
    match v with
    | .writeMultipleRegisters _ d | .readWriteMultipleRegisters _ _ _ d => d.Exact ∧ d.quantity * 2 ≤ 255
    | _ => True := by
  cases hd with
  | writeMultipleRegisters a q data h1 h2 => exact ⟨h1, h2⟩
  | readWriteMultipleRegisters ra rq wa q data h1 h2 => exact ⟨h1, h2⟩
  | _ => trivial

/-! ### requests: meaning -/

/-- the meaning of a request, given explicitly from the raw slices (no iteration) -/
def Request.meaning : Request → Option Spec.ReqMeaning
  | .readCoils a q => some (.readCoils a q)
  | .readDiscreteInputs a q => some (.readDiscreteInputs a q)
  | .readHoldingRegisters a q => some (.readHoldingRegisters a q)
  | .readInputRegisters a q => some (.readInputRegisters a q)
  | .writeSingleCoil a c => some (.writeSingleCoil a c)
  | .writeSingleRegister a w => some (.writeSingleRegister a w)
  | .writeMultipleCoils a c => some (.writeMultipleCoils a c.bits)
  | .writeMultipleRegisters a d => some (.writeMultipleRegisters a d.words)
  | .readWriteMultipleRegisters ra rq wa d => some (.readWriteMultipleRegisters ra rq wa d.words)
  | .custom fc d => some (.custom fc.value d)
  | _ => none

/-- a well-formed request means what its slices spell (the RTU-only kinds have no meaning on either side) -/
theorem Request.Wf.sem_eq {r : Request} (h : r.Wf) : r.sem = r.meaning := by
  cases r with
  | writeMultipleCoils a c =>
    have h : c.Backed := h
    simp [Request.sem, Request.meaning, h.items_eq]
  | writeMultipleRegisters a d =>
    have h : d.Exact := h
    simp [Request.sem, Request.meaning, h.items_eq]
  | readWriteMultipleRegisters ra rq wa d =>
    have h : d.Exact := h
    simp [Request.sem, Request.meaning, h.items_eq]
  | _ => rfl

theorem Request.meaning_of_implemented {r : Request} (h : r.Implemented) : ∃ m, r.meaning = some m := by
  cases r <;> first | exact ⟨_, rfl⟩ | exact absurd h (by simp [Request.Implemented])

/-- the byte count of the payload fits the one-byte count field -/
def Request.CountFits : Request → Prop
  | .writeMultipleCoils _ c => packedCoilsLen c.quantity ≤ 255
  | .writeMultipleRegisters _ d | .readWriteMultipleRegisters _ _ _ d => d.quantity * 2 ≤ 255
  | _ => True

instance (r : Request) : Decidable r.CountFits := by cases r <;> unfold Request.CountFits <;> infer_instance

/-! ### requests: the encoder -/

theorem Request.Wf.encodable_iff {r : Request} (hw : r.Wf) (hi : r.Implemented) : r.Encodable ↔ r.CountFits := by
  cases r with
  | writeMultipleCoils a c =>
    have hw : packedCoilsLen c.quantity ≤ c.data.length := hw
    show (packedCoilsLen c.quantity ≤ 255 ∧ packedCoilsLen c.quantity ≤ c.data.length) ↔ packedCoilsLen c.quantity ≤ 255
    exact ⟨fun h => h.1, fun h => ⟨h, hw⟩⟩
  | writeMultipleRegisters a d => exact Iff.rfl
  | readWriteMultipleRegisters ra rq wa d => exact Iff.rfl
  | readExceptionStatus => exact absurd hi (by simp [Request.Implemented])
  | diagnostics s d => exact absurd hi (by simp [Request.Implemented])
  | getCommEventCounter => exact absurd hi (by simp [Request.Implemented])
  | getCommEventLog => exact absurd hi (by simp [Request.Implemented])
  | reportServerId => exact absurd hi (by simp [Request.Implemented])
  | _ => exact ⟨fun _ => trivial, fun _ => trivial⟩

/-- `pdu_len` of a well-formed request is the length of its wire image — also when the count does not fit -/
theorem Request.Wf.pduLen_eq {r : Request} (hw : r.Wf) (hi : r.Implemented) : r.pduLen = .ok r.image.length := by
  cases r with
  | writeMultipleCoils a c =>
    have hw : packedCoilsLen c.quantity ≤ c.data.length := hw
    simp only [Request.pduLen, Request.image, Coils.wire_length, Coils.packedLen, List.length_append,
      List.length_cons, List.length_nil, be16_length]
    congr 1; omega
  | readExceptionStatus => exact absurd hi (by simp [Request.Implemented])
  | diagnostics s d => exact absurd hi (by simp [Request.Implemented])
  | getCommEventCounter => exact absurd hi (by simp [Request.Implemented])
  | getCommEventLog => exact absurd hi (by simp [Request.Implemented])
  | reportServerId => exact absurd hi (by simp [Request.Implemented])
  | _ => simp [Request.pduLen, Request.image] <;> omega

/-- **the encoder's complete outcome on a well-formed request**, for every buffer: `Err(BufferSize)`
    whatever the buffer when the byte count does not fit its field; otherwise `Err(BufferSize)` exactly
    when the buffer is shorter than the PDU, else the image followed by the untouched rest -/
theorem Request.Wf.encode_eq {r : Request} (hw : r.Wf) (hi : r.Implemented) (buf : Bytes) :
    r.encode buf =
      if r.CountFits then
        if buf.length < r.image.length then .err .bufferSize
        else .ok (r.image.length, r.image ++ buf.drop r.image.length)
      else .err .bufferSize := by
  by_cases hf : r.CountFits
  · rw [if_pos hf]; exact Request.encode_eq r buf ((hw.encodable_iff hi).mpr hf)
  · rw [if_neg hf]
    cases r with
    | writeMultipleCoils a c =>
      exact Request.encode_writeMultipleCoils_big a c buf (by
        have : ¬ packedCoilsLen c.quantity ≤ 255 := hf
        show 255 < packedCoilsLen c.quantity; omega)
    | writeMultipleRegisters a d =>
      exact Request.encode_writeMultipleRegisters_big a d buf (by
        have : ¬ d.quantity * 2 ≤ 255 := hf
        show 255 < d.quantity * 2; omega)
    | readWriteMultipleRegisters ra rq wa d =>
      exact Request.encode_readWriteMultipleRegisters_big ra rq wa d buf (by
        have : ¬ d.quantity * 2 ≤ 255 := hf
        show 255 < d.quantity * 2; omega)
    | _ => exact absurd trivial hf

/-! ### requests: the count fields of the image -/

/-- in `img`: the byte at `off` (the byte count) has the value `need`, exactly `need` bytes follow it, and
    the 16-bit big-endian field just before it has the value `qty` -/
def CountFieldsOk (img : Bytes) (off qty need : Nat) : Prop :=
  ∃ qh ql bc, img[off - 2]? = some qh ∧ img[off - 1]? = some ql ∧ img[off]? = some bc ∧
    (rd16 qh ql).toNat = qty ∧ bc.toNat = need ∧ img.length = off + 1 + need

/-- the count fields of a request PDU agree with the container: quantity field = container length, byte
    count = ⌈n/8⌉ resp. 2n = number of payload bytes that follow -/
def Request.CountsMatch (r : Request) (img : Bytes) : Prop :=
  match r with
  | .writeMultipleCoils _ c => CountFieldsOk img 5 c.quantity (packedCoilsLen c.quantity)
  | .writeMultipleRegisters _ d => CountFieldsOk img 5 d.quantity (d.quantity * 2)
  | .readWriteMultipleRegisters _ _ _ d => CountFieldsOk img 9 d.quantity (d.quantity * 2)
  | _ => True

theorem Request.Wf.image_counts {r : Request} (hw : r.Wf) (hf : r.CountFits) : r.CountsMatch r.image := by
  cases r with
  | writeMultipleCoils a c =>
    have hw : packedCoilsLen c.quantity ≤ c.data.length := hw
    have hf : packedCoilsLen c.quantity ≤ 255 := hf
    have hq : c.quantity < 65536 := by unfold packedCoilsLen at hf; omega
    have himg : (Request.writeMultipleCoils a c).image =
      0x0F :: UInt8.ofNat (a.toNat / 256) :: UInt8.ofNat (a.toNat % 256) ::
        UInt8.ofNat ((UInt16.ofNat c.quantity).toNat / 256) :: UInt8.ofNat ((UInt16.ofNat c.quantity).toNat % 256) ::
        UInt8.ofNat (packedCoilsLen c.quantity) :: c.wire := rfl
    show CountFieldsOk _ 5 _ _
    rw [himg]
    refine ⟨_, _, _, rfl, rfl, rfl, rd16_ofNat_split hq, UInt8.toNat_ofNat_of_le hf, ?_⟩
    simp only [List.length_cons, Coils.wire_length, Coils.packedLen]; omega
  | writeMultipleRegisters a d =>
    have hw : d.data.length = d.quantity * 2 := hw
    have hf : d.quantity * 2 ≤ 255 := hf
    have himg : (Request.writeMultipleRegisters a d).image =
      0x10 :: UInt8.ofNat (a.toNat / 256) :: UInt8.ofNat (a.toNat % 256) ::
        UInt8.ofNat ((UInt16.ofNat d.quantity).toNat / 256) :: UInt8.ofNat ((UInt16.ofNat d.quantity).toNat % 256) ::
        UInt8.ofNat (d.quantity * 2) :: d.data := rfl
    show CountFieldsOk _ 5 _ _
    rw [himg]
    refine ⟨_, _, _, rfl, rfl, rfl, rd16_ofNat_split (by omega), UInt8.toNat_ofNat_of_le hf, ?_⟩
    simp only [List.length_cons]; omega
  | readWriteMultipleRegisters ra rq wa d =>
    have hw : d.data.length = d.quantity * 2 := hw
    have hf : d.quantity * 2 ≤ 255 := hf
    have himg : (Request.readWriteMultipleRegisters ra rq wa d).image =
      0x17 :: UInt8.ofNat (ra.toNat / 256) :: UInt8.ofNat (ra.toNat % 256) ::
        UInt8.ofNat (rq.toNat / 256) :: UInt8.ofNat (rq.toNat % 256) ::
        UInt8.ofNat (wa.toNat / 256) :: UInt8.ofNat (wa.toNat % 256) ::
        UInt8.ofNat ((UInt16.ofNat d.quantity).toNat / 256) :: UInt8.ofNat ((UInt16.ofNat d.quantity).toNat % 256) ::
        UInt8.ofNat (d.quantity * 2) :: d.data := rfl
    show CountFieldsOk _ 9 _ _
    rw [himg]
    refine ⟨_, _, _, rfl, rfl, rfl, rd16_ofNat_split (by omega), UInt8.toNat_ofNat_of_le hf, ?_⟩
    simp only [List.length_cons]; omega
  | _ => trivial

/-! ### requests: decoding the image -/

/-- decoding the wire image of a well-formed request whose count fits — ANY quantity, zero included — in
    the round-trip scope gives a request with the same meaning -/
theorem Request.Wf.redecode {r : Request} (hw : r.Wf) (hf : r.CountFits) {m : Spec.ReqMeaning}
    (hm : r.meaning = some m) (hs : m.InScope) :
    ∃ r', Request.decode r.image = .ok r' ∧ r'.sem = r.sem := by
  cases r with
  | readCoils a q => exact ⟨_, Request.decode_fixed_image.1 a q, rfl⟩
  | readDiscreteInputs a q => exact ⟨_, Request.decode_fixed_image.2.1 a q, rfl⟩
  | readInputRegisters a q => exact ⟨_, Request.decode_fixed_image.2.2.1 a q, rfl⟩
  | readHoldingRegisters a q => exact ⟨_, Request.decode_fixed_image.2.2.2.1 a q, rfl⟩
  | writeSingleRegister a q => exact ⟨_, Request.decode_fixed_image.2.2.2.2 a q, rfl⟩
  | writeSingleCoil a c => exact ⟨_, Request.decode_writeSingleCoil_image a c, rfl⟩
  | writeMultipleCoils a c =>
    have hw : packedCoilsLen c.quantity ≤ c.data.length := hw
    have hf : packedCoilsLen c.quantity ≤ 255 := hf
    have hq : c.quantity < 65536 := by unfold packedCoilsLen at hf; omega
    refine ⟨_, Request.redecode_wmc a c hq hf hw, ?_⟩
    show (Coils.items _).map _ = (Coils.items _).map _
    rw [Coils.items_wire c hw]
  | writeMultipleRegisters a d =>
    have hw : d.data.length = d.quantity * 2 := hw
    have hf : d.quantity * 2 ≤ 255 := hf
    exact ⟨_, Request.redecode_wmr a d (by omega) hf hw, rfl⟩
  | readWriteMultipleRegisters ra rq wa d =>
    have hw : d.data.length = d.quantity * 2 := hw
    have hf : d.quantity * 2 ≤ 255 := hf
    exact ⟨_, Request.redecode_rwmr ra rq wa d (by omega) hf hw, rfl⟩
  | custom fc d =>
    have : m = .custom fc.value d := by
      simp only [Request.meaning, Option.some.injEq] at hm; exact hm.symm
    subst this
    obtain ⟨hlt, hc⟩ := hs
    refine ⟨.custom (.custom fc.value) d, ?_, rfl⟩
    show Request.decode (fc.value :: d) = _
    rw [Request.decode_other _ d hc, if_pos hlt]
  | readExceptionStatus => cases hm
  | diagnostics s d => cases hm
  | getCommEventCounter => cases hm
  | getCommEventLog => cases hm
  | reportServerId => cases hm

/-- "may refuse, never a different request": for a custom code the library does not model (any value,
    also ≥ 0x80, which the decoder refuses), whatever the decoder returns on the image has the same meaning -/
theorem Request.Wf.redecode_sem {r : Request} (hw : r.Wf) (hf : r.CountFits) {m : Spec.ReqMeaning}
    (hm : r.meaning = some m) (hu : m.Unmodelled) (r' : Request) (h : Request.decode r.image = .ok r') :
    r'.sem = r.sem := by
  by_cases hs : m.InScope
  · obtain ⟨r'', h1, h2⟩ := hw.redecode hf hm hs
    rw [h1] at h; cases h; exact h2
  · cases r with
    | custom fc d =>
      have : m = .custom fc.value d := by
        simp only [Request.meaning, Option.some.injEq] at hm; exact hm.symm
      subst this
      have hc : fc.value ∉ modelledReqCodes := hu
      have h80 : ¬ fc.value < 0x80 := fun hlt => hs ⟨hlt, hc⟩
      have : Request.decode (fc.value :: d) = .ok r' := h
      rw [Request.decode_other _ d hc, if_neg h80] at this
      cases this
    | readExceptionStatus => cases hm
    | diagnostics s d => cases hm
    | getCommEventCounter => cases hm
    | getCommEventLog => cases hm
    | reportServerId => cases hm
    | _ =>
      simp only [Request.meaning, Option.some.injEq] at hm
      subst hm
      exact absurd trivial hs

/-! ### requests: conformance of the image -/

/-- the wire image of a well-formed request is the specification's PDU of its meaning — whatever the raw
    padding bits of its coil container hold (`copy_to` clears them) and for every quantity (the one-byte
    count wraps identically on both sides when it does not fit; the encoder then refuses,
    `Request.Wf.encode_eq`).  (Before the crate cleared the padding this needed `r.CleanPad`.) -/
theorem Request.Wf.image_eq_spec {r : Request} (hw : r.Wf) {m : Spec.ReqMeaning}
    (hm : r.meaning = some m) : r.image = Spec.reqBytes m := by
  cases r with
  | writeMultipleCoils a c =>
    have hw : c.Backed := hw
    simp only [Request.meaning, Option.some.injEq] at hm
    subst hm
    have h3 := hw.wire_eq_packBits
    simp only [Request.image, Coils.len, Coils.packedLen, Spec.reqBytes, Spec.word, Spec.hi, Spec.lo, be16, h3,
      Coils.bits_length]
    simp [packedCoilsLen]
  | writeMultipleRegisters a d =>
    simp only [Request.meaning, Option.some.injEq] at hm
    subst hm
    obtain ⟨hs, _, _⟩ := Data.Exact.shape (d := d) hw
    have := C17.req_write_multiple_registers_image a d.words
    rw [← hs] at this
    exact this
  | readWriteMultipleRegisters ra rq wa d =>
    simp only [Request.meaning, Option.some.injEq] at hm
    subst hm
    obtain ⟨hs, _, _⟩ := Data.Exact.shape (d := d) hw
    have := C17.req_read_write_multiple_registers_image ra rq wa d.words
    rw [← hs] at this
    exact this
  | writeSingleCoil a s =>
    simp only [Request.meaning, Option.some.injEq] at hm
    subst hm
    cases s <;> rfl
  | readExceptionStatus => cases hm
  | diagnostics s d => cases hm
  | getCommEventCounter => cases hm
  | getCommEventLog => cases hm
  | reportServerId => cases hm
  | _ =>
    simp only [Request.meaning, Option.some.injEq] at hm
    subst hm
    rfl

/-! ### responses: meaning -/

/-- the meaning of a response, given explicitly from the raw slices -/
def Response.meaning : Response → Option Spec.RspMeaning
  | .readCoils c => some (.readCoils c.bits)
  | .readDiscreteInputs c => some (.readDiscreteInputs c.bits)
  | .readHoldingRegisters d => some (.readHoldingRegisters d.words)
  | .readInputRegisters d => some (.readInputRegisters d.words)
  | .readWriteMultipleRegisters d => some (.readWriteMultipleRegisters d.words)
  | .writeSingleCoil a => some (.writeSingleCoil a)
  | .writeSingleRegister a w => some (.writeSingleRegister a w)
  | .writeMultipleCoils a q => some (.writeMultipleCoils a q)
  | .writeMultipleRegisters a q => some (.writeMultipleRegisters a q)
  | .custom fc d => some (.custom fc.value d)
  | .readExceptionStatus s => some (.readExceptionStatus s)
  | _ => none

theorem Response.Wf.sem_eq {r : Response} (h : r.Wf) : r.sem = r.meaning := by
  cases r with
  | readCoils c =>
    have h : c.Backed := h
    simp [Response.sem, Response.meaning, h.items_eq]
  | readDiscreteInputs c =>
    have h : c.Backed := h
    simp [Response.sem, Response.meaning, h.items_eq]
  | readHoldingRegisters d =>
    have h : d.Exact := h
    simp [Response.sem, Response.meaning, h.items_eq]
  | readInputRegisters d =>
    have h : d.Exact := h
    simp [Response.sem, Response.meaning, h.items_eq]
  | readWriteMultipleRegisters d =>
    have h : d.Exact := h
    simp [Response.sem, Response.meaning, h.items_eq]
  | _ => rfl

theorem Response.meaning_of_implemented {r : Response} (h : r.Implemented) : ∃ m, r.meaning = some m := by
  cases r <;> first | exact ⟨_, rfl⟩ | exact absurd h (by simp [Response.Implemented])

def Response.CountFits : Response → Prop
  | .readCoils c | .readDiscreteInputs c => packedCoilsLen c.quantity ≤ 255
  | .readInputRegisters d | .readHoldingRegisters d | .readWriteMultipleRegisters d => d.quantity * 2 ≤ 255
  | _ => True

instance (r : Response) : Decidable r.CountFits := by cases r <;> unfold Response.CountFits <;> infer_instance

/-! ### responses: the encoder -/

theorem Response.Wf.encodable_iff {r : Response} (hw : r.Wf) (hi : r.Implemented) : r.Encodable ↔ r.CountFits := by
  have coils : ∀ c : Coils, c.Backed →
      ((c.packedLen ≤ 255 ∧ c.packedLen ≤ c.data.length) ↔ packedCoilsLen c.quantity ≤ 255) :=
    fun c hb => ⟨fun h => h.1, fun h => ⟨h, hb⟩⟩
  have regs : ∀ d : Data, d.Exact →
      ((d.len * 2 ≤ 255 ∧ d.len * 2 ≤ d.data.length) ↔ d.quantity * 2 ≤ 255) := by
    intro d hx
    have hx : d.data.length = d.quantity * 2 := hx
    simp only [Data.len]
    constructor
    · intro h; exact h.1
    · intro h; exact ⟨h, by omega⟩
  cases r with
  | readCoils c => exact coils c hw
  | readDiscreteInputs c => exact coils c hw
  | readInputRegisters d => exact regs d hw
  | readHoldingRegisters d => exact regs d hw
  | readWriteMultipleRegisters d => exact regs d hw
  | diagnostics d => exact absurd hi (by simp [Response.Implemented])
  | getCommEventCounter a b => exact absurd hi (by simp [Response.Implemented])
  | getCommEventLog a b c d => exact absurd hi (by simp [Response.Implemented])
  | reportServerId a b => exact absurd hi (by simp [Response.Implemented])
  | _ => exact ⟨fun _ => trivial, fun _ => trivial⟩

theorem Response.Wf.pduLen_eq {r : Response} (hw : r.Wf) (hi : r.Implemented) : r.pduLen = .ok r.image.length := by
  have coils : ∀ c : Coils, c.Backed → 2 + c.packedLen = 1 + 1 + c.wire.length := by
    intro c hb
    have hb : packedCoilsLen c.quantity ≤ c.data.length := hb
    simp only [Coils.wire_length, Coils.packedLen]; omega
  have regs : ∀ d : Data, d.Exact → 2 + d.len * 2 = 1 + 1 + (d.data.take (d.len * 2)).length := by
    intro d hx
    have hx : d.data.length = d.quantity * 2 := hx
    simp only [Data.len, List.length_take]; omega
  cases r with
  | readCoils c =>
    simp only [Response.pduLen, Response.image, List.length_append, List.length_cons, List.length_nil]
    rw [coils c hw]
  | readDiscreteInputs c =>
    simp only [Response.pduLen, Response.image, List.length_append, List.length_cons, List.length_nil]
    rw [coils c hw]
  | readInputRegisters d =>
    simp only [Response.pduLen, Response.image, List.length_append, List.length_cons, List.length_nil]
    rw [regs d hw]
  | readHoldingRegisters d =>
    simp only [Response.pduLen, Response.image, List.length_append, List.length_cons, List.length_nil]
    rw [regs d hw]
  | readWriteMultipleRegisters d =>
    simp only [Response.pduLen, Response.image, List.length_append, List.length_cons, List.length_nil]
    rw [regs d hw]
  | diagnostics d => exact absurd hi (by simp [Response.Implemented])
  | getCommEventCounter a b => exact absurd hi (by simp [Response.Implemented])
  | getCommEventLog a b c d => exact absurd hi (by simp [Response.Implemented])
  | reportServerId a b => exact absurd hi (by simp [Response.Implemented])
  | _ => simp [Response.pduLen, Response.image] <;> omega

/-- **the encoder's complete outcome on a well-formed response**, for every buffer -/
theorem Response.Wf.encode_eq {r : Response} (hw : r.Wf) (hi : r.Implemented) (buf : Bytes) :
    r.encode buf =
      if r.CountFits then
        if buf.length < r.image.length then .err .bufferSize
        else .ok (r.image.length, r.image ++ buf.drop r.image.length)
      else .err .bufferSize := by
  by_cases hf : r.CountFits
  · rw [if_pos hf]; exact Response.encode_eq r buf ((hw.encodable_iff hi).mpr hf)
  · rw [if_neg hf]
    cases r with
    | readCoils c =>
      exact Response.encode_readCoils_big c buf (by
        have : ¬ packedCoilsLen c.quantity ≤ 255 := hf
        show 255 < packedCoilsLen c.quantity; omega)
    | readDiscreteInputs c =>
      exact Response.encode_readDiscreteInputs_big c buf (by
        have : ¬ packedCoilsLen c.quantity ≤ 255 := hf
        show 255 < packedCoilsLen c.quantity; omega)
    | readInputRegisters d =>
      exact Response.encode_readInputRegisters_big d buf (by
        have : ¬ d.quantity * 2 ≤ 255 := hf
        show 255 < d.quantity * 2; omega)
    | readHoldingRegisters d =>
      exact Response.encode_readHoldingRegisters_big d buf (by
        have : ¬ d.quantity * 2 ≤ 255 := hf
        show 255 < d.quantity * 2; omega)
    | readWriteMultipleRegisters d =>
      exact Response.encode_readWriteMultipleRegisters_big d buf (by
        have : ¬ d.quantity * 2 ≤ 255 := hf
        show 255 < d.quantity * 2; omega)
    | _ => exact absurd trivial hf

/-! ### responses: the count byte of the image -/

/-- in `img`: byte 1 (the byte count) has the value `need` and exactly `need` bytes follow it -/
def CountByteOk (img : Bytes) (need : Nat) : Prop :=
  ∃ bc, img[1]? = some bc ∧ bc.toNat = need ∧ img.length = 2 + need

def Response.CountsMatch (r : Response) (img : Bytes) : Prop :=
  match r with
  | .readCoils c | .readDiscreteInputs c => CountByteOk img (packedCoilsLen c.quantity)
  | .readInputRegisters d | .readHoldingRegisters d | .readWriteMultipleRegisters d =>
      CountByteOk img (d.quantity * 2)
  | _ => True

theorem Response.Wf.image_counts {r : Response} (hw : r.Wf) (hf : r.CountFits) : r.CountsMatch r.image := by
  have coils : ∀ (c : Coils) (fc : UInt8), c.Backed → packedCoilsLen c.quantity ≤ 255 →
      CountByteOk ([fc] ++ [UInt8.ofNat c.packedLen] ++ c.wire) (packedCoilsLen c.quantity) := by
    intro c fc hb h255
    have hb : packedCoilsLen c.quantity ≤ c.data.length := hb
    refine ⟨UInt8.ofNat (packedCoilsLen c.quantity), rfl, UInt8.toNat_ofNat_of_le h255, ?_⟩
    simp only [Coils.wire_length, Coils.packedLen, List.length_append, List.length_cons, List.length_nil]; omega
  have regs : ∀ (d : Data) (fc : UInt8), d.Exact → d.quantity * 2 ≤ 255 →
      CountByteOk ([fc] ++ [UInt8.ofNat (d.len * 2)] ++ d.data.take (d.len * 2)) (d.quantity * 2) := by
    intro d fc hx h255
    have hx : d.data.length = d.quantity * 2 := hx
    refine ⟨UInt8.ofNat (d.quantity * 2), rfl, UInt8.toNat_ofNat_of_le h255, ?_⟩
    simp only [Data.len, List.length_append, List.length_cons, List.length_nil, List.length_take]; omega
  cases r with
  | readCoils c => exact coils c _ hw hf
  | readDiscreteInputs c => exact coils c _ hw hf
  | readInputRegisters d => exact regs d _ hw hf
  | readHoldingRegisters d => exact regs d _ hw hf
  | readWriteMultipleRegisters d => exact regs d _ hw hf
  | _ => trivial

/-! ### responses: decoding the image -/

/-- what a response means after a trip over the wire: a coil response carries a byte count, not a coil
    count, so the coil list comes back rounded up to whole bytes with identical leading coils; everything
    else comes back as is.  (Since `copy_to` clears the padding bits the added coils are all off:
    `Response.Wf.redecode_clean` gives the exact list `padTo8 bs`; this weaker relation is kept for the
    statements that were proved before that fix.) -/
def Spec.RspMeaning.RoundsTo : Spec.RspMeaning → Spec.RspMeaning → Prop
  | .readCoils bs, m' =>
      ∃ l, m' = .readCoils l ∧ l.length = 8 * ((bs.length + 7) / 8) ∧ l.take bs.length = bs
  | .readDiscreteInputs bs, m' =>
      ∃ l, m' = .readDiscreteInputs l ∧ l.length = 8 * ((bs.length + 7) / 8) ∧ l.take bs.length = bs
  | m, m' => m' = m

theorem Spec.RspMeaning.roundsTo_padded (m : Spec.RspMeaning) : m.RoundsTo m.padded := by
  cases m with
  | readCoils bs => exact ⟨padTo8 bs, rfl, padTo8_length bs, padTo8_take bs⟩
  | readDiscreteInputs bs => exact ⟨padTo8 bs, rfl, padTo8_length bs, padTo8_take bs⟩
  | _ => rfl

/-- the container a coil response decodes to: the wire form (used bytes, padding cleared), count = bytes × 8 -/
def Coils.rounded (c : Coils) : Coils := ⟨c.wire, packedCoilsLen c.quantity * 8⟩

theorem Coils.Backed.rounded_backed {c : Coils} (h : c.Backed) : c.rounded.Backed := by
  have h : packedCoilsLen c.quantity ≤ c.data.length := h
  show packedCoilsLen (packedCoilsLen c.quantity * 8) ≤ c.wire.length
  rw [Coils.wire_length, Coils.packedLen, Nat.min_eq_left h]
  unfold packedCoilsLen; omega

/-- the coils of the decoded container: those of the original, then off-coils up to a whole byte —
    whatever the raw padding bits of the original were -/
theorem Coils.Backed.rounded_bits {c : Coils} (h : c.Backed) : c.rounded.bits = padTo8 c.bits := by
  have hr : c.rounded = ⟨Spec.packBits c.bits, (c.bits.length + 7) / 8 * 8⟩ := by
    show Coils.mk c.wire (packedCoilsLen c.quantity * 8) = _
    rw [h.wire_eq_packBits, Coils.bits_length]; rfl
  have hi := Coils.iter_packBits_padded c.bits
  rw [← hr] at hi
  have := h.rounded_backed.iter_eq
  rw [hi] at this
  exact (Res.ok.inj this).symm

theorem Coils.Backed.rounded {c : Coils} (h : c.Backed) :
    c.rounded.Backed ∧ c.rounded.bits.length = 8 * ((c.bits.length + 7) / 8) ∧
    c.rounded.bits.take c.bits.length = c.bits := by
  refine ⟨h.rounded_backed, ?_, ?_⟩
  · rw [h.rounded_bits, padTo8_length]
  · rw [h.rounded_bits, padTo8_take]

theorem Response.Wf.redecode {r : Response} (hw : r.Wf) (hf : r.CountFits) {m : Spec.RspMeaning}
    (hm : r.meaning = some m) (hs : InScopeRsp m) :
    ∃ r' m', Response.decode r.image = .ok r' ∧ r'.sem = some m' ∧ m.RoundsTo m' := by
  have regs : ∀ d : Data, d.Exact → d.data.take (d.quantity * 2) = d.data := by
    intro d hx
    have hx : d.data.length = d.quantity * 2 := hx
    exact List.take_of_length_le (by omega)
  cases r with
  | readCoils c =>
    have hw : c.Backed := hw
    simp only [Response.meaning, Option.some.injEq] at hm; subst hm
    obtain ⟨h1, h2, h3⟩ := hw.rounded
    refine ⟨_, .readCoils c.rounded.bits, (Response.redecode_coils c hf hw).1, ?_, _, rfl, h2, h3⟩
    show (Coils.items c.rounded).map _ = _
    rw [h1.items_eq]; rfl
  | readDiscreteInputs c =>
    have hw : c.Backed := hw
    simp only [Response.meaning, Option.some.injEq] at hm; subst hm
    obtain ⟨h1, h2, h3⟩ := hw.rounded
    refine ⟨_, .readDiscreteInputs c.rounded.bits, (Response.redecode_coils c hf hw).2, ?_, _, rfl, h2, h3⟩
    show (Coils.items c.rounded).map _ = _
    rw [h1.items_eq]; rfl
  | readHoldingRegisters d =>
    simp only [Response.meaning, Option.some.injEq] at hm; subst hm
    have hx : d.Exact := hw
    have := (Response.redecode_regs d hf (Data.Exact.ok hx)).1
    rw [regs d hx] at this
    exact ⟨_, _, this, by rw [Response.Wf.sem_eq (r := .readHoldingRegisters d) hw]; rfl, rfl⟩
  | readInputRegisters d =>
    simp only [Response.meaning, Option.some.injEq] at hm; subst hm
    have hx : d.Exact := hw
    have := (Response.redecode_regs d hf (Data.Exact.ok hx)).2.1
    rw [regs d hx] at this
    exact ⟨_, _, this, by rw [Response.Wf.sem_eq (r := .readInputRegisters d) hw]; rfl, rfl⟩
  | readWriteMultipleRegisters d =>
    simp only [Response.meaning, Option.some.injEq] at hm; subst hm
    have hx : d.Exact := hw
    have := (Response.redecode_regs d hf (Data.Exact.ok hx)).2.2
    rw [regs d hx] at this
    exact ⟨_, _, this, by rw [Response.Wf.sem_eq (r := .readWriteMultipleRegisters d) hw]; rfl, rfl⟩
  | writeSingleCoil a =>
    simp only [Response.meaning, Option.some.injEq] at hm; subst hm
    exact ⟨_, _, Response.decode_fixed_image.1 a, rfl, rfl⟩
  | writeMultipleCoils a q =>
    simp only [Response.meaning, Option.some.injEq] at hm; subst hm
    exact ⟨_, _, Response.decode_fixed_image.2.1 a q, rfl, rfl⟩
  | writeSingleRegister a q =>
    simp only [Response.meaning, Option.some.injEq] at hm; subst hm
    exact ⟨_, _, Response.decode_fixed_image.2.2.1 a q, rfl, rfl⟩
  | writeMultipleRegisters a q =>
    simp only [Response.meaning, Option.some.injEq] at hm; subst hm
    exact ⟨_, _, Response.decode_fixed_image.2.2.2.1 a q, rfl, rfl⟩
  | custom fc d =>
    simp only [Response.meaning, Option.some.injEq] at hm; subst hm
    have hc : fc.value ∉ modelledRspCodes := hs
    refine ⟨_, _, Response.decode_custom fc.value hc d, ?_, rfl⟩
    simp only [Response.sem, C18.value_new]
  | readExceptionStatus s =>
    simp only [Response.meaning, Option.some.injEq] at hm; subst hm
    exact ⟨_, _, Response.decode_fixed_image.2.2.2.2 s, rfl, rfl⟩
  | diagnostics d => cases hm
  | getCommEventCounter a b => cases hm
  | getCommEventLog a b c d => cases hm
  | reportServerId a b => cases hm

/-- the decoded coil list is the padded one (padding coils off) — no hypothesis on the raw padding bits
    (before the crate cleared the padding on the wire this needed `c.CleanPad`) -/
theorem Spec.RspMeaning.RoundsTo.eq_padded_of_clean {c : Coils} (hb : c.Backed) :
    c.rounded.bits = padTo8 c.bits := hb.rounded_bits

/-- decoding the image of ANY well-formed response gives the padded meaning (coil reads: the coils, then
    off-coils up to a whole byte).  The hypothesis `r.CleanPad` this theorem used to carry is gone. -/
theorem Response.Wf.redecode_clean {r : Response} (hw : r.Wf) (hf : r.CountFits)
    {m : Spec.RspMeaning} (hm : r.meaning = some m) (hs : InScopeRsp m) :
    ∃ r', Response.decode r.image = .ok r' ∧ r'.sem = some m.padded := by
  cases r with
  | readCoils c =>
    have hw : c.Backed := hw
    simp only [Response.meaning, Option.some.injEq] at hm; subst hm
    refine ⟨_, (Response.redecode_coils c hf hw).1, ?_⟩
    show (Coils.items c.rounded).map _ = _
    rw [hw.rounded_backed.items_eq, hw.rounded_bits]; rfl
  | readDiscreteInputs c =>
    have hw : c.Backed := hw
    simp only [Response.meaning, Option.some.injEq] at hm; subst hm
    refine ⟨_, (Response.redecode_coils c hf hw).2, ?_⟩
    show (Coils.items c.rounded).map _ = _
    rw [hw.rounded_backed.items_eq, hw.rounded_bits]; rfl
  | diagnostics d => cases hm
  | getCommEventCounter a b => cases hm
  | getCommEventLog a b c d => cases hm
  | reportServerId a b => cases hm
  | _ =>
    obtain ⟨r', m', h1, h2, h3⟩ := hw.redecode hf hm hs
    refine ⟨r', h1, ?_⟩
    simp only [Response.meaning, Option.some.injEq] at hm
    subst hm
    simp only [Spec.RspMeaning.RoundsTo] at h3
    subst h3
    exact h2

/-! ### responses: conformance of the image -/

/-- the wire image of a well-formed response is the specification's PDU of its meaning, whatever the raw
    padding bits of its coil container hold — every kind but Write Single Coil (open finding D12).
    (The hypothesis `r.CleanPad` this theorem used to carry is gone.) -/
theorem Response.Wf.image_eq_spec {r : Response} (hw : r.Wf) {m : Spec.RspMeaning}
    (hm : r.meaning = some m) (hn : ∀ a, m ≠ .writeSingleCoil a) : r.image = Spec.rspBytes m := by
  have regs : ∀ d : Data, d.Exact → d = ⟨Spec.wordsBE d.words, d.words.length⟩ := fun d hx => hx.shape.1
  cases r with
  | readCoils c =>
    have hw : c.Backed := hw
    simp only [Response.meaning, Option.some.injEq] at hm; subst hm
    have h3 := hw.wire_eq_packBits
    simp only [Response.image, Coils.packedLen, Spec.rspBytes, h3, Coils.bits_length]
    simp [packedCoilsLen]
  | readDiscreteInputs c =>
    have hw : c.Backed := hw
    simp only [Response.meaning, Option.some.injEq] at hm; subst hm
    have h3 := hw.wire_eq_packBits
    simp only [Response.image, Coils.packedLen, Spec.rspBytes, h3, Coils.bits_length]
    simp [packedCoilsLen]
  | readHoldingRegisters d =>
    simp only [Response.meaning, Option.some.injEq] at hm; subst hm
    have := C17.rsp_read_holding_registers_image d.words
    rw [← regs d hw] at this; exact this
  | readInputRegisters d =>
    simp only [Response.meaning, Option.some.injEq] at hm; subst hm
    have := C17.rsp_read_input_registers_image d.words
    rw [← regs d hw] at this; exact this
  | readWriteMultipleRegisters d =>
    simp only [Response.meaning, Option.some.injEq] at hm; subst hm
    have := C17.rsp_read_write_multiple_registers_image d.words
    rw [← regs d hw] at this; exact this
  | writeSingleCoil a =>
    simp only [Response.meaning, Option.some.injEq] at hm; subst hm
    exact absurd rfl (hn a)
  | diagnostics d => cases hm
  | getCommEventCounter a b => cases hm
  | getCommEventLog a b c d => cases hm
  | reportServerId a b => cases hm
  | _ =>
    simp only [Response.meaning, Option.some.injEq] at hm
    subst hm
    rfl

end Modbus

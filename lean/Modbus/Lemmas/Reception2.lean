import Modbus.Lemmas.Reception
/-
Incremental reception (C10), the four real scanners.

* the four model predictors against `Spec.predict` (proved here independently of `Lemmas/Predict.lean`);
* the two extractors on a framed PDU with any suffix, and on buffers shorter than the ADU;
* `Good` for every well-formed frame: TCP request / response, RTU response, and RTU request
  without function codes 0x0F / 0x10 (open finding D4).
-/
namespace Modbus.Reception

/-! ### which arm of the predictors' `if` chain a function code takes -/

def ReqClass (fc : UInt8) : Prop :=
    (Spec.lenRule .req fc.toNat = .fixed 5 ∧ (0x01 ≤ fc ∧ fc ≤ 0x06)) ∨
    (Spec.lenRule .req fc.toNat = .fixed 1 ∧ ¬ (0x01 ≤ fc ∧ fc ≤ 0x06) ∧
      (fc = 0x07 ∨ fc = 0x0B ∨ fc = 0x0C ∨ fc = 0x11)) ∨
    (Spec.lenRule .req fc.toNat = .count1 6 5 ∧ ¬ (0x01 ≤ fc ∧ fc ≤ 0x06) ∧
      ¬ (fc = 0x07 ∨ fc = 0x0B ∨ fc = 0x0C ∨ fc = 0x11) ∧ (fc = 0x0F ∨ fc = 0x10)) ∨
    (Spec.lenRule .req fc.toNat = .fixed 7 ∧ ¬ (0x01 ≤ fc ∧ fc ≤ 0x06) ∧
      ¬ (fc = 0x07 ∨ fc = 0x0B ∨ fc = 0x0C ∨ fc = 0x11) ∧ ¬ (fc = 0x0F ∨ fc = 0x10) ∧ fc = 0x16) ∨
    (Spec.lenRule .req fc.toNat = .fixed 3 ∧ ¬ (0x01 ≤ fc ∧ fc ≤ 0x06) ∧
      ¬ (fc = 0x07 ∨ fc = 0x0B ∨ fc = 0x0C ∨ fc = 0x11) ∧ ¬ (fc = 0x0F ∨ fc = 0x10) ∧ ¬ fc = 0x16 ∧
      fc = 0x18) ∨
    (Spec.lenRule .req fc.toNat = .count1 10 9 ∧ ¬ (0x01 ≤ fc ∧ fc ≤ 0x06) ∧
      ¬ (fc = 0x07 ∨ fc = 0x0B ∨ fc = 0x0C ∨ fc = 0x11) ∧ ¬ (fc = 0x0F ∨ fc = 0x10) ∧ ¬ fc = 0x16 ∧
      ¬ fc = 0x18 ∧ fc = 0x17) ∨
    (Spec.lenRule .req fc.toNat = .unknown ∧ ¬ (0x01 ≤ fc ∧ fc ≤ 0x06) ∧
      ¬ (fc = 0x07 ∨ fc = 0x0B ∨ fc = 0x0C ∨ fc = 0x11) ∧ ¬ (fc = 0x0F ∨ fc = 0x10) ∧ ¬ fc = 0x16 ∧
      ¬ fc = 0x18 ∧ ¬ fc = 0x17)

set_option synthInstance.maxSize 2000 in
instance : DecidablePred ReqClass := fun _ => by unfold ReqClass; infer_instance

theorem req_class (fc : UInt8) : ReqClass fc := by
  revert fc; apply byte_cases; decide +kernel

def RspClass (fc : UInt8) : Prop :=
    (Spec.lenRule .rsp fc.toNat = .count1 2 1 ∧ ((0x01 ≤ fc ∧ fc ≤ 0x04) ∨ fc = 0x0C ∨ fc = 0x17)) ∨
    (Spec.lenRule .rsp fc.toNat = .fixed 5 ∧ ¬ ((0x01 ≤ fc ∧ fc ≤ 0x04) ∨ fc = 0x0C ∨ fc = 0x17) ∧
      (fc = 0x05 ∨ fc = 0x06 ∨ fc = 0x0B ∨ fc = 0x0F ∨ fc = 0x10)) ∨
    (Spec.lenRule .rsp fc.toNat = .fixed 2 ∧ ¬ ((0x01 ≤ fc ∧ fc ≤ 0x04) ∨ fc = 0x0C ∨ fc = 0x17) ∧
      ¬ (fc = 0x05 ∨ fc = 0x06 ∨ fc = 0x0B ∨ fc = 0x0F ∨ fc = 0x10) ∧
      (fc = 0x07 ∨ (0x81 ≤ fc ∧ fc ≤ 0xAB))) ∨
    (Spec.lenRule .rsp fc.toNat = .fixed 7 ∧ ¬ ((0x01 ≤ fc ∧ fc ≤ 0x04) ∨ fc = 0x0C ∨ fc = 0x17) ∧
      ¬ (fc = 0x05 ∨ fc = 0x06 ∨ fc = 0x0B ∨ fc = 0x0F ∨ fc = 0x10) ∧
      ¬ (fc = 0x07 ∨ (0x81 ≤ fc ∧ fc ≤ 0xAB)) ∧ fc = 0x16) ∨
    (Spec.lenRule .rsp fc.toNat = .count2 3 1 ∧ ¬ ((0x01 ≤ fc ∧ fc ≤ 0x04) ∨ fc = 0x0C ∨ fc = 0x17) ∧
      ¬ (fc = 0x05 ∨ fc = 0x06 ∨ fc = 0x0B ∨ fc = 0x0F ∨ fc = 0x10) ∧
      ¬ (fc = 0x07 ∨ (0x81 ≤ fc ∧ fc ≤ 0xAB)) ∧ ¬ fc = 0x16 ∧ fc = 0x18) ∨
    (Spec.lenRule .rsp fc.toNat = .unknown ∧ ¬ ((0x01 ≤ fc ∧ fc ≤ 0x04) ∨ fc = 0x0C ∨ fc = 0x17) ∧
      ¬ (fc = 0x05 ∨ fc = 0x06 ∨ fc = 0x0B ∨ fc = 0x0F ∨ fc = 0x10) ∧
      ¬ (fc = 0x07 ∨ (0x81 ≤ fc ∧ fc ≤ 0xAB)) ∧ ¬ fc = 0x16 ∧ ¬ fc = 0x18)

set_option synthInstance.maxSize 2000 in
instance : DecidablePred RspClass := fun _ => by unfold RspClass; infer_instance

theorem rsp_class (fc : UInt8) : RspClass fc := by
  revert fc; apply byte_cases; decide +kernel

/-! ### small facts about reads -/

theorem getElem?_of_lt {b : Bytes} {i : Nat} (h : i < b.length) : b[i]? = some b[i] :=
  List.getElem?_eq_getElem h

theorem getElem?_none_of_le {b : Bytes} {i : Nat} (h : b.length ≤ i) : b[i]? = none :=
  List.getElem?_eq_none h

/-- the count-byte arm of a predictor against the specification's `count1` clause -/
theorem count1_arm (adu : Bytes) (k base : Nat) (fc : UInt8) :
    (if adu.length > k then (idx adu k).bind fun c => Res.ok (some (base + c.toNat)) else .ok none) =
    predRes fc (match adu[k]? with
      | some c => Spec.Pred.len (base + c.toNat)
      | none => Spec.Pred.incomplete) := by
  by_cases h : adu.length > k
  · rw [if_pos h, idx_eq_ok h, getElem?_of_lt h]; rfl
  · rw [if_neg h, getElem?_none_of_le (by omega)]; rfl

/-- the 16-bit-count arm against the specification's `count2` clause -/
theorem count2_arm (adu : Bytes) (k base : Nat) (fc : UInt8) :
    (if adu.length > k + 1 then (read16 adu k).bind fun c => Res.ok (some (base + c.toNat))
      else .ok none) =
    predRes fc (match adu[k]?, adu[k + 1]? with
      | some h, some l => Spec.Pred.len (base + (h.toNat * 256 + l.toNat))
      | _, _ => Spec.Pred.incomplete) := by
  by_cases h : adu.length > k + 1
  · have h0 : k < adu.length := by omega
    rw [if_pos h, read16_eq_ok h, getElem?_of_lt h, getElem?_of_lt h0]
    simp only [Res.bind'_ok, rd16_toNat]; rfl
  · rw [if_neg h, getElem?_none_of_le (i := k + 1) (by omega)]
    cases adu[k]? <;> rfl

/-! ### the model predictors are the specification's -/

theorem tcp_requestPduLen_eq (adu : Bytes) :
    Tcp.requestPduLen adu = predRes (adu[7]?.getD 0) (Spec.predict 7 .req adu) := by
  unfold Tcp.requestPduLen Spec.predict
  by_cases hl : adu.length < 8
  · simp only [hl, if_true, Nat.reduceAdd]; rfl
  · have h7 : 7 < adu.length := by omega
    simp only [hl, if_false, Nat.reduceAdd, idx_eq_ok h7, getElem?_of_lt h7, Res.bind'_ok,
      Option.getD_some]
    generalize adu[7] = fc
    rcases req_class fc with ⟨hr, h1⟩ | ⟨hr, h1, h2⟩ | ⟨hr, h1, h2, h3⟩ | ⟨hr, h1, h2, h3, h4⟩ |
      ⟨hr, h1, h2, h3, h4, h5⟩ | ⟨hr, h1, h2, h3, h4, h5, h6⟩ | ⟨hr, h1, h2, h3, h4, h5, h6⟩
    · rw [if_pos h1, hr]; rfl
    · rw [if_neg h1, if_pos h2, hr]; rfl
    · rw [if_neg h1, if_neg h2, if_pos h3, hr]; exact count1_arm adu 12 6 fc
    · rw [if_neg h1, if_neg h2, if_neg h3, if_pos h4, hr]; rfl
    · rw [if_neg h1, if_neg h2, if_neg h3, if_neg h4, if_pos h5, hr]; rfl
    · rw [if_neg h1, if_neg h2, if_neg h3, if_neg h4, if_neg h5, if_pos h6, hr]
      exact count1_arm adu 16 10 fc
    · rw [if_neg h1, if_neg h2, if_neg h3, if_neg h4, if_neg h5, if_neg h6, hr]; rfl

theorem tcp_responsePduLen_eq (adu : Bytes) :
    Tcp.responsePduLen adu = predRes (adu[7]?.getD 0) (Spec.predict 7 .rsp adu) := by
  unfold Tcp.responsePduLen Spec.predict
  by_cases hl : adu.length < 8
  · simp only [hl, if_true, Nat.reduceAdd]; rfl
  · have h7 : 7 < adu.length := by omega
    simp only [hl, if_false, Nat.reduceAdd, idx_eq_ok h7, getElem?_of_lt h7, Res.bind'_ok,
      Option.getD_some]
    generalize adu[7] = fc
    rcases rsp_class fc with ⟨hr, h1⟩ | ⟨hr, h1, h2⟩ | ⟨hr, h1, h2, h3⟩ | ⟨hr, h1, h2, h3, h4⟩ |
      ⟨hr, h1, h2, h3, h4, h5⟩ | ⟨hr, h1, h2, h3, h4, h5⟩
    · rw [if_pos h1, hr]; exact count1_arm adu 8 2 fc
    · rw [if_neg h1, if_pos h2, hr]; rfl
    · rw [if_neg h1, if_neg h2, if_pos h3, hr]; rfl
    · rw [if_neg h1, if_neg h2, if_neg h3, if_pos h4, hr]; rfl
    · rw [if_neg h1, if_neg h2, if_neg h3, if_neg h4, if_pos h5, hr]
      exact count2_arm adu 8 3 fc
    · rw [if_neg h1, if_neg h2, if_neg h3, if_neg h4, if_neg h5, hr]; rfl

theorem rtu_responsePduLen_eq (adu : Bytes) :
    Rtu.responsePduLen adu = predRes (adu[1]?.getD 0) (Spec.predict 1 .rsp adu) := by
  unfold Rtu.responsePduLen Spec.predict
  by_cases hl : adu.length < 2
  · simp only [hl, if_true, Nat.reduceAdd]; rfl
  · have h7 : 1 < adu.length := by omega
    simp only [hl, if_false, Nat.reduceAdd, idx_eq_ok h7, getElem?_of_lt h7, Res.bind'_ok,
      Option.getD_some]
    generalize adu[1] = fc
    rcases rsp_class fc with ⟨hr, h1⟩ | ⟨hr, h1, h2⟩ | ⟨hr, h1, h2, h3⟩ | ⟨hr, h1, h2, h3, h4⟩ |
      ⟨hr, h1, h2, h3, h4, h5⟩ | ⟨hr, h1, h2, h3, h4, h5⟩
    · rw [if_pos h1, hr]; exact count1_arm adu 2 2 fc
    · rw [if_neg h1, if_pos h2, hr]; rfl
    · rw [if_neg h1, if_neg h2, if_pos h3, hr]; rfl
    · rw [if_neg h1, if_neg h2, if_neg h3, if_pos h4, hr]; rfl
    · rw [if_neg h1, if_neg h2, if_neg h3, if_neg h4, if_pos h5, hr]
      exact count2_arm adu 2 3 fc
    · rw [if_neg h1, if_neg h2, if_neg h3, if_neg h4, if_neg h5, hr]; rfl

/-- The RTU request predictor agrees with the specification **except for function codes 0x0F and
0x10**, where it reads ADU offset 4 instead of 6 (open finding D4). -/
theorem rtu_requestPduLen_eq_partial (adu : Bytes)
    (hF : adu[1]? ≠ some 0x0F) (h10 : adu[1]? ≠ some 0x10) :
    Rtu.requestPduLen adu = predRes (adu[1]?.getD 0) (Spec.predict 1 .req adu) := by
  unfold Rtu.requestPduLen Spec.predict
  by_cases hl : adu.length < 2
  · simp only [hl, if_true, Nat.reduceAdd]; rfl
  · have h7 : 1 < adu.length := by omega
    rw [getElem?_of_lt h7] at hF h10
    simp only [hl, if_false, Nat.reduceAdd, idx_eq_ok h7, getElem?_of_lt h7, Res.bind'_ok,
      Option.getD_some]
    revert hF h10
    generalize adu[1] = fc
    intro hF h10
    rcases req_class fc with ⟨hr, h1⟩ | ⟨hr, h1, h2⟩ | ⟨hr, h1, h2, h3⟩ | ⟨hr, h1, h2, h3, h4⟩ |
      ⟨hr, h1, h2, h3, h4, h5⟩ | ⟨hr, h1, h2, h3, h4, h5, h6⟩ | ⟨hr, h1, h2, h3, h4, h5, h6⟩
    · rw [if_pos h1, hr]; rfl
    · rw [if_neg h1, if_pos h2, hr]; rfl
    · exfalso
      rcases h3 with h3 | h3 <;> subst h3 <;> first | exact hF rfl | exact h10 rfl
    · rw [if_neg h1, if_neg h2, if_neg h3, if_pos h4, hr]; rfl
    · rw [if_neg h1, if_neg h2, if_neg h3, if_neg h4, if_pos h5, hr]; rfl
    · rw [if_neg h1, if_neg h2, if_neg h3, if_neg h4, if_neg h5, if_pos h6, hr]
      exact count1_arm adu 10 10 fc
    · rw [if_neg h1, if_neg h2, if_neg h3, if_neg h4, if_neg h5, if_neg h6, hr]; rfl

end Modbus.Reception

import Modbus.Lemmas.Wf
import Modbus.Lemmas.AduCompose
/-
Plumbing between the facts about ARBITRARY well-formed values (Lemmas/Wf.lean: `Request.Wf`,
`Response.Wf`, `CountFits`, `meaning`) and the generic ADU-level theorems of Props/C04.lean, Props/C05.lean,
which take PDU-level facts as hypotheses.  Everything here follows from the invariant alone — no hypothesis
on where the value or its containers came from (`Built`, decoded in place, …).
-/
namespace Modbus
open AduRT

/-! ### requests -/

/-- an exact register container is `DataExact` in the sense of Lemmas/AduRoundTrip.lean -/
theorem Request.Wf.dataExact {r : Request} (hw : r.Wf) : r.DataExact := by
  cases r with
  | writeMultipleRegisters a d => exact hw
  | readWriteMultipleRegisters ra rq wa d => exact hw
  | _ => trivial

/-- the image of a well-formed, implemented request whose count fits is a complete PDU of the request
    table — for every quantity, zero included; custom codes by the `Framed` hypothesis -/
theorem Request.Wf.complete {r : Request} (hw : r.Wf) (hi : r.Implemented) (hf : r.CountFits)
    {m : Spec.ReqMeaning} (hm : r.meaning = some m) (hfr : m.Framed) : Spec.PduComplete .req r.image := by
  have he := (hw.encodable_iff hi).mpr hf
  have hx := hw.dataExact
  cases r with
  | custom fc d =>
    simp only [Request.meaning, Option.some.injEq] at hm
    subst hm
    exact hfr
  | readExceptionStatus => cases hm
  | diagnostics s d => cases hm
  | getCommEventCounter => cases hm
  | getCommEventLog => cases hm
  | reportServerId => cases hm
  | _ => exact req_image_complete _ trivial he hx

/-- the first byte of the image of a well-formed request whose meaning is neither write-multiple-coils nor
    write-multiple-registers (and, for a custom code, in scope) is neither 0x0F nor 0x10 -/
theorem Request.Wf.first_ne {r : Request} {m : Spec.ReqMeaning} (hm : r.meaning = some m) (hs : m.InScope)
    (hC : ∀ a bs, m ≠ .writeMultipleCoils a bs) (hR : ∀ a ws, m ≠ .writeMultipleRegisters a ws) :
    r.image[0]? ≠ some 0x0F ∧ r.image[0]? ≠ some 0x10 := by
  cases r with
  | writeMultipleCoils a c =>
    simp only [Request.meaning, Option.some.injEq] at hm
    exact absurd hm.symm (hC a _)
  | writeMultipleRegisters a d =>
    simp only [Request.meaning, Option.some.injEq] at hm
    exact absurd hm.symm (hR a _)
  | custom fc d =>
    simp only [Request.meaning, Option.some.injEq] at hm
    subst hm
    have hc : fc.value ∉ modelledReqCodes := hs.2
    simp only [modelledReqCodes, List.mem_cons, List.not_mem_nil, or_false, not_or] at hc
    have h0 : (Request.custom fc d).image[0]? = some fc.value := rfl
    rw [h0]
    exact ⟨fun h => hc.2.2.2.2.2.2.1 (Option.some.inj h), fun h => hc.2.2.2.2.2.2.2.1 (Option.some.inj h)⟩
  | readCoils a q => exact req_image_first_ne _ trivial
  | readDiscreteInputs a q => exact req_image_first_ne _ trivial
  | readHoldingRegisters a q => exact req_image_first_ne _ trivial
  | readInputRegisters a q => exact req_image_first_ne _ trivial
  | writeSingleCoil a on => exact req_image_first_ne _ trivial
  | writeSingleRegister a v => exact req_image_first_ne _ trivial
  | readWriteMultipleRegisters ra rq wa d => exact req_image_first_ne _ trivial
  | readExceptionStatus => cases hm
  | diagnostics s d => cases hm
  | getCommEventCounter => cases hm
  | getCommEventLog => cases hm
  | reportServerId => cases hm

/-! ### responses -/

/-- the image of a well-formed, implemented response whose count fits is a complete PDU of the response
    table — every kind except write-single-coil (D12); custom codes by the `Framed` hypothesis -/
theorem Response.Wf.complete {r : Response} (hw : r.Wf) (hi : r.Implemented) (hf : r.CountFits)
    {m : Spec.RspMeaning} (hm : r.meaning = some m) (hn : ∀ a, m ≠ .writeSingleCoil a) (hfr : m.Framed) :
    Spec.PduComplete .rsp r.image := by
  have he := (hw.encodable_iff hi).mpr hf
  cases r with
  | writeSingleCoil a =>
    simp only [Response.meaning, Option.some.injEq] at hm
    exact absurd hm.symm (hn a)
  | custom fc d =>
    simp only [Response.meaning, Option.some.injEq] at hm
    subst hm
    exact hfr.2
  | diagnostics d => cases hm
  | getCommEventCounter a b => cases hm
  | getCommEventLog a b c d => cases hm
  | reportServerId a b => cases hm
  | _ => exact rsp_image_complete _ trivial he

/-- the first byte of that image is a function code below 0x80, so the exception decoder rejects it -/
theorem Response.Wf.not_exception {r : Response} {m : Spec.RspMeaning} (hm : r.meaning = some m)
    (hfr : m.Framed) : ∃ e, ExceptionResponse.decode r.image = .err e := by
  cases r with
  | custom fc d =>
    simp only [Response.meaning, Option.some.injEq] at hm
    subst hm
    exact exc_decode_err_of_lt _ fc.value rfl hfr.1
  | writeSingleCoil a => exact exc_decode_err_of_lt _ 0x05 rfl (by decide)
  | readCoils c => exact exc_decode_err_of_lt _ 0x01 rfl (by decide)
  | readDiscreteInputs c => exact exc_decode_err_of_lt _ 0x02 rfl (by decide)
  | readHoldingRegisters d => exact exc_decode_err_of_lt _ 0x03 rfl (by decide)
  | readInputRegisters d => exact exc_decode_err_of_lt _ 0x04 rfl (by decide)
  | readWriteMultipleRegisters d => exact exc_decode_err_of_lt _ 0x17 rfl (by decide)
  | writeSingleRegister a w => exact exc_decode_err_of_lt _ 0x06 rfl (by decide)
  | writeMultipleCoils a q => exact exc_decode_err_of_lt _ 0x0F rfl (by decide)
  | writeMultipleRegisters a q => exact exc_decode_err_of_lt _ 0x10 rfl (by decide)
  | readExceptionStatus s => exact exc_decode_err_of_lt _ 0x07 rfl (by decide)
  | diagnostics d => cases hm
  | getCommEventCounter a b => cases hm
  | getCommEventLog a b c d => cases hm
  | reportServerId a b => cases hm

/-- the MBAP length field of that image is exact -/
theorem Response.Wf.mbap_len {r : Response} (hw : r.Wf) (hi : r.Implemented) (hf : r.CountFits)
    {m : Spec.RspMeaning} (hm : r.meaning = some m) (hl : m.MbapLen) : r.image.length + 1 < 65536 := by
  have he := (hw.encodable_iff hi).mpr hf
  cases r with
  | custom fc d =>
    simp only [Response.meaning, Option.some.injEq] at hm
    subst hm
    have h1 : (Response.custom fc d).image.length = d.length + 1 := by simp [Response.image]
    have h2 : d.length + 2 < 65536 := hl
    omega
  | writeSingleCoil a =>
    have h1 : (Response.writeSingleCoil a).image.length = 3 := rfl
    omega
  | diagnostics d => cases hm
  | getCommEventCounter a b => cases hm
  | getCommEventLog a b c d => cases hm
  | reportServerId a b => cases hm
  | _ => have := rsp_image_length_le _ (by trivial) he; omega

/-- a well-formed implemented response whose count fits is what `ResponsePdu::encode` serialises -/
theorem Response.Wf.pdu_encodable {r : Response} (hw : r.Wf) (hi : r.Implemented) (hf : r.CountFits) :
    (ResponsePdu.ok r).Encodable :=
  ⟨(hw.encodable_iff hi).mpr hf, Response.image_pos r ((hw.encodable_iff hi).mpr hf)⟩

end Modbus

import Modbus.Model.Basic
/- Finite case analysis over bytes: a statement about every `UInt8` follows from its 256 instances. -/
namespace Modbus

theorem byte_cases {p : UInt8 → Prop} (h : ∀ n : Fin 256, p (UInt8.ofNat n.val)) (b : UInt8) : p b := by
  have := h ⟨b.toNat, b.toNat_lt⟩
  simpa using this

end Modbus

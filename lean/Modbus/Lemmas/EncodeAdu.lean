import Modbus.Model.Rtu
import Modbus.Model.Tcp
import Modbus.Lemmas.Encode
/- The ADU encoders, for any PDU encoder that satisfies the PDU-level equation. -/
namespace Modbus

/-- a PDU encoder that behaves like the C12 equation with image `img` -/
def EncodesAs (encPdu : Bytes → Res (Nat × Bytes)) (img : Bytes) : Prop :=
  ∀ b : Bytes, encPdu b =
    if b.length < img.length then .err .bufferSize else .ok (img.length, img ++ b.drop img.length)

/-- RTU frame image: slave id, PDU, CRC-16 of those bytes serialised big-endian (low-order CRC byte first) -/
def Rtu.frameImage (slave : UInt8) (img : Bytes) : Bytes :=
  slave :: img ++ be16 (crc16 (slave :: img))

theorem Rtu.encodeAdu_eq (slave : UInt8) (encPdu : Bytes → Res (Nat × Bytes)) (img : Bytes)
    (henc : EncodesAs encPdu img) (hpos : 1 ≤ img.length) (buf : Bytes) :
    Rtu.encodeAdu slave encPdu buf =
      if buf.length < img.length + 3 then .err .bufferSize
      else .ok (img.length + 3, Rtu.frameImage slave img ++ buf.drop (img.length + 3)) := by
  unfold Rtu.encodeAdu
  cases buf with
  | nil => simp
  | cons b0 rest =>
    by_cases h2 : (b0 :: rest).length < 2
    · have : (b0 :: rest).length < img.length + 3 := by omega
      simp only [h2, this, if_true]
    · simp only [h2, if_false, List.drop_succ_cons, List.drop_zero, List.take_succ_cons, List.take_zero]
      rw [henc rest]
      by_cases h3 : rest.length < img.length
      · have : (b0 :: rest).length < img.length + 3 := by simp; omega
        simp only [h3, this, if_true, Res.bind'_err]
      · simp only [h3, if_false, Res.bind'_ok]
        have hl : ([b0] ++ (img ++ rest.drop img.length)).length = (b0 :: rest).length := by
          simp; omega
        by_cases h4 : (b0 :: rest).length < img.length + 3
        · simp only [hl, h4, if_true]
        · simp only [hl, h4, if_false]
          have hr : img.length + 2 ≤ rest.length := by simp at h4; omega
          -- first store: the slave id
          have w1 : applyWrites ([b0] ++ (img ++ rest.drop img.length)) [(0, [slave])] =
              .ok (slave :: (img ++ rest.drop img.length)) := by
            simp [applyWrites, writeAt]
          rw [w1]
          simp only [Res.bind'_ok]
          have ht : (slave :: (img ++ rest.drop img.length)).take (img.length + 1) = slave :: img := by
            simp [List.take_append]
          rw [ht]
          -- second store: the CRC after the PDU
          have w2 := applyWrites_from [(img.length + 1, be16 (crc16 (slave :: img)))] (slave :: img) (rest.drop img.length)
            (by simp [Tiled]) (by simp [segBytes]; omega)
          have e : (slave :: img) ++ rest.drop img.length = slave :: (img ++ rest.drop img.length) := by simp
          rw [e] at w2
          rw [w2]
          simp [finish, segBytes, Rtu.frameImage, List.drop_drop, Nat.add_comm, Nat.add_left_comm]

/-- TCP frame image: transaction id, protocol id 0, length = PDU length + 1, unit id, PDU -/
def Tcp.frameImage (tid : UInt16) (uid : UInt8) (img : Bytes) : Bytes :=
  be16 tid ++ be16 0 ++ be16 (UInt16.ofNat (img.length + 1)) ++ [uid] ++ img

theorem Tcp.encodeAdu_eq (tid : UInt16) (uid : UInt8) (encPdu : Bytes → Res (Nat × Bytes)) (img : Bytes)
    (henc : EncodesAs encPdu img) (buf : Bytes) :
    Tcp.encodeAdu tid uid encPdu buf =
      if buf.length < img.length + 7 then .err .bufferSize
      else if 65535 < img.length + 1 then .err .bufferSize
      else .ok (img.length + 7, Tcp.frameImage tid uid img ++ buf.drop (img.length + 7)) := by
  unfold Tcp.encodeAdu
  by_cases h7 : buf.length < 7
  · have : buf.length < img.length + 7 := by omega
    simp [h7, this]
  · simp only [h7, if_false]
    -- split the buffer into the seven header bytes and the rest
    obtain ⟨hd, rest, rfl, hhd⟩ : ∃ hd rest, buf = hd ++ rest ∧ hd.length = 7 :=
      ⟨buf.take 7, buf.drop 7, (List.take_append_drop 7 buf).symm, by simp; omega⟩
    match hd, hhd with
    | [b0, b1, b2, b3, b4, b5, b6], _ =>
      have w1 : applyWrites ([b0, b1, b2, b3, b4, b5, b6] ++ rest) [(0, be16 tid), (2, be16 0), (6, [uid])] =
          .ok (be16 tid ++ be16 0 ++ [b4, b5, uid] ++ rest) := by
        simp [applyWrites, writeAt, be16]
      rw [w1]
      simp only [Res.bind'_ok]
      have hd7 : (be16 tid ++ be16 0 ++ [b4, b5, uid] ++ rest).drop 7 = rest := by simp [be16]
      have ht7 : (be16 tid ++ be16 0 ++ [b4, b5, uid] ++ rest).take 7 = be16 tid ++ be16 0 ++ [b4, b5, uid] := by
        simp [be16]
      rw [hd7, ht7, henc rest]
      by_cases h3 : rest.length < img.length
      · have : ([b0, b1, b2, b3, b4, b5, b6] ++ rest).length < img.length + 7 := by simp; omega
        simp [h3, this]
      · simp only [h3, if_false, Res.bind'_ok]
        have hl : (be16 tid ++ be16 0 ++ [b4, b5, uid] ++ (img ++ rest.drop img.length)).length = rest.length + 7 := by
          simp [be16]; omega
        have h4 : ¬ (rest.length + 7 < img.length + 7) := by omega
        have h5 : ¬ (([b0, b1, b2, b3, b4, b5, b6] ++ rest).length < img.length + 7) := by simp; omega
        simp only [hl, h4, h5, if_false]
        by_cases h6 : 65535 < img.length + 1
        · have h6' : ¬ (img.length + 1 ≤ 65535) := by omega
          simp only [u16TryFrom, h6, h6', if_true, if_false, Res.bind'_err]
        have h6' : img.length + 1 ≤ 65535 := by omega
        simp only [u16TryFrom, h6, h6', if_true, if_false, Res.bind'_ok]
        have w2 : applyWrites (be16 tid ++ be16 0 ++ [b4, b5, uid] ++ (img ++ rest.drop img.length))
            [(4, be16 (UInt16.ofNat (img.length + 1)))] =
            .ok (be16 tid ++ be16 0 ++ be16 (UInt16.ofNat (img.length + 1)) ++ [uid] ++ (img ++ rest.drop img.length)) := by
          simp [applyWrites, writeAt, be16]
        rw [w2]
        simp [finish, Tcp.frameImage, be16]

/-- a two-byte store at offset 4 of a buffer with at least six bytes -/
theorem applyWrites_at4 (b : Bytes) (x y : UInt8) (h : 6 ≤ b.length) :
    applyWrites b [(4, [x, y])] = .ok (b.take 4 ++ [x, y] ++ b.drop 6) := by
  have h' : 4 + 2 ≤ b.length := h
  simp [applyWrites, writeAt, h']

/-- **The MBAP length field never wraps.**  For EVERY PDU encoder (no equation assumed), every transaction
    id, unit id and buffer: whenever `Tcp.encodeAdu` succeeds with `(n, out)`, then `7 ≤ n`, the PDU length
    plus one `n - 6` is at most 65535, and the bytes `out[4], out[5]` read big-endian are exactly `n - 6`. -/
theorem Tcp.encodeAdu_ok_length_field (tid : UInt16) (uid : UInt8) (encPdu : Bytes → Res (Nat × Bytes))
    (buf : Bytes) (n : Nat) (out : Bytes) (h : Tcp.encodeAdu tid uid encPdu buf = .ok (n, out)) :
    7 ≤ n ∧ n - 6 ≤ 65535 ∧ n ≤ out.length ∧
    ∃ hi lo, out[4]? = some hi ∧ out[5]? = some lo ∧ hi.toNat * 256 + lo.toNat = n - 6 := by
  unfold Tcp.encodeAdu at h
  by_cases h7 : buf.length < 7
  · simp [h7] at h
  simp only [h7, if_false] at h
  cases hw : applyWrites buf [(0, be16 tid), (2, be16 0), (6, [uid])] with
  | err e => simp [hw] at h
  | panic => simp [hw] at h
  | ok b1 =>
    simp only [hw, Res.bind'_ok] at h
    cases hp : encPdu (b1.drop 7) with
    | err e => simp [hp] at h
    | panic => simp [hp] at h
    | ok v =>
      obtain ⟨len, tail⟩ := v
      simp only [hp, Res.bind'_ok] at h
      by_cases hl : (b1.take 7 ++ tail).length < len + 7
      · rw [if_pos hl] at h; cases h
      rw [if_neg hl] at h
      by_cases hf : len + 1 ≤ 65535
      · simp only [u16TryFrom, hf, if_true, Res.bind'_ok] at h
        have h6 : 6 ≤ (b1.take 7 ++ tail).length := by omega
        have e : be16 (UInt16.ofNat (len + 1)) =
            [UInt8.ofNat ((UInt16.ofNat (len + 1)).toNat / 256), UInt8.ofNat ((UInt16.ofNat (len + 1)).toNat % 256)] := rfl
        rw [e, applyWrites_at4 _ _ _ h6] at h
        simp only [finish, Res.map_ok, Res.ok.injEq, Prod.mk.injEq] at h
        obtain ⟨rfl, rfl⟩ := h
        have hm : (UInt16.ofNat (len + 1)).toNat = len + 1 := by
          rw [UInt16.toNat_ofNat']; exact Nat.mod_eq_of_lt (by omega)
        have ht4 : ((b1.take 7 ++ tail).take 4).length = 4 := by
          rw [List.length_take]; omega
        refine ⟨by omega, by omega, ?_, UInt8.ofNat ((UInt16.ofNat (len + 1)).toNat / 256),
          UInt8.ofNat ((UInt16.ofNat (len + 1)).toNat % 256), ?_, ?_, ?_⟩
        · simp only [List.length_append, List.length_take, List.length_drop, List.length_cons, List.length_nil] at hl ⊢
          omega
        · rw [List.append_assoc, List.getElem?_append_right (by omega), ht4]; rfl
        · rw [List.append_assoc, List.getElem?_append_right (by omega), ht4]; rfl
        · rw [hm, UInt8.toNat_ofNat', UInt8.toNat_ofNat']
          have : len + 7 - 6 = len + 1 := by omega
          rw [this]
          omega
      · simp [u16TryFrom, hf] at h

end Modbus

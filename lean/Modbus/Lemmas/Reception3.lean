import Modbus.Lemmas.Reception2
import Modbus.Lemmas.TcpHeader
/-
Incremental reception (C10): the extractors, and `Good` for every well-formed frame of the four
scanners.
-/
namespace Modbus.Reception

/-! ### layout of the two frames -/

theorem rtuFrame_length (slave : UInt8) (pdu : Bytes) : (Spec.rtuFrame slave pdu).length = pdu.length + 3 := by
  simp [Spec.rtuFrame]

theorem tcpFrame_length (tid : UInt16) (uid : UInt8) (pdu : Bytes) :
    (Spec.tcpFrame tid uid pdu).length = pdu.length + 7 := by
  simp [Spec.tcpFrame, Spec.word]

theorem rtuFrame_split (slave : UInt8) (pdu rest : Bytes) :
    Spec.rtuFrame slave pdu ++ rest = [slave] ++ (pdu ++ (be16 (crc16 (slave :: pdu)) ++ rest)) := by
  simp [Spec.rtuFrame]

/-- the seven MBAP bytes -/
def mbap (tid : UInt16) (uid : UInt8) (n : Nat) : Bytes :=
  [Spec.hi tid, Spec.lo tid, 0, 0, Spec.hi (UInt16.ofNat (n + 1)), Spec.lo (UInt16.ofNat (n + 1)), uid]

theorem tcpFrame_split (tid : UInt16) (uid : UInt8) (pdu rest : Bytes) :
    Spec.tcpFrame tid uid pdu ++ rest = mbap tid uid pdu.length ++ (pdu ++ ([] ++ rest)) := by
  simp [Spec.tcpFrame, Spec.word, mbap]

/-! ### the extractors -/

/-- RTU: a buffer shorter than the ADU is 'incomplete' -/
theorem rtu_extractFrame_short (p : Bytes) (n : Nat) (hne : p ≠ []) (hn : n ≤ 65538)
    (hlt : p.length < n + 3) : Rtu.extractFrame p n = .ok none := by
  have he : p.isEmpty = false := by
    cases p with
    | nil => exact absurd rfl hne
    | cons _ _ => rfl
  have h1 : ¬ (1 + n + 2 ≥ usizeLimit) := by unfold usizeLimit; omega
  have h2 : ¬ (p.length ≥ 1 + n + 2) := by omega
  unfold Rtu.extractFrame
  simp only [he, Bool.false_eq_true, if_false, h1, h2]

/-- RTU: slave, PDU, the CRC of both, then anything: the frame -/
theorem rtu_extractFrame_whole (slave : UInt8) (pdu rest : Bytes) (hn : pdu.length ≤ 65538) :
    Rtu.extractFrame (Spec.rtuFrame slave pdu ++ rest) pdu.length = .ok (some ⟨slave, pdu⟩) := by
  have e : Spec.rtuFrame slave pdu ++ rest =
      (slave :: pdu) ++ (UInt8.ofNat ((crc16 (slave :: pdu)).toNat / 256) ::
        UInt8.ofNat ((crc16 (slave :: pdu)).toNat % 256) :: rest) := by
    simp [Spec.rtuFrame, be16]
  have hl : (slave :: pdu).length = 1 + pdu.length := by simp; omega
  have h1 : ¬ (1 + pdu.length + 2 ≥ usizeLimit) := by unfold usizeLimit; omega
  have h2 : ((slave :: pdu) ++ (UInt8.ofNat ((crc16 (slave :: pdu)).toNat / 256) ::
        UInt8.ofNat ((crc16 (slave :: pdu)).toNat % 256) :: rest)).length ≥ 1 + pdu.length + 2 := by
    simp; omega
  unfold Rtu.extractFrame
  rw [e]
  simp only [List.isEmpty_cons, List.cons_append, Bool.false_eq_true, if_false, h1]
  simp only [List.cons_append] at h2
  rw [if_pos h2]
  have ht : (slave :: (pdu ++ (UInt8.ofNat ((crc16 (slave :: pdu)).toNat / 256) ::
        UInt8.ofNat ((crc16 (slave :: pdu)).toNat % 256) :: rest))).take (1 + pdu.length) = slave :: pdu := by
    rw [← List.cons_append, ← hl, List.take_left']
    rfl
  have hd : (slave :: (pdu ++ (UInt8.ofNat ((crc16 (slave :: pdu)).toNat / 256) ::
        UInt8.ofNat ((crc16 (slave :: pdu)).toNat % 256) :: rest))).drop (1 + pdu.length) =
      UInt8.ofNat ((crc16 (slave :: pdu)).toNat / 256) ::
        UInt8.ofNat ((crc16 (slave :: pdu)).toNat % 256) :: rest := by
    rw [← List.cons_append, ← hl, List.drop_left']
    rfl
  simp only [ht, hd]
  have hr : read16 (UInt8.ofNat ((crc16 (slave :: pdu)).toNat / 256) ::
        UInt8.ofNat ((crc16 (slave :: pdu)).toNat % 256) :: rest) 0 = .ok (crc16 (slave :: pdu)) := by
    simp [read16, rd16_be16]
  simp [hr, idx]

/-- TCP: a buffer shorter than the ADU whose visible header bytes are consistent (protocol id 0 if four
bytes are there, length field `n + 1` if six are) is 'incomplete' -/
theorem tcp_extractFrame_short (p : Bytes) (n : Nat) (hne : p ≠ []) (hn : n ≤ 65538)
    (hp : Tcp.checkProtocolId p = .ok ()) (hl : Tcp.checkLengthField p n = .ok ())
    (hlt : p.length < n + 7) : Tcp.extractFrame p n = .ok none :=
  Tcp.extractFrame_short hne (by unfold usizeLimit; omega) hp hl (by omega)

theorem read16_hdr4 (a b c d u : UInt8) (L : UInt16) (t : Bytes) :
    read16 ([a, b, c, d, Spec.hi L, Spec.lo L, u] ++ t) 4 = .ok L := by
  simp [read16, Spec.hi, Spec.lo, rd16_be16]

/-- both header checks pass on an MBAP header with protocol id 0 and length `n + 1`, whatever follows -/
theorem tcp_checks_mbap (tid : UInt16) (uid : UInt8) (n : Nat) (t : Bytes) (hn : n + 1 < 65536) :
    Tcp.checkProtocolId (mbap tid uid n ++ t) = .ok () ∧
    Tcp.checkLengthField (mbap tid uid n ++ t) n = .ok () := by
  constructor
  · unfold Tcp.checkProtocolId
    rw [if_pos (by simp [mbap])]
    have r2 : read16 (mbap tid uid n ++ t) 2 = .ok 0 := by
      simp [read16, mbap]; decide
    rw [r2]; rfl
  · unfold Tcp.checkLengthField
    rw [if_pos (by simp [mbap])]
    have r4 : read16 (mbap tid uid n ++ t) 4 = .ok (UInt16.ofNat (n + 1)) := read16_hdr4 _ _ _ _ _ _ _
    have hm : (UInt16.ofNat (n + 1)).toNat = n + 1 := by
      rw [UInt16.toNat_ofNat']; omega
    rw [r4]
    simp only [Res.bind'_ok, hm, ne_eq, not_true_eq_false, if_false]

/-- … hence on a well-formed frame followed by anything … -/
theorem tcp_checks_frame (tid : UInt16) (uid : UInt8) (pdu rest : Bytes) (hn : pdu.length + 1 < 65536) :
    Tcp.checkProtocolId (Spec.tcpFrame tid uid pdu ++ rest) = .ok () ∧
    Tcp.checkLengthField (Spec.tcpFrame tid uid pdu ++ rest) pdu.length = .ok () := by
  rw [tcpFrame_split]; exact tcp_checks_mbap tid uid pdu.length _ hn

/-- … and on every prefix of it: a prefix with four bytes still shows protocol id 0, one with six
bytes still shows the right length field -/
theorem tcp_checks_prefix (tid : UInt16) (uid : UInt8) (pdu p : Bytes) (hn : pdu.length + 1 < 65536)
    (hp : p <+: Spec.tcpFrame tid uid pdu) :
    Tcp.checkProtocolId p = .ok () ∧ Tcp.checkLengthField p pdu.length = .ok () := by
  have h := tcp_checks_frame tid uid pdu [] hn
  rw [List.append_nil] at h
  exact ⟨Tcp.checkProtocolId_prefix hp h.1, Tcp.checkLengthField_prefix hp h.2⟩

/-- TCP: MBAP header with protocol id 0 and length `n + 1`, the PDU, then anything: the frame -/
theorem tcp_extractFrame_whole (tid : UInt16) (uid : UInt8) (pdu rest : Bytes)
    (hn : pdu.length + 1 < 65536) :
    Tcp.extractFrame (Spec.tcpFrame tid uid pdu ++ rest) pdu.length = .ok (some ⟨tid, uid, pdu⟩) := by
  obtain ⟨c1, c2⟩ := tcp_checks_frame tid uid pdu rest hn
  have e : Spec.tcpFrame tid uid pdu ++ rest =
      (mbap tid uid pdu.length ++ pdu) ++ rest := by
    simp [Spec.tcpFrame, Spec.word, mbap]
  rw [e] at c1 c2
  have hl : (mbap tid uid pdu.length ++ pdu).length = 7 + pdu.length := by simp [mbap]; omega
  have h1 : ¬ (7 + pdu.length ≥ usizeLimit) := by unfold usizeLimit; omega
  have h2 : ((mbap tid uid pdu.length ++ pdu) ++ rest).length ≥ 7 + pdu.length := by
    rw [List.length_append, hl]; omega
  have hne : ((mbap tid uid pdu.length ++ pdu) ++ rest).isEmpty = false := by simp [mbap]
  unfold Tcp.extractFrame
  rw [e]
  simp only [hne, Bool.false_eq_true, if_false, h1, c1, c2, Res.bind'_ok]
  rw [if_pos h2]
  have ht : ((mbap tid uid pdu.length ++ pdu) ++ rest).take (7 + pdu.length) =
      mbap tid uid pdu.length ++ pdu := by
    rw [← hl, List.take_left']
    rfl
  simp only [ht]
  have r2 : read16 (mbap tid uid pdu.length ++ pdu) 2 = .ok 0 := by
    simp [read16, mbap]; decide
  have r0 : read16 (mbap tid uid pdu.length ++ pdu) 0 = .ok tid := by
    simp [read16, mbap, Spec.hi, Spec.lo, rd16_be16]
  have r4 : read16 (mbap tid uid pdu.length ++ pdu) 4 = .ok (UInt16.ofNat (pdu.length + 1)) :=
    read16_hdr4 _ _ _ _ _ _ _
  have r6 : idx (mbap tid uid pdu.length ++ pdu) 6 = .ok uid := by
    simp [idx, mbap]
  have hm : (UInt16.ofNat (pdu.length + 1)).toNat = pdu.length + 1 := by
    rw [UInt16.toNat_ofNat']; omega
  have hdrop : (mbap tid uid pdu.length ++ pdu).drop 7 = pdu := by simp [mbap]
  simp only [r2, r0, r4, r6, hm, hdrop, Res.bind'_ok, bne_self_eq_false, Bool.false_eq_true, if_false,
    ne_eq, not_true_eq_false]

/-! ### `Good` for the four scanners -/

/-- C10 for TCP requests: every well-formed frame, every function code of the table, every size -/
theorem tcp_req_good (tid : UInt16) (uid : UInt8) (pdu : Bytes)
    (hc : Spec.PduComplete .req pdu) (hn : pdu.length + 1 < 65536) :
    Good Tcp.decodeReq (Spec.tcpFrame tid uid pdu) ⟨tid, uid, pdu⟩ := by
  have hb := pduComplete_bounds hc
  apply good_of_attempt (fun raw => (Tcp.checkProtocolId raw).bind fun _ => Tcp.requestPduLen raw)
    Tcp.extractFrame 7 _ _ pdu.length
  · exact tcpFrame_length tid uid pdu
  · rw [tcpFrame_length]; omega
  · intro rest
    simp only [(tcp_checks_frame tid uid pdu rest hn).1, Res.bind'_ok]
    rw [tcp_requestPduLen_eq, tcpFrame_split, predict_framed hc 7 _ _ rfl]; rfl
  · intro p hp _
    have hp' : p <+: mbap tid uid pdu.length ++ (pdu ++ ([] ++ [])) := by
      rw [← tcpFrame_split]; simpa using hp
    simp only [(tcp_checks_prefix tid uid pdu p hn hp).1, Res.bind'_ok]
    rw [tcp_requestPduLen_eq]
    rcases predict_framed_prefix hc 7 _ _ p rfl hp' with h | h <;> rw [h]
    · exact .inl rfl
    · exact .inr rfl
  · intro rest; exact tcp_extractFrame_whole tid uid pdu rest hn
  · intro p hne hp hlt
    rw [tcpFrame_length] at hlt
    obtain ⟨c1, c2⟩ := tcp_checks_prefix tid uid pdu p hn hp
    exact tcp_extractFrame_short p _ hne (by omega) c1 c2 hlt

/-- C10 for TCP responses -/
theorem tcp_rsp_good (tid : UInt16) (uid : UInt8) (pdu : Bytes)
    (hc : Spec.PduComplete .rsp pdu) (hn : pdu.length + 1 < 65536) :
    Good Tcp.decodeRsp (Spec.tcpFrame tid uid pdu) ⟨tid, uid, pdu⟩ := by
  have hb := pduComplete_bounds hc
  apply good_of_attempt (fun raw => (Tcp.checkProtocolId raw).bind fun _ => Tcp.responsePduLen raw)
    Tcp.extractFrame 7 _ _ pdu.length
  · exact tcpFrame_length tid uid pdu
  · rw [tcpFrame_length]; omega
  · intro rest
    simp only [(tcp_checks_frame tid uid pdu rest hn).1, Res.bind'_ok]
    rw [tcp_responsePduLen_eq, tcpFrame_split, predict_framed hc 7 _ _ rfl]; rfl
  · intro p hp _
    have hp' : p <+: mbap tid uid pdu.length ++ (pdu ++ ([] ++ [])) := by
      rw [← tcpFrame_split]; simpa using hp
    simp only [(tcp_checks_prefix tid uid pdu p hn hp).1, Res.bind'_ok]
    rw [tcp_responsePduLen_eq]
    rcases predict_framed_prefix hc 7 _ _ p rfl hp' with h | h <;> rw [h]
    · exact .inl rfl
    · exact .inr rfl
  · intro rest; exact tcp_extractFrame_whole tid uid pdu rest hn
  · intro p hne hp hlt
    rw [tcpFrame_length] at hlt
    obtain ⟨c1, c2⟩ := tcp_checks_prefix tid uid pdu p hn hp
    exact tcp_extractFrame_short p _ hne (by omega) c1 c2 hlt

/-- C10 for RTU responses -/
theorem rtu_rsp_good (slave : UInt8) (pdu : Bytes) (hc : Spec.PduComplete .rsp pdu) :
    Good Rtu.decodeRsp (Spec.rtuFrame slave pdu) ⟨slave, pdu⟩ := by
  have hb := pduComplete_bounds hc
  apply good_of_attempt Rtu.responsePduLen Rtu.extractFrame 3 _ _ pdu.length
  · exact rtuFrame_length slave pdu
  · rw [rtuFrame_length]; omega
  · intro rest
    rw [rtu_responsePduLen_eq, rtuFrame_split, predict_framed hc 1 _ _ rfl]; rfl
  · intro p hp _
    have hp' : p <+: [slave] ++ (pdu ++ (be16 (crc16 (slave :: pdu)) ++ [])) := by
      rw [← rtuFrame_split]; simpa using hp
    rw [rtu_responsePduLen_eq]
    rcases predict_framed_prefix hc 1 _ _ p rfl hp' with h | h <;> rw [h]
    · exact .inl rfl
    · exact .inr rfl
  · intro rest; exact rtu_extractFrame_whole slave pdu rest hb.2
  · intro p hne _ hlt
    rw [rtuFrame_length] at hlt
    exact rtu_extractFrame_short p _ hne hb.2 hlt

/-
Full statement (NOT provable for the model of the unedited crate, open finding D4):

  theorem rtu_req_good (slave : UInt8) (pdu : Bytes) (hc : Spec.PduComplete .req pdu) :
      Good Rtu.decodeReq (Spec.rtuFrame slave pdu) ⟨slave, pdu⟩

`rtu::request_pdu_len` reads ADU offset 4 (the low quantity byte) instead of offset 6 (the byte
count) for function codes 0x0F and 0x10; see `rtu_req_write_multiple_defect_witness` in
`Props/C10.lean`.  What is proved is the statement for every other function code of the table.
-/

/-- C10 for RTU requests, all function codes of the table except 0x0F / 0x10 (D4) -/
theorem rtu_req_good_partial (slave : UInt8) (pdu : Bytes) (hc : Spec.PduComplete .req pdu)
    (hF : pdu[0]? ≠ some 0x0F) (h10 : pdu[0]? ≠ some 0x10) :
    Good Rtu.decodeReq (Spec.rtuFrame slave pdu) ⟨slave, pdu⟩ := by
  have hb := pduComplete_bounds hc
  -- a buffer of at least two bytes that is a prefix of (frame ++ anything) has the PDU's function code at 1
  have fc_at : ∀ b : Bytes, 2 ≤ b.length → ∀ t, b <+: Spec.rtuFrame slave pdu ++ t → b[1]? = pdu[0]? := by
    intro b hb2 t hpre
    obtain ⟨u, hu⟩ := hpre
    have h1 : (b ++ u)[1]? = b[1]? := List.getElem?_append_left (by omega)
    rw [← h1, hu, rtuFrame_split]
    rw [List.getElem?_append_right (by simp)]
    simp only [List.length_singleton, Nat.sub_self]
    exact List.getElem?_append_left (by omega)
  apply good_of_attempt Rtu.requestPduLen Rtu.extractFrame 3 _ _ pdu.length
  · exact rtuFrame_length slave pdu
  · rw [rtuFrame_length]; omega
  · intro rest
    have hfc := fc_at (Spec.rtuFrame slave pdu ++ rest)
      (by rw [List.length_append, rtuFrame_length]; omega) rest (List.prefix_refl _)
    rw [rtu_requestPduLen_eq_partial _ (by rw [hfc]; exact hF) (by rw [hfc]; exact h10),
      rtuFrame_split, predict_framed hc 1 _ _ rfl]; rfl
  · intro p hp hp2
    have hfc := fc_at p hp2 [] (by simpa using hp)
    have hp' : p <+: [slave] ++ (pdu ++ (be16 (crc16 (slave :: pdu)) ++ [])) := by
      rw [← rtuFrame_split]; simpa using hp
    rw [rtu_requestPduLen_eq_partial _ (by rw [hfc]; exact hF) (by rw [hfc]; exact h10)]
    rcases predict_framed_prefix hc 1 _ _ p rfl hp' with h | h <;> rw [h]
    · exact .inl rfl
    · exact .inr rfl
  · intro rest; exact rtu_extractFrame_whole slave pdu rest hb.2
  · intro p hne _ hlt
    rw [rtuFrame_length] at hlt
    exact rtu_extractFrame_short p _ hne hb.2 hlt

end Modbus.Reception

import Modbus.Model.Basic
/- Helper lemmas: big-endian words, checked reads, tiled writes. -/
namespace Modbus

theorem rd16_be16 (v : UInt16) :
    rd16 (UInt8.ofNat (v.toNat / 256)) (UInt8.ofNat (v.toNat % 256)) = v := by
  apply UInt16.toNat_inj.mp
  have := v.toNat_lt
  simp [rd16, UInt8.toNat_ofNat']
  omega

theorem be16_rd16 (hi lo : UInt8) : be16 (rd16 hi lo) = [hi, lo] := by
  have h1 := hi.toNat_lt
  have h2 := lo.toNat_lt
  have e : (rd16 hi lo).toNat = hi.toNat * 256 + lo.toNat := by
    simp [rd16, UInt16.toNat_ofNat']; omega
  simp only [be16, e]
  have a : (hi.toNat * 256 + lo.toNat) / 256 = hi.toNat := by omega
  have b : (hi.toNat * 256 + lo.toNat) % 256 = lo.toNat := by omega
  rw [a, b]
  simp

@[simp] theorem be16_length (v : UInt16) : (be16 v).length = 2 := rfl

theorem rd16_toNat (hi lo : UInt8) : (rd16 hi lo).toNat = hi.toNat * 256 + lo.toNat := by
  have h1 := hi.toNat_lt
  have h2 := lo.toNat_lt
  simp [rd16, UInt16.toNat_ofNat']; omega

/-- segments tile `[start, …)` contiguously -/
def Tiled (start : Nat) : List (Nat × Bytes) → Prop
  | [] => True
  | (off, bs) :: ws => off = start ∧ Tiled (start + bs.length) ws

def segBytes (ws : List (Nat × Bytes)) : Bytes := (ws.map (·.2)).flatten

theorem writeAt_at (done todo : Bytes) (bs : Bytes) (h : bs.length ≤ todo.length) :
    writeAt (done ++ todo) done.length bs = .ok (done ++ bs ++ todo.drop bs.length) := by
  unfold writeAt
  by_cases hb : bs = []
  · subst hb; simp
  · simp only [hb, if_false]
    have : done.length + bs.length ≤ (done ++ todo).length := by simp; omega
    simp only [this, if_true]
    congr 1
    simp [List.take_append, List.drop_append]

theorem applyWrites_tiled (ws : List (Nat × Bytes)) :
    ∀ (done todo : Bytes), Tiled done.length ws → (segBytes ws).length ≤ todo.length →
      applyWrites (done ++ todo) ws = .ok (done ++ segBytes ws ++ todo.drop (segBytes ws).length) := by
  induction ws with
  | nil => intro done todo _ _; simp [applyWrites, segBytes]
  | cons w ws ih =>
    intro done todo ht hl
    obtain ⟨off, bs⟩ := w
    obtain ⟨rfl, ht'⟩ := ht
    have hl' : bs.length + (segBytes ws).length ≤ todo.length := by
      simpa [segBytes] using hl
    simp only [applyWrites]
    rw [writeAt_at done todo bs (by omega)]
    have := ih (done ++ bs) (todo.drop bs.length) (by simpa using ht') (by simp; omega)
    simp only [List.append_assoc] at this ⊢
    rw [this]
    simp [segBytes, List.drop_drop, Nat.add_comm]

/-- a tiling from 0 of total length `n` over any buffer of length ≥ `n` yields `bytes ++ buf.drop n` -/
theorem applyWrites_from_zero (ws : List (Nat × Bytes)) (buf : Bytes)
    (ht : Tiled 0 ws) (hl : (segBytes ws).length ≤ buf.length) :
    applyWrites buf ws = .ok (segBytes ws ++ buf.drop (segBytes ws).length) := by
  simpa using applyWrites_tiled ws [] buf (by simpa using ht) hl

/-- continuing a tiling after `done.length` bytes already written -/
theorem applyWrites_from (ws : List (Nat × Bytes)) (done todo : Bytes)
    (ht : Tiled done.length ws) (hl : (segBytes ws).length ≤ todo.length) :
    applyWrites (done ++ todo) ws = .ok (done ++ segBytes ws ++ todo.drop (segBytes ws).length) :=
  applyWrites_tiled ws done todo ht hl

theorem idx_eq_ok {b : Bytes} {i : Nat} (h : i < b.length) : idx b i = .ok b[i] := by
  simp [idx, List.getElem?_eq_getElem h]

theorem read16_eq_ok {b : Bytes} {i : Nat} (h : i + 1 < b.length) :
    read16 b i = .ok (rd16 b[i] b[i+1]) := by
  have h0 : i < b.length := by omega
  simp [read16, List.getElem?_eq_getElem h, List.getElem?_eq_getElem h0]

theorem idx_ne_panic {b : Bytes} {i : Nat} (h : i < b.length) : idx b i ≠ .panic := by
  rw [idx_eq_ok h]; simp

theorem read16_ne_panic {b : Bytes} {i : Nat} (h : i + 1 < b.length) : read16 b i ≠ .panic := by
  rw [read16_eq_ok h]; simp

end Modbus

import Modbus.Lemmas.Coherent
import Modbus.Lemmas.AduRoundTrip
/-
Facts about DECODED values needed to frame them again (Props/C04Dec.lean, Props/C05Dec.lean):

* which kinds the PDU decoders return (`Response.Decoded.kinds`, `Request.Decoded.kinds`);
* a decoded custom value carries the decoder's input verbatim: its image IS the input
  (`Response.decode_custom_image`, `Request.decode_custom_image`);
* a decoded register-write request holds exactly the bytes its count promises (`Request.Decoded.dataExact`;
  for decoded register responses: `Response.Decoded.dataExact` in Lemmas/Coherent.lean);
* the image of a standard request starts with its function code (`req_image_head`).
-/
namespace Modbus.DecodedAdu
open Modbus.AduRT Modbus.Total

/-- a function code outside the nine modelled kinds is not one of the nine modelled bytes -/
theorem isOther_not_modelled (fc : UInt8) (h : (FunctionCode.new fc).isOther = true) :
    fc ∉ modelledReqCodes := by
  revert h; revert fc; apply byte_cases; decide +kernel

/-- a function code outside the ten kinds the response decoder models is not one of the ten modelled bytes -/
theorem isOtherRsp_not_modelled (fc : UInt8) (h : (FunctionCode.new fc).isOtherRsp = true) :
    fc ∉ modelledRspCodes := by
  revert h; revert fc; apply byte_cases; decide +kernel

theorem isOther_of_isOtherRsp {fc : FunctionCode} (h : fc.isOtherRsp = true) : fc.isOther = true := by
  cases fc <;> first | exact h | cases h | rfl

/-- the kinds the response decoder returns: a frameable kind, write-single-coil, or a custom value -/
theorem _root_.Modbus.Response.Decoded.kinds {v : Response} (hd : Response.Decoded v) :
    v.Frameable ∨ (∃ a, v = .writeSingleCoil a) ∨
      (∃ fc d, v = .custom (FunctionCode.new fc) d ∧ (FunctionCode.new fc).isOtherRsp = true) := by
  cases hd with
  | writeSingleCoil a => exact .inr (.inl ⟨a, rfl⟩)
  | custom fc d ho => exact .inr (.inr ⟨fc, d, rfl, ho⟩)
  | _ => exact .inl trivial

/-- the kinds the request decoder returns: one of the nine standard kinds, or a custom value whose code
    is below 0x80 and not one of the nine -/
theorem _root_.Modbus.Request.Decoded.kinds {b : Bytes} {v : Request} (hd : Request.Decoded b v) :
    v.Standard ∨ (∃ fc d, v = .custom (.custom fc) d ∧ fc < 0x80 ∧ (FunctionCode.new fc).isOther = true) := by
  cases hd with
  | custom fc d hlt ho => exact .inr ⟨fc, d, rfl, hlt, ho⟩
  | _ => exact .inl trivial

/-- a decoded register-write request holds exactly `2 · quantity` bytes -/
theorem _root_.Modbus.Request.Decoded.dataExact {b : Bytes} {v : Request} (hd : Request.Decoded b v) : v.DataExact := by
  cases hd with
  | writeMultipleRegisters a q data h1 h2 => exact h1
  | readWriteMultipleRegisters ra rq wa q data h1 h2 => exact h1
  | _ => trivial

/-- the image of a standard request starts with its function code -/
theorem req_image_head (v : Request) (hs : v.Standard) : v.image[0]? = some v.fc.value := by
  cases v <;> first | rfl | exact absurd hs (by simp [Request.Standard])

/-- a decoded custom response carries the input verbatim -/
theorem Response.decode_custom_image {b : Bytes} {c : FunctionCode} {d : Bytes}
    (h : Response.decode b = .ok (.custom c d)) : (Response.custom c d).image = b := by
  unfold Response.decode at h
  by_cases he : b.isEmpty
  · rw [if_pos he] at h; cases h
  rw [if_neg he] at h
  have h0 := isEmpty_false_length he
  rw [idx_eq_ok h0, Res.bind'_ok] at h
  by_cases hm : b.length < minResponsePduLen (FunctionCode.new b[0])
  · rw [if_pos hm] at h; cases h
  rw [if_neg hm] at h
  have hv := FunctionCode.value_new b[0]
  cases hfc : FunctionCode.new b[0] <;> simp only [hfc, minResponsePduLen] at hm h
  case readCoils | readDiscreteInputs =>
    rw [idx_eq_ok (b := b) (i := 1) (by omega)] at h
    simp only [Res.bind'_ok] at h
    by_cases hb : b[1].toNat + 2 > b.length
    · rw [if_pos hb] at h; cases h
    rw [if_neg hb] at h
    have hs : 2 ≤ b[1].toNat + 2 ∧ b[1].toNat + 2 ≤ b.length := by omega
    simp only [slice, if_pos hs, Res.bind'_ok, Res.ok.injEq, reduceCtorEq] at h
  case readInputRegisters | readHoldingRegisters | readWriteMultipleRegisters =>
    rw [idx_eq_ok (b := b) (i := 1) (by omega)] at h
    simp only [Res.bind'_ok] at h
    by_cases hb : b[1].toNat + 2 > b.length
    · rw [if_pos hb] at h; cases h
    rw [if_neg hb] at h
    have hs : 2 ≤ 2 + b[1].toNat / 2 * 2 ∧ 2 + b[1].toNat / 2 * 2 ≤ b.length := by omega
    simp only [slice, if_pos hs, Res.bind'_ok, Res.ok.injEq, reduceCtorEq] at h
  case writeSingleCoil =>
    rw [read16_eq_ok (b := b) (i := 1) (by omega)] at h
    simp only [Res.bind'_ok, Res.ok.injEq, reduceCtorEq] at h
  case writeMultipleCoils | writeSingleRegister | writeMultipleRegisters =>
    rw [read16_eq_ok (b := b) (i := 1) (by omega), read16_eq_ok (b := b) (i := 3) (by omega)] at h
    simp only [Res.bind'_ok, Res.ok.injEq, reduceCtorEq] at h
  case readExceptionStatus =>
    rw [idx_eq_ok (b := b) (i := 1) (by omega)] at h
    simp only [Res.bind'_ok, Res.ok.injEq, reduceCtorEq] at h
  all_goals
    simp only [sliceFrom, if_pos (show 1 ≤ b.length by omega), Res.bind'_ok, Res.ok.injEq,
      Response.custom.injEq] at h
    obtain ⟨hc, hdd⟩ := h
    subst hc; subst hdd
    show (FunctionCode.value _) :: b.drop 1 = b
    rw [← hfc, hv]
    cases b with
    | nil => simp at h0
    | cons x t => rfl

/-- a decoded custom request carries the input verbatim -/
theorem Request.decode_custom_image {b : Bytes} {c : FunctionCode} {d : Bytes}
    (h : Request.decode b = .ok (.custom c d)) : (Request.custom c d).image = b := by
  unfold Request.decode at h
  by_cases he : b.isEmpty
  · rw [if_pos he] at h; cases h
  rw [if_neg he] at h
  have h0 := isEmpty_false_length he
  rw [idx_eq_ok h0, Res.bind'_ok] at h
  by_cases hm : b.length < minRequestPduLen (FunctionCode.new b[0])
  · rw [if_pos hm] at h; cases h
  rw [if_neg hm] at h
  have hv := FunctionCode.value_new b[0]
  cases hfc : FunctionCode.new b[0] <;> simp only [hfc, minRequestPduLen] at hm h
  case readCoils | readDiscreteInputs | readInputRegisters | readHoldingRegisters | writeSingleRegister =>
    rw [read16_eq_ok (b := b) (i := 1) (by omega), read16_eq_ok (b := b) (i := 3) (by omega)] at h
    simp only [Res.bind'_ok, Res.ok.injEq, reduceCtorEq] at h
  case writeSingleCoil =>
    rw [read16_eq_ok (b := b) (i := 1) (by omega), read16_eq_ok (b := b) (i := 3) (by omega)] at h
    simp only [Res.bind'_ok] at h
    cases hc : u16CoilToBool (rd16 b[3] b[3 + 1]) with
    | ok c => rw [hc] at h; simp only [Res.bind'_ok, Res.ok.injEq, reduceCtorEq] at h
    | err e => rw [hc] at h; cases h
    | panic => rw [hc] at h; cases h
  case writeMultipleCoils =>
    rw [read16_eq_ok (b := b) (i := 1) (by omega), read16_eq_ok (b := b) (i := 3) (by omega),
      idx_eq_ok (b := b) (i := 5) (by omega)] at h
    simp only [Res.bind'_ok] at h
    by_cases hb : b.length < 6 + b[5].toNat ∨ packedCoilsLen (rd16 b[3] b[3 + 1]).toNat > 255
    · rw [if_pos hb] at h; cases h
    rw [if_neg hb] at h
    simp only [sliceFrom, if_pos (show 6 ≤ b.length by omega), Res.bind'_ok, Res.ok.injEq, reduceCtorEq] at h
  case writeMultipleRegisters =>
    rw [read16_eq_ok (b := b) (i := 1) (by omega), read16_eq_ok (b := b) (i := 3) (by omega),
      idx_eq_ok (b := b) (i := 5) (by omega)] at h
    simp only [Res.bind'_ok] at h
    by_cases hb : b.length < 6 + b[5].toNat ∨ b[5].toNat ≠ (rd16 b[3] b[3 + 1]).toNat * 2
    · rw [if_pos hb] at h; cases h
    rw [if_neg hb] at h
    have hs : 6 ≤ 6 + b[5].toNat ∧ 6 + b[5].toNat ≤ b.length := by omega
    simp only [slice, if_pos hs, Res.bind'_ok, Res.ok.injEq, reduceCtorEq] at h
  case readWriteMultipleRegisters =>
    rw [read16_eq_ok (b := b) (i := 1) (by omega), read16_eq_ok (b := b) (i := 3) (by omega),
      read16_eq_ok (b := b) (i := 5) (by omega), read16_eq_ok (b := b) (i := 7) (by omega),
      idx_eq_ok (b := b) (i := 9) (by omega)] at h
    simp only [Res.bind'_ok] at h
    by_cases hb : b.length < 10 + b[9].toNat ∨ b[9].toNat ≠ (rd16 b[7] b[7 + 1]).toNat * 2
    · rw [if_pos hb] at h; cases h
    rw [if_neg hb] at h
    have hs : 10 ≤ 10 + b[9].toNat ∧ 10 + b[9].toNat ≤ b.length := by omega
    simp only [slice, if_pos hs, Res.bind'_ok, Res.ok.injEq, reduceCtorEq] at h
  all_goals
    by_cases hlt : b[0] < 0x80
    · rw [if_pos hlt] at h
      simp only [sliceFrom, if_pos (show 1 ≤ b.length by omega), Res.bind'_ok, Res.ok.injEq,
        Request.custom.injEq] at h
      obtain ⟨hc, hdd⟩ := h
      subst hc; subst hdd
      show b[0] :: b.drop 1 = b
      cases b with
      | nil => simp at h0
      | cons x t => rfl
    · rw [if_neg hlt] at h; cases h

end Modbus.DecodedAdu

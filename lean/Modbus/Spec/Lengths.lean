/-
Independent statement of the PDU length of every function code the frame-length predictors know,
per direction, from the PDU layouts of the Modbus Application Protocol v1.1b3 (§6) and the
serial-line diagnostics functions; and of the predictor those lengths imply for an ADU whose PDU
starts `hdr` bytes into the buffer.

SCOPE.  The table lists the function codes the crate's predictors SUPPORT (its documented set), with the
lengths the Modbus documents give them.  Codes the documents define but the crate does not frame
(0x08 and 0x11 responses, 0x14, 0x15, 0x2B, exception responses for functions above 0x2B) are `unknown`
here too: "rejected with an error" in C15 and "frameable" in C04/C05/C10 are relative to this set.
-/
namespace Modbus.Spec

inductive Dir where | req | rsp
  deriving Repr, DecidableEq

/-- how the length of a PDU is determined from its first bytes -/
inductive LenRule where
  | fixed (n : Nat)                      -- always `n` bytes
  | count1 (base off : Nat)              -- `base` + the byte at PDU offset `off`
  | count2 (base off : Nat)              -- `base` + the big-endian 16-bit count at PDU offsets `off`, `off+1`
  | unknown
  deriving Repr, DecidableEq

/-- the table -/
def lenRule (d : Dir) (fc : Nat) : LenRule :=
  match d with
  | .req =>
    if 1 ≤ fc ∧ fc ≤ 6 then .fixed 5
    else if fc = 0x07 ∨ fc = 0x0B ∨ fc = 0x0C ∨ fc = 0x11 then .fixed 1
    else if fc = 0x0F ∨ fc = 0x10 then .count1 6 5
    else if fc = 0x16 then .fixed 7
    else if fc = 0x17 then .count1 10 9
    else if fc = 0x18 then .fixed 3
    else .unknown
  | .rsp =>
    if (1 ≤ fc ∧ fc ≤ 4) ∨ fc = 0x0C ∨ fc = 0x17 then .count1 2 1
    else if fc = 5 ∨ fc = 6 ∨ fc = 0x0B ∨ fc = 0x0F ∨ fc = 0x10 then .fixed 5
    else if fc = 7 then .fixed 2
    else if fc = 0x16 then .fixed 7
    else if fc = 0x18 then .count2 3 1
    else if 0x81 ≤ fc ∧ fc ≤ 0xAB then .fixed 2
    else .unknown

/-- outcome of a prediction -/
inductive Pred where
  | len (n : Nat)
  | incomplete
  | reject
  deriving Repr, DecidableEq

/-- The predictor the table implies for an ADU buffer whose PDU starts at offset `hdr`:
incomplete until the function code and one further byte can be there (`hdr + 1 < length`,
the ADU scanners never look at shorter buffers), then the rule's value as soon as the count
byte(s) are present.  It mentions only `buf.length`, `buf[hdr]` and the count byte(s). -/
def predict (hdr : Nat) (d : Dir) (buf : List UInt8) : Pred :=
  if buf.length < hdr + 1 then .incomplete else
  match buf[hdr]? with
  | none => .incomplete
  | some fc =>
    match lenRule d fc.toNat with
    | .fixed n => .len n
    | .count1 base off =>
      (match buf[hdr + off]? with
       | some c => .len (base + c.toNat)
       | none => .incomplete)
    | .count2 base off =>
      (match buf[hdr + off]?, buf[hdr + off + 1]? with
       | some h, some l => .len (base + (h.toNat * 256 + l.toNat))
       | _, _ => .incomplete)
    | .unknown => .reject

end Modbus.Spec

import Modbus.Spec.Bits
/-
Independent statement of the PDU layouts of the Modbus Application Protocol v1.1b3 (§6, §7),
as functions from *meanings* to bytes.  Trusted as a transcription of the specification; it is
deliberately written in a different style from the model (no write lists, no buffers).
-/
namespace Modbus.Spec

def hi (v : UInt16) : UInt8 := UInt8.ofNat (v.toNat / 256)
def lo (v : UInt16) : UInt8 := UInt8.ofNat (v.toNat % 256)
def word (v : UInt16) : List UInt8 := [hi v, lo v]

/-- what a request means -/
inductive ReqMeaning where
  | readCoils (addr qty : UInt16)
  | readDiscreteInputs (addr qty : UInt16)
  | readHoldingRegisters (addr qty : UInt16)
  | readInputRegisters (addr qty : UInt16)
  | writeSingleCoil (addr : UInt16) (on : Bool)
  | writeSingleRegister (addr value : UInt16)
  | writeMultipleCoils (addr : UInt16) (coils : List Bool)
  | writeMultipleRegisters (addr : UInt16) (words : List UInt16)
  | readWriteMultipleRegisters (readAddr readQty writeAddr : UInt16) (words : List UInt16)
  | custom (code : UInt8) (data : List UInt8)
  deriving Repr, DecidableEq

/-- what a response means; `writeSingleCoil` carries only the address, as the crate's value does -/
inductive RspMeaning where
  | readCoils (coils : List Bool)
  | readDiscreteInputs (coils : List Bool)
  | readHoldingRegisters (words : List UInt16)
  | readInputRegisters (words : List UInt16)
  | writeSingleCoil (addr : UInt16)
  | writeSingleRegister (addr value : UInt16)
  | writeMultipleCoils (addr qty : UInt16)
  | writeMultipleRegisters (addr qty : UInt16)
  | readWriteMultipleRegisters (words : List UInt16)
  | readExceptionStatus (status : UInt8)
  | custom (code : UInt8) (data : List UInt8)
  deriving Repr, DecidableEq

/-- §6: request PDUs -/
def reqBytes : ReqMeaning → List UInt8
  | .readCoils a q => 0x01 :: (word a ++ word q)
  | .readDiscreteInputs a q => 0x02 :: (word a ++ word q)
  | .readHoldingRegisters a q => 0x03 :: (word a ++ word q)
  | .readInputRegisters a q => 0x04 :: (word a ++ word q)
  | .writeSingleCoil a on => 0x05 :: (word a ++ (if on then [0xFF, 0x00] else [0x00, 0x00]))
  | .writeSingleRegister a v => 0x06 :: (word a ++ word v)
  | .writeMultipleCoils a coils =>
      0x0F :: (word a ++ word (UInt16.ofNat coils.length) ++ [UInt8.ofNat ((coils.length + 7) / 8)] ++ packBits coils)
  | .writeMultipleRegisters a ws =>
      0x10 :: (word a ++ word (UInt16.ofNat ws.length) ++ [UInt8.ofNat (2 * ws.length)] ++ wordsBE ws)
  | .readWriteMultipleRegisters ra rq wa ws =>
      0x17 :: (word ra ++ word rq ++ word wa ++ word (UInt16.ofNat ws.length) ++ [UInt8.ofNat (2 * ws.length)] ++ wordsBE ws)
  | .custom c d => c :: d

/-- §6: response PDUs.  The specification's write-single-coil response is the five-byte echo of the
request (address and value); the crate's three-byte form is open finding D12, so this clause is
the one place where no crate value can conform. -/
def rspBytes : RspMeaning → List UInt8
  | .readCoils coils => 0x01 :: UInt8.ofNat ((coils.length + 7) / 8) :: packBits coils
  | .readDiscreteInputs coils => 0x02 :: UInt8.ofNat ((coils.length + 7) / 8) :: packBits coils
  | .readHoldingRegisters ws => 0x03 :: UInt8.ofNat (2 * ws.length) :: wordsBE ws
  | .readInputRegisters ws => 0x04 :: UInt8.ofNat (2 * ws.length) :: wordsBE ws
  | .writeSingleCoil a => 0x05 :: (word a ++ [0xFF, 0x00])
  | .writeSingleRegister a v => 0x06 :: (word a ++ word v)
  | .writeMultipleCoils a q => 0x0F :: (word a ++ word q)
  | .writeMultipleRegisters a q => 0x10 :: (word a ++ word q)
  | .readWriteMultipleRegisters ws => 0x17 :: UInt8.ofNat (2 * ws.length) :: wordsBE ws
  | .readExceptionStatus s => [0x07, s]
  | .custom c d => c :: d

/-- §7: exception response = function code with the top bit set, then the exception code -/
def excBytes (function : UInt8) (code : UInt8) : List UInt8 := [function + 0x80, code]

/-- the nine exception codes the specification defines -/
def excCodes : List UInt8 := [1, 2, 3, 4, 5, 6, 8, 10, 11]

/-- payload sizes whose byte count fits the one-byte count field -/
def ReqMeaning.fits : ReqMeaning → Prop
  | .writeMultipleCoils _ coils => 1 ≤ coils.length ∧ (coils.length + 7) / 8 ≤ 255
  | .writeMultipleRegisters _ ws => 1 ≤ ws.length ∧ 2 * ws.length ≤ 255
  | .readWriteMultipleRegisters _ _ _ ws => 1 ≤ ws.length ∧ 2 * ws.length ≤ 255
  | _ => True

def RspMeaning.fits : RspMeaning → Prop
  | .readCoils coils | .readDiscreteInputs coils => 1 ≤ coils.length ∧ (coils.length + 7) / 8 ≤ 255
  | .readHoldingRegisters ws | .readInputRegisters ws | .readWriteMultipleRegisters ws =>
      1 ≤ ws.length ∧ 2 * ws.length ≤ 255
  | _ => True

end Modbus.Spec

import Modbus.Spec.Lengths
import Modbus.Spec.Wire
import Modbus.Model.Crc
/-
Byte-level statement of a well-formed RTU / TCP frame, independent of the crate's encoders:
the PDU is complete according to the specification's length table, and it is wrapped as the
serial-line / MBAP framing prescribes.  The RTU checksum here is the model's `crc16`; that it is
CRC-16/MODBUS is property C06 (`be16 (crc16 m) = Spec.crcWire m`).
-/
namespace Modbus.Spec

/-- the PDU is exactly as long as the length table says (so its function code is a known one) -/
def PduComplete (d : Dir) (pdu : List UInt8) : Prop := predict 0 d pdu = .len pdu.length

/-- RTU: slave id, PDU, CRC-16 of both with the low-order byte first -/
def rtuFrame (slave : UInt8) (pdu : List UInt8) : List UInt8 :=
  slave :: pdu ++ Modbus.be16 (Modbus.crc16 (slave :: pdu))

/-- MBAP: transaction id, protocol id 0, length = PDU length + 1 (the unit id counts), unit id, PDU -/
def tcpFrame (tid : UInt16) (uid : UInt8) (pdu : List UInt8) : List UInt8 :=
  word tid ++ [0, 0] ++ word (UInt16.ofNat (pdu.length + 1)) ++ [uid] ++ pdu

/-- a well-formed RTU frame in direction `d` -/
def WellFormedRtu (d : Dir) (f : List UInt8) : Prop :=
  ∃ slave pdu, PduComplete d pdu ∧ f = rtuFrame slave pdu

/-- a well-formed TCP frame in direction `d` (the length field must be representable) -/
def WellFormedTcp (d : Dir) (f : List UInt8) : Prop :=
  ∃ tid uid pdu, PduComplete d pdu ∧ pdu.length + 1 < 65536 ∧ f = tcpFrame tid uid pdu

end Modbus.Spec

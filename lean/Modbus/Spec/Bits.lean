/-
Independent statement of Modbus coil packing (Application Protocol v1.1b3 §6.1, §6.11):
coil `i` is bit `i mod 8` of byte `i div 8`; unused bits of the last byte are zero.
Written arithmetically, sharing nothing with the model's loops.
-/
namespace Modbus.Spec

/-- value of byte `k` of the packed field: Σ_{j<8} [8k+j < n ∧ coil (8k+j)] · 2^j -/
def packedByte (coils : List Bool) (k : Nat) : Nat :=
  (List.range 8).foldl (fun acc j => acc + (if (coils.getD (8 * k + j) false) then 2 ^ j else 0)) 0

/-- the packed field: ⌈n/8⌉ bytes -/
def packBits (coils : List Bool) : List UInt8 :=
  (List.range ((coils.length + 7) / 8)).map fun k => UInt8.ofNat (packedByte coils k)

/-- big-endian serialisation of a list of 16-bit words -/
def wordsBE (ws : List UInt16) : List UInt8 :=
  ws.flatMap fun w => [UInt8.ofNat (w.toNat / 256), UInt8.ofNat (w.toNat % 256)]

end Modbus.Spec

/-
Independent statement of CRC-16/MODBUS (Modbus over Serial Line v1.02 §2.5.1.2 / the catalogue
entry CRC-16/MODBUS: width 16, poly 0x8005, init 0xFFFF, refin, refout, xorout 0, check 0x4B37),
as a bit-serial LFSR over the message bits, least-significant bit of each byte first.
-/
namespace Modbus.Spec

/-- one LFSR step: shift right; feed back 0xA001 (the reflected 0x8005) when the bit shifted out,
xor the incoming message bit, is 1 -/
def lfsrStep (s : BitVec 16) (b : Bool) : BitVec 16 :=
  if (s.getLsbD 0 ^^ b) then (s >>> 1) ^^^ 0xA001#16 else s >>> 1

/-- the bits of a byte, least-significant first -/
def bitsLSB (x : UInt8) : List Bool := (List.range 8).map fun i => x.toNat.testBit i

/-- the message as a bit string in transmission order -/
def messageBits (msg : List UInt8) : List Bool := msg.flatMap bitsLSB

/-- feed a bit string to the register -/
def feed (s : BitVec 16) (w : List Bool) : BitVec 16 := w.foldl lfsrStep s

/-- CRC-16/MODBUS of a message: register initialised to 0xFFFF, every message bit fed, no final xor -/
def crc16Modbus (msg : List UInt8) : BitVec 16 := feed 0xFFFF#16 (messageBits msg)

/-- the two CRC bytes in wire order: low-order byte first -/
def crcWire (msg : List UInt8) : List UInt8 :=
  let c := (crc16Modbus msg).toNat
  [UInt8.ofNat (c % 256), UInt8.ofNat (c / 256)]

end Modbus.Spec

import Modbus.Model.Rtu
import Modbus.Model.Tcp
import Modbus.Spec.Lengths
import Modbus.Lemmas.Basic
import Modbus.Lemmas.Bytes
import Modbus.Lemmas.Scan
import Modbus.Lemmas.TcpHeader
import Modbus.Lemmas.Reception3
import Modbus.Lemmas.Total
import Modbus.Props.C08
import Modbus.Props.C09
/-
C14 — resynchronisation after line noise, and bounded give-up.

The generic theory of the scan loop is in `Modbus/Lemmas/Scan.lean` (`scan_spec`, `scan_found`,
`scan_no_later`, `scan_gives_up`, …), for an arbitrary per-offset attempt.  This file instantiates it for
the four real scanners `rtu::decode` / `tcp::decode` × request / response, gives, per transport and
direction, a syntactic sufficient condition for "this noise offset is rejected", and the resulting
resynchronisation theorems whose hypotheses mention only the bytes of the noise.

Reading of the property (DESIGN.md §6 C14):
* "noise that cannot itself be read as a plausible frame start" = the attempt at every noise offset,
  in context, is an error (that is what the code can observe); sufficient: the byte the predictor
  reads as function code at that offset is not a function code it knows;
  for TCP, since the repair of `tcp::decode` (header checked as soon as visible), also: the two bytes
  the offset reads as protocol identifier are not both zero — `tcp_attempt_rejects_bad_protocol`,
  `tcp_attempt_rejects_bad_length`, `tcp_*_resync_stray`, `tcp_*_resync_nonzero_noise`,
  `tcp_gives_up_nonzero_protocol`; what is still answered 'incomplete' although refutable:
  `tcp_req_stray_still_waits_witness`, `tcp_req_stray_still_waits_common_witness`;
* clause 3 carries the premise `buf.length ≥ 257`: with at most 256 bytes and every offset rejected the
  scanner says "incomplete" by design (`*_incomplete_short`), a unit test of the crate asserts it.
-/
namespace Modbus.C14

/-! ### Function codes the length predictors know -/

/-- function codes `request_pdu_len` knows (both transports) -/
def reqKnown (c : UInt8) : Bool :=
  [0x01, 0x02, 0x03, 0x04, 0x05, 0x06, 0x07, 0x0B, 0x0C, 0x0F, 0x10, 0x11, 0x16, 0x17, 0x18].contains c

/-- function codes `response_pdu_len` knows (both transports): the request codes except 0x11, and the
exception range 0x81 ..= 0xAB -/
def rspKnown (c : UInt8) : Bool :=
  [0x01, 0x02, 0x03, 0x04, 0x05, 0x06, 0x07, 0x0B, 0x0C, 0x0F, 0x10, 0x16, 0x17, 0x18].contains c
    || (0x81 ≤ c && c ≤ 0xAB)

/-- `reqKnown` is exactly "the specification's length table has an entry" -/
theorem reqKnown_iff_spec (c : UInt8) : reqKnown c = false ↔ Spec.lenRule .req c.toNat = .unknown := by
  revert c; apply byte_cases; decide +kernel

theorem rspKnown_iff_spec (c : UInt8) : rspKnown c = false ↔ Spec.lenRule .rsp c.toNat = .unknown := by
  revert c; apply byte_cases; decide +kernel

theorem reqKnown_false (c : UInt8) (h : reqKnown c = false) :
    ¬ (0x01 ≤ c ∧ c ≤ 0x06) ∧ ¬ (c = 0x07 ∨ c = 0x0B ∨ c = 0x0C ∨ c = 0x11) ∧ ¬ (c = 0x0F ∨ c = 0x10) ∧
    ¬ c = 0x16 ∧ ¬ c = 0x18 ∧ ¬ c = 0x17 := by
  revert h; revert c; apply byte_cases; decide +kernel

theorem rspKnown_false (c : UInt8) (h : rspKnown c = false) :
    ¬ ((0x01 ≤ c ∧ c ≤ 0x04) ∨ c = 0x0C ∨ c = 0x17) ∧
    ¬ (c = 0x05 ∨ c = 0x06 ∨ c = 0x0B ∨ c = 0x0F ∨ c = 0x10) ∧
    ¬ (c = 0x07 ∨ (0x81 ≤ c ∧ c ≤ 0xAB)) ∧ ¬ c = 0x16 ∧ ¬ c = 0x18 := by
  revert h; revert c; apply byte_cases; decide +kernel

/-! ### Syntactic sufficient conditions for "this offset is rejected" -/

/-- RTU, request direction: the second byte is not a known function code ⇒ error -/
theorem rtu_req_reject (raw : Bytes) (c : UInt8) (h1 : raw[1]? = some c) (hc : reqKnown c = false) :
    Rtu.attemptReq raw = .err (.fnCode c) := by
  apply mkAttempt_predict_err
  have hl : 1 < raw.length := by
    rcases Nat.lt_or_ge 1 raw.length with h | h
    · exact h
    · rw [List.getElem?_eq_none h] at h1; cases h1
  have hi : idx raw 1 = .ok c := by
    rw [idx_eq_ok hl]; rw [List.getElem?_eq_getElem hl] at h1; rw [Option.some.inj h1]
  obtain ⟨k1, k2, k3, k4, k5, k6⟩ := reqKnown_false c hc
  unfold Rtu.requestPduLen
  rw [if_neg (by omega), hi]
  simp only [Res.bind'_ok]
  rw [if_neg k1, if_neg k2, if_neg k3, if_neg k4, if_neg k5, if_neg k6]

/-- RTU, response direction -/
theorem rtu_rsp_reject (raw : Bytes) (c : UInt8) (h1 : raw[1]? = some c) (hc : rspKnown c = false) :
    Rtu.attemptRsp raw = .err (.fnCode c) := by
  apply mkAttempt_predict_err
  have hl : 1 < raw.length := by
    rcases Nat.lt_or_ge 1 raw.length with h | h
    · exact h
    · rw [List.getElem?_eq_none h] at h1; cases h1
  have hi : idx raw 1 = .ok c := by
    rw [idx_eq_ok hl]; rw [List.getElem?_eq_getElem hl] at h1; rw [Option.some.inj h1]
  obtain ⟨k1, k2, k3, k4, k5⟩ := rspKnown_false c hc
  unfold Rtu.responsePduLen
  rw [if_neg (by omega), hi]
  simp only [Res.bind'_ok]
  rw [if_neg k1, if_neg k2, if_neg k3, if_neg k4, if_neg k5]

/-- the TCP request predictor rejects an eighth byte that is not a known function code -/
theorem tcp_requestPduLen_reject (raw : Bytes) (c : UInt8) (h7 : raw[7]? = some c) (hc : reqKnown c = false) :
    Tcp.requestPduLen raw = .err (.fnCode c) := by
  have hl : 7 < raw.length := by
    rcases Nat.lt_or_ge 7 raw.length with h | h
    · exact h
    · rw [List.getElem?_eq_none h] at h7; cases h7
  have hi : idx raw 7 = .ok c := by
    rw [idx_eq_ok hl]; rw [List.getElem?_eq_getElem hl] at h7; rw [Option.some.inj h7]
  obtain ⟨k1, k2, k3, k4, k5, k6⟩ := reqKnown_false c hc
  unfold Tcp.requestPduLen
  rw [if_neg (by omega), hi]
  simp only [Res.bind'_ok]
  rw [if_neg k1, if_neg k2, if_neg k3, if_neg k4, if_neg k5, if_neg k6]

theorem tcp_responsePduLen_reject (raw : Bytes) (c : UInt8) (h7 : raw[7]? = some c) (hc : rspKnown c = false) :
    Tcp.responsePduLen raw = .err (.fnCode c) := by
  have hl : 7 < raw.length := by
    rcases Nat.lt_or_ge 7 raw.length with h | h
    · exact h
    · rw [List.getElem?_eq_none h] at h7; cases h7
  have hi : idx raw 7 = .ok c := by
    rw [idx_eq_ok hl]; rw [List.getElem?_eq_getElem hl] at h7; rw [Option.some.inj h7]
  obtain ⟨k1, k2, k3, k4, k5⟩ := rspKnown_false c hc
  unfold Tcp.responsePduLen
  rw [if_neg (by omega), hi]
  simp only [Res.bind'_ok]
  rw [if_neg k1, if_neg k2, if_neg k3, if_neg k4, if_neg k5]

/-- a TCP attempt whose predictor rejects the function code byte: the attempt is an error, namely the
predictor's if the protocol identifier (bytes 2, 3) is 0 and `ProtocolNotModbus` otherwise -/
theorem tcp_attempt_reject (pred : Bytes → Res (Option Nat)) (raw : Bytes) (c : UInt8)
    (h7 : raw[7]? = some c) (hp : pred raw = .err (.fnCode c)) :
    (raw[2]? = some 0 ∧ raw[3]? = some 0 ∧ Tcp.attemptOf pred raw = .err (.fnCode c)) ∨
    (¬ (raw[2]? = some 0 ∧ raw[3]? = some 0) ∧ ∃ p, Tcp.attemptOf pred raw = .err (.protocolNotModbus p)) := by
  have hl : 7 < raw.length := by
    rcases Nat.lt_or_ge 7 raw.length with h | h
    · exact h
    · rw [List.getElem?_eq_none h] at h7; cases h7
  have e2 : raw[2]? = some raw[2] := List.getElem?_eq_getElem (by omega)
  have e3 : raw[3]? = some raw[3] := List.getElem?_eq_getElem (by omega)
  rcases Tcp.checkProtocolId_cases raw with hc | ⟨_, hb, hc⟩
  · left
    obtain ⟨z2, z3⟩ := (Tcp.checkProtocolId_eq_ok_iff raw).1 hc (by omega)
    refine ⟨by rw [e2, z2], by rw [e3, z3], ?_⟩
    rw [Tcp.attemptOf_proto_ok _ hc]
    exact mkAttempt_predict_err _ _ _ _ _ hp
  · right
    refine ⟨?_, _, Tcp.attemptOf_proto_err _ hc⟩
    rw [e2, e3]
    intro h
    exact hb ⟨Option.some.inj h.1, Option.some.inj h.2⟩

/-- TCP, request direction: the eighth byte (function code position after the 7-byte MBAP header) is
not a known function code ⇒ error: `FnCode` if the protocol identifier read at bytes 2, 3 is 0, else
`ProtocolNotModbus` (since the repair of `tcp::decode` the identifier is checked first; before it the
conclusion was `= .err (.fnCode c)` unconditionally) -/
theorem tcp_req_reject (raw : Bytes) (c : UInt8) (h7 : raw[7]? = some c) (hc : reqKnown c = false) :
    (raw[2]? = some 0 ∧ raw[3]? = some 0 ∧ Tcp.attemptReq raw = .err (.fnCode c)) ∨
    (¬ (raw[2]? = some 0 ∧ raw[3]? = some 0) ∧ ∃ p, Tcp.attemptReq raw = .err (.protocolNotModbus p)) :=
  tcp_attempt_reject Tcp.requestPduLen raw c h7 (tcp_requestPduLen_reject raw c h7 hc)

/-- TCP, response direction -/
theorem tcp_rsp_reject (raw : Bytes) (c : UInt8) (h7 : raw[7]? = some c) (hc : rspKnown c = false) :
    (raw[2]? = some 0 ∧ raw[3]? = some 0 ∧ Tcp.attemptRsp raw = .err (.fnCode c)) ∨
    (¬ (raw[2]? = some 0 ∧ raw[3]? = some 0) ∧ ∃ p, Tcp.attemptRsp raw = .err (.protocolNotModbus p)) :=
  tcp_attempt_reject Tcp.responsePduLen raw c h7 (tcp_responsePduLen_reject raw c h7 hc)

/-- either way the offset is rejected -/
theorem tcp_req_reject_isErr (raw : Bytes) (c : UInt8) (h7 : raw[7]? = some c) (hc : reqKnown c = false) :
    (Tcp.attemptReq raw).isErr = true := by
  rcases tcp_req_reject raw c h7 hc with ⟨_, _, h⟩ | ⟨_, _, h⟩ <;> rw [h] <;> rfl

theorem tcp_rsp_reject_isErr (raw : Bytes) (c : UInt8) (h7 : raw[7]? = some c) (hc : rspKnown c = false) :
    (Tcp.attemptRsp raw).isErr = true := by
  rcases tcp_rsp_reject raw c h7 hc with ⟨_, _, h⟩ | ⟨_, _, h⟩ <;> rw [h] <;> rfl

example : Rtu.attemptReq [0x42, 0x42, 0x11] = .err (.fnCode 0x42) :=
  rtu_req_reject _ 0x42 (by decide) (by decide)
example : Tcp.attemptRsp [0, 1, 0, 0, 4, 5, 6, 0x11] = .err (.fnCode 0x11) := by
  rcases tcp_rsp_reject [0, 1, 0, 0, 4, 5, 6, 0x11] 0x11 (by decide) (by decide) with ⟨_, _, h⟩ | ⟨h, _⟩
  · exact h
  · exact absurd (by decide) h
example : Tcp.attemptRsp [0, 1, 2, 3, 4, 5, 6, 0x11] = .err (.protocolNotModbus 0x0203) := by decide +kernel
example : (Tcp.attemptRsp [0, 1, 2, 3, 4, 5, 6, 0x11]).isErr = true :=
  tcp_rsp_reject_isErr _ 0x11 (by decide) (by decide)

/-- the other way a noise offset is rejected on RTU: a known function code whose predicted frame is all
there but fails the CRC (this is what happens at the last noise byte in the 0x42 examples below) -/
example : Rtu.attemptReq [0x42, 0x11, 0x01, 0x00, 0x01] = .err (.crc 0x0100 0xF11C) := by decide +kernel

/-- frames reported by an attempt are at least as long as the overhead -/
theorem rtu_req_size (raw : Bytes) (f : Rtu.Frame) (sz : Nat)
    (h : Rtu.attemptReq raw = .ok (some (f, sz))) : 3 ≤ sz ∧ sz ≤ raw.length := by
  obtain ⟨hs, he⟩ := C08.rtu_attemptReq_sound raw f sz h
  obtain ⟨hl, _⟩ := C08.rtu_extract_sound _ _ _ he
  omega

theorem rtu_rsp_size (raw : Bytes) (f : Rtu.Frame) (sz : Nat)
    (h : Rtu.attemptRsp raw = .ok (some (f, sz))) : 3 ≤ sz ∧ sz ≤ raw.length := by
  obtain ⟨hs, he⟩ := C08.rtu_attemptRsp_sound raw f sz h
  obtain ⟨hl, _⟩ := C08.rtu_extract_sound _ _ _ he
  omega

theorem tcp_req_size (raw : Bytes) (f : Tcp.Frame) (sz : Nat)
    (h : Tcp.attemptReq raw = .ok (some (f, sz))) : 7 ≤ sz ∧ sz ≤ raw.length := by
  obtain ⟨hs, he⟩ := C09.tcp_attemptReq_sound raw f sz h
  obtain ⟨hl, _⟩ := C09.tcp_extract_sound _ _ _ he
  omega

theorem tcp_rsp_size (raw : Bytes) (f : Tcp.Frame) (sz : Nat)
    (h : Tcp.attemptRsp raw = .ok (some (f, sz))) : 7 ≤ sz ∧ sz ≤ raw.length := by
  obtain ⟨hs, he⟩ := C09.tcp_attemptRsp_sound raw f sz h
  obtain ⟨hl, _⟩ := C09.tcp_extract_sound _ _ _ he
  omega

/-- the bytes the predictor looks at from the noise offsets, RTU: offset `i < noise.length` reads byte
`i + 1` of the buffer, which is a byte of `(noise ++ frame.take 1).drop 1` -/
theorem noise_byte_mem (k : Nat) (noise frame rest : Bytes) (i : Nat) (hi : i < noise.length)
    (hk : k ≤ frame.length) :
    ∃ c, ((noise ++ frame ++ rest).drop i)[k]? = some c ∧ c ∈ (noise ++ frame.take k).drop k := by
  have hlen : (noise ++ frame.take k).length = noise.length + k := by
    rw [List.length_append, List.length_take]; omega
  have hik : i + k < (noise ++ frame.take k).length := by omega
  refine ⟨(noise ++ frame.take k)[i + k], ?_, ?_⟩
  · have hsplit : noise ++ frame ++ rest = (noise ++ frame.take k) ++ (frame.drop k ++ rest) := by
      conv => lhs; rw [← List.take_append_drop k frame]
      simp only [List.append_assoc]
    rw [List.getElem?_drop, hsplit, List.getElem?_append_left hik, List.getElem?_eq_getElem hik]
  · have hd : i < ((noise ++ frame.take k).drop k).length := by rw [List.length_drop]; omega
    have : ((noise ++ frame.take k).drop k)[i] = (noise ++ frame.take k)[i + k] := by
      rw [List.getElem_drop]; congr 1; omega
    rw [← this]
    exact List.getElem_mem hd

/-! ### `rtu::decode(Request, buf)` -/

/-- complete characterisation of `rtu::decode(Request, buf)` on a non-empty buffer: the first offset `d` among
`0 .. min (buf.length - 2) 255` whose attempt is not an error decides (`ok none ↦ ok none`, a frame of
size `sz` ↦ that frame at `⟨d, sz⟩`, `panic ↦ panic`); if all are errors: the error of offset 255 when
`buf.length ≥ 257`, else `ok none` -/
theorem rtu_req_spec (buf : Bytes) (hne : buf ≠ []) :
    (∃ d, d ≤ 255 ∧ d + 1 < buf.length ∧
        (∀ i, i < d → (Rtu.attemptReq (buf.drop i)).isErr = true) ∧
        ¬ (Rtu.attemptReq (buf.drop d)).isErr = true ∧
        Rtu.decodeReq buf = Attempt.place d (Rtu.attemptReq (buf.drop d)))
    ∨ ((∀ i, i ≤ 255 → i + 1 < buf.length → (Rtu.attemptReq (buf.drop i)).isErr = true) ∧
        ((257 ≤ buf.length ∧ ∃ e, Rtu.attemptReq (buf.drop 255) = .err e ∧ Rtu.decodeReq buf = .err e)
          ∨ (buf.length ≤ 256 ∧ Rtu.decodeReq buf = .ok none))) :=
  scan_spec Rtu.attemptReq buf hne

/-- clause 1: up to 255 noise bytes whose offsets are all rejected in context, then a frame (then
anything): exactly that frame, with `start = noise.length` -/
theorem rtu_req_found (noise frame rest : Bytes) (f : Rtu.Frame)
    (hn : noise.length ≤ 255)
    (herr : ∀ i, i < noise.length → (Rtu.attemptReq ((noise ++ frame ++ rest).drop i)).isErr = true)
    (hatt : Rtu.attemptReq (frame ++ rest) = .ok (some (f, frame.length))) :
    Rtu.decodeReq (noise ++ frame ++ rest) = .ok (some (f, ⟨noise.length, frame.length⟩)) :=
  scan_found Rtu.attemptReq noise frame rest f hn (by have := (rtu_req_size _ _ _ hatt).1; omega) herr hatt

/-- clause 1 with a hypothesis on the noise bytes only: every noise byte but the first, and the frame's slave id, is not a known function code -/
theorem rtu_req_resync (noise frame rest : Bytes) (f : Rtu.Frame)
    (hn : noise.length ≤ 255)
    (hnoise : ∀ c, c ∈ (noise ++ frame.take 1).drop 1 → reqKnown c = false)
    (hatt : Rtu.attemptReq (frame ++ rest) = .ok (some (f, frame.length))) :
    Rtu.decodeReq (noise ++ frame ++ rest) = .ok (some (f, ⟨noise.length, frame.length⟩)) := by
  apply rtu_req_found noise frame rest f hn _ hatt
  intro i hi
  obtain ⟨c, hc1, hc2⟩ := noise_byte_mem 1 noise frame rest i hi (by have := (rtu_req_size _ _ _ hatt).1; omega)
  rw [rtu_req_reject _ c hc1 (hnoise c hc2)]; rfl

/-- clause 2: a reported frame starts within the first 256 offsets, the attempt at its start produced
it, and every earlier offset was rejected (so none of them starts a complete well-formed frame) -/
theorem rtu_req_no_later (buf : Bytes) (f : Rtu.Frame) (loc : Loc)
    (h : Rtu.decodeReq buf = .ok (some (f, loc))) :
    loc.start < 256 ∧ loc.start + 1 < buf.length ∧
    Rtu.attemptReq (buf.drop loc.start) = .ok (some (f, loc.size)) ∧
    ∀ d, d < loc.start → (Rtu.attemptReq (buf.drop d)).isErr = true :=
  scan_no_later Rtu.attemptReq buf f loc h

/-- clause 2 in the property's words: if a complete frame (or anything that is not rejected) starts at
offset `d`, the reported frame does not start after `d` -/
theorem rtu_req_not_after (buf : Bytes) (f : Rtu.Frame) (loc : Loc) (d : Nat)
    (h : Rtu.decodeReq buf = .ok (some (f, loc))) (hd : ¬ (Rtu.attemptReq (buf.drop d)).isErr = true) :
    loc.start ≤ d :=
  scan_not_after Rtu.attemptReq buf f loc d h hd

/-- clause 3: at least 257 bytes and none of the first 256 offsets can start a frame ⇒ an error (that
of offset 255), never "incomplete" -/
theorem rtu_req_gives_up (buf : Bytes) (hl : 257 ≤ buf.length)
    (herr : ∀ d, d < 256 → (Rtu.attemptReq (buf.drop d)).isErr = true) :
    ∃ e, Rtu.attemptReq (buf.drop 255) = .err e ∧ Rtu.decodeReq buf = .err e :=
  scan_gives_up_err Rtu.attemptReq buf hl herr

/-- clause 3 with a hypothesis on the bytes only: 256 consecutive bytes from offset 1, none a known
function code ⇒ error -/
theorem rtu_req_gives_up_unknown (buf : Bytes) (hl : 257 ≤ buf.length)
    (hnoise : ∀ i, i < 256 → ∀ c, buf[i + 1]? = some c → reqKnown c = false) :
    (Rtu.decodeReq buf).isErr = true := by
  apply scan_gives_up Rtu.attemptReq buf (by omega)
  intro d hd
  have hlt : d + 1 < buf.length := by omega
  have hc : (buf.drop d)[1]? = some buf[d + 1] := by
    rw [List.getElem?_drop, List.getElem?_eq_getElem hlt]
  rw [rtu_req_reject _ _ hc (hnoise d hd _ (List.getElem?_eq_getElem hlt))]; rfl

/-- clause 3 as an equivalence: an error **exactly** when the buffer is empty, or has at least 257 bytes
and all of the first 256 offsets are rejected — in particular never when a frame could start there -/
theorem rtu_req_err_iff (buf : Bytes) :
    (Rtu.decodeReq buf).isErr = true ↔
      buf = [] ∨ (257 ≤ buf.length ∧ ∀ d, d < 256 → (Rtu.attemptReq (buf.drop d)).isErr = true) :=
  scan_isErr_iff Rtu.attemptReq buf

/-- the complementary case: every examined offset rejected, at most 256 bytes ⇒ "incomplete" -/
theorem rtu_req_incomplete_short (buf : Bytes) (hne : buf ≠ []) (hl : buf.length ≤ 256)
    (herr : ∀ d, d + 1 < buf.length → (Rtu.attemptReq (buf.drop d)).isErr = true) :
    Rtu.decodeReq buf = .ok none :=
  scan_incomplete_short Rtu.attemptReq buf hne hl herr

/-- a frame at the front is found at start 0 whatever follows -/
theorem rtu_req_at_zero (buf : Bytes) (f : Rtu.Frame) (sz : Nat)
    (hatt : Rtu.attemptReq buf = .ok (some (f, sz))) :
    Rtu.decodeReq buf = .ok (some (f, ⟨0, sz⟩)) :=
  scan_at_zero Rtu.attemptReq buf f sz hatt (by have := rtu_req_size _ _ _ hatt; omega)

/-- an incomplete frame at the front of a non-empty buffer ⇒ "incomplete" -/
theorem rtu_req_prefix_none (buf : Bytes) (hatt : Rtu.attemptReq buf = .ok none) (hne : buf ≠ []) :
    Rtu.decodeReq buf = .ok none :=
  scan_prefix_none' Rtu.attemptReq buf hatt hne

/-- a single byte is never examined -/
theorem rtu_req_short (buf : Bytes) (hl : buf.length = 1) : Rtu.decodeReq buf = .ok none :=
  scan_short Rtu.attemptReq buf hl

/-- the empty buffer is an error -/
theorem rtu_req_empty : Rtu.decodeReq [] = .err .bufferSize := rfl

/-- the scanner panics exactly when the attempt at the first non-rejected offset does -/
theorem rtu_req_panic_iff (buf : Bytes) :
    Rtu.decodeReq buf = .panic ↔
      ∃ d, d ≤ 255 ∧ d + 1 < buf.length ∧ (∀ i, i < d → (Rtu.attemptReq (buf.drop i)).isErr = true) ∧
        Rtu.attemptReq (buf.drop d) = .panic :=
  scan_panic_iff Rtu.attemptReq buf

/-! ### `rtu::decode(Response, buf)` -/

/-- complete characterisation of `rtu::decode(Response, buf)` on a non-empty buffer: the first offset `d` among
`0 .. min (buf.length - 2) 255` whose attempt is not an error decides (`ok none ↦ ok none`, a frame of
size `sz` ↦ that frame at `⟨d, sz⟩`, `panic ↦ panic`); if all are errors: the error of offset 255 when
`buf.length ≥ 257`, else `ok none` -/
theorem rtu_rsp_spec (buf : Bytes) (hne : buf ≠ []) :
    (∃ d, d ≤ 255 ∧ d + 1 < buf.length ∧
        (∀ i, i < d → (Rtu.attemptRsp (buf.drop i)).isErr = true) ∧
        ¬ (Rtu.attemptRsp (buf.drop d)).isErr = true ∧
        Rtu.decodeRsp buf = Attempt.place d (Rtu.attemptRsp (buf.drop d)))
    ∨ ((∀ i, i ≤ 255 → i + 1 < buf.length → (Rtu.attemptRsp (buf.drop i)).isErr = true) ∧
        ((257 ≤ buf.length ∧ ∃ e, Rtu.attemptRsp (buf.drop 255) = .err e ∧ Rtu.decodeRsp buf = .err e)
          ∨ (buf.length ≤ 256 ∧ Rtu.decodeRsp buf = .ok none))) :=
  scan_spec Rtu.attemptRsp buf hne

/-- clause 1: up to 255 noise bytes whose offsets are all rejected in context, then a frame (then
anything): exactly that frame, with `start = noise.length` -/
theorem rtu_rsp_found (noise frame rest : Bytes) (f : Rtu.Frame)
    (hn : noise.length ≤ 255)
    (herr : ∀ i, i < noise.length → (Rtu.attemptRsp ((noise ++ frame ++ rest).drop i)).isErr = true)
    (hatt : Rtu.attemptRsp (frame ++ rest) = .ok (some (f, frame.length))) :
    Rtu.decodeRsp (noise ++ frame ++ rest) = .ok (some (f, ⟨noise.length, frame.length⟩)) :=
  scan_found Rtu.attemptRsp noise frame rest f hn (by have := (rtu_rsp_size _ _ _ hatt).1; omega) herr hatt

/-- clause 1 with a hypothesis on the noise bytes only: every noise byte but the first, and the frame's slave id, is not a known function code -/
theorem rtu_rsp_resync (noise frame rest : Bytes) (f : Rtu.Frame)
    (hn : noise.length ≤ 255)
    (hnoise : ∀ c, c ∈ (noise ++ frame.take 1).drop 1 → rspKnown c = false)
    (hatt : Rtu.attemptRsp (frame ++ rest) = .ok (some (f, frame.length))) :
    Rtu.decodeRsp (noise ++ frame ++ rest) = .ok (some (f, ⟨noise.length, frame.length⟩)) := by
  apply rtu_rsp_found noise frame rest f hn _ hatt
  intro i hi
  obtain ⟨c, hc1, hc2⟩ := noise_byte_mem 1 noise frame rest i hi (by have := (rtu_rsp_size _ _ _ hatt).1; omega)
  rw [rtu_rsp_reject _ c hc1 (hnoise c hc2)]; rfl

/-- clause 2: a reported frame starts within the first 256 offsets, the attempt at its start produced
it, and every earlier offset was rejected (so none of them starts a complete well-formed frame) -/
theorem rtu_rsp_no_later (buf : Bytes) (f : Rtu.Frame) (loc : Loc)
    (h : Rtu.decodeRsp buf = .ok (some (f, loc))) :
    loc.start < 256 ∧ loc.start + 1 < buf.length ∧
    Rtu.attemptRsp (buf.drop loc.start) = .ok (some (f, loc.size)) ∧
    ∀ d, d < loc.start → (Rtu.attemptRsp (buf.drop d)).isErr = true :=
  scan_no_later Rtu.attemptRsp buf f loc h

/-- clause 2 in the property's words: if a complete frame (or anything that is not rejected) starts at
offset `d`, the reported frame does not start after `d` -/
theorem rtu_rsp_not_after (buf : Bytes) (f : Rtu.Frame) (loc : Loc) (d : Nat)
    (h : Rtu.decodeRsp buf = .ok (some (f, loc))) (hd : ¬ (Rtu.attemptRsp (buf.drop d)).isErr = true) :
    loc.start ≤ d :=
  scan_not_after Rtu.attemptRsp buf f loc d h hd

/-- clause 3: at least 257 bytes and none of the first 256 offsets can start a frame ⇒ an error (that
of offset 255), never "incomplete" -/
theorem rtu_rsp_gives_up (buf : Bytes) (hl : 257 ≤ buf.length)
    (herr : ∀ d, d < 256 → (Rtu.attemptRsp (buf.drop d)).isErr = true) :
    ∃ e, Rtu.attemptRsp (buf.drop 255) = .err e ∧ Rtu.decodeRsp buf = .err e :=
  scan_gives_up_err Rtu.attemptRsp buf hl herr

/-- clause 3 with a hypothesis on the bytes only: 256 consecutive bytes from offset 1, none a known
function code ⇒ error -/
theorem rtu_rsp_gives_up_unknown (buf : Bytes) (hl : 257 ≤ buf.length)
    (hnoise : ∀ i, i < 256 → ∀ c, buf[i + 1]? = some c → rspKnown c = false) :
    (Rtu.decodeRsp buf).isErr = true := by
  apply scan_gives_up Rtu.attemptRsp buf (by omega)
  intro d hd
  have hlt : d + 1 < buf.length := by omega
  have hc : (buf.drop d)[1]? = some buf[d + 1] := by
    rw [List.getElem?_drop, List.getElem?_eq_getElem hlt]
  rw [rtu_rsp_reject _ _ hc (hnoise d hd _ (List.getElem?_eq_getElem hlt))]; rfl

/-- clause 3 as an equivalence: an error **exactly** when the buffer is empty, or has at least 257 bytes
and all of the first 256 offsets are rejected — in particular never when a frame could start there -/
theorem rtu_rsp_err_iff (buf : Bytes) :
    (Rtu.decodeRsp buf).isErr = true ↔
      buf = [] ∨ (257 ≤ buf.length ∧ ∀ d, d < 256 → (Rtu.attemptRsp (buf.drop d)).isErr = true) :=
  scan_isErr_iff Rtu.attemptRsp buf

/-- the complementary case: every examined offset rejected, at most 256 bytes ⇒ "incomplete" -/
theorem rtu_rsp_incomplete_short (buf : Bytes) (hne : buf ≠ []) (hl : buf.length ≤ 256)
    (herr : ∀ d, d + 1 < buf.length → (Rtu.attemptRsp (buf.drop d)).isErr = true) :
    Rtu.decodeRsp buf = .ok none :=
  scan_incomplete_short Rtu.attemptRsp buf hne hl herr

/-- a frame at the front is found at start 0 whatever follows -/
theorem rtu_rsp_at_zero (buf : Bytes) (f : Rtu.Frame) (sz : Nat)
    (hatt : Rtu.attemptRsp buf = .ok (some (f, sz))) :
    Rtu.decodeRsp buf = .ok (some (f, ⟨0, sz⟩)) :=
  scan_at_zero Rtu.attemptRsp buf f sz hatt (by have := rtu_rsp_size _ _ _ hatt; omega)

/-- an incomplete frame at the front of a non-empty buffer ⇒ "incomplete" -/
theorem rtu_rsp_prefix_none (buf : Bytes) (hatt : Rtu.attemptRsp buf = .ok none) (hne : buf ≠ []) :
    Rtu.decodeRsp buf = .ok none :=
  scan_prefix_none' Rtu.attemptRsp buf hatt hne

/-- a single byte is never examined -/
theorem rtu_rsp_short (buf : Bytes) (hl : buf.length = 1) : Rtu.decodeRsp buf = .ok none :=
  scan_short Rtu.attemptRsp buf hl

/-- the empty buffer is an error -/
theorem rtu_rsp_empty : Rtu.decodeRsp [] = .err .bufferSize := rfl

/-- the scanner panics exactly when the attempt at the first non-rejected offset does -/
theorem rtu_rsp_panic_iff (buf : Bytes) :
    Rtu.decodeRsp buf = .panic ↔
      ∃ d, d ≤ 255 ∧ d + 1 < buf.length ∧ (∀ i, i < d → (Rtu.attemptRsp (buf.drop i)).isErr = true) ∧
        Rtu.attemptRsp (buf.drop d) = .panic :=
  scan_panic_iff Rtu.attemptRsp buf

/-! ### `tcp::decode(Request, buf)` -/

/-- complete characterisation of `tcp::decode(Request, buf)` on a non-empty buffer: the first offset `d` among
`0 .. min (buf.length - 2) 255` whose attempt is not an error decides (`ok none ↦ ok none`, a frame of
size `sz` ↦ that frame at `⟨d, sz⟩`, `panic ↦ panic`); if all are errors: the error of offset 255 when
`buf.length ≥ 257`, else `ok none` -/
theorem tcp_req_spec (buf : Bytes) (hne : buf ≠ []) :
    (∃ d, d ≤ 255 ∧ d + 1 < buf.length ∧
        (∀ i, i < d → (Tcp.attemptReq (buf.drop i)).isErr = true) ∧
        ¬ (Tcp.attemptReq (buf.drop d)).isErr = true ∧
        Tcp.decodeReq buf = Attempt.place d (Tcp.attemptReq (buf.drop d)))
    ∨ ((∀ i, i ≤ 255 → i + 1 < buf.length → (Tcp.attemptReq (buf.drop i)).isErr = true) ∧
        ((257 ≤ buf.length ∧ ∃ e, Tcp.attemptReq (buf.drop 255) = .err e ∧ Tcp.decodeReq buf = .err e)
          ∨ (buf.length ≤ 256 ∧ Tcp.decodeReq buf = .ok none))) :=
  scan_spec Tcp.attemptReq buf hne

/-- clause 1: up to 255 noise bytes whose offsets are all rejected in context, then a frame (then
anything): exactly that frame, with `start = noise.length` -/
theorem tcp_req_found (noise frame rest : Bytes) (f : Tcp.Frame)
    (hn : noise.length ≤ 255)
    (herr : ∀ i, i < noise.length → (Tcp.attemptReq ((noise ++ frame ++ rest).drop i)).isErr = true)
    (hatt : Tcp.attemptReq (frame ++ rest) = .ok (some (f, frame.length))) :
    Tcp.decodeReq (noise ++ frame ++ rest) = .ok (some (f, ⟨noise.length, frame.length⟩)) :=
  scan_found Tcp.attemptReq noise frame rest f hn (by have := (tcp_req_size _ _ _ hatt).1; omega) herr hatt

/-- clause 1 with a hypothesis on the noise bytes only: every noise byte from the eighth on, and the frame's seven MBAP header bytes, are not known function codes -/
theorem tcp_req_resync (noise frame rest : Bytes) (f : Tcp.Frame)
    (hn : noise.length ≤ 255)
    (hnoise : ∀ c, c ∈ (noise ++ frame.take 7).drop 7 → reqKnown c = false)
    (hatt : Tcp.attemptReq (frame ++ rest) = .ok (some (f, frame.length))) :
    Tcp.decodeReq (noise ++ frame ++ rest) = .ok (some (f, ⟨noise.length, frame.length⟩)) := by
  apply tcp_req_found noise frame rest f hn _ hatt
  intro i hi
  obtain ⟨c, hc1, hc2⟩ := noise_byte_mem 7 noise frame rest i hi (by have := (tcp_req_size _ _ _ hatt).1; omega)
  exact tcp_req_reject_isErr _ c hc1 (hnoise c hc2)

/-- clause 2: a reported frame starts within the first 256 offsets, the attempt at its start produced
it, and every earlier offset was rejected (so none of them starts a complete well-formed frame) -/
theorem tcp_req_no_later (buf : Bytes) (f : Tcp.Frame) (loc : Loc)
    (h : Tcp.decodeReq buf = .ok (some (f, loc))) :
    loc.start < 256 ∧ loc.start + 1 < buf.length ∧
    Tcp.attemptReq (buf.drop loc.start) = .ok (some (f, loc.size)) ∧
    ∀ d, d < loc.start → (Tcp.attemptReq (buf.drop d)).isErr = true :=
  scan_no_later Tcp.attemptReq buf f loc h

/-- clause 2 in the property's words: if a complete frame (or anything that is not rejected) starts at
offset `d`, the reported frame does not start after `d` -/
theorem tcp_req_not_after (buf : Bytes) (f : Tcp.Frame) (loc : Loc) (d : Nat)
    (h : Tcp.decodeReq buf = .ok (some (f, loc))) (hd : ¬ (Tcp.attemptReq (buf.drop d)).isErr = true) :
    loc.start ≤ d :=
  scan_not_after Tcp.attemptReq buf f loc d h hd

/-- clause 3: at least 257 bytes and none of the first 256 offsets can start a frame ⇒ an error (that
of offset 255), never "incomplete" -/
theorem tcp_req_gives_up (buf : Bytes) (hl : 257 ≤ buf.length)
    (herr : ∀ d, d < 256 → (Tcp.attemptReq (buf.drop d)).isErr = true) :
    ∃ e, Tcp.attemptReq (buf.drop 255) = .err e ∧ Tcp.decodeReq buf = .err e :=
  scan_gives_up_err Tcp.attemptReq buf hl herr

/-- clause 3 with a hypothesis on the bytes only: 256 consecutive bytes from offset 7, none a known
function code ⇒ error -/
theorem tcp_req_gives_up_unknown (buf : Bytes) (hl : 263 ≤ buf.length)
    (hnoise : ∀ i, i < 256 → ∀ c, buf[i + 7]? = some c → reqKnown c = false) :
    (Tcp.decodeReq buf).isErr = true := by
  apply scan_gives_up Tcp.attemptReq buf (by omega)
  intro d hd
  have hlt : d + 7 < buf.length := by omega
  have hc : (buf.drop d)[7]? = some buf[d + 7] := by
    rw [List.getElem?_drop, List.getElem?_eq_getElem hlt]
  exact tcp_req_reject_isErr _ _ hc (hnoise d hd _ (List.getElem?_eq_getElem hlt))

/-- clause 3 as an equivalence: an error **exactly** when the buffer is empty, or has at least 257 bytes
and all of the first 256 offsets are rejected — in particular never when a frame could start there -/
theorem tcp_req_err_iff (buf : Bytes) :
    (Tcp.decodeReq buf).isErr = true ↔
      buf = [] ∨ (257 ≤ buf.length ∧ ∀ d, d < 256 → (Tcp.attemptReq (buf.drop d)).isErr = true) :=
  scan_isErr_iff Tcp.attemptReq buf

/-- the complementary case: every examined offset rejected, at most 256 bytes ⇒ "incomplete" -/
theorem tcp_req_incomplete_short (buf : Bytes) (hne : buf ≠ []) (hl : buf.length ≤ 256)
    (herr : ∀ d, d + 1 < buf.length → (Tcp.attemptReq (buf.drop d)).isErr = true) :
    Tcp.decodeReq buf = .ok none :=
  scan_incomplete_short Tcp.attemptReq buf hne hl herr

/-- a frame at the front is found at start 0 whatever follows -/
theorem tcp_req_at_zero (buf : Bytes) (f : Tcp.Frame) (sz : Nat)
    (hatt : Tcp.attemptReq buf = .ok (some (f, sz))) :
    Tcp.decodeReq buf = .ok (some (f, ⟨0, sz⟩)) :=
  scan_at_zero Tcp.attemptReq buf f sz hatt (by have := tcp_req_size _ _ _ hatt; omega)

/-- an incomplete frame at the front of a non-empty buffer ⇒ "incomplete" -/
theorem tcp_req_prefix_none (buf : Bytes) (hatt : Tcp.attemptReq buf = .ok none) (hne : buf ≠ []) :
    Tcp.decodeReq buf = .ok none :=
  scan_prefix_none' Tcp.attemptReq buf hatt hne

/-- a single byte is never examined -/
theorem tcp_req_short (buf : Bytes) (hl : buf.length = 1) : Tcp.decodeReq buf = .ok none :=
  scan_short Tcp.attemptReq buf hl

/-- the empty buffer is an error -/
theorem tcp_req_empty : Tcp.decodeReq [] = .err .bufferSize := rfl

/-- the scanner panics exactly when the attempt at the first non-rejected offset does -/
theorem tcp_req_panic_iff (buf : Bytes) :
    Tcp.decodeReq buf = .panic ↔
      ∃ d, d ≤ 255 ∧ d + 1 < buf.length ∧ (∀ i, i < d → (Tcp.attemptReq (buf.drop i)).isErr = true) ∧
        Tcp.attemptReq (buf.drop d) = .panic :=
  scan_panic_iff Tcp.attemptReq buf

/-! ### `tcp::decode(Response, buf)` -/

/-- complete characterisation of `tcp::decode(Response, buf)` on a non-empty buffer: the first offset `d` among
`0 .. min (buf.length - 2) 255` whose attempt is not an error decides (`ok none ↦ ok none`, a frame of
size `sz` ↦ that frame at `⟨d, sz⟩`, `panic ↦ panic`); if all are errors: the error of offset 255 when
`buf.length ≥ 257`, else `ok none` -/
theorem tcp_rsp_spec (buf : Bytes) (hne : buf ≠ []) :
    (∃ d, d ≤ 255 ∧ d + 1 < buf.length ∧
        (∀ i, i < d → (Tcp.attemptRsp (buf.drop i)).isErr = true) ∧
        ¬ (Tcp.attemptRsp (buf.drop d)).isErr = true ∧
        Tcp.decodeRsp buf = Attempt.place d (Tcp.attemptRsp (buf.drop d)))
    ∨ ((∀ i, i ≤ 255 → i + 1 < buf.length → (Tcp.attemptRsp (buf.drop i)).isErr = true) ∧
        ((257 ≤ buf.length ∧ ∃ e, Tcp.attemptRsp (buf.drop 255) = .err e ∧ Tcp.decodeRsp buf = .err e)
          ∨ (buf.length ≤ 256 ∧ Tcp.decodeRsp buf = .ok none))) :=
  scan_spec Tcp.attemptRsp buf hne

/-- clause 1: up to 255 noise bytes whose offsets are all rejected in context, then a frame (then
anything): exactly that frame, with `start = noise.length` -/
theorem tcp_rsp_found (noise frame rest : Bytes) (f : Tcp.Frame)
    (hn : noise.length ≤ 255)
    (herr : ∀ i, i < noise.length → (Tcp.attemptRsp ((noise ++ frame ++ rest).drop i)).isErr = true)
    (hatt : Tcp.attemptRsp (frame ++ rest) = .ok (some (f, frame.length))) :
    Tcp.decodeRsp (noise ++ frame ++ rest) = .ok (some (f, ⟨noise.length, frame.length⟩)) :=
  scan_found Tcp.attemptRsp noise frame rest f hn (by have := (tcp_rsp_size _ _ _ hatt).1; omega) herr hatt

/-- clause 1 with a hypothesis on the noise bytes only: every noise byte from the eighth on, and the frame's seven MBAP header bytes, are not known function codes -/
theorem tcp_rsp_resync (noise frame rest : Bytes) (f : Tcp.Frame)
    (hn : noise.length ≤ 255)
    (hnoise : ∀ c, c ∈ (noise ++ frame.take 7).drop 7 → rspKnown c = false)
    (hatt : Tcp.attemptRsp (frame ++ rest) = .ok (some (f, frame.length))) :
    Tcp.decodeRsp (noise ++ frame ++ rest) = .ok (some (f, ⟨noise.length, frame.length⟩)) := by
  apply tcp_rsp_found noise frame rest f hn _ hatt
  intro i hi
  obtain ⟨c, hc1, hc2⟩ := noise_byte_mem 7 noise frame rest i hi (by have := (tcp_rsp_size _ _ _ hatt).1; omega)
  exact tcp_rsp_reject_isErr _ c hc1 (hnoise c hc2)

/-- clause 2: a reported frame starts within the first 256 offsets, the attempt at its start produced
it, and every earlier offset was rejected (so none of them starts a complete well-formed frame) -/
theorem tcp_rsp_no_later (buf : Bytes) (f : Tcp.Frame) (loc : Loc)
    (h : Tcp.decodeRsp buf = .ok (some (f, loc))) :
    loc.start < 256 ∧ loc.start + 1 < buf.length ∧
    Tcp.attemptRsp (buf.drop loc.start) = .ok (some (f, loc.size)) ∧
    ∀ d, d < loc.start → (Tcp.attemptRsp (buf.drop d)).isErr = true :=
  scan_no_later Tcp.attemptRsp buf f loc h

/-- clause 2 in the property's words: if a complete frame (or anything that is not rejected) starts at
offset `d`, the reported frame does not start after `d` -/
theorem tcp_rsp_not_after (buf : Bytes) (f : Tcp.Frame) (loc : Loc) (d : Nat)
    (h : Tcp.decodeRsp buf = .ok (some (f, loc))) (hd : ¬ (Tcp.attemptRsp (buf.drop d)).isErr = true) :
    loc.start ≤ d :=
  scan_not_after Tcp.attemptRsp buf f loc d h hd

/-- clause 3: at least 257 bytes and none of the first 256 offsets can start a frame ⇒ an error (that
of offset 255), never "incomplete" -/
theorem tcp_rsp_gives_up (buf : Bytes) (hl : 257 ≤ buf.length)
    (herr : ∀ d, d < 256 → (Tcp.attemptRsp (buf.drop d)).isErr = true) :
    ∃ e, Tcp.attemptRsp (buf.drop 255) = .err e ∧ Tcp.decodeRsp buf = .err e :=
  scan_gives_up_err Tcp.attemptRsp buf hl herr

/-- clause 3 with a hypothesis on the bytes only: 256 consecutive bytes from offset 7, none a known
function code ⇒ error -/
theorem tcp_rsp_gives_up_unknown (buf : Bytes) (hl : 263 ≤ buf.length)
    (hnoise : ∀ i, i < 256 → ∀ c, buf[i + 7]? = some c → rspKnown c = false) :
    (Tcp.decodeRsp buf).isErr = true := by
  apply scan_gives_up Tcp.attemptRsp buf (by omega)
  intro d hd
  have hlt : d + 7 < buf.length := by omega
  have hc : (buf.drop d)[7]? = some buf[d + 7] := by
    rw [List.getElem?_drop, List.getElem?_eq_getElem hlt]
  exact tcp_rsp_reject_isErr _ _ hc (hnoise d hd _ (List.getElem?_eq_getElem hlt))

/-- clause 3 as an equivalence: an error **exactly** when the buffer is empty, or has at least 257 bytes
and all of the first 256 offsets are rejected — in particular never when a frame could start there -/
theorem tcp_rsp_err_iff (buf : Bytes) :
    (Tcp.decodeRsp buf).isErr = true ↔
      buf = [] ∨ (257 ≤ buf.length ∧ ∀ d, d < 256 → (Tcp.attemptRsp (buf.drop d)).isErr = true) :=
  scan_isErr_iff Tcp.attemptRsp buf

/-- the complementary case: every examined offset rejected, at most 256 bytes ⇒ "incomplete" -/
theorem tcp_rsp_incomplete_short (buf : Bytes) (hne : buf ≠ []) (hl : buf.length ≤ 256)
    (herr : ∀ d, d + 1 < buf.length → (Tcp.attemptRsp (buf.drop d)).isErr = true) :
    Tcp.decodeRsp buf = .ok none :=
  scan_incomplete_short Tcp.attemptRsp buf hne hl herr

/-- a frame at the front is found at start 0 whatever follows -/
theorem tcp_rsp_at_zero (buf : Bytes) (f : Tcp.Frame) (sz : Nat)
    (hatt : Tcp.attemptRsp buf = .ok (some (f, sz))) :
    Tcp.decodeRsp buf = .ok (some (f, ⟨0, sz⟩)) :=
  scan_at_zero Tcp.attemptRsp buf f sz hatt (by have := tcp_rsp_size _ _ _ hatt; omega)

/-- an incomplete frame at the front of a non-empty buffer ⇒ "incomplete" -/
theorem tcp_rsp_prefix_none (buf : Bytes) (hatt : Tcp.attemptRsp buf = .ok none) (hne : buf ≠ []) :
    Tcp.decodeRsp buf = .ok none :=
  scan_prefix_none' Tcp.attemptRsp buf hatt hne

/-- a single byte is never examined -/
theorem tcp_rsp_short (buf : Bytes) (hl : buf.length = 1) : Tcp.decodeRsp buf = .ok none :=
  scan_short Tcp.attemptRsp buf hl

/-- the empty buffer is an error -/
theorem tcp_rsp_empty : Tcp.decodeRsp [] = .err .bufferSize := rfl

/-- the scanner panics exactly when the attempt at the first non-rejected offset does -/
theorem tcp_rsp_panic_iff (buf : Bytes) :
    Tcp.decodeRsp buf = .panic ↔
      ∃ d, d ≤ 255 ∧ d + 1 < buf.length ∧ (∀ i, i < d → (Tcp.attemptRsp (buf.drop i)).isErr = true) ∧
        Tcp.attemptRsp (buf.drop d) = .panic :=
  scan_panic_iff Tcp.attemptRsp buf

/-! ### The MBAP header is checked as soon as it is visible (repair of `tcp::decode`)

Since the repair a candidate whose protocol identifier is visible and not 0, or whose length field is
visible and contradicts the predicted PDU length, is rejected at once — before it, only once as many
bytes as the candidate announced had arrived, and until then the scanner answered 'incomplete' and
did not look at later offsets. -/

/-- **a visible non-zero protocol identifier rejects the candidate**, in either direction, whatever the
other bytes are and however few bytes follow (four bytes are enough; never 'incomplete') -/
theorem tcp_attempt_rejects_bad_protocol (raw : Bytes) (h4 : 4 ≤ raw.length)
    (hbad : ¬ (raw[2] = 0 ∧ raw[3] = 0)) :
    rd16 raw[2] raw[3] ≠ 0 ∧
    Tcp.attemptReq raw = .err (.protocolNotModbus (rd16 raw[2] raw[3])) ∧
    Tcp.attemptRsp raw = .err (.protocolNotModbus (rd16 raw[2] raw[3])) := by
  have hp := Tcp.checkProtocolId_bad h4 hbad
  refine ⟨fun hz => hbad ((Tcp.rd16_eq_zero_iff _ _).1 hz), ?_, ?_⟩
  · rw [Tcp.attemptReq_eq]; exact Tcp.attemptOf_proto_err _ hp
  · rw [Tcp.attemptRsp_eq]; exact Tcp.attemptOf_proto_err _ hp

example : Tcp.attemptReq [0x42, 0x42, 0x00, 0x01] = .err (.protocolNotModbus (rd16 0x00 0x01)) :=
  (tcp_attempt_rejects_bad_protocol [0x42, 0x42, 0x00, 0x01] (by decide) (by decide)).2.1
example : Tcp.attemptReq [0x42, 0x42, 0x00, 0x01] = .err (.protocolNotModbus 1) := by decide +kernel
example : Tcp.attemptRsp [0x42, 0x42, 0x00, 0x01, 0x00, 0x00, 0x00, 0x03, 0x11, 0x83, 0x02]
    = .err (.protocolNotModbus 1) := by decide +kernel

/-- the same for the attempt at offset `i` of a buffer, with optional indexing -/
theorem tcp_stray_offset_rejected (pred : Bytes → Res (Option Nat)) (buf : Bytes) (i : Nat)
    (h : i + 3 < buf.length) (hs : ¬ (buf[i + 2]? = some 0 ∧ buf[i + 3]? = some 0)) :
    ∃ p, Tcp.attemptOf pred (buf.drop i) = .err (.protocolNotModbus p) := by
  have hl : 4 ≤ (buf.drop i).length := by rw [List.length_drop]; omega
  have e2 : (buf.drop i)[2] = buf[i + 2] := List.getElem_drop ..
  have e3 : (buf.drop i)[3] = buf[i + 3] := List.getElem_drop ..
  have hbad : ¬ ((buf.drop i)[2] = 0 ∧ (buf.drop i)[3] = 0) := by
    rintro ⟨a, b⟩
    apply hs
    rw [List.getElem?_eq_getElem (by omega), List.getElem?_eq_getElem (by omega), ← e2, ← e3, a, b]
    exact ⟨rfl, rfl⟩
  exact ⟨_, Tcp.attemptOf_proto_err _ (Tcp.checkProtocolId_bad hl hbad)⟩

/-- a visible length field that contradicts the predicted PDU length, generic in the predictor -/
theorem tcp_attemptOf_bad_length (pred : Bytes → Res (Option Nat)) (raw : Bytes) (n : Nat)
    (h6 : 6 ≤ raw.length) (h2 : raw[2] = 0) (h3 : raw[3] = 0)
    (hlen : (rd16 raw[4] raw[5]).toNat ≠ n + 1) (hpred : pred raw = .ok (some n))
    (hn : 7 + n < usizeLimit) :
    Tcp.attemptOf pred raw = .err (.lengthMismatch (rd16 raw[4] raw[5]).toNat (n + 1)) := by
  have hp := Tcp.checkProtocolId_good (by omega) h2 h3
  have hne : raw ≠ [] := by intro h; rw [h] at h6; simp at h6
  rw [Tcp.attemptOf_proto_ok _ hp]
  exact mkAttempt_extract_err _ _ _ _ _ _ hpred
    (Tcp.extractFrame_len_err hne hn hp (Tcp.checkLengthField_bad n h6 hlen))

/-- **a visible length field that contradicts the predicted PDU length rejects the candidate**: protocol
identifier 0, the predictor says `n`, the length field is not `n + 1` ⇒ `LengthMismatch`, also when
fewer than `n + 7` bytes are present (before the repair: 'incomplete' until `n + 7` bytes had arrived) -/
theorem tcp_attempt_rejects_bad_length (raw : Bytes) (n : Nat) (h6 : 6 ≤ raw.length)
    (h2 : raw[2] = 0) (h3 : raw[3] = 0) (hlen : (rd16 raw[4] raw[5]).toNat ≠ n + 1) :
    (Tcp.requestPduLen raw = .ok (some n) →
      Tcp.attemptReq raw = .err (.lengthMismatch (rd16 raw[4] raw[5]).toNat (n + 1))) ∧
    (Tcp.responsePduLen raw = .ok (some n) →
      Tcp.attemptRsp raw = .err (.lengthMismatch (rd16 raw[4] raw[5]).toNat (n + 1))) := by
  constructor
  · intro hpred
    have := Total.Tcp.requestPduLen_le raw n hpred
    rw [Tcp.attemptReq_eq]
    exact tcp_attemptOf_bad_length _ raw n h6 h2 h3 hlen hpred (by unfold usizeLimit; omega)
  · intro hpred
    have := Total.Tcp.responsePduLen_le raw n hpred
    rw [Tcp.attemptRsp_eq]
    exact tcp_attemptOf_bad_length _ raw n h6 h2 h3 hlen hpred (by unfold usizeLimit; omega)

/-- eight bytes: ReadHoldingRegisters request (5 PDU bytes announced by the function code) under a
length field of 9 instead of 6; the other 4 bytes of the candidate are not there and not waited for -/
example : Tcp.attemptReq [0x00, 0x01, 0x00, 0x00, 0x00, 0x09, 0x11, 0x03]
    = .err (.lengthMismatch (rd16 0x00 0x09).toNat (5 + 1)) :=
  (tcp_attempt_rejects_bad_length [0x00, 0x01, 0x00, 0x00, 0x00, 0x09, 0x11, 0x03] 5 (by decide) (by decide)
    (by decide) (by decide)).1 (by decide +kernel)
example : Tcp.attemptReq [0x00, 0x01, 0x00, 0x00, 0x00, 0x09, 0x11, 0x03] = .err (.lengthMismatch 9 6) := by
  decide +kernel
/-- the motivating candidate: function 03 response with byte count 0x11 under the length field 0x0003 -/
example : Tcp.attemptRsp [0x00, 0x01, 0x00, 0x00, 0x00, 0x03, 0x11, 0x03, 0x11]
    = .err (.lengthMismatch (rd16 0x00 0x03).toNat (19 + 1)) :=
  (tcp_attempt_rejects_bad_length [0x00, 0x01, 0x00, 0x00, 0x00, 0x03, 0x11, 0x03, 0x11] 19 (by decide)
    (by decide) (by decide) (by decide)).2 (by decide +kernel)
example : Tcp.attemptRsp [0x00, 0x01, 0x00, 0x00, 0x00, 0x03, 0x11, 0x03, 0x11] = .err (.lengthMismatch 3 20) := by
  decide +kernel

/-- **bytes-only resynchronisation, request direction** (no hypothesis about function codes): up to 255
stray bytes, then a well-formed TCP frame, then anything; if at no noise offset `i` the two bytes at
positions `i + 2`, `i + 3` of the buffer (what that offset reads as protocol identifier) are both zero,
the scanner returns exactly that frame at `start = noise.length` -/
theorem tcp_req_resync_stray (tid : UInt16) (uid : UInt8) (pdu : Bytes)
    (hc : Spec.PduComplete .req pdu) (hn : pdu.length + 1 < 65536) (noise rest : Bytes)
    (hnl : noise.length ≤ 255)
    (hstray : ∀ i, i < noise.length →
      ¬ ((noise ++ Spec.tcpFrame tid uid pdu ++ rest)[i + 2]? = some 0 ∧
         (noise ++ Spec.tcpFrame tid uid pdu ++ rest)[i + 3]? = some 0)) :
    Tcp.decodeReq (noise ++ Spec.tcpFrame tid uid pdu ++ rest)
      = .ok (some ((⟨tid, uid, pdu⟩ : Tcp.Frame), ⟨noise.length, (Spec.tcpFrame tid uid pdu).length⟩)) := by
  have g := Reception.tcp_req_good tid uid pdu hc hn
  have hatt : Tcp.attemptReq (Spec.tcpFrame tid uid pdu ++ rest)
      = .ok (some ((⟨tid, uid, pdu⟩ : Tcp.Frame), (Spec.tcpFrame tid uid pdu).length)) := by
    simpa using (scan_no_later Tcp.attemptReq _ _ ⟨0, _⟩ (g.whole rest)).2.2.1
  apply tcp_req_found noise _ rest _ hnl _ hatt
  intro i hi
  have hlen : i + 3 < (noise ++ Spec.tcpFrame tid uid pdu ++ rest).length := by
    simp only [List.length_append, Reception.tcpFrame_length]; omega
  obtain ⟨p, hp⟩ := tcp_stray_offset_rejected Tcp.requestPduLen _ i hlen (hstray i hi)
  rw [Tcp.attemptReq_eq, hp]; rfl

/-- **bytes-only resynchronisation, response direction** -/
theorem tcp_rsp_resync_stray (tid : UInt16) (uid : UInt8) (pdu : Bytes)
    (hc : Spec.PduComplete .rsp pdu) (hn : pdu.length + 1 < 65536) (noise rest : Bytes)
    (hnl : noise.length ≤ 255)
    (hstray : ∀ i, i < noise.length →
      ¬ ((noise ++ Spec.tcpFrame tid uid pdu ++ rest)[i + 2]? = some 0 ∧
         (noise ++ Spec.tcpFrame tid uid pdu ++ rest)[i + 3]? = some 0)) :
    Tcp.decodeRsp (noise ++ Spec.tcpFrame tid uid pdu ++ rest)
      = .ok (some ((⟨tid, uid, pdu⟩ : Tcp.Frame), ⟨noise.length, (Spec.tcpFrame tid uid pdu).length⟩)) := by
  have g := Reception.tcp_rsp_good tid uid pdu hc hn
  have hatt : Tcp.attemptRsp (Spec.tcpFrame tid uid pdu ++ rest)
      = .ok (some ((⟨tid, uid, pdu⟩ : Tcp.Frame), (Spec.tcpFrame tid uid pdu).length)) := by
    simpa using (scan_no_later Tcp.attemptRsp _ _ ⟨0, _⟩ (g.whole rest)).2.2.1
  apply tcp_rsp_found noise _ rest _ hnl _ hatt
  intro i hi
  have hlen : i + 3 < (noise ++ Spec.tcpFrame tid uid pdu ++ rest).length := by
    simp only [List.length_append, Reception.tcpFrame_length]; omega
  obtain ⟨p, hp⟩ := tcp_stray_offset_rejected Tcp.responsePduLen _ i hlen (hstray i hi)
  rw [Tcp.attemptRsp_eq, hp]; rfl

/-- the hypothesis of `tcp_*_resync_stray` from a condition on the noise bytes and the transaction id:
the positions `i + 2`, `i + 3` for `i < noise.length` lie in the noise, in the transaction id, or are the
first byte (0) of the frame's protocol identifier; so it suffices that no noise byte is zero and the LOW
byte of the transaction id is not zero (the pair read at the last noise offset is (low byte, 0)) -/
theorem stray_of_nonzero_noise (tid : UInt16) (uid : UInt8) (pdu noise rest : Bytes)
    (hnz : ∀ c, c ∈ noise → c ≠ 0) (htid : Spec.lo tid ≠ 0) :
    ∀ i, i < noise.length →
      ¬ ((noise ++ Spec.tcpFrame tid uid pdu ++ rest)[i + 2]? = some 0 ∧
         (noise ++ Spec.tcpFrame tid uid pdu ++ rest)[i + 3]? = some 0) := by
  intro i hi
  have hin : ∀ k, k < noise.length → (noise ++ Spec.tcpFrame tid uid pdu ++ rest)[k]? ≠ some 0 := by
    intro k hk h
    rw [List.append_assoc, List.getElem?_append_left hk, List.getElem?_eq_getElem hk] at h
    exact hnz _ (List.getElem_mem hk) (Option.some.inj h)
  have hlo : (noise ++ Spec.tcpFrame tid uid pdu ++ rest)[noise.length + 1]? ≠ some 0 := by
    intro h
    rw [List.append_assoc, List.getElem?_append_right (by omega)] at h
    have e : noise.length + 1 - noise.length = 1 := by omega
    rw [e] at h
    have : (Spec.tcpFrame tid uid pdu ++ rest)[1]? = some (Spec.lo tid) := by
      simp [Spec.tcpFrame, Spec.word]
    rw [this] at h
    exact htid (Option.some.inj h)
  rintro ⟨a, b⟩
  rcases Nat.lt_or_ge (i + 3) noise.length with h | h
  · exact hin _ h b
  · rcases Nat.lt_or_ge (i + 2) noise.length with h' | h'
    · exact hin _ h' a
    · rcases Nat.lt_or_ge (i + 2) (noise.length + 1) with h'' | h''
      · have e : i + 3 = noise.length + 1 := by omega
        rw [e] at b; exact hlo b
      · have e : i + 2 = noise.length + 1 := by omega
        rw [e] at a; exact hlo a

/-- **corollary**: noise without a zero byte in front of a well-formed frame whose transaction id has a
non-zero low byte is skipped, whatever the function codes.  (With a zero low byte — every 256th
transaction of a counting client — the last noise offset reads protocol identifier 0 and is decided by the
length check or the predictor, see `tcp_req_stray_still_waits_witness`.) -/
theorem tcp_req_resync_nonzero_noise (tid : UInt16) (uid : UInt8) (pdu : Bytes)
    (hc : Spec.PduComplete .req pdu) (hn : pdu.length + 1 < 65536) (noise rest : Bytes)
    (hnl : noise.length ≤ 255) (hnz : ∀ c, c ∈ noise → c ≠ 0) (htid : Spec.lo tid ≠ 0) :
    Tcp.decodeReq (noise ++ Spec.tcpFrame tid uid pdu ++ rest)
      = .ok (some ((⟨tid, uid, pdu⟩ : Tcp.Frame), ⟨noise.length, (Spec.tcpFrame tid uid pdu).length⟩)) :=
  tcp_req_resync_stray tid uid pdu hc hn noise rest hnl (stray_of_nonzero_noise tid uid pdu noise rest hnz htid)

theorem tcp_rsp_resync_nonzero_noise (tid : UInt16) (uid : UInt8) (pdu : Bytes)
    (hc : Spec.PduComplete .rsp pdu) (hn : pdu.length + 1 < 65536) (noise rest : Bytes)
    (hnl : noise.length ≤ 255) (hnz : ∀ c, c ∈ noise → c ≠ 0) (htid : Spec.lo tid ≠ 0) :
    Tcp.decodeRsp (noise ++ Spec.tcpFrame tid uid pdu ++ rest)
      = .ok (some ((⟨tid, uid, pdu⟩ : Tcp.Frame), ⟨noise.length, (Spec.tcpFrame tid uid pdu).length⟩)) :=
  tcp_rsp_resync_stray tid uid pdu hc hn noise rest hnl (stray_of_nonzero_noise tid uid pdu noise rest hnz htid)

/-- **the buffer of the repaired defect**: two stray bytes in front of the exception response
`00 01 00 00 00 03 11 83 02`.  From offset 0 the low byte 0x03 of the real length field is read as function
03 with byte count 0x11; before the repair the answer was `ok none` for ever, now the frame is found. -/
example : Tcp.decodeRsp [0x42, 0x42, 0x00, 0x01, 0x00, 0x00, 0x00, 0x03, 0x11, 0x83, 0x02]
    = .ok (some (⟨0x0001, 0x11, [0x83, 0x02]⟩, ⟨2, 9⟩)) := by decide +kernel
/-- … as an instance of `tcp_rsp_resync_nonzero_noise` -/
example : Tcp.decodeRsp ([0x42, 0x42] ++ Spec.tcpFrame 0x0001 0x11 [0x83, 0x02] ++ [])
    = .ok (some (⟨0x0001, 0x11, [0x83, 0x02]⟩, ⟨2, 9⟩)) :=
  tcp_rsp_resync_nonzero_noise 0x0001 0x11 [0x83, 0x02] (by unfold Spec.PduComplete; decide) (by decide)
    [0x42, 0x42] [] (by decide) (by decide) (by decide)
example : [0x42, 0x42] ++ Spec.tcpFrame 0x0001 0x11 [0x83, 0x02] ++ []
    = [0x42, 0x42, 0x00, 0x01, 0x00, 0x00, 0x00, 0x03, 0x11, 0x83, 0x02] := by decide
/-- … and through the client-side ADU decoder: the exception -/
example : Tcp.decodeResponse [0x42, 0x42, 0x00, 0x01, 0x00, 0x00, 0x00, 0x03, 0x11, 0x83, 0x02]
    = .ok (some (1, 0x11, .error ⟨.readHoldingRegisters, .illegalDataAddress⟩)) := by decide +kernel
/-- request direction, 255 noise bytes that ARE function codes (0x03): skipped all the same -/
example : Tcp.decodeReq (List.replicate 255 0x03 ++ Spec.tcpFrame 0x2A2B 0x2C [0x01, 0x00, 0x01, 0x00, 0x02] ++ [0x00])
    = .ok (some (⟨0x2A2B, 0x2C, [0x01, 0x00, 0x01, 0x00, 0x02]⟩, ⟨255, 12⟩)) := by
  have h := tcp_req_resync_nonzero_noise 0x2A2B 0x2C [0x01, 0x00, 0x01, 0x00, 0x02]
    (by unfold Spec.PduComplete; decide) (by decide) (List.replicate 255 0x03) [0x00] (by decide +kernel)
    (by intro c hc; rw [List.mem_replicate] at hc; rw [hc.2]; decide) (by decide)
  rw [List.length_replicate] at h
  exact h

/-- **recorded reading — what the repair does not cover**: a candidate is refuted by the length field
only once the predictor has produced a length.  `42 | 01 00 00 00 00 02 0F 07` is one stray byte in
front of the complete well-formed request (transaction 0x0100, unit 0x0F, ReadExceptionStatus).  From
offset 0 the protocol identifier read is `00 00`, the length field read is `00 00` (which no frame can
carry), the unit id 0x0F is read as function code WriteMultipleCoils, whose byte count (offset 12) has not
arrived: the predictor says 'incomplete' and so does `tcp::decode`, although the frame at offset 1 is
complete.  Four more bytes resolve it. -/
theorem tcp_req_stray_still_waits_witness :
    Tcp.decodeReq ([0x42] ++ Spec.tcpFrame 0x0100 0x0F [0x07]) = .ok none ∧
    Tcp.decodeReq (Spec.tcpFrame 0x0100 0x0F [0x07]) = .ok (some (⟨0x0100, 0x0F, [0x07]⟩, ⟨0, 8⟩)) ∧
    Tcp.decodeReq ([0x42] ++ Spec.tcpFrame 0x0100 0x0F [0x07] ++ [1, 2, 3, 4])
      = .ok (some (⟨0x0100, 0x0F, [0x07]⟩, ⟨1, 8⟩)) := by decide +kernel

/-- **the recorded residue, on an everyday request**: the same reading with the most common request kind.
`42 | 01 00 00 00 00 06 17 03 00 00 00 01` is one stray byte in front of the complete well-formed
read-holding-registers request (transaction 0x0100 — low byte 0, as for every 256th transaction of a
counting client —, unit 0x17, address 0, quantity 1).  From offset 0 the protocol identifier read is `00 00`
and the length field read is `00 00`: both are VISIBLE at offset 0, and no frame can carry length 0, but
the length field is only ever compared against a PREDICTED PDU length, and there is none yet — the byte at
offset 7 is the unit id 0x17, read as function code ReadWriteMultipleRegisters, which still waits for its
count byte (offset 16; 13 bytes have arrived).  The predictor says 'incomplete' and so does `tcp::decode`,
although the frame at offset 1 is complete; the same frame alone is found at ⟨0, 12⟩.  Four more bytes
resolve it (the count byte arrives, the length field 0 is refuted, offset 1 is tried). -/
theorem tcp_req_stray_still_waits_common_witness :
    Tcp.decodeReq ([0x42] ++ Spec.tcpFrame 0x0100 0x17 [3, 0, 0, 0, 1]) = .ok none ∧
    Tcp.decodeReq (Spec.tcpFrame 0x0100 0x17 [3, 0, 0, 0, 1])
      = .ok (some (⟨0x0100, 0x17, [3, 0, 0, 0, 1]⟩, ⟨0, 12⟩)) ∧
    [0x42] ++ Spec.tcpFrame 0x0100 0x17 [3, 0, 0, 0, 1]
      = [0x42, 0x01, 0x00, 0x00, 0x00, 0x00, 0x06, 0x17, 0x03, 0x00, 0x00, 0x00, 0x01] ∧
    Tcp.decodeReq ([0x42] ++ Spec.tcpFrame 0x0100 0x17 [3, 0, 0, 0, 1] ++ [1, 2, 3, 4])
      = .ok (some (⟨0x0100, 0x17, [3, 0, 0, 0, 1]⟩, ⟨1, 12⟩)) := by decide +kernel

/-- **bounded give-up on a non-Modbus stream**: at least 259 bytes in which none of the first 256 offsets
reads protocol identifier 0 ⇒ an error (`ProtocolNotModbus`), in both directions, never 'incomplete' -/
theorem tcp_gives_up_nonzero_protocol (buf : Bytes) (hl : 259 ≤ buf.length)
    (hs : ∀ i, i < 256 → ¬ (buf[i + 2]? = some 0 ∧ buf[i + 3]? = some 0)) :
    (∃ p, Tcp.decodeReq buf = .err (.protocolNotModbus p)) ∧
    (∃ p, Tcp.decodeRsp buf = .err (.protocolNotModbus p)) := by
  constructor
  · have herr : ∀ d, d < 256 → (Tcp.attemptReq (buf.drop d)).isErr = true := by
      intro d hd
      obtain ⟨p, hp⟩ := tcp_stray_offset_rejected Tcp.requestPduLen buf d (by omega) (hs d hd)
      rw [Tcp.attemptReq_eq, hp]; rfl
    obtain ⟨e, he, hdec⟩ := tcp_req_gives_up buf (by omega) herr
    obtain ⟨p, hp⟩ := tcp_stray_offset_rejected Tcp.requestPduLen buf 255 (by omega) (hs 255 (by omega))
    rw [Tcp.attemptReq_eq, hp] at he
    exact ⟨p, by rw [hdec, ← Res.err.inj he]⟩
  · have herr : ∀ d, d < 256 → (Tcp.attemptRsp (buf.drop d)).isErr = true := by
      intro d hd
      obtain ⟨p, hp⟩ := tcp_stray_offset_rejected Tcp.responsePduLen buf d (by omega) (hs d hd)
      rw [Tcp.attemptRsp_eq, hp]; rfl
    obtain ⟨e, he, hdec⟩ := tcp_rsp_gives_up buf (by omega) herr
    obtain ⟨p, hp⟩ := tcp_stray_offset_rejected Tcp.responsePduLen buf 255 (by omega) (hs 255 (by omega))
    rw [Tcp.attemptRsp_eq, hp] at he
    exact ⟨p, by rw [hdec, ← Res.err.inj he]⟩

/-- 259 bytes of 0x42 -/
example : Tcp.decodeReq (List.replicate 259 0x42) = .err (.protocolNotModbus 0x4242) ∧
    Tcp.decodeRsp (List.replicate 259 0x42) = .err (.protocolNotModbus 0x4242) := by decide +kernel
example : ∃ p, Tcp.decodeRsp (List.replicate 259 0x42) = .err (.protocolNotModbus p) :=
  (tcp_gives_up_nonzero_protocol (List.replicate 259 0x42) (by decide +kernel) (by
    intro i hi h
    have := h.1
    rw [List.getElem?_replicate, if_pos (by omega)] at this
    exact absurd (Option.some.inj this) (by decide))).2
/-- recorded reading: 257 and 258 bytes of 0x42 are still 'incomplete' — offset 255 then has fewer than four
bytes, its protocol identifier is not visible and its attempt is 'incomplete' (with the function code
criterion of `tcp_*_gives_up_unknown`, 263 bytes are needed) -/
example : Tcp.decodeReq (List.replicate 257 0x42) = .ok none ∧ Tcp.decodeRsp (List.replicate 257 0x42) = .ok none ∧
    Tcp.decodeReq (List.replicate 258 0x42) = .ok none ∧ Tcp.decodeRsp (List.replicate 258 0x42) = .ok none := by
  decide +kernel

/-! ### Concrete instances (kernel-evaluated) -/

/-- RTU request: slave 0x11, ReadCoils(1, 2) -/
def rtuReq : Bytes := [0x11, 0x01, 0x00, 0x01, 0x00, 0x02, 0xEE, 0x9B]
/-- RTU response: slave 0x11, ReadCoils, 1 byte 0x05 -/
def rtuRsp : Bytes := [0x11, 0x01, 0x01, 0x05, 0x95, 0x4B]
/-- TCP request: transaction 0x2A2B, unit 0x2C, ReadCoils(1, 2) -/
def tcpReq : Bytes := [0x2A, 0x2B, 0x00, 0x00, 0x00, 0x06, 0x2C, 0x01, 0x00, 0x01, 0x00, 0x02]
/-- TCP response: transaction 0x2A2B, unit 0x11, WriteSingleRegister(1, 2) -/
def tcpRsp : Bytes := [0x2A, 0x2B, 0x00, 0x00, 0x00, 0x06, 0x11, 0x06, 0x00, 0x01, 0x00, 0x02]

/-- 255 bytes of 0x42, then the frame: found at start 255 -/
example : Rtu.decodeReq (List.replicate 255 0x42 ++ rtuReq)
    = .ok (some (⟨0x11, [0x01, 0x00, 0x01, 0x00, 0x02]⟩, ⟨255, 8⟩)) := by decide +kernel
/-- 256 bytes of 0x42, then the frame: an error (the CRC error of offset 255, where 0x42 is read as slave id
and the frame's slave id 0x11 as function code), not "incomplete", not the frame -/
example : Rtu.decodeReq (List.replicate 256 0x42 ++ rtuReq) = .err (.crc 0x0100 0xF11C) := by
  decide +kernel
example : (Rtu.decodeReq (List.replicate 256 0x42 ++ rtuReq)).isErr = true := by decide +kernel
/-- 254 bytes: found at 254 -/
example : Rtu.decodeReq (List.replicate 254 0x42 ++ rtuReq)
    = .ok (some (⟨0x11, [0x01, 0x00, 0x01, 0x00, 0x02]⟩, ⟨254, 8⟩)) := by decide +kernel
/-- no noise: found at 0, with trailing bytes ignored -/
example : Rtu.decodeReq (rtuReq ++ [0x42, 0x42])
    = .ok (some (⟨0x11, [0x01, 0x00, 0x01, 0x00, 0x02]⟩, ⟨0, 8⟩)) := by decide +kernel
/-- short garbage: "incomplete" (the crate's unit test) -/
example : Rtu.decodeReq (List.replicate 10 0x42) = .ok none := by decide +kernel
/-- 256 bytes of garbage: still "incomplete"; 257: error -/
example : Rtu.decodeReq (List.replicate 256 0x42) = .ok none := by decide +kernel
example : Rtu.decodeReq (List.replicate 257 0x42) = .err (.fnCode 0x42) := by decide +kernel

example : Rtu.decodeRsp (List.replicate 255 0x42 ++ rtuRsp)
    = .ok (some (⟨0x11, [0x01, 0x01, 0x05]⟩, ⟨255, 6⟩)) := by decide +kernel
example : Rtu.decodeRsp (List.replicate 256 0x42 ++ rtuRsp) = .err (.fnCode 0x11) := by decide +kernel

example : Tcp.decodeReq (List.replicate 255 0x42 ++ tcpReq)
    = .ok (some (⟨0x2A2B, 0x2C, [0x01, 0x00, 0x01, 0x00, 0x02]⟩, ⟨255, 12⟩)) := by decide +kernel
example : (Tcp.decodeReq (List.replicate 256 0x42 ++ tcpReq)).isErr = true := by decide +kernel

example : Tcp.decodeRsp (List.replicate 255 0x42 ++ tcpRsp)
    = .ok (some (⟨0x2A2B, 0x11, [0x06, 0x00, 0x01, 0x00, 0x02]⟩, ⟨255, 12⟩)) := by decide +kernel
example : (Tcp.decodeRsp (List.replicate 256 0x42 ++ tcpRsp)).isErr = true := by decide +kernel

/-- before the repair of `tcp::decode` this buffer was answered 'incomplete': the TCP length byte 0x04 of
the frame is read from offset 18 as function code 4 with byte count 0x11, a frame that is not yet
complete.  The protocol identifier visible at offset 18 (bytes 20, 21 = 0x0102) refutes that candidate,
which is now rejected at once, and the frame is found. -/
example : Tcp.decodeRsp (List.replicate 20 0x42 ++ [0x01, 0x02, 0x00, 0x00, 0x00, 0x04, 0x11, 0x01, 0x01, 0x05])
    = .ok (some (⟨0x0102, 0x11, [0x01, 0x01, 0x05]⟩, ⟨20, 10⟩)) := by decide +kernel

/-- noise that *can* be read as a plausible frame start is outside clause 1: at offset 11 the bytes
`42 42 00 00 00 15 11 03 12` are a consistent MBAP header (protocol 0, length 0x15 = 2 + 0x12 + 1) of a
ReadHoldingRegisters response with byte count 0x12 that is not yet complete, so the scanner waits instead
of skipping to the complete frame at offset 20 (faithful to the crate) -/
example : Tcp.decodeRsp (List.replicate 11 0x42 ++ [0x42, 0x42, 0x00, 0x00, 0x00, 0x15, 0x11, 0x03, 0x12] ++
      [0x01, 0x02, 0x00, 0x00, 0x00, 0x04, 0x11, 0x01, 0x01, 0x05])
    = .ok none := by decide +kernel

/-! ### The hypotheses of the theorems above are satisfiable -/

/-- `rtu_req_resync` on 255 bytes of 0x42 in front of a frame whose slave id (0x2C) is not a function
code, followed by two more bytes -/
def rtuReq2C : Bytes := [0x2C, 0x01, 0x00, 0x01, 0x00, 0x02, 0xEA, 0x76]

example : Rtu.attemptReq (rtuReq2C ++ [0x00, 0x00])
    = .ok (some (⟨0x2C, [0x01, 0x00, 0x01, 0x00, 0x02]⟩, rtuReq2C.length)) := by decide +kernel
example : ∀ c, c ∈ (List.replicate 255 (0x42 : UInt8) ++ rtuReq2C.take 1).drop 1 → reqKnown c = false := by
  decide +kernel
example : Rtu.decodeReq (List.replicate 255 0x42 ++ rtuReq2C ++ [0x00, 0x00])
    = .ok (some (⟨0x2C, [0x01, 0x00, 0x01, 0x00, 0x02]⟩, ⟨255, 8⟩)) := by
  have h := rtu_req_resync (List.replicate 255 0x42) rtuReq2C [0x00, 0x00]
    ⟨0x2C, [0x01, 0x00, 0x01, 0x00, 0x02]⟩ (by decide +kernel) (by decide +kernel) (by decide +kernel)
  rw [List.length_replicate] at h
  exact h

/-- `rtu_rsp_resync` -/
example : Rtu.decodeRsp (List.replicate 255 0x42 ++ rtuRsp ++ [0x00])
    = .ok (some (⟨0x11, [0x01, 0x01, 0x05]⟩, ⟨255, 6⟩)) := by
  have h := rtu_rsp_resync (List.replicate 255 0x42) rtuRsp [0x00] ⟨0x11, [0x01, 0x01, 0x05]⟩
    (by decide +kernel) (by decide +kernel) (by decide +kernel)
  rw [List.length_replicate] at h
  exact h

/-- `tcp_req_resync` needs a header none of whose bytes is a function code -/
def tcpReqClean : Bytes := [0x2A, 0x2B, 0x00, 0x00, 0x00, 0x08, 0x2C, 0x16, 0x00, 0x01, 0x00, 0x02, 0x00, 0x03]

example : Tcp.decodeReq (List.replicate 255 0x42 ++ tcpReqClean ++ [0x00])
    = .ok (some (⟨0x2A2B, 0x2C, [0x16, 0x00, 0x01, 0x00, 0x02, 0x00, 0x03]⟩, ⟨255, 14⟩)) := by
  have h := tcp_req_resync (List.replicate 255 0x42) tcpReqClean [0x00]
    ⟨0x2A2B, 0x2C, [0x16, 0x00, 0x01, 0x00, 0x02, 0x00, 0x03]⟩
    (by decide +kernel) (by decide +kernel) (by decide +kernel)
  rw [List.length_replicate] at h
  exact h

/-- `tcp_rsp_resync` -/
def tcpRspClean : Bytes := [0x2A, 0x2B, 0x00, 0x00, 0x00, 0x08, 0x2C, 0x16, 0x00, 0x01, 0x00, 0x02, 0x00, 0x03]

example : Tcp.decodeRsp (List.replicate 255 0x42 ++ tcpRspClean ++ [0x00])
    = .ok (some (⟨0x2A2B, 0x2C, [0x16, 0x00, 0x01, 0x00, 0x02, 0x00, 0x03]⟩, ⟨255, 14⟩)) := by
  have h := tcp_rsp_resync (List.replicate 255 0x42) tcpRspClean [0x00]
    ⟨0x2A2B, 0x2C, [0x16, 0x00, 0x01, 0x00, 0x02, 0x00, 0x03]⟩
    (by decide +kernel) (by decide +kernel) (by decide +kernel)
  rw [List.length_replicate] at h
  exact h

/-- `*_gives_up_unknown`: 257 (RTU) / 263 (TCP) bytes of 0x42 -/
example : (Rtu.decodeReq (List.replicate 257 0x42)).isErr = true :=
  rtu_req_gives_up_unknown _ (by decide +kernel) (by
    intro i hi c hc
    rw [List.getElem?_replicate] at hc
    split at hc
    · cases hc; decide
    · cases hc)
example : (Tcp.decodeRsp (List.replicate 263 0x42)).isErr = true :=
  tcp_rsp_gives_up_unknown _ (by decide +kernel) (by
    intro i hi c hc
    rw [List.getElem?_replicate] at hc
    split at hc
    · cases hc; decide
    · cases hc)

/-- `*_incomplete_short`: 256 bytes of 0x42 (every examined offset is rejected) -/
example : Rtu.decodeReq (List.replicate 256 0x42) = .ok none :=
  rtu_req_incomplete_short _ (by decide +kernel) (by decide +kernel) (by
    intro d hd
    rw [List.length_replicate] at hd
    have h1 : ((List.replicate 256 (0x42 : UInt8)).drop d)[1]? = some 0x42 := by
      rw [List.getElem?_drop, List.getElem?_replicate, if_pos (by omega)]
    rw [rtu_req_reject _ 0x42 h1 (by decide)]; rfl)

/-- `*_no_later` / `*_not_after`: hypotheses hold for the first example -/
example : ∃ f loc, Rtu.decodeReq (List.replicate 255 0x42 ++ rtuReq) = .ok (some (f, loc)) :=
  ⟨⟨0x11, [0x01, 0x00, 0x01, 0x00, 0x02]⟩, ⟨255, 8⟩, by decide +kernel⟩

/-- `*_at_zero`, `*_prefix_none`, `*_short` -/
example : Rtu.attemptReq (rtuReq ++ [0x42]) = .ok (some (⟨0x11, [0x01, 0x00, 0x01, 0x00, 0x02]⟩, 8)) := by
  decide +kernel
example : Rtu.attemptReq (rtuReq.take 5) = .ok none := by decide +kernel
example : Tcp.attemptReq (tcpReq.take 9) = .ok none := by decide +kernel

/-- `*_panic_iff`: the right-hand side is satisfiable only through the `usize` overflow guard of
`extractFrame`, which no predictor output (≤ 65 538) reaches; the scanners never panic on buffers that
short.  Instance of the left-to-right reading: the result on this buffer is not a panic. -/
example : Rtu.decodeReq (List.replicate 300 0x42) ≠ .panic := by decide +kernel

end Modbus.C14

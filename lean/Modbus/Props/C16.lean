import Modbus.Model.Codec
import Modbus.Spec.Wire
import Modbus.Lemmas.Encode
import Modbus.Lemmas.Coils
/-
C16 — coil packing is exact, LSB-first, and independent of buffer history.

Every statement is for every list of booleans (any length: no bound such as 2040 or 65535 unless
the Rust API itself imposes it through a `u16` count), every target/source/output (any length, any
contents) and every index value (`i : Nat`, so also `usize::MAX` and beyond).
`packedCoilsLen n = (n + 7) / 8 = ⌈n/8⌉`; `bitOf x k` is the model's `(x >> k) & 1 > 0`.
-/
namespace Modbus.C16

/-! ### packing -/

/-- packing into any sufficiently large target — whatever it held — returns ⌈n/8⌉ and leaves the
    target holding exactly the spec's packed field followed by its own untouched remaining bytes.
    The first ⌈n/8⌉ bytes of `t` do not occur on the right: independence of buffer history.
    (Holds for the empty list too, where the packed field is empty.) -/
theorem pack_spec (bs : List Bool) (t : Bytes) (hl : packedCoilsLen bs.length ≤ t.length) :
    packCoils bs t = .ok (packedCoilsLen bs.length, Spec.packBits bs ++ t.drop (packedCoilsLen bs.length)) :=
  packCoils_eq bs t hl

/-- the packed field has ⌈n/8⌉ bytes -/
theorem packed_length (bs : List Bool) : (Spec.packBits bs).length = (bs.length + 7) / 8 := by
  rw [packBits_length]; rfl

/-- coil `i` is bit `i mod 8` of byte `i div 8` -/
theorem packed_bit (bs : List Bool) (i : Nat) (h : i < bs.length) :
    ∃ x, (Spec.packBits bs)[i / 8]? = some x ∧ bitOf x (i % 8) = bs[i] := by
  have hb := packedCoilsLen_bound bs.length
  have hk : i / 8 < packedCoilsLen bs.length := by omega
  refine ⟨_, packBits_getElem? bs (i / 8) hk, ?_⟩
  rw [← bitAt_of_getElem? (packBits_getElem? bs (i / 8) hk), bitAt_packBits, getD_eq_getElem bs i h]

/-- the unused bits of the last byte are zero -/
theorem packed_padding (bs : List Bool) (i : Nat) (h1 : bs.length ≤ i) (h2 : i < 8 * packedCoilsLen bs.length) :
    ∃ x, (Spec.packBits bs)[i / 8]? = some x ∧ bitOf x (i % 8) = false := by
  have hk : i / 8 < packedCoilsLen bs.length := by omega
  refine ⟨_, packBits_getElem? bs (i / 8) hk, ?_⟩
  rw [← bitAt_of_getElem? (packBits_getElem? bs (i / 8) hk), bitAt_packBits]
  simp [List.getD_eq_getElem?_getD, List.getElem?_eq_none h1]

/-- the property stated directly on the output of `pack_coils`, without the spec function:
    whenever packing succeeds it returns ⌈n/8⌉, the target keeps its length, coil `i` is bit `i mod 8`
    of byte `i div 8`, the padding bits are zero, and every byte from ⌈n/8⌉ on is unchanged -/
theorem pack_direct (bs : List Bool) (t : Bytes) (m : Nat) (out : Bytes) (h : packCoils bs t = .ok (m, out)) :
    m = (bs.length + 7) / 8 ∧ out.length = t.length ∧
    (∀ i (hi : i < bs.length), ∃ x, out[i / 8]? = some x ∧ bitOf x (i % 8) = bs[i]) ∧
    (∀ i, bs.length ≤ i → i < 8 * m → ∃ x, out[i / 8]? = some x ∧ bitOf x (i % 8) = false) ∧
    (∀ k, m ≤ k → out[k]? = t[k]?) := by
  by_cases hl : packedCoilsLen bs.length ≤ t.length
  · rw [pack_spec bs t hl] at h
    obtain ⟨rfl, rfl⟩ : packedCoilsLen bs.length = m ∧
        Spec.packBits bs ++ t.drop (packedCoilsLen bs.length) = out := by simpa using h
    have hb := packedCoilsLen_bound bs.length
    refine ⟨rfl, ?_, ?_, ?_, ?_⟩
    · rw [List.length_append, packBits_length, List.length_drop]; omega
    · intro i hi
      obtain ⟨x, hx, hbit⟩ := packed_bit bs i hi
      refine ⟨x, ?_, hbit⟩
      rw [List.getElem?_append_left (by rw [packBits_length]; omega)]; exact hx
    · intro i h1 h2
      obtain ⟨x, hx, hbit⟩ := packed_padding bs i h1 h2
      refine ⟨x, ?_, hbit⟩
      rw [List.getElem?_append_left (by rw [packBits_length]; omega)]; exact hx
    · intro k hk
      rw [List.getElem?_append_right (by rw [packBits_length]; exact hk), packBits_length, List.getElem?_drop]
      congr 1; omega
  · rw [packCoils_small bs t (by omega)] at h; simp at h

/-- two targets of possibly different contents and capacity give the same packed field -/
theorem pack_independent (bs : List Bool) (t t' : Bytes) (m m' : Nat) (out out' : Bytes)
    (h : packCoils bs t = .ok (m, out)) (h' : packCoils bs t' = .ok (m', out')) :
    m = m' ∧ out.take m = out'.take m' := by
  have key : ∀ (t : Bytes) (m : Nat) (out : Bytes), packCoils bs t = .ok (m, out) →
      m = packedCoilsLen bs.length ∧ out.take m = Spec.packBits bs := by
    intro t m out h
    by_cases hl : packedCoilsLen bs.length ≤ t.length
    · rw [pack_spec bs t hl] at h
      obtain ⟨rfl, rfl⟩ : packedCoilsLen bs.length = m ∧
          Spec.packBits bs ++ t.drop (packedCoilsLen bs.length) = out := by simpa using h
      refine ⟨rfl, ?_⟩
      rw [List.take_append_of_le_length (by rw [packBits_length]; omega)]
      exact List.take_of_length_le (by rw [packBits_length]; omega)
    · rw [packCoils_small bs t (by omega)] at h; simp at h
  obtain ⟨e1, e2⟩ := key t m out h
  obtain ⟨e1', e2'⟩ := key t' m' out' h'
  exact ⟨by omega, by rw [e2, e2']⟩

/-- a too-small target is reported as `BufferSize` -/
theorem pack_small (bs : List Bool) (t : Bytes) (h : t.length < packedCoilsLen bs.length) :
    packCoils bs t = .err .bufferSize :=
  packCoils_small bs t h

/-- `pack_coils` never panics -/
theorem pack_ne_panic (bs : List Bool) (t : Bytes) : packCoils bs t ≠ .panic := by
  by_cases hl : packedCoilsLen bs.length ≤ t.length
  · rw [pack_spec bs t hl]; simp
  · rw [pack_small bs t (by omega)]; simp

/-! ### unpacking -/

/-- `unpack_coils` on any source: coil `i` of the output is bit `i mod 8` of source byte `i div 8`
    for `i < count`; the rest of the output is untouched -/
theorem unpack_spec (bytes : Bytes) (count : UInt16) (out : List Bool)
    (ho : count.toNat ≤ out.length) (hs : packedCoilsLen count.toNat ≤ bytes.length) :
    unpackCoils bytes count out = .ok ((List.range count.toNat).map (bitAt bytes) ++ out.drop count.toNat) :=
  unpackCoils_eq bytes count out ho hs

/-- unpacking the packed field (followed by any further source bytes) with count `n` into any output
    of length ≥ `n` gives back exactly the coils, followed by the untouched tail of the output.
    `n` is bounded by 65535 only because the Rust count parameter is a `u16`. -/
theorem unpack_pack (bs : List Bool) (extra : Bytes) (count : UInt16) (out : List Bool)
    (hc : count.toNat = bs.length) (ho : bs.length ≤ out.length) :
    unpackCoils (Spec.packBits bs ++ extra) count out = .ok (bs ++ out.drop bs.length) := by
  have hb := packedCoilsLen_bound bs.length
  rw [unpack_spec _ count out (by omega)
    (by rw [List.length_append, packBits_length, hc]; omega), hc, map_bitAt_packBits]

/-- the composition on the model functions themselves: pack into any target, unpack the target -/
theorem unpack_of_pack (bs : List Bool) (t : Bytes) (m : Nat) (packed : Bytes) (count : UInt16) (out : List Bool)
    (hp : packCoils bs t = .ok (m, packed)) (hc : count.toNat = bs.length) (ho : bs.length ≤ out.length) :
    unpackCoils packed count out = .ok (bs ++ out.drop bs.length) ∧
    unpackCoils (packed.take m) count out = .ok (bs ++ out.drop bs.length) := by
  by_cases hl : packedCoilsLen bs.length ≤ t.length
  · rw [pack_spec bs t hl] at hp
    obtain ⟨rfl, rfl⟩ : packedCoilsLen bs.length = m ∧
        Spec.packBits bs ++ t.drop (packedCoilsLen bs.length) = packed := by simpa using hp
    refine ⟨unpack_pack bs _ count out hc ho, ?_⟩
    rw [List.take_append_of_le_length (by rw [packBits_length]; omega),
      List.take_of_length_le (by rw [packBits_length]; omega)]
    have := unpack_pack bs [] count out hc ho
    simpa using this
  · rw [packCoils_small bs t (by omega)] at hp; simp at hp

/-- a source shorter than the count needs is reported as `BufferSize` (not an index panic) -/
theorem unpack_short_source (bytes : Bytes) (count : UInt16) (out : List Bool)
    (h : bytes.length < packedCoilsLen count.toNat) : unpackCoils bytes count out = .err .bufferSize := by
  unfold unpackCoils
  rw [if_pos (Or.inr h)]

/-- an output shorter than the count is reported as `BufferSize` -/
theorem unpack_short_output (bytes : Bytes) (count : UInt16) (out : List Bool)
    (h : out.length < count.toNat) : unpackCoils bytes count out = .err .bufferSize := by
  unfold unpackCoils
  rw [if_pos (Or.inl h)]

/-- `unpack_coils` never panics, for any source, count and output -/
theorem unpack_ne_panic (bytes : Bytes) (count : UInt16) (out : List Bool) :
    unpackCoils bytes count out ≠ .panic := by
  by_cases ho : count.toNat ≤ out.length
  · by_cases hs : packedCoilsLen count.toNat ≤ bytes.length
    · rw [unpack_spec bytes count out ho hs]; simp
    · rw [unpack_short_source bytes count out (by omega)]; simp
  · rw [unpack_short_output bytes count out (by omega)]; simp

/-! ### `Coils::from_bools` and the accessors -/

/-- the value `from_bools` builds over any sufficiently large target: the spec's packed field and the
    count — nothing of the target (neither its capacity nor its prior contents) remains in the value -/
theorem from_bools_spec (bs : List Bool) (t : Bytes) (hne : bs ≠ []) (hl : packedCoilsLen bs.length ≤ t.length) :
    Coils.fromBools bs t = .ok ⟨Spec.packBits bs, bs.length⟩ := by
  unfold Coils.fromBools
  have : bs.isEmpty = false := by cases bs with
    | nil => exact absurd rfl hne
    | cons _ _ => rfl
  simp only [this, Bool.false_eq_true, if_false, pack_spec bs t hl, Res.map_ok]
  congr 2
  rw [List.take_append_of_le_length (by rw [packBits_length]; exact Nat.le_refl _)]
  exact List.take_of_length_le (by rw [packBits_length]; exact Nat.le_refl _)

/-- an empty list is reported as an error -/
theorem from_bools_empty (t : Bytes) : Coils.fromBools [] t = .err .bufferSize := by
  simp [Coils.fromBools]

/-- a too-small target is reported as an error -/
theorem from_bools_small (bs : List Bool) (t : Bytes) (h : t.length < packedCoilsLen bs.length) :
    Coils.fromBools bs t = .err .bufferSize := by
  unfold Coils.fromBools
  split
  · rfl
  · rw [pack_small bs t h]; rfl

/-- `from_bools` never panics -/
theorem from_bools_ne_panic (bs : List Bool) (t : Bytes) : Coils.fromBools bs t ≠ .panic := by
  by_cases hne : bs = []
  · subst hne; rw [from_bools_empty]; simp
  · by_cases hl : packedCoilsLen bs.length ≤ t.length
    · rw [from_bools_spec bs t hne hl]; simp
    · rw [from_bools_small bs t (by omega)]; simp

/-- the outcome is completely determined -/
theorem from_bools_total (bs : List Bool) (t : Bytes) :
    Coils.fromBools bs t =
      if bs = [] ∨ t.length < packedCoilsLen bs.length then .err .bufferSize
      else .ok ⟨Spec.packBits bs, bs.length⟩ := by
  by_cases hne : bs = []
  · subst hne; simp [from_bools_empty]
  · by_cases hl : packedCoilsLen bs.length ≤ t.length
    · rw [from_bools_spec bs t hne hl, if_neg (by simp only [hne, false_or]; omega)]
    · rw [from_bools_small bs t (by omega), if_pos (Or.inr (by omega))]

/-- success of `from_bools`, with what other properties need of the value -/
theorem from_bools_ok (bs : List Bool) (t : Bytes) (hne : bs ≠ []) (hl : packedCoilsLen bs.length ≤ t.length) :
    ∃ c, Coils.fromBools bs t = .ok c ∧ c.quantity = bs.length ∧
      c.data.take c.packedLen = Spec.packBits bs ∧ c.packedLen ≤ c.data.length := by
  refine ⟨_, from_bools_spec bs t hne hl, rfl, ?_, ?_⟩
  · show (Spec.packBits bs).take (packedCoilsLen bs.length) = _
    exact List.take_of_length_le (by rw [packBits_length]; omega)
  · show packedCoilsLen bs.length ≤ (Spec.packBits bs).length
    rw [packBits_length]; omega

/-- every observation of a value built by `from_bools` (over any target): length, indexed access for
    EVERY index value, iteration, packed length, emptiness -/
theorem get_from_bools (bs : List Bool) (t : Bytes) (c : Coils) (h : Coils.fromBools bs t = .ok c) :
    c.len = bs.length ∧
    (∀ i : Nat, c.get i = .ok (if h : i < bs.length then some bs[i] else none)) ∧
    c.iter = .ok bs ∧
    c.packedLen = packedCoilsLen bs.length ∧
    c.isEmpty = false := by
  rw [from_bools_total] at h
  split at h
  · simp at h
  · rename_i hc
    cases h
    have hne : bs ≠ [] := fun e => hc (Or.inl e)
    refine ⟨rfl, fun i => by simpa using Coils.get_packBits bs [] i, by simpa using Coils.iter_packBits bs [], rfl, ?_⟩
    cases bs with
    | nil => exact absurd rfl hne
    | cons _ _ => simp [Coils.isEmpty]

/-- the bytes `copy_to` hands to the encoders are the spec's packed field (never a panic) -/
theorem copy_from_bools (bs : List Bool) (t : Bytes) (c : Coils) (h : Coils.fromBools bs t = .ok c) :
    c.copyBytes = .ok (Spec.packBits bs) := by
  rw [from_bools_total] at h
  split at h
  · simp at h
  · rename_i hc
    have hne : bs ≠ [] := fun e => hc (Or.inl e)
    cases h
    rw [Coils.copyBytes_eq, Coils.wire_packBits, if_neg]
    show ¬ (Spec.packBits bs).length < packedCoilsLen bs.length
    rw [packBits_length]; omega

/-! ### the value is a function of the booleans alone -/

/-- **value independence**: whenever `from_bools` succeeds — over ANY target, whatever its capacity and
    prior contents — the value is the spec's packed field of the booleans and their count, nothing else -/
theorem from_bools_value (bs : List Bool) (t : Bytes) (c : Coils) (h : Coils.fromBools bs t = .ok c) :
    c = ⟨Spec.packBits bs, bs.length⟩ := by
  rw [from_bools_total] at h
  split at h
  · simp at h
  · cases h; rfl

/-- two calls on the same booleans with ANY two targets (different capacities, different contents) give
    IDENTICAL values (structural equality of the raw slice and the count, not just equal observations) -/
theorem from_bools_value_independent (bs : List Bool) (t₁ t₂ : Bytes) (c₁ c₂ : Coils)
    (h₁ : Coils.fromBools bs t₁ = .ok c₁) (h₂ : Coils.fromBools bs t₂ = .ok c₂) : c₁ = c₂ := by
  rw [from_bools_value bs t₁ c₁ h₁, from_bools_value bs t₂ c₂ h₂]

/-- non-vacuity: a tight clean target and a larger dirty one give the same value -/
example : Coils.fromBools [true, false, true] [0x00] = .ok ⟨[0x05], 3⟩ ∧
    Coils.fromBools [true, false, true] [0xFF, 0xAA, 0x55] = .ok ⟨[0x05], 3⟩ := by
  constructor <;> decide +kernel

/-! ### for the encoder properties -/

/-- coil-payload PDUs built from the value are encodable whenever the byte count fits its field -/
theorem built_coils_encodable (bs : List Bool) (t : Bytes) (c : Coils) (a : UInt16)
    (h : Coils.fromBools bs t = .ok c) (h255 : packedCoilsLen bs.length ≤ 255) :
    (Request.writeMultipleCoils a c).Encodable ∧ (Response.readCoils c).Encodable ∧
    (Response.readDiscreteInputs c).Encodable := by
  rw [from_bools_total] at h
  split at h
  · simp at h
  · rename_i hc
    cases h
    have hl : packedCoilsLen bs.length ≤ (Spec.packBits bs).length := by
      rw [packBits_length]; omega
    exact ⟨⟨h255, hl⟩, ⟨h255, hl⟩, ⟨h255, hl⟩⟩

/-- the wire images of those PDUs are the spec's PDUs of the coils alone (no trace of the target) -/
theorem built_coils_image (bs : List Bool) (t : Bytes) (c : Coils) (a : UInt16)
    (h : Coils.fromBools bs t = .ok c) :
    (Request.writeMultipleCoils a c).image = Spec.reqBytes (.writeMultipleCoils a bs) ∧
    (Response.readCoils c).image = Spec.rspBytes (.readCoils bs) ∧
    (Response.readDiscreteInputs c).image = Spec.rspBytes (.readDiscreteInputs bs) := by
  rw [from_bools_total] at h
  split at h
  · simp at h
  · cases h
    have h3 := Coils.wire_packBits bs
    have hp : (Coils.mk (Spec.packBits bs) bs.length).packedLen = (bs.length + 7) / 8 := rfl
    refine ⟨?_, ?_, ?_⟩
    · simp only [Request.image, Coils.len, Spec.reqBytes, Spec.word, Spec.hi, Spec.lo, be16, hp, h3]
      simp
    · simp only [Response.image, Spec.rspBytes, hp, h3]
      simp
    · simp only [Response.image, Spec.rspBytes, hp, h3]
      simp

/-- Write Multiple Coils built from `from_bools` over ANY target: the encoder's whole outcome, for
    every output buffer, is the spec's PDU of the coils -/
theorem encode_write_multiple_coils (bs : List Bool) (t : Bytes) (c : Coils) (a : UInt16) (buf : Bytes)
    (h : Coils.fromBools bs t = .ok c) (h255 : packedCoilsLen bs.length ≤ 255) :
    (Request.writeMultipleCoils a c).encode buf =
      let pdu := Spec.reqBytes (.writeMultipleCoils a bs)
      if buf.length < pdu.length then .err .bufferSize else .ok (pdu.length, pdu ++ buf.drop pdu.length) := by
  rw [Request.encode_eq _ buf (built_coils_encodable bs t c a h h255).1, (built_coils_image bs t c a h).1]

theorem encode_read_coils (bs : List Bool) (t : Bytes) (c : Coils) (buf : Bytes)
    (h : Coils.fromBools bs t = .ok c) (h255 : packedCoilsLen bs.length ≤ 255) :
    (Response.readCoils c).encode buf =
      let pdu := Spec.rspBytes (.readCoils bs)
      if buf.length < pdu.length then .err .bufferSize else .ok (pdu.length, pdu ++ buf.drop pdu.length) := by
  rw [Response.encode_eq _ buf (built_coils_encodable bs t c 0 h h255).2.1, (built_coils_image bs t c 0 h).2.1]

theorem encode_read_discrete_inputs (bs : List Bool) (t : Bytes) (c : Coils) (buf : Bytes)
    (h : Coils.fromBools bs t = .ok c) (h255 : packedCoilsLen bs.length ≤ 255) :
    (Response.readDiscreteInputs c).encode buf =
      let pdu := Spec.rspBytes (.readDiscreteInputs bs)
      if buf.length < pdu.length then .err .bufferSize else .ok (pdu.length, pdu ++ buf.drop pdu.length) := by
  rw [Response.encode_eq _ buf (built_coils_encodable bs t c 0 h h255).2.2, (built_coils_image bs t c 0 h).2.2]

/-! ### non-vacuity: nine coils into a dirty target with one byte of excess capacity -/

example : Spec.packBits [true, false, true, true, false, false, true, true, true] = [0xCD, 0x01] := by
  decide +kernel

example : packCoils [true, false, true, true, false, false, true, true, true] [0xFF, 0xFF, 0xAA] =
    .ok (2, [0xCD, 0x01, 0xAA]) := by decide +kernel

example : packCoils [true, false, true, true, false, false, true, true, true] [0xFF] = .err .bufferSize := by
  decide +kernel

example : unpackCoils [0xCD, 0x01, 0xAA] 9 (List.replicate 10 true) =
    .ok [true, false, true, true, false, false, true, true, true, true] := by decide +kernel

example : unpackCoils [0xCD] 9 (List.replicate 10 true) = .err .bufferSize := by decide +kernel

example : unpackCoils [0xCD, 0x01] 9 (List.replicate 8 true) = .err .bufferSize := by decide +kernel

example : Coils.fromBools [true, false, true, true, false, false, true, true, true] [0xFF, 0xFF, 0xAA] =
    .ok ⟨[0xCD, 0x01], 9⟩ := by decide +kernel

example : (Coils.mk [0xCD, 0x01, 0xAA] 9).get 8 = .ok (some true) := by decide +kernel
example : (Coils.mk [0xCD, 0x01, 0xAA] 9).get 9 = .ok none := by decide +kernel
example : (Coils.mk [0xCD, 0x01, 0xAA] 9).get 65536 = .ok none := by decide +kernel
example : (Coils.mk [0xCD, 0x01, 0xAA] 9).get 18446744073709551615 = .ok none := by decide +kernel
example : (Coils.mk [0xCD, 0x01, 0xAA] 9).iter =
    .ok [true, false, true, true, false, false, true, true, true] := by decide +kernel

/-- the hypotheses of `encode_write_multiple_coils` are satisfiable, and neither the dirty bits of the
    target nor its excess byte (0xAA) reach the PDU -/
example : ∃ c, Coils.fromBools [true, false, true, true, false, false, true, true, true] [0xFF, 0xFF, 0xAA] = .ok c ∧
    (Request.writeMultipleCoils 5 c).encode (List.replicate 9 0x55) =
      .ok (8, [0x0F, 0, 5, 0, 9, 2, 0xCD, 0x01, 0x55]) :=
  ⟨⟨[0xCD, 0x01], 9⟩, by decide +kernel, by decide +kernel⟩

/-! ### the public `packed_coils_len` called directly -/

/-- the PUBLIC `packed_coils_len(bitcount: usize)` called directly, for EVERY argument value: it panics
    (checked `bitcount + 7`) exactly for the eight arguments above `usize::MAX - 7`, and otherwise
    returns ⌈bitcount/8⌉ -/
theorem packed_len_pub_spec (n : Nat) :
    packedCoilsLenPub n = (if usizeLimit ≤ n + 7 then .panic else .ok ((n + 7) / 8)) ∧
    (packedCoilsLenPub n = .panic ↔ usizeLimit ≤ n + 7) ∧
    (∀ m, packedCoilsLenPub n = .ok m ↔ (n + 7 < usizeLimit ∧ m = (n + 7) / 8)) ∧
    (∀ e, packedCoilsLenPub n ≠ .err e) := by
  unfold packedCoilsLenPub packedCoilsLen
  by_cases h : n + 7 < usizeLimit
  · rw [if_pos h, if_neg (by omega)]
    refine ⟨rfl, ?_, ?_, ?_⟩
    · constructor
      · intro h'; cases h'
      · intro h'; omega
    · intro m; constructor
      · intro h'; cases h'; exact ⟨h, rfl⟩
      · rintro ⟨_, rfl⟩; rfl
    · intro e h'; cases h'
  · rw [if_neg h, if_pos (by omega)]
    refine ⟨rfl, ?_, ?_, ?_⟩
    · exact ⟨fun _ => by omega, fun _ => rfl⟩
    · intro m; constructor
      · intro h'; cases h'
      · rintro ⟨h', _⟩; exact absurd h' h
    · intro e h'; cases h'

/-- every argument a caller can obtain as the length of a slice of booleans it holds is below
    `usize::MAX - 7` (a `[bool]` of `usize::MAX - 7` or more elements cannot exist: allocations are
    bounded by `isize::MAX` bytes); for all of them the public function returns the packed length the
    rest of the model uses -/
theorem packed_len_pub_reachable (bs : List Bool) (h : bs.length < usizeLimit - 7) :
    packedCoilsLenPub bs.length = .ok (packedCoilsLen bs.length) := by
  unfold packedCoilsLenPub
  rw [if_pos (by omega)]

example : packedCoilsLenPub [true, false, true].length = .ok 1 :=
  packed_len_pub_reachable [true, false, true] (by decide)
/-- `usize::MAX - 8` -/
example : packedCoilsLenPub 18446744073709551607 = .ok 2305843009213693951 := by decide +kernel
/-- `usize::MAX - 7`: the largest argument that does not overflow (`bitcount + 7 = usize::MAX`), and the
    largest length `packed_len_pub_reachable` allows -/
example : packedCoilsLenPub 18446744073709551608 = .ok 2305843009213693951 := by decide +kernel
/-- `usize::MAX - 6`: the smallest panicking argument -/
example : packedCoilsLenPub 18446744073709551609 = .panic := by decide +kernel
/-- `usize::MAX` -/
example : packedCoilsLenPub 18446744073709551615 = .panic := by decide +kernel
example : packedCoilsLenPub 0 = .ok 0 ∧ packedCoilsLenPub 1 = .ok 1 ∧ packedCoilsLenPub 8 = .ok 1 ∧
    packedCoilsLenPub 9 = .ok 2 := by decide +kernel
end Modbus.C16

import Modbus.Lemmas.ReqCodec
import Modbus.Lemmas.Coherent
/-
C01 — request PDU round-trip: decode(encode(r)) is r.

"The same request" is equality of meanings (`Request.sem`, Lemmas/Sem.lean): same kind, addresses,
quantities, the coil states / register words a user reads back through the container's iterator;
custom requests: the same function-code byte and data.  Raw container slices are never compared.

`Request.Built r m` (Lemmas/ReqCodec.lean) — `r` is the value the public constructors give for the
meaning `m`: fixed-size kinds with every 16-bit address / quantity / value, payload kinds built with
`Coils::from_bools` / `Data::from_words` over ANY target (any capacity, any previous contents), custom
requests with any `FunctionCode` value (`FunctionCode::new b` or `FunctionCode::Custom(b)`).
`m.fits` — the payload is within what the wire format can carry (1..=2040 coils, 1..=127 words);
`m.InScope` — a custom code is below 0x80 and not one of the nine codes the decoder models as a
dedicated kind (`modelledReqCodes`); `m.Unmodelled` drops the "below 0x80".
Nothing else is assumed: no bound on quantities (so also values beyond the Modbus limits 2000 / 125 /
1968 / 123), buffer contents or buffer length.
-/
namespace Modbus.C01

open Spec (ReqMeaning reqBytes)

/-- encoding into any large-enough buffer succeeds, returns exactly the length the request reports
    as its PDU length, and decoding those bytes gives a request with the same meaning -/
theorem req_roundtrip {r : Request} {m : ReqMeaning} (hb : r.Built m) (hf : m.fits) (hs : m.InScope)
    (buf : Bytes) (len : Nat) (hlen : r.pduLen = .ok len) (hl : len ≤ buf.length) :
    ∃ n out r', r.encode buf = .ok (n, out) ∧ r.pduLen = .ok n ∧
      Request.decode (out.take n) = .ok r' ∧ r'.sem = some m := by
  have hp : r.pduLen = .ok (reqBytes m).length := by
    rw [Request.pduLen_eq r (hb.encodable_iff.mpr hf), hb.image_eq]
  have hle : (reqBytes m).length ≤ buf.length := by
    rw [hp] at hlen; cases hlen; exact hl
  obtain ⟨r', hd, hsem⟩ := Request.decode_reqBytes m hf hs
  refine ⟨(reqBytes m).length, reqBytes m ++ buf.drop (reqBytes m).length, r', ?_, hp, ?_, hsem⟩
  · rw [hb.encode_fits hf buf, if_neg (by omega)]
  · rw [List.take_left']
    · exact hd
    · rfl

/-- the encoder's whole result on a large-enough buffer: the reported length, the spec's PDU, and the
    buffer's own bytes beyond it (DESIGN.md `req_encode_ok`) -/
theorem req_encode_ok {r : Request} {m : ReqMeaning} (hb : r.Built m) (hf : m.fits) (buf : Bytes)
    (hl : (reqBytes m).length ≤ buf.length) :
    r.pduLen = .ok (reqBytes m).length ∧
    r.encode buf = .ok ((reqBytes m).length, reqBytes m ++ buf.drop (reqBytes m).length) := by
  refine ⟨?_, ?_⟩
  · rw [Request.pduLen_eq r (hb.encodable_iff.mpr hf), hb.image_eq]
  · rw [hb.encode_fits hf buf, if_neg (by omega)]

/-- the reported PDU length always exists for such a request (so `req_roundtrip` is not vacuous in `len`)
    and a buffer shorter than it is refused with `BufferSize` -/
theorem req_pdu_len_ok {r : Request} {m : ReqMeaning} (hb : r.Built m) (hf : m.fits) :
    r.pduLen = .ok (reqBytes m).length ∧
    ∀ buf : Bytes, buf.length < (reqBytes m).length → r.encode buf = .err .bufferSize := by
  refine ⟨?_, ?_⟩
  · rw [Request.pduLen_eq r (hb.encodable_iff.mpr hf), hb.image_eq]
  · intro buf hlt
    rw [hb.encode_fits hf buf, if_pos hlt]

/-- the round trip through `RequestPdu::encode` (the same function) -/
theorem req_pdu_roundtrip {r : Request} {m : ReqMeaning} (hb : r.Built m) (hf : m.fits) (hs : m.InScope)
    (buf : Bytes) (len : Nat) (hlen : r.pduLen = .ok len) (hl : len ≤ buf.length) :
    ∃ n out r', RequestPdu.encode r buf = .ok (n, out) ∧ r.pduLen = .ok n ∧
      Request.decode (out.take n) = .ok r' ∧ r'.sem = some m :=
  req_roundtrip hb hf hs buf len hlen hl

/-! ### the IDENTICAL value comes back -/

/-- the requests whose decoded form can be the identical Rust value: every non-custom kind; a custom request
    when it carries `FunctionCode::Custom(c)` with `c < 0x80` not one of the nine modelled codes — that is the
    form `Request::try_from` wraps an unmodelled code in (for `FunctionCode::new(0x07) = ReadExceptionStatus`
    and the other named-but-unmodelled codes the decoded value is `Custom(Custom(0x07), …)`: same meaning,
    different variant, see the example below) -/
def ExactScope : Request → Prop
  | .custom fc _ => ∃ c, fc = .custom c ∧ c < 0x80 ∧ c ∉ modelledReqCodes
  | _ => True

instance (r : Request) : Decidable (ExactScope r) := by
  cases r with
  | custom fc d =>
    cases fc with
    | custom c =>
      exact decidable_of_iff (c < 0x80 ∧ c ∉ modelledReqCodes)
        ⟨fun h => ⟨c, rfl, h⟩, fun ⟨c', hc, h⟩ => by cases hc; exact h⟩
    | _ => exact isFalse (fun ⟨c, hc, _⟩ => by cases hc)
  | _ => exact isTrue trivial

/-- decoding the wire image of a constructible request in `ExactScope` whose payload fits gives back the
    IDENTICAL value (structural equality: same variant, same fields, the very same container — raw slice and
    count — because `from_bools` / `from_words` keep exactly the packed bytes) -/
theorem req_decode_image_exact {r : Request} {m : ReqMeaning} (hb : r.Built m) (hf : m.fits) (hx : ExactScope r) :
    Request.decode r.image = .ok r := by
  cases hb with
  | readCoils a q => exact Request.decode_fixed_image.1 a q
  | readDiscreteInputs a q => exact Request.decode_fixed_image.2.1 a q
  | readInputRegisters a q => exact Request.decode_fixed_image.2.2.1 a q
  | readHoldingRegisters a q => exact Request.decode_fixed_image.2.2.2.1 a q
  | writeSingleRegister a q => exact Request.decode_fixed_image.2.2.2.2 a q
  | writeSingleCoil a c => exact Request.decode_writeSingleCoil_image a c
  | writeMultipleCoils a bs t c h =>
    obtain ⟨_, _, rfl⟩ := Coils.fromBools_ok h
    obtain ⟨_, h255⟩ := hf
    have h1 : (Coils.mk (Spec.packBits bs) bs.length).packedLen ≤ 255 := h255
    have h2 : (Coils.mk (Spec.packBits bs) bs.length).packedLen ≤ (Spec.packBits bs).length := by
      rw [packBits_length]; exact Nat.le_refl _
    have := Request.redecode_wmc a ⟨Spec.packBits bs, bs.length⟩ (by show bs.length < 65536; omega) h1 h2
    rw [Coils.wire_packBits] at this
    exact this
  | writeMultipleRegisters a ws t d h =>
    obtain ⟨_, rfl⟩ := Data.fromWords_ok h
    obtain ⟨_, h255⟩ := hf
    exact Request.redecode_wmr a ⟨Spec.wordsBE ws, ws.length⟩ (by show ws.length < 65536; omega)
      (by show ws.length * 2 ≤ 255; omega) (wordsBE_length ws)
  | readWriteMultipleRegisters ra rq wa ws t d h =>
    obtain ⟨_, rfl⟩ := Data.fromWords_ok h
    obtain ⟨_, h255⟩ := hf
    exact Request.redecode_rwmr ra rq wa ⟨Spec.wordsBE ws, ws.length⟩ (by show ws.length < 65536; omega)
      (by show ws.length * 2 ≤ 255; omega) (wordsBE_length ws)
  | custom fc d =>
    obtain ⟨c, rfl, hlt, hc⟩ := hx
    show Request.decode (c :: d) = _
    rw [Request.decode_other c d hc, if_pos hlt]

/-- **same-value round trip**: for a constructible request in `ExactScope` whose payload fits, encoding into
    any large-enough buffer and decoding the bytes written returns `.ok r` — the identical value, not merely
    one with the same meaning -/
theorem req_roundtrip_exact {r : Request} {m : ReqMeaning} (hb : r.Built m) (hf : m.fits) (hx : ExactScope r)
    (buf : Bytes) (hl : (reqBytes m).length ≤ buf.length) :
    ∃ n out, r.encode buf = .ok (n, out) ∧ r.pduLen = .ok n ∧ Request.decode (out.take n) = .ok r := by
  obtain ⟨hp, he⟩ := req_encode_ok hb hf buf hl
  refine ⟨_, _, he, hp, ?_⟩
  rw [List.take_left' rfl, ← hb.image_eq]
  exact req_decode_image_exact hb hf hx

/-- outside `ExactScope`: `Custom(FunctionCode::new(0x07), [5])` (the named code Read Exception Status) comes
    back as `Custom(FunctionCode::Custom(0x07), [5])` — equal meaning, not the identical value -/
example : ¬ ExactScope (.custom (FunctionCode.new 0x07) [5]) ∧
    Request.decode (Request.custom (FunctionCode.new 0x07) [5]).image = .ok (.custom (.custom 0x07) [5]) ∧
    Request.custom (.custom 0x07) [5] ≠ Request.custom (FunctionCode.new 0x07) [5] ∧
    ExactScope (.custom (.custom 0x07) [5]) := by
  refine ⟨by decide +kernel, by decide +kernel, by decide +kernel, by decide +kernel⟩

/-- "the decoder may refuse, but it never returns a different request" — for EVERY constructible
    request (any payload size, any field values, also outside the Modbus limits), every custom code the
    library does not model as a dedicated kind (any byte value, also ≥ 0x80), and every buffer:
    if encoding succeeds and the decoder accepts the bytes, the result has the same meaning. -/
theorem req_never_other {r : Request} {m : ReqMeaning} (hb : r.Built m) (hu : m.Unmodelled)
    (buf : Bytes) (n : Nat) (out : Bytes) (r' : Request)
    (he : r.encode buf = .ok (n, out)) (hd : Request.decode (out.take n) = .ok r') :
    r'.sem = some m := by
  obtain ⟨hf, _, _, ht, _⟩ := hb.of_encode_ok he
  rw [ht] at hd
  exact Request.decode_reqBytes_sem m hf hu r' hd

/-- where the decoder does refuse: a custom code at or above 0x80 encodes, and the bytes are rejected
    with `Err(FnCode)` -/
theorem req_high_custom_refused (fc : FunctionCode) (data : Bytes) (buf : Bytes)
    (hc : fc.value ∉ modelledReqCodes) (h80 : ¬ fc.value < 0x80) (hl : 1 + data.length ≤ buf.length) :
    ∃ n out, (Request.custom fc data).encode buf = .ok (n, out) ∧ n = 1 + data.length ∧
      Request.decode (out.take n) = .err (.fnCode fc.value) := by
  have hb : (Request.custom fc data).Built (.custom fc.value data) := .custom fc data
  have hlen : (reqBytes (.custom fc.value data)).length = 1 + data.length := by
    show (fc.value :: data).length = _
    rw [List.length_cons]; omega
  refine ⟨(reqBytes (.custom fc.value data)).length,
    reqBytes (.custom fc.value data) ++ buf.drop (reqBytes (.custom fc.value data)).length, ?_, hlen, ?_⟩
  · rw [hb.encode_fits trivial buf, if_neg (by omega)]
  · rw [List.take_left' rfl]
    exact Request.decode_reqBytes_refuse fc.value data hc h80

/-- why `req_never_other` needs `Unmodelled`: a custom request whose code byte is one of the modelled
    kinds (here `Custom(FunctionCode::Custom(1), [0, 0, 0, 1])`) encodes to `01 00 00 00 01`, which the
    decoder reads as Read Coils — by the property's wording such codes are outside C01 -/
example : (Request.custom (.custom 1) [0, 0, 0, 1]).encode (List.replicate 5 0) = .ok (5, [1, 0, 0, 0, 1]) ∧
    Request.decode [1, 0, 0, 0, 1] = .ok (.readCoils 0 1) := by
  constructor <;> decide +kernel

/-! ### non-vacuity: concrete instances, evaluated in the kernel -/

section examples

private def nine : List Bool := [true, false, true, true, false, false, true, true, true]

/-- nine coils (crossing a byte boundary) built in a dirty target with excess capacity, address 0xFFFF -/
example : ∃ c, Coils.fromBools nine [0xFF, 0xFF, 0xAA] = .ok c ∧
    (Request.writeMultipleCoils 0xFFFF c).pduLen = .ok 8 ∧
    (Request.writeMultipleCoils 0xFFFF c).encode (List.replicate 10 0x55) =
      .ok (8, [0x0F, 0xFF, 0xFF, 0x00, 0x09, 0x02, 0xCD, 0x01, 0x55, 0x55]) ∧
    ∃ r', Request.decode [0x0F, 0xFF, 0xFF, 0x00, 0x09, 0x02, 0xCD, 0x01] = .ok r' ∧
      r'.sem = some (.writeMultipleCoils 0xFFFF nine) :=
  ⟨⟨[0xCD, 0x01], 9⟩, by decide +kernel, by decide +kernel, by decide +kernel,
    ⟨.writeMultipleCoils 0xFFFF ⟨[0xCD, 0x01], 9⟩, by decide +kernel, by decide +kernel⟩⟩

/-- the hypotheses of `req_roundtrip` for that request -/
example : (Request.writeMultipleCoils 0xFFFF ⟨[0xCD, 0x01], 9⟩).Built (.writeMultipleCoils 0xFFFF nine) ∧
    (ReqMeaning.writeMultipleCoils 0xFFFF nine).fits ∧ (ReqMeaning.writeMultipleCoils 0xFFFF nine).InScope :=
  ⟨.writeMultipleCoils 0xFFFF nine [0xFF, 0xFF, 0xAA] _ (by decide +kernel), by decide +kernel, trivial⟩

/-- … and `req_roundtrip_exact` applies: the identical value comes back -/
example : Request.decode [0x0F, 0xFF, 0xFF, 0x00, 0x09, 0x02, 0xCD, 0x01] =
    .ok (.writeMultipleCoils 0xFFFF ⟨[0xCD, 0x01], 9⟩) ∧ ExactScope (.writeMultipleCoils 0xFFFF ⟨[0xCD, 0x01], 9⟩) :=
  ⟨by decide +kernel, trivial⟩

private def words127 : List UInt16 := (List.range 127).map fun i => UInt16.ofNat (0xFF00 + i)

/-- 127 words (the largest payload the count field carries), address 0xFFFF, through the whole trip -/
example : ∃ d, Data.fromWords words127 (List.replicate 300 0xEE) = .ok d ∧
    (Request.writeMultipleRegisters 0xFFFF d).Built (.writeMultipleRegisters 0xFFFF words127) ∧
    (ReqMeaning.writeMultipleRegisters 0xFFFF words127).fits ∧
    (Request.writeMultipleRegisters 0xFFFF d).pduLen = .ok 260 ∧
    ∃ out r', (Request.writeMultipleRegisters 0xFFFF d).encode (List.replicate 260 0) = .ok (260, out) ∧
      Request.decode (out.take 260) = .ok r' ∧ r'.sem = some (.writeMultipleRegisters 0xFFFF words127) := by
  have h : Data.fromWords words127 (List.replicate 300 0xEE) = .ok ⟨Spec.wordsBE words127, 127⟩ := by
    decide +kernel
  refine ⟨_, h, .writeMultipleRegisters 0xFFFF words127 _ _ h, by decide +kernel, by decide +kernel,
    Spec.reqBytes (.writeMultipleRegisters 0xFFFF words127),
    .writeMultipleRegisters 0xFFFF ⟨Spec.wordsBE words127, 127⟩, by decide +kernel, by decide +kernel,
    by decide +kernel⟩

/-- read-write multiple registers, all three 16-bit fields at 0xFFFF -/
example : Request.decode [0x17, 0xFF, 0xFF, 0xFF, 0xFF, 0xFF, 0xFF, 0x00, 0x02, 0x04, 0x12, 0x34, 0xAB, 0xCD] =
    .ok (.readWriteMultipleRegisters 0xFFFF 0xFFFF 0xFFFF ⟨[0x12, 0x34, 0xAB, 0xCD], 2⟩) ∧
    (Request.readWriteMultipleRegisters 0xFFFF 0xFFFF 0xFFFF ⟨[0x12, 0x34, 0xAB, 0xCD], 2⟩).encode
      (List.replicate 14 0) =
      .ok (14, [0x17, 0xFF, 0xFF, 0xFF, 0xFF, 0xFF, 0xFF, 0x00, 0x02, 0x04, 0x12, 0x34, 0xAB, 0xCD]) := by
  constructor <;> decide +kernel

/-- a custom request 0x41 -/
example : (Request.custom (FunctionCode.new 0x41) [1, 2, 3]).Built (.custom 0x41 [1, 2, 3]) ∧
    (ReqMeaning.custom 0x41 [1, 2, 3]).InScope ∧
    (Request.custom (FunctionCode.new 0x41) [1, 2, 3]).encode [9, 9, 9, 9, 9] = .ok (4, [0x41, 1, 2, 3, 9]) ∧
    Request.decode [0x41, 1, 2, 3] = .ok (.custom (.custom 0x41) [1, 2, 3]) ∧
    (Request.custom (.custom 0x41) [1, 2, 3]).sem = some (.custom 0x41 [1, 2, 3]) :=
  ⟨.custom (FunctionCode.new 0x41) [1, 2, 3], by decide +kernel, by decide +kernel, by decide +kernel,
    by decide +kernel⟩

/-- a custom request whose code `FunctionCode::new` names (0x07 = ReadExceptionStatus) but the request
    decoder does not model: same code byte and data after the trip, as a different Rust variant -/
example : (Request.custom (FunctionCode.new 0x07) [5]).Built (.custom 0x07 [5]) ∧
    (ReqMeaning.custom 0x07 [5]).InScope ∧
    (Request.custom (FunctionCode.new 0x07) [5]).encode [0, 0] = .ok (2, [0x07, 5]) ∧
    Request.decode [0x07, 5] = .ok (.custom (.custom 0x07) [5]) :=
  ⟨.custom (FunctionCode.new 0x07) [5], by decide +kernel, by decide +kernel, by decide +kernel⟩

/-- the hypotheses of `req_high_custom_refused` -/
example : (FunctionCode.custom 0x90).value ∉ modelledReqCodes ∧ ¬ (FunctionCode.custom 0x90).value < 0x80 := by
  decide +kernel

end examples

end Modbus.C01

import Modbus.Model.Rtu
import Modbus.Lemmas.Basic
import Modbus.Lemmas.Scan
/-
C08 (soundness half) — RTU extraction is sound.

Whenever `rtu::extract_frame`, `rtu::decode` (either direction) or one of the two RTU ADU decoders
returns a frame, that frame lies wholly inside the input at the reported location
(`start + size ≤ length`, `size = PDU length + 3`), its slave id and PDU are exactly the bytes at that
location, and the two bytes after the PDU are the CRC-16 of slave id and PDU.
Every statement is for every buffer (no length bound) and every claimed PDU length.

The error-detection half of C08 (single/double/burst errors) lives elsewhere.
-/
namespace Modbus.C08

/-- the frame used in the satisfiability examples: slave 0x11, ReadCoils(1, 2), CRC 0xEE9B -/
def sampleFrame : Bytes := [0x11, 0x01, 0x00, 0x01, 0x00, 0x02, 0xEE, 0x9B]

/-- **extraction is sound**: a frame returned for a claimed PDU length `n` is the `n + 3` bytes at the
front of the buffer: slave id, `n` PDU bytes, and the big-endian CRC-16 of those `n + 1` bytes. -/
theorem rtu_extract_sound (buf : Bytes) (n : Nat) (f : Rtu.Frame)
    (h : Rtu.extractFrame buf n = .ok (some f)) :
    ∃ _hl : n + 3 ≤ buf.length,
      f.slave = buf[0] ∧ f.pdu = (buf.drop 1).take n ∧ f.pdu.length = n ∧
      rd16 buf[n + 1] buf[n + 2] = crc16 (buf.take (n + 1)) := by
  unfold Rtu.extractFrame at h
  split at h
  · simp at h
  split at h
  · simp at h
  simp only at h
  split at h
  next hlen =>
    have hl : n + 3 ≤ buf.length := by omega
    refine ⟨hl, ?_⟩
    have hr : read16 (buf.drop (1 + n)) 0 = .ok (rd16 buf[n + 1] buf[n + 2]) := by
      rw [read16_eq_ok (by rw [List.length_drop]; omega)]
      simp only [List.getElem_drop]
      congr 2 <;> (congr 1; omega)
    rw [hr] at h
    simp only [Res.bind'_ok] at h
    split at h
    · simp at h
    next hcrc =>
      have hi : idx (buf.take (1 + n)) 0 = .ok buf[0] := by
        rw [idx_eq_ok (by rw [List.length_take]; omega)]
        simp
      rw [hi] at h
      simp only [Res.bind'_ok, Res.ok.injEq, Option.some.injEq] at h
      subst h
      simp at hcrc
      refine ⟨rfl, ?_, ?_, ?_⟩
      · simp only
        rw [List.drop_take]; congr 1; omega
      · simp; omega
      · rw [hcrc, Nat.add_comm]
  · simp at h

example : Rtu.extractFrame sampleFrame 5 = .ok (some ⟨0x11, [0x01, 0x00, 0x01, 0x00, 0x02]⟩) := by
  decide +kernel

/-- the same with optional indexing instead of bound proofs -/
theorem rtu_extract_sound' (buf : Bytes) (n : Nat) (f : Rtu.Frame)
    (h : Rtu.extractFrame buf n = .ok (some f)) :
    n + 3 ≤ buf.length ∧ buf[0]? = some f.slave ∧ f.pdu = (buf.drop 1).take n ∧ f.pdu.length = n ∧
    ∃ hi lo, buf[n + 1]? = some hi ∧ buf[n + 2]? = some lo ∧ rd16 hi lo = crc16 (buf.take (n + 1)) := by
  obtain ⟨hl, h1, h2, h3, h4⟩ := rtu_extract_sound buf n f h
  refine ⟨hl, ?_, h2, h3, buf[n + 1], buf[n + 2], ?_, ?_, h4⟩
  · rw [h1, List.getElem?_eq_getElem]
  · rw [List.getElem?_eq_getElem]
  · rw [List.getElem?_eq_getElem]

/-- extraction never returns a frame whose PDU length differs from the claimed one, so the claimed
length can be read back from the frame -/
theorem rtu_extract_len (buf : Bytes) (n : Nat) (f : Rtu.Frame)
    (h : Rtu.extractFrame buf n = .ok (some f)) : f.pdu.length = n :=
  (rtu_extract_sound buf n f h).2.2.2.1

/-- both attempts (request and response direction) return only what `extractFrame` returned, with
`size = PDU length + 3` -/
theorem rtu_attemptReq_sound (raw : Bytes) (f : Rtu.Frame) (sz : Nat)
    (h : Rtu.attemptReq raw = .ok (some (f, sz))) :
    sz = f.pdu.length + 3 ∧ Rtu.extractFrame raw f.pdu.length = .ok (some f) := by
  obtain ⟨n, _, he, hs⟩ := mkAttempt_some _ _ _ _ _ _ h
  have hn := rtu_extract_len raw n f he
  subst hn
  exact ⟨hs, he⟩

theorem rtu_attemptRsp_sound (raw : Bytes) (f : Rtu.Frame) (sz : Nat)
    (h : Rtu.attemptRsp raw = .ok (some (f, sz))) :
    sz = f.pdu.length + 3 ∧ Rtu.extractFrame raw f.pdu.length = .ok (some f) := by
  obtain ⟨n, _, he, hs⟩ := mkAttempt_some _ _ _ _ _ _ h
  have hn := rtu_extract_len raw n f he
  subst hn
  exact ⟨hs, he⟩

example : Rtu.attemptReq sampleFrame = .ok (some (⟨0x11, [0x01, 0x00, 0x01, 0x00, 0x02]⟩, 8)) := by
  decide +kernel

/-- The location facts for any scanner whose attempt only returns what `extractFrame` returned. -/
theorem rtu_scan_sound_of (att : Attempt Rtu.Frame)
    (hatt : ∀ raw f sz, att raw = .ok (some (f, sz)) →
      sz = f.pdu.length + 3 ∧ Rtu.extractFrame raw f.pdu.length = .ok (some f))
    (buf : Bytes) (f : Rtu.Frame) (loc : Loc) (h : scan att buf = .ok (some (f, loc))) :
    loc.start < 256 ∧ loc.start + loc.size ≤ buf.length ∧ loc.size = f.pdu.length + 3 ∧
    ∃ _hl : loc.start + f.pdu.length + 3 ≤ buf.length,
      f.slave = buf[loc.start] ∧
      f.pdu = (buf.drop (loc.start + 1)).take f.pdu.length ∧
      rd16 buf[loc.start + f.pdu.length + 1] buf[loc.start + f.pdu.length + 2]
        = crc16 ((buf.drop loc.start).take (f.pdu.length + 1)) := by
  obtain ⟨h1, _, h3, _⟩ := scan_no_later att buf f loc h
  obtain ⟨hsz, hex⟩ := hatt _ _ _ h3
  obtain ⟨hl, e1, e2, _, e4⟩ := rtu_extract_sound _ _ _ hex
  rw [List.length_drop] at hl
  have hl' : loc.start + f.pdu.length + 3 ≤ buf.length := by omega
  refine ⟨h1, by omega, hsz, hl', ?_, ?_, ?_⟩
  · rw [e1, List.getElem_drop]; rfl
  · rw [List.drop_drop] at e2; exact e2
  · rw [← e4]
    simp only [List.getElem_drop]
    congr 2 <;> (congr 1; omega)

/-- **scanning is sound, request direction**: a frame reported by `rtu::decode(Request, buf)` lies
inside the input at the reported location, `size = PDU length + 3`, the slave id and PDU are the bytes
there and the two bytes after the PDU are the CRC-16 of the `PDU length + 1` bytes from `start`. -/
theorem rtu_scan_sound_req (buf : Bytes) (f : Rtu.Frame) (loc : Loc)
    (h : Rtu.decodeReq buf = .ok (some (f, loc))) :
    loc.start < 256 ∧ loc.start + loc.size ≤ buf.length ∧ loc.size = f.pdu.length + 3 ∧
    ∃ _hl : loc.start + f.pdu.length + 3 ≤ buf.length,
      f.slave = buf[loc.start] ∧
      f.pdu = (buf.drop (loc.start + 1)).take f.pdu.length ∧
      rd16 buf[loc.start + f.pdu.length + 1] buf[loc.start + f.pdu.length + 2]
        = crc16 ((buf.drop loc.start).take (f.pdu.length + 1)) :=
  rtu_scan_sound_of Rtu.attemptReq rtu_attemptReq_sound buf f loc h

/-- **scanning is sound, response direction** -/
theorem rtu_scan_sound_rsp (buf : Bytes) (f : Rtu.Frame) (loc : Loc)
    (h : Rtu.decodeRsp buf = .ok (some (f, loc))) :
    loc.start < 256 ∧ loc.start + loc.size ≤ buf.length ∧ loc.size = f.pdu.length + 3 ∧
    ∃ _hl : loc.start + f.pdu.length + 3 ≤ buf.length,
      f.slave = buf[loc.start] ∧
      f.pdu = (buf.drop (loc.start + 1)).take f.pdu.length ∧
      rd16 buf[loc.start + f.pdu.length + 1] buf[loc.start + f.pdu.length + 2]
        = crc16 ((buf.drop loc.start).take (f.pdu.length + 1)) :=
  rtu_scan_sound_of Rtu.attemptRsp rtu_attemptRsp_sound buf f loc h

/-- the same, phrased about the buffer with the first `loc.start` bytes dropped: extraction at that
offset with the frame's own PDU length returns the frame (so `rtu_extract_sound` applies verbatim) -/
theorem rtu_scan_extract_req (buf : Bytes) (f : Rtu.Frame) (loc : Loc)
    (h : Rtu.decodeReq buf = .ok (some (f, loc))) :
    Rtu.extractFrame (buf.drop loc.start) f.pdu.length = .ok (some f) :=
  (rtu_attemptReq_sound _ _ _ (scan_no_later _ buf f loc h).2.2.1).2

theorem rtu_scan_extract_rsp (buf : Bytes) (f : Rtu.Frame) (loc : Loc)
    (h : Rtu.decodeRsp buf = .ok (some (f, loc))) :
    Rtu.extractFrame (buf.drop loc.start) f.pdu.length = .ok (some f) :=
  (rtu_attemptRsp_sound _ _ _ (scan_no_later _ buf f loc h).2.2.1).2

/-- two bytes of line noise in front of the sample frame: found at start 2, size 8 -/
example : Rtu.decodeReq ([0x42, 0x43] ++ sampleFrame)
    = .ok (some (⟨0x11, [0x01, 0x00, 0x01, 0x00, 0x02]⟩, ⟨2, 8⟩)) := by decide +kernel

example : Rtu.decodeRsp ([0x42, 0x43] ++ [0x11, 0x01, 0x01, 0x05, 0x95, 0x4B] ++ [0x00])
    = .ok (some (⟨0x11, [0x01, 0x01, 0x05]⟩, ⟨2, 6⟩)) := by decide +kernel

/-- **the property's contrapositive**: if the two bytes after the PDU at a location are *not* the CRC-16
of slave id and PDU there, no frame is reported at that location (request direction) -/
theorem rtu_no_frame_without_crc_req (buf : Bytes) (f : Rtu.Frame) (loc : Loc)
    (hbad : ∀ hi lo, buf[loc.start + loc.size - 2]? = some hi → buf[loc.start + loc.size - 1]? = some lo →
      rd16 hi lo ≠ crc16 ((buf.drop loc.start).take (loc.size - 2))) :
    Rtu.decodeReq buf ≠ .ok (some (f, loc)) := by
  intro h
  obtain ⟨_, _, hsz, hl, _, _, hcrc⟩ := rtu_scan_sound_req buf f loc h
  have i1 : loc.start + loc.size - 2 = loc.start + f.pdu.length + 1 := by omega
  have i2 : loc.start + loc.size - 1 = loc.start + f.pdu.length + 2 := by omega
  have i3 : loc.size - 2 = f.pdu.length + 1 := by omega
  rw [i1, i2, i3] at hbad
  exact hbad _ _ (List.getElem?_eq_getElem _) (List.getElem?_eq_getElem _) hcrc

/-- … response direction -/
theorem rtu_no_frame_without_crc_rsp (buf : Bytes) (f : Rtu.Frame) (loc : Loc)
    (hbad : ∀ hi lo, buf[loc.start + loc.size - 2]? = some hi → buf[loc.start + loc.size - 1]? = some lo →
      rd16 hi lo ≠ crc16 ((buf.drop loc.start).take (loc.size - 2))) :
    Rtu.decodeRsp buf ≠ .ok (some (f, loc)) := by
  intro h
  obtain ⟨_, _, hsz, hl, _, _, hcrc⟩ := rtu_scan_sound_rsp buf f loc h
  have i1 : loc.start + loc.size - 2 = loc.start + f.pdu.length + 1 := by omega
  have i2 : loc.start + loc.size - 1 = loc.start + f.pdu.length + 2 := by omega
  have i3 : loc.size - 2 = f.pdu.length + 1 := by omega
  rw [i1, i2, i3] at hbad
  exact hbad _ _ (List.getElem?_eq_getElem _) (List.getElem?_eq_getElem _) hcrc

/-- … and for extraction itself: a wrong CRC after the claimed PDU length ⇒ no frame -/
theorem rtu_no_extract_without_crc (buf : Bytes) (n : Nat) (f : Rtu.Frame)
    (hbad : ∀ hi lo, buf[n + 1]? = some hi → buf[n + 2]? = some lo →
      rd16 hi lo ≠ crc16 (buf.take (n + 1))) :
    Rtu.extractFrame buf n ≠ .ok (some f) := by
  intro h
  obtain ⟨_, _, _, _, hi, lo, h1, h2, h3⟩ := rtu_extract_sound' buf n f h
  exact hbad hi lo h1 h2 h3

/-- the hypothesis of the contrapositive on a concrete buffer: the sample frame with its last byte
changed (0x9B → 0x9A), at location (0, 8) -/
example : ∀ hi lo, (sampleFrame.set 7 0x9A)[0 + 8 - 2]? = some hi → (sampleFrame.set 7 0x9A)[0 + 8 - 1]? = some lo →
    rd16 hi lo ≠ crc16 (((sampleFrame.set 7 0x9A).drop 0).take (8 - 2)) := by
  intro hi lo h1 h2
  have e1 : hi = 0xEE := by
    have : (sampleFrame.set 7 0x9A)[0 + 8 - 2]? = some 0xEE := by decide +kernel
    rw [this] at h1; exact (Option.some.inj h1).symm
  have e2 : lo = 0x9A := by
    have : (sampleFrame.set 7 0x9A)[0 + 8 - 1]? = some 0x9A := by decide +kernel
    rw [this] at h2; exact (Option.some.inj h2).symm
  subst e1 e2
  decide +kernel

/-! ### The ADU decoders inherit soundness -/

/-- `rtu::server::decode_request` returns only what the scanner found: the slave id of the scanned
frame and the decoding of its PDU -/
theorem rtu_server_decode_of_scan (buf : Bytes) (s : UInt8) (r : Request)
    (h : Rtu.serverDecodeRequest buf = .ok (some (s, r))) :
    ∃ f loc, Rtu.decodeReq buf = .ok (some (f, loc)) ∧ f.slave = s ∧ Request.decode f.pdu = .ok r := by
  unfold Rtu.serverDecodeRequest at h
  split at h
  · simp at h
  cases hd : Rtu.decodeReq buf with
  | ok a =>
    cases a with
    | none => simp [hd] at h
    | some p =>
      obtain ⟨f, loc⟩ := p
      rw [hd] at h
      simp only [Res.bind'_ok] at h
      cases hr : Request.decode f.pdu with
      | ok r' =>
        rw [hr] at h
        simp only [Res.map_ok, Res.ok.injEq, Option.some.injEq, Prod.mk.injEq] at h
        exact ⟨f, loc, rfl, h.1, by rw [hr, h.2]⟩
      | panic => simp [hr] at h
      | err e => simp [hr] at h
  | panic => simp [hd] at h
  | err e => simp [hd] at h

/-- `rtu::client::decode_response` returns only what the scanner found: the slave id of the scanned
frame and its PDU decoded as an exception response, or — only when that fails with an error — as a
normal response -/
theorem rtu_client_decode_of_scan (buf : Bytes) (s : UInt8) (p : ResponsePdu)
    (h : Rtu.clientDecodeResponse buf = .ok (some (s, p))) :
    ∃ f loc, Rtu.decodeRsp buf = .ok (some (f, loc)) ∧ f.slave = s ∧
      ((∃ e, p = .error e ∧ ExceptionResponse.decode f.pdu = .ok e) ∨
       (∃ r, p = .ok r ∧ (ExceptionResponse.decode f.pdu).isErr = true ∧ Response.decode f.pdu = .ok r)) := by
  unfold Rtu.clientDecodeResponse at h
  split at h
  · simp at h
  cases hd : Rtu.decodeRsp buf with
  | ok a =>
    cases a with
    | none => simp [hd] at h
    | some q =>
      obtain ⟨f, loc⟩ := q
      rw [hd] at h
      simp only [Res.bind'_ok] at h
      refine ⟨f, loc, rfl, ?_⟩
      cases hx : ExceptionResponse.decode f.pdu with
      | ok e =>
        rw [hx] at h
        simp only [Res.ok.injEq, Option.some.injEq, Prod.mk.injEq] at h
        exact ⟨h.1, Or.inl ⟨e, h.2.symm, rfl⟩⟩
      | panic => rw [hx] at h; simp at h
      | err e =>
        rw [hx] at h
        simp only at h
        cases hr : Response.decode f.pdu with
        | ok r' =>
          rw [hr] at h
          simp only [Res.map_ok, Res.ok.injEq, Option.some.injEq, Prod.mk.injEq] at h
          exact ⟨h.1, Or.inr ⟨r', h.2.symm, rfl, rfl⟩⟩
        | panic => simp [hr] at h
        | err e => simp [hr] at h
  | panic => simp [hd] at h
  | err e => simp [hd] at h

/-- **`rtu::server::decode_request` is sound in terms of the input bytes**: the returned slave id is
the byte at some offset `start < 256`, the returned request is the decoding of the `n` bytes after it,
these `n + 3` bytes lie inside the input and end with the CRC-16 of the first `n + 1` of them. -/
theorem rtu_server_decode_sound (buf : Bytes) (s : UInt8) (r : Request)
    (h : Rtu.serverDecodeRequest buf = .ok (some (s, r))) :
    ∃ (start n : Nat) (_hl : start + n + 3 ≤ buf.length),
      start < 256 ∧ s = buf[start] ∧ Request.decode ((buf.drop (start + 1)).take n) = .ok r ∧
      rd16 buf[start + n + 1] buf[start + n + 2] = crc16 ((buf.drop start).take (n + 1)) := by
  obtain ⟨f, loc, hd, hs, hr⟩ := rtu_server_decode_of_scan buf s r h
  obtain ⟨h1, _, _, hl, e1, e2, e3⟩ := rtu_scan_sound_req buf f loc hd
  exact ⟨loc.start, f.pdu.length, hl, h1, by rw [← hs, e1], by rw [← e2]; exact hr, e3⟩

/-- **`rtu::client::decode_response` is sound in terms of the input bytes** -/
theorem rtu_client_decode_sound (buf : Bytes) (s : UInt8) (p : ResponsePdu)
    (h : Rtu.clientDecodeResponse buf = .ok (some (s, p))) :
    ∃ (start n : Nat) (_hl : start + n + 3 ≤ buf.length),
      start < 256 ∧ s = buf[start] ∧
      ((∃ e, p = .error e ∧ ExceptionResponse.decode ((buf.drop (start + 1)).take n) = .ok e) ∨
       (∃ r, p = .ok r ∧ Response.decode ((buf.drop (start + 1)).take n) = .ok r)) ∧
      rd16 buf[start + n + 1] buf[start + n + 2] = crc16 ((buf.drop start).take (n + 1)) := by
  obtain ⟨f, loc, hd, hs, hr⟩ := rtu_client_decode_of_scan buf s p h
  obtain ⟨h1, _, _, hl, e1, e2, e3⟩ := rtu_scan_sound_rsp buf f loc hd
  refine ⟨loc.start, f.pdu.length, hl, h1, by rw [← hs, e1], ?_, e3⟩
  rw [← e2]
  rcases hr with ⟨e, he1, he2⟩ | ⟨r, hr1, _, hr3⟩
  · exact Or.inl ⟨e, he1, he2⟩
  · exact Or.inr ⟨r, hr1, hr3⟩

example : Rtu.serverDecodeRequest ([0x42, 0x43] ++ sampleFrame) = .ok (some (0x11, .readCoils 1 2)) := by
  decide +kernel

example : Rtu.clientDecodeResponse ([0x42, 0x43] ++ [0x11, 0x01, 0x01, 0x05, 0x95, 0x4B])
    = .ok (some (0x11, .ok (.readCoils { data := [5], quantity := 8 }))) := by
  decide +kernel

example : Rtu.clientDecodeResponse ([0x42, 0x43] ++ [0x11, 0x81, 0x02, 0xC0, 0x54])
    = .ok (some (0x11, .error { function := .readCoils, exception := .illegalDataAddress })) := by
  decide +kernel

end Modbus.C08

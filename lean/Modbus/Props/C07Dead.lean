import Modbus.Model.Rtu
import Modbus.Model.Tcp
import Modbus.Lemmas.Basic
import Modbus.Lemmas.Bytes
import Modbus.Lemmas.Scan
import Modbus.Lemmas.TcpHeader
import Modbus.Lemmas.Total
import Modbus.Lemmas.RspCodec
import Modbus.Props.C08
import Modbus.Props.C09
/-
C07 (dead branches) — branches of the crate that the differential test stream never reaches are
unreachable in the model:

A. after framing succeeds, the PDU stage of `rtu::client::decode_response` /
   `tcp::server::decode_response` cannot fail (their `inspect_err` closures are dead);
B. the second header check inside `tcp::extract_frame` is dead;
C. the post-encode size test of `tcp::server::encode_request` / `encode_response` is dead.
-/
namespace Modbus.C07Dead

/-! ### A. the response length predictor, with the function-code byte and what follows it made explicit -/

/-- `response_pdu_len` as a function of the function-code byte and the bytes after it -/
def predG (fc : UInt8) (rest : Bytes) : Res (Option Nat) :=
  if (0x01 ≤ fc ∧ fc ≤ 0x04) ∨ fc = 0x0C ∨ fc = 0x17 then
    if rest.length > 0 then (idx rest 0).bind fun c => .ok (some (2 + c.toNat)) else .ok none
  else if fc = 0x05 ∨ fc = 0x06 ∨ fc = 0x0B ∨ fc = 0x0F ∨ fc = 0x10 then .ok (some 5)
  else if fc = 0x07 ∨ (0x81 ≤ fc ∧ fc ≤ 0xAB) then .ok (some 2)
  else if fc = 0x16 then .ok (some 7)
  else if fc = 0x18 then
    if rest.length > 1 then (read16 rest 0).bind fun c => .ok (some (3 + c.toNat)) else .ok none
  else .err (.fnCode fc)

theorem rtu_pred_eq (s fc : UInt8) (rest : Bytes) :
    Rtu.responsePduLen (s :: fc :: rest) = predG fc rest := by
  have h1 : ¬ ((s :: fc :: rest).length < 2) := by simp only [List.length_cons]; omega
  have h2 : ((s :: fc :: rest).length > 2) = (rest.length > 0) := by
    simp only [List.length_cons]; apply propext; omega
  have h3 : ((s :: fc :: rest).length > 3) = (rest.length > 1) := by
    simp only [List.length_cons]; apply propext; omega
  have i1 : idx (s :: fc :: rest) 1 = .ok fc := rfl
  have i2 : idx (s :: fc :: rest) 2 = idx rest 0 := rfl
  have r2 : read16 (s :: fc :: rest) 2 = read16 rest 0 := rfl
  unfold Rtu.responsePduLen predG
  rw [if_neg h1, i1, Res.bind'_ok, i2, r2]
  simp only [h2, h3]

theorem tcp_pred_eq (a0 a1 a2 a3 a4 a5 a6 fc : UInt8) (rest : Bytes) :
    Tcp.responsePduLen (a0 :: a1 :: a2 :: a3 :: a4 :: a5 :: a6 :: fc :: rest) = predG fc rest := by
  have h1 : ¬ ((a0 :: a1 :: a2 :: a3 :: a4 :: a5 :: a6 :: fc :: rest).length < 8) := by
    simp only [List.length_cons]; omega
  have h2 : ((a0 :: a1 :: a2 :: a3 :: a4 :: a5 :: a6 :: fc :: rest).length > 8) = (rest.length > 0) := by
    simp only [List.length_cons]; apply propext; omega
  have h3 : ((a0 :: a1 :: a2 :: a3 :: a4 :: a5 :: a6 :: fc :: rest).length > 9) = (rest.length > 1) := by
    simp only [List.length_cons]; apply propext; omega
  have i1 : idx (a0 :: a1 :: a2 :: a3 :: a4 :: a5 :: a6 :: fc :: rest) 7 = .ok fc := rfl
  have i2 : idx (a0 :: a1 :: a2 :: a3 :: a4 :: a5 :: a6 :: fc :: rest) 8 = idx rest 0 := rfl
  have r2 : read16 (a0 :: a1 :: a2 :: a3 :: a4 :: a5 :: a6 :: fc :: rest) 8 = read16 rest 0 := rfl
  unfold Tcp.responsePduLen predG
  rw [if_neg h1, i1, Res.bind'_ok, i2, r2]
  simp only [h2, h3]

theorem range_1_4 (fc : UInt8) : 0x01 ≤ fc ∧ fc ≤ 0x04 → fc = 0x01 ∨ fc = 0x02 ∨ fc = 0x03 ∨ fc = 0x04 := by
  revert fc; apply byte_cases; decide +kernel

theorem exc_range_custom (fc : UInt8) : 0x81 ≤ fc ∧ fc ≤ 0xAB → fc ∉ modelledRspCodes := by
  revert fc; apply byte_cases; decide +kernel

theorem exists_cons2 (l : Bytes) (h : 2 ≤ l.length) : ∃ s fc rest, l = s :: fc :: rest := by
  rcases l with _ | ⟨s, _ | ⟨fc, rest⟩⟩
  · simp at h
  · simp at h
  · exact ⟨s, fc, rest, rfl⟩

theorem exists_cons8 (l : Bytes) (h : 8 ≤ l.length) :
    ∃ a0 a1 a2 a3 a4 a5 a6 fc rest, l = a0 :: a1 :: a2 :: a3 :: a4 :: a5 :: a6 :: fc :: rest := by
  obtain ⟨a0, a1, l1, rfl⟩ := exists_cons2 l (by omega)
  simp only [List.length_cons] at h
  obtain ⟨a2, a3, l2, rfl⟩ := exists_cons2 l1 (by omega)
  simp only [List.length_cons] at h
  obtain ⟨a4, a5, l3, rfl⟩ := exists_cons2 l2 (by omega)
  simp only [List.length_cons] at h
  obtain ⟨a6, fc, l4, rfl⟩ := exists_cons2 l3 (by omega)
  exact ⟨a0, a1, a2, a3, a4, a5, a6, fc, l4, rfl⟩

theorem take_succ_cons (x : UInt8) (l : Bytes) (n : Nat) : (x :: l).take (n + 1) = x :: l.take n := rfl

/-- **the core fact**: when the predictor, looking at the function code `fc` and the bytes `rest` after
it, announces `n` PDU bytes and that many bytes are there, `Response::try_from` accepts those `n` bytes. -/
theorem decode_ok_of_predG (fc : UInt8) (rest : Bytes) (n : Nat)
    (hp : predG fc rest = .ok (some n)) (hl : n ≤ rest.length + 1) :
    ∃ r, Response.decode ((fc :: rest).take n) = .ok r := by
  unfold predG at hp
  by_cases hA : (0x01 ≤ fc ∧ fc ≤ 0x04) ∨ fc = 0x0C ∨ fc = 0x17
  · rw [if_pos hA] at hp
    cases rest with
    | nil => simp at hp
    | cons c tl =>
      have hc : n = 2 + c.toNat := by
        simp [idx] at hp; omega
      subst hc
      simp only [List.length_cons] at hl
      have e : (fc :: c :: tl).take (2 + c.toNat) = fc :: c :: tl.take c.toNat := by
        rw [Nat.add_comm]; rfl
      rw [e]
      have hk : c.toNat ≤ (tl.take c.toNat).length := by rw [List.length_take]; omega
      rcases hA with hr | h | h
      · rcases range_1_4 fc hr with h | h | h | h <;> subst h
        · exact ⟨_, Response.decode_readCoils c _ hk⟩
        · exact ⟨_, Response.decode_readDiscreteInputs c _ hk⟩
        · exact ⟨_, Response.decode_readHoldingRegisters c _ hk⟩
        · exact ⟨_, Response.decode_readInputRegisters c _ hk⟩
      · subst h; exact ⟨_, Response.decode_custom _ (by decide) _⟩
      · subst h; exact ⟨_, Response.decode_readWriteMultipleRegisters c _ hk⟩
  · rw [if_neg hA] at hp
    by_cases hB : fc = 0x05 ∨ fc = 0x06 ∨ fc = 0x0B ∨ fc = 0x0F ∨ fc = 0x10
    · rw [if_pos hB] at hp
      have hc : n = 5 := by simp at hp; omega
      subst hc
      match rest, hl with
      | a :: b :: c :: d :: tl, _ =>
        have e : (fc :: a :: b :: c :: d :: tl).take 5 = fc :: a :: b :: c :: d :: [] := by simp
        rw [e]
        rcases hB with h | h | h | h | h <;> subst h
        · exact ⟨_, Response.decode_writeSingleCoil _ _ _⟩
        · exact ⟨_, Response.decode_writeSingleRegister _ _ _ _ _⟩
        · exact ⟨_, Response.decode_custom _ (by decide) _⟩
        · exact ⟨_, Response.decode_writeMultipleCoils _ _ _ _ _⟩
        · exact ⟨_, Response.decode_writeMultipleRegisters _ _ _ _ _⟩
    · rw [if_neg hB] at hp
      by_cases hC : fc = 0x07 ∨ (0x81 ≤ fc ∧ fc ≤ 0xAB)
      · rw [if_pos hC] at hp
        have hc : n = 2 := by simp at hp; omega
        subst hc
        match rest, hl with
        | a :: tl, _ =>
          have e : (fc :: a :: tl).take 2 = fc :: a :: [] := by simp
          rw [e]
          rcases hC with h | h
          · subst h; exact ⟨_, Response.decode_readExceptionStatus _ _⟩
          · exact ⟨_, Response.decode_custom _ (exc_range_custom fc h) _⟩
      · rw [if_neg hC] at hp
        have hn : 1 ≤ n := by
          by_cases h16 : fc = 0x16
          · rw [if_pos h16] at hp; simp at hp; omega
          · rw [if_neg h16] at hp
            by_cases h18 : fc = 0x18
            · rw [if_pos h18] at hp
              by_cases hr : rest.length > 1
              · rw [if_pos hr] at hp
                cases hq : read16 rest 0 with
                | ok w => rw [hq] at hp; simp at hp; omega
                | err _ => rw [hq] at hp; simp at hp
                | panic => rw [hq] at hp; simp at hp
              · rw [if_neg hr] at hp; simp at hp
            · rw [if_neg h18] at hp; simp at hp
        have hcust : fc ∉ modelledRspCodes := by
          by_cases h16 : fc = 0x16
          · subst h16; decide
          · rw [if_neg h16] at hp
            by_cases h18 : fc = 0x18
            · subst h18; decide
            · rw [if_neg h18] at hp; simp at hp
        obtain ⟨m, rfl⟩ : ∃ m, n = m + 1 := ⟨n - 1, by omega⟩
        rw [take_succ_cons]
        exact ⟨_, Response.decode_custom _ hcust _⟩

/-- the core lemma in the words of the RTU predictor: if `response_pdu_len` of an ADU that starts with a
slave id followed by `pdu` announces exactly `pdu.length`, `Response::try_from(pdu)` succeeds -/
theorem rsp_decode_ok_of_predicted (slave : UInt8) (pdu rest : Bytes)
    (h : Rtu.responsePduLen (slave :: pdu ++ rest) = .ok (some pdu.length)) (hne : pdu ≠ []) :
    ∃ r, Response.decode pdu = .ok r := by
  cases pdu with
  | nil => exact absurd rfl hne
  | cons fc tl =>
    have h' : Rtu.responsePduLen (slave :: fc :: (tl ++ rest)) = .ok (some (tl.length + 1)) := h
    rw [rtu_pred_eq] at h'
    have := decode_ok_of_predG fc (tl ++ rest) (tl.length + 1) h' (by rw [List.length_append]; omega)
    rw [take_succ_cons, List.take_left] at this
    exact this

example : Rtu.responsePduLen ((0x01 : UInt8) :: [0x03, 0x02, 0x12, 0x34] ++ [0xB5, 0x33])
    = .ok (some ([0x03, 0x02, 0x12, 0x34] : Bytes).length) ∧ ([0x03, 0x02, 0x12, 0x34] : Bytes) ≠ [] := by
  decide +kernel

/-! ### A1/A2: RTU -/

theorem rtu_attempt_pdu_ok (raw : Bytes) (f : Rtu.Frame) (sz : Nat)
    (h : Rtu.attemptRsp raw = .ok (some (f, sz))) : ∃ r, Response.decode f.pdu = .ok r := by
  obtain ⟨n, hp, he, _⟩ := mkAttempt_some _ _ _ _ _ _ h
  obtain ⟨hl, _, hpdu, _, _⟩ := C08.rtu_extract_sound raw n f he
  obtain ⟨s, fc, rest, rfl⟩ := exists_cons2 raw (by omega)
  · rw [rtu_pred_eq] at hp
    simp only [List.length_cons] at hl
    have := decode_ok_of_predG fc rest n hp (by omega)
    rw [hpdu]
    exact this

/-- **A1 (stronger form)**: after RTU framing succeeds, `Response::try_from` accepts the framed PDU -/
theorem rtu_rsp_pdu_decodes (buf : Bytes) (f : Rtu.Frame) (loc : Loc)
    (h : Rtu.decodeRsp buf = .ok (some (f, loc))) : ∃ r, Response.decode f.pdu = .ok r :=
  rtu_attempt_pdu_ok _ f loc.size (scan_no_later _ buf f loc h).2.2.1

/-- **A1**: after RTU framing succeeds, the PDU stage cannot fail -/
theorem rtu_rsp_pdu_stage_ok (buf : Bytes) (f : Rtu.Frame) (loc : Loc)
    (h : Rtu.decodeRsp buf = .ok (some (f, loc))) :
    (∃ e, ExceptionResponse.decode f.pdu = .ok e) ∨ (∃ r, Response.decode f.pdu = .ok r) :=
  .inr (rtu_rsp_pdu_decodes buf f loc h)

example : Rtu.decodeRsp [0x01, 0x03, 0x02, 0x12, 0x34, 0xB5, 0x33]
    = .ok (some (⟨0x01, [0x03, 0x02, 0x12, 0x34]⟩, ⟨0, 7⟩)) := by decide +kernel

/-- **A2**: every error of `rtu::client::decode_response` is the error of the frame scanner -/
theorem rtu_client_errors_come_from_scanner (buf : Bytes) (e : Error)
    (h : Rtu.clientDecodeResponse buf = .err e) : Rtu.decodeRsp buf = .err e := by
  unfold Rtu.clientDecodeResponse at h
  by_cases hb : buf.isEmpty = true
  · rw [if_pos hb] at h; cases h
  rw [if_neg hb] at h
  cases hd : Rtu.decodeRsp buf with
  | err e' => rw [hd] at h; simpa using h
  | panic => rw [hd] at h; cases h
  | ok o =>
    rw [hd] at h
    cases o with
    | none => cases h
    | some p =>
      obtain ⟨f, loc⟩ := p
      obtain ⟨r, hr⟩ := rtu_rsp_pdu_decodes buf f loc hd
      simp only [Res.bind'_ok] at h
      cases hx : ExceptionResponse.decode f.pdu with
      | ok x => rw [hx] at h; cases h
      | panic => exact absurd hx (Total.ExceptionResponse.decode_ne_panic _)
      | err x => rw [hx] at h; simp only [hr, Res.map_ok] at h; cases h

/-- 257 bytes of 0xFF: every offset is rejected for its function code, the scanner gives up with that error -/
example : Rtu.clientDecodeResponse (List.replicate 257 0xFF) = .err (.fnCode 0xFF) := by decide +kernel

/-! ### A3/A4: TCP -/

theorem tcp_attempt_pdu_ok (raw : Bytes) (f : Tcp.Frame) (sz : Nat)
    (h : Tcp.attemptRsp raw = .ok (some (f, sz))) : ∃ r, Response.decode f.pdu = .ok r := by
  obtain ⟨n, hp, he, _⟩ := mkAttempt_some _ _ _ _ _ _ h
  obtain ⟨hl, hck, _, hf⟩ := Tcp.extractFrame_some he
  rw [hck, Res.bind'_ok] at hp
  have h8 : 8 ≤ raw.length := by
    apply Decidable.by_contra
    intro hlt
    unfold Tcp.responsePduLen at hp
    rw [if_pos (by omega)] at hp
    cases hp
  obtain ⟨a0, a1, a2, a3, a4, a5, a6, fc, rest, rfl⟩ := exists_cons8 raw h8
  rw [tcp_pred_eq] at hp
  simp only [List.length_cons] at hl
  have := decode_ok_of_predG fc rest n hp (by omega)
  rw [hf]
  exact this

/-- **A3 (stronger form)** -/
theorem tcp_rsp_pdu_decodes (buf : Bytes) (f : Tcp.Frame) (loc : Loc)
    (h : Tcp.decodeRsp buf = .ok (some (f, loc))) : ∃ r, Response.decode f.pdu = .ok r :=
  tcp_attempt_pdu_ok _ f loc.size (scan_no_later _ buf f loc h).2.2.1

/-- **A3**: after TCP framing succeeds, the PDU stage cannot fail -/
theorem tcp_rsp_pdu_stage_ok (buf : Bytes) (f : Tcp.Frame) (loc : Loc)
    (h : Tcp.decodeRsp buf = .ok (some (f, loc))) :
    (∃ e, ExceptionResponse.decode f.pdu = .ok e) ∨ (∃ r, Response.decode f.pdu = .ok r) :=
  .inr (tcp_rsp_pdu_decodes buf f loc h)

example : Tcp.decodeRsp [0x00, 0x2A, 0x00, 0x00, 0x00, 0x05, 0x11, 0x03, 0x02, 0x12, 0x34]
    = .ok (some (⟨0x002A, 0x11, [0x03, 0x02, 0x12, 0x34]⟩, ⟨0, 11⟩)) := by decide +kernel

/-- **A4**: on a non-empty buffer every error of `tcp::server::decode_response` is the scanner's -/
theorem tcp_server_errors_come_from_scanner (buf : Bytes) (e : Error) (hne : buf ≠ [])
    (h : Tcp.decodeResponse buf = .err e) : Tcp.decodeRsp buf = .err e := by
  unfold Tcp.decodeResponse at h
  rw [Tcp.isEmpty_eq_false_of_ne hne] at h
  simp only [Bool.false_eq_true, if_false] at h
  cases hd : Tcp.decodeRsp buf with
  | err e' => rw [hd] at h; simpa using h
  | panic => rw [hd] at h; cases h
  | ok o =>
    rw [hd] at h
    cases o with
    | none => cases h
    | some p =>
      obtain ⟨f, loc⟩ := p
      obtain ⟨r, hr⟩ := tcp_rsp_pdu_decodes buf f loc hd
      simp only [Res.bind'_ok] at h
      cases hx : ExceptionResponse.decode f.pdu with
      | ok x => rw [hx] at h; cases h
      | panic => exact absurd hx (Total.ExceptionResponse.decode_ne_panic _)
      | err x => rw [hx] at h; simp only [hr, Res.map_ok] at h; cases h

example : List.replicate 300 (0xFF : UInt8) ≠ [] ∧
    Tcp.decodeResponse (List.replicate 300 0xFF) = .err (.protocolNotModbus 0xFFFF) := by decide +kernel

/-! ### B. the second header check inside `tcp::extract_frame` -/

/-- `Tcp.extractFrame` without the two re-checks after the size test -/
def extractFrameNoRecheck (buf : Bytes) (pduLen : Nat) : Res (Option Tcp.Frame) :=
  if buf.isEmpty then .err .bufferSize else
  if 7 + pduLen ≥ usizeLimit then .panic else
  let aduLen := 7 + pduLen
  (Tcp.checkProtocolId buf).bind fun _ =>
  (Tcp.checkLengthField buf pduLen).bind fun _ =>
  if buf.length ≥ aduLen then
    let aduBuf := buf.take aduLen
    (read16 aduBuf 2).bind fun _protocolId =>
    (read16 aduBuf 0).bind fun transaction =>
    (read16 aduBuf 4).bind fun _mLength =>
    (idx aduBuf 6).bind fun unit =>
    .ok (some { transactionId := transaction, unitId := unit, pdu := aduBuf.drop 7 })
  else .ok none

/-- **B**: the protocol-identifier and length-field tests after the size test of `tcp::extract_frame`
never fire: the function equals its copy without them, on every buffer and every claimed PDU length -/
theorem tcp_extract_recheck_dead (buf : Bytes) (pduLen : Nat) :
    Tcp.extractFrame buf pduLen = extractFrameNoRecheck buf pduLen := by
  by_cases hne : buf = []
  · subst hne; rfl
  by_cases hn : 7 + pduLen ≥ usizeLimit
  · unfold Tcp.extractFrame extractFrameNoRecheck
    rw [Tcp.isEmpty_eq_false_of_ne hne]
    simp only [Bool.false_eq_true, if_false]
    rw [if_pos hn, if_pos hn]
  rw [Tcp.extractFrame_eq hne (by omega)]
  unfold extractFrameNoRecheck
  rw [Tcp.isEmpty_eq_false_of_ne hne]
  simp only [Bool.false_eq_true, if_false]
  rw [if_neg hn]
  cases hp : Tcp.checkProtocolId buf with
  | err e => rfl
  | panic => rfl
  | ok u =>
    simp only [Res.bind'_ok]
    cases hl : Tcp.checkLengthField buf pduLen with
    | err e => rfl
    | panic => rfl
    | ok u =>
      simp only [Res.bind'_ok]
      by_cases hlen : buf.length ≥ 7 + pduLen
      · rw [dif_pos hlen, if_pos hlen]
        have hlt : (buf.take (7 + pduLen)).length = 7 + pduLen := by rw [List.length_take]; omega
        have hr2 : read16 (buf.take (7 + pduLen)) 2 = .ok (rd16 buf[2] buf[3]) := by
          rw [read16_eq_ok (by omega)]; simp only [List.getElem_take]
        have hr0 : read16 (buf.take (7 + pduLen)) 0 = .ok (rd16 buf[0] buf[1]) := by
          rw [read16_eq_ok (by omega)]; simp only [List.getElem_take]
        have hr4 : read16 (buf.take (7 + pduLen)) 4 = .ok (rd16 buf[4] buf[5]) := by
          rw [read16_eq_ok (by omega)]; simp only [List.getElem_take]
        have hi6 : idx (buf.take (7 + pduLen)) 6 = .ok buf[6] := by
          rw [idx_eq_ok (by omega)]; simp only [List.getElem_take]
        rw [hr2, hr0, hr4, hi6]
        simp only [Res.bind'_ok]
        congr 3
        rw [List.drop_take]; congr 1; omega
      · rw [dif_neg hlen, if_neg hlen]

/-! ### C. the size test after the PDU encoder in `tcp::server::encode_request` / `encode_response` -/

theorem writeAt_length (buf : Bytes) (off : Nat) (bs out : Bytes) (h : writeAt buf off bs = .ok out) :
    out.length = buf.length := by
  unfold writeAt at h
  by_cases h0 : bs = []
  · rw [if_pos h0] at h; cases h; rfl
  · rw [if_neg h0] at h
    by_cases h1 : off + bs.length ≤ buf.length
    · rw [if_pos h1] at h
      cases h
      simp only [List.length_append, List.length_take, List.length_drop]
      omega
    · rw [if_neg h1] at h; cases h

theorem applyWrites_length (ws : List (Nat × Bytes)) (buf out : Bytes) (h : applyWrites buf ws = .ok out) :
    out.length = buf.length := by
  induction ws generalizing buf with
  | nil => unfold applyWrites at h; cases h; rfl
  | cons w ws ih =>
    obtain ⟨off, bs⟩ := w
    unfold applyWrites at h
    cases hw : writeAt buf off bs with
    | ok b => rw [hw] at h; rw [ih b h, writeAt_length buf off bs b hw]
    | err e => rw [hw] at h; cases h
    | panic => rw [hw] at h; cases h

/-- a PDU encoder outcome that, if successful, reports `n` and returns a buffer of length `L` -/
def Good (L n : Nat) (x : Res (Nat × Bytes)) : Prop := ∀ k out, x = .ok (k, out) → k = n ∧ out.length = L

theorem good_panic (L n : Nat) : Good L n .panic := by intro k out h; cases h
theorem good_err (L n : Nat) (e : Error) : Good L n (.err e) := by intro k out h; cases h

theorem good_finish_aw {L n : Nat} {b : Bytes} {ws : List (Nat × Bytes)} (hb : b.length = L) :
    Good L n (finish n (applyWrites b ws)) := by
  intro k out h
  unfold finish at h
  cases hw : applyWrites b ws with
  | ok o =>
    rw [hw] at h
    simp only [Res.map_ok, Res.ok.injEq, Prod.mk.injEq] at h
    obtain ⟨rfl, rfl⟩ := h
    exact ⟨rfl, by rw [applyWrites_length ws b _ hw, hb]⟩
  | err e => rw [hw] at h; cases h
  | panic => rw [hw] at h; cases h

theorem good_bind_aw {L n : Nat} {b : Bytes} {ws : List (Nat × Bytes)} {f : Bytes → Res (Nat × Bytes)}
    (hb : b.length = L) (hf : ∀ b' : Bytes, b'.length = L → Good L n (f b')) :
    Good L n ((applyWrites b ws).bind f) := by
  cases hw : applyWrites b ws with
  | ok o => exact hf o (by rw [applyWrites_length ws b _ hw, hb])
  | err e => exact good_err L n e
  | panic => exact good_panic L n

theorem good_bind {α : Type} {L n : Nat} {x : Res α} {f : α → Res (Nat × Bytes)}
    (hf : ∀ a, Good L n (f a)) : Good L n (x.bind f) := by
  cases x with
  | ok a => exact hf a
  | err e => exact good_err L n e
  | panic => exact good_panic L n

theorem good_use {L n : Nat} {x : Res (Nat × Bytes)} {len : Nat} {tail : Bytes} (hg : Good L n x)
    (h : x = .ok (len, tail)) (hl : ¬ L < n) : tail.length = L ∧ len ≤ L := by
  obtain ⟨h1, h2⟩ := hg len tail h
  exact ⟨h2, by omega⟩

/-- `Request::encode`, whenever it succeeds, returns the buffer at its old length and a count within it -/
theorem request_encode_len (r : Request) (buf : Bytes) (len : Nat) (tail : Bytes)
    (h : r.encode buf = .ok (len, tail)) : tail.length = buf.length ∧ len ≤ buf.length := by
  unfold Request.encode at h
  cases hp : r.pduLen with
  | err e => rw [hp] at h; cases h
  | panic => rw [hp] at h; cases h
  | ok n =>
    rw [hp] at h
    simp only [Res.bind'_ok] at h
    by_cases hl : buf.length < n
    · rw [if_pos hl] at h; cases h
    rw [if_neg hl] at h
    cases r <;> simp only [] at h <;> refine good_use ?_ h hl <;>
      first
      | exact good_panic _ _
      | (repeat' first
          | exact good_finish_aw (by assumption)
          | exact good_finish_aw rfl
          | refine good_bind_aw (by assumption) (fun b' hb' => ?_)
          | refine good_bind_aw rfl (fun b' hb' => ?_)
          | refine good_bind (fun a => ?_))

/-- the same for `Response::encode` -/
theorem response_encode_len (r : Response) (buf : Bytes) (len : Nat) (tail : Bytes)
    (h : r.encode buf = .ok (len, tail)) : tail.length = buf.length ∧ len ≤ buf.length := by
  unfold Response.encode at h
  cases hp : r.pduLen with
  | err e => rw [hp] at h; cases h
  | panic => rw [hp] at h; cases h
  | ok n =>
    rw [hp] at h
    simp only [Res.bind'_ok] at h
    by_cases hl : buf.length < n
    · rw [if_pos hl] at h; cases h
    rw [if_neg hl] at h
    cases r <;> simp only [] at h <;> refine good_use ?_ h hl <;>
      first
      | exact good_panic _ _
      | (repeat' first
          | exact good_finish_aw (by assumption)
          | exact good_finish_aw rfl
          | refine good_bind_aw (by assumption) (fun b' hb' => ?_)
          | refine good_bind_aw rfl (fun b' hb' => ?_)
          | refine good_bind (fun a => ?_))

/-- … and for `ResponsePdu::encode` (normal or exception response) -/
theorem responsePdu_encode_len (p : ResponsePdu) (buf : Bytes) (len : Nat) (tail : Bytes)
    (h : p.encode buf = .ok (len, tail)) : tail.length = buf.length ∧ len ≤ buf.length := by
  unfold ResponsePdu.encode at h
  by_cases he : buf.isEmpty = true
  · rw [if_pos he] at h; cases h
  rw [if_neg he] at h
  cases p with
  | ok r => exact response_encode_len r buf len tail h
  | error e =>
    simp only [] at h
    unfold ExceptionResponse.encode at h
    by_cases h2 : buf.length < 2
    · rw [if_pos h2] at h; cases h
    rw [if_neg h2] at h
    have hg : Good buf.length 2
        (e.toBytes.bind fun ce => finish 2 (applyWrites buf [(0, [ce.1]), (1, [ce.2])])) :=
      good_bind (fun a => good_finish_aw rfl)
    obtain ⟨h1, h3⟩ := hg len tail h
    exact ⟨h3, by omega⟩

theorem tcp_post_check_arith (buf buf1 tail : Bytes) (len : Nat) (h7 : 7 ≤ buf.length)
    (h1 : buf1.length = buf.length) (ht : tail.length = (buf1.drop 7).length)
    (hl : len ≤ (buf1.drop 7).length) : ¬ ((buf1.take 7 ++ tail).length < len + 7) := by
  rw [List.length_append, List.length_take, ht]
  rw [List.length_drop] at hl ⊢
  omega

/-- **C (request)**: `if buf.len() < len + 7 { return Err(BufferSize) }` after the PDU encoder of
`tcp::server::encode_request` never fires -/
theorem tcp_encode_post_check_dead_req (tid : UInt16) (uid : UInt8) (r : Request) (buf buf1 : Bytes)
    (len : Nat) (tail : Bytes) (h7 : 7 ≤ buf.length)
    (hw : applyWrites buf [(0, be16 tid), (2, be16 0), (6, [uid])] = .ok buf1)
    (he : RequestPdu.encode r (buf1.drop 7) = .ok (len, tail)) :
    ¬ ((buf1.take 7 ++ tail).length < len + 7) := by
  obtain ⟨ht, hl⟩ := request_encode_len r _ len tail he
  exact tcp_post_check_arith buf buf1 tail len h7 (applyWrites_length _ _ _ hw) ht hl

example : (7 ≤ (List.replicate 12 (0 : UInt8)).length ∧
    applyWrites (List.replicate 12 0) [(0, be16 1), (2, be16 0), (6, [2])]
      = .ok [0, 1, 0, 0, 0, 0, 2, 0, 0, 0, 0, 0]) ∧
    RequestPdu.encode (.readCoils 1 2) (([0, 1, 0, 0, 0, 0, 2, 0, 0, 0, 0, 0] : Bytes).drop 7)
      = .ok (5, [1, 0, 1, 0, 2]) := by decide +kernel

/-- **C (response)**: the same test in `tcp::server::encode_response` -/
theorem tcp_encode_post_check_dead_rsp (tid : UInt16) (uid : UInt8) (p : ResponsePdu) (buf buf1 : Bytes)
    (len : Nat) (tail : Bytes) (h7 : 7 ≤ buf.length)
    (hw : applyWrites buf [(0, be16 tid), (2, be16 0), (6, [uid])] = .ok buf1)
    (he : ResponsePdu.encode p (buf1.drop 7) = .ok (len, tail)) :
    ¬ ((buf1.take 7 ++ tail).length < len + 7) := by
  obtain ⟨ht, hl⟩ := responsePdu_encode_len p _ len tail he
  exact tcp_post_check_arith buf buf1 tail len h7 (applyWrites_length _ _ _ hw) ht hl

example : (7 ≤ (List.replicate 12 (0 : UInt8)).length ∧
    applyWrites (List.replicate 12 0) [(0, be16 1), (2, be16 0), (6, [2])]
      = .ok [0, 1, 0, 0, 0, 0, 2, 0, 0, 0, 0, 0]) ∧
    ResponsePdu.encode (.error ⟨.readCoils, .illegalDataAddress⟩)
        (([0, 1, 0, 0, 0, 0, 2, 0, 0, 0, 0, 0] : Bytes).drop 7)
      = .ok (2, [129, 2, 0, 0, 0]) := by decide +kernel

/-- the branch removed in `extractFrameNoRecheck` is really exercised by the comparison: a complete frame -/
example : extractFrameNoRecheck [0x00, 0x2A, 0x00, 0x00, 0x00, 0x05, 0x11, 0x03, 0x02, 0x12, 0x34] 4
    = .ok (some ⟨0x002A, 0x11, [0x03, 0x02, 0x12, 0x34]⟩) := by decide +kernel

end Modbus.C07Dead

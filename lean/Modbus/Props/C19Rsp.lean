import Modbus.Lemmas.RspCodec
/-
C19 (response half) — encoding never silently truncates an oversize payload.

For EVERY response constructible through the public constructors (`BuiltRsp r m`: `from_bools` /
`from_words` accept any slice length, so payloads of 128, 300, 65 536, … words and 2041, 4000,
65 536, … coils are all instances; no bound on the payload length appears anywhere below) and every
output buffer: the encoder never panics; it either reports an error, or the payload fits the
one-byte count field and the bytes written are the specification's PDU of the whole payload (count
field equal to the payload's byte length — not wrapped, not truncated) and decode to an equivalent
value.  Oversize payloads are always refused.

(The crate as first read wrote the count with narrowing casts — finding D8; the model is of the
repaired encoder, `u8::try_from(..).map_err(|_| Error::BufferSize)`, and these theorems are what
the repair has to achieve.)
-/
namespace Modbus.C19Rsp

/-- the count-field limits in the property's own terms: 1..=2040 coils, 1..=127 words -/
theorem fits_iff_limits (bs : List Bool) (ws : List UInt16) :
    ((Spec.RspMeaning.readCoils bs).fits ↔ 1 ≤ bs.length ∧ bs.length ≤ 2040) ∧
    ((Spec.RspMeaning.readDiscreteInputs bs).fits ↔ 1 ≤ bs.length ∧ bs.length ≤ 2040) ∧
    ((Spec.RspMeaning.readHoldingRegisters ws).fits ↔ 1 ≤ ws.length ∧ ws.length ≤ 127) ∧
    ((Spec.RspMeaning.readInputRegisters ws).fits ↔ 1 ≤ ws.length ∧ ws.length ≤ 127) ∧
    ((Spec.RspMeaning.readWriteMultipleRegisters ws).fits ↔ 1 ≤ ws.length ∧ ws.length ≤ 127) := by
  simp only [Spec.RspMeaning.fits]
  omega

/-- every other kind always fits (no variable-length count field, or no count field at all) -/
theorem fits_fixed (a v : UInt16) (c : UInt8) (d : Bytes) :
    (Spec.RspMeaning.writeSingleCoil a).fits ∧ (Spec.RspMeaning.writeSingleRegister a v).fits ∧
    (Spec.RspMeaning.writeMultipleCoils a v).fits ∧ (Spec.RspMeaning.writeMultipleRegisters a v).fits ∧
    (Spec.RspMeaning.custom c d).fits :=
  ⟨trivial, trivial, trivial, trivial, trivial⟩

/-- an oversize payload is refused with `BufferSize`, for every buffer (however large) -/
theorem rsp_oversize_is_buffer_size {r : Response} {m : Spec.RspMeaning} (hb : BuiltRsp r m) (hf : ¬ m.fits)
    (buf : Bytes) : r.encode buf = .err .bufferSize :=
  hb.encode_oversize hf buf

theorem rsp_oversize_is_error {r : Response} {m : Spec.RspMeaning} (hb : BuiltRsp r m) (hf : ¬ m.fits)
    (buf : Bytes) : ∃ e, r.encode buf = .err e :=
  ⟨_, hb.encode_oversize hf buf⟩

/-- … also through `ResponsePdu::encode` -/
theorem rsp_pdu_oversize_is_error {r : Response} {m : Spec.RspMeaning} (hb : BuiltRsp r m) (hf : ¬ m.fits)
    (buf : Bytes) : ResponsePdu.encode (.ok r) buf = .err .bufferSize := by
  unfold ResponsePdu.encode
  split
  · rfl
  · exact hb.encode_oversize hf buf

/-- the encoder never panics on a built response: any payload size, any buffer -/
theorem rsp_never_panics {r : Response} {m : Spec.RspMeaning} (hb : BuiltRsp r m) (buf : Bytes) :
    r.encode buf ≠ .panic := by
  by_cases hf : m.fits
  · rw [hb.encode_fits hf]; split <;> simp
  · rw [hb.encode_oversize hf]; simp

/-- C19 for responses.  For every built response of ANY payload size and every buffer: no panic; and
    whenever the encoder reports success with `n` bytes, the payload fits the count field, `n` is the
    PDU length, the bytes written are exactly the specification's PDU of the WHOLE payload (every kind
    but Write Single Coil, D12 — which has no count field), and they decode to a response meaning
    `m.padded` (every meaning in the decoder's scope, Write Single Coil included). -/
theorem rsp_no_truncation {r : Response} {m : Spec.RspMeaning} (hb : BuiltRsp r m) (buf : Bytes) :
    r.encode buf ≠ .panic ∧
    ∀ n out, r.encode buf = .ok (n, out) →
      m.fits ∧ r.pduLen = .ok n ∧ out.length = buf.length ∧
      ((∀ a, m ≠ .writeSingleCoil a) → out.take n = Spec.rspBytes m) ∧
      (InScopeRsp m → ∃ r', Response.decode (out.take n) = .ok r' ∧ r'.sem = some m.padded) := by
  refine ⟨rsp_never_panics hb buf, ?_⟩
  intro n out he
  have hf : m.fits := by
    apply Classical.byContradiction
    intro hf
    rw [hb.encode_oversize hf] at he
    cases he
  rw [hb.encode_fits hf] at he
  split at he
  · cases he
  · rename_i hl
    obtain ⟨rfl, rfl⟩ : r.image.length = n ∧ r.image ++ buf.drop r.image.length = out := by
      simpa using he
    refine ⟨hf, hb.pduLen_eq, ?_, ?_, ?_⟩
    · rw [List.length_append, List.length_drop]; omega
    · intro hn; rw [List.take_left' rfl]; exact hb.image_eq hn
    · intro hs; rw [List.take_left' rfl]; exact hb.decode_image hf hs

/-- the property's dichotomy in one line: error, or a success of the kind `rsp_no_truncation` describes -/
theorem rsp_error_or_exact {r : Response} {m : Spec.RspMeaning} (hb : BuiltRsp r m) (buf : Bytes) :
    (∃ e, r.encode buf = .err e) ∨
    (∃ n out, r.encode buf = .ok (n, out) ∧ m.fits ∧
      ((∀ a, m ≠ .writeSingleCoil a) → out.take n = Spec.rspBytes m)) := by
  cases he : r.encode buf with
  | ok v =>
    obtain ⟨n, out⟩ := v
    obtain ⟨hf, _, _, hi, _⟩ := (rsp_no_truncation hb buf).2 n out he
    exact Or.inr ⟨n, out, rfl, hf, hi⟩
  | err e => exact Or.inl ⟨e, rfl⟩
  | panic => exact absurd he (rsp_never_panics hb buf)

/-- Read Exception Status is a built kind like the fixed-layout ones: `rsp_no_truncation` at it says that any
    success wrote exactly `07 s`, which decodes to a value meaning `ReadExceptionStatus(s)` -/
example (s : UInt8) (buf : Bytes) (n : Nat) (out : Bytes)
    (h : (Response.readExceptionStatus s).encode buf = .ok (n, out)) :
    out.take n = [0x07, s] ∧ ∃ r', Response.decode (out.take n) = .ok r' ∧ r'.sem = some (.readExceptionStatus s) := by
  obtain ⟨_, _, _, hi, hd⟩ := (rsp_no_truncation (.readExceptionStatus s) buf).2 n out h
  exact ⟨hi (fun a h => by cases h), hd trivial⟩

/-- "count fields match the payload", explicitly for coil payloads: on success the count byte, read
    as a number, is the number of payload bytes `⌈n/8⌉`, the reported length is `2 + ⌈n/8⌉`, and the
    payload bytes are the packed field of ALL the coils -/
theorem rsp_count_exact_coils (bs : List Bool) (t : Bytes) (c : Coils) (h : Coils.fromBools bs t = .ok c)
    (buf : Bytes) (n : Nat) (out : Bytes)
    (he : (Response.readCoils c).encode buf = .ok (n, out) ∨ (Response.readDiscreteInputs c).encode buf = .ok (n, out)) :
    ∃ b, out[1]? = some b ∧ b.toNat = (bs.length + 7) / 8 ∧ n = 2 + (bs.length + 7) / 8 ∧
      (out.take n).drop 2 = Spec.packBits bs ∧ (Spec.packBits bs).length = (bs.length + 7) / 8 := by
  have key : ∀ fc : UInt8, (bs.length + 7) / 8 ≤ 255 →
      out.take n = fc :: UInt8.ofNat ((bs.length + 7) / 8) :: Spec.packBits bs → n ≤ out.length →
      ∃ b, out[1]? = some b ∧ b.toNat = (bs.length + 7) / 8 ∧ n = 2 + (bs.length + 7) / 8 ∧
        (out.take n).drop 2 = Spec.packBits bs ∧ (Spec.packBits bs).length = (bs.length + 7) / 8 := by
    intro fc h255 ht hle
    have hlen : (Spec.packBits bs).length = (bs.length + 7) / 8 := packBits_length bs
    have hn : n = 2 + (bs.length + 7) / 8 := by
      have := congrArg List.length ht
      rw [List.length_take, Nat.min_eq_left hle] at this
      rw [this]; simp only [List.length_cons, hlen]; omega
    refine ⟨UInt8.ofNat ((bs.length + 7) / 8), ?_, Rsp.toNat_ofNat_u8 h255, hn, by rw [ht]; rfl, hlen⟩
    have h1 : (out.take n)[1]? = out[1]? := by rw [List.getElem?_take]; simp; omega
    rw [← h1, ht]; rfl
  rcases he with he | he
  · obtain ⟨hf, _, hl, hi, _⟩ := (rsp_no_truncation (.readCoils h) buf).2 n out he
    have hle : n ≤ out.length := by
      have := Response.encode_eq _ buf ((BuiltRsp.readCoils h).encodable_iff.mpr hf)
      rw [this] at he; split at he
      · cases he
      · obtain ⟨rfl, rfl⟩ : _ = n ∧ _ = out := by simpa using he
        simp
    exact key 0x01 hf.2 (hi (fun a h => by cases h)) hle
  · obtain ⟨hf, _, hl, hi, _⟩ := (rsp_no_truncation (.readDiscreteInputs h) buf).2 n out he
    have hle : n ≤ out.length := by
      have := Response.encode_eq _ buf ((BuiltRsp.readDiscreteInputs h).encodable_iff.mpr hf)
      rw [this] at he; split at he
      · cases he
      · obtain ⟨rfl, rfl⟩ : _ = n ∧ _ = out := by simpa using he
        simp
    exact key 0x02 hf.2 (hi (fun a h => by cases h)) hle

/-- … and for register payloads: count byte = `2 * n`, reported length `2 + 2 * n`, payload = all the
    words, big-endian -/
theorem rsp_count_exact_registers (ws : List UInt16) (t : Bytes) (d : Data) (h : Data.fromWords ws t = .ok d)
    (buf : Bytes) (n : Nat) (out : Bytes)
    (he : (Response.readHoldingRegisters d).encode buf = .ok (n, out) ∨
      (Response.readInputRegisters d).encode buf = .ok (n, out) ∨
      (Response.readWriteMultipleRegisters d).encode buf = .ok (n, out)) :
    ∃ b, out[1]? = some b ∧ b.toNat = 2 * ws.length ∧ n = 2 + 2 * ws.length ∧
      (out.take n).drop 2 = Spec.wordsBE ws ∧ (Spec.wordsBE ws).length = 2 * ws.length := by
  have hlen : (Spec.wordsBE ws).length = 2 * ws.length := by rw [wordsBE_length]; omega
  have key : ∀ (fc : UInt8) (r : Response) (m : Spec.RspMeaning), BuiltRsp r m → 2 * ws.length ≤ 255 →
      r.encode buf = .ok (n, out) → m.fits →
      out.take n = fc :: UInt8.ofNat (2 * ws.length) :: Spec.wordsBE ws →
      ∃ b, out[1]? = some b ∧ b.toNat = 2 * ws.length ∧ n = 2 + 2 * ws.length ∧
        (out.take n).drop 2 = Spec.wordsBE ws ∧ (Spec.wordsBE ws).length = 2 * ws.length := by
    intro fc r m hb h255 he hf ht
    have hle : n ≤ out.length := by
      rw [hb.encode_fits hf] at he; split at he
      · cases he
      · obtain ⟨rfl, rfl⟩ : _ = n ∧ _ = out := by simpa using he
        simp
    have hn : n = 2 + 2 * ws.length := by
      have := congrArg List.length ht
      rw [List.length_take, Nat.min_eq_left hle] at this
      rw [this]; simp only [List.length_cons, hlen]; omega
    refine ⟨UInt8.ofNat (2 * ws.length), ?_, Rsp.toNat_ofNat_u8 h255, hn, by rw [ht]; rfl, hlen⟩
    have h1 : (out.take n)[1]? = out[1]? := by rw [List.getElem?_take]; simp; omega
    rw [← h1, ht]; rfl
  rcases he with he | he | he
  · obtain ⟨hf, _, _, hi, _⟩ := (rsp_no_truncation (.readHoldingRegisters h) buf).2 n out he
    exact key 0x03 _ _ (.readHoldingRegisters h) hf.2 he hf (hi (fun a h => by cases h))
  · obtain ⟨hf, _, _, hi, _⟩ := (rsp_no_truncation (.readInputRegisters h) buf).2 n out he
    exact key 0x04 _ _ (.readInputRegisters h) hf.2 he hf (hi (fun a h => by cases h))
  · obtain ⟨hf, _, _, hi, _⟩ := (rsp_no_truncation (.readWriteMultipleRegisters h) buf).2 n out he
    exact key 0x17 _ _ (.readWriteMultipleRegisters h) hf.2 he hf (hi (fun a h => by cases h))

/-- the constructors really do accept oversize payloads: for every non-empty list of any length there
    is a built response (so `rsp_oversize_is_error` is about values a caller can make) -/
theorem oversize_constructible (bs : List Bool) (ws : List UInt16) (hb : bs ≠ []) (hw : ws ≠ []) :
    (∃ c, Coils.fromBools bs (List.replicate ((bs.length + 7) / 8) 0) = .ok c ∧
      BuiltRsp (.readCoils c) (.readCoils bs) ∧ BuiltRsp (.readDiscreteInputs c) (.readDiscreteInputs bs)) ∧
    (∃ d, Data.fromWords ws (List.replicate (ws.length * 2) 0) = .ok d ∧
      BuiltRsp (.readHoldingRegisters d) (.readHoldingRegisters ws) ∧
      BuiltRsp (.readInputRegisters d) (.readInputRegisters ws) ∧
      BuiltRsp (.readWriteMultipleRegisters d) (.readWriteMultipleRegisters ws)) := by
  have h1 := C16.from_bools_spec bs (List.replicate ((bs.length + 7) / 8) 0) hb (by simp [packedCoilsLen])
  have h2 := C17.from_words_spec ws (List.replicate (ws.length * 2) 0) hw (by simp)
  exact ⟨⟨_, h1, .readCoils h1, .readDiscreteInputs h1⟩,
    ⟨_, h2, .readHoldingRegisters h2, .readInputRegisters h2, .readWriteMultipleRegisters h2⟩⟩

/-! ### non-vacuity: the smallest oversize payloads, by evaluation in the kernel -/

/-- 128 words: accepted by `from_words`, refused by the encoder (a 512-byte buffer does not help) -/
example : Data.fromWords (List.replicate 128 0xABCD) (List.replicate 256 0) =
    .ok ⟨Spec.wordsBE (List.replicate 128 0xABCD), 128⟩ := by decide +kernel

example : (Response.readHoldingRegisters ⟨Spec.wordsBE (List.replicate 128 0xABCD), 128⟩).encode
    (List.replicate 512 0) = .err .bufferSize := by decide +kernel

example : (Response.readInputRegisters ⟨Spec.wordsBE (List.replicate 128 0xABCD), 128⟩).encode
    (List.replicate 512 0) = .err .bufferSize := by decide +kernel

example : (Response.readWriteMultipleRegisters ⟨Spec.wordsBE (List.replicate 128 0xABCD), 128⟩).encode
    (List.replicate 512 0) = .err .bufferSize := by decide +kernel

example : ¬ (Spec.RspMeaning.readHoldingRegisters (List.replicate 128 0xABCD)).fits := by
  simp [Spec.RspMeaning.fits]

/-- 127 words: the largest that fits; count byte 0xFE -/
example : ((Response.readHoldingRegisters ⟨Spec.wordsBE (List.replicate 127 0xABCD), 127⟩).encode
    (List.replicate 256 0)).map (fun p => (p.1, p.2.take 4)) = .ok (256, [0x03, 0xFE, 0xAB, 0xCD]) := by
  decide +kernel

/-- 2041 coils (256 payload bytes): refused — for the value `from_bools` builds over any target, and
    every buffer -/
example (t buf : Bytes) (c : Coils) (h : Coils.fromBools (List.replicate 2041 true) t = .ok c) :
    (Response.readCoils c).encode buf = .err .bufferSize ∧
    (Response.readDiscreteInputs c).encode buf = .err .bufferSize :=
  ⟨rsp_oversize_is_buffer_size (.readCoils h)
      (fun hf => by have h2 := hf.2; rw [List.length_replicate] at h2; omega) buf,
    rsp_oversize_is_buffer_size (.readDiscreteInputs h)
      (fun hf => by have h2 := hf.2; rw [List.length_replicate] at h2; omega) buf⟩

/-- … and by evaluation on the value itself (256 bytes of packed data, count 2041) -/
example : (Response.readCoils ⟨List.replicate 255 0xFF ++ [0x01], 2041⟩).encode (List.replicate 300 0) =
    .err .bufferSize := by decide +kernel

example : (Response.readDiscreteInputs ⟨List.replicate 255 0xFF ++ [0x01], 2041⟩).encode (List.replicate 300 0) =
    .err .bufferSize := by decide +kernel

/-- 2040 coils (255 payload bytes): the largest that fits; count byte 0xFF -/
example : ((Response.readCoils ⟨List.replicate 255 0xFF, 2040⟩).encode (List.replicate 257 0)).map
    (fun p => (p.1, p.2.take 3)) = .ok (257, [0x01, 0xFF, 0xFF]) := by decide +kernel

end Modbus.C19Rsp

import Modbus.Lemmas.CfgCheck
/-
C20 (partial) — every feature selection builds: the part a model can carry.

`Modbus/Gen/Cfg.lean` is regenerated from /repo's source on every run by tools/cfg_translate.py.
The theorem below says, for EVERY subset of the crate's features (with and without `cfg(test)`):
no active piece of code mentions a `cfg`-gated enum variant or type alias that is absent in that
selection, and every `match` over such an enum stays exhaustive.  Type checking proper, borrow
checking and the test outcomes are observed by running cargo on every configuration
(tools/c20.py), not proved.
-/
namespace Modbus.C20
open Modbus.Gen.Cfg

/-- every feature selection (all 2^k subsets, including `test`) is cfg-consistent -/
theorem cfg_consistent : ∀ sel ∈ subsets featureCount, consistent sel = true := by decide +kernel

/-- in particular the documented ones -/
theorem cfg_consistent_documented : ∀ sel ∈ documented, consistent sel = true ∧ consistent (3 :: sel) = true := by
  decide +kernel

/-- `#![no_std]` is present, there is no `unsafe` token, and nothing outside `cfg(test)` names `std::`/`alloc::` -/
theorem no_unsafe_no_std : factsOk = true := by decide

/-- non-vacuity: the model is not trivially consistent — there are gated definitions and gated uses,
    and removing a gate is noticed (a use of a `rtu`-only name placed in ungated code fails the check) -/
example : (defs.filter fun d => !(d.2.eval [])).length > 0 := by decide +kernel
example : (uses.filter fun u => !(u.2.eval [])).length > 0 := by decide +kernel
example : subsets 2 = [[], [0], [1], [1, 0]] := by decide

end Modbus.C20

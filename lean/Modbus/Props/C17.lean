import Modbus.Model.Codec
import Modbus.Spec.Wire
import Modbus.Lemmas.Encode
import Modbus.Lemmas.Words
/-
C17 — register packing is exact, big-endian, and independent of buffer capacity.

Every statement is for every list of words (any length), every target (any capacity, any
contents) and every index value (`i : Nat`, so also `usize::MAX` and beyond).
-/
namespace Modbus.C17

/-- packing any non-empty word list into any sufficiently large target gives the value holding
    exactly the big-endian bytes and the count; the target `t` does not occur on the right, so the
    value is independent of the target's excess capacity and previous contents -/
theorem from_words_spec (ws : List UInt16) (t : Bytes) (hne : ws ≠ []) (hl : ws.length * 2 ≤ t.length) :
    Data.fromWords ws t = .ok ⟨Spec.wordsBE ws, ws.length⟩ := by
  unfold Data.fromWords
  have h1 : ¬ (ws.length * 2 > t.length ∨ ws.isEmpty = true) := by
    simp only [List.isEmpty_iff, hne, or_false]; omega
  rw [if_neg h1, writeWords_ok ws t [] hl]
  simp only [Res.map_ok, List.reverse_nil, List.nil_append]
  have : (Spec.wordsBE ws ++ t.drop (ws.length * 2)).take (ws.length * 2) = Spec.wordsBE ws := by
    rw [List.take_append_of_le_length (by rw [wordsBE_length]; omega)]
    exact List.take_of_length_le (by rw [wordsBE_length]; omega)
  rw [this]

/-- two targets of different capacity and contents give the same value -/
theorem from_words_independent (ws : List UInt16) (t t' : Bytes) (hne : ws ≠ [])
    (hl : ws.length * 2 ≤ t.length) (hl' : ws.length * 2 ≤ t'.length) :
    Data.fromWords ws t = Data.fromWords ws t' := by
  rw [from_words_spec ws t hne hl, from_words_spec ws t' hne hl']

/-- a too-small target is reported as an error -/
theorem from_words_small (ws : List UInt16) (t : Bytes) (h : t.length < ws.length * 2) :
    Data.fromWords ws t = .err .bufferSize := by
  unfold Data.fromWords
  have h1 : ws.length * 2 > t.length ∨ ws.isEmpty = true := Or.inl h
  rw [if_pos h1]

/-- an empty word list is reported as an error -/
theorem from_words_empty (t : Bytes) : Data.fromWords [] t = .err .bufferSize := by
  simp [Data.fromWords]

/-- `from_words` never panics, for any words and any target -/
theorem from_words_ne_panic (ws : List UInt16) (t : Bytes) : Data.fromWords ws t ≠ .panic := by
  by_cases hne : ws = []
  · subst hne; rw [from_words_empty]; simp
  · by_cases hl : ws.length * 2 ≤ t.length
    · rw [from_words_spec ws t hne hl]; simp
    · rw [from_words_small ws t (by omega)]; simp

/-- the outcome is completely determined: the value above, or `BufferSize` -/
theorem from_words_total (ws : List UInt16) (t : Bytes) :
    Data.fromWords ws t =
      if ws = [] ∨ t.length < ws.length * 2 then .err .bufferSize else .ok ⟨Spec.wordsBE ws, ws.length⟩ := by
  by_cases hne : ws = []
  · subst hne; simp [from_words_empty]
  · by_cases hl : ws.length * 2 ≤ t.length
    · rw [from_words_spec ws t hne hl, if_neg (by simp only [hne, false_or]; omega)]
    · rw [from_words_small ws t (by omega), if_pos (Or.inr (by omega))]

/-- indexed access on the packed value, for every index value: the word below `n`, nothing at or beyond -/
theorem get_from_words (ws : List UInt16) (i : Nat) :
    (Data.mk (Spec.wordsBE ws) ws.length).get i = .ok (if h : i < ws.length then some ws[i] else none) := by
  have := Data.get_wordsBE ws [] i
  simpa using this

/-- iteration over the packed value returns exactly the words -/
theorem iter_from_words (ws : List UInt16) : (Data.mk (Spec.wordsBE ws) ws.length).iter = .ok ws := by
  have := Data.iter_wordsBE ws []
  simpa using this

theorem len_from_words (ws : List UInt16) : (Data.mk (Spec.wordsBE ws) ws.length).len = ws.length := rfl

theorem is_empty_from_words (ws : List UInt16) (hne : ws ≠ []) :
    (Data.mk (Spec.wordsBE ws) ws.length).isEmpty = false := by
  cases ws with
  | nil => exact absurd rfl hne
  | cons w ws => simp [Data.isEmpty]

/-- the same three observations stated on the result of `from_words` itself -/
theorem observe_from_words (ws : List UInt16) (t : Bytes) (d : Data) (h : Data.fromWords ws t = .ok d) :
    d.len = ws.length ∧ d.iter = .ok ws ∧
    (∀ i : Nat, d.get i = .ok (if h : i < ws.length then some ws[i] else none)) ∧
    d.data = Spec.wordsBE ws := by
  rw [from_words_total] at h
  split at h
  · simp at h
  · cases h
    exact ⟨rfl, iter_from_words ws, get_from_words ws, rfl⟩

/-- the serialisation is big-endian: byte `2i` is the high byte and byte `2i+1` the low byte of word `i` -/
theorem bytes_big_endian (ws : List UInt16) (i : Nat) (h : i < ws.length) :
    (Spec.wordsBE ws)[i * 2]? = some (UInt8.ofNat (ws[i].toNat / 256)) ∧
    (Spec.wordsBE ws)[i * 2 + 1]? = some (UInt8.ofNat (ws[i].toNat % 256)) ∧
    (Spec.wordsBE ws).length = ws.length * 2 :=
  ⟨wordsBE_getElem_hi ws i h, wordsBE_getElem_lo ws i h, wordsBE_length ws⟩

/-! ### PDUs built from the value are functions of the words alone -/

theorem req_write_multiple_registers_image (a : UInt16) (ws : List UInt16) :
    (Request.writeMultipleRegisters a ⟨Spec.wordsBE ws, ws.length⟩).image =
      Spec.reqBytes (.writeMultipleRegisters a ws) := by
  simp [Request.image, Spec.reqBytes, Spec.word, Spec.hi, Spec.lo, be16, Data.len, Nat.mul_comm]

theorem req_read_write_multiple_registers_image (ra rq wa : UInt16) (ws : List UInt16) :
    (Request.readWriteMultipleRegisters ra rq wa ⟨Spec.wordsBE ws, ws.length⟩).image =
      Spec.reqBytes (.readWriteMultipleRegisters ra rq wa ws) := by
  simp [Request.image, Spec.reqBytes, Spec.word, Spec.hi, Spec.lo, be16, Data.len, Nat.mul_comm]

theorem take_wordsBE (ws : List UInt16) : (Spec.wordsBE ws).take (ws.length * 2) = Spec.wordsBE ws :=
  List.take_of_length_le (by rw [wordsBE_length]; omega)

theorem rsp_read_holding_registers_image (ws : List UInt16) :
    (Response.readHoldingRegisters ⟨Spec.wordsBE ws, ws.length⟩).image =
      Spec.rspBytes (.readHoldingRegisters ws) := by
  simp [Response.image, Spec.rspBytes, Data.len, take_wordsBE, Nat.mul_comm]

theorem rsp_read_input_registers_image (ws : List UInt16) :
    (Response.readInputRegisters ⟨Spec.wordsBE ws, ws.length⟩).image =
      Spec.rspBytes (.readInputRegisters ws) := by
  simp [Response.image, Spec.rspBytes, Data.len, take_wordsBE, Nat.mul_comm]

theorem rsp_read_write_multiple_registers_image (ws : List UInt16) :
    (Response.readWriteMultipleRegisters ⟨Spec.wordsBE ws, ws.length⟩).image =
      Spec.rspBytes (.readWriteMultipleRegisters ws) := by
  simp [Response.image, Spec.rspBytes, Data.len, take_wordsBE, Nat.mul_comm]

/-- the register-payload PDUs built from the value are encodable whenever the byte count fits its field -/
theorem built_data_encodable (ws : List UInt16) (h : ws.length * 2 ≤ 255) (a ra rq wa : UInt16) :
    (Request.writeMultipleRegisters a ⟨Spec.wordsBE ws, ws.length⟩).Encodable ∧
    (Request.readWriteMultipleRegisters ra rq wa ⟨Spec.wordsBE ws, ws.length⟩).Encodable ∧
    (Response.readHoldingRegisters ⟨Spec.wordsBE ws, ws.length⟩).Encodable ∧
    (Response.readInputRegisters ⟨Spec.wordsBE ws, ws.length⟩).Encodable ∧
    (Response.readWriteMultipleRegisters ⟨Spec.wordsBE ws, ws.length⟩).Encodable := by
  have hl : ws.length * 2 ≤ (Spec.wordsBE ws).length := by rw [wordsBE_length]; omega
  exact ⟨h, h, ⟨h, hl⟩, ⟨h, hl⟩, ⟨h, hl⟩⟩

/-- Write Multiple Registers built from `from_words` over ANY target: the encoder's whole outcome,
    for every output buffer, is the spec's PDU of the words — no trace of the target `t` -/
theorem encode_write_multiple_registers (ws : List UInt16) (t : Bytes) (d : Data) (a : UInt16) (buf : Bytes)
    (hd : Data.fromWords ws t = .ok d) (h : ws.length * 2 ≤ 255) :
    (Request.writeMultipleRegisters a d).encode buf =
      let pdu := Spec.reqBytes (.writeMultipleRegisters a ws)
      if buf.length < pdu.length then .err .bufferSize else .ok (pdu.length, pdu ++ buf.drop pdu.length) := by
  rw [from_words_total] at hd
  split at hd
  · simp at hd
  · cases hd
    rw [Request.encode_eq _ buf (built_data_encodable ws h a a a a).1, req_write_multiple_registers_image]

theorem encode_read_write_multiple_registers (ws : List UInt16) (t : Bytes) (d : Data) (ra rq wa : UInt16)
    (buf : Bytes) (hd : Data.fromWords ws t = .ok d) (h : ws.length * 2 ≤ 255) :
    (Request.readWriteMultipleRegisters ra rq wa d).encode buf =
      let pdu := Spec.reqBytes (.readWriteMultipleRegisters ra rq wa ws)
      if buf.length < pdu.length then .err .bufferSize else .ok (pdu.length, pdu ++ buf.drop pdu.length) := by
  rw [from_words_total] at hd
  split at hd
  · simp at hd
  · cases hd
    rw [Request.encode_eq _ buf (built_data_encodable ws h ra ra rq wa).2.1,
      req_read_write_multiple_registers_image]

theorem encode_read_holding_registers (ws : List UInt16) (t : Bytes) (d : Data) (buf : Bytes)
    (hd : Data.fromWords ws t = .ok d) (h : ws.length * 2 ≤ 255) :
    (Response.readHoldingRegisters d).encode buf =
      let pdu := Spec.rspBytes (.readHoldingRegisters ws)
      if buf.length < pdu.length then .err .bufferSize else .ok (pdu.length, pdu ++ buf.drop pdu.length) := by
  rw [from_words_total] at hd
  split at hd
  · simp at hd
  · cases hd
    rw [Response.encode_eq _ buf (built_data_encodable ws h 0 0 0 0).2.2.1, rsp_read_holding_registers_image]

theorem encode_read_input_registers (ws : List UInt16) (t : Bytes) (d : Data) (buf : Bytes)
    (hd : Data.fromWords ws t = .ok d) (h : ws.length * 2 ≤ 255) :
    (Response.readInputRegisters d).encode buf =
      let pdu := Spec.rspBytes (.readInputRegisters ws)
      if buf.length < pdu.length then .err .bufferSize else .ok (pdu.length, pdu ++ buf.drop pdu.length) := by
  rw [from_words_total] at hd
  split at hd
  · simp at hd
  · cases hd
    rw [Response.encode_eq _ buf (built_data_encodable ws h 0 0 0 0).2.2.2.1, rsp_read_input_registers_image]

theorem encode_rsp_read_write_multiple_registers (ws : List UInt16) (t : Bytes) (d : Data) (buf : Bytes)
    (hd : Data.fromWords ws t = .ok d) (h : ws.length * 2 ≤ 255) :
    (Response.readWriteMultipleRegisters d).encode buf =
      let pdu := Spec.rspBytes (.readWriteMultipleRegisters ws)
      if buf.length < pdu.length then .err .bufferSize else .ok (pdu.length, pdu ++ buf.drop pdu.length) := by
  rw [from_words_total] at hd
  split at hd
  · simp at hd
  · cases hd
    rw [Response.encode_eq _ buf (built_data_encodable ws h 0 0 0 0).2.2.2.2,
      rsp_read_write_multiple_registers_image]

/-! ### non-vacuity: concrete instances (a dirty target with four bytes of excess capacity) -/

example : Data.fromWords [0x1234, 0xABCD, 0x0001] [9, 9, 9, 9, 9, 9, 0xEE, 0xEE, 0xEE, 0xEE] =
    .ok ⟨[0x12, 0x34, 0xAB, 0xCD, 0x00, 0x01], 3⟩ := by decide +kernel

example : Spec.wordsBE [0x1234, 0xABCD, 0x0001] = [0x12, 0x34, 0xAB, 0xCD, 0x00, 0x01] := by decide +kernel

example : Data.fromWords [0x1234, 0xABCD, 0x0001] [9, 9, 9, 9, 9] = .err .bufferSize := by decide +kernel

example : (Data.mk [0x12, 0x34, 0xAB, 0xCD, 0x00, 0x01] 3).get 1 = .ok (some 0xABCD) := by decide +kernel

example : (Data.mk [0x12, 0x34, 0xAB, 0xCD, 0x00, 0x01] 3).get 18446744073709551615 = .ok none := by
  decide +kernel

example : (Data.mk [0x12, 0x34, 0xAB, 0xCD, 0x00, 0x01] 3).iter = .ok [0x1234, 0xABCD, 0x0001] := by
  decide +kernel

/-- the hypotheses of `encode_write_multiple_registers` are satisfiable, and the excess target bytes
    (0xEE) do not reach the PDU -/
example : ∃ d, Data.fromWords [0x1234, 0xABCD] [9, 9, 9, 9, 0xEE, 0xEE] = .ok d ∧
    (Request.writeMultipleRegisters 7 d).encode (List.replicate 12 0x55) =
      .ok (10, [0x10, 0, 7, 0, 2, 4, 0x12, 0x34, 0xAB, 0xCD, 0x55, 0x55]) :=
  ⟨⟨[0x12, 0x34, 0xAB, 0xCD], 2⟩, by decide +kernel, by decide +kernel⟩

end Modbus.C17

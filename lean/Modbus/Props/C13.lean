import Modbus.Lemmas.Coherent
import Modbus.Model.Rtu
import Modbus.Model.Tcp
/-
C13 — decoded values are coherent and safe to use.

Any request or response value returned by a successful decode is safe to use: its payload container
reports a length, indexing returns an item for every index below that length and nothing at or above
it (for EVERY index value, not only small ones), iteration yields exactly that many items, and asking
for its PDU length or re-encoding it never panics.  Re-encoding a decoded value and decoding again
gives an equivalent value (same meaning, `sem`): decoding is idempotent up to normalisation.

* Responses: proved for every byte string (`rsp_decoded_coherent`), including register responses
  with an odd byte count (quantity = byte count / 2; the decoder keeps the whole registers only, the
  dangling last byte is not part of the decoded value).  A decoded register payload therefore holds
  EXACTLY the bytes its quantity promises, `data.length = quantity * 2` (`rsp_decoded_data_exact`), so it
  can be handed to any other constructor/encoder that trusts that relation (the cross-kind reuse
  theorem is `C19X.rsp_data_reusable_in_request`).
* Requests: the unedited crate accepts a write-multiple-coils request whose byte count contradicts
  its quantity (open finding D5b; pinned by the crate's own unit test
  `deserialize_requests::write_multiple_coils`, which asserts that `0F 33 11 00 04 00` is accepted),
  and the model reproduces that.  The decoded value then panics on first use
  (`req_wmc_defect_witness`).  The theorem therefore excludes a region stated on the WIRE bytes, and
  the region is characterised exactly:

    `req_decoded_coherent_iff : decode b = ok v → (ReqCoherent v ↔ ¬ WmcTruncated b)`

  where `WmcTruncated b` = "function code 0x0F and fewer than ⌈quantity/8⌉ data bytes follow the
  header".  `WmcTruncated b → WmcShort b → WmcMismatch b` for accepted `b`, so the theorem with the
  hypothesis `¬ WmcMismatch b` asked for by the design (byte count ≠ ⌈quantity/8⌉) is a corollary, as is
  the sharper one with `¬ WmcShort b` (byte count < ⌈quantity/8⌉; a byte count LARGER than needed is
  harmless because the decoder keeps `bytes[6..]`).

  Full statement (NOT provable for the unedited crate; refuted by `req_wmc_defect_witness`):
      theorem req_decoded_coherent (b : Bytes) (v : Request) (h : Request.decode b = .ok v) : ReqCoherent v
-/
namespace Modbus.C13

/-! ### definitions -/

/-- the payload container of a request (if it has one) is coherent
    (`CoilsCoherent` / `DataCoherent`: Lemmas/Coherent.lean) -/
def ReqPayloadCoherent : Request → Prop
  | .writeMultipleCoils _ c => CoilsCoherent c
  | .writeMultipleRegisters _ d | .readWriteMultipleRegisters _ _ _ d | .diagnostics _ d => DataCoherent d
  | _ => True

def RspPayloadCoherent : Response → Prop
  | .readCoils c | .readDiscreteInputs c => CoilsCoherent c
  | .readInputRegisters d | .readHoldingRegisters d | .readWriteMultipleRegisters d | .diagnostics d =>
      DataCoherent d
  | _ => True

/-- a request value is safe to use -/
def ReqCoherent (v : Request) : Prop :=
  ReqPayloadCoherent v ∧
  v.pduLen ≠ .panic ∧
  (∀ buf, v.encode buf ≠ .panic) ∧
  (∀ buf n out, v.encode buf = .ok (n, out) →
    ∃ v', Request.decode (out.take n) = .ok v' ∧ v'.sem = v.sem)

/-- a response value is safe to use -/
def RspCoherent (v : Response) : Prop :=
  RspPayloadCoherent v ∧
  v.pduLen ≠ .panic ∧
  (∀ buf, v.encode buf ≠ .panic) ∧
  (∀ buf n out, v.encode buf = .ok (n, out) →
    ∃ v', Response.decode (out.take n) = .ok v' ∧ v'.sem = v.sem)

/-- the stronger encoding fact: the value has a PDU length `n` and encodes successfully into every
    buffer of at least `n` bytes (and is refused with an error by every shorter one) -/
def ReqEncodes (v : Request) : Prop :=
  ∃ n, v.pduLen = .ok n ∧ n = v.image.length ∧
    ∀ buf : Bytes, v.encode buf =
      if buf.length < n then .err .bufferSize else .ok (n, v.image ++ buf.drop n)

def RspEncodes (v : Response) : Prop :=
  ∃ n, v.pduLen = .ok n ∧ n = v.image.length ∧
    ∀ buf : Bytes, v.encode buf =
      if buf.length < n then .err .bufferSize else .ok (n, v.image ++ buf.drop n)

theorem reqPayloadCoherent_iff (v : Request) : ReqPayloadCoherent v ↔ v.PayloadOk := by
  cases v <;> simp only [ReqPayloadCoherent, Request.PayloadOk, coilsCoherent_iff, dataCoherent_iff]

theorem rspPayloadCoherent_iff (v : Response) : RspPayloadCoherent v ↔ v.PayloadOk := by
  cases v <;> simp only [RspPayloadCoherent, Response.PayloadOk, coilsCoherent_iff, dataCoherent_iff]

/-! ### the re-encode clause, from `Encodable` and the image equation -/

theorem take_image (img tail : Bytes) : (img ++ tail).take img.length = img := by
  simp

theorem req_reencode {b : Bytes} {v : Request} (hd : Request.Decoded b v) (buf : Bytes) (n : Nat) (out : Bytes)
    (h : v.encode buf = .ok (n, out)) :
    ∃ v', Request.decode (out.take n) = .ok v' ∧ v'.sem = v.sem := by
  have he := Request.encodable_of_ok v buf _ h
  rw [Request.encode_eq v buf he] at h
  by_cases hb : buf.length < v.image.length
  · rw [if_pos hb] at h; cases h
  · rw [if_neg hb] at h
    simp only [Res.ok.injEq, Prod.mk.injEq] at h
    obtain ⟨rfl, rfl⟩ := h
    rw [take_image]
    exact hd.redecode he

theorem rsp_reencode {v : Response} (hd : Response.Decoded v) (buf : Bytes) (n : Nat) (out : Bytes)
    (h : v.encode buf = .ok (n, out)) :
    ∃ v', Response.decode (out.take n) = .ok v' ∧ v'.sem = v.sem := by
  have he := hd.encodable
  rw [Response.encode_eq v buf he] at h
  by_cases hb : buf.length < v.image.length
  · rw [if_pos hb] at h; cases h
  · rw [if_neg hb] at h
    simp only [Res.ok.injEq, Prod.mk.injEq] at h
    obtain ⟨rfl, rfl⟩ := h
    rw [take_image]
    exact hd.redecode

/-! ### responses: every accepted byte string -/

/-- **C13, responses.**  Every value the response decoder returns is coherent — for every byte string,
    including register responses with an odd byte count. -/
theorem rsp_decoded_coherent (b : Bytes) (v : Response) (h : Response.decode b = .ok v) : RspCoherent v := by
  have hd := Response.decode_inv h
  refine ⟨(rspPayloadCoherent_iff v).mpr hd.payloadOk, hd.pduLen_ne_panic, ?_, rsp_reencode hd⟩
  intro buf
  rw [Response.encode_eq v buf hd.encodable]
  split <;> simp

/-- the register payload of a response (if it has one) holds exactly the bytes its quantity promises —
    no dangling byte, no surplus -/
def RspDataExact : Response → Prop
  | .readInputRegisters d | .readHoldingRegisters d | .readWriteMultipleRegisters d =>
      d.data.length = d.quantity * 2
  | _ => True

instance (v : Response) : Decidable (RspDataExact v) := by
  cases v <;> unfold RspDataExact <;> infer_instance

/-- **decoded register payloads are exact.**  Every response the decoder returns — for every byte
    string, odd byte counts included — carries a register container (if any) with
    `data.length = quantity * 2`; and the byte count it was decoded from bounds it: `quantity * 2 ≤ 255`. -/
theorem rsp_decoded_data_exact (b : Bytes) (v : Response) (h : Response.decode b = .ok v) :
    RspDataExact v ∧
    (∀ d, (v = .readInputRegisters d ∨ v = .readHoldingRegisters d ∨ v = .readWriteMultipleRegisters d) →
      d.data.length = d.quantity * 2 ∧ d.quantity * 2 ≤ 255) := by
  have hd := Response.decode_inv h
  cases hd with
  | readInputRegisters bc data hl | readHoldingRegisters bc data hl | readWriteMultipleRegisters bc data hl =>
    have := bc.toNat_lt
    refine ⟨hl, fun d hv => ?_⟩
    have hdd : d = ⟨data, bc.toNat / 2⟩ := by
      rcases hv with hv | hv | hv <;> cases hv <;> rfl
    subst hdd
    exact ⟨hl, by show bc.toNat / 2 * 2 ≤ 255; omega⟩
  | _ =>
    refine ⟨trivial, fun d hv => ?_⟩
    rcases hv with hv | hv | hv <;> cases hv

/-- **decoding is idempotent on the nose for responses**: re-encoding a decoded response (into any buffer)
    and decoding the bytes written gives back the very same value, not merely an equivalent one -/
theorem rsp_redecode_exact (b : Bytes) (v : Response) (h : Response.decode b = .ok v) :
    Response.decode v.image = .ok v ∧
    ∀ buf n out, v.encode buf = .ok (n, out) → Response.decode (out.take n) = .ok v := by
  have hd := Response.decode_inv h
  refine ⟨hd.redecode_exact, fun buf n out he => ?_⟩
  rw [Response.encode_eq v buf hd.encodable] at he
  by_cases hb : buf.length < v.image.length
  · rw [if_pos hb] at he; cases he
  · rw [if_neg hb] at he
    simp only [Res.ok.injEq, Prod.mk.injEq] at he
    obtain ⟨rfl, rfl⟩ := he
    rw [take_image]
    exact hd.redecode_exact

/-- a decoded response encodes successfully into every buffer of at least `pduLen` bytes
    (a decoded coil response has quantity = 8 × byte count ≤ 2040) -/
theorem rsp_decoded_encodes (b : Bytes) (v : Response) (h : Response.decode b = .ok v) : RspEncodes v := by
  have he := (Response.decode_inv h).encodable
  exact ⟨_, Response.pduLen_eq v he, rfl, fun buf => Response.encode_eq v buf he⟩

/-- a decoded response has a meaning (its payload can be iterated) -/
theorem rsp_decoded_has_meaning (b : Bytes) (v : Response) (h : Response.decode b = .ok v) :
    v.sem.isSome = true :=
  (Response.decode_inv h).sem_isSome

/-! ### requests: every accepted byte string outside the D5b region, and exactly those -/

/-- **C13, requests — exact form.**  A value returned by the request decoder is coherent if and only if
    the input is not a write-multiple-coils request with fewer data bytes than its quantity needs. -/
theorem req_decoded_coherent_iff (b : Bytes) (v : Request) (h : Request.decode b = .ok v) :
    ReqCoherent v ↔ ¬ WmcTruncated b := by
  obtain ⟨hd, hh⟩ := Request.decode_inv h
  constructor
  · intro hc
    exact hd.not_truncated hh ((reqPayloadCoherent_iff v).mp hc.1)
  · intro ht
    have hp := hd.payloadOk ht
    exact ⟨(reqPayloadCoherent_iff v).mpr hp, hd.pduLen_ne_panic, hd.encode_ne_panic hp, req_reencode hd⟩

/-- an accepted request in the truncated class is in the "byte count too small" class … -/
theorem wmcShort_of_truncated (b : Bytes) (v : Request) (h : Request.decode b = .ok v)
    (ht : WmcTruncated b) : WmcShort b := by
  obtain ⟨hd, hh⟩ := Request.decode_inv h
  exact Classical.byContradiction fun hs => hd.not_truncated_of_not_short hh hs ht

/-- … which is inside the "byte count ≠ ⌈quantity/8⌉" class of the design -/
theorem wmcMismatch_of_short (b : Bytes) (hs : WmcShort b) : WmcMismatch b := hs.mismatch

/-- **C13, requests** with the sharper exclusion "byte count SMALLER than ⌈quantity/8⌉". -/
theorem req_decoded_coherent_short_partial (b : Bytes) (v : Request) (h : Request.decode b = .ok v)
    (hs : ¬ WmcShort b) : ReqCoherent v :=
  (req_decoded_coherent_iff b v h).mpr fun ht => hs (wmcShort_of_truncated b v h ht)

/-- **C13, requests** as the design states it: excluded region = D5b's class "write-multiple-coils
    request whose byte-count field disagrees with its quantity field", on the wire bytes.
    Full statement (without `hm`) in the header comment; it is false for the unedited crate. -/
theorem req_decoded_coherent_partial (b : Bytes) (v : Request) (h : Request.decode b = .ok v)
    (hm : ¬ WmcMismatch b) : ReqCoherent v :=
  req_decoded_coherent_short_partial b v h fun hs => hm hs.mismatch

/-- outside the "byte count too small" class a decoded request encodes successfully into every buffer
    of at least `pduLen` bytes (a decoded write-multiple-registers request has byte count ≤ 255) -/
theorem req_decoded_encodes_partial (b : Bytes) (v : Request) (h : Request.decode b = .ok v)
    (hs : ¬ WmcShort b) : ReqEncodes v := by
  have he := (Request.decode_inv h).1.encodable hs
  exact ⟨_, Request.pduLen_eq v he, rfl, fun buf => Request.encode_eq v buf he⟩

/-- outside the truncated class a decoded request has a meaning -/
theorem req_decoded_has_meaning_partial (b : Bytes) (v : Request) (h : Request.decode b = .ok v)
    (ht : ¬ WmcTruncated b) : v.sem.isSome = true :=
  let ⟨hd, _⟩ := Request.decode_inv h
  hd.sem_isSome (hd.payloadOk ht)

/-! ### re-encodability of decoded requests, exactly -/

/-- the decoder never returns a write-multiple-coils value whose packed size does not fit the one-byte count
    field: quantities above 2040 are refused (`Err(ByteCount)`), whatever data follows -/
theorem req_decoded_qty_bound (b : Bytes) (a : UInt16) (c : Coils)
    (h : Request.decode b = .ok (.writeMultipleCoils a c)) : packedCoilsLen c.quantity ≤ 255 := by
  obtain ⟨hd, _⟩ := Request.decode_inv h
  cases hd with
  | writeMultipleCoils a q h0 hq hl h255 => exact h255

/-- **the accepted requests that cannot be encoded again are EXACTLY the truncated ones** (open finding D5b).
    Before the decoder bounded the quantity there was a second class: quantities above 2040 with enough
    data bytes — accepted, coherent, but refused by the encoder. -/
theorem req_decoded_encodes_iff (b : Bytes) (v : Request) (h : Request.decode b = .ok v) :
    ReqEncodes v ↔ ¬ WmcTruncated b := by
  obtain ⟨hd, hh⟩ := Request.decode_inv h
  constructor
  · rintro ⟨n, _, _, henc⟩
    have he := henc (List.replicate n 0)
    rw [if_neg (by simp)] at he
    have hE := Request.encodable_of_ok v _ _ he
    apply hd.not_truncated hh
    cases hd with
    | writeMultipleCoils a q h0 hq hl h255 => exact hE.2
    | writeMultipleRegisters a q data h1 h2 => show q.toNat * 2 ≤ data.length; omega
    | readWriteMultipleRegisters ra rq wa q data h1 h2 => show q.toNat * 2 ≤ data.length; omega
    | _ => trivial
  · intro ht
    have he := hd.encodable_of_payloadOk (hd.payloadOk ht)
    exact ⟨_, Request.pduLen_eq v he, rfl, fun buf => Request.encode_eq v buf he⟩

/-- **unconditional re-encoding** outside the truncated class: the decoded value has a PDU length `n`,
    encodes into EVERY buffer of at least `n` bytes (a shorter one is refused with `BufferSize`), and the `n`
    bytes written decode to a value with the same meaning -/
theorem req_decoded_reencodes (b : Bytes) (v : Request) (h : Request.decode b = .ok v) (ht : ¬ WmcTruncated b) :
    ∃ n, v.pduLen = .ok n ∧
      (∀ buf : Bytes, buf.length < n → v.encode buf = .err .bufferSize) ∧
      ∀ buf : Bytes, n ≤ buf.length →
        ∃ out v', v.encode buf = .ok (n, out) ∧ out.drop n = buf.drop n ∧
          Request.decode (out.take n) = .ok v' ∧ v'.sem = v.sem ∧ v.sem.isSome = true := by
  obtain ⟨hd, _⟩ := Request.decode_inv h
  have hp := hd.payloadOk ht
  have he := hd.encodable_of_payloadOk hp
  refine ⟨v.image.length, Request.pduLen_eq v he, fun buf hb => ?_, fun buf hb => ?_⟩
  · rw [Request.encode_eq v buf he, if_pos hb]
  · obtain ⟨v', hd', hs'⟩ := hd.redecode he
    refine ⟨v.image ++ buf.drop v.image.length, v', ?_, ?_, ?_, hs', hd.sem_isSome hp⟩
    · rw [Request.encode_eq v buf he, if_neg (by omega)]
    · rw [List.drop_left' rfl]
    · rw [take_image]; exact hd'

/-- 2048 coils with byte count 0xFF followed by 256 data bytes (any contents): refused with
    `Err(ByteCount(0xFF))` — before the fix this was accepted and gave a value `encode` refuses -/
example (x : UInt8) :
    Request.decode ([0x0F, 0x00, 0x00, 0x08, 0x00, 0xFF] ++ List.replicate 256 x) = .err (.byteCount 0xFF) :=
  Request.decode_wmc_bytes_big 0x00 0x00 0x08 0x00 0xFF _ (by decide)

/-- the hypotheses of `req_decoded_reencodes` / both sides of `req_decoded_encodes_iff` on concrete inputs:
    a dirty-padding request re-encodes (to clean bytes); the truncated one does not -/
example : Request.decode [0x0F, 0x00, 0x01, 0x00, 0x03, 0x01, 0xFF] = .ok (.writeMultipleCoils 1 ⟨[0xFF], 3⟩) ∧
    ¬ WmcTruncated [0x0F, 0x00, 0x01, 0x00, 0x03, 0x01, 0xFF] ∧
    (Request.writeMultipleCoils 1 ⟨[0xFF], 3⟩).encode (List.replicate 7 0) =
      .ok (7, [0x0F, 0x00, 0x01, 0x00, 0x03, 0x01, 0x07]) ∧
    Request.decode [0x0F, 0x00, 0x01, 0x00, 0x03, 0x01, 0x07] = .ok (.writeMultipleCoils 1 ⟨[0x07], 3⟩) ∧
    (Request.writeMultipleCoils 1 ⟨[0x07], 3⟩).sem = (Request.writeMultipleCoils 1 ⟨[0xFF], 3⟩).sem := by
  refine ⟨by decide +kernel, by decide +kernel, by decide +kernel, by decide +kernel, by decide +kernel⟩

example : Request.decode [0x0F, 0x33, 0x11, 0x00, 0x04, 0x00] = .ok (.writeMultipleCoils 0x3311 ⟨[], 4⟩) ∧
    WmcTruncated [0x0F, 0x33, 0x11, 0x00, 0x04, 0x00] ∧ ¬ ReqEncodes (.writeMultipleCoils 0x3311 ⟨[], 4⟩) := by
  have hdec : Request.decode [0x0F, 0x33, 0x11, 0x00, 0x04, 0x00] = .ok (.writeMultipleCoils 0x3311 ⟨[], 4⟩) := by
    decide +kernel
  have htr : WmcTruncated [0x0F, 0x33, 0x11, 0x00, 0x04, 0x00] := by decide +kernel
  exact ⟨hdec, htr, fun he => (req_decoded_encodes_iff _ _ hdec).mp he htr⟩

/-- Read Exception Status is a decoded kind like the fixed-layout ones: coherent, re-encodes to itself -/
example : Response.decode [0x07, 0x6D] = .ok (.readExceptionStatus 0x6D) ∧
    RspCoherent (.readExceptionStatus 0x6D) ∧ RspEncodes (.readExceptionStatus 0x6D) ∧
    Response.decode (Response.readExceptionStatus 0x6D).image = .ok (.readExceptionStatus 0x6D) :=
  have h : Response.decode [0x07, 0x6D] = .ok (.readExceptionStatus 0x6D) := by decide +kernel
  ⟨h, rsp_decoded_coherent _ _ h, rsp_decoded_encodes _ _ h, (rsp_redecode_exact _ _ h).1⟩

/-! ### the defect witness (open finding D5b) -/

/-- the byte string the crate's own unit test asserts is accepted: quantity 4, byte count 0, no data -/
def wmcDefectBytes : Bytes := [0x0F, 0x33, 0x11, 0x00, 0x04, 0x00]

/-- the value it decodes to -/
def wmcDefectValue : Request := .writeMultipleCoils 0x3311 ⟨[], 4⟩

/-- `0F 33 11 00 04 00` is accepted, and the value returned is NOT coherent: it reports length 4, but
    indexing item 0 panics, iteration panics, its meaning is undefined, and encoding it into a buffer
    of exactly its own `pdu_len` (7 bytes) panics. -/
theorem req_wmc_defect_witness :
    Request.decode wmcDefectBytes = .ok wmcDefectValue ∧
    WmcMismatch wmcDefectBytes ∧ WmcShort wmcDefectBytes ∧ WmcTruncated wmcDefectBytes ∧
    (∃ c, wmcDefectValue = .writeMultipleCoils 0x3311 c ∧ c.len = 4 ∧ c.get 0 = .panic ∧ c.iter = .panic) ∧
    wmcDefectValue.sem = none ∧
    wmcDefectValue.pduLen = .ok 7 ∧
    wmcDefectValue.encode [0, 0, 0, 0, 0, 0, 0] = .panic ∧
    ¬ ReqCoherent wmcDefectValue := by
  have hdec : Request.decode wmcDefectBytes = .ok wmcDefectValue := by decide +kernel
  have htr : WmcTruncated wmcDefectBytes := by decide +kernel
  refine ⟨hdec, by decide +kernel, by decide +kernel, htr, ⟨_, rfl, by decide +kernel, by decide +kernel, by decide +kernel⟩,
    by decide +kernel, by decide +kernel, by decide +kernel, ?_⟩
  exact fun hc => (req_decoded_coherent_iff _ _ hdec).mp hc htr

/-- the exclusion is not vacuous the other way round either: a byte count LARGER than needed (here 2
    for 4 coils, two data bytes present) is in the design's mismatch class but outside the "too small"
    class, and the decoded value is coherent -/
example : WmcMismatch [0x0F, 0, 1, 0, 4, 2, 0x0A, 0xFF] ∧ ¬ WmcShort [0x0F, 0, 1, 0, 4, 2, 0x0A, 0xFF] ∧
    Request.decode [0x0F, 0, 1, 0, 4, 2, 0x0A, 0xFF] = .ok (.writeMultipleCoils 1 ⟨[0x0A, 0xFF], 4⟩) ∧
    ReqCoherent (.writeMultipleCoils 1 ⟨[0x0A, 0xFF], 4⟩) :=
  ⟨by decide +kernel, by decide +kernel, by decide +kernel,
    req_decoded_coherent_short_partial [0x0F, 0, 1, 0, 4, 2, 0x0A, 0xFF] _ (by decide +kernel) (by decide +kernel)⟩

/-! ### the ADU decoders inherit it (their PDU is handed to the same PDU decoders) -/

/-- RTU server side: a returned request is `Request.decode` of the extracted frame's PDU -/
theorem rtu_serverDecodeRequest_pdu (buf : Bytes) (s : UInt8) (v : Request)
    (h : Rtu.serverDecodeRequest buf = .ok (some (s, v))) :
    ∃ f loc, Rtu.decodeReq buf = .ok (some (f, loc)) ∧ f.slave = s ∧ Request.decode f.pdu = .ok v := by
  unfold Rtu.serverDecodeRequest at h
  by_cases he : buf.isEmpty
  · rw [if_pos he] at h; cases h
  rw [if_neg he] at h
  cases hs : Rtu.decodeReq buf with
  | err e => rw [hs] at h; cases h
  | panic => rw [hs] at h; cases h
  | ok o =>
    rw [hs] at h
    cases o with
    | none => cases h
    | some p =>
      obtain ⟨f, loc⟩ := p
      simp only [Res.bind'_ok] at h
      cases hd : Request.decode f.pdu with
      | err e => rw [hd] at h; cases h
      | panic => rw [hd] at h; cases h
      | ok r =>
        rw [hd] at h
        simp only [Res.map_ok, Res.ok.injEq, Option.some.injEq, Prod.mk.injEq] at h
        obtain ⟨rfl, rfl⟩ := h
        exact ⟨f, loc, rfl, rfl, hd⟩

/-- TCP server side -/
theorem tcp_decodeRequest_pdu (buf : Bytes) (t : UInt16) (u : UInt8) (v : Request)
    (h : Tcp.decodeRequest buf = .ok (some (t, u, v))) :
    ∃ f loc, Tcp.decodeReq buf = .ok (some (f, loc)) ∧ f.transactionId = t ∧ f.unitId = u ∧
      Request.decode f.pdu = .ok v := by
  unfold Tcp.decodeRequest at h
  by_cases he : buf.isEmpty
  · rw [if_pos he] at h; cases h
  rw [if_neg he] at h
  cases hs : Tcp.decodeReq buf with
  | err e => rw [hs] at h; cases h
  | panic => rw [hs] at h; cases h
  | ok o =>
    rw [hs] at h
    cases o with
    | none => cases h
    | some p =>
      obtain ⟨f, loc⟩ := p
      simp only [Res.bind'_ok] at h
      cases hd : Request.decode f.pdu with
      | err e => rw [hd] at h; cases h
      | panic => rw [hd] at h; cases h
      | ok r =>
        rw [hd] at h
        simp only [Res.map_ok, Res.ok.injEq, Option.some.injEq, Prod.mk.injEq] at h
        obtain ⟨rfl, rfl, rfl⟩ := h
        exact ⟨f, loc, rfl, rfl, rfl, hd⟩

/-- the "exception first, then normal response" step returns a normal response only from `Response.decode` -/
theorem excThenRsp_ok {α} (pdu : Bytes) (f : ExceptionResponse → α) (g : Response → α) (x : α)
    (h : (match ExceptionResponse.decode pdu with
          | .ok e => Res.ok (f e)
          | .panic => .panic
          | .err _ => (Response.decode pdu).map g) = .ok x) :
    (∃ e, ExceptionResponse.decode pdu = .ok e ∧ x = f e) ∨ (∃ r, Response.decode pdu = .ok r ∧ x = g r) := by
  cases he : ExceptionResponse.decode pdu with
  | ok e =>
    rw [he] at h
    simp only [Res.ok.injEq] at h
    exact Or.inl ⟨e, rfl, h.symm⟩
  | panic => rw [he] at h; cases h
  | err e =>
    rw [he] at h
    cases hd : Response.decode pdu with
    | err e => rw [hd] at h; cases h
    | panic => rw [hd] at h; cases h
    | ok r =>
      rw [hd] at h
      simp only [Res.map_ok, Res.ok.injEq] at h
      exact Or.inr ⟨r, rfl, h.symm⟩

/-- RTU client side: a returned normal response is `Response.decode` of the extracted frame's PDU -/
theorem rtu_clientDecodeResponse_pdu (buf : Bytes) (s : UInt8) (v : Response)
    (h : Rtu.clientDecodeResponse buf = .ok (some (s, .ok v))) :
    ∃ f loc, Rtu.decodeRsp buf = .ok (some (f, loc)) ∧ f.slave = s ∧ Response.decode f.pdu = .ok v := by
  unfold Rtu.clientDecodeResponse at h
  by_cases he : buf.isEmpty
  · rw [if_pos he] at h; cases h
  rw [if_neg he] at h
  cases hs : Rtu.decodeRsp buf with
  | err e => rw [hs] at h; cases h
  | panic => rw [hs] at h; cases h
  | ok o =>
    rw [hs] at h
    cases o with
    | none => cases h
    | some p =>
      obtain ⟨f, loc⟩ := p
      simp only [Res.bind'_ok] at h
      rcases excThenRsp_ok f.pdu _ _ _ h with ⟨e, _, hx⟩ | ⟨r, hr, hx⟩
      · simp only [Option.some.injEq, Prod.mk.injEq, reduceCtorEq, and_false] at hx
      · simp only [Option.some.injEq, Prod.mk.injEq, ResponsePdu.ok.injEq] at hx
        obtain ⟨rfl, rfl⟩ := hx
        exact ⟨f, loc, rfl, rfl, hr⟩

/-- TCP client side -/
theorem tcp_decodeResponse_pdu (buf : Bytes) (t : UInt16) (u : UInt8) (v : Response)
    (h : Tcp.decodeResponse buf = .ok (some (t, u, .ok v))) :
    ∃ f loc, Tcp.decodeRsp buf = .ok (some (f, loc)) ∧ f.transactionId = t ∧ f.unitId = u ∧
      Response.decode f.pdu = .ok v := by
  unfold Tcp.decodeResponse at h
  by_cases he : buf.isEmpty
  · rw [if_pos he] at h; cases h
  rw [if_neg he] at h
  cases hs : Tcp.decodeRsp buf with
  | err e => rw [hs] at h; cases h
  | panic => rw [hs] at h; cases h
  | ok o =>
    rw [hs] at h
    cases o with
    | none => cases h
    | some p =>
      obtain ⟨f, loc⟩ := p
      simp only [Res.bind'_ok] at h
      rcases excThenRsp_ok f.pdu _ _ _ h with ⟨e, _, hx⟩ | ⟨r, hr, hx⟩
      · simp only [Option.some.injEq, Prod.mk.injEq, reduceCtorEq, and_false] at hx
      · simp only [Option.some.injEq, Prod.mk.injEq, ResponsePdu.ok.injEq] at hx
        obtain ⟨rfl, rfl, rfl⟩ := hx
        exact ⟨f, loc, rfl, rfl, rfl, hr⟩

/-- **C13 via the RTU server decoder**: the returned request is the decode of the extracted PDU — a
    contiguous slice of the input — and is coherent exactly when that PDU is outside the D5b region -/
theorem rtu_request_coherent_partial (buf : Bytes) (s : UInt8) (v : Request)
    (h : Rtu.serverDecodeRequest buf = .ok (some (s, v))) :
    ∃ start n, start + n + 3 ≤ buf.length ∧
      Request.decode ((buf.drop (start + 1)).take n) = .ok v ∧
      (ReqCoherent v ↔ ¬ WmcTruncated ((buf.drop (start + 1)).take n)) ∧
      (¬ WmcShort ((buf.drop (start + 1)).take n) → ReqCoherent v) ∧
      (¬ WmcMismatch ((buf.drop (start + 1)).take n) → ReqCoherent v) := by
  obtain ⟨f, loc, hs, _, hd⟩ := rtu_serverDecodeRequest_pdu buf s v h
  obtain ⟨n, hp, _, hl⟩ := Rtu.scan_pdu_slice Rtu.attemptReq _ rfl buf f loc hs
  rw [hp] at hd
  exact ⟨loc.start, n, hl, hd, req_decoded_coherent_iff _ _ hd, req_decoded_coherent_short_partial _ _ hd,
    req_decoded_coherent_partial _ _ hd⟩

/-- **C13 via the TCP server decoder** -/
theorem tcp_request_coherent_partial (buf : Bytes) (t : UInt16) (u : UInt8) (v : Request)
    (h : Tcp.decodeRequest buf = .ok (some (t, u, v))) :
    ∃ start n, start + n + 7 ≤ buf.length ∧
      Request.decode ((buf.drop (start + 7)).take n) = .ok v ∧
      (ReqCoherent v ↔ ¬ WmcTruncated ((buf.drop (start + 7)).take n)) ∧
      (¬ WmcShort ((buf.drop (start + 7)).take n) → ReqCoherent v) ∧
      (¬ WmcMismatch ((buf.drop (start + 7)).take n) → ReqCoherent v) := by
  obtain ⟨f, loc, hs, _, _, hd⟩ := tcp_decodeRequest_pdu buf t u v h
  obtain ⟨n, hp, _, hl⟩ := Tcp.scan_pdu_slice Tcp.attemptReq _ rfl buf f loc hs
  rw [hp] at hd
  exact ⟨loc.start, n, hl, hd, req_decoded_coherent_iff _ _ hd, req_decoded_coherent_short_partial _ _ hd,
    req_decoded_coherent_partial _ _ hd⟩

/-- **C13 via the RTU client decoder**: every normal response it returns is coherent (no exclusion),
    encodes into every large enough buffer and has a meaning -/
theorem rtu_response_coherent (buf : Bytes) (s : UInt8) (v : Response)
    (h : Rtu.clientDecodeResponse buf = .ok (some (s, .ok v))) :
    RspCoherent v ∧ RspEncodes v ∧ v.sem.isSome = true := by
  obtain ⟨f, _, _, _, hd⟩ := rtu_clientDecodeResponse_pdu buf s v h
  exact ⟨rsp_decoded_coherent _ _ hd, rsp_decoded_encodes _ _ hd, rsp_decoded_has_meaning _ _ hd⟩

/-- **C13 via the TCP response decoder** -/
theorem tcp_response_coherent (buf : Bytes) (t : UInt16) (u : UInt8) (v : Response)
    (h : Tcp.decodeResponse buf = .ok (some (t, u, .ok v))) :
    RspCoherent v ∧ RspEncodes v ∧ v.sem.isSome = true := by
  obtain ⟨f, _, _, _, _, hd⟩ := tcp_decodeResponse_pdu buf t u v h
  exact ⟨rsp_decoded_coherent _ _ hd, rsp_decoded_encodes _ _ hd, rsp_decoded_has_meaning _ _ hd⟩

/-- D5b is reachable through both ADU decoders: the same six PDU bytes framed for RTU (slave 0x11, valid
    CRC; the RTU length predictor reads the quantity's high byte, open finding D4, which happens to be
    the right length here) and for TCP (length field 7) decode to the incoherent value -/
theorem adu_wmc_defect_witness :
    Rtu.serverDecodeRequest [0x11, 0x0F, 0x33, 0x11, 0x00, 0x04, 0x00, 0x19, 0x06] = .ok (some (0x11, wmcDefectValue)) ∧
    Tcp.decodeRequest [0, 1, 0, 0, 0, 7, 0x11, 0x0F, 0x33, 0x11, 0x00, 0x04, 0x00] = .ok (some (1, 0x11, wmcDefectValue)) ∧
    ¬ ReqCoherent wmcDefectValue :=
  ⟨by decide +kernel, by decide +kernel, req_wmc_defect_witness.2.2.2.2.2.2.2.2⟩

/-! ### concrete instances -/

/-- hypotheses of the ADU theorems are satisfiable: a read-coils request over RTU and over TCP … -/
example : Rtu.serverDecodeRequest [0x11, 0x01, 0, 0x13, 0, 0x25, 0x0E, 0x84] = .ok (some (0x11, .readCoils 0x13 0x25)) := by
  decide +kernel
example : Tcp.decodeRequest [0, 1, 0, 0, 0, 6, 0x11, 0x01, 0, 0x13, 0, 0x25] = .ok (some (1, 0x11, .readCoils 0x13 0x25)) := by
  decide +kernel
/-- … and an odd-byte-count register response over RTU and over TCP -/
example : Rtu.clientDecodeResponse [0x11, 0x03, 0x03, 0xAB, 0xCD, 0xEF, 35, 226] =
    .ok (some (0x11, .ok (.readHoldingRegisters ⟨[0xAB, 0xCD], 1⟩))) := by decide +kernel
example : Tcp.decodeResponse [0, 1, 0, 0, 0, 6, 0x11, 0x03, 0x03, 0xAB, 0xCD, 0xEF] =
    .ok (some (1, 0x11, .ok (.readHoldingRegisters ⟨[0xAB, 0xCD], 1⟩))) := by decide +kernel

/-- a register response with an ODD byte count (3): accepted; the decoded value is backed by the two bytes
    of its one whole register (the stray byte 0xEF is NOT part of it: `data.length = quantity * 2`), it
    has length 1, item 0 is 0xABCD, there is nothing at index 1 nor at `usize::MAX`, iteration yields one
    item, re-encoding gives `03 02 AB CD` and leaves the rest of the buffer alone, and decoding that
    again gives the very same value -/
example :
    Response.decode [0x03, 0x03, 0xAB, 0xCD, 0xEF] = .ok (.readHoldingRegisters ⟨[0xAB, 0xCD], 1⟩) ∧
    RspDataExact (.readHoldingRegisters ⟨[0xAB, 0xCD], 1⟩) ∧
    (Data.mk [0xAB, 0xCD] 1).len = 1 ∧
    (Data.mk [0xAB, 0xCD] 1).get 0 = .ok (some 0xABCD) ∧
    (Data.mk [0xAB, 0xCD] 1).get 1 = .ok none ∧
    (Data.mk [0xAB, 0xCD] 1).get 18446744073709551615 = .ok none ∧
    (Data.mk [0xAB, 0xCD] 1).iter = .ok [0xABCD] ∧
    (Response.readHoldingRegisters ⟨[0xAB, 0xCD], 1⟩).pduLen = .ok 4 ∧
    (Response.readHoldingRegisters ⟨[0xAB, 0xCD], 1⟩).encode [9, 9, 9, 9, 9, 9] = .ok (4, [0x03, 0x02, 0xAB, 0xCD, 9, 9]) ∧
    (Response.readHoldingRegisters ⟨[0xAB, 0xCD], 1⟩).encode [9, 9, 9] = .err .bufferSize ∧
    Response.decode [0x03, 0x02, 0xAB, 0xCD] = .ok (.readHoldingRegisters ⟨[0xAB, 0xCD], 1⟩) ∧
    (Response.readHoldingRegisters ⟨[0xAB, 0xCD], 1⟩).sem = some (.readHoldingRegisters [0xABCD]) := by
  decide +kernel

/-- byte counts 0 and 1 decode to the empty register list backed by no bytes -/
example : Response.decode [0x04, 0x01, 0x7F] = .ok (.readInputRegisters ⟨[], 0⟩) ∧
    Response.decode [0x17, 0x00] = .ok (.readWriteMultipleRegisters ⟨[], 0⟩) := by decide +kernel

example : RspCoherent (.readHoldingRegisters ⟨[0xAB, 0xCD], 1⟩) :=
  rsp_decoded_coherent [0x03, 0x03, 0xAB, 0xCD, 0xEF] _ (by decide +kernel)

example : RspDataExact (.readHoldingRegisters ⟨[0xAB, 0xCD], 1⟩) :=
  (rsp_decoded_data_exact [0x03, 0x03, 0xAB, 0xCD, 0xEF] _ (by decide +kernel)).1

/-- a write-multiple-registers request: two words, both readable, nothing beyond, re-encoding
    reproduces the input -/
example :
    Request.decode [0x10, 0, 1, 0, 2, 4, 0, 10, 1, 2] = .ok (.writeMultipleRegisters 1 ⟨[0, 10, 1, 2], 2⟩) ∧
    ¬ WmcMismatch [0x10, 0, 1, 0, 2, 4, 0, 10, 1, 2] ∧
    (Data.mk [0, 10, 1, 2] 2).len = 2 ∧
    (Data.mk [0, 10, 1, 2] 2).get 0 = .ok (some 10) ∧
    (Data.mk [0, 10, 1, 2] 2).get 1 = .ok (some 0x0102) ∧
    (Data.mk [0, 10, 1, 2] 2).get 2 = .ok none ∧
    (Data.mk [0, 10, 1, 2] 2).iter = .ok [10, 0x0102] ∧
    (Request.writeMultipleRegisters 1 ⟨[0, 10, 1, 2], 2⟩).pduLen = .ok 10 ∧
    (Request.writeMultipleRegisters 1 ⟨[0, 10, 1, 2], 2⟩).encode [7, 7, 7, 7, 7, 7, 7, 7, 7, 7, 7] =
      .ok (10, [0x10, 0, 1, 0, 2, 4, 0, 10, 1, 2, 7]) := by
  decide +kernel

example : ReqCoherent (.writeMultipleRegisters 1 ⟨[0, 10, 1, 2], 2⟩) :=
  req_decoded_coherent_partial [0x10, 0, 1, 0, 2, 4, 0, 10, 1, 2] _ (by decide +kernel) (by decide +kernel)

/-- a well-formed write-multiple-coils request (10 coils, byte count 2) is outside the excluded region -/
example : ReqCoherent (.writeMultipleCoils 0x13 ⟨[0xCD, 0x01], 10⟩) :=
  req_decoded_coherent_partial [0x0F, 0, 0x13, 0, 0x0A, 2, 0xCD, 0x01] _ (by decide +kernel) (by decide +kernel)

end Modbus.C13

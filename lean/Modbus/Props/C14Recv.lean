import Modbus.Props.C14Full
import Modbus.Props.C10
/-
C14, last sentence — "… when none of the first 256 offsets can start a frame it reports an error rather
than 'incomplete', so a receiver can always discard and make progress" — as a theorem about a
caller-side loop.

`Receiver.drain` (Model/Receiver.lean, the loop of property C11) stops with a fault as soon as the scanner
reports an error.  The *resilient* receiver defined here does what the property's last sentence suggests:
on an error it discards ONE byte from the front of its buffer and scans again; in every other respect it
is `drain` (consume `start + size` bytes per reported frame, stop on 'incomplete').

Generic in the attempt `att` (`scanf = scan att`), no bound on any length:

* `resilient` is total by construction (well-founded recursion on the buffer length, justified by
  `step_shortens`); `resilient_progress`: one iteration either stops (waiting / fault) or strictly
  shortens the buffer; `resilient_eq_drain`: on every run on which `drain` raises no fault the two
  loops agree;
* `resilient_recovers`: buffer `noise ++ frame ++ rest`, `frame` a `Good` frame with meaning `x`, every
  offset inside `noise` rejected by the attempt in context — for ANY length of `noise` (also > 255 bytes)
  the receiver delivers `x` as its next frame and carries on with exactly `rest`; nothing is delivered from
  the noise, the frame is not lost.  While more than 255 noise bytes remain the scan is an error
  (`scan_gives_up`; the buffer has ≥ 257 bytes because the frame has fully arrived) and one byte is
  dropped; once at most 255 remain the frame is found at offset `noise.length` (`scan_found`);
* `resilient_stream`: any number of such (noise, frame) segments in a row;
* the four real scanners, well-formed frames (`Spec.tcpFrame` / `Spec.rtuFrame` of a `PduComplete` PDU,
  and in the words `Spec.WellFormedTcp/Rtu`); RTU requests as `…_partial` (function codes 0x0F / 0x10
  excluded, open finding D4);
* a kernel-evaluated instance: 300 bytes of 0x42 and the RTU request 11 01 00 01 00 02 EE 9B.

The subtlety, stated honestly: the theorem is about the situation where the frame HAS fully arrived
(`buffer = noise ++ frame ++ rest`).  If only a part of the frame has arrived and fewer than 257 bytes
are buffered the scanner cannot give up: it answers 'incomplete' and the receiver waits for more bytes
(`resilient_waits_short`, `resilient_waits_partial`) — it does not discard; recovery happens when the rest of the frame arrives.
-/
namespace Modbus.C14Recv
open Modbus.Reception (Good)

variable {F : Type}

/-! ### the receiver -/

/-- what one iteration of the loop decides -/
inductive Step (F : Type) where
  /-- the buffer is empty or the scanner said 'incomplete': keep the buffer, wait for more bytes -/
  | wait
  /-- the scanner panicked or reported a frame of `start + size = 0`: stop, raise the fault flag (as `drain`) -/
  | fault
  /-- a frame: hand it out, continue with the buffer behind it -/
  | deliver (x : F) (next : Bytes)
  /-- the scanner reported an error: one byte has been discarded, continue with the remainder -/
  | discard (next : Bytes)

/-- one iteration: scan; frame ⇒ consume `start + size`; error ⇒ discard ONE byte; 'incomplete' ⇒ wait -/
def step (scanf : Bytes → Res (Option (F × Loc))) (buf : Bytes) : Step F :=
  if buf = [] then .wait else
  match scanf buf with
  | .ok (some (x, loc)) =>
      if loc.start + loc.size = 0 then .fault else .deliver x (buf.drop (loc.start + loc.size))
  | .ok none => .wait
  | .err _ => .discard (buf.drop 1)
  | .panic => .fault

/-- the buffer the loop continues with, if it continues -/
def Step.next : Step F → Option Bytes
  | .wait => none
  | .fault => none
  | .deliver _ b => some b
  | .discard b => some b

/-- **progress, the arithmetic**: whenever the loop continues, the buffer is strictly shorter -/
theorem step_shortens (scanf : Bytes → Res (Option (F × Loc))) (buf next : Bytes)
    (h : (step scanf buf).next = some next) : next.length < buf.length := by
  unfold step at h
  by_cases hb : buf = []
  · rw [if_pos hb] at h; cases h
  · rw [if_neg hb] at h
    have hpos : 0 < buf.length := List.length_pos_iff.2 hb
    cases hs : scanf buf with
    | ok a =>
      cases a with
      | none => rw [hs] at h; cases h
      | some p =>
        obtain ⟨x, loc⟩ := p
        rw [hs] at h
        simp only at h
        by_cases h0 : loc.start + loc.size = 0
        · rw [if_pos h0] at h; cases h
        · rw [if_neg h0] at h
          simp only [Step.next, Option.some.injEq] at h
          subst h
          rw [List.length_drop]; omega
    | panic => rw [hs] at h; cases h
    | err e =>
      rw [hs] at h
      simp only [Step.next, Option.some.injEq] at h
      subst h
      rw [List.length_drop]; omega

/-- the resilient receive loop: returns the remaining buffer, the frames delivered (appended to `out`)
and the fault flag.  Total: well-founded recursion on the buffer length. -/
def resilient (scanf : Bytes → Res (Option (F × Loc))) (buf : Bytes) (out : List F) : Bytes × List F × Bool :=
  match _h : step scanf buf with
  | .wait => (buf, out, false)
  | .fault => (buf, out, true)
  | .deliver x next => resilient scanf next (out ++ [x])
  | .discard next => resilient scanf next out
termination_by buf.length
decreasing_by
  · exact step_shortens scanf buf next (by rw [_h]; rfl)
  · exact step_shortens scanf buf next (by rw [_h]; rfl)

/-! ### unfolding equations -/

theorem resilient_wait (scanf : Bytes → Res (Option (F × Loc))) (buf : Bytes) (out : List F)
    (h : step scanf buf = .wait) : resilient scanf buf out = (buf, out, false) := by
  rw [resilient]; split <;> simp_all

theorem resilient_fault (scanf : Bytes → Res (Option (F × Loc))) (buf : Bytes) (out : List F)
    (h : step scanf buf = .fault) : resilient scanf buf out = (buf, out, true) := by
  rw [resilient]; split <;> simp_all

theorem resilient_deliver (scanf : Bytes → Res (Option (F × Loc))) (buf : Bytes) (out : List F)
    (x : F) (next : Bytes) (h : step scanf buf = .deliver x next) :
    resilient scanf buf out = resilient scanf next (out ++ [x]) := by
  rw [resilient]; split <;> simp_all

theorem resilient_discard (scanf : Bytes → Res (Option (F × Loc))) (buf : Bytes) (out : List F)
    (next : Bytes) (h : step scanf buf = .discard next) :
    resilient scanf buf out = resilient scanf next out := by
  rw [resilient]; split <;> simp_all

/-! ### what `step` does, by the scanner's answer -/

theorem step_nil (scanf : Bytes → Res (Option (F × Loc))) : step scanf [] = .wait := by
  unfold step; rw [if_pos rfl]

theorem step_of_err (scanf : Bytes → Res (Option (F × Loc))) (buf : Bytes) (hb : buf ≠ [])
    (h : (scanf buf).isErr = true) : step scanf buf = .discard (buf.drop 1) := by
  obtain ⟨e, he⟩ := (Res.isErr_iff _).1 h
  unfold step; rw [if_neg hb, he]

theorem step_of_none (scanf : Bytes → Res (Option (F × Loc))) (buf : Bytes)
    (h : scanf buf = .ok none) : step scanf buf = .wait := by
  unfold step
  by_cases hb : buf = []
  · rw [if_pos hb]
  · rw [if_neg hb, h]

theorem step_of_frame (scanf : Bytes → Res (Option (F × Loc))) (buf : Bytes) (x : F) (loc : Loc)
    (hb : buf ≠ []) (h : scanf buf = .ok (some (x, loc))) (h0 : loc.start + loc.size ≠ 0) :
    step scanf buf = .deliver x (buf.drop (loc.start + loc.size)) := by
  unfold step; rw [if_neg hb, h]; simp only; rw [if_neg h0]

theorem step_of_panic (scanf : Bytes → Res (Option (F × Loc))) (buf : Bytes) (hb : buf ≠ [])
    (h : scanf buf = .panic) : step scanf buf = .fault := by
  unfold step; rw [if_neg hb, h]

/-! ### 1. termination and progress -/

/-- **progress**: every iteration either stops — waiting for more bytes (empty buffer / 'incomplete'),
or with the fault flag (panic / zero-size report, as `drain`) — or continues with a strictly shorter
buffer, having delivered one frame or discarded one byte.  (Termination of `resilient` is by
construction: this is its `decreasing_by` argument.) -/
theorem resilient_progress (scanf : Bytes → Res (Option (F × Loc))) (buf : Bytes) :
    step scanf buf = .wait ∨ step scanf buf = .fault ∨
    (∃ x next, step scanf buf = .deliver x next ∧ next.length < buf.length) ∨
    (∃ next, step scanf buf = .discard next ∧ next.length + 1 = buf.length) := by
  cases hs : step scanf buf with
  | wait => exact .inl rfl
  | fault => exact .inr (.inl rfl)
  | deliver x next =>
    exact .inr (.inr (.inl ⟨x, next, rfl, step_shortens scanf buf next (by rw [hs]; rfl)⟩))
  | discard next =>
    refine .inr (.inr (.inr ⟨next, rfl, ?_⟩))
    unfold step at hs
    by_cases hb : buf = []
    · rw [if_pos hb] at hs; cases hs
    · rw [if_neg hb] at hs
      have hpos : 0 < buf.length := List.length_pos_iff.2 hb
      cases hsc : scanf buf with
      | ok a =>
        cases a with
        | none => rw [hsc] at hs; cases hs
        | some p =>
          obtain ⟨x, loc⟩ := p
          rw [hsc] at hs; simp only at hs
          split at hs <;> cases hs
      | panic => rw [hsc] at hs; cases hs
      | err e =>
        rw [hsc] at hs
        simp only [Step.discard.injEq] at hs
        subst hs
        rw [List.length_drop]; omega

/-- the loop stops waiting only on an empty buffer or on 'incomplete' -/
theorem step_wait_iff (scanf : Bytes → Res (Option (F × Loc))) (buf : Bytes) :
    step scanf buf = .wait ↔ buf = [] ∨ scanf buf = .ok none := by
  constructor
  · intro h
    by_cases hb : buf = []
    · exact .inl hb
    · right
      unfold step at h
      rw [if_neg hb] at h
      cases hsc : scanf buf with
      | ok a =>
        cases a with
        | none => rfl
        | some p =>
          obtain ⟨x, loc⟩ := p
          rw [hsc] at h; simp only at h
          split at h <;> cases h
      | panic => rw [hsc] at h; cases h
      | err e => rw [hsc] at h; cases h
  · rintro (hb | hn)
    · subst hb; exact step_nil scanf
    · exact step_of_none scanf buf hn

/-- a scanner that never panics and never reports an empty frame never raises the fault flag:
the loop runs until the buffer is empty or the scanner says 'incomplete' -/
theorem resilient_no_fault (scanf : Bytes → Res (Option (F × Loc)))
    (hnp : ∀ b, scanf b ≠ .panic)
    (hsz : ∀ b x loc, scanf b = .ok (some (x, loc)) → loc.start + loc.size ≠ 0)
    (buf : Bytes) (out : List F) :
    (resilient scanf buf out).2.2 = false ∧
    ((resilient scanf buf out).1 = [] ∨ scanf (resilient scanf buf out).1 = .ok none) := by
  induction hn : buf.length using Nat.strongRecOn generalizing buf out with
  | _ n ih =>
    cases hs : step scanf buf with
    | wait =>
      rw [resilient_wait scanf buf out hs]
      exact ⟨rfl, (step_wait_iff scanf buf).1 hs⟩
    | fault =>
      exfalso
      unfold step at hs
      by_cases hb : buf = []
      · rw [if_pos hb] at hs; cases hs
      · rw [if_neg hb] at hs
        cases hsc : scanf buf with
        | ok a =>
          cases a with
          | none => rw [hsc] at hs; cases hs
          | some p =>
            obtain ⟨x, loc⟩ := p
            rw [hsc] at hs; simp only at hs
            rw [if_neg (hsz buf x loc hsc)] at hs; cases hs
        | panic => exact hnp buf hsc
        | err e => rw [hsc] at hs; cases hs
    | deliver x next =>
      rw [resilient_deliver scanf buf out x next hs]
      have hlt := step_shortens scanf buf next (by rw [hs]; rfl)
      exact ih next.length (by omega) next (out ++ [x]) rfl
    | discard next =>
      rw [resilient_discard scanf buf out next hs]
      have hlt := step_shortens scanf buf next (by rw [hs]; rfl)
      exact ih next.length (by omega) next out rfl

/-- **otherwise it is `drain`**: on every run on which `Receiver.drain` raises no fault — in particular
the scanner never reported an error — the resilient receiver returns the same buffer and the same frames -/
theorem resilient_eq_drain (scanf : Bytes → Res (Option (F × Loc))) (buf : Bytes) (out : List F)
    (h : (Receiver.drain scanf buf out).2.2 = false) :
    resilient scanf buf out = Receiver.drain scanf buf out := by
  induction hn : buf.length using Nat.strongRecOn generalizing buf out with
  | _ n ih =>
    by_cases hb : buf = []
    · subst hb
      rw [resilient_wait scanf [] out (step_nil scanf), Receiver.drain]
      simp
    · have hpos : 0 < buf.length := List.length_pos_iff.2 hb
      rw [Receiver.drain] at h ⊢
      simp only [hb, dite_false] at h ⊢
      cases hsc : scanf buf with
      | ok a =>
        cases a with
        | none =>
          rw [resilient_wait scanf buf out (step_of_none scanf buf hsc)]
        | some p =>
          obtain ⟨x, loc⟩ := p
          rw [hsc] at h
          simp only at h ⊢
          by_cases h0 : loc.start + loc.size = 0
          · simp only [h0, dite_true] at h; cases h
          · simp only [h0, dite_false] at h ⊢
            rw [resilient_deliver scanf buf out x _ (step_of_frame scanf buf x loc hb hsc h0)]
            exact ih _ (by rw [List.length_drop]; omega) _ _ h rfl
      | panic => rw [hsc] at h; simp at h
      | err e => rw [hsc] at h; simp at h

/-! ### 2. recovery from any amount of noise -/

/-- while more than 255 noise bytes are in front of a fully arrived frame, the scanner reports an error -/
theorem scan_err_of_long_noise (att : Attempt F) (noise tail : Bytes) (hn : 256 ≤ noise.length)
    (ht : 1 ≤ tail.length)
    (herr : ∀ i, i < noise.length → (att ((noise ++ tail).drop i)).isErr = true) :
    (scan att (noise ++ tail)).isErr = true :=
  scan_gives_up att (noise ++ tail) (by rw [List.length_append]; omega)
    (fun d hd => herr d (by omega))

/-- **recovery**: `noise ++ frame ++ rest` where `frame` is a `Good` frame with meaning `x` and every
offset inside `noise` is rejected by the attempt in context.  For ANY length of `noise` the resilient
receiver's next delivered frame is `x` — nothing is invented from the noise, the frame is not lost —
and it continues with exactly `rest`. -/
theorem resilient_recovers (att : Attempt F) {frame : Bytes} {x : F} (g : Good (scan att) frame x)
    (noise rest : Bytes) (out : List F)
    (herr : ∀ i, i < noise.length → (att ((noise ++ frame ++ rest).drop i)).isErr = true) :
    resilient (scan att) (noise ++ frame ++ rest) out = resilient (scan att) rest (out ++ [x]) := by
  have h2 := C14Full.good_two att g
  induction noise with
  | nil =>
    have hb : ([] ++ frame ++ rest : Bytes) ≠ [] := by
      intro hnil
      have := congrArg List.length hnil
      simp only [List.nil_append, List.length_append, List.length_nil] at this
      omega
    have hsc := C14Full.scan_found_good att g [] rest (by simp) herr
    have hst := step_of_frame (scan att) _ x ⟨([] : Bytes).length, frame.length⟩ hb hsc
      (by simp only [List.length_nil]; omega)
    rw [resilient_deliver _ _ _ _ _ hst]
    simp only [List.length_nil, Nat.zero_add, List.nil_append, List.drop_left]
  | cons a t ih =>
    by_cases hlen : (a :: t).length ≤ 255
    · -- the frame is within reach: found at offset `noise.length`
      have hb : (a :: t ++ frame ++ rest : Bytes) ≠ [] := by simp
      have hsc := C14Full.scan_found_good att g (a :: t) rest hlen herr
      have hst := step_of_frame (scan att) _ x ⟨(a :: t).length, frame.length⟩ hb hsc
        (by simp only [List.length_cons]; omega)
      rw [resilient_deliver _ _ _ _ _ hst]
      have hd : (a :: t ++ frame ++ rest).drop ((a :: t).length + frame.length) = rest := by
        rw [← List.length_append]; exact List.drop_left
      simp only at hd ⊢
      rw [hd]
    · -- more than 255 noise bytes: the scanner gives up, one byte is discarded
      have hb : (a :: t ++ frame ++ rest : Bytes) ≠ [] := by simp
      have hge : 256 ≤ (a :: t).length := by omega
      have herr' : ∀ i, i < (a :: t).length → (att ((a :: t ++ (frame ++ rest)).drop i)).isErr = true := by
        intro i hi
        rw [← List.append_assoc]; exact herr i hi
      have hE : (scan att (a :: t ++ frame ++ rest)).isErr = true := by
        rw [List.append_assoc]
        exact scan_err_of_long_noise att (a :: t) (frame ++ rest) hge
          (by rw [List.length_append]; omega) herr'
      rw [resilient_discard _ _ _ _ (step_of_err (scan att) _ hb hE)]
      have hd : (a :: t ++ frame ++ rest).drop 1 = t ++ frame ++ rest := by simp
      rw [hd]
      apply ih
      intro i hi
      have := herr (i + 1) (by simp only [List.length_cons]; omega)
      simpa using this

/-- … when nothing follows the frame: the buffer ends empty, the only frame delivered is `x`, no fault -/
theorem resilient_recovers_exact (att : Attempt F) {frame : Bytes} {x : F} (g : Good (scan att) frame x)
    (noise : Bytes) (out : List F)
    (herr : ∀ i, i < noise.length → (att ((noise ++ frame).drop i)).isErr = true) :
    resilient (scan att) (noise ++ frame) out = ([], out ++ [x], false) := by
  have h := resilient_recovers att g noise [] out (by simpa using herr)
  rw [List.append_nil] at h
  rw [h, resilient_wait _ _ _ (step_nil _)]

/-- the honest other side: as long as the frame has NOT fully arrived and at most 256 bytes are buffered,
all of whose examined offsets are rejected, the scanner cannot give up — it says 'incomplete' and the
resilient receiver keeps the buffer and waits (nothing is discarded, nothing delivered) -/
theorem resilient_waits_short (att : Attempt F) (buf : Bytes) (out : List F) (hl : buf.length ≤ 256)
    (herr : ∀ d, d + 1 < buf.length → (att (buf.drop d)).isErr = true) :
    resilient (scan att) buf out = (buf, out, false) := by
  by_cases hb : buf = []
  · subst hb; exact resilient_wait _ _ _ (step_nil _)
  · exact resilient_wait _ _ _ (step_of_none _ _ (scan_incomplete_short att buf hb hl herr))

/-- … likewise when up to 255 rejected noise bytes are followed by the beginning `p` of a frame which the
attempt answers 'incomplete': the receiver waits for the remaining bytes -/
theorem resilient_waits_partial (att : Attempt F) (noise p : Bytes) (out : List F)
    (hn : noise.length ≤ 255) (hp : 2 ≤ p.length)
    (herr : ∀ i, i < noise.length → (att ((noise ++ p).drop i)).isErr = true)
    (hinc : att p = .ok none) :
    resilient (scan att) (noise ++ p) out = (noise ++ p, out, false) := by
  have hd : (noise ++ p).drop noise.length = p := List.drop_left
  have h := scan_first att (noise ++ p) noise.length hn (by rw [List.length_append]; omega) herr
    (by rw [hd, hinc]; exact Res.not_isErr_ok _)
  rw [hd, hinc] at h
  exact resilient_wait _ _ _ (step_of_none _ _ h)

/-! ### any number of (noise, frame) segments -/

/-- the bytes of a stream of segments `(noise, frame, meaning)` followed by `tail` -/
def flat : List (Bytes × Bytes × F) → Bytes → Bytes
  | [], tail => tail
  | (noise, frame, _) :: segs, tail => noise ++ frame ++ flat segs tail

/-- every frame of the stream is `Good`, every noise offset is rejected in its context -/
def Clean (att : Attempt F) : List (Bytes × Bytes × F) → Bytes → Prop
  | [], _ => True
  | (noise, frame, x) :: segs, tail =>
      Good (scan att) frame x ∧
      (∀ i, i < noise.length → (att ((noise ++ frame ++ flat segs tail).drop i)).isErr = true) ∧
      Clean att segs tail

/-- a stream of frames separated by arbitrary amounts of rejected noise: every frame is delivered, in
order, nothing else, and the receiver goes on with what follows the last frame -/
theorem resilient_stream (att : Attempt F) (segs : List (Bytes × Bytes × F)) (tail : Bytes) (out : List F)
    (hc : Clean att segs tail) :
    resilient (scan att) (flat segs tail) out =
      resilient (scan att) tail (out ++ segs.map (fun s => s.2.2)) := by
  induction segs generalizing out with
  | nil => simp [flat]
  | cons s segs ih =>
    obtain ⟨noise, frame, x⟩ := s
    obtain ⟨g, herr, hc'⟩ := hc
    show resilient (scan att) (noise ++ frame ++ flat segs tail) out = _
    rw [resilient_recovers att g noise _ out herr, ih _ hc']
    simp [List.append_assoc]

/-! ### 3. the four scanners -/

/-- `tcp::decode(Request, ·)`: any amount of rejected noise, a well-formed frame, anything -/
theorem tcp_req_resilient_wf (tid : UInt16) (uid : UInt8) (pdu : Bytes)
    (hc : Spec.PduComplete .req pdu) (hn : pdu.length + 1 < 65536) (noise rest : Bytes)
    (out : List Tcp.Frame)
    (herr : ∀ i, i < noise.length →
      (Tcp.attemptReq ((noise ++ Spec.tcpFrame tid uid pdu ++ rest).drop i)).isErr = true) :
    resilient Tcp.decodeReq (noise ++ Spec.tcpFrame tid uid pdu ++ rest) out
      = resilient Tcp.decodeReq rest (out ++ [⟨tid, uid, pdu⟩]) :=
  resilient_recovers Tcp.attemptReq (C10.tcp_req_good tid uid pdu hc hn) noise rest out herr

/-- `tcp::decode(Response, ·)` -/
theorem tcp_rsp_resilient_wf (tid : UInt16) (uid : UInt8) (pdu : Bytes)
    (hc : Spec.PduComplete .rsp pdu) (hn : pdu.length + 1 < 65536) (noise rest : Bytes)
    (out : List Tcp.Frame)
    (herr : ∀ i, i < noise.length →
      (Tcp.attemptRsp ((noise ++ Spec.tcpFrame tid uid pdu ++ rest).drop i)).isErr = true) :
    resilient Tcp.decodeRsp (noise ++ Spec.tcpFrame tid uid pdu ++ rest) out
      = resilient Tcp.decodeRsp rest (out ++ [⟨tid, uid, pdu⟩]) :=
  resilient_recovers Tcp.attemptRsp (C10.tcp_rsp_good tid uid pdu hc hn) noise rest out herr

/-- `rtu::decode(Response, ·)` -/
theorem rtu_rsp_resilient_wf (slave : UInt8) (pdu : Bytes) (hc : Spec.PduComplete .rsp pdu)
    (noise rest : Bytes) (out : List Rtu.Frame)
    (herr : ∀ i, i < noise.length →
      (Rtu.attemptRsp ((noise ++ Spec.rtuFrame slave pdu ++ rest).drop i)).isErr = true) :
    resilient Rtu.decodeRsp (noise ++ Spec.rtuFrame slave pdu ++ rest) out
      = resilient Rtu.decodeRsp rest (out ++ [⟨slave, pdu⟩]) :=
  resilient_recovers Rtu.attemptRsp (C10.rtu_rsp_good slave pdu hc) noise rest out herr

/-
Full statement for RTU requests: `rtu_req_resilient_wf_partial` without `hF`, `h10`.  NOT provable for
the model of the unedited crate (open finding D4): a well-formed WriteMultipleCoils /
WriteMultipleRegisters request is in general not found by `rtu::decode(Request, ·)`
(`C10.rtu_req_write_multiple_defect_witness`, and the last example of this file).  Missing: exactly
the frames whose function code is 0x0F or 0x10.
-/
/-- `rtu::decode(Request, ·)`, function codes 0x0F / 0x10 excluded (D4) -/
theorem rtu_req_resilient_wf_partial (slave : UInt8) (pdu : Bytes) (hc : Spec.PduComplete .req pdu)
    (hF : pdu[0]? ≠ some 0x0F) (h10 : pdu[0]? ≠ some 0x10)
    (noise rest : Bytes) (out : List Rtu.Frame)
    (herr : ∀ i, i < noise.length →
      (Rtu.attemptReq ((noise ++ Spec.rtuFrame slave pdu ++ rest).drop i)).isErr = true) :
    resilient Rtu.decodeReq (noise ++ Spec.rtuFrame slave pdu ++ rest) out
      = resilient Rtu.decodeReq rest (out ++ [⟨slave, pdu⟩]) :=
  resilient_recovers Rtu.attemptReq (C10.rtu_req_good_partial slave pdu hc hF h10) noise rest out herr

/-! in the property's words: `Spec.WellFormedTcp` / `Spec.WellFormedRtu` frames -/

theorem tcp_req_resilient_wellformed (noise frame rest : Bytes) (out : List Tcp.Frame)
    (hw : Spec.WellFormedTcp .req frame)
    (herr : ∀ i, i < noise.length → (Tcp.attemptReq ((noise ++ frame ++ rest).drop i)).isErr = true) :
    ∃ x, Tcp.decodeReq frame = .ok (some (x, ⟨0, frame.length⟩)) ∧
      resilient Tcp.decodeReq (noise ++ frame ++ rest) out = resilient Tcp.decodeReq rest (out ++ [x]) := by
  obtain ⟨tid, uid, pdu, hc, hn, rfl⟩ := hw
  exact ⟨_, (C10.tcp_req_good tid uid pdu hc hn).exact, tcp_req_resilient_wf tid uid pdu hc hn noise rest out herr⟩

theorem tcp_rsp_resilient_wellformed (noise frame rest : Bytes) (out : List Tcp.Frame)
    (hw : Spec.WellFormedTcp .rsp frame)
    (herr : ∀ i, i < noise.length → (Tcp.attemptRsp ((noise ++ frame ++ rest).drop i)).isErr = true) :
    ∃ x, Tcp.decodeRsp frame = .ok (some (x, ⟨0, frame.length⟩)) ∧
      resilient Tcp.decodeRsp (noise ++ frame ++ rest) out = resilient Tcp.decodeRsp rest (out ++ [x]) := by
  obtain ⟨tid, uid, pdu, hc, hn, rfl⟩ := hw
  exact ⟨_, (C10.tcp_rsp_good tid uid pdu hc hn).exact, tcp_rsp_resilient_wf tid uid pdu hc hn noise rest out herr⟩

theorem rtu_rsp_resilient_wellformed (noise frame rest : Bytes) (out : List Rtu.Frame)
    (hw : Spec.WellFormedRtu .rsp frame)
    (herr : ∀ i, i < noise.length → (Rtu.attemptRsp ((noise ++ frame ++ rest).drop i)).isErr = true) :
    ∃ x, Rtu.decodeRsp frame = .ok (some (x, ⟨0, frame.length⟩)) ∧
      resilient Rtu.decodeRsp (noise ++ frame ++ rest) out = resilient Rtu.decodeRsp rest (out ++ [x]) := by
  obtain ⟨slave, pdu, hc, rfl⟩ := hw
  exact ⟨_, (C10.rtu_rsp_good slave pdu hc).exact, rtu_rsp_resilient_wf slave pdu hc noise rest out herr⟩

/-- RTU requests whose function code (the frame's second byte) is not 0x0F / 0x10 (D4); the full
statement has no `hF`, `h10` -/
theorem rtu_req_resilient_wellformed_partial (noise frame rest : Bytes) (out : List Rtu.Frame)
    (hw : Spec.WellFormedRtu .req frame) (hF : frame[1]? ≠ some 0x0F) (h10 : frame[1]? ≠ some 0x10)
    (herr : ∀ i, i < noise.length → (Rtu.attemptReq ((noise ++ frame ++ rest).drop i)).isErr = true) :
    ∃ x, Rtu.decodeReq frame = .ok (some (x, ⟨0, frame.length⟩)) ∧
      resilient Rtu.decodeReq (noise ++ frame ++ rest) out = resilient Rtu.decodeReq rest (out ++ [x]) := by
  obtain ⟨slave, pdu, hc, rfl⟩ := hw
  have hb := (Reception.pduComplete_bounds hc).1
  rw [C14Full.rtuFrame_fc slave pdu hb] at hF h10
  exact ⟨_, (C10.rtu_req_good_partial slave pdu hc hF h10).exact,
    rtu_req_resilient_wf_partial slave pdu hc hF h10 noise rest out herr⟩

/-- the four scanners never raise the fault flag: they never panic (`Total.scan_ne_panic`) and a reported
frame starts a buffer of at least two bytes, so the loop always runs until the buffer is empty or the
scanner says 'incomplete' -/
theorem scan_size_pos (att : Attempt F) (hpos : ∀ raw x sz, att raw = .ok (some (x, sz)) → sz ≠ 0)
    (b : Bytes) (x : F) (loc : Loc) (h : scan att b = .ok (some (x, loc))) : loc.start + loc.size ≠ 0 := by
  have := hpos _ x loc.size (scan_no_later att b x loc h).2.2.1
  omega

theorem mkAttempt_size_pos (predict : Bytes → Res (Option Nat)) (extract : Bytes → Nat → Res (Option F))
    (oh : Nat) (hoh : 0 < oh) (raw : Bytes) (x : F) (sz : Nat)
    (h : mkAttempt predict extract oh raw = .ok (some (x, sz))) : sz ≠ 0 := by
  obtain ⟨n, _, _, rfl⟩ := mkAttempt_some predict extract oh raw x sz h
  omega

theorem rtu_req_no_fault (buf : Bytes) (out : List Rtu.Frame) :
    (resilient Rtu.decodeReq buf out).2.2 = false :=
  (resilient_no_fault (scan Rtu.attemptReq)
    (fun b => Total.scan_ne_panic Rtu.attemptReq b Total.Rtu.attemptReq_ne_panic)
    (scan_size_pos Rtu.attemptReq (mkAttempt_size_pos _ _ 3 (by decide))) buf out).1

theorem rtu_rsp_no_fault (buf : Bytes) (out : List Rtu.Frame) :
    (resilient Rtu.decodeRsp buf out).2.2 = false :=
  (resilient_no_fault (scan Rtu.attemptRsp)
    (fun b => Total.scan_ne_panic Rtu.attemptRsp b Total.Rtu.attemptRsp_ne_panic)
    (scan_size_pos Rtu.attemptRsp (mkAttempt_size_pos _ _ 3 (by decide))) buf out).1

theorem tcp_req_no_fault (buf : Bytes) (out : List Tcp.Frame) :
    (resilient Tcp.decodeReq buf out).2.2 = false :=
  (resilient_no_fault (scan Tcp.attemptReq)
    (fun b => Total.scan_ne_panic Tcp.attemptReq b Total.Tcp.attemptReq_ne_panic)
    (scan_size_pos Tcp.attemptReq (mkAttempt_size_pos _ _ 7 (by decide))) buf out).1

theorem tcp_rsp_no_fault (buf : Bytes) (out : List Tcp.Frame) :
    (resilient Tcp.decodeRsp buf out).2.2 = false :=
  (resilient_no_fault (scan Tcp.attemptRsp)
    (fun b => Total.scan_ne_panic Tcp.attemptRsp b Total.Tcp.attemptRsp_ne_panic)
    (scan_size_pos Tcp.attemptRsp (mkAttempt_size_pos _ _ 7 (by decide))) buf out).1

/-! ### Concrete instances (kernel-evaluated) -/

/-- 300 bytes of 0x42, then the RTU request 11 01 00 01 00 02 EE 9B: the scanner alone gives up … -/
example : (Rtu.decodeReq (List.replicate 300 0x42 ++ [0x11, 0x01, 0x00, 0x01, 0x00, 0x02, 0xEE, 0x9B])).isErr = true := by
  decide +kernel

/-- … `drain` stops there with the fault flag, nothing delivered … -/
example : Receiver.drain Rtu.decodeReq
    (List.replicate 300 0x42 ++ [0x11, 0x01, 0x00, 0x01, 0x00, 0x02, 0xEE, 0x9B]) []
    = (List.replicate 300 0x42 ++ [0x11, 0x01, 0x00, 0x01, 0x00, 0x02, 0xEE, 0x9B], [], true) := by
  decide +kernel

/-- … the resilient receiver delivers exactly that frame and ends with an empty buffer, by evaluation -/
example : resilient Rtu.decodeReq
    (List.replicate 300 0x42 ++ [0x11, 0x01, 0x00, 0x01, 0x00, 0x02, 0xEE, 0x9B]) []
    = ([], [⟨0x11, [0x01, 0x00, 0x01, 0x00, 0x02]⟩], false) := by
  decide +kernel

/-- the frame is the specification's frame of a complete PDU -/
example : Spec.rtuFrame 0x11 [0x01, 0x00, 0x01, 0x00, 0x02] = [0x11, 0x01, 0x00, 0x01, 0x00, 0x02, 0xEE, 0x9B] := by
  decide +kernel

/-- … and the same by the theorem: the hypothesis "every noise offset is rejected in context" holds
(the last offset reads the slave id 0x11 as a known function code and is rejected by the CRC) -/
example : resilient Rtu.decodeReq
    (List.replicate 300 0x42 ++ Spec.rtuFrame 0x11 [0x01, 0x00, 0x01, 0x00, 0x02] ++ []) []
    = ([], [⟨0x11, [0x01, 0x00, 0x01, 0x00, 0x02]⟩], false) := by
  rw [rtu_req_resilient_wf_partial 0x11 [0x01, 0x00, 0x01, 0x00, 0x02] (by unfold Spec.PduComplete; decide)
    (by decide) (by decide) (List.replicate 300 0x42) [] []
    (by rw [List.length_replicate]; decide +kernel)]
  decide +kernel

/-- two frames, 258 and 2 noise bytes, one trailing byte: both delivered, the trailing byte is kept
(a single byte is never examined: 'incomplete') -/
example : resilient Rtu.decodeRsp
    (List.replicate 258 0x42 ++ [0x11, 0x01, 0x01, 0x05, 0x95, 0x4B] ++ [0x42, 0x42] ++
      [0x42, 0x83, 0x02, 0x31, 0x25] ++ [0x42]) []
    = ([0x42], [⟨0x11, [0x01, 0x01, 0x05]⟩, ⟨0x42, [0x83, 0x02]⟩], false) := by
  decide +kernel

/-- TCP: 258 noise bytes in front of a request -/
example : resilient Tcp.decodeReq
    (List.replicate 258 0x42 ++ [0x2A, 0x2B, 0x00, 0x00, 0x00, 0x06, 0x2C, 0x01, 0x00, 0x01, 0x00, 0x02]) []
    = ([], [⟨0x2A2B, 0x2C, [0x01, 0x00, 0x01, 0x00, 0x02]⟩], false) := by
  decide +kernel

/-- the subtlety: 100 noise bytes and only the first 5 bytes of the frame — the scanner cannot give up
(buffer ≤ 256 bytes), it says 'incomplete'; the receiver waits and discards nothing … -/
example : resilient Rtu.decodeReq (List.replicate 100 0x42 ++ [0x11, 0x01, 0x00, 0x01, 0x00]) []
    = (List.replicate 100 0x42 ++ [0x11, 0x01, 0x00, 0x01, 0x00], [], false) := by
  decide +kernel

/-- … and delivers the frame once its remaining bytes have arrived -/
example : resilient Rtu.decodeReq
    (List.replicate 100 0x42 ++ [0x11, 0x01, 0x00, 0x01, 0x00] ++ [0x02, 0xEE, 0x9B]) []
    = ([], [⟨0x11, [0x01, 0x00, 0x01, 0x00, 0x02]⟩], false) := by
  decide +kernel

/-- the hypotheses of `resilient_waits_partial` on that buffer -/
example : ∀ i, i < (List.replicate 100 (0x42 : UInt8)).length →
    (Rtu.attemptReq ((List.replicate 100 (0x42 : UInt8) ++ [0x11, 0x01, 0x00, 0x01, 0x00]).drop i)).isErr = true := by
  rw [List.length_replicate]; decide +kernel
example : Rtu.attemptReq [0x11, 0x01, 0x00, 0x01, 0x00] = .ok none := by decide +kernel

/-- the hypotheses of `resilient_waits_short`: 100 bytes of noise only -/
example : (List.replicate 100 (0x42 : UInt8)).length = 100 ∧
    ∀ d, d < 99 → (Rtu.attemptReq ((List.replicate 100 (0x42 : UInt8)).drop d)).isErr = true := by
  decide +kernel
example : resilient Rtu.decodeReq (List.replicate 100 0x42) [] = (List.replicate 100 0x42, [], false) := by
  decide +kernel

/-- `resilient_stream` on two segments -/
example : Clean Rtu.attemptRsp
    [(List.replicate 300 0x42, Spec.rtuFrame 0x11 [0x01, 0x01, 0x05], ⟨0x11, [0x01, 0x01, 0x05]⟩),
     ([0x42, 0x42], Spec.rtuFrame 0x42 [0x83, 0x02], ⟨0x42, [0x83, 0x02]⟩)] [0x42] := by
  refine ⟨C10.rtu_rsp_good _ _ (by unfold Spec.PduComplete; decide), ?_,
    C10.rtu_rsp_good _ _ (by unfold Spec.PduComplete; decide), ?_, trivial⟩
  · rw [List.length_replicate]; decide +kernel
  · decide +kernel

/-- D4: `hF` / `h10` of `rtu_req_resilient_wf_partial` cannot be dropped — a well-formed
WriteMultipleRegisters request, alone in the buffer, is not delivered (the scanner says 'incomplete') -/
example : resilient Rtu.decodeReq (Spec.rtuFrame 0x11 [0x10, 0x00, 0x01, 0x00, 0x02, 0x04, 0x00, 0x0A, 0x01, 0x02]) []
    = ([0x11, 0x10, 0x00, 0x01, 0x00, 0x02, 0x04, 0x00, 0x0A, 0x01, 0x02, 0xC6, 0xF0], [], false) := by
  decide +kernel

end Modbus.C14Recv

import Modbus.Lemmas.Crc
import Modbus.Lemmas.CrcRocksoft
/-
C06 — the RTU checksum is CRC-16/MODBUS for every message.

`Spec.crc16Modbus` (Spec/Crc.lean) is the independent definition: a 16-bit register initialised to
0xFFFF, every message bit fed in transmission order (least-significant bit of each byte first) to the
right-shifting LFSR with feedback 0xA001, no final xor.  The model's `crc16` is the Rust loop
(xor byte, eight shift/xor rounds) followed by `rotate_right(8)`.  All theorems are for every byte
string, with no bound on its length.
-/
namespace Modbus.C06
open Modbus.Crc

/-- from any start value, the model's register after the outer loop is the specification's register
    after feeding the message bits -/
theorem crc_eq_spec_from (s : UInt16) (msg : Bytes) :
    (crcRaw s msg).toBitVec = Spec.feed s.toBitVec (Spec.messageBits msg) :=
  crcRaw_eq_feed s msg

/-- the register the Rust loop ends with is CRC-16/MODBUS of the message -/
theorem crc_eq_spec (msg : Bytes) : (crcRaw 0xFFFF msg).toBitVec = Spec.crc16Modbus msg :=
  crcRaw_eq_feed 0xFFFF msg

/-- the value `crc16` returns is CRC-16/MODBUS with its two bytes swapped -/
theorem crc16_eq_spec_swapped (msg : Bytes) : (rotr8 (crc16 msg)).toBitVec = Spec.crc16Modbus msg := by
  unfold crc16
  rw [rotr8_rotr8]
  exact crc_eq_spec msg

/-- … arranged so that big-endian serialisation (`BigEndian::write_u16`) puts the low-order CRC byte
    first on the wire -/
theorem crc_wire_low_first (msg : Bytes) : be16 (crc16 msg) = Spec.crcWire msg := by
  unfold crc16 Spec.crcWire
  rw [be16_rotr8, ← crc_eq_spec]
  rfl

/-- appending the serialised checksum to any message yields a string whose checksum is zero -/
theorem crc_residue (msg : Bytes) : crc16 (msg ++ be16 (crc16 msg)) = 0 := by
  have h : crcRaw 0xFFFF (msg ++ be16 (crc16 msg)) = 0 := by
    unfold crc16
    rw [be16_rotr8, crcRaw_append, crcRaw_two_eq_zero, word_lo_hi]
  show rotr8 (crcRaw 0xFFFF (msg ++ be16 (crc16 msg))) = 0
  rw [h]
  decide

/-- the same in the specification's terms: the bit-serial register run over message ++ wire CRC is 0 -/
theorem crc_residue_spec (msg : Bytes) : Spec.crc16Modbus (msg ++ Spec.crcWire msg) = 0#16 := by
  rw [← crc_wire_low_first, ← crc_eq_spec]
  have h := crc_residue msg
  unfold crc16 at h ⊢
  have : crcRaw 0xFFFF (msg ++ be16 (rotr8 (crcRaw 0xFFFF msg))) = 0 := by
    apply rotr8_inj; rw [h]; decide
  rw [this]; rfl

/-- the catalogued check value of CRC-16/MODBUS: the CRC of the ASCII string "123456789" is 0x4B37 -/
theorem crc_check_value :
    Spec.crc16Modbus [0x31, 0x32, 0x33, 0x34, 0x35, 0x36, 0x37, 0x38, 0x39] = 0x4B37#16 := by
  decide +kernel

/-- the model on the same string: the function returns the byte-swapped value 0x374B, so the wire
    carries 0x37 then 0x4B -/
theorem crc_check_value_model :
    crc16 [0x31, 0x32, 0x33, 0x34, 0x35, 0x36, 0x37, 0x38, 0x39] = 0x374B ∧
    be16 (crc16 [0x31, 0x32, 0x33, 0x34, 0x35, 0x36, 0x37, 0x38, 0x39]) = [0x37, 0x4B] := by
  decide +kernel

/-- the Rocksoft-parameter form — width 16, poly 0x8005, init 0xFFFF, refin, refout, xorout 0, on a
    normal left-shifting register (`Rocksoft.crc`, Lemmas/CrcRocksoft.lean, a generic definition that
    also reproduces the check values of CRC-16/IBM-3740, /ARC and /X-25) — equals the bit-serial
    specification for every message; with `crc_eq_spec`, the Rust loop computes exactly the catalogue's
    CRC-16/MODBUS -/
theorem crc_rocksoft (msg : Bytes) : Rocksoft.crc Rocksoft.modbus msg = Spec.crc16Modbus msg :=
  Rocksoft.modbus_eq_spec msg

theorem crc_eq_rocksoft (msg : Bytes) : (crcRaw 0xFFFF msg).toBitVec = Rocksoft.crc Rocksoft.modbus msg := by
  rw [crc_rocksoft, crc_eq_spec]

/-- the two vectors pinned in the crate's tests (rtu/mod.rs `test_calc_crc16`) -/
example : crc16 [0x01, 0x03, 0x08, 0x2B, 0x00, 0x02] = 0xB663 := by decide +kernel
example : crc16 [0x01, 0x03, 0x04, 0x00, 0x20, 0x00, 0x00] = 0xFBF9 := by decide +kernel

end Modbus.C06

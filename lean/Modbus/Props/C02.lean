import Modbus.Lemmas.RspCodec
import Modbus.Lemmas.Wf
/-
C02 — response and exception PDU round-trip.

For every response built through the public constructors (`BuiltRsp r m`: payloads from
`Coils::from_bools` / `Data::from_words` over ANY target slice; every address / quantity / value;
custom responses with any `FunctionCode` and any data), every payload length whose byte count fits
the count field (`m.fits`: 1..=2040 coils, 1..=127 words), and every output buffer (any length,
any contents): encoding succeeds with exactly the length `pdu_len` reports, and decoding the bytes
written returns a response of the same kind whose meaning — read through the container's own
iterator — is `m.padded`: identical address / quantity / value fields, identical register words;
for coil reads identical leading coils, count rounded up to a whole byte, padding coils off.

`InScopeRsp m` excludes only custom responses that carry one of the ten codes the response decoder
models (`modelledRspCodes`: the nine request-side codes and 0x07, Read Exception Status; their bytes are a
dedicated kind).  Write Single Coil is INCLUDED: the crate's own three-byte form
(open finding D12, see C03Rsp) round-trips at PDU level.

Exception responses: all 128 function codes below 0x80 × all 9 exceptions, by case analysis.
-/
namespace Modbus.C02

/-! ### responses -/

/-- `pdu_len` is defined (no `unimplemented!()`) and positive for every built response, whatever
    the payload size -/
theorem rsp_pdu_len_defined {r : Response} {m : Spec.RspMeaning} (hb : BuiltRsp r m) :
    ∃ n, r.pduLen = .ok n ∧ 1 ≤ n :=
  ⟨_, hb.pduLen_eq, hb.image_pos⟩

/-- the whole outcome, for every buffer: with `n` the reported PDU length, a buffer shorter than `n`
    is refused with `BufferSize`; otherwise exactly `n` bytes are written, the rest of the buffer is
    untouched, and the `n` bytes decode to a response meaning `m.padded` -/
theorem rsp_roundtrip_total {r : Response} {m : Spec.RspMeaning} (hb : BuiltRsp r m) (hf : m.fits)
    (hs : InScopeRsp m) (buf : Bytes) :
    ∃ n, r.pduLen = .ok n ∧
      (buf.length < n → r.encode buf = .err .bufferSize) ∧
      (n ≤ buf.length → ∃ out r', r.encode buf = .ok (n, out) ∧ out.length = buf.length ∧
        out.drop n = buf.drop n ∧ Response.decode (out.take n) = .ok r' ∧ r'.sem = some m.padded) := by
  refine ⟨_, hb.pduLen_eq, ?_, ?_⟩
  · intro h; rw [hb.encode_fits hf, if_pos h]
  · intro h
    obtain ⟨r', hd, hsem⟩ := hb.decode_image hf hs
    refine ⟨r.image ++ buf.drop r.image.length, r', ?_, ?_, ?_, ?_, hsem⟩
    · rw [hb.encode_fits hf, if_neg (by omega)]
    · rw [List.length_append, List.length_drop]; omega
    · rw [List.drop_left']; rfl
    · rw [List.take_left' rfl]; exact hd

/-- C02 for responses: whenever the buffer holds the reported PDU length, encoding succeeds with
    exactly that length and decoding the bytes written gives back the same kind and meaning
    (coil reads: rounded up to a whole byte, padding off).  `rsp_pdu_len_defined` shows that the
    hypothesis on `n` is about a length that always exists. -/
theorem rsp_roundtrip {r : Response} {m : Spec.RspMeaning} (hb : BuiltRsp r m) (hf : m.fits)
    (hs : InScopeRsp m) (buf : Bytes) (hl : ∀ n, r.pduLen = .ok n → n ≤ buf.length) :
    ∃ n out r', r.encode buf = .ok (n, out) ∧ r.pduLen = .ok n ∧
      Response.decode (out.take n) = .ok r' ∧ r'.sem = some m.padded := by
  obtain ⟨n, hn, _, h⟩ := rsp_roundtrip_total hb hf hs buf
  obtain ⟨out, r', he, _, _, hd, hsem⟩ := h (hl n hn)
  exact ⟨n, out, r', he, hn, hd, hsem⟩

/-- the same with both sides read through the model's own accessors: the decoded response means what
    the encoded one meant, padded -/
theorem rsp_roundtrip_sem {r : Response} {m : Spec.RspMeaning} (hb : BuiltRsp r m) (hf : m.fits)
    (hs : InScopeRsp m) (buf : Bytes) (hl : ∀ n, r.pduLen = .ok n → n ≤ buf.length) :
    ∃ n out r', r.encode buf = .ok (n, out) ∧ r.pduLen = .ok n ∧
      Response.decode (out.take n) = .ok r' ∧ r'.sem = r.sem.map Spec.RspMeaning.padded := by
  obtain ⟨n, out, r', h1, h2, h3, h4⟩ := rsp_roundtrip hb hf hs buf hl
  exact ⟨n, out, r', h1, h2, h3, by rw [h4, hb.sem_eq]; rfl⟩

/-- for every kind without a coil payload `padded` is the identity: the meaning comes back exactly -/
theorem padded_eq_self (m : Spec.RspMeaning) (h : ∀ bs, m ≠ .readCoils bs ∧ m ≠ .readDiscreteInputs bs) :
    m.padded = m := by
  cases m with
  | readCoils bs => exact absurd rfl (h bs).1
  | readDiscreteInputs bs => exact absurd rfl (h bs).2
  | _ => rfl

/-- … and also for coil payloads that are a whole number of bytes -/
theorem padded_eq_self_of_multiple (bs : List Bool) (h : bs.length % 8 = 0) :
    (Spec.RspMeaning.readCoils bs).padded = .readCoils bs ∧
    (Spec.RspMeaning.readDiscreteInputs bs).padded = .readDiscreteInputs bs := by
  simp [Spec.RspMeaning.padded, padTo8_of_multiple bs h]

/-- what `padded` means for a coil list, explicitly: `8 * ⌈n/8⌉` coils, the first `n` unchanged,
    every further one off -/
theorem padTo8_explicit (bs : List Bool) :
    (padTo8 bs).length = 8 * ((bs.length + 7) / 8) ∧
    (padTo8 bs).take bs.length = bs ∧
    (∀ i (h : i < bs.length), (padTo8 bs)[i]? = some bs[i]) ∧
    (∀ i, bs.length ≤ i → i < 8 * ((bs.length + 7) / 8) → (padTo8 bs)[i]? = some false) :=
  ⟨padTo8_length bs, padTo8_take bs,
    fun i h => by rw [padTo8_getElem?_lt bs i h, List.getElem?_eq_getElem h],
    fun i h1 h2 => padTo8_getElem?_ge bs i h1 h2⟩

/-- the coil clause in explicit form, for both coil kinds: `n` coils packed by `from_bools` over any
    target, encoded into any sufficient buffer, decode to a container of `8 * ⌈n/8⌉` coils whose
    first `n` items are the coils sent and whose remaining items are all off -/
theorem rsp_roundtrip_coils (bs : List Bool) (t : Bytes) (c : Coils) (h : Coils.fromBools bs t = .ok c)
    (h255 : (bs.length + 7) / 8 ≤ 255) (buf : Bytes) (hl : 2 + (bs.length + 7) / 8 ≤ buf.length) :
    ∃ out1 out2 c' l,
      (Response.readCoils c).pduLen = .ok (2 + (bs.length + 7) / 8) ∧
      (Response.readDiscreteInputs c).pduLen = .ok (2 + (bs.length + 7) / 8) ∧
      (Response.readCoils c).encode buf = .ok (2 + (bs.length + 7) / 8, out1) ∧
      (Response.readDiscreteInputs c).encode buf = .ok (2 + (bs.length + 7) / 8, out2) ∧
      Response.decode (out1.take (2 + (bs.length + 7) / 8)) = .ok (.readCoils c') ∧
      Response.decode (out2.take (2 + (bs.length + 7) / 8)) = .ok (.readDiscreteInputs c') ∧
      c'.len = 8 * ((bs.length + 7) / 8) ∧ c'.iter = .ok l ∧
      l.length = 8 * ((bs.length + 7) / 8) ∧ l.take bs.length = bs ∧
      (∀ i, bs.length ≤ i → i < l.length → l[i]? = some false) := by
  obtain ⟨hne, _, _⟩ := Rsp.fromBools_ok h
  have hf1 : (Spec.RspMeaning.readCoils bs).fits := ⟨Rsp.length_pos hne, h255⟩
  have hf2 : (Spec.RspMeaning.readDiscreteInputs bs).fits := ⟨Rsp.length_pos hne, h255⟩
  have hb1 : BuiltRsp (.readCoils c) (.readCoils bs) := .readCoils h
  have hb2 : BuiltRsp (.readDiscreteInputs c) (.readDiscreteInputs bs) := .readDiscreteInputs h
  have hi1 := hb1.image_eq (fun a h => by cases h)
  have hi2 := hb2.image_eq (fun a h => by cases h)
  have hn1 : (Response.readCoils c).image.length = 2 + (bs.length + 7) / 8 := by
    rw [hi1]; simp [Spec.rspBytes, packedCoilsLen]; omega
  have hn2 : (Response.readDiscreteInputs c).image.length = 2 + (bs.length + 7) / 8 := by
    rw [hi2]; simp [Spec.rspBytes, packedCoilsLen]; omega
  refine ⟨(Response.readCoils c).image ++ buf.drop (2 + (bs.length + 7) / 8),
    (Response.readDiscreteInputs c).image ++ buf.drop (2 + (bs.length + 7) / 8),
    ⟨Spec.packBits bs, (bs.length + 7) / 8 * 8⟩, padTo8 bs, ?_, ?_, ?_, ?_, ?_, ?_, ?_,
    Coils.iter_packBits_padded bs, padTo8_length bs, padTo8_take bs, ?_⟩
  · rw [hb1.pduLen_eq, hn1]
  · rw [hb2.pduLen_eq, hn2]
  · rw [hb1.encode_fits hf1, hn1, if_neg (by omega)]
  · rw [hb2.encode_fits hf2, hn2, if_neg (by omega)]
  · rw [List.take_left' hn1, hi1]; exact Response.decode_spec_readCoils bs h255
  · rw [List.take_left' hn2, hi2]; exact Response.decode_spec_readDiscreteInputs bs h255
  · simp [Coils.len, Nat.mul_comm]
  · intro i h1 h2; rw [padTo8_length] at h2; exact padTo8_getElem?_ge bs i h1 h2

/-- the coil clause for EVERY backed coil container, however it was obtained (`from_bools`, a decoded
    response, a decoded write-multiple-coils request with set padding bits, …) and whatever its raw bytes
    hold: placed in a Read Coils / Read Discrete Inputs response and encoded into any sufficient buffer, the
    bytes written are the specification's PDU of its `n` coils (padding bits zero on the wire), and they decode
    to a container of `8 * ⌈n/8⌉` coils whose first `n` items are the container's coils and whose remaining
    items are ALL off. -/
theorem rsp_roundtrip_coils_any (c : Coils) (hb : c.Backed) (h255 : packedCoilsLen c.quantity ≤ 255)
    (buf : Bytes) (hl : 2 + packedCoilsLen c.quantity ≤ buf.length) :
    ∃ out1 out2 c' l,
      (Response.readCoils c).encode buf = .ok (2 + packedCoilsLen c.quantity, out1) ∧
      (Response.readDiscreteInputs c).encode buf = .ok (2 + packedCoilsLen c.quantity, out2) ∧
      out1.take (2 + packedCoilsLen c.quantity) = Spec.rspBytes (.readCoils c.bits) ∧
      out2.take (2 + packedCoilsLen c.quantity) = Spec.rspBytes (.readDiscreteInputs c.bits) ∧
      Response.decode (out1.take (2 + packedCoilsLen c.quantity)) = .ok (.readCoils c') ∧
      Response.decode (out2.take (2 + packedCoilsLen c.quantity)) = .ok (.readDiscreteInputs c') ∧
      c.iter = .ok c.bits ∧ c.bits.length = c.quantity ∧
      c'.len = 8 * packedCoilsLen c.quantity ∧ c'.iter = .ok l ∧ l.length = 8 * packedCoilsLen c.quantity ∧
      l.take c.quantity = c.bits ∧
      (∀ i, c.quantity ≤ i → i < l.length → l[i]? = some false) := by
  have hw1 : (Response.readCoils c).Wf := hb
  have hw2 : (Response.readDiscreteInputs c).Wf := hb
  have hi1 := hw1.image_eq_spec (m := .readCoils c.bits) rfl (fun a h => by cases h)
  have hi2 := hw2.image_eq_spec (m := .readDiscreteInputs c.bits) rfl (fun a h => by cases h)
  have hn1 : (Response.readCoils c).image.length = 2 + packedCoilsLen c.quantity := by
    have := hw1.pduLen_eq trivial
    simp only [Response.pduLen, Coils.packedLen, Res.ok.injEq] at this; exact this.symm
  have hn2 : (Response.readDiscreteInputs c).image.length = 2 + packedCoilsLen c.quantity := by
    have := hw2.pduLen_eq trivial
    simp only [Response.pduLen, Coils.packedLen, Res.ok.injEq] at this; exact this.symm
  have hlen : (padTo8 c.bits).length = 8 * packedCoilsLen c.quantity := by
    rw [padTo8_length, Coils.bits_length]; rfl
  refine ⟨(Response.readCoils c).image ++ buf.drop (2 + packedCoilsLen c.quantity),
    (Response.readDiscreteInputs c).image ++ buf.drop (2 + packedCoilsLen c.quantity),
    c.rounded, padTo8 c.bits, ?_, ?_, ?_, ?_, ?_, ?_, hb.iter_eq, c.bits_length, ?_, ?_, hlen, ?_, ?_⟩
  · rw [hw1.encode_eq trivial buf, if_pos (show (Response.readCoils c).CountFits from h255), hn1, if_neg (by omega)]
  · rw [hw2.encode_eq trivial buf, if_pos (show (Response.readDiscreteInputs c).CountFits from h255), hn2,
      if_neg (by omega)]
  · rw [List.take_left' hn1, hi1]
  · rw [List.take_left' hn2, hi2]
  · rw [List.take_left' hn1]; exact (Response.redecode_coils c h255 hb).1
  · rw [List.take_left' hn2]; exact (Response.redecode_coils c h255 hb).2
  · simp [Coils.len, Coils.rounded, Nat.mul_comm]
  · rw [← hb.rounded_bits]; exact hb.rounded_backed.iter_eq
  · have := padTo8_take c.bits; rwa [Coils.bits_length] at this
  · intro i h1 h2
    rw [hlen] at h2
    exact padTo8_getElem?_ge c.bits i (by rw [Coils.bits_length]; exact h1)
      (by rw [Coils.bits_length]; exact h2)

/-- the register clause in explicit form, for the three register kinds: the decoded container holds
    exactly the words sent (count, iteration, and the value itself) -/
theorem rsp_roundtrip_registers (ws : List UInt16) (t : Bytes) (d : Data) (h : Data.fromWords ws t = .ok d)
    (h255 : 2 * ws.length ≤ 255) (buf : Bytes) (hl : 2 + 2 * ws.length ≤ buf.length) :
    ∃ out1 out2 out3 d',
      (Response.readHoldingRegisters d).encode buf = .ok (2 + 2 * ws.length, out1) ∧
      (Response.readInputRegisters d).encode buf = .ok (2 + 2 * ws.length, out2) ∧
      (Response.readWriteMultipleRegisters d).encode buf = .ok (2 + 2 * ws.length, out3) ∧
      Response.decode (out1.take (2 + 2 * ws.length)) = .ok (.readHoldingRegisters d') ∧
      Response.decode (out2.take (2 + 2 * ws.length)) = .ok (.readInputRegisters d') ∧
      Response.decode (out3.take (2 + 2 * ws.length)) = .ok (.readWriteMultipleRegisters d') ∧
      d' = d ∧ d'.len = ws.length ∧ d'.iter = .ok ws := by
  obtain ⟨hne, rfl⟩ := Rsp.fromWords_ok h
  have hpos := Rsp.length_pos hne
  have hb1 : BuiltRsp (.readHoldingRegisters ⟨Spec.wordsBE ws, ws.length⟩) (.readHoldingRegisters ws) :=
    .readHoldingRegisters h
  have hb2 : BuiltRsp (.readInputRegisters ⟨Spec.wordsBE ws, ws.length⟩) (.readInputRegisters ws) :=
    .readInputRegisters h
  have hb3 : BuiltRsp (.readWriteMultipleRegisters ⟨Spec.wordsBE ws, ws.length⟩) (.readWriteMultipleRegisters ws) :=
    .readWriteMultipleRegisters h
  have hi1 := hb1.image_eq (fun a h => by cases h)
  have hi2 := hb2.image_eq (fun a h => by cases h)
  have hi3 := hb3.image_eq (fun a h => by cases h)
  have hn1 : (Response.readHoldingRegisters ⟨Spec.wordsBE ws, ws.length⟩).image.length = 2 + 2 * ws.length := by
    rw [hi1]; simp [Spec.rspBytes]; omega
  have hn2 : (Response.readInputRegisters ⟨Spec.wordsBE ws, ws.length⟩).image.length = 2 + 2 * ws.length := by
    rw [hi2]; simp [Spec.rspBytes]; omega
  have hn3 : (Response.readWriteMultipleRegisters ⟨Spec.wordsBE ws, ws.length⟩).image.length = 2 + 2 * ws.length := by
    rw [hi3]; simp [Spec.rspBytes]; omega
  refine ⟨(Response.readHoldingRegisters ⟨Spec.wordsBE ws, ws.length⟩).image ++ buf.drop (2 + 2 * ws.length),
    (Response.readInputRegisters ⟨Spec.wordsBE ws, ws.length⟩).image ++ buf.drop (2 + 2 * ws.length),
    (Response.readWriteMultipleRegisters ⟨Spec.wordsBE ws, ws.length⟩).image ++ buf.drop (2 + 2 * ws.length),
    ⟨Spec.wordsBE ws, ws.length⟩, ?_, ?_, ?_, ?_, ?_, ?_, rfl, rfl, C17.iter_from_words ws⟩
  · rw [hb1.encode_fits ⟨hpos, h255⟩, hn1, if_neg (by omega)]
  · rw [hb2.encode_fits ⟨hpos, h255⟩, hn2, if_neg (by omega)]
  · rw [hb3.encode_fits ⟨hpos, h255⟩, hn3, if_neg (by omega)]
  · rw [List.take_left' hn1, hi1]; exact Response.decode_spec_readHoldingRegisters ws h255
  · rw [List.take_left' hn2, hi2]; exact Response.decode_spec_readInputRegisters ws h255
  · rw [List.take_left' hn3, hi3]; exact Response.decode_spec_readWriteMultipleRegisters ws h255

/-- the fixed-size kinds in explicit form: the very same value comes back (every field value) -/
theorem rsp_roundtrip_fixed (a v : UInt16) (buf : Bytes) (hl : 5 ≤ buf.length) :
    (∃ out, (Response.writeSingleCoil a).encode buf = .ok (3, out) ∧
      Response.decode (out.take 3) = .ok (.writeSingleCoil a)) ∧
    (∃ out, (Response.writeSingleRegister a v).encode buf = .ok (5, out) ∧
      Response.decode (out.take 5) = .ok (.writeSingleRegister a v)) ∧
    (∃ out, (Response.writeMultipleCoils a v).encode buf = .ok (5, out) ∧
      Response.decode (out.take 5) = .ok (.writeMultipleCoils a v)) ∧
    (∃ out, (Response.writeMultipleRegisters a v).encode buf = .ok (5, out) ∧
      Response.decode (out.take 5) = .ok (.writeMultipleRegisters a v)) := by
  have key : ∀ (r : Response) (n : Nat), r.Encodable → r.image.length = n → n ≤ buf.length →
      Response.decode r.image = .ok r →
      ∃ out, r.encode buf = .ok (n, out) ∧ Response.decode (out.take n) = .ok r := by
    intro r n he hn hle hd
    refine ⟨r.image ++ buf.drop n, ?_, ?_⟩
    · rw [Response.encode_eq r buf he, hn, if_neg (by omega)]
    · rw [List.take_left' hn]; exact hd
  refine ⟨key _ 3 trivial rfl (by omega) (Response.decode_image_writeSingleCoil a),
    key _ 5 trivial rfl hl ?_, key _ 5 trivial rfl hl ?_, key _ 5 trivial rfl hl ?_⟩
  · exact Response.decode_spec_writeSingleRegister a v
  · exact Response.decode_spec_writeMultipleCoils a v
  · exact Response.decode_spec_writeMultipleRegisters a v

/-- custom responses in explicit form: any code byte that is not one of the ten modelled kinds
    (including bytes ≥ 0x80), built from `FunctionCode::new` or `FunctionCode::Custom`, any data:
    the same function-code byte and the same data come back -/
theorem rsp_roundtrip_custom (c : UInt8) (hc : c ∉ modelledRspCodes) (data buf : Bytes)
    (hl : 1 + data.length ≤ buf.length) :
    ∀ fc, fc = FunctionCode.new c ∨ fc = FunctionCode.custom c →
      ∃ out, (Response.custom fc data).encode buf = .ok (1 + data.length, out) ∧
        Response.decode (out.take (1 + data.length)) = .ok (.custom (FunctionCode.new c) data) ∧
        (FunctionCode.new c).value = c := by
  intro fc hfc
  have hv : fc.value = c := by
    rcases hfc with rfl | rfl
    · exact C18.value_new c
    · rfl
  have hn : (Response.custom fc data).image.length = 1 + data.length := by
    simp [Response.image]; omega
  refine ⟨(Response.custom fc data).image ++ buf.drop (1 + data.length), ?_, ?_, C18.value_new c⟩
  · have he : (Response.custom fc data).Encodable := trivial
    rw [Response.encode_eq _ buf he, hn, if_neg (by omega)]
  · rw [List.take_left' hn]
    simp only [Response.image, hv, List.cons_append, List.nil_append]
    exact Response.decode_custom c hc data

/-- Read Exception Status — the one RTU-only response kind encoder and decoder implement (`pdu_len` 2, the
    other RTU-only kinds are `unimplemented!()`): for every status byte `s` and every buffer, `pdu_len` is 2,
    a buffer shorter than 2 is refused with `BufferSize`, otherwise exactly the two bytes `07 s` are written
    (rest untouched), and they decode to `ReadExceptionStatus(s)` — the SAME value. -/
theorem rsp_read_exception_status_roundtrip (s : UInt8) (buf : Bytes) :
    (Response.readExceptionStatus s).pduLen = .ok 2 ∧
    (buf.length < 2 → (Response.readExceptionStatus s).encode buf = .err .bufferSize) ∧
    (2 ≤ buf.length → ∃ out,
      (Response.readExceptionStatus s).encode buf = .ok (2, out) ∧ out = [0x07, s] ++ buf.drop 2 ∧
      out.take 2 = [0x07, s] ∧ (out.take 2).length = 2 ∧
      Response.decode (out.take 2) = .ok (.readExceptionStatus s)) ∧
    (Response.readExceptionStatus s).sem = some (.readExceptionStatus s) ∧
    BuiltRsp (.readExceptionStatus s) (.readExceptionStatus s) := by
  have he : (Response.readExceptionStatus s).Encodable := trivial
  have hi : (Response.readExceptionStatus s).image = [0x07, s] := rfl
  refine ⟨rfl, ?_, ?_, rfl, .readExceptionStatus s⟩
  · intro h
    rw [Response.encode_eq _ buf he, hi, if_pos (by simpa using h)]
  · intro h
    refine ⟨[0x07, s] ++ buf.drop 2, ?_, rfl, ?_, ?_, ?_⟩
    · rw [Response.encode_eq _ buf he, hi, if_neg (by simp; omega)]; rfl
    · simp
    · simp
    · have : ([0x07, s] ++ buf.drop 2).take 2 = [0x07, s] := by simp
      rw [this]; exact Response.decode_readExceptionStatus s []

/-- the code byte alone is refused: the status byte is required -/
theorem rsp_read_exception_status_short : Response.decode [0x07] = .err .bufferSize :=
  Response.decode_readExceptionStatus_short

/-- anything after the status byte is ignored by the decoder (the framing layers cut the PDU to two bytes) -/
theorem rsp_read_exception_status_trailing (s : UInt8) (rest : Bytes) :
    Response.decode (0x07 :: s :: rest) = .ok (.readExceptionStatus s) :=
  Response.decode_readExceptionStatus s rest

/-- 0x07 is a MODELLED response code: a `Response::Custom` carrying it is outside `InScopeRsp`, because its
    bytes are, correctly, read back as the dedicated kind -/
example : (0x07 : UInt8) ∈ modelledRspCodes ∧ ¬ InScopeRsp (.custom 0x07 [0x5A]) ∧
    (Response.custom (.custom 0x07) [0x5A]).encode [0, 0] = .ok (2, [0x07, 0x5A]) ∧
    Response.decode [0x07, 0x5A] = .ok (.readExceptionStatus 0x5A) := by
  refine ⟨by decide, fun h => h (by decide), by decide +kernel, by decide +kernel⟩

/-! ### the IDENTICAL value comes back -/

/-- the responses whose decoded form can be the identical Rust value: registers, the fixed kinds (the crate's
    own three-byte Write Single Coil included), Read Exception Status; coil reads exactly when the count is a
    whole number of bytes (the PDU carries a byte count: `rsp_roundtrip_exact_coils_iff`); a custom response
    when it carries `FunctionCode::new(code)` — the form `Response::try_from` wraps the code in — with a code
    the response decoder does not model -/
def RspExactScope : Response → Prop
  | .readCoils c | .readDiscreteInputs c => c.quantity % 8 = 0
  | .custom fc _ => fc = FunctionCode.new fc.value ∧ fc.value ∉ modelledRspCodes
  | _ => True

instance (r : Response) : Decidable (RspExactScope r) := by
  cases r <;> unfold RspExactScope <;> infer_instance

/-- what decoding the image of a built coil response gives: the same packed bytes, count rounded up -/
theorem rsp_decode_image_coils (bs : List Bool) (h255 : (bs.length + 7) / 8 ≤ 255) :
    Response.decode (Response.readCoils ⟨Spec.packBits bs, bs.length⟩).image =
      .ok (.readCoils ⟨Spec.packBits bs, (bs.length + 7) / 8 * 8⟩) ∧
    Response.decode (Response.readDiscreteInputs ⟨Spec.packBits bs, bs.length⟩).image =
      .ok (.readDiscreteInputs ⟨Spec.packBits bs, (bs.length + 7) / 8 * 8⟩) := by
  have h2 : (Coils.mk (Spec.packBits bs) bs.length).packedLen ≤ (Spec.packBits bs).length := by
    rw [packBits_length]; exact Nat.le_refl _
  have := Response.redecode_coils ⟨Spec.packBits bs, bs.length⟩ h255 h2
  rw [Coils.wire_packBits] at this
  exact this

/-- decoding the wire image of a built response in `RspExactScope` whose payload fits gives back the
    IDENTICAL value -/
theorem rsp_decode_image_exact {r : Response} {m : Spec.RspMeaning} (hb : BuiltRsp r m) (hf : m.fits)
    (hx : RspExactScope r) : Response.decode r.image = .ok r := by
  cases hb with
  | @readCoils bs t c h =>
    obtain ⟨_, _, rfl⟩ := Rsp.fromBools_ok h
    have hx : bs.length % 8 = 0 := hx
    rw [(rsp_decode_image_coils _ hf.2).1]
    congr 3; omega
  | @readDiscreteInputs bs t c h =>
    obtain ⟨_, _, rfl⟩ := Rsp.fromBools_ok h
    have hx : bs.length % 8 = 0 := hx
    rw [(rsp_decode_image_coils _ hf.2).2]
    congr 3; omega
  | readHoldingRegisters h =>
    obtain ⟨_, rfl⟩ := Rsp.fromWords_ok h
    rw [(BuiltRsp.readHoldingRegisters h).image_eq (fun a h => by cases h)]
    exact Response.decode_spec_readHoldingRegisters _ hf.2
  | readInputRegisters h =>
    obtain ⟨_, rfl⟩ := Rsp.fromWords_ok h
    rw [(BuiltRsp.readInputRegisters h).image_eq (fun a h => by cases h)]
    exact Response.decode_spec_readInputRegisters _ hf.2
  | readWriteMultipleRegisters h =>
    obtain ⟨_, rfl⟩ := Rsp.fromWords_ok h
    rw [(BuiltRsp.readWriteMultipleRegisters h).image_eq (fun a h => by cases h)]
    exact Response.decode_spec_readWriteMultipleRegisters _ hf.2
  | writeSingleCoil a => exact Response.decode_image_writeSingleCoil a
  | writeSingleRegister a w => exact Response.decode_spec_writeSingleRegister a w
  | writeMultipleCoils a q => exact Response.decode_spec_writeMultipleCoils a q
  | writeMultipleRegisters a q => exact Response.decode_spec_writeMultipleRegisters a q
  | readExceptionStatus s => exact Response.decode_readExceptionStatus s []
  | custom fc d =>
    obtain ⟨hfc, hc⟩ := hx
    show Response.decode (fc.value :: d) = _
    rw [Response.decode_custom fc.value hc d, ← hfc]

/-- **same-value round trip**: for a built response in `RspExactScope` whose payload fits, encoding into any
    large-enough buffer and decoding the bytes written returns `.ok r` — the identical value -/
theorem rsp_roundtrip_exact {r : Response} {m : Spec.RspMeaning} (hb : BuiltRsp r m) (hf : m.fits)
    (hx : RspExactScope r) (buf : Bytes) (hl : ∀ n, r.pduLen = .ok n → n ≤ buf.length) :
    ∃ n out, r.encode buf = .ok (n, out) ∧ r.pduLen = .ok n ∧ Response.decode (out.take n) = .ok r := by
  have hle := hl _ hb.pduLen_eq
  refine ⟨r.image.length, r.image ++ buf.drop r.image.length, ?_, hb.pduLen_eq, ?_⟩
  · rw [hb.encode_fits hf, if_neg (by omega)]
  · rw [List.take_left' rfl]; exact rsp_decode_image_exact hb hf hx

/-- for coil reads the identical value comes back IF AND ONLY IF the count is a whole number of bytes
    (otherwise the decoded count is the next multiple of 8: same leading coils, padding coils off) -/
theorem rsp_roundtrip_exact_coils_iff (bs : List Bool) (t : Bytes) (c : Coils) (h : Coils.fromBools bs t = .ok c)
    (h255 : (bs.length + 7) / 8 ≤ 255) :
    (Response.decode (Response.readCoils c).image = .ok (.readCoils c) ↔ bs.length % 8 = 0) ∧
    (Response.decode (Response.readDiscreteInputs c).image = .ok (.readDiscreteInputs c) ↔ bs.length % 8 = 0) := by
  obtain ⟨_, _, rfl⟩ := Rsp.fromBools_ok h
  obtain ⟨h1, h2⟩ := rsp_decode_image_coils bs h255
  rw [h1, h2]
  constructor
  · constructor
    · intro he
      have : (bs.length + 7) / 8 * 8 = bs.length := by
        have := congrArg (fun r => match r with | Res.ok (Response.readCoils c) => c.quantity | _ => 0) he
        exact this
      omega
    · intro hm; congr 3; omega
  · constructor
    · intro he
      have : (bs.length + 7) / 8 * 8 = bs.length := by
        have := congrArg (fun r => match r with | Res.ok (Response.readDiscreteInputs c) => c.quantity | _ => 0) he
        exact this
      omega
    · intro hm; congr 3; omega

/-- instances: sixteen coils come back identical; five do not (count 8 comes back); a custom response built
    with `FunctionCode::Custom(0x0B)` comes back as `Custom(FunctionCode::new(0x0B) = GetCommEventCounter, …)` -/
example : RspExactScope (.readCoils ⟨[0xFF, 0x03], 16⟩) ∧ ¬ RspExactScope (.readCoils ⟨[0x0D], 5⟩) ∧
    Response.decode (Response.readCoils ⟨[0xFF, 0x03], 16⟩).image = .ok (.readCoils ⟨[0xFF, 0x03], 16⟩) ∧
    Response.decode (Response.readCoils ⟨[0x0D], 5⟩).image = .ok (.readCoils ⟨[0x0D], 8⟩) ∧
    ¬ RspExactScope (.custom (.custom 0x0B) [1]) ∧ RspExactScope (.custom (FunctionCode.new 0x0B) [1]) ∧
    Response.decode (Response.custom (.custom 0x0B) [1]).image = .ok (.custom .getCommEventCounter [1]) ∧
    RspExactScope (.readExceptionStatus 0x5A) := by
  refine ⟨by decide +kernel, by decide +kernel, by decide +kernel, by decide +kernel, by decide +kernel,
    by decide +kernel, by decide +kernel, trivial⟩

/-! ### exception responses -/

/-- `<[u8; 2]>::from(ExceptionResponse)` -/
theorem exc_to_bytes (f : UInt8) (hf : f < 0x80) (k : Exception) :
    (ExceptionResponse.mk (FunctionCode.new f) k).toBytes = .ok (f + 0x80, k.val) ∧
    (ExceptionResponse.mk (.custom f) k).toBytes = .ok (f + 0x80, k.val) := by
  constructor
  · simp only [ExceptionResponse.toBytes, C18.value_new, hf, if_true]
  · simp only [ExceptionResponse.toBytes, FunctionCode.value, hf, if_true]

/-- C02 for exception responses: every function code below 0x80 (built with `FunctionCode::new` or as
    `Custom`) and every exception encodes, into any buffer of at least two bytes, to exactly the two
    bytes `f + 0x80, code` (rest of the buffer untouched), and those two bytes decode back to the same
    function value and the same exception.  All 128 × 9 combinations: universally quantified, proved
    by case analysis on the exception and on the byte. -/
theorem exc_roundtrip (f : UInt8) (hf : f < 0x80) (k : Exception) (buf : Bytes) (hb : 2 ≤ buf.length) :
    (ExceptionResponse.mk (FunctionCode.new f) k).encode buf = .ok (2, [f + 0x80, k.val] ++ buf.drop 2) ∧
    (ExceptionResponse.mk (.custom f) k).encode buf = .ok (2, [f + 0x80, k.val] ++ buf.drop 2) ∧
    ExceptionResponse.decode [f + 0x80, k.val] = .ok ⟨FunctionCode.new f, k⟩ ∧
    (FunctionCode.new f).value = f := by
  refine ⟨?_, ?_, ExceptionResponse.decode_spec f hf k [], C18.value_new f⟩
  · rw [ExceptionResponse.encode_eq _ buf (by simpa [C18.value_new] using hf), if_neg (by omega)]
    simp only [ExceptionResponse.image, C18.value_new]
  · rw [ExceptionResponse.encode_eq _ buf (by simpa [FunctionCode.value] using hf), if_neg (by omega)]
    simp only [ExceptionResponse.image, FunctionCode.value]

/-- the loop closed on the encoder's actual output: decode the first two bytes of the buffer written -/
theorem exc_roundtrip_take (f : UInt8) (hf : f < 0x80) (k : Exception) (buf : Bytes) (hb : 2 ≤ buf.length)
    (e : ExceptionResponse) (he : e = ⟨FunctionCode.new f, k⟩ ∨ e = ⟨.custom f, k⟩) :
    ∃ out, e.encode buf = .ok (2, out) ∧ out.length = buf.length ∧
      ExceptionResponse.decode (out.take 2) = .ok ⟨FunctionCode.new f, k⟩ ∧
      ExceptionResponse.decode out = .ok ⟨FunctionCode.new f, k⟩ := by
  obtain ⟨h1, h2, h3, _⟩ := exc_roundtrip f hf k buf hb
  refine ⟨[f + 0x80, k.val] ++ buf.drop 2, ?_, ?_, ?_, ?_⟩
  · rcases he with rfl | rfl
    · exact h1
    · exact h2
  · rw [List.length_append, List.length_drop]; simp; omega
  · exact h3
  · exact ExceptionResponse.decode_spec f hf k _

/-- a buffer shorter than two bytes is refused with `BufferSize` -/
theorem exc_encode_short (e : ExceptionResponse) (buf : Bytes) (h : buf.length < 2) :
    e.encode buf = .err .bufferSize := by
  simp [ExceptionResponse.encode, h]

/-- scope boundary: a function code ≥ 0x80 is outside the property (`debug_assert!(fn_code < 0x80)`,
    then `fn_code + 0x80` overflows): the model records it as a panic -/
theorem exc_high_function_panics (e : ExceptionResponse) (h : ¬ e.function.value < 0x80) (buf : Bytes)
    (hb : 2 ≤ buf.length) : e.encode buf = .panic := by
  simp only [ExceptionResponse.encode, if_neg (show ¬ buf.length < 2 by omega), ExceptionResponse.toBytes, h,
    if_false, Res.bind'_panic]

/-! ### `ResponsePdu` -/

/-- `ResponsePdu(Err(e))` encodes as the exception response, for every buffer -/
theorem pdu_error_encode (e : ExceptionResponse) (buf : Bytes) :
    ResponsePdu.encode (.error e) buf = e.encode buf := by
  unfold ResponsePdu.encode
  by_cases he : buf.isEmpty
  · have : buf = [] := by simpa using he
    subst this
    simp [ExceptionResponse.encode]
  · simp only [he, Bool.false_eq_true, if_false]

/-- `ResponsePdu(Ok(r))` encodes as the response, for every buffer -/
theorem pdu_ok_encode {r : Response} {m : Spec.RspMeaning} (hb : BuiltRsp r m) (buf : Bytes) :
    ResponsePdu.encode (.ok r) buf = r.encode buf := by
  unfold ResponsePdu.encode
  by_cases he : buf.isEmpty
  · have : buf = [] := by simpa using he
    subst this
    have hp := hb.image_pos
    simp only [List.isEmpty_nil, if_true, Response.encode, hb.pduLen_eq, Res.bind'_ok, List.length_nil]
    rw [if_pos (by omega)]
  · simp only [he, Bool.false_eq_true, if_false]

/-- the response round-trip through `ResponsePdu::encode` -/
theorem pdu_rsp_roundtrip {r : Response} {m : Spec.RspMeaning} (hb : BuiltRsp r m) (hf : m.fits)
    (hs : InScopeRsp m) (buf : Bytes) (hl : ∀ n, r.pduLen = .ok n → n ≤ buf.length) :
    ∃ n out r', ResponsePdu.encode (.ok r) buf = .ok (n, out) ∧ r.pduLen = .ok n ∧
      Response.decode (out.take n) = .ok r' ∧ r'.sem = some m.padded := by
  rw [pdu_ok_encode hb]; exact rsp_roundtrip hb hf hs buf hl

/-- the exception round-trip through `ResponsePdu::encode` -/
theorem pdu_exc_roundtrip (f : UInt8) (hf : f < 0x80) (k : Exception) (buf : Bytes) (hb : 2 ≤ buf.length) :
    ResponsePdu.encode (.error ⟨FunctionCode.new f, k⟩) buf = .ok (2, [f + 0x80, k.val] ++ buf.drop 2) ∧
    ResponsePdu.encode (.error ⟨.custom f, k⟩) buf = .ok (2, [f + 0x80, k.val] ++ buf.drop 2) ∧
    ExceptionResponse.decode [f + 0x80, k.val] = .ok ⟨FunctionCode.new f, k⟩ := by
  obtain ⟨h1, h2, h3, _⟩ := exc_roundtrip f hf k buf hb
  exact ⟨by rw [pdu_error_encode]; exact h1, by rw [pdu_error_encode]; exact h2, h3⟩

/-! ### non-vacuity: concrete instances, by evaluation in the kernel -/

/-- five coils go out, eight come back, the three padding coils off (dirty target, dirty buffer) -/
example : ∃ c out c',
    Coils.fromBools [true, false, true, true, false] [0xFF, 0xAA] = .ok c ∧
    (Response.readCoils c).encode [0xEE, 0xEE, 0xEE, 0xEE] = .ok (3, out) ∧
    out = [0x01, 0x01, 0x0D, 0xEE] ∧
    Response.decode (out.take 3) = .ok (.readCoils c') ∧ c'.len = 8 ∧
    c'.iter = .ok [true, false, true, true, false, false, false, false] :=
  ⟨⟨[0x0D], 5⟩, [0x01, 0x01, 0x0D, 0xEE], ⟨[0x0D], 8⟩, by decide +kernel, by decide +kernel, rfl,
    by decide +kernel, by decide +kernel, by decide +kernel⟩

/-- `rsp_roundtrip_coils_any` on a container with set padding bits (three coils in the raw byte `FF`, as the
    request decoder returns for `0F 00 01 00 03 01 FF`): `01 01 07` on the wire, eight coils back, five off -/
example : (Coils.mk [0xFF] 3).Backed ∧ packedCoilsLen (Coils.mk [0xFF] 3).quantity ≤ 255 ∧
    (Response.readCoils ⟨[0xFF], 3⟩).encode [9, 9, 9, 9] = .ok (3, [0x01, 0x01, 0x07, 9]) ∧
    Response.decode [0x01, 0x01, 0x07] = .ok (.readCoils ⟨[0x07], 8⟩) ∧
    (Coils.mk [0x07] 8).iter = .ok [true, true, true, false, false, false, false, false] := by
  refine ⟨by decide +kernel, by decide +kernel, by decide +kernel, by decide +kernel, by decide +kernel⟩

example : padTo8 [true, false, true, true, false] = [true, false, true, true, false, false, false, false] := by
  decide +kernel

/-- the hypotheses of `rsp_roundtrip` hold for that instance -/
example : BuiltRsp (.readCoils ⟨[0x0D], 5⟩) (.readCoils [true, false, true, true, false]) ∧
    (Spec.RspMeaning.readCoils [true, false, true, true, false]).fits ∧
    InScopeRsp (.readCoils [true, false, true, true, false]) :=
  ⟨.readCoils (t := [0xFF, 0xAA]) (by decide +kernel), by simp [Spec.RspMeaning.fits], trivial⟩

/-- the largest register payload: 127 distinct words -/
def words127 : List UInt16 := (List.range 127).map fun i => UInt16.ofNat (i * 517 + 3)

theorem words127_length : words127.length = 127 := by decide +kernel

example : (Spec.RspMeaning.readInputRegisters words127).fits := by
  show 1 ≤ words127.length ∧ 2 * words127.length ≤ 255
  rw [words127_length]; omega

example : Data.fromWords words127 (List.replicate 300 0xEE) = .ok ⟨Spec.wordsBE words127, 127⟩ := by
  decide +kernel

example : (Response.readInputRegisters ⟨Spec.wordsBE words127, 127⟩).encode (List.replicate 257 0x55) =
    .ok (256, 0x04 :: 0xFE :: Spec.wordsBE words127 ++ [0x55]) := by decide +kernel

example : Response.decode (0x04 :: 0xFE :: Spec.wordsBE words127) =
    .ok (.readInputRegisters ⟨Spec.wordsBE words127, 127⟩) := by decide +kernel

example : (Data.mk (Spec.wordsBE words127) 127).iter = .ok words127 := by
  have := C17.iter_from_words words127
  rwa [words127_length] at this

/-- the test suite's single exception sample, with the loop closed -/
example : (ExceptionResponse.mk .readHoldingRegisters .illegalDataAddress).encode [0, 0, 7] =
      .ok (2, [0x83, 0x02, 7]) ∧
    ExceptionResponse.decode [0x83, 0x02] = .ok ⟨.readHoldingRegisters, .illegalDataAddress⟩ ∧
    ResponsePdu.encode (.error ⟨.readHoldingRegisters, .illegalDataAddress⟩) [0, 0, 7] = .ok (2, [0x83, 0x02, 7]) :=
  ⟨by decide +kernel, by decide +kernel, by decide +kernel⟩

example : (ExceptionResponse.mk (.custom 0x7F) .gatewayTargetDevice).encode [0, 0] = .ok (2, [0xFF, 0x0B]) ∧
    ExceptionResponse.decode [0xFF, 0x0B] = .ok ⟨.custom 0x7F, .gatewayTargetDevice⟩ :=
  ⟨by decide +kernel, by decide +kernel⟩

/-- custom response with a code ≥ 0x80 -/
example : (Response.custom (.custom 0x91) [7, 8]).encode [0, 0, 0] = .ok (3, [0x91, 7, 8]) ∧
    Response.decode [0x91, 7, 8] = .ok (.custom (.custom 0x91) [7, 8]) :=
  ⟨by decide +kernel, by decide +kernel⟩

/-- Read Exception Status: encoded as `07 s`, read back as the very same value -/
example : (Response.readExceptionStatus 0x5A).encode [0, 0, 9] = .ok (2, [0x07, 0x5A, 9]) ∧
    Response.decode [0x07, 0x5A] = .ok (.readExceptionStatus 0x5A) :=
  ⟨by decide +kernel, by decide +kernel⟩

/-- Write Single Coil: the crate's own three-byte form -/
example : (Response.writeSingleCoil 0x33).encode [0, 0, 0] = .ok (3, [0x05, 0x00, 0x33]) ∧
    Response.decode [0x05, 0x00, 0x33] = .ok (.writeSingleCoil 0x33) :=
  ⟨by decide +kernel, by decide +kernel⟩

end Modbus.C02

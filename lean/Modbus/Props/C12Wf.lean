import Modbus.Lemmas.Wf
import Modbus.Props.C12
/-
C12 (well-formedness) — the four ADU encoders on ANY well-formed value, also when it does NOT fit.

`Props/C12.lean` states the outcome of `rtu::client::encode_request`, `rtu::server::encode_response`,
`tcp::server::encode_request`, `tcp::server::encode_response` for `Encodable` values (byte count fits its
one-byte field).  `Props/C19Wf.lean` states what the PDU encoders do on a well-formed value whose count does
NOT fit (more than 2040 coils / 127 words: `Err(BufferSize)` for every buffer).  Nothing said that the ADU
encoders, which call the PDU encoder on the tail of the buffer after writing their header, then return an
error WITHOUT PANICKING.  This file does:

* `adu_encoders_total` — for every well-formed request / response of an implemented kind (fitting or not),
  every exception response with a function value below 0x80, every slave / transaction / unit id and EVERY
  buffer, none of the four ADU encoders panics;
* `adu_encoders_refuse_oversize` — when the count does not fit (`¬ CountFits`) each of them returns
  `Err(BufferSize)` for EVERY buffer (empty, short, or larger than any frame).

Excluded by `Implemented`: the serial-line-only kinds whose `pdu_len` is `todo!()` (open finding D19); on those
the ADU encoders DO panic (`C04.rtu_unimplemented_request_panics_witness`).  Excluded by the hypothesis on
exception responses (as in `C12.exceptionResponse`): a function value ≥ 0x80, on which
`From<ExceptionResponse> for [u8; 2]` fails its `debug_assert!(fn_code < 0x80)` / overflows `fn_code + 0x80`
(the decoders never return such a value, but the struct's fields are public; the boundary is shown by the
last example of this file).
-/
namespace Modbus.C12Wf

/-! ### the ADU encoders over a PDU encoder that refuses every buffer -/

/-- RTU: header-room check, then the PDU encoder's error is passed on -/
theorem rtu_encodeAdu_of_refusal (slave : UInt8) (encPdu : Bytes → Res (Nat × Bytes))
    (h : ∀ b, encPdu b = .err .bufferSize) (buf : Bytes) :
    Rtu.encodeAdu slave encPdu buf = .err .bufferSize := by
  unfold Rtu.encodeAdu
  by_cases h2 : buf.length < 2
  · rw [if_pos h2]
  · rw [if_neg h2, h]; rfl

/-- TCP: header-room check, the three header stores (which succeed: seven bytes are there), then the PDU
    encoder's error is passed on -/
theorem tcp_encodeAdu_of_refusal (tid : UInt16) (uid : UInt8) (encPdu : Bytes → Res (Nat × Bytes))
    (h : ∀ b, encPdu b = .err .bufferSize) (buf : Bytes) :
    Tcp.encodeAdu tid uid encPdu buf = .err .bufferSize := by
  unfold Tcp.encodeAdu
  by_cases h7 : buf.length < 7
  · rw [if_pos h7]
  · rw [if_neg h7]
    obtain ⟨hd, rest, rfl, hhd⟩ : ∃ hd rest, buf = hd ++ rest ∧ hd.length = 7 :=
      ⟨buf.take 7, buf.drop 7, (List.take_append_drop 7 buf).symm, by simp; omega⟩
    match hd, hhd with
    | [b0, b1, b2, b3, b4, b5, b6], _ =>
      have w1 : applyWrites ([b0, b1, b2, b3, b4, b5, b6] ++ rest) [(0, be16 tid), (2, be16 0), (6, [uid])] =
          .ok (be16 tid ++ be16 0 ++ [b4, b5, uid] ++ rest) := by
        simp [applyWrites, writeAt, be16]
      rw [w1]
      simp only [Res.bind'_ok, h, Res.bind'_err]

/-! ### the PDU encoders on a well-formed value whose count does not fit -/

theorem req_refusal {r : Request} (hw : r.Wf) (hi : r.Implemented) (hf : ¬ r.CountFits) (b : Bytes) :
    RequestPdu.encode r b = .err .bufferSize := by
  show r.encode b = _
  rw [hw.encode_eq hi b, if_neg hf]

theorem rsp_refusal {r : Response} (hw : r.Wf) (hi : r.Implemented) (hf : ¬ r.CountFits) (b : Bytes) :
    (ResponsePdu.ok r).encode b = .err .bufferSize := by
  unfold ResponsePdu.encode
  by_cases he : b.isEmpty
  · rw [if_pos he]
  · rw [if_neg he]
    show r.encode b = _
    rw [hw.encode_eq hi b, if_neg hf]

/-! ### the two theorems -/

/-- **refusal without panic.**  A well-formed request / response of an implemented kind whose byte count
    does not fit its one-byte field (more than 2040 coils, more than 127 registers — e.g. 2041 coils, 128
    words): each of the four ADU encoders returns `Err(BufferSize)` for EVERY slave / transaction / unit id
    and EVERY buffer. -/
theorem adu_encoders_refuse_oversize :
    (∀ (r : Request), r.Wf → r.Implemented → ¬ r.CountFits →
      ∀ (slave : UInt8) (tid : UInt16) (uid : UInt8) (buf : Bytes),
        Rtu.clientEncodeRequest slave r buf = .err .bufferSize ∧
        Tcp.encodeRequest tid uid r buf = .err .bufferSize) ∧
    (∀ (r : Response), r.Wf → r.Implemented → ¬ r.CountFits →
      ∀ (slave : UInt8) (tid : UInt16) (uid : UInt8) (buf : Bytes),
        Rtu.serverEncodeResponse slave (.ok r) buf = .err .bufferSize ∧
        Tcp.encodeResponse tid uid (.ok r) buf = .err .bufferSize) :=
  ⟨fun _ hw hi hf slave tid uid buf =>
    ⟨rtu_encodeAdu_of_refusal slave _ (req_refusal hw hi hf) buf,
     tcp_encodeAdu_of_refusal tid uid _ (req_refusal hw hi hf) buf⟩,
   fun _ hw hi hf slave tid uid buf =>
    ⟨rtu_encodeAdu_of_refusal slave _ (rsp_refusal hw hi hf) buf,
     tcp_encodeAdu_of_refusal tid uid _ (rsp_refusal hw hi hf) buf⟩⟩

theorem encSpec_ne_panic {enc : Bytes → Res (Nat × Bytes)} {image : Bytes} (h : C12.EncSpec enc image)
    (buf : Bytes) : enc buf ≠ .panic := (h.property buf).1

/-- **the four ADU encoders are total.**  For every well-formed request / response of an implemented kind —
    whether its count fits or not —, every exception response whose function value is below 0x80, every
    slave / transaction / unit id and EVERY buffer (any length from zero, any contents):
    `rtu::client::encode_request`, `tcp::server::encode_request`, `rtu::server::encode_response`,
    `tcp::server::encode_response` never panic. -/
theorem adu_encoders_total :
    (∀ (r : Request), r.Wf → r.Implemented →
      ∀ (slave : UInt8) (tid : UInt16) (uid : UInt8) (buf : Bytes),
        Rtu.clientEncodeRequest slave r buf ≠ .panic ∧ Tcp.encodeRequest tid uid r buf ≠ .panic) ∧
    (∀ (r : Response), r.Wf → r.Implemented →
      ∀ (slave : UInt8) (tid : UInt16) (uid : UInt8) (buf : Bytes),
        Rtu.serverEncodeResponse slave (.ok r) buf ≠ .panic ∧
        Tcp.encodeResponse tid uid (.ok r) buf ≠ .panic) ∧
    (∀ (e : ExceptionResponse), e.function.value < 0x80 →
      ∀ (slave : UInt8) (tid : UInt16) (uid : UInt8) (buf : Bytes),
        Rtu.serverEncodeResponse slave (.error e) buf ≠ .panic ∧
        Tcp.encodeResponse tid uid (.error e) buf ≠ .panic) := by
  refine ⟨fun r hw hi slave tid uid buf => ?_, fun r hw hi slave tid uid buf => ?_,
    fun e he slave tid uid buf => ?_⟩
  · by_cases hf : r.CountFits
    · have he := (hw.encodable_iff hi).mpr hf
      exact ⟨encSpec_ne_panic (C12.rtuRequest slave r he) buf, C12.tcpRequest_total tid uid r he buf⟩
    · obtain ⟨h1, h2⟩ := adu_encoders_refuse_oversize.1 r hw hi hf slave tid uid buf
      rw [h1, h2]; exact ⟨by simp, by simp⟩
  · by_cases hf : r.CountFits
    · have he : (ResponsePdu.ok r).Encodable :=
        ⟨(hw.encodable_iff hi).mpr hf, Response.image_pos r ((hw.encodable_iff hi).mpr hf)⟩
      exact ⟨encSpec_ne_panic (C12.rtuResponse slave _ he) buf, C12.tcpResponse_total tid uid _ he buf⟩
    · obtain ⟨h1, h2⟩ := adu_encoders_refuse_oversize.2 r hw hi hf slave tid uid buf
      rw [h1, h2]; exact ⟨by simp, by simp⟩
  · have he' : (ResponsePdu.error e).Encodable := he
    exact ⟨encSpec_ne_panic (C12.rtuResponse slave _ he') buf, C12.tcpResponse_total tid uid _ he' buf⟩

/-- the complete outcome in the fitting case, for reference: error exactly when the buffer is shorter than
    PDU + 3 / PDU + 7 (TCP: or the PDU length + 1 exceeds the 16-bit length field) -/
theorem adu_encoders_fitting (r : Request) (hw : r.Wf) (hi : r.Implemented) (hf : r.CountFits)
    (slave : UInt8) (tid : UInt16) (uid : UInt8) (buf : Bytes) :
    Rtu.clientEncodeRequest slave r buf =
      (if buf.length < r.image.length + 3 then .err .bufferSize
       else .ok (r.image.length + 3, Rtu.frameImage slave r.image ++ buf.drop (r.image.length + 3))) ∧
    Tcp.encodeRequest tid uid r buf =
      (if buf.length < r.image.length + 7 then .err .bufferSize
       else if 65535 < r.image.length + 1 then .err .bufferSize
       else .ok (r.image.length + 7, Tcp.frameImage tid uid r.image ++ buf.drop (r.image.length + 7))) := by
  have he := (hw.encodable_iff hi).mpr hf
  refine ⟨?_, C12.tcp_exact tid uid _ r.image (C12.requestPdu r he) buf⟩
  have := C12.rtuRequest slave r he buf
  rw [C12.rtu_size] at this
  exact this

/-! ### examples: 128 words, 2041 coils -/

/-- 128 registers (256 payload bytes) in any request / response variant that takes a register container:
    refused by all four ADU encoders, whatever the ids and the buffer -/
example (data : Bytes) (hd : data.length = 256) (a ra rq wa : UInt16) (slave : UInt8) (tid : UInt16) (uid : UInt8)
    (buf : Bytes) :
    Rtu.clientEncodeRequest slave (.writeMultipleRegisters a ⟨data, 128⟩) buf = .err .bufferSize ∧
    Tcp.encodeRequest tid uid (.writeMultipleRegisters a ⟨data, 128⟩) buf = .err .bufferSize ∧
    Rtu.clientEncodeRequest slave (.readWriteMultipleRegisters ra rq wa ⟨data, 128⟩) buf = .err .bufferSize ∧
    Tcp.encodeRequest tid uid (.readWriteMultipleRegisters ra rq wa ⟨data, 128⟩) buf = .err .bufferSize ∧
    Rtu.serverEncodeResponse slave (.ok (.readHoldingRegisters ⟨data, 128⟩)) buf = .err .bufferSize ∧
    Tcp.encodeResponse tid uid (.ok (.readHoldingRegisters ⟨data, 128⟩)) buf = .err .bufferSize := by
  have hx : (Data.mk data 128).Exact := by show data.length = 128 * 2; omega
  have hn : ¬ (128 * 2 ≤ 255) := by decide
  obtain ⟨h1, h2⟩ := adu_encoders_refuse_oversize.1 (.writeMultipleRegisters a ⟨data, 128⟩) hx trivial hn
    slave tid uid buf
  obtain ⟨h3, h4⟩ := adu_encoders_refuse_oversize.1 (.readWriteMultipleRegisters ra rq wa ⟨data, 128⟩) hx trivial hn
    slave tid uid buf
  obtain ⟨h5, h6⟩ := adu_encoders_refuse_oversize.2 (.readHoldingRegisters ⟨data, 128⟩) hx trivial hn
    slave tid uid buf
  exact ⟨h1, h2, h3, h4, h5, h6⟩

/-- 2041 coils (256 packed bytes; any container holding at least that many) -/
example (data : Bytes) (hd : 256 ≤ data.length) (a : UInt16) (slave : UInt8) (tid : UInt16) (uid : UInt8)
    (buf : Bytes) :
    Rtu.clientEncodeRequest slave (.writeMultipleCoils a ⟨data, 2041⟩) buf = .err .bufferSize ∧
    Tcp.encodeRequest tid uid (.writeMultipleCoils a ⟨data, 2041⟩) buf = .err .bufferSize ∧
    Rtu.serverEncodeResponse slave (.ok (.readCoils ⟨data, 2041⟩)) buf = .err .bufferSize ∧
    Tcp.encodeResponse tid uid (.ok (.readCoils ⟨data, 2041⟩)) buf = .err .bufferSize ∧
    Rtu.serverEncodeResponse slave (.ok (.readDiscreteInputs ⟨data, 2041⟩)) buf = .err .bufferSize ∧
    Tcp.encodeResponse tid uid (.ok (.readDiscreteInputs ⟨data, 2041⟩)) buf = .err .bufferSize := by
  have h256 : packedCoilsLen 2041 = 256 := by decide
  have hb : (Coils.mk data 2041).Backed := by show packedCoilsLen 2041 ≤ data.length; omega
  have hn : ¬ (packedCoilsLen 2041 ≤ 255) := by rw [h256]; decide
  obtain ⟨h1, h2⟩ := adu_encoders_refuse_oversize.1 (.writeMultipleCoils a ⟨data, 2041⟩) hb trivial hn
    slave tid uid buf
  obtain ⟨h3, h4⟩ := adu_encoders_refuse_oversize.2 (.readCoils ⟨data, 2041⟩) hb trivial hn slave tid uid buf
  obtain ⟨h5, h6⟩ := adu_encoders_refuse_oversize.2 (.readDiscreteInputs ⟨data, 2041⟩) hb trivial hn
    slave tid uid buf
  exact ⟨h1, h2, h3, h4, h5, h6⟩

/-- the boundary: 2040 coils / 127 words fit, and a buffer of the frame size is accepted -/
example : (Request.writeMultipleCoils 0 ⟨List.replicate 255 0xFF, 2040⟩).CountFits ∧
    ¬ (Request.writeMultipleCoils 0 ⟨List.replicate 256 0xFF, 2041⟩).CountFits ∧
    (Request.writeMultipleRegisters 0 ⟨List.replicate 254 0, 127⟩).CountFits ∧
    ¬ (Request.writeMultipleRegisters 0 ⟨List.replicate 256 0, 128⟩).CountFits := by decide +kernel

/-- kernel-evaluated on a small oversize-by-construction instance is impossible (256 bytes are needed), so
    the instance above is checked through the theorem; here the total-ness clause on small concrete values -/
example : Rtu.clientEncodeRequest 1 (.writeMultipleCoils 0 ⟨[0xFF], 8⟩) [] = .err .bufferSize ∧
    Tcp.encodeRequest 1 1 (.writeMultipleCoils 0 ⟨[0xFF], 8⟩) (List.replicate 7 0) = .err .bufferSize ∧
    Rtu.serverEncodeResponse 1 (.error ⟨.readCoils, .illegalFunction⟩) [0] = .err .bufferSize ∧
    Tcp.encodeResponse 1 1 (.error ⟨.readCoils, .illegalFunction⟩) (List.replicate 8 0) = .err .bufferSize := by
  decide +kernel

/-- the boundary of the exception clause: function value 0x80 (`FunctionCode::Custom(0x80)`) — an error while
    the buffer has no room for the two bytes, a panic (`debug_assert!(fn_code < 0x80)`) as soon as it has -/
example : Rtu.serverEncodeResponse 1 (.error ⟨.custom 0x80, .illegalFunction⟩) [0, 0] = .err .bufferSize ∧
    Rtu.serverEncodeResponse 1 (.error ⟨.custom 0x80, .illegalFunction⟩) (List.replicate 5 0) = .panic ∧
    Tcp.encodeResponse 1 1 (.error ⟨.custom 0x80, .illegalFunction⟩) (List.replicate 8 0) = .err .bufferSize ∧
    Tcp.encodeResponse 1 1 (.error ⟨.custom 0x80, .illegalFunction⟩) (List.replicate 9 0) = .panic ∧
    Rtu.serverEncodeResponse 1 (.error ⟨.custom 0x7F, .illegalFunction⟩) (List.replicate 5 0) =
      .ok (5, Rtu.frameImage 1 [0xFF, 0x01]) := by
  decide +kernel

end Modbus.C12Wf

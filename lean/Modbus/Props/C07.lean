import Modbus.Lemmas.Total
/-
C07 — decoders are total: no panic (and no hang) on any input bytes.

The model returns `Res.panic` at every place the Rust can panic: every index, slice, `split_at`,
`read_u16`, checked `usize` addition and `unreachable!()`.  Each theorem says that the decoding
entry point never produces `.panic`, for every byte list of every length; each proof is the
argument that the guard in front of every such site suffices.  "Never loops forever" is Lean's
termination check of `scanFrom` (well-founded on `buf.length - drop_cnt`); all other functions are
non-recursive.

The two `extractFrame` functions take a caller-supplied `pdu_len : usize`; they overflow the
checked `1 + pdu_len + 2` resp. `7 + pdu_len` for lengths within 3 resp. 7 of `usize::MAX`.  The
theorems exclude exactly that (`…_panic_iff` shows nothing else panics); the scanners only ever
pass a predicted length, which is at most 65 538, so `decode` and the ADU decoders are total
without any side condition.
-/
namespace Modbus.C07
open Modbus.Predict Modbus.Total

/-! ### PDU decoders -/

/-- `Request::try_from(&[u8])` never panics -/
theorem request_decode_total (b : Bytes) : Request.decode b ≠ .panic := Request.decode_ne_panic b

/-- `Response::try_from(&[u8])` never panics -/
theorem response_decode_total (b : Bytes) : Response.decode b ≠ .panic := Response.decode_ne_panic b

/-- `ExceptionResponse::try_from(&[u8])` never panics -/
theorem exception_decode_total (b : Bytes) : ExceptionResponse.decode b ≠ .panic :=
  ExceptionResponse.decode_ne_panic b

/-! ### frame-length predictors -/

theorem rtu_request_pdu_len_total (b : Bytes) : Rtu.requestPduLen b ≠ .panic := Rtu.requestPduLen_ne_panic b
theorem rtu_response_pdu_len_total (b : Bytes) : Rtu.responsePduLen b ≠ .panic := Rtu.responsePduLen_ne_panic b
theorem tcp_request_pdu_len_total (b : Bytes) : Tcp.requestPduLen b ≠ .panic := Tcp.requestPduLen_ne_panic b
theorem tcp_response_pdu_len_total (b : Bytes) : Tcp.responsePduLen b ≠ .panic := Tcp.responsePduLen_ne_panic b

/-- the lengths the predictors can return (used to discharge the overflow condition below) -/
theorem predicted_len_bounded (b : Bytes) (n : Nat) :
    (Rtu.requestPduLen b = .ok (some n) → n ≤ 265) ∧ (Tcp.requestPduLen b = .ok (some n) → n ≤ 265) ∧
    (Rtu.responsePduLen b = .ok (some n) → n ≤ 65538) ∧ (Tcp.responsePduLen b = .ok (some n) → n ≤ 65538) :=
  ⟨Rtu.requestPduLen_le b n, Tcp.requestPduLen_le b n, Rtu.responsePduLen_le b n, Tcp.responsePduLen_le b n⟩

/-! ### frame extraction -/

/-- `rtu::extract_frame(buf, pdu_len)` never panics, for every buffer and every `pdu_len` whose
    ADU length `1 + pdu_len + 2` fits a `usize` -/
theorem rtu_extract_frame_total (buf : Bytes) (n : Nat) (h : n + 3 < usizeLimit) :
    Rtu.extractFrame buf n ≠ .panic := Rtu.extractFrame_ne_panic buf n h

/-- … and the only panicking inputs are a non-empty buffer with an overflowing `pdu_len` -/
theorem rtu_extract_frame_panic_iff (buf : Bytes) (n : Nat) :
    Rtu.extractFrame buf n = .panic ↔ buf ≠ [] ∧ usizeLimit ≤ n + 3 := Rtu.extractFrame_eq_panic_iff buf n

/-- `tcp::extract_frame(buf, pdu_len)` never panics, for every buffer and every `pdu_len` whose
    ADU length `7 + pdu_len` fits a `usize` -/
theorem tcp_extract_frame_total (buf : Bytes) (n : Nat) (h : n + 7 < usizeLimit) :
    Tcp.extractFrame buf n ≠ .panic := Tcp.extractFrame_ne_panic buf n h

theorem tcp_extract_frame_panic_iff (buf : Bytes) (n : Nat) :
    Tcp.extractFrame buf n = .panic ↔ buf ≠ [] ∧ usizeLimit ≤ n + 7 := Tcp.extractFrame_eq_panic_iff buf n

/-- the hypotheses are satisfied by every realistic call: e.g. a 6-byte garbage buffer, `pdu_len` 5
    (the TCP extractor rejects the visible protocol identifier 0x0304 at once; with a consistent
    visible header it waits) -/
example : (5 + 3 < usizeLimit) ∧ Rtu.extractFrame [1, 2, 3, 4, 5, 6] 5 = .ok none ∧
    Tcp.extractFrame [1, 2, 3, 4, 5, 6] 5 = .err (.protocolNotModbus 0x0304) ∧
    Tcp.extractFrame [1, 2, 0, 0, 0, 6] 5 = .ok none := by decide +kernel

/-- … and the excluded region is a real overflow of the crate's checked addition -/
example : Rtu.extractFrame [1] (usizeLimit - 1) = .panic ∧ Tcp.extractFrame [1] (usizeLimit - 1) = .panic := by
  decide +kernel

/-! ### buffer scanning (`decode`) -/

/-- the generic loop panics only if an attempt at some offset does; for every start offset -/
theorem scan_from_total {F : Type} (att : Attempt F) (buf : Bytes) (d : Nat)
    (ha : ∀ raw, att raw ≠ .panic) : scanFrom att buf d ≠ .panic := scanFrom_ne_panic att buf ha d

/-- `rtu::decode(DecoderType::Request, buf)` never panics -/
theorem rtu_decode_req_total (buf : Bytes) : Rtu.decodeReq buf ≠ .panic :=
  scan_ne_panic _ buf Rtu.attemptReq_ne_panic

/-- `rtu::decode(DecoderType::Response, buf)` never panics -/
theorem rtu_decode_rsp_total (buf : Bytes) : Rtu.decodeRsp buf ≠ .panic :=
  scan_ne_panic _ buf Rtu.attemptRsp_ne_panic

/-- `tcp::decode(DecoderType::Request, buf)` never panics -/
theorem tcp_decode_req_total (buf : Bytes) : Tcp.decodeReq buf ≠ .panic :=
  scan_ne_panic _ buf Tcp.attemptReq_ne_panic

/-- `tcp::decode(DecoderType::Response, buf)` never panics -/
theorem tcp_decode_rsp_total (buf : Bytes) : Tcp.decodeRsp buf ≠ .panic :=
  scan_ne_panic _ buf Tcp.attemptRsp_ne_panic

/-- the loop from any drop count, as the receivers resume it -/
theorem rtu_scan_from_total (buf : Bytes) (d : Nat) :
    scanFrom Rtu.attemptReq buf d ≠ .panic ∧ scanFrom Rtu.attemptRsp buf d ≠ .panic :=
  ⟨scanFrom_ne_panic _ buf Rtu.attemptReq_ne_panic d, scanFrom_ne_panic _ buf Rtu.attemptRsp_ne_panic d⟩

theorem tcp_scan_from_total (buf : Bytes) (d : Nat) :
    scanFrom Tcp.attemptReq buf d ≠ .panic ∧ scanFrom Tcp.attemptRsp buf d ≠ .panic :=
  ⟨scanFrom_ne_panic _ buf Tcp.attemptReq_ne_panic d, scanFrom_ne_panic _ buf Tcp.attemptRsp_ne_panic d⟩

/-! ### ADU decoders -/

/-- `rtu::server::decode_request` never panics -/
theorem rtu_server_decode_request_total (buf : Bytes) : Rtu.serverDecodeRequest buf ≠ .panic := by
  unfold Rtu.serverDecodeRequest
  refine ite_ne_panic (fun _ => ok_ne_panic _) (fun _ => ?_)
  refine Res.bind_ne_panic (rtu_decode_req_total buf) (fun o _ => ?_)
  match o with
  | none => exact ok_ne_panic _
  | some (f, _) => exact Res.map_ne_panic (Request.decode_ne_panic f.pdu)

/-- `rtu::client::decode_response` never panics -/
theorem rtu_client_decode_response_total (buf : Bytes) : Rtu.clientDecodeResponse buf ≠ .panic := by
  unfold Rtu.clientDecodeResponse
  refine ite_ne_panic (fun _ => ok_ne_panic _) (fun _ => ?_)
  refine Res.bind_ne_panic (rtu_decode_rsp_total buf) (fun o _ => ?_)
  match o with
  | none => exact ok_ne_panic _
  | some (f, _) => exact excThenRsp_ne_panic f.pdu _ _

/-- `tcp::server::decode_request` never panics -/
theorem tcp_decode_request_total (buf : Bytes) : Tcp.decodeRequest buf ≠ .panic := by
  unfold Tcp.decodeRequest
  refine ite_ne_panic (fun _ => ok_ne_panic _) (fun _ => ?_)
  refine Res.bind_ne_panic (tcp_decode_req_total buf) (fun o _ => ?_)
  match o with
  | none => exact ok_ne_panic _
  | some (f, _) => exact Res.map_ne_panic (Request.decode_ne_panic f.pdu)

/-- `tcp::server::decode_response` never panics -/
theorem tcp_decode_response_total (buf : Bytes) : Tcp.decodeResponse buf ≠ .panic := by
  unfold Tcp.decodeResponse
  refine ite_ne_panic (fun _ => err_ne_panic _) (fun _ => ?_)
  refine Res.bind_ne_panic (tcp_decode_rsp_total buf) (fun o _ => ?_)
  match o with
  | none => exact ok_ne_panic _
  | some (f, _) => exact excThenRsp_ne_panic f.pdu _ _

/-! ### the historical crash inputs, replayed on the model -/

/-- D1: a one-byte exception PDU (was an index panic) is a `BufferSize` error -/
example : ExceptionResponse.decode [0x83] = .err .bufferSize := by decide +kernel

/-- D3: an 11-byte partial TCP write-multiple-coils request (was an index panic at offset 12) is
    "incomplete" -/
example : Tcp.requestPduLen [0, 1, 0, 0, 0, 9, 0x11, 0x0F, 0, 0, 0] = .ok none := by decide +kernel

/-- … and so is the 12-byte one -/
example : Tcp.requestPduLen [0, 1, 0, 0, 0, 9, 0x11, 0x10, 0, 0, 0, 2] = .ok none := by decide +kernel

/-- D10: 300 bytes of garbage (was `unreachable!()` once more than 255 bytes had been dropped)
    is an error, not a panic -/
example : (Rtu.clientDecodeResponse (List.replicate 300 0x42)).isErr = true := by decide +kernel

example : (Rtu.serverDecodeRequest (List.replicate 300 0x42)).isErr = true := by decide +kernel

example : (Tcp.decodeResponse (List.replicate 300 0x42)).isErr = true := by decide +kernel

/-- a CRC-valid frame carrying an illegal coil value is an error of the PDU decoder, not a panic -/
example : Request.decode [0x05, 0x00, 0x01, 0x12, 0x34] = .err (.coilValue 0x1234) := by decide +kernel

end Modbus.C07

import Modbus.Lemmas.Coherent
import Modbus.Lemmas.Words
import Modbus.Props.C17
/-
C19 (cross-kind) — a register payload obtained by DECODING a response can be reused in a request
without producing a PDU whose count fields disagree with its payload.

`Data` is one container type shared by the register responses (read holding / input registers,
read-write multiple registers) and the register-writing requests (write multiple registers, read-write
multiple registers).  The request encoder writes `quantity` into the quantity field, `quantity * 2` into
the byte-count field and then copies the WHOLE `data` slice.  It therefore relies on
`data.length = quantity * 2`.  `Data::from_words` guarantees that; the response decoder did not before the
repair: from byte count 3 it returned quantity 1 backed by 3 bytes, and a gateway forwarding that payload
in a write-multiple-registers request emitted `10 aa aa 00 01 02 AB CD EF` — count 2, three payload bytes.

After the repair the decoder keeps whole registers only (`&bytes[2..2 + quantity * 2]`), and for EVERY
byte string `b` the decoder accepts:

* `rsp_register_data_shape`: the decoded `Data` is exactly `⟨wordsBE ws, ws.length⟩` for the words `ws` it
  yields by iteration, with `2 · ws.length ≤ 254`;
* `rsp_data_reusable_in_request` / `rsp_data_reusable_in_rw_request`: for every address the request built
  from it encodes into every buffer of at least its PDU length, the bytes written are the specification's
  PDU `Spec.reqBytes (.writeMultipleRegisters a ws)` — quantity field = number of words, byte count =
  2 · words = number of payload bytes that follow — shorter buffers are refused with an error, there is no
  panic, and decoding the bytes written gives back the same request (the same words).
-/
namespace Modbus.C19X

open Spec (reqBytes wordsBE)

/-! ### every even-length byte string is the big-endian image of a word list -/

/-- the words a byte string spells, two bytes per word, big-endian (a dangling byte is ignored) -/
def wordsOf : Bytes → List UInt16
  | hi :: lo :: rest => rd16 hi lo :: wordsOf rest
  | _ => []

theorem wordsOf_spec (k : Nat) : ∀ (b : Bytes), b.length = k * 2 →
    wordsBE (wordsOf b) = b ∧ (wordsOf b).length = k := by
  induction k with
  | zero =>
    intro b h
    have : b = [] := List.eq_nil_of_length_eq_zero (by omega)
    subst this
    exact ⟨rfl, rfl⟩
  | succ k ih =>
    intro b h
    match b, h with
    | hi :: lo :: rest, h =>
      have hr : rest.length = k * 2 := by simp only [List.length_cons] at h; omega
      obtain ⟨h1, h2⟩ := ih rest hr
      refine ⟨?_, by simp only [wordsOf, List.length_cons, h2]⟩
      have e := be16_rd16 hi lo
      simp only [be16, List.cons.injEq, and_true] at e
      rw [wordsOf, wordsBE_cons, h1, e.1, e.2]
    | [], h => simp at h
    | [_], h => simp only [List.length_cons, List.length_nil] at h; omega

/-! ### the shape of a decoded register payload -/

/-- the register payload of a response, if it has one -/
def regData : Response → Option Data
  | .readInputRegisters d | .readHoldingRegisters d | .readWriteMultipleRegisters d => some d
  | _ => none

/-- **Every decoded register payload is a `from_words`-shaped value**: for every byte string the response
    decoder accepts (odd byte counts, trailing bytes, anything), the register container it returns is
    exactly `⟨wordsBE ws, ws.length⟩` — the value `Data::from_words(ws, …)` builds — where `ws` are the
    words it yields by iteration; at most 127 words. -/
theorem rsp_register_data_shape (b : Bytes) (v : Response) (d : Data)
    (h : Response.decode b = .ok v) (hv : regData v = some d) :
    ∃ ws : List UInt16, d = ⟨wordsBE ws, ws.length⟩ ∧ d.items = some ws ∧ d.iter = .ok ws ∧
      d.len = ws.length ∧ d.data.length = 2 * ws.length ∧ 2 * ws.length ≤ 254 := by
  have hd := Response.decode_inv h
  have hx := hd.dataExact
  have key : d.data.length = d.quantity * 2 ∧ d.quantity * 2 ≤ 255 := by
    cases v <;> simp only [regData, Option.some.injEq, reduceCtorEq] at hv <;> subst hv <;> exact hx
  obtain ⟨hl, hq⟩ := key
  obtain ⟨h1, h2⟩ := wordsOf_spec d.quantity d.data hl
  have hshape : d = ⟨wordsBE (wordsOf d.data), (wordsOf d.data).length⟩ := by
    rw [h1, h2]
  have hit : d.iter = .ok (wordsOf d.data) := by
    rw [hshape]
    have := C17.iter_from_words (wordsOf d.data)
    rw [h1] at this ⊢
    exact this
  refine ⟨wordsOf d.data, hshape, ?_, hit, h2.symm ▸ rfl, by omega, by omega⟩
  simp only [Data.items, hit]

/-! ### reuse in a request -/

/-- a `from_words`-shaped value of at most 127 words in a write-multiple-registers request: the exact
    outcome of the encoder for every buffer, and the decoder on the bytes written -/
theorem wmr_of_words (a : UInt16) (ws : List UInt16) (hn : ws.length * 2 ≤ 255) :
    let r := Request.writeMultipleRegisters a ⟨wordsBE ws, ws.length⟩
    r.image = reqBytes (.writeMultipleRegisters a ws) ∧
    r.image.length = 6 + 2 * ws.length ∧
    (∀ buf : Bytes, r.encode buf =
      if buf.length < r.image.length then .err .bufferSize
      else .ok (r.image.length, r.image ++ buf.drop r.image.length)) ∧
    Request.decode r.image = .ok r := by
  intro r
  have he : r.Encodable := hn
  have hq : ws.length < 65536 := by omega
  refine ⟨C17.req_write_multiple_registers_image a ws, ?_, fun buf => Request.encode_eq r buf he,
    Request.redecode_wmr a _ hq hn (wordsBE_length ws)⟩
  show ([0x10] ++ be16 a ++ be16 (UInt16.ofNat ws.length) ++ [UInt8.ofNat (ws.length * 2)] ++ wordsBE ws).length = _
  simp only [List.length_append, List.length_cons, List.length_nil, be16_length, wordsBE_length]
  omega

/-- the same for the write half of a read-write-multiple-registers request -/
theorem rwmr_of_words (ra rq wa : UInt16) (ws : List UInt16) (hn : ws.length * 2 ≤ 255) :
    let r := Request.readWriteMultipleRegisters ra rq wa ⟨wordsBE ws, ws.length⟩
    r.image = reqBytes (.readWriteMultipleRegisters ra rq wa ws) ∧
    r.image.length = 10 + 2 * ws.length ∧
    (∀ buf : Bytes, r.encode buf =
      if buf.length < r.image.length then .err .bufferSize
      else .ok (r.image.length, r.image ++ buf.drop r.image.length)) ∧
    Request.decode r.image = .ok r := by
  intro r
  have he : r.Encodable := hn
  have hq : ws.length < 65536 := by omega
  refine ⟨C17.req_read_write_multiple_registers_image ra rq wa ws, ?_, fun buf => Request.encode_eq r buf he,
    Request.redecode_rwmr ra rq wa _ hq hn (wordsBE_length ws)⟩
  show ([0x17] ++ be16 ra ++ be16 rq ++ be16 wa ++ be16 (UInt16.ofNat ws.length) ++
    [UInt8.ofNat (ws.length * 2)] ++ wordsBE ws).length = _
  simp only [List.length_append, List.length_cons, List.length_nil, be16_length, wordsBE_length]
  omega

/-- **A decoded register payload is reusable in a write-multiple-registers request.**  For every byte
    string `b` that decodes to a register response carrying `d` (read holding registers, read input
    registers or read-write multiple registers — odd byte counts included), every address `a` and every
    buffer: with `ws` the words of `d`,

    * the request's wire image is the specification's PDU `reqBytes (.writeMultipleRegisters a ws)` —
      quantity field `ws.length`, byte count `2 · ws.length`, exactly that many payload bytes —
      of `6 + 2 · ws.length ≤ 260` bytes;
    * `encode` is an error for a shorter buffer and otherwise writes exactly that image, leaving the rest
      of the buffer alone (never a panic);
    * decoding the bytes written gives back the same request, whose meaning is "write `ws` at `a`". -/
theorem rsp_data_reusable_in_request (b : Bytes) (v : Response) (d : Data)
    (h : Response.decode b = .ok v) (hv : regData v = some d) (a : UInt16) :
    ∃ ws : List UInt16, d.items = some ws ∧ 2 * ws.length ≤ 254 ∧
      (Request.writeMultipleRegisters a d).image = reqBytes (.writeMultipleRegisters a ws) ∧
      (reqBytes (.writeMultipleRegisters a ws)).length = 6 + 2 * ws.length ∧
      (∀ buf : Bytes, (Request.writeMultipleRegisters a d).encode buf =
        if buf.length < 6 + 2 * ws.length then .err .bufferSize
        else .ok (6 + 2 * ws.length,
          reqBytes (.writeMultipleRegisters a ws) ++ buf.drop (6 + 2 * ws.length))) ∧
      Request.decode (reqBytes (.writeMultipleRegisters a ws)) = .ok (.writeMultipleRegisters a d) ∧
      (Request.writeMultipleRegisters a d).sem = some (.writeMultipleRegisters a ws) := by
  obtain ⟨ws, rfl, hit, _, _, _, hle⟩ := rsp_register_data_shape b v d h hv
  obtain ⟨himg, hlen, henc, hdec⟩ := wmr_of_words a ws (by omega)
  refine ⟨ws, hit, hle, himg, by rw [← himg, hlen], fun buf => ?_, by rw [← himg]; exact hdec, ?_⟩
  · rw [henc buf, hlen, himg]
  · simp only [Request.sem, hit, Option.map_some]

/-- … and in the write half of a read-write-multiple-registers request -/
theorem rsp_data_reusable_in_rw_request (b : Bytes) (v : Response) (d : Data)
    (h : Response.decode b = .ok v) (hv : regData v = some d) (ra rq wa : UInt16) :
    ∃ ws : List UInt16, d.items = some ws ∧ 2 * ws.length ≤ 254 ∧
      (Request.readWriteMultipleRegisters ra rq wa d).image = reqBytes (.readWriteMultipleRegisters ra rq wa ws) ∧
      (reqBytes (.readWriteMultipleRegisters ra rq wa ws)).length = 10 + 2 * ws.length ∧
      (∀ buf : Bytes, (Request.readWriteMultipleRegisters ra rq wa d).encode buf =
        if buf.length < 10 + 2 * ws.length then .err .bufferSize
        else .ok (10 + 2 * ws.length,
          reqBytes (.readWriteMultipleRegisters ra rq wa ws) ++ buf.drop (10 + 2 * ws.length))) ∧
      Request.decode (reqBytes (.readWriteMultipleRegisters ra rq wa ws)) =
        .ok (.readWriteMultipleRegisters ra rq wa d) ∧
      (Request.readWriteMultipleRegisters ra rq wa d).sem = some (.readWriteMultipleRegisters ra rq wa ws) := by
  obtain ⟨ws, rfl, hit, _, _, _, hle⟩ := rsp_register_data_shape b v d h hv
  obtain ⟨himg, hlen, henc, hdec⟩ := rwmr_of_words ra rq wa ws (by omega)
  refine ⟨ws, hit, hle, himg, by rw [← himg, hlen], fun buf => ?_, by rw [← himg]; exact hdec, ?_⟩
  · rw [henc buf, hlen, himg]
  · simp only [Request.sem, hit, Option.map_some]

/-- the count fields of the request agree with its payload, spelled out on the bytes: byte 5 of the
    written PDU (the byte count) is the number of bytes that follow it, and bytes 3–4 (the quantity) are
    half of that -/
theorem rsp_data_reuse_counts_match (b : Bytes) (v : Response) (d : Data)
    (h : Response.decode b = .ok v) (hv : regData v = some d) (a : UInt16) :
    let img := (Request.writeMultipleRegisters a d).image
    ∃ qh ql bc, img[3]? = some qh ∧ img[4]? = some ql ∧ img[5]? = some bc ∧
      bc.toNat = img.length - 6 ∧ (rd16 qh ql).toNat * 2 = bc.toNat ∧ (img.drop 6) = d.data := by
  intro img
  have hx := (Response.decode_inv h).dataExact
  have key : d.data.length = d.quantity * 2 ∧ d.quantity * 2 ≤ 255 := by
    cases v <;> simp only [regData, Option.some.injEq, reduceCtorEq] at hv <;> subst hv <;> exact hx
  obtain ⟨hl, hq⟩ := key
  have himg : img = 0x10 :: UInt8.ofNat (a.toNat / 256) :: UInt8.ofNat (a.toNat % 256) ::
        UInt8.ofNat ((UInt16.ofNat d.quantity).toNat / 256) :: UInt8.ofNat ((UInt16.ofNat d.quantity).toNat % 256) ::
        UInt8.ofNat (d.quantity * 2) :: d.data := rfl
  have hbc : (UInt8.ofNat (d.quantity * 2)).toNat = d.quantity * 2 := UInt8.toNat_ofNat_of_le hq
  refine ⟨_, _, _, by rw [himg]; rfl, by rw [himg]; rfl, by rw [himg]; rfl, ?_, ?_, by rw [himg]; rfl⟩
  · rw [hbc, himg]; simp only [List.length_cons]; omega
  · rw [hbc, rd16_ofNat_split (by omega)]

/-! ### the witness of the repaired defect -/

/-- `03 03 AB CD EF` (byte count 3): the decoded payload is one register backed by two bytes; forwarded in
    a write-multiple-registers request to address 1 it encodes as `10 00 01 00 01 02 AB CD` — quantity 1,
    byte count 2, two payload bytes — and that decodes back to the same request.  (Before the repair the
    payload kept the third byte and the encoder wrote `10 00 01 00 01 02 AB CD EF`.) -/
example :
    Response.decode [0x03, 0x03, 0xAB, 0xCD, 0xEF] = .ok (.readHoldingRegisters ⟨[0xAB, 0xCD], 1⟩) ∧
    regData (.readHoldingRegisters ⟨[0xAB, 0xCD], 1⟩) = some ⟨[0xAB, 0xCD], 1⟩ ∧
    (Request.writeMultipleRegisters 1 ⟨[0xAB, 0xCD], 1⟩).encode (List.replicate 10 0x55) =
      .ok (8, [0x10, 0x00, 0x01, 0x00, 0x01, 0x02, 0xAB, 0xCD, 0x55, 0x55]) ∧
    reqBytes (.writeMultipleRegisters 1 [0xABCD]) = [0x10, 0x00, 0x01, 0x00, 0x01, 0x02, 0xAB, 0xCD] ∧
    Request.decode [0x10, 0x00, 0x01, 0x00, 0x01, 0x02, 0xAB, 0xCD] =
      .ok (.writeMultipleRegisters 1 ⟨[0xAB, 0xCD], 1⟩) := by
  decide +kernel

/-- byte count 1: no whole register; the empty payload gives the (degenerate but self-consistent) request
    `10 00 01 00 00 00` -/
example :
    Response.decode [0x04, 0x01, 0x7F] = .ok (.readInputRegisters ⟨[], 0⟩) ∧
    (Request.writeMultipleRegisters 1 ⟨[], 0⟩).encode (List.replicate 6 0x55) =
      .ok (6, [0x10, 0x00, 0x01, 0x00, 0x00, 0x00]) := by
  decide +kernel

example : ∃ ws, (Data.mk [0xAB, 0xCD] 1).items = some ws ∧
    (Request.writeMultipleRegisters 7 ⟨[0xAB, 0xCD], 1⟩).image = reqBytes (.writeMultipleRegisters 7 ws) := by
  obtain ⟨ws, h1, _, h3, _⟩ := rsp_data_reusable_in_request [0x03, 0x03, 0xAB, 0xCD, 0xEF]
    (.readHoldingRegisters ⟨[0xAB, 0xCD], 1⟩) ⟨[0xAB, 0xCD], 1⟩
    (by decide +kernel) rfl 7
  exact ⟨ws, h1, h3⟩

end Modbus.C19X

import Modbus.Lemmas.EncodeAdu
/-
C12 — encoders are total for every output buffer size and never overrun.

For every encodable PDU or ADU and every output buffer (any length from zero upward, any prior
contents): an error when the buffer is shorter than the encoded size, otherwise success returning
exactly the encoded size (PDU length; + 3 for RTU; + 7 for TCP); never a panic; on success every
byte beyond the returned length is the byte that was there before.

TCP: the MBAP length field holds PDU length + 1 in 16 bits; the encoders convert it with
`u16::try_from` and refuse a PDU of more than 65534 bytes for EVERY buffer (`tcp_oversize_refused`;
only a custom PDU can be that long — the standard kinds have at most 265 bytes).  `tcpRequest` /
`tcpResponse` therefore carry the hypothesis `image.length + 1 ≤ 65535`; `tcp_exact` is the exact
outcome without any hypothesis on the size, `tcpRequest_total` / `tcpResponse_total` say "never a panic".

`Encodable` (Lemmas/Encode.lean) is the decidable predicate "implemented kind, byte count fits its
one-byte field, container holds the bytes its count promises"; every value built by the public
constructors within the Modbus limits satisfies it (`built_*_encodable` below).
-/
namespace Modbus.C12

/-- the one equation everything is read off: short buffer → error; otherwise exactly `size` bytes,
    the image, and the old bytes beyond it -/
def EncSpec (enc : Bytes → Res (Nat × Bytes)) (image : Bytes) : Prop :=
  ∀ buf : Bytes, enc buf =
    if buf.length < image.length then .err .bufferSize
    else .ok (image.length, image ++ buf.drop image.length)

/-- what the property says, derived from the equation: no panic; error iff too short; exact size;
    result buffer has the same length and an untouched tail -/
theorem EncSpec.property {enc : Bytes → Res (Nat × Bytes)} {image : Bytes} (h : EncSpec enc image) (buf : Bytes) :
    enc buf ≠ .panic ∧
    (buf.length < image.length → ∃ e, enc buf = .err e) ∧
    (image.length ≤ buf.length → ∃ out, enc buf = .ok (image.length, out) ∧
        out.length = buf.length ∧ out.take image.length = image ∧
        ∀ i, image.length ≤ i → out[i]? = buf[i]?) := by
  rw [h buf]
  refine ⟨?_, ?_, ?_⟩
  · split <;> simp
  · intro hlt; simp [hlt]
  · intro hle
    have : ¬ buf.length < image.length := by omega
    refine ⟨image ++ buf.drop image.length, by simp [this], by simp; omega, by simp, ?_⟩
    intro i hi
    rw [List.getElem?_append_right hi, List.getElem?_drop]
    congr 1; omega

theorem request (r : Request) (h : r.Encodable) : EncSpec r.encode r.image :=
  fun buf => Request.encode_eq r buf h

theorem requestPdu (r : Request) (h : r.Encodable) : EncSpec (RequestPdu.encode r) r.image :=
  fun buf => Request.encode_eq r buf h

theorem response (r : Response) (h : r.Encodable) : EncSpec r.encode r.image :=
  fun buf => Response.encode_eq r buf h

theorem exceptionResponse (e : ExceptionResponse) (h : e.function.value < 0x80) : EncSpec e.encode e.image :=
  fun buf => by rw [ExceptionResponse.encode_eq e buf h]; simp [ExceptionResponse.image]

theorem responsePdu (p : ResponsePdu) (h : p.Encodable) : EncSpec p.encode p.image :=
  fun buf => ResponsePdu.encode_eq p buf h

theorem Request.image_pos (r : Request) (h : r.Encodable) : 1 ≤ r.image.length := by
  cases r <;> simp_all [Request.image, Request.Encodable]

theorem ResponsePdu.image_pos (p : ResponsePdu) (h : p.Encodable) : 1 ≤ p.image.length := by
  cases p with
  | ok r => exact h.2
  | error e => simp [ResponsePdu.image, ExceptionResponse.image]

/-- sizes: the RTU frame is the PDU plus 3 bytes, the TCP frame the PDU plus 7 -/
theorem rtu_size (slave : UInt8) (img : Bytes) : (Rtu.frameImage slave img).length = img.length + 3 := by
  simp [Rtu.frameImage]
theorem tcp_size (tid : UInt16) (uid : UInt8) (img : Bytes) : (Tcp.frameImage tid uid img).length = img.length + 7 := by
  simp [Tcp.frameImage]; omega

/-- RTU request ADU: size = PDU length + 3 -/
theorem rtuRequest (slave : UInt8) (r : Request) (h : r.Encodable) :
    EncSpec (Rtu.clientEncodeRequest slave r) (Rtu.frameImage slave r.image) := by
  intro buf
  rw [rtu_size]
  exact Rtu.encodeAdu_eq slave (RequestPdu.encode r) r.image (requestPdu r h) (Request.image_pos r h) buf

/-- RTU response ADU (exceptions included) -/
theorem rtuResponse (slave : UInt8) (p : ResponsePdu) (h : p.Encodable) :
    EncSpec (Rtu.serverEncodeResponse slave p) (Rtu.frameImage slave p.image) := by
  intro buf
  rw [rtu_size]
  exact Rtu.encodeAdu_eq slave p.encode p.image (responsePdu p h) (ResponsePdu.image_pos p h) buf

/-! ### TCP: the MBAP length field is a `u16` holding PDU length + 1

`encode_request` / `encode_response` convert `len + 1` with `u16::try_from` and refuse (an error, never a
wrapped field, never a panic) when it does not fit.  So the TCP encoders satisfy `EncSpec` exactly when the
PDU image has at most 65534 bytes — which covers every standard kind (their images have at most 265 bytes,
`request_image_small` / `responsePdu_image_small` below) — and refuse every buffer otherwise. -/

/-- the exact outcome of the TCP ADU encoder, for every PDU encoder obeying the PDU equation, every image
    size and every buffer -/
theorem tcp_exact (tid : UInt16) (uid : UInt8) (encPdu : Bytes → Res (Nat × Bytes)) (img : Bytes)
    (henc : EncSpec encPdu img) (buf : Bytes) :
    Tcp.encodeAdu tid uid encPdu buf =
      if buf.length < img.length + 7 then .err .bufferSize
      else if 65535 < img.length + 1 then .err .bufferSize
      else .ok (img.length + 7, Tcp.frameImage tid uid img ++ buf.drop (img.length + 7)) :=
  Tcp.encodeAdu_eq tid uid encPdu img henc buf

/-- a PDU whose length + 1 fits the 16-bit length field: the TCP encoder obeys the C12 equation -/
theorem tcp_fits (tid : UInt16) (uid : UInt8) (encPdu : Bytes → Res (Nat × Bytes)) (img : Bytes)
    (henc : EncSpec encPdu img) (hlen : img.length + 1 ≤ 65535) :
    EncSpec (Tcp.encodeAdu tid uid encPdu) (Tcp.frameImage tid uid img) := by
  intro buf
  rw [tcp_size, tcp_exact tid uid encPdu img henc buf]
  have : ¬ 65535 < img.length + 1 := by omega
  simp only [this, if_false]

/-- a PDU whose length + 1 does not fit the 16-bit length field is refused for EVERY buffer: an error —
    never a success with a wrapped length field, never a panic -/
theorem tcp_oversize_refused (tid : UInt16) (uid : UInt8) (encPdu : Bytes → Res (Nat × Bytes)) (img : Bytes)
    (henc : EncSpec encPdu img) (hbig : 65535 < img.length + 1) (buf : Bytes) :
    Tcp.encodeAdu tid uid encPdu buf = .err .bufferSize := by
  rw [tcp_exact tid uid encPdu img henc buf]
  simp only [hbig, if_true]
  split <;> rfl

/-- TCP request ADU: size = PDU length + 7 (for every encodable request whose PDU length + 1 fits the
    16-bit MBAP length field) -/
theorem tcpRequest (tid : UInt16) (uid : UInt8) (r : Request) (h : r.Encodable)
    (hlen : r.image.length + 1 ≤ 65535) :
    EncSpec (Tcp.encodeRequest tid uid r) (Tcp.frameImage tid uid r.image) :=
  tcp_fits tid uid (RequestPdu.encode r) r.image (requestPdu r h) hlen

/-- TCP response ADU (exceptions included) -/
theorem tcpResponse (tid : UInt16) (uid : UInt8) (p : ResponsePdu) (h : p.Encodable)
    (hlen : p.image.length + 1 ≤ 65535) :
    EncSpec (Tcp.encodeResponse tid uid p) (Tcp.frameImage tid uid p.image) :=
  tcp_fits tid uid p.encode p.image (responsePdu p h) hlen

/-- an encodable request too long for the length field: refused for every buffer, no panic -/
theorem tcpRequest_oversize_refused (tid : UInt16) (uid : UInt8) (r : Request) (h : r.Encodable)
    (hbig : 65535 < r.image.length + 1) (buf : Bytes) :
    Tcp.encodeRequest tid uid r buf = .err .bufferSize :=
  tcp_oversize_refused tid uid (RequestPdu.encode r) r.image (requestPdu r h) hbig buf

/-- an encodable response too long for the length field: refused for every buffer, no panic -/
theorem tcpResponse_oversize_refused (tid : UInt16) (uid : UInt8) (p : ResponsePdu) (h : p.Encodable)
    (hbig : 65535 < p.image.length + 1) (buf : Bytes) :
    Tcp.encodeResponse tid uid p buf = .err .bufferSize :=
  tcp_oversize_refused tid uid p.encode p.image (responsePdu p h) hbig buf

/-- the TCP encoders never panic, whatever the value's size and whatever the buffer -/
theorem tcpRequest_total (tid : UInt16) (uid : UInt8) (r : Request) (h : r.Encodable) (buf : Bytes) :
    Tcp.encodeRequest tid uid r buf ≠ .panic := by
  show Tcp.encodeAdu tid uid (RequestPdu.encode r) buf ≠ .panic
  rw [tcp_exact tid uid (RequestPdu.encode r) r.image (requestPdu r h) buf]
  split
  · simp
  · split <;> simp

theorem tcpResponse_total (tid : UInt16) (uid : UInt8) (p : ResponsePdu) (h : p.Encodable) (buf : Bytes) :
    Tcp.encodeResponse tid uid p buf ≠ .panic := by
  show Tcp.encodeAdu tid uid p.encode buf ≠ .panic
  rw [tcp_exact tid uid p.encode p.image (responsePdu p h) buf]
  split
  · simp
  · split <;> simp

/-! the side condition holds for every standard kind: their images are short -/

/-- every encodable response of a standard (non-custom) kind has an image of at most 257 bytes -/
theorem response_image_small (r : Response) (h : r.Encodable) (hstd : ∀ fc d, r ≠ .custom fc d) :
    r.image.length ≤ 257 := by
  cases r <;>
    simp_all [Response.image, Response.Encodable, Data.len, List.length_take] <;> omega

/-- every encodable `ResponsePdu` of a standard kind fits the TCP length field -/
theorem responsePdu_image_small (p : ResponsePdu) (h : p.Encodable) (hstd : ∀ fc d, p ≠ .ok (.custom fc d)) :
    p.image.length + 1 ≤ 65535 := by
  cases p with
  | ok r =>
    have := response_image_small r h.1 (fun fc d e => hstd fc d (by rw [e]))
    simp only [ResponsePdu.image]; omega
  | error e => simp [ResponsePdu.image, ExceptionResponse.image]

/-- every encodable request of a standard kind whose register payload holds at most 255 bytes (as every
    decoded or constructor-built one does) has an image of at most 265 bytes -/
theorem request_image_small (r : Request) (h : r.Encodable) (hstd : ∀ fc d, r ≠ .custom fc d)
    (hdata : match r with
      | .writeMultipleRegisters _ d => d.data.length ≤ 255
      | .readWriteMultipleRegisters _ _ _ d => d.data.length ≤ 255
      | _ => True) :
    r.image.length ≤ 265 := by
  cases r with
  | custom fc d => exact absurd rfl (hstd fc d)
  | writeMultipleCoils a c =>
    have := h.1
    simp only [Request.image, List.length_append, Coils.wire_length, List.length_cons, List.length_nil, be16_length]
    omega
  | writeMultipleRegisters a d =>
    have : d.data.length ≤ 255 := hdata
    simp only [Request.image, List.length_append, List.length_cons, List.length_nil, be16_length]
    omega
  | readWriteMultipleRegisters ra q wa d =>
    have : d.data.length ≤ 255 := hdata
    simp only [Request.image, List.length_append, List.length_cons, List.length_nil, be16_length]
    omega
  | _ => simp [Request.image]

/-- hence the TCP encoders obey the C12 equation for every standard response -/
theorem tcpResponse_standard (tid : UInt16) (uid : UInt8) (p : ResponsePdu) (h : p.Encodable)
    (hstd : ∀ fc d, p ≠ .ok (.custom fc d)) :
    EncSpec (Tcp.encodeResponse tid uid p) (Tcp.frameImage tid uid p.image) :=
  tcpResponse tid uid p h (responsePdu_image_small p h hstd)

/-! non-vacuity: concrete encodable values (9 coils built by the constructor; an exception) -/
example : (Request.writeMultipleCoils 5 ⟨[0xCD, 0x01], 9⟩).Encodable := by
  simp [Request.Encodable, Coils.packedLen, packedCoilsLen]
example : (ResponsePdu.error ⟨FunctionCode.new 3, .illegalDataAddress⟩).Encodable := by
  show (FunctionCode.new 3).value < 0x80
  decide
example : (Request.readCoils 1 2).encode [0, 0, 0, 0] = .err .bufferSize := by decide
example : (Request.readCoils 1 2).encode [9, 9, 9, 9, 9, 7] = .ok (5, [1, 0, 1, 0, 2, 7]) := by decide

/-- a custom PDU of 65535 bytes (function byte + 65534 data bytes) is refused by the TCP encoder whatever the
    buffer; one byte less is accepted with length field 0xFFFF -/
example (d buf : Bytes) (hd : d.length = 65534) :
    Tcp.encodeRequest 1 2 (.custom (.custom 0x41) d) buf = .err .bufferSize :=
  tcpRequest_oversize_refused 1 2 (.custom (.custom 0x41) d) trivial (by simp [Request.image, hd]) buf
example (d : Bytes) (hd : d.length = 65533) :
    (Tcp.frameImage 1 2 (Request.custom (.custom 0x41) d).image).take 7 = [0, 1, 0, 0, 0xFF, 0xFF, 2] := by
  simp [Tcp.frameImage, Request.image, hd, be16]

end Modbus.C12

import Modbus.Lemmas.EncodeAdu
/-
C12 — encoders are total for every output buffer size and never overrun.

For every encodable PDU or ADU and every output buffer (any length from zero upward, any prior
contents): an error when the buffer is shorter than the encoded size, otherwise success returning
exactly the encoded size (PDU length; + 3 for RTU; + 7 for TCP); never a panic; on success every
byte beyond the returned length is the byte that was there before.

`Encodable` (Lemmas/Encode.lean) is the decidable predicate "implemented kind, byte count fits its
one-byte field, container holds the bytes its count promises"; every value built by the public
constructors within the Modbus limits satisfies it (`built_*_encodable` below).
-/
namespace Modbus.C12

/-- the one equation everything is read off: short buffer → error; otherwise exactly `size` bytes,
    the image, and the old bytes beyond it -/
def EncSpec (enc : Bytes → Res (Nat × Bytes)) (image : Bytes) : Prop :=
  ∀ buf : Bytes, enc buf =
    if buf.length < image.length then .err .bufferSize
    else .ok (image.length, image ++ buf.drop image.length)

/-- what the property says, derived from the equation: no panic; error iff too short; exact size;
    result buffer has the same length and an untouched tail -/
theorem EncSpec.property {enc : Bytes → Res (Nat × Bytes)} {image : Bytes} (h : EncSpec enc image) (buf : Bytes) :
    enc buf ≠ .panic ∧
    (buf.length < image.length → ∃ e, enc buf = .err e) ∧
    (image.length ≤ buf.length → ∃ out, enc buf = .ok (image.length, out) ∧
        out.length = buf.length ∧ out.take image.length = image ∧
        ∀ i, image.length ≤ i → out[i]? = buf[i]?) := by
  rw [h buf]
  refine ⟨?_, ?_, ?_⟩
  · split <;> simp
  · intro hlt; simp [hlt]
  · intro hle
    have : ¬ buf.length < image.length := by omega
    refine ⟨image ++ buf.drop image.length, by simp [this], by simp; omega, by simp, ?_⟩
    intro i hi
    rw [List.getElem?_append_right hi, List.getElem?_drop]
    congr 1; omega

theorem request (r : Request) (h : r.Encodable) : EncSpec r.encode r.image :=
  fun buf => Request.encode_eq r buf h

theorem requestPdu (r : Request) (h : r.Encodable) : EncSpec (RequestPdu.encode r) r.image :=
  fun buf => Request.encode_eq r buf h

theorem response (r : Response) (h : r.Encodable) : EncSpec r.encode r.image :=
  fun buf => Response.encode_eq r buf h

theorem exceptionResponse (e : ExceptionResponse) (h : e.function.value < 0x80) : EncSpec e.encode e.image :=
  fun buf => by rw [ExceptionResponse.encode_eq e buf h]; simp [ExceptionResponse.image]

theorem responsePdu (p : ResponsePdu) (h : p.Encodable) : EncSpec p.encode p.image :=
  fun buf => ResponsePdu.encode_eq p buf h

theorem Request.image_pos (r : Request) (h : r.Encodable) : 1 ≤ r.image.length := by
  cases r <;> simp_all [Request.image, Request.Encodable]

theorem ResponsePdu.image_pos (p : ResponsePdu) (h : p.Encodable) : 1 ≤ p.image.length := by
  cases p with
  | ok r => exact h.2
  | error e => simp [ResponsePdu.image, ExceptionResponse.image]

/-- sizes: the RTU frame is the PDU plus 3 bytes, the TCP frame the PDU plus 7 -/
theorem rtu_size (slave : UInt8) (img : Bytes) : (Rtu.frameImage slave img).length = img.length + 3 := by
  simp [Rtu.frameImage]
theorem tcp_size (tid : UInt16) (uid : UInt8) (img : Bytes) : (Tcp.frameImage tid uid img).length = img.length + 7 := by
  simp [Tcp.frameImage]; omega

/-- RTU request ADU: size = PDU length + 3 -/
theorem rtuRequest (slave : UInt8) (r : Request) (h : r.Encodable) :
    EncSpec (Rtu.clientEncodeRequest slave r) (Rtu.frameImage slave r.image) := by
  intro buf
  rw [rtu_size]
  exact Rtu.encodeAdu_eq slave (RequestPdu.encode r) r.image (requestPdu r h) (Request.image_pos r h) buf

/-- RTU response ADU (exceptions included) -/
theorem rtuResponse (slave : UInt8) (p : ResponsePdu) (h : p.Encodable) :
    EncSpec (Rtu.serverEncodeResponse slave p) (Rtu.frameImage slave p.image) := by
  intro buf
  rw [rtu_size]
  exact Rtu.encodeAdu_eq slave p.encode p.image (responsePdu p h) (ResponsePdu.image_pos p h) buf

/-- TCP request ADU: size = PDU length + 7 -/
theorem tcpRequest (tid : UInt16) (uid : UInt8) (r : Request) (h : r.Encodable) :
    EncSpec (Tcp.encodeRequest tid uid r) (Tcp.frameImage tid uid r.image) := by
  intro buf
  rw [tcp_size]
  exact Tcp.encodeAdu_eq tid uid (RequestPdu.encode r) r.image (requestPdu r h) buf

/-- TCP response ADU (exceptions included) -/
theorem tcpResponse (tid : UInt16) (uid : UInt8) (p : ResponsePdu) (h : p.Encodable) :
    EncSpec (Tcp.encodeResponse tid uid p) (Tcp.frameImage tid uid p.image) := by
  intro buf
  rw [tcp_size]
  exact Tcp.encodeAdu_eq tid uid p.encode p.image (responsePdu p h) buf

/-! non-vacuity: concrete encodable values (9 coils built by the constructor; an exception) -/
example : (Request.writeMultipleCoils 5 ⟨[0xCD, 0x01], 9⟩).Encodable := by
  simp [Request.Encodable, Coils.packedLen, packedCoilsLen]
example : (ResponsePdu.error ⟨FunctionCode.new 3, .illegalDataAddress⟩).Encodable := by
  show (FunctionCode.new 3).value < 0x80
  decide
example : (Request.readCoils 1 2).encode [0, 0, 0, 0] = .err .bufferSize := by decide
example : (Request.readCoils 1 2).encode [9, 9, 9, 9, 9, 7] = .ok (5, [1, 0, 1, 0, 2, 7]) := by decide

end Modbus.C12

import Modbus.Lemmas.ReqCodec
import Modbus.Lemmas.Wf
/-
C03 (request side) — the request wire format conforms to the Modbus Application Protocol.

Both directions are stated against `Spec.reqBytes` (Spec/Wire.lean: function code byte, big-endian
16-bit fields written as `v / 256`, `v % 256`, a one-byte count `⌈n/8⌉` or `2n`, coils packed by the
arithmetic formula of Spec/Bits.lean, coil value `FF 00` / `00 00`) — an independent statement of the
specification, not the library's own inverse.

`Request.Built r m` (Lemmas/ReqCodec.lean): `r` is the value the public constructors give for the
meaning `m` — payload containers from `Coils::from_bools` / `Data::from_words` over ANY target (any
capacity, any contents), custom requests with any `FunctionCode` value.  `m.fits` (Spec/Wire.lean):
the payload is non-empty and its byte count fits the one-byte count field (1..=2040 coils,
1..=127 words); `True` for the fixed-size kinds and custom requests.

All statements are universally quantified: every address / quantity / value, every payload length
and contents, every target, every output buffer.
-/
namespace Modbus.C03Req

open Spec (ReqMeaning reqBytes)

/-! ### encode side: the bytes produced are the specification's bytes -/

/-- the wire image is the spec's PDU — for every constructible request, of any payload size -/
theorem req_image_conforms {r : Request} {m : ReqMeaning} (hb : r.Built m) : r.image = reqBytes m :=
  hb.image_eq

/-- a constructible request whose payload fits the count field is encodable, and its wire image is
    the spec's PDU -/
theorem req_conforms {r : Request} {m : ReqMeaning} (hb : r.Built m) (hf : m.fits) :
    r.Encodable ∧ r.image = reqBytes m :=
  ⟨hb.encodable_iff.mpr hf, hb.image_eq⟩

/-- the encoder itself: into every buffer that is large enough it writes exactly the spec's PDU,
    returns its length, and leaves the bytes beyond it as they were -/
theorem req_encode_conforms {r : Request} {m : ReqMeaning} (hb : r.Built m) (hf : m.fits) (buf : Bytes)
    (hl : (reqBytes m).length ≤ buf.length) :
    r.encode buf = .ok ((reqBytes m).length, reqBytes m ++ buf.drop (reqBytes m).length) := by
  rw [hb.encode_fits hf buf, if_neg (by omega)]

/-- `RequestPdu::encode` is the same function -/
theorem req_pdu_encode_conforms {r : Request} {m : ReqMeaning} (hb : r.Built m) (hf : m.fits) (buf : Bytes)
    (hl : (reqBytes m).length ≤ buf.length) :
    RequestPdu.encode r buf = .ok ((reqBytes m).length, reqBytes m ++ buf.drop (reqBytes m).length) :=
  req_encode_conforms hb hf buf hl

/-- the length the request reports is the length of the spec's PDU -/
theorem req_pdu_len_conforms {r : Request} {m : ReqMeaning} (hb : r.Built m) (hf : m.fits) :
    r.pduLen = .ok (reqBytes m).length := by
  rw [Request.pduLen_eq r (hb.encodable_iff.mpr hf), hb.image_eq]

/-- whatever the outcome: a successful encoding — into any buffer, for any payload size — has
    produced exactly the spec's PDU (and the payload fits) -/
theorem req_encode_ok_conforms {r : Request} {m : ReqMeaning} (hb : r.Built m) (buf : Bytes) (n : Nat)
    (out : Bytes) (h : r.encode buf = .ok (n, out)) :
    m.fits ∧ n = (reqBytes m).length ∧ out.take n = reqBytes m := by
  obtain ⟨hf, hn, _, ht, _⟩ := hb.of_encode_ok h
  exact ⟨hf, hn, ht⟩

/-! ### encode side, for ARBITRARY values (no `Built`, no hypothesis on the raw padding bits) -/

/-- **every well-formed request conforms.**  `r.Wf`: its payload container (if any) holds the bytes its
    count promises — whatever kind of value the container came from (`from_bools`, `from_words`, a decoded
    response, a decoded request with set padding bits …); `r.Implemented`: one of the kinds `encode`
    implements; `r.CountFits`: the byte count fits its one-byte field.  Then, with `m` the meaning of `r`
    (what a user reads through its accessors), `r` is encodable, its wire image is the specification's PDU
    of `m` — in particular the unused bits of the last coil byte are ZERO on the wire, whatever the
    container's raw bytes hold — and the encoder writes exactly that into every large-enough buffer. -/
theorem req_conforms_any (r : Request) (hw : r.Wf) (hi : r.Implemented) (hf : r.CountFits)
    (m : ReqMeaning) (hm : r.sem = some m) :
    r.Encodable ∧ r.image = reqBytes m ∧
    ∀ buf : Bytes, (reqBytes m).length ≤ buf.length →
      r.encode buf = .ok ((reqBytes m).length, reqBytes m ++ buf.drop (reqBytes m).length) := by
  have hm' : r.meaning = some m := by rw [← hw.sem_eq]; exact hm
  have himg := hw.image_eq_spec hm'
  refine ⟨(hw.encodable_iff hi).mpr hf, himg, fun buf hl => ?_⟩
  rw [hw.encode_eq hi buf, if_pos hf, himg, if_neg (by omega)]

/-- the coil payload alone: the bytes `copy_to` puts on the wire for any backed container are the
    specification's packed field of its coils -/
theorem coils_wire_conforms (c : Coils) (hb : c.Backed) : c.copyBytes = .ok (Spec.packBits c.bits) :=
  Coils.copyBytes_eq_packBits hb

/-- non-vacuity: the request decoded from `0F 00 01 00 03 01 FF` (three coils, raw byte `FF`) is well-formed,
    means three coils on, and re-encodes to the specification's `0F 00 01 00 03 01 07` -/
example : (Request.writeMultipleCoils 1 ⟨[0xFF], 3⟩).Wf ∧ (Request.writeMultipleCoils 1 ⟨[0xFF], 3⟩).Implemented ∧
    (Request.writeMultipleCoils 1 ⟨[0xFF], 3⟩).CountFits ∧
    (Request.writeMultipleCoils 1 ⟨[0xFF], 3⟩).sem = some (.writeMultipleCoils 1 [true, true, true]) ∧
    reqBytes (.writeMultipleCoils 1 [true, true, true]) = [0x0F, 0x00, 0x01, 0x00, 0x03, 0x01, 0x07] ∧
    (Request.writeMultipleCoils 1 ⟨[0xFF], 3⟩).encode (List.replicate 8 0x55) =
      .ok (7, [0x0F, 0x00, 0x01, 0x00, 0x03, 0x01, 0x07, 0x55]) := by
  refine ⟨by decide +kernel, trivial, by decide +kernel, by decide +kernel, by decide +kernel, by decide +kernel⟩

/-! ### decode side: every conformant PDU is decoded to the meaning the specification assigns it -/

/-- `InScope` (Lemmas/ReqCodec.lean): a custom meaning has a code below 0x80 that is not one of the nine
    codes the decoder parses as a dedicated kind (`modelledReqCodes`); no condition on the nine
    standard kinds.  `fits`: 1 ≤ n and byte count ≤ 255 for the payload kinds. -/
theorem req_decodes_spec (m : ReqMeaning) (hf : m.fits) (hs : m.InScope) :
    ∃ r', Request.decode (reqBytes m) = .ok r' ∧ r'.sem = some m :=
  Request.decode_reqBytes m hf hs

/-- the fixed-size kinds are decoded with anything after them ignored — stated because the decoder
    accepts it (the framing layers cut the PDU to its exact length) -/
theorem req_decodes_spec_trailing (a q : UInt16) (rest : Bytes) :
    Request.decode (reqBytes (.readCoils a q) ++ rest) = .ok (.readCoils a q) ∧
    Request.decode (reqBytes (.readDiscreteInputs a q) ++ rest) = .ok (.readDiscreteInputs a q) ∧
    Request.decode (reqBytes (.readHoldingRegisters a q) ++ rest) = .ok (.readHoldingRegisters a q) ∧
    Request.decode (reqBytes (.readInputRegisters a q) ++ rest) = .ok (.readInputRegisters a q) ∧
    Request.decode (reqBytes (.writeSingleRegister a q) ++ rest) = .ok (.writeSingleRegister a q) := by
  refine ⟨?_, ?_, ?_, ?_, ?_⟩
  · show Request.decode (0x01 :: Spec.hi a :: Spec.lo a :: Spec.hi q :: Spec.lo q :: rest) = _
    rw [Request.decode_readCoils, Req.rd16_hi_lo, Req.rd16_hi_lo]
  · show Request.decode (0x02 :: Spec.hi a :: Spec.lo a :: Spec.hi q :: Spec.lo q :: rest) = _
    rw [Request.decode_readDiscreteInputs, Req.rd16_hi_lo, Req.rd16_hi_lo]
  · show Request.decode (0x03 :: Spec.hi a :: Spec.lo a :: Spec.hi q :: Spec.lo q :: rest) = _
    rw [Request.decode_readHoldingRegisters, Req.rd16_hi_lo, Req.rd16_hi_lo]
  · show Request.decode (0x04 :: Spec.hi a :: Spec.lo a :: Spec.hi q :: Spec.lo q :: rest) = _
    rw [Request.decode_readInputRegisters, Req.rd16_hi_lo, Req.rd16_hi_lo]
  · show Request.decode (0x06 :: Spec.hi a :: Spec.lo a :: Spec.hi q :: Spec.lo q :: rest) = _
    rw [Request.decode_writeSingleRegister, Req.rd16_hi_lo, Req.rd16_hi_lo]

/-- a custom code at or above 0x80 is refused (`Err(FnCode)`), not misdecoded -/
theorem req_decodes_spec_refuses_high (c : UInt8) (d : Bytes) (hc : c ∉ modelledReqCodes) (h80 : ¬ c < 0x80) :
    Request.decode (reqBytes (.custom c d)) = .err (.fnCode c) :=
  Request.decode_reqBytes_refuse c d hc h80

/-- a Write Single Coil value other than `FF 00` / `00 00` is refused (`Err(CoilValue)`) -/
theorem req_decodes_bad_coil_value (h1 l1 h2 l2 : UInt8) (rest : Bytes)
    (hv : rd16 h2 l2 ≠ 0xFF00 ∧ rd16 h2 l2 ≠ 0x0000) :
    Request.decode (0x05 :: h1 :: l1 :: h2 :: l2 :: rest) = .err (.coilValue (rd16 h2 l2)) := by
  rw [Request.decode_writeSingleCoil]
  simp [u16CoilToBool, hv.1, hv.2]

/-! ### non-vacuity: concrete instances, checked by evaluation in the kernel -/

/-- the hypotheses of `req_decodes_spec_refuses_high` and `req_decodes_bad_coil_value` -/
example : (0x90 : UInt8) ∉ modelledReqCodes ∧ ¬ (0x90 : UInt8) < 0x80 := by decide +kernel
example : Request.decode [0x90, 1, 2] = .err (.fnCode 0x90) := by decide +kernel
example : rd16 0x00 0x01 ≠ 0xFF00 ∧ rd16 0x00 0x01 ≠ 0x0000 := by decide +kernel
example : Request.decode [0x05, 0, 7, 0x00, 0x01] = .err (.coilValue 1) := by decide +kernel

/-- nine coils built in a dirty target with one byte of excess capacity, address 0xFFFF:
    `0F FF FF 00 09 02 CD 01` — LSB-first packing, zero padding, no trace of the target -/
example : ∃ c, Coils.fromBools [true, false, true, true, false, false, true, true, true] [0xFF, 0xFF, 0xAA] = .ok c ∧
    (Request.writeMultipleCoils 0xFFFF c).encode (List.replicate 10 0x55) =
      .ok (8, [0x0F, 0xFF, 0xFF, 0x00, 0x09, 0x02, 0xCD, 0x01, 0x55, 0x55]) ∧
    Spec.reqBytes (.writeMultipleCoils 0xFFFF [true, false, true, true, false, false, true, true, true]) =
      [0x0F, 0xFF, 0xFF, 0x00, 0x09, 0x02, 0xCD, 0x01] :=
  ⟨⟨[0xCD, 0x01], 9⟩, by decide +kernel, by decide +kernel, by decide +kernel⟩

example : Spec.reqBytes (.writeSingleCoil 0x0102 true) = [0x05, 0x01, 0x02, 0xFF, 0x00] := by decide +kernel
example : Spec.reqBytes (.readHoldingRegisters 0x1234 0x0003) = [0x03, 0x12, 0x34, 0x00, 0x03] := by
  decide +kernel
example : Spec.reqBytes (.readWriteMultipleRegisters 1 2 3 [0xABCD]) =
    [0x17, 0, 1, 0, 2, 0, 3, 0, 1, 2, 0xAB, 0xCD] := by decide +kernel

/-- the hypotheses of `req_decodes_spec` hold for a 127-word payload and for custom code 0x41 -/
example : (ReqMeaning.writeMultipleRegisters 0xFFFF (List.replicate 127 0xBEEF)).fits ∧
    (ReqMeaning.writeMultipleRegisters 0xFFFF (List.replicate 127 0xBEEF)).InScope :=
  ⟨by decide +kernel, trivial⟩
example : (ReqMeaning.custom 0x41 [1, 2, 3]).fits ∧ (ReqMeaning.custom 0x41 [1, 2, 3]).InScope :=
  ⟨trivial, by decide +kernel⟩

example : Request.decode [0x0F, 0xFF, 0xFF, 0x00, 0x09, 0x02, 0xCD, 0x01] =
    .ok (.writeMultipleCoils 0xFFFF ⟨[0xCD, 0x01], 9⟩) := by decide +kernel
example : (Request.writeMultipleCoils 0xFFFF ⟨[0xCD, 0x01], 9⟩).sem =
    some (.writeMultipleCoils 0xFFFF [true, false, true, true, false, false, true, true, true]) := by
  decide +kernel

end Modbus.C03Req

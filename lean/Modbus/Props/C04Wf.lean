import Modbus.Lemmas.WfAdu
import Modbus.Props.C04
import Modbus.Props.C19Wf
/-
C04 (well-formedness) — the RTU ADU round trip for ANY well-formed value.

`Props/C04Full.lean` quantifies over values `Built` through the public constructors, `Props/C04Dec.lean`
over values decoded and re-framed in place.  A container obtained from any public source may be placed in
any variant that takes one (e.g. the `Data` decoded from the response `03 03 AB CD EF` — odd byte count,
one whole register — placed in `Request::ReadWriteMultipleRegisters` and framed by
`rtu::client::encode_request`); such a value is neither.  This file states the ADU theorems for EVERY value
satisfying the invariant of `Props/C19Wf.lean` (`Request.Wf` / `Response.Wf`), see `Props/C05Wf.lean`.

For every such request / response of an implemented kind whose byte count fits (`CountFits`), with `m` its
meaning, every slave id and EVERY buffer:

* the encoder's complete outcome: `Err(BufferSize)` exactly when the buffer is shorter than PDU + 3;
  otherwise `Ok(PDU + 3)`, the bytes written are `Spec.rtuFrame slave pdu` = slave id, the SPECIFICATION's
  PDU of the meaning, CRC-16/MODBUS of both with the low-order byte first; the rest of the buffer is untouched;
* the opposite side's decoder on those bytes followed by ANY further bytes returns the same slave id and a
  value with the same meaning (coil-read responses rounded up to whole bytes, `m.padded`).

Open findings, hence `…_partial`:
* D4 — requests with function code 0x0F / 0x10 (write multiple coils / registers) are excluded from the
  DECODING half (`hC`, `hR`); the encoding half `rtu_request_wf_encode` holds for them too.
  Refuted in full by `C04Full.rtu_request_end_to_end_fails`.
* D12 — the write-single-coil response is excluded (`hD12`); `C04Full.rtu_response_end_to_end_fails`.
-/
namespace Modbus.C04Wf
open Modbus.AduRT Modbus.Reception

/-! ### requests -/

/-- **Requests, encoding half: any well-formed value (0x0F / 0x10 included), every buffer.** -/
theorem rtu_request_wf_encode (r : Request) (hw : r.Wf) (hi : r.Implemented) (hf : r.CountFits)
    (m : Spec.ReqMeaning) (hm : r.meaning = some m)
    (slave : UInt8) (buf : Bytes) :
    r.sem = some m ∧
    Rtu.clientEncodeRequest slave r buf =
      (if buf.length < (Spec.reqBytes m).length + 3 then .err .bufferSize
       else .ok ((Spec.reqBytes m).length + 3,
         Spec.rtuFrame slave (Spec.reqBytes m) ++ buf.drop ((Spec.reqBytes m).length + 3))) ∧
    Spec.rtuFrame slave (Spec.reqBytes m) =
      slave :: Spec.reqBytes m ++ Spec.crcWire (slave :: Spec.reqBytes m) ∧
    ((∃ e, Rtu.clientEncodeRequest slave r buf = .err e) ↔ buf.length < (Spec.reqBytes m).length + 3) ∧
    ∀ n out, Rtu.clientEncodeRequest slave r buf = .ok (n, out) →
      n = (Spec.reqBytes m).length + 3 ∧ n ≤ buf.length ∧
      out.take n = Spec.rtuFrame slave (Spec.reqBytes m) ∧
      out.drop n = buf.drop n := by
  have hsem : r.sem = some m := by rw [hw.sem_eq, hm]
  have he := (hw.encodable_iff hi).mpr hf
  have himg := hw.image_eq_spec hm
  have hL : (Spec.rtuFrame slave (Spec.reqBytes m)).length = (Spec.reqBytes m).length + 3 :=
    rtuFrame_length slave _
  have key : Rtu.clientEncodeRequest slave r buf =
      (if buf.length < (Spec.reqBytes m).length + 3 then .err .bufferSize
       else .ok ((Spec.reqBytes m).length + 3,
         Spec.rtuFrame slave (Spec.reqBytes m) ++ buf.drop ((Spec.reqBytes m).length + 3))) := by
    by_cases hb : buf.length < (Spec.reqBytes m).length + 3
    · rw [if_pos hb]; exact C04.rtu_req_layout_short slave r buf he (by rw [himg]; exact hb)
    · rw [if_neg hb]
      have := C04.rtu_req_layout slave r buf he (by rw [himg]; omega)
      rw [himg] at this; exact this
  refine ⟨hsem, key, rtuFrame_crcWire slave _, ?_, ?_⟩
  · rw [key]
    by_cases hb : buf.length < (Spec.reqBytes m).length + 3
    · rw [if_pos hb]; exact ⟨fun _ => hb, fun _ => ⟨_, rfl⟩⟩
    · rw [if_neg hb]; exact ⟨fun h => (by obtain ⟨e, he⟩ := h; cases he), fun h => absurd h hb⟩
  · intro n out h
    rw [key] at h
    by_cases hb : buf.length < (Spec.reqBytes m).length + 3
    · rw [if_pos hb] at h; cases h
    · rw [if_neg hb] at h
      simp only [Res.ok.injEq, Prod.mk.injEq] at h
      obtain ⟨rfl, rfl⟩ := h
      exact ⟨rfl, by omega, List.take_left' hL, List.drop_left' hL⟩

/-
Full statement — FALSE for the model of the unedited crate (open finding D4): `rtu_request_wf_partial`
without the hypotheses `hC`, `hR`.  Missing from the proved statement: exactly the requests whose meaning is
`.writeMultipleCoils a bs` or `.writeMultipleRegisters a ws` (function codes 0x0F / 0x10) — for those the
frame is written (`rtu_request_wf_encode`) but `rtu::server::decode_request` does not return it
(`C04.rtu_req_write_multiple_defect_witness`, `C04Full.rtu_request_end_to_end_fails`).
-/
/-- **Requests: any well-formed value except function codes 0x0F / 0x10, every buffer, any following bytes.** -/
theorem rtu_request_wf_partial (r : Request) (hw : r.Wf) (hi : r.Implemented) (hf : r.CountFits)
    (m : Spec.ReqMeaning) (hm : r.meaning = some m) (hs : m.InScope) (hfr : m.Framed)
    (hC : ∀ a bs, m ≠ .writeMultipleCoils a bs) (hR : ∀ a ws, m ≠ .writeMultipleRegisters a ws)
    (slave : UInt8) (buf : Bytes) :
    r.sem = some m ∧
    Rtu.clientEncodeRequest slave r buf =
      (if buf.length < (Spec.reqBytes m).length + 3 then .err .bufferSize
       else .ok ((Spec.reqBytes m).length + 3,
         Spec.rtuFrame slave (Spec.reqBytes m) ++ buf.drop ((Spec.reqBytes m).length + 3))) ∧
    ((∃ e, Rtu.clientEncodeRequest slave r buf = .err e) ↔ buf.length < (Spec.reqBytes m).length + 3) ∧
    ∀ n out, Rtu.clientEncodeRequest slave r buf = .ok (n, out) →
      n = (Spec.reqBytes m).length + 3 ∧ n ≤ buf.length ∧
      out.take n = Spec.rtuFrame slave (Spec.reqBytes m) ∧
      out.take n = slave :: Spec.reqBytes m ++ Spec.crcWire (slave :: Spec.reqBytes m) ∧
      out.drop n = buf.drop n ∧
      ∀ rest : Bytes, ∃ r', Rtu.serverDecodeRequest (out.take n ++ rest) = .ok (some (slave, r')) ∧
        r'.sem = some m := by
  obtain ⟨hsem, key, hcrc, herr, hok⟩ := rtu_request_wf_encode r hw hi hf m hm slave buf
  refine ⟨hsem, key, herr, fun n out h => ?_⟩
  obtain ⟨h1, h2, h3, h4⟩ := hok n out h
  refine ⟨h1, h2, h3, by rw [h3, hcrc], h4, fun rest => ?_⟩
  rw [h3]
  have himg := hw.image_eq_spec hm
  have hc := hw.complete hi hf hm hfr
  obtain ⟨hF, h10⟩ := Request.Wf.first_ne hm hs hC hR
  obtain ⟨r', hd, hs'⟩ := hw.redecode hf hm hs
  refine ⟨r', ?_, by rw [hs', hsem]⟩
  have := C04.rtu_req_roundtrip_partial slave r r' hc hF h10 hd rest
  rw [himg] at this; exact this

/-! ### responses -/

/-
Full statement — FALSE for the model of the unedited crate (open finding D12): `rtu_response_wf_partial`
without `hD12`.  Missing: exactly `Response.writeSingleCoil a`; refuted by
`C04Full.rtu_response_end_to_end_fails`.
-/
/-- **Responses: any well-formed value except write-single-coil, every buffer, any following bytes.** -/
theorem rtu_response_wf_partial (r : Response) (hw : r.Wf) (hi : r.Implemented) (hf : r.CountFits)
    (m : Spec.RspMeaning) (hm : r.meaning = some m) (hs : InScopeRsp m) (hfr : m.Framed)
    (hD12 : ∀ a, m ≠ .writeSingleCoil a)
    (slave : UInt8) (buf : Bytes) :
    r.sem = some m ∧
    Rtu.serverEncodeResponse slave (.ok r) buf =
      (if buf.length < (Spec.rspBytes m).length + 3 then .err .bufferSize
       else .ok ((Spec.rspBytes m).length + 3,
         Spec.rtuFrame slave (Spec.rspBytes m) ++ buf.drop ((Spec.rspBytes m).length + 3))) ∧
    ((∃ e, Rtu.serverEncodeResponse slave (.ok r) buf = .err e) ↔ buf.length < (Spec.rspBytes m).length + 3) ∧
    ∀ n out, Rtu.serverEncodeResponse slave (.ok r) buf = .ok (n, out) →
      n = (Spec.rspBytes m).length + 3 ∧ n ≤ buf.length ∧
      out.take n = Spec.rtuFrame slave (Spec.rspBytes m) ∧
      out.take n = slave :: Spec.rspBytes m ++ Spec.crcWire (slave :: Spec.rspBytes m) ∧
      out.drop n = buf.drop n ∧
      ∀ rest : Bytes, ∃ r', Rtu.clientDecodeResponse (out.take n ++ rest) = .ok (some (slave, .ok r')) ∧
        r'.sem = some m.padded ∧ m.RoundsTo m.padded := by
  have hsem : r.sem = some m := by rw [hw.sem_eq, hm]
  have he := hw.pdu_encodable hi hf
  have himg := hw.image_eq_spec hm hD12
  have hc := hw.complete hi hf hm hD12 hfr
  have hx := Response.Wf.not_exception hm hfr
  have hL : (Spec.rtuFrame slave (Spec.rspBytes m)).length = (Spec.rspBytes m).length + 3 :=
    rtuFrame_length slave _
  have key : Rtu.serverEncodeResponse slave (.ok r) buf =
      (if buf.length < (Spec.rspBytes m).length + 3 then .err .bufferSize
       else .ok ((Spec.rspBytes m).length + 3,
         Spec.rtuFrame slave (Spec.rspBytes m) ++ buf.drop ((Spec.rspBytes m).length + 3))) := by
    by_cases hb : buf.length < (Spec.rspBytes m).length + 3
    · rw [if_pos hb]
      exact C04.rtu_rsp_layout_short slave (.ok r) buf he
        (by show buf.length < r.image.length + 3; rw [himg]; exact hb)
    · rw [if_neg hb]
      have : Rtu.serverEncodeResponse slave (.ok r) buf =
          .ok (r.image.length + 3, Spec.rtuFrame slave r.image ++ buf.drop (r.image.length + 3)) :=
        C04.rtu_rsp_layout slave (.ok r) buf he (by show r.image.length + 3 ≤ buf.length; rw [himg]; omega)
      rw [himg] at this; exact this
  refine ⟨hsem, key, ?_, ?_⟩
  · rw [key]
    by_cases hb : buf.length < (Spec.rspBytes m).length + 3
    · rw [if_pos hb]; exact ⟨fun _ => hb, fun _ => ⟨_, rfl⟩⟩
    · rw [if_neg hb]; exact ⟨fun h => (by obtain ⟨e, he⟩ := h; cases he), fun h => absurd h hb⟩
  · intro n out h
    rw [key] at h
    by_cases hb : buf.length < (Spec.rspBytes m).length + 3
    · rw [if_pos hb] at h; cases h
    · rw [if_neg hb] at h
      simp only [Res.ok.injEq, Prod.mk.injEq] at h
      obtain ⟨rfl, rfl⟩ := h
      refine ⟨rfl, by omega, List.take_left' hL, by rw [List.take_left' hL, rtuFrame_crcWire],
        List.drop_left' hL, fun rest => ?_⟩
      rw [List.take_left' hL]
      obtain ⟨r', hd, hs'⟩ := hw.redecode_clean hf hm hs
      refine ⟨r', ?_, hs', m.roundsTo_padded⟩
      have := C04.rtu_rsp_roundtrip slave r r' hc hx hd rest
      rw [himg] at this; exact this

/-! ### the audit's value: `Data` decoded from the response `03 03 AB CD EF` (odd byte count: one whole
    register, the trailing byte dropped), in a read/write-multiple-registers request over RTU -/

theorem transplant_value :
    Response.decode [0x03, 0x03, 0xAB, 0xCD, 0xEF] = .ok (.readHoldingRegisters ⟨[0xAB, 0xCD], 1⟩) ∧
    C19Wf.DataSourced ⟨[0xAB, 0xCD], 1⟩ ∧
    (Request.readWriteMultipleRegisters 5 1 7 ⟨[0xAB, 0xCD], 1⟩).Wf ∧
    (Request.readWriteMultipleRegisters 5 1 7 ⟨[0xAB, 0xCD], 1⟩).Implemented ∧
    (Request.readWriteMultipleRegisters 5 1 7 ⟨[0xAB, 0xCD], 1⟩).CountFits ∧
    (Request.readWriteMultipleRegisters 5 1 7 ⟨[0xAB, 0xCD], 1⟩).meaning =
      some (.readWriteMultipleRegisters 5 1 7 [0xABCD]) :=
  ⟨by decide +kernel, .rspReadHoldingRegisters [0x03, 0x03, 0xAB, 0xCD, 0xEF] _ (by decide +kernel),
    by decide +kernel, trivial, by decide +kernel, by decide +kernel⟩

/-- the general theorem applied to it: every slave id, buffer and following bytes -/
example (slave : UInt8) (buf : Bytes) (n : Nat) (out rest : Bytes)
    (h : Rtu.clientEncodeRequest slave (.readWriteMultipleRegisters 5 1 7 ⟨[0xAB, 0xCD], 1⟩) buf = .ok (n, out)) :
    n = 15 ∧
    out.take n = Spec.rtuFrame slave [0x17, 0x00, 0x05, 0x00, 0x01, 0x00, 0x07, 0x00, 0x01, 0x02, 0xAB, 0xCD] ∧
    ∃ r', Rtu.serverDecodeRequest (out.take n ++ rest) = .ok (some (slave, r')) ∧
      r'.sem = some (.readWriteMultipleRegisters 5 1 7 [0xABCD]) := by
  obtain ⟨_, _, hw, hi, hf, hm⟩ := transplant_value
  obtain ⟨_, _, _, hall⟩ := rtu_request_wf_partial _ hw hi hf _ hm trivial trivial
    (fun _ _ h => by cases h) (fun _ _ h => by cases h) slave buf
  obtain ⟨h1, _, h2, _, _, h3⟩ := hall n out h
  have hb : Spec.reqBytes (.readWriteMultipleRegisters 5 1 7 [0xABCD]) =
      [0x17, 0x00, 0x05, 0x00, 0x01, 0x00, 0x07, 0x00, 0x01, 0x02, 0xAB, 0xCD] := by decide +kernel
  rw [hb] at h1 h2
  exact ⟨h1, h2, h3 rest⟩

/-- the same instance evaluated in the kernel: the fifteen bytes `rtu::client::encode_request` writes into a
    dirty sixteen-byte buffer, and what `rtu::server::decode_request` returns for them followed by the stale byte -/
example :
    Rtu.clientEncodeRequest 0x11 (.readWriteMultipleRegisters 5 1 7 ⟨[0xAB, 0xCD], 1⟩) (List.replicate 16 0xEE) =
      .ok (15, Spec.rtuFrame 0x11 [0x17, 0x00, 0x05, 0x00, 0x01, 0x00, 0x07, 0x00, 0x01, 0x02, 0xAB, 0xCD] ++ [0xEE]) ∧
    Rtu.serverDecodeRequest
        (Spec.rtuFrame 0x11 [0x17, 0x00, 0x05, 0x00, 0x01, 0x00, 0x07, 0x00, 0x01, 0x02, 0xAB, 0xCD] ++ [0xEE]) =
      .ok (some (0x11, .readWriteMultipleRegisters 5 1 7 ⟨[0xAB, 0xCD], 1⟩)) ∧
    (Request.readWriteMultipleRegisters 5 1 7 ⟨[0xAB, 0xCD], 1⟩).sem =
      some (.readWriteMultipleRegisters 5 1 7 [0xABCD]) ∧
    Rtu.clientEncodeRequest 0x11 (.readWriteMultipleRegisters 5 1 7 ⟨[0xAB, 0xCD], 1⟩) (List.replicate 14 0xEE) =
      .err .bufferSize := by
  decide +kernel

/-- the same `Data` in a read-holding-registers RESPONSE over RTU (server encodes, client decodes) -/
example :
    (Response.readHoldingRegisters ⟨[0xAB, 0xCD], 1⟩).Wf ∧
    Rtu.serverEncodeResponse 0x11 (.ok (.readHoldingRegisters ⟨[0xAB, 0xCD], 1⟩)) (List.replicate 8 0xEE) =
      .ok (7, Spec.rtuFrame 0x11 [0x03, 0x02, 0xAB, 0xCD] ++ [0xEE]) ∧
    Rtu.clientDecodeResponse (Spec.rtuFrame 0x11 [0x03, 0x02, 0xAB, 0xCD] ++ [0xEE]) =
      .ok (some (0x11, .ok (.readHoldingRegisters ⟨[0xAB, 0xCD], 1⟩))) := by
  decide +kernel

/-- D4 is still there for the transplanted container: in a write-multiple-registers request the frame is
    written but does not come back -/
example :
    (Request.writeMultipleRegisters 1 ⟨[0xAB, 0xCD], 1⟩).Wf ∧
    Rtu.clientEncodeRequest 0x11 (.writeMultipleRegisters 1 ⟨[0xAB, 0xCD], 1⟩) (List.replicate 11 0) =
      .ok (11, Spec.rtuFrame 0x11 [0x10, 0x00, 0x01, 0x00, 0x01, 0x02, 0xAB, 0xCD]) ∧
    Rtu.serverDecodeRequest (Spec.rtuFrame 0x11 [0x10, 0x00, 0x01, 0x00, 0x01, 0x02, 0xAB, 0xCD]) = .ok none := by
  decide +kernel

end Modbus.C04Wf

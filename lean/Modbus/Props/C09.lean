import Modbus.Model.Tcp
import Modbus.Lemmas.Basic
import Modbus.Lemmas.Scan
import Modbus.Lemmas.TcpHeader
/-
C09 — TCP extraction is sound.

Whenever `tcp::extract_frame`, `tcp::decode` (either direction) or one of the two TCP ADU decoders
returns a frame, it lies wholly inside the input at the reported location (`size = PDU length + 7`),
the protocol identifier there is 0, the MBAP length field equals PDU length + 1, and the returned
transaction id, unit id and PDU are exactly the header fields and bytes at that location.
Every statement is for every buffer (no length bound) and every claimed PDU length.
-/
namespace Modbus.C09

/-- the frame used in the satisfiability examples: transaction 0x0102, protocol 0, length 6,
unit 0x11, ReadCoils(1, 2) -/
def sampleFrame : Bytes := [0x01, 0x02, 0x00, 0x00, 0x00, 0x06, 0x11, 0x01, 0x00, 0x01, 0x00, 0x02]

/-- a big-endian word is zero only if both of its bytes are -/
theorem rd16_eq_zero (hi lo : UInt8) (h : rd16 hi lo = 0) : hi = 0 ∧ lo = 0 := by
  have h1 : (rd16 hi lo).toNat = 0 := by rw [h]; rfl
  rw [rd16_toNat] at h1
  constructor
  · apply UInt8.toNat_inj.1; show hi.toNat = 0; omega
  · apply UInt8.toNat_inj.1; show lo.toNat = 0; omega

/-- **extraction is sound**: a frame returned for a claimed PDU length `n` is the `n + 7` bytes at the
front of the buffer: transaction id (bytes 0–1), protocol id 0 (bytes 2–3), length field `n + 1`
(bytes 4–5), unit id (byte 6) and `n` PDU bytes. -/
theorem tcp_extract_sound (buf : Bytes) (n : Nat) (f : Tcp.Frame)
    (h : Tcp.extractFrame buf n = .ok (some f)) :
    ∃ _hl : n + 7 ≤ buf.length,
      buf[2] = 0 ∧ buf[3] = 0 ∧ (rd16 buf[4] buf[5]).toNat = n + 1 ∧
      f.transactionId = rd16 buf[0] buf[1] ∧ f.unitId = buf[6] ∧
      f.pdu = (buf.drop 7).take n ∧ f.pdu.length = n := by
  obtain ⟨hl7, hp, hlen, rfl⟩ := Tcp.extractFrame_some h
  have hl : n + 7 ≤ buf.length := by omega
  obtain ⟨p2, p3⟩ := (Tcp.checkProtocolId_eq_ok_iff buf).1 hp (by omega)
  have h45 := (Tcp.checkLengthField_eq_ok_iff buf n).1 hlen (by omega)
  refine ⟨hl, p2, p3, h45, rfl, rfl, rfl, ?_⟩
  simp only [List.length_take, List.length_drop]; omega

example : Tcp.extractFrame sampleFrame 5 = .ok (some ⟨0x0102, 0x11, [0x01, 0x00, 0x01, 0x00, 0x02]⟩) := by
  decide +kernel

/-! ### the header is verified before the size test (repair of `tcp::extract_frame`) -/

/-- **the visible header decides first**: for a non-empty buffer and a claimed PDU length without
overflow,

* a visible protocol identifier (four bytes present) that is not 0 is an error — also when the buffer
  is shorter than the ADU (`buf.length < 7 + n`; before the repair the answer then was 'incomplete');
* with protocol identifier 0, a visible length field (six bytes present) other than `n + 1` is an error —
  also when the buffer is shorter than the ADU;
* the answer is 'incomplete' **exactly** when the visible part of the header is consistent (protocol
  identifier 0 if four bytes are there, length field `n + 1` if six are) and the buffer is shorter than
  `7 + n`. -/
theorem tcp_extract_header_first (buf : Bytes) (n : Nat) (hne : buf ≠ []) (hn : 7 + n < usizeLimit) :
    (∀ _h4 : 4 ≤ buf.length, ¬ (buf[2] = 0 ∧ buf[3] = 0) →
      Tcp.extractFrame buf n = .err (.protocolNotModbus (rd16 buf[2] buf[3]))) ∧
    (∀ _h6 : 6 ≤ buf.length, buf[2] = 0 → buf[3] = 0 → (rd16 buf[4] buf[5]).toNat ≠ n + 1 →
      Tcp.extractFrame buf n = .err (.lengthMismatch (rd16 buf[4] buf[5]).toNat (n + 1))) ∧
    (Tcp.extractFrame buf n = .ok none ↔
      (∀ _h4 : 4 ≤ buf.length, buf[2] = 0 ∧ buf[3] = 0) ∧
      (∀ _h6 : 6 ≤ buf.length, (rd16 buf[4] buf[5]).toNat = n + 1) ∧ buf.length < 7 + n) := by
  refine ⟨?_, ?_, ?_⟩
  · intro h4 hb
    exact Tcp.extractFrame_proto_err hne hn (Tcp.checkProtocolId_bad h4 hb)
  · intro h6 h2 h3 hl
    exact Tcp.extractFrame_len_err hne hn (Tcp.checkProtocolId_good (by omega) h2 h3)
      (Tcp.checkLengthField_bad n h6 hl)
  · rw [← Tcp.checkProtocolId_eq_ok_iff, ← Tcp.checkLengthField_eq_ok_iff]
    constructor
    · intro h
      rw [Tcp.extractFrame_eq hne hn] at h
      rcases Tcp.checkProtocolId_cases buf with hp | ⟨_, _, hp⟩
      · rw [hp, Res.bind'_ok] at h
        rcases Tcp.checkLengthField_cases buf n with hl | ⟨_, _, hl⟩
        · rw [hl, Res.bind'_ok] at h
          refine ⟨hp, hl, ?_⟩
          by_cases hlen : buf.length ≥ 7 + n
          · rw [dif_pos hlen] at h; simp at h
          · omega
        · rw [hl] at h; cases h
      · rw [hp] at h; cases h
    · rintro ⟨hp, hl, hlt⟩
      exact Tcp.extractFrame_short hne hn hp hl hlt

/-- instances: eight bytes of a 12-byte candidate; protocol identifier 0x0001 / length field 7 / consistent -/
example : Tcp.extractFrame ((sampleFrame.set 3 0x01).take 8) 5 = .err (.protocolNotModbus 1) ∧
    Tcp.extractFrame ((sampleFrame.set 5 0x07).take 8) 5 = .err (.lengthMismatch 7 6) ∧
    Tcp.extractFrame (sampleFrame.take 8) 5 = .ok none ∧
    Tcp.extractFrame (sampleFrame.take 3) 5 = .ok none := by decide +kernel
example : Tcp.extractFrame ((sampleFrame.set 3 0x01).take 8) 5
    = .err (.protocolNotModbus (rd16 ((sampleFrame.set 3 0x01).take 8)[2] ((sampleFrame.set 3 0x01).take 8)[3])) :=
  (tcp_extract_header_first ((sampleFrame.set 3 0x01).take 8) 5 (by decide) (by decide)).1 (by decide) (by decide)

/-- the same with optional indexing instead of bound proofs -/
theorem tcp_extract_sound' (buf : Bytes) (n : Nat) (f : Tcp.Frame)
    (h : Tcp.extractFrame buf n = .ok (some f)) :
    n + 7 ≤ buf.length ∧ buf[2]? = some 0 ∧ buf[3]? = some 0 ∧
    (∃ l1 l0, buf[4]? = some l1 ∧ buf[5]? = some l0 ∧ l1.toNat * 256 + l0.toNat = n + 1) ∧
    (∃ t1 t0, buf[0]? = some t1 ∧ buf[1]? = some t0 ∧ f.transactionId = rd16 t1 t0) ∧
    buf[6]? = some f.unitId ∧ f.pdu = (buf.drop 7).take n ∧ f.pdu.length = n := by
  obtain ⟨hl, h2, h3, h45, ht, hu, hp, hpl⟩ := tcp_extract_sound buf n f h
  refine ⟨hl, ?_, ?_, ⟨buf[4], buf[5], ?_, ?_, ?_⟩, ⟨buf[0], buf[1], ?_, ?_, ht⟩, ?_, hp, hpl⟩
  · rw [← h2]; exact List.getElem?_eq_getElem _
  · rw [← h3]; exact List.getElem?_eq_getElem _
  · exact List.getElem?_eq_getElem _
  · exact List.getElem?_eq_getElem _
  · rw [← rd16_toNat]; exact h45
  · exact List.getElem?_eq_getElem _
  · exact List.getElem?_eq_getElem _
  · rw [hu]; exact List.getElem?_eq_getElem _

/-- the claimed length can be read back from the frame -/
theorem tcp_extract_len (buf : Bytes) (n : Nat) (f : Tcp.Frame)
    (h : Tcp.extractFrame buf n = .ok (some f)) : f.pdu.length = n := by
  obtain ⟨_, _, _, _, _, _, _, hpl⟩ := tcp_extract_sound buf n f h
  exact hpl

/-- both attempts return only what `extractFrame` returned, with `size = PDU length + 7` -/
theorem tcp_attemptReq_sound (raw : Bytes) (f : Tcp.Frame) (sz : Nat)
    (h : Tcp.attemptReq raw = .ok (some (f, sz))) :
    sz = f.pdu.length + 7 ∧ Tcp.extractFrame raw f.pdu.length = .ok (some f) := by
  obtain ⟨n, _, he, hs⟩ := mkAttempt_some _ _ _ _ _ _ h
  have hn := tcp_extract_len raw n f he
  subst hn
  exact ⟨hs, he⟩

theorem tcp_attemptRsp_sound (raw : Bytes) (f : Tcp.Frame) (sz : Nat)
    (h : Tcp.attemptRsp raw = .ok (some (f, sz))) :
    sz = f.pdu.length + 7 ∧ Tcp.extractFrame raw f.pdu.length = .ok (some f) := by
  obtain ⟨n, _, he, hs⟩ := mkAttempt_some _ _ _ _ _ _ h
  have hn := tcp_extract_len raw n f he
  subst hn
  exact ⟨hs, he⟩

example : Tcp.attemptReq sampleFrame
    = .ok (some (⟨0x0102, 0x11, [0x01, 0x00, 0x01, 0x00, 0x02]⟩, 12)) := by decide +kernel

/-- The location facts for any scanner whose attempt only returns what `extractFrame` returned. -/
theorem tcp_scan_sound_of (att : Attempt Tcp.Frame)
    (hatt : ∀ raw f sz, att raw = .ok (some (f, sz)) →
      sz = f.pdu.length + 7 ∧ Tcp.extractFrame raw f.pdu.length = .ok (some f))
    (buf : Bytes) (f : Tcp.Frame) (loc : Loc) (h : scan att buf = .ok (some (f, loc))) :
    loc.start < 256 ∧ loc.start + loc.size ≤ buf.length ∧ loc.size = f.pdu.length + 7 ∧
    ∃ _hl : loc.start + f.pdu.length + 7 ≤ buf.length,
      buf[loc.start + 2] = 0 ∧ buf[loc.start + 3] = 0 ∧
      (rd16 buf[loc.start + 4] buf[loc.start + 5]).toNat = f.pdu.length + 1 ∧
      f.transactionId = rd16 buf[loc.start] buf[loc.start + 1] ∧
      f.unitId = buf[loc.start + 6] ∧
      f.pdu = (buf.drop (loc.start + 7)).take f.pdu.length := by
  obtain ⟨h1, _, h3, _⟩ := scan_no_later att buf f loc h
  obtain ⟨hsz, hex⟩ := hatt _ _ _ h3
  obtain ⟨hl, e2, e3, e45, et, eu, ep, _⟩ := tcp_extract_sound _ _ _ hex
  rw [List.length_drop] at hl
  have hl' : loc.start + f.pdu.length + 7 ≤ buf.length := by omega
  simp only [List.getElem_drop] at e2 e3 e45 et eu
  refine ⟨h1, by omega, hsz, hl', e2, e3, e45, ?_, eu, ?_⟩
  · rw [et]; rfl
  · rw [List.drop_drop] at ep; exact ep

/-- **scanning is sound, request direction**: a frame reported by `tcp::decode(Request, buf)` lies
inside the input at the reported location, `size = PDU length + 7`, protocol id 0 and length field
`PDU length + 1` there, and transaction id, unit id, PDU are the bytes at that location. -/
theorem tcp_scan_sound_req (buf : Bytes) (f : Tcp.Frame) (loc : Loc)
    (h : Tcp.decodeReq buf = .ok (some (f, loc))) :
    loc.start < 256 ∧ loc.start + loc.size ≤ buf.length ∧ loc.size = f.pdu.length + 7 ∧
    ∃ _hl : loc.start + f.pdu.length + 7 ≤ buf.length,
      buf[loc.start + 2] = 0 ∧ buf[loc.start + 3] = 0 ∧
      (rd16 buf[loc.start + 4] buf[loc.start + 5]).toNat = f.pdu.length + 1 ∧
      f.transactionId = rd16 buf[loc.start] buf[loc.start + 1] ∧
      f.unitId = buf[loc.start + 6] ∧
      f.pdu = (buf.drop (loc.start + 7)).take f.pdu.length :=
  tcp_scan_sound_of Tcp.attemptReq tcp_attemptReq_sound buf f loc h

/-- **scanning is sound, response direction** -/
theorem tcp_scan_sound_rsp (buf : Bytes) (f : Tcp.Frame) (loc : Loc)
    (h : Tcp.decodeRsp buf = .ok (some (f, loc))) :
    loc.start < 256 ∧ loc.start + loc.size ≤ buf.length ∧ loc.size = f.pdu.length + 7 ∧
    ∃ _hl : loc.start + f.pdu.length + 7 ≤ buf.length,
      buf[loc.start + 2] = 0 ∧ buf[loc.start + 3] = 0 ∧
      (rd16 buf[loc.start + 4] buf[loc.start + 5]).toNat = f.pdu.length + 1 ∧
      f.transactionId = rd16 buf[loc.start] buf[loc.start + 1] ∧
      f.unitId = buf[loc.start + 6] ∧
      f.pdu = (buf.drop (loc.start + 7)).take f.pdu.length :=
  tcp_scan_sound_of Tcp.attemptRsp tcp_attemptRsp_sound buf f loc h

/-- the same, phrased about the buffer with the first `loc.start` bytes dropped -/
theorem tcp_scan_extract_req (buf : Bytes) (f : Tcp.Frame) (loc : Loc)
    (h : Tcp.decodeReq buf = .ok (some (f, loc))) :
    Tcp.extractFrame (buf.drop loc.start) f.pdu.length = .ok (some f) :=
  (tcp_attemptReq_sound _ _ _ (scan_no_later _ buf f loc h).2.2.1).2

theorem tcp_scan_extract_rsp (buf : Bytes) (f : Tcp.Frame) (loc : Loc)
    (h : Tcp.decodeRsp buf = .ok (some (f, loc))) :
    Tcp.extractFrame (buf.drop loc.start) f.pdu.length = .ok (some f) :=
  (tcp_attemptRsp_sound _ _ _ (scan_no_later _ buf f loc h).2.2.1).2

/-- two bytes of noise in front of the sample frame: found at start 2, size 12 (offsets 0 and 1 are
rejected because the protocol id read there is not 0) -/
example : Tcp.decodeReq ([0x42, 0x43] ++ sampleFrame)
    = .ok (some (⟨0x0102, 0x11, [0x01, 0x00, 0x01, 0x00, 0x02]⟩, ⟨2, 12⟩)) := by decide +kernel

example : Tcp.decodeRsp ([0x42] ++ [0x01, 0x02, 0x00, 0x00, 0x00, 0x04, 0x11, 0x01, 0x01, 0x05] ++ [0x00])
    = .ok (some (⟨0x0102, 0x11, [0x01, 0x01, 0x05]⟩, ⟨1, 10⟩)) := by decide +kernel

/-- **the property's contrapositives**: a non-zero protocol id, or a length field different from
PDU length + 1, at a location ⇒ no frame is reported at that location -/
theorem tcp_no_frame_bad_header_req (buf : Bytes) (f : Tcp.Frame) (loc : Loc)
    (hbad : (∀ p1 p0, buf[loc.start + 2]? = some p1 → buf[loc.start + 3]? = some p0 → ¬ (p1 = 0 ∧ p0 = 0)) ∨
      (∀ l1 l0, buf[loc.start + 4]? = some l1 → buf[loc.start + 5]? = some l0 →
        l1.toNat * 256 + l0.toNat + 6 ≠ loc.size)) :
    Tcp.decodeReq buf ≠ .ok (some (f, loc)) := by
  intro h
  obtain ⟨_, _, hsz, hl, e2, e3, e45, _⟩ := tcp_scan_sound_req buf f loc h
  rcases hbad with hb | hb
  · exact hb buf[loc.start + 2] buf[loc.start + 3] (List.getElem?_eq_getElem _)
      (List.getElem?_eq_getElem _) ⟨e2, e3⟩
  · refine hb buf[loc.start + 4] buf[loc.start + 5] (List.getElem?_eq_getElem _)
      (List.getElem?_eq_getElem _) ?_
    rw [← rd16_toNat, e45, hsz]

theorem tcp_no_frame_bad_header_rsp (buf : Bytes) (f : Tcp.Frame) (loc : Loc)
    (hbad : (∀ p1 p0, buf[loc.start + 2]? = some p1 → buf[loc.start + 3]? = some p0 → ¬ (p1 = 0 ∧ p0 = 0)) ∨
      (∀ l1 l0, buf[loc.start + 4]? = some l1 → buf[loc.start + 5]? = some l0 →
        l1.toNat * 256 + l0.toNat + 6 ≠ loc.size)) :
    Tcp.decodeRsp buf ≠ .ok (some (f, loc)) := by
  intro h
  obtain ⟨_, _, hsz, hl, e2, e3, e45, _⟩ := tcp_scan_sound_rsp buf f loc h
  rcases hbad with hb | hb
  · exact hb buf[loc.start + 2] buf[loc.start + 3] (List.getElem?_eq_getElem _)
      (List.getElem?_eq_getElem _) ⟨e2, e3⟩
  · refine hb buf[loc.start + 4] buf[loc.start + 5] (List.getElem?_eq_getElem _)
      (List.getElem?_eq_getElem _) ?_
    rw [← rd16_toNat, e45, hsz]

/-- the hypotheses on concrete buffers: protocol id 0x0001, and length field 7 for a 12-byte frame -/
example : ∀ p1 p0, (sampleFrame.set 3 0x01)[0 + 2]? = some p1 → (sampleFrame.set 3 0x01)[0 + 3]? = some p0 →
    ¬ (p1 = 0 ∧ p0 = 0) := by
  intro p1 p0 _ h3
  have : (sampleFrame.set 3 0x01)[0 + 3]? = some 0x01 := by decide +kernel
  rw [this] at h3
  have e := (Option.some.inj h3).symm
  subst e
  intro h
  exact absurd h.2 (by decide)

example : ∀ l1 l0, (sampleFrame.set 5 0x07)[0 + 4]? = some l1 → (sampleFrame.set 5 0x07)[0 + 5]? = some l0 →
    l1.toNat * 256 + l0.toNat + 6 ≠ 12 := by
  intro l1 l0 h4 h5
  have t4 : (sampleFrame.set 5 0x07)[0 + 4]? = some 0x00 := by decide +kernel
  have t5 : (sampleFrame.set 5 0x07)[0 + 5]? = some 0x07 := by decide +kernel
  rw [t4] at h4; rw [t5] at h5
  have e4 := (Option.some.inj h4).symm
  have e5 := (Option.some.inj h5).symm
  subst e4 e5
  decide

example : Tcp.decodeReq (sampleFrame.set 3 0x01) = .ok none := by decide +kernel
example : Tcp.decodeReq (sampleFrame.set 5 0x07) = .ok none := by decide +kernel

/-! ### The ADU decoders inherit soundness -/

/-- `tcp::server::decode_request` returns only what the scanner found -/
theorem tcp_decode_request_of_scan (buf : Bytes) (t : UInt16) (u : UInt8) (r : Request)
    (h : Tcp.decodeRequest buf = .ok (some (t, u, r))) :
    ∃ f loc, Tcp.decodeReq buf = .ok (some (f, loc)) ∧ f.transactionId = t ∧ f.unitId = u ∧
      Request.decode f.pdu = .ok r := by
  unfold Tcp.decodeRequest at h
  split at h
  · simp at h
  cases hd : Tcp.decodeReq buf with
  | ok a =>
    cases a with
    | none => simp [hd] at h
    | some p =>
      obtain ⟨f, loc⟩ := p
      rw [hd] at h
      simp only [Res.bind'_ok] at h
      cases hr : Request.decode f.pdu with
      | ok r' =>
        rw [hr] at h
        simp only [Res.map_ok, Res.ok.injEq, Option.some.injEq, Prod.mk.injEq] at h
        exact ⟨f, loc, rfl, h.1, h.2.1, by rw [hr, h.2.2]⟩
      | panic => simp [hr] at h
      | err e => simp [hr] at h
  | panic => simp [hd] at h
  | err e => simp [hd] at h

/-- `tcp::server::decode_response` returns only what the scanner found: header fields of the scanned
frame and its PDU decoded as an exception response, or — only when that fails with an error — as a
normal response -/
theorem tcp_decode_response_of_scan (buf : Bytes) (t : UInt16) (u : UInt8) (p : ResponsePdu)
    (h : Tcp.decodeResponse buf = .ok (some (t, u, p))) :
    ∃ f loc, Tcp.decodeRsp buf = .ok (some (f, loc)) ∧ f.transactionId = t ∧ f.unitId = u ∧
      ((∃ e, p = .error e ∧ ExceptionResponse.decode f.pdu = .ok e) ∨
       (∃ r, p = .ok r ∧ (ExceptionResponse.decode f.pdu).isErr = true ∧ Response.decode f.pdu = .ok r)) := by
  unfold Tcp.decodeResponse at h
  split at h
  · simp at h
  cases hd : Tcp.decodeRsp buf with
  | ok a =>
    cases a with
    | none => simp [hd] at h
    | some q =>
      obtain ⟨f, loc⟩ := q
      rw [hd] at h
      simp only [Res.bind'_ok] at h
      refine ⟨f, loc, rfl, ?_⟩
      cases hx : ExceptionResponse.decode f.pdu with
      | ok e =>
        rw [hx] at h
        simp only [Res.ok.injEq, Option.some.injEq, Prod.mk.injEq] at h
        exact ⟨h.1, h.2.1, Or.inl ⟨e, h.2.2.symm, rfl⟩⟩
      | panic => rw [hx] at h; simp at h
      | err e =>
        rw [hx] at h
        simp only at h
        cases hr : Response.decode f.pdu with
        | ok r' =>
          rw [hr] at h
          simp only [Res.map_ok, Res.ok.injEq, Option.some.injEq, Prod.mk.injEq] at h
          exact ⟨h.1, h.2.1, Or.inr ⟨r', h.2.2.symm, rfl, rfl⟩⟩
        | panic => simp [hr] at h
        | err e => simp [hr] at h
  | panic => simp [hd] at h
  | err e => simp [hd] at h

/-- **`tcp::server::decode_request` is sound in terms of the input bytes**: at some offset
`start < 256` there are `n + 7` bytes inside the input with protocol id 0 and length field `n + 1`;
the returned transaction id and unit id are the header fields there and the returned request is the
decoding of the `n` bytes after the header. -/
theorem tcp_decode_request_sound (buf : Bytes) (t : UInt16) (u : UInt8) (r : Request)
    (h : Tcp.decodeRequest buf = .ok (some (t, u, r))) :
    ∃ (start n : Nat) (_hl : start + n + 7 ≤ buf.length),
      start < 256 ∧ buf[start + 2] = 0 ∧ buf[start + 3] = 0 ∧
      (rd16 buf[start + 4] buf[start + 5]).toNat = n + 1 ∧
      t = rd16 buf[start] buf[start + 1] ∧ u = buf[start + 6] ∧
      Request.decode ((buf.drop (start + 7)).take n) = .ok r := by
  obtain ⟨f, loc, hd, ht, hu, hr⟩ := tcp_decode_request_of_scan buf t u r h
  obtain ⟨h1, _, _, hl, e2, e3, e45, et, eu, ep⟩ := tcp_scan_sound_req buf f loc hd
  exact ⟨loc.start, f.pdu.length, hl, h1, e2, e3, e45, by rw [← ht, et], by rw [← hu, eu],
    by rw [← ep]; exact hr⟩

/-- **`tcp::server::decode_response` is sound in terms of the input bytes** -/
theorem tcp_decode_response_sound (buf : Bytes) (t : UInt16) (u : UInt8) (p : ResponsePdu)
    (h : Tcp.decodeResponse buf = .ok (some (t, u, p))) :
    ∃ (start n : Nat) (_hl : start + n + 7 ≤ buf.length),
      start < 256 ∧ buf[start + 2] = 0 ∧ buf[start + 3] = 0 ∧
      (rd16 buf[start + 4] buf[start + 5]).toNat = n + 1 ∧
      t = rd16 buf[start] buf[start + 1] ∧ u = buf[start + 6] ∧
      ((∃ e, p = .error e ∧ ExceptionResponse.decode ((buf.drop (start + 7)).take n) = .ok e) ∨
       (∃ r, p = .ok r ∧ Response.decode ((buf.drop (start + 7)).take n) = .ok r)) := by
  obtain ⟨f, loc, hd, ht, hu, hr⟩ := tcp_decode_response_of_scan buf t u p h
  obtain ⟨h1, _, _, hl, e2, e3, e45, et, eu, ep⟩ := tcp_scan_sound_rsp buf f loc hd
  refine ⟨loc.start, f.pdu.length, hl, h1, e2, e3, e45, by rw [← ht, et], by rw [← hu, eu], ?_⟩
  rw [← ep]
  rcases hr with ⟨e, he1, he2⟩ | ⟨r, hr1, _, hr3⟩
  · exact Or.inl ⟨e, he1, he2⟩
  · exact Or.inr ⟨r, hr1, hr3⟩

example : Tcp.decodeRequest ([0x42, 0x43] ++ sampleFrame) = .ok (some (0x0102, 0x11, .readCoils 1 2)) := by
  decide +kernel

example : Tcp.decodeResponse ([0x42] ++ [0x01, 0x02, 0x00, 0x00, 0x00, 0x04, 0x11, 0x01, 0x01, 0x05])
    = .ok (some (0x0102, 0x11, .ok (.readCoils { data := [5], quantity := 8 }))) := by
  decide +kernel

example : Tcp.decodeResponse ([0x42] ++ [0x01, 0x02, 0x00, 0x00, 0x00, 0x03, 0x11, 0x81, 0x02])
    = .ok (some (0x0102, 0x11, .error { function := .readCoils, exception := .illegalDataAddress })) := by
  decide +kernel

end Modbus.C09

import Modbus.Lemmas.Predict
/-
C15 — the frame-length predictors agree with the specified PDU lengths.

`Spec.predict hdr dir buf` (Spec/Lengths.lean) is the predictor implied by the specification's
PDU-length table for an ADU whose PDU starts `hdr` bytes into the buffer; it mentions only
`buf.length`, the function-code byte `buf[hdr]` and the count byte(s) of the rule.  Each theorem
below is a statement about the model's predictor as a function of the WHOLE buffer, for every
buffer, so "the answer depends on no other byte" is part of the statement.

RTU requests are only partially in agreement: the 0x0F/0x10 arm reads ADU offset 4 instead of 6
(open finding D4, pinned by the crate's own test).  `rtu_req_len_eq_spec_partial` excludes exactly
these two codes; `rtu_req_len_defect` pins what the function does there, and
`rtu_req_len_defect_witness` is a buffer on which that differs from the specification.
-/
namespace Modbus.C15
open Spec Modbus.Predict

/-- a specified prediction as a model result (a rejected code is reported as error `e`) -/
def ofPred (e : Error) : Pred → Res (Option Nat)
  | .len n => .ok (some n)
  | .incomplete => .ok none
  | .reject => .err e

theorem ofPred_eq_predRes : ofPred = predRes := by
  funext e p; cases p <;> rfl

/-- "the model's answer is the specified one": a length for a length, incomplete for incomplete,
    an error (whichever) for a rejected code; a panic agrees with nothing -/
def Agrees : Res (Option Nat) → Pred → Prop
  | .ok (some n), .len m => n = m
  | .ok none, .incomplete => True
  | .err _, .reject => True
  | _, _ => False

theorem agrees_ofPred (e : Error) (p : Pred) : Agrees (ofPred e p) p := by
  cases p <;> simp [ofPred, Agrees]

/-- `Agrees r p` says exactly that `r` is the image of `p`, for some error value -/
theorem agrees_iff (r : Res (Option Nat)) (p : Pred) : Agrees r p ↔ ∃ e, r = ofPred e p := by
  constructor
  · intro h
    cases p with
    | len m =>
      match r, h with
      | .ok (some n), h => exact ⟨.bufferSize, by simp only [Agrees] at h; simp [ofPred, h]⟩
    | incomplete =>
      match r, h with
      | .ok none, _ => exact ⟨.bufferSize, rfl⟩
    | reject =>
      match r, h with
      | .err e, _ => exact ⟨e, rfl⟩
  · rintro ⟨e, rfl⟩; exact agrees_ofPred e p

/-! ### the four predictors -/

/-- RTU responses: exact equality, including which error is reported -/
theorem rtu_rsp_len_eq_spec' (buf : Bytes) :
    Rtu.responsePduLen buf = ofPred (.fnCode (buf[1]?.getD 0)) (predict 1 .rsp buf) := by
  rw [ofPred_eq_predRes]; exact Rtu.responsePduLen_eq_spec buf

/-- 1. `rtu::response_pdu_len` agrees with the specified predictor on every buffer -/
theorem rtu_rsp_len_eq_spec (buf : Bytes) :
    Agrees (Rtu.responsePduLen buf) (predict 1 .rsp buf) := by
  rw [rtu_rsp_len_eq_spec']; exact agrees_ofPred _ _

theorem tcp_rsp_len_eq_spec' (buf : Bytes) :
    Tcp.responsePduLen buf = ofPred (.fnCode (buf[7]?.getD 0)) (predict 7 .rsp buf) := by
  rw [ofPred_eq_predRes]; exact Tcp.responsePduLen_eq_spec buf

/-- 2. `tcp::response_pdu_len` agrees with the specified predictor on every buffer -/
theorem tcp_rsp_len_eq_spec (buf : Bytes) :
    Agrees (Tcp.responsePduLen buf) (predict 7 .rsp buf) := by
  rw [tcp_rsp_len_eq_spec']; exact agrees_ofPred _ _

theorem tcp_req_len_eq_spec' (buf : Bytes) :
    Tcp.requestPduLen buf = ofPred (.fnCode (buf[7]?.getD 0)) (predict 7 .req buf) := by
  rw [ofPred_eq_predRes]; exact Tcp.requestPduLen_eq_spec buf

/-- 3. `tcp::request_pdu_len` agrees with the specified predictor on every buffer -/
theorem tcp_req_len_eq_spec (buf : Bytes) :
    Agrees (Tcp.requestPduLen buf) (predict 7 .req buf) := by
  rw [tcp_req_len_eq_spec']; exact agrees_ofPred _ _

/- Full statement (false for the unedited crate, finding D4):
     `rtu_req_len_eq_spec : ∀ buf, Agrees (Rtu.requestPduLen buf) (predict 1 .req buf)`.
   Missing: the two function codes 0x0F and 0x10, where the crate reads the wrong byte; see
   `rtu_req_len_defect` and `rtu_req_len_defect_witness`. -/

theorem rtu_req_len_eq_spec_partial' (buf : Bytes)
    (h : buf[1]? ≠ some 0x0F ∧ buf[1]? ≠ some 0x10) :
    Rtu.requestPduLen buf = ofPred (.fnCode (buf[1]?.getD 0)) (predict 1 .req buf) := by
  rw [ofPred_eq_predRes]; exact Rtu.requestPduLen_eq_spec_of_ne buf h

/-- 4. `rtu::request_pdu_len` agrees with the specified predictor on every buffer whose function
    code is not 0x0F or 0x10 -/
theorem rtu_req_len_eq_spec_partial (buf : Bytes)
    (h : buf[1]? ≠ some 0x0F ∧ buf[1]? ≠ some 0x10) :
    Agrees (Rtu.requestPduLen buf) (predict 1 .req buf) := by
  rw [rtu_req_len_eq_spec_partial' buf h]; exact agrees_ofPred _ _

/-- the hypothesis of 4. is satisfiable non-trivially: a read-write-multiple request (0x17) with
    write byte count 4 is predicted as 14 bytes, from the specification and from the model -/
example :
    let buf : Bytes := [0x11, 0x17, 0, 1, 0, 2, 0, 3, 0, 2, 4, 9, 9, 9, 9]
    (buf[1]? ≠ some 0x0F ∧ buf[1]? ≠ some 0x10) ∧ predict 1 .req buf = .len 14 ∧
      Rtu.requestPduLen buf = .ok (some 14) := by decide +kernel

/-- 5. what `rtu::request_pdu_len` does for 0x0F/0x10 (finding D4): it adds the byte at ADU
    offset 4 (the high byte of the quantity) as soon as five bytes are there -/
theorem rtu_req_len_defect (buf : Bytes) (h : buf[1]? = some 0x0F ∨ buf[1]? = some 0x10) :
    Rtu.requestPduLen buf =
      (match buf[4]? with
       | some c => .ok (some (6 + c.toNat))
       | none => .ok none) := by
  have hl : ¬ buf.length < 2 := by
    intro hlt
    have : buf[1]? = none := List.getElem?_eq_none (by omega)
    rw [this] at h; cases h <;> contradiction
  have hlt : 1 < buf.length := by omega
  rw [Rtu.requestPduLen_eq, if_neg hl, idx_eq_ok hlt]
  simp only [Res.bind'_ok]
  rw [List.getElem?_eq_getElem hlt] at h
  have hfc : buf[1] = 0x0F ∨ buf[1] = 0x10 := by
    cases h with
    | inl h => exact .inl (Option.some.inj h)
    | inr h => exact .inr (Option.some.inj h)
  rw [reqBody_eq]
  have : reqClass 3 buf[1] = .count1 6 3 := by
    cases hfc with
    | inl h => rw [h]; decide
    | inr h => rw [h]; decide
  rw [this]; rfl

/-- the same in the "guard, then index" form of the Rust source -/
theorem rtu_req_len_defect' (buf : Bytes) (h : buf[1]? = some 0x0F ∨ buf[1]? = some 0x10) :
    Rtu.requestPduLen buf =
      (if hl : buf.length > 4 then .ok (some (6 + buf[4].toNat)) else .ok none) := by
  rw [rtu_req_len_defect buf h]
  by_cases hl : buf.length > 4
  · rw [dif_pos hl, List.getElem?_eq_getElem hl]
  · rw [dif_neg hl, List.getElem?_eq_none (by omega)]

/-- a complete write-multiple-registers request (two registers: quantity 2, byte count 4, PDU of
    10 bytes) on which the model's answer (6 + high quantity byte = 6) is not the specified one (10) -/
def defectBuf : Bytes := [0x11, 0x10, 0x00, 0x01, 0x00, 0x02, 0x04, 0xAA, 0xBB, 0xCC, 0xDD, 0x12, 0x34]

theorem rtu_req_len_defect_witness :
    defectBuf.length = 13 ∧ predict 1 .req defectBuf = .len 10 ∧
      Rtu.requestPduLen defectBuf = .ok (some 6) ∧
      ¬ Agrees (Rtu.requestPduLen defectBuf) (predict 1 .req defectBuf) := by
  have h1 : predict 1 .req defectBuf = .len 10 := by decide +kernel
  have h2 : Rtu.requestPduLen defectBuf = .ok (some 6) := by decide +kernel
  refine ⟨rfl, h1, h2, ?_⟩
  rw [h1, h2]
  simp [Agrees]

/-! ### worked instances -/

/-- a read-holding-registers response with byte count 4 is predicted as a 6-byte PDU … -/
example : predict 1 .rsp [0x11, 0x03, 0x04, 1, 2, 3, 4] = .len 6 ∧
    Rtu.responsePduLen [0x11, 0x03, 0x04, 1, 2, 3, 4] = .ok (some 6) := by decide +kernel

/-- … and its two-byte prefix is incomplete (the byte count is not there yet) -/
example : predict 1 .rsp [0x11, 0x03] = .incomplete ∧
    Rtu.responsePduLen [0x11, 0x03] = .ok none := by decide +kernel

/-- an unknown function code is rejected -/
example : predict 7 .req [0, 1, 0, 0, 0, 6, 0x11, 0x2B, 0, 0] = .reject ∧
    Tcp.requestPduLen [0, 1, 0, 0, 0, 6, 0x11, 0x2B, 0, 0] = .err (.fnCode 0x2B) := by decide +kernel

/-- the PDU offsets (besides 0, the function code) a rule reads -/
def countOffsets : LenRule → List Nat
  | .fixed _ => []
  | .count1 _ off => [off]
  | .count2 _ off => [off, off + 1]
  | .unknown => []

/-- The specified predictor depends on no byte other than the function code and the count byte(s)
    of that code's rule (and on the length): two buffers that agree there get the same prediction. -/
theorem predict_depends_only (hdr : Nat) (d : Dir) (a b : Bytes)
    (hl : a.length = b.length) (hfc : a[hdr]? = b[hdr]?)
    (hc : ∀ fc, a[hdr]? = some fc → ∀ o ∈ countOffsets (lenRule d fc.toNat), a[hdr + o]? = b[hdr + o]?) :
    predict hdr d a = predict hdr d b := by
  unfold predict
  rw [hl, ← hfc]
  cases h : a[hdr]? with
  | none => rfl
  | some fc =>
    simp only
    have hc := hc fc h
    cases hr : lenRule d fc.toNat with
    | fixed n => rfl
    | count1 base off =>
      rw [hr] at hc
      simp only [countOffsets, List.mem_singleton, forall_eq] at hc
      simp only [hc]
    | count2 base off =>
      rw [hr] at hc
      simp only [countOffsets, List.mem_cons, List.not_mem_nil, or_false, forall_eq_or_imp, forall_eq] at hc
      have h2 : a[hdr + off + 1]? = b[hdr + off + 1]? := by
        have := hc.2; rwa [← Nat.add_assoc] at this
      simp only [hc.1, h2]
    | unknown => rfl

/-- hence so does the model's predictor (RTU responses shown; the other three are the same with
    theorems 2.–4.): changing any byte other than the function code and its count byte(s) leaves
    the answer unchanged -/
theorem rtu_rsp_len_depends_only (a b : Bytes)
    (hl : a.length = b.length) (hfc : a[1]? = b[1]?)
    (hc : ∀ fc, a[1]? = some fc → ∀ o ∈ countOffsets (lenRule .rsp fc.toNat), a[1 + o]? = b[1 + o]?) :
    Rtu.responsePduLen a = Rtu.responsePduLen b := by
  rw [rtu_rsp_len_eq_spec', rtu_rsp_len_eq_spec', hfc, predict_depends_only 1 .rsp a b hl hfc hc]

theorem tcp_rsp_len_depends_only (a b : Bytes)
    (hl : a.length = b.length) (hfc : a[7]? = b[7]?)
    (hc : ∀ fc, a[7]? = some fc → ∀ o ∈ countOffsets (lenRule .rsp fc.toNat), a[7 + o]? = b[7 + o]?) :
    Tcp.responsePduLen a = Tcp.responsePduLen b := by
  rw [tcp_rsp_len_eq_spec', tcp_rsp_len_eq_spec', hfc, predict_depends_only 7 .rsp a b hl hfc hc]

theorem tcp_req_len_depends_only (a b : Bytes)
    (hl : a.length = b.length) (hfc : a[7]? = b[7]?)
    (hc : ∀ fc, a[7]? = some fc → ∀ o ∈ countOffsets (lenRule .req fc.toNat), a[7 + o]? = b[7 + o]?) :
    Tcp.requestPduLen a = Tcp.requestPduLen b := by
  rw [tcp_req_len_eq_spec', tcp_req_len_eq_spec', hfc, predict_depends_only 7 .req a b hl hfc hc]

/-- RTU requests, the part that agrees with the specification (function code not 0x0F / 0x10, open
    finding D4): two buffers of equal length with the same function-code byte and the same count byte
    at the position the SPECIFICATION names get the same answer -/
theorem rtu_req_len_depends_only_partial (a b : Bytes)
    (hl : a.length = b.length) (hfc : a[1]? = b[1]?)
    (hd4 : a[1]? ≠ some 0x0F ∧ a[1]? ≠ some 0x10)
    (hc : ∀ fc, a[1]? = some fc → ∀ o ∈ countOffsets (lenRule .req fc.toNat), a[1 + o]? = b[1 + o]?) :
    Rtu.requestPduLen a = Rtu.requestPduLen b := by
  rw [rtu_req_len_eq_spec_partial' a hd4, rtu_req_len_eq_spec_partial' b (hfc ▸ hd4), hfc,
    predict_depends_only 1 .req a b hl hfc hc]

/-- instance: a read-write-multiple request (0x17): only the length, byte 1 and byte 10 matter -/
example : Rtu.requestPduLen [0x11, 0x17, 0, 1, 0, 2, 0, 3, 0, 2, 4, 9, 9, 9, 9]
    = Rtu.requestPduLen [0x77, 0x17, 5, 5, 5, 5, 5, 5, 5, 5, 4, 1, 2, 3, 4] := by
  apply rtu_req_len_depends_only_partial
  · rfl
  · rfl
  · decide
  · intro fc h o ho
    have : fc = 0x17 := by simpa using h.symm
    subst this
    have : o = 9 := by simpa [countOffsets, lenRule] using ho
    subst this; rfl

/-- the request rules with a count byte: 0x0F / 0x10 (PDU offset 5) and 0x17 (PDU offset 9); every
    other code's rule reads nothing beyond the function code (all 256 codes) -/
theorem req_countOffsets (fc : UInt8) :
    countOffsets (lenRule .req fc.toNat) =
      if fc = 0x0F ∨ fc = 0x10 then [5] else if fc = 0x17 then [9] else [] := by
  revert fc
  apply byte_cases
  decide +kernel

/-- RTU requests AS BUILT, for ALL function codes (including the defective 0x0F / 0x10 arm): the answer
    of `rtu::request_pdu_len` depends only on the buffer's length, on byte 1 (the function code), on
    byte 4 when the code is 0x0F or 0x10 (the defective offset of open finding D4 — the specification
    names byte 6), and on byte 10 when the code is 0x17.  No other byte is read. -/
theorem rtu_req_len_depends_only_asbuilt (a b : Bytes)
    (hl : a.length = b.length) (hfc : a[1]? = b[1]?)
    (h4 : a[1]? = some 0x0F ∨ a[1]? = some 0x10 → a[4]? = b[4]?)
    (h10 : a[1]? = some 0x17 → a[10]? = b[10]?) :
    Rtu.requestPduLen a = Rtu.requestPduLen b := by
  by_cases hd : a[1]? = some 0x0F ∨ a[1]? = some 0x10
  · rw [rtu_req_len_defect a hd, rtu_req_len_defect b (hfc ▸ hd), h4 hd]
  · have hd4 : a[1]? ≠ some 0x0F ∧ a[1]? ≠ some 0x10 := ⟨fun h => hd (.inl h), fun h => hd (.inr h)⟩
    apply rtu_req_len_depends_only_partial a b hl hfc hd4
    intro fc hfc' o ho
    rw [req_countOffsets] at ho
    have hne : ¬ (fc = 0x0F ∨ fc = 0x10) := by
      intro h
      rcases h with h | h
      · exact hd4.1 (by rw [hfc', h])
      · exact hd4.2 (by rw [hfc', h])
    rw [if_neg hne] at ho
    by_cases h17 : fc = 0x17
    · rw [if_pos h17] at ho
      have : o = 9 := by simpa using ho
      subst this
      exact h10 (by rw [hfc', h17])
    · rw [if_neg h17] at ho
      cases ho

/-- instance on the defective arm: two write-multiple-registers frames that differ in the byte count
    (byte 6, which the specification says decides) but agree in byte 4 get the SAME answer … -/
example : Rtu.requestPduLen [0x11, 0x10, 0x00, 0x01, 0x00, 0x02, 0x04, 0xAA, 0xBB, 0xCC, 0xDD, 0x12, 0x34]
    = Rtu.requestPduLen [0x22, 0x10, 0x99, 0x99, 0x00, 0x7B, 0xF6, 1, 2, 3, 4, 5, 6] := by
  apply rtu_req_len_depends_only_asbuilt
  · rfl
  · rfl
  · intro _; rfl
  · intro h; cases h

/-- … and the hypothesis on byte 4 cannot be dropped: these two differ only there -/
example : Rtu.requestPduLen [0x11, 0x10, 0x00, 0x01, 0x00, 0x02, 0x04] = .ok (some 6) ∧
    Rtu.requestPduLen [0x11, 0x10, 0x00, 0x01, 0x01, 0x02, 0x04] = .ok (some 7) := by decide +kernel

/-- instance: a read-holding-registers response; only bytes 1 and 2 matter -/
example : Rtu.responsePduLen [0x11, 0x03, 0x04, 1, 2, 3, 4] = Rtu.responsePduLen [0x77, 0x03, 0x04, 9, 8, 7, 6] := by
  apply rtu_rsp_len_depends_only
  · rfl
  · rfl
  · intro fc h o ho
    have : fc = 0x03 := by simpa using h.symm
    subst this
    have : o = 1 := by simpa [countOffsets, lenRule] using ho
    subst this; rfl

end Modbus.C15

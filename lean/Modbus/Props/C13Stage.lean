import Modbus.Props.C07Dead
import Modbus.Lemmas.ReqCodec
/-
C13 (stage) — the REQUEST side of "what can the PDU stage still refuse after framing succeeded".

Unlike the response side (`C07Dead`, where the PDU stage is dead after framing), `Request::try_from` can
refuse a PDU that the request scanner has framed.  This file gives the exact list of the ways:

* TCP (`StageErr`): an illegal coil value of 0x05; a Write Multiple Coils quantity above 2040; a byte count
  of 0x10 / 0x17 that is not twice the register quantity.  Nothing else, and never a panic.
* RTU (`StageErrRtu`): the same for 0x05 and 0x17; for 0x0F / 0x10 the predictor reads the high byte of the
  quantity instead of the byte count (pinned defect D4), so the framed PDU carries as many data bytes as
  the high quantity byte says, and the byte-count field may ALSO exceed the data present.
-/
namespace Modbus.C13Stage
open C07Dead

/-! ### the request length predictor as a function of the function-code byte and the bytes after it;
`off` is where (counted after the function code) the 0x0F/0x10 arm looks for the byte count:
4 for TCP (the byte count), 2 for RTU (the high byte of the quantity, defect D4) -/

def predReq (off : Nat) (fc : UInt8) (rest : Bytes) : Res (Option Nat) :=
  if 0x01 ≤ fc ∧ fc ≤ 0x06 then .ok (some 5)
  else if fc = 0x07 ∨ fc = 0x0B ∨ fc = 0x0C ∨ fc = 0x11 then .ok (some 1)
  else if fc = 0x0F ∨ fc = 0x10 then
    if rest.length > off then (idx rest off).bind fun c => .ok (some (6 + c.toNat)) else .ok none
  else if fc = 0x16 then .ok (some 7)
  else if fc = 0x18 then .ok (some 3)
  else if fc = 0x17 then
    if rest.length > 8 then (idx rest 8).bind fun c => .ok (some (10 + c.toNat)) else .ok none
  else .err (.fnCode fc)

theorem tcp_predReq_eq (a0 a1 a2 a3 a4 a5 a6 fc : UInt8) (rest : Bytes) :
    Tcp.requestPduLen (a0 :: a1 :: a2 :: a3 :: a4 :: a5 :: a6 :: fc :: rest) = predReq 4 fc rest := by
  have h1 : ¬ ((a0 :: a1 :: a2 :: a3 :: a4 :: a5 :: a6 :: fc :: rest).length < 8) := by
    simp only [List.length_cons]; omega
  have h2 : ((a0 :: a1 :: a2 :: a3 :: a4 :: a5 :: a6 :: fc :: rest).length > 12) = (rest.length > 4) := by
    simp only [List.length_cons]; apply propext; omega
  have h3 : ((a0 :: a1 :: a2 :: a3 :: a4 :: a5 :: a6 :: fc :: rest).length > 16) = (rest.length > 8) := by
    simp only [List.length_cons]; apply propext; omega
  have i1 : idx (a0 :: a1 :: a2 :: a3 :: a4 :: a5 :: a6 :: fc :: rest) 7 = .ok fc := rfl
  have i2 : idx (a0 :: a1 :: a2 :: a3 :: a4 :: a5 :: a6 :: fc :: rest) 12 = idx rest 4 := rfl
  have i3 : idx (a0 :: a1 :: a2 :: a3 :: a4 :: a5 :: a6 :: fc :: rest) 16 = idx rest 8 := rfl
  unfold Tcp.requestPduLen predReq
  rw [if_neg h1, i1, Res.bind'_ok, i2, i3]
  simp only [h2, h3]

theorem rtu_predReq_eq (s fc : UInt8) (rest : Bytes) :
    Rtu.requestPduLen (s :: fc :: rest) = predReq 2 fc rest := by
  have h1 : ¬ ((s :: fc :: rest).length < 2) := by simp only [List.length_cons]; omega
  have h2 : ((s :: fc :: rest).length > 4) = (rest.length > 2) := by
    simp only [List.length_cons]; apply propext; omega
  have h3 : ((s :: fc :: rest).length > 10) = (rest.length > 8) := by
    simp only [List.length_cons]; apply propext; omega
  have i1 : idx (s :: fc :: rest) 1 = .ok fc := rfl
  have i2 : idx (s :: fc :: rest) 4 = idx rest 2 := rfl
  have i3 : idx (s :: fc :: rest) 10 = idx rest 8 := rfl
  unfold Rtu.requestPduLen predReq
  rw [if_neg h1, i1, Res.bind'_ok, i2, i3]
  simp only [h2, h3]

/-! ### the refusals of `Request::try_from` on the three counted layouts -/

theorem decode_wmc_bad (h1 l1 h2 l2 bc : UInt8) (data : Bytes)
    (h : data.length < bc.toNat ∨ 255 < packedCoilsLen (rd16 h2 l2).toNat) :
    Request.decode (0x0F :: h1 :: l1 :: h2 :: l2 :: bc :: data) = .err (.byteCount bc) := by
  have e1 : ¬ (data.length + 1 + 1 + 1 + 1 + 1 + 1 < 6) := by omega
  rcases h with h | h
  · have e2 : data.length + 1 + 1 + 1 + 1 + 1 + 1 < 6 + bc.toNat := by omega
    simp [Request.decode, idx, read16, C18.new_standard, minRequestPduLen, e1, e2]
  · exact Request.decode_writeMultipleCoils_big h1 l1 h2 l2 bc data h

theorem decode_wmr_bad (h1 l1 h2 l2 bc : UInt8) (data : Bytes)
    (h : data.length < bc.toNat ∨ bc.toNat ≠ (rd16 h2 l2).toNat * 2) :
    Request.decode (0x10 :: h1 :: l1 :: h2 :: l2 :: bc :: data) = .err (.byteCount bc) := by
  have e1 : ¬ (data.length + 1 + 1 + 1 + 1 + 1 + 1 < 6) := by omega
  rcases h with h | h
  · have e2 : data.length + 1 + 1 + 1 + 1 + 1 + 1 < 6 + bc.toNat := by omega
    simp [Request.decode, idx, read16, C18.new_standard, minRequestPduLen, e1, e2]
  · simp [Request.decode, idx, read16, C18.new_standard, minRequestPduLen, e1, h]

theorem decode_rwm_bad (h1 l1 h2 l2 h3 l3 h4 l4 bc : UInt8) (data : Bytes)
    (h : bc.toNat ≠ (rd16 h4 l4).toNat * 2) :
    Request.decode (0x17 :: h1 :: l1 :: h2 :: l2 :: h3 :: l3 :: h4 :: l4 :: bc :: data)
      = .err (.byteCount bc) := by
  have e1 : ¬ (data.length + 1 + 1 + 1 + 1 + 1 + 1 + 1 + 1 + 1 + 1 < 10) := by omega
  simp [Request.decode, idx, read16, C18.new_standard, minRequestPduLen, e1, h]

theorem decode_wsc_cases (h1 l1 h2 l2 : UInt8) :
    (∃ r, Request.decode [0x05, h1, l1, h2, l2] = .ok r) ∨
    (rd16 h2 l2 ≠ 0xFF00 ∧ rd16 h2 l2 ≠ 0x0000 ∧
      Request.decode [0x05, h1, l1, h2, l2] = .err (.coilValue (rd16 h2 l2))) := by
  rw [Request.decode_writeSingleCoil]
  unfold u16CoilToBool
  by_cases ha : rd16 h2 l2 = 0xFF00
  · rw [if_pos ha]; exact .inl ⟨_, rfl⟩
  · rw [if_neg ha]
    by_cases hb : rd16 h2 l2 = 0x0000
    · rw [if_pos hb]; exact .inl ⟨_, rfl⟩
    · rw [if_neg hb]; exact .inr ⟨ha, hb, rfl⟩

/-! ### the failure shapes -/

/-- the shapes in which `Request::try_from` refuses a framed PDU, for a predictor that takes the count of
the 0x0F/0x10 arm from the byte `off` places after the function code (`off ≤ 4`) -/
def StageErrAt (off : Nat) (pdu : Bytes) : Prop :=
  (∃ h1 l1 h2 l2, pdu = [0x05, h1, l1, h2, l2] ∧ rd16 h2 l2 ≠ 0xFF00 ∧ rd16 h2 l2 ≠ 0x0000 ∧
      Request.decode pdu = .err (.coilValue (rd16 h2 l2))) ∨
  (∃ h1 l1 h2 l2 bc data c, pdu = 0x0F :: h1 :: l1 :: h2 :: l2 :: bc :: data ∧
      idx [h1, l1, h2, l2, bc] off = .ok c ∧ data.length = c.toNat ∧
      (data.length < bc.toNat ∨ 255 < packedCoilsLen (rd16 h2 l2).toNat) ∧
      Request.decode pdu = .err (.byteCount bc)) ∨
  (∃ h1 l1 h2 l2 bc data c, pdu = 0x10 :: h1 :: l1 :: h2 :: l2 :: bc :: data ∧
      idx [h1, l1, h2, l2, bc] off = .ok c ∧ data.length = c.toNat ∧
      (data.length < bc.toNat ∨ bc.toNat ≠ (rd16 h2 l2).toNat * 2) ∧
      Request.decode pdu = .err (.byteCount bc)) ∨
  (∃ h1 l1 h2 l2 h3 l3 h4 l4 bc data,
      pdu = 0x17 :: h1 :: l1 :: h2 :: l2 :: h3 :: l3 :: h4 :: l4 :: bc :: data ∧
      data.length = bc.toNat ∧ bc.toNat ≠ (rd16 h4 l4).toNat * 2 ∧
      Request.decode pdu = .err (.byteCount bc))

/-- **the exact failure shapes of the PDU stage after TCP request framing** -/
def StageErr (pdu : Bytes) : Prop :=
  (∃ h1 l1 h2 l2, pdu = [0x05, h1, l1, h2, l2] ∧ rd16 h2 l2 ≠ 0xFF00 ∧ rd16 h2 l2 ≠ 0x0000 ∧
      Request.decode pdu = .err (.coilValue (rd16 h2 l2))) ∨
  (∃ h1 l1 h2 l2 bc data, pdu = 0x0F :: h1 :: l1 :: h2 :: l2 :: bc :: data ∧
      data.length = bc.toNat ∧ 255 < packedCoilsLen (rd16 h2 l2).toNat ∧
      Request.decode pdu = .err (.byteCount bc)) ∨
  (∃ h1 l1 h2 l2 bc data, pdu = 0x10 :: h1 :: l1 :: h2 :: l2 :: bc :: data ∧
      data.length = bc.toNat ∧ bc.toNat ≠ (rd16 h2 l2).toNat * 2 ∧
      Request.decode pdu = .err (.byteCount bc)) ∨
  (∃ h1 l1 h2 l2 h3 l3 h4 l4 bc data,
      pdu = 0x17 :: h1 :: l1 :: h2 :: l2 :: h3 :: l3 :: h4 :: l4 :: bc :: data ∧
      data.length = bc.toNat ∧ bc.toNat ≠ (rd16 h4 l4).toNat * 2 ∧
      Request.decode pdu = .err (.byteCount bc))

/-- **the failure shapes after RTU request framing**: wider than `StageErr` for 0x0F / 0x10, because the
RTU predictor takes the number of data bytes from the HIGH BYTE OF THE QUANTITY (`h2`, defect D4), so the
byte-count field `bc` can also announce more data than was framed -/
def StageErrRtu (pdu : Bytes) : Prop :=
  (∃ h1 l1 h2 l2, pdu = [0x05, h1, l1, h2, l2] ∧ rd16 h2 l2 ≠ 0xFF00 ∧ rd16 h2 l2 ≠ 0x0000 ∧
      Request.decode pdu = .err (.coilValue (rd16 h2 l2))) ∨
  (∃ h1 l1 h2 l2 bc data, pdu = 0x0F :: h1 :: l1 :: h2 :: l2 :: bc :: data ∧
      data.length = h2.toNat ∧ (h2.toNat < bc.toNat ∨ 255 < packedCoilsLen (rd16 h2 l2).toNat) ∧
      Request.decode pdu = .err (.byteCount bc)) ∨
  (∃ h1 l1 h2 l2 bc data, pdu = 0x10 :: h1 :: l1 :: h2 :: l2 :: bc :: data ∧
      data.length = h2.toNat ∧ (h2.toNat < bc.toNat ∨ bc.toNat ≠ (rd16 h2 l2).toNat * 2) ∧
      Request.decode pdu = .err (.byteCount bc)) ∨
  (∃ h1 l1 h2 l2 h3 l3 h4 l4 bc data,
      pdu = 0x17 :: h1 :: l1 :: h2 :: l2 :: h3 :: l3 :: h4 :: l4 :: bc :: data ∧
      data.length = bc.toNat ∧ bc.toNat ≠ (rd16 h4 l4).toNat * 2 ∧
      Request.decode pdu = .err (.byteCount bc))

theorem stageErr_of_at4 (pdu : Bytes) (h : StageErrAt 4 pdu) : StageErr pdu := by
  rcases h with h | ⟨h1, l1, h2, l2, bc, data, c, hp, hc, hl, hb, hd⟩ |
    ⟨h1, l1, h2, l2, bc, data, c, hp, hc, hl, hb, hd⟩ | h
  · exact .inl h
  · have : bc = c := by cases hc; rfl
    subst this
    refine .inr (.inl ⟨h1, l1, h2, l2, bc, data, hp, hl, ?_, hd⟩)
    rcases hb with hb | hb
    · omega
    · exact hb
  · have : bc = c := by cases hc; rfl
    subst this
    refine .inr (.inr (.inl ⟨h1, l1, h2, l2, bc, data, hp, hl, ?_, hd⟩))
    rcases hb with hb | hb
    · omega
    · exact hb
  · exact .inr (.inr (.inr h))

theorem stageErrRtu_of_at2 (pdu : Bytes) (h : StageErrAt 2 pdu) : StageErrRtu pdu := by
  rcases h with h | ⟨h1, l1, h2, l2, bc, data, c, hp, hc, hl, hb, hd⟩ |
    ⟨h1, l1, h2, l2, bc, data, c, hp, hc, hl, hb, hd⟩ | h
  · exact .inl h
  · have : h2 = c := by cases hc; rfl
    subst this
    rw [hl] at hb
    exact .inr (.inl ⟨h1, l1, h2, l2, bc, data, hp, hl, hb, hd⟩)
  · have : h2 = c := by cases hc; rfl
    subst this
    rw [hl] at hb
    exact .inr (.inr (.inl ⟨h1, l1, h2, l2, bc, data, hp, hl, hb, hd⟩))
  · exact .inr (.inr (.inr h))

/-! ### the core case analysis -/

theorem range_1_6 (fc : UInt8) :
    0x01 ≤ fc ∧ fc ≤ 0x06 → fc = 0x01 ∨ fc = 0x02 ∨ fc = 0x03 ∨ fc = 0x04 ∨ fc = 0x05 ∨ fc = 0x06 := by
  revert fc; apply byte_cases; decide +kernel

/-- an unmodelled code below 0x80 with any `n ≥ 1` bytes: a custom request -/
theorem decode_custom_take (fc : UInt8) (rest : Bytes) (n : Nat) (hn : 1 ≤ n)
    (hc : fc ∉ modelledReqCodes) (h80 : fc < 0x80) :
    ∃ r, Request.decode ((fc :: rest).take n) = .ok r := by
  obtain ⟨m, rfl⟩ : ∃ m, n = m + 1 := ⟨n - 1, by omega⟩
  rw [take_succ_cons, Request.decode_other fc _ hc, if_pos h80]
  exact ⟨_, rfl⟩

theorem idx_take5 (h1 l1 h2 l2 bc : UInt8) (data : Bytes) (off : Nat) (hoff : off ≤ 4) :
    idx (h1 :: l1 :: h2 :: l2 :: bc :: data) off = idx [h1, l1, h2, l2, bc] off := by
  rcases off with _ | _ | _ | _ | _ | off
  · rfl
  · rfl
  · rfl
  · rfl
  · rfl
  · omega

theorem exists_cons1 (l : Bytes) (h : 1 ≤ l.length) : ∃ a rest, l = a :: rest := by
  rcases l with _ | ⟨a, rest⟩
  · simp at h
  · exact ⟨a, rest, rfl⟩

theorem exists_cons5 (l : Bytes) (h : 5 ≤ l.length) : ∃ a b c d e rest, l = a :: b :: c :: d :: e :: rest := by
  obtain ⟨a, b, l1, rfl⟩ := exists_cons2 l (by omega)
  simp only [List.length_cons] at h
  obtain ⟨c, d, l2, rfl⟩ := exists_cons2 l1 (by omega)
  simp only [List.length_cons] at h
  obtain ⟨e, l3, rfl⟩ := exists_cons1 l2 (by omega)
  exact ⟨a, b, c, d, e, l3, rfl⟩

theorem exists_cons9 (l : Bytes) (h : 9 ≤ l.length) :
    ∃ a0 a1 a2 a3 a4 a5 a6 a7 a8 rest, l = a0 :: a1 :: a2 :: a3 :: a4 :: a5 :: a6 :: a7 :: a8 :: rest := by
  obtain ⟨a0, a1, a2, a3, a4, a5, a6, a7, l1, rfl⟩ := exists_cons8 l (by omega)
  simp only [List.length_cons] at h
  obtain ⟨a8, l2, rfl⟩ := exists_cons1 l1 (by omega)
  exact ⟨a0, a1, a2, a3, a4, a5, a6, a7, a8, l2, rfl⟩

/-- **the core fact**: when the request predictor announces `n` PDU bytes and they are there,
`Request::try_from` on those `n` bytes either succeeds or fails in one of the listed shapes -/
theorem req_stage_of_predReq (off : Nat) (hoff : off ≤ 4) (fc : UInt8) (rest : Bytes) (n : Nat)
    (hp : predReq off fc rest = .ok (some n)) (hl : n ≤ rest.length + 1) :
    (∃ r, Request.decode ((fc :: rest).take n) = .ok r) ∨ StageErrAt off ((fc :: rest).take n) := by
  unfold predReq at hp
  by_cases hA : 0x01 ≤ fc ∧ fc ≤ 0x06
  · rw [if_pos hA] at hp
    have hc : n = 5 := by simp at hp; omega
    subst hc
    match rest, hl with
    | a :: b :: c :: d :: tl, _ =>
      have e : (fc :: a :: b :: c :: d :: tl).take 5 = fc :: a :: b :: c :: d :: [] := by simp
      rw [e]
      rcases range_1_6 fc hA with h | h | h | h | h | h <;> subst h
      · exact .inl ⟨_, Request.decode_readCoils _ _ _ _ _⟩
      · exact .inl ⟨_, Request.decode_readDiscreteInputs _ _ _ _ _⟩
      · exact .inl ⟨_, Request.decode_readHoldingRegisters _ _ _ _ _⟩
      · exact .inl ⟨_, Request.decode_readInputRegisters _ _ _ _ _⟩
      · rcases decode_wsc_cases a b c d with h | ⟨h1, h2, h3⟩
        · exact .inl h
        · exact .inr (.inl ⟨a, b, c, d, rfl, h1, h2, h3⟩)
      · exact .inl ⟨_, Request.decode_writeSingleRegister _ _ _ _ _⟩
  rw [if_neg hA] at hp
  by_cases hB : fc = 0x07 ∨ fc = 0x0B ∨ fc = 0x0C ∨ fc = 0x11
  · rw [if_pos hB] at hp
    have hc : n = 1 := by simp at hp; omega
    subst hc
    refine .inl (decode_custom_take fc rest 1 (by omega) ?_ ?_) <;>
      rcases hB with h | h | h | h <;> subst h <;> decide
  rw [if_neg hB] at hp
  by_cases hC : fc = 0x0F ∨ fc = 0x10
  · rw [if_pos hC] at hp
    by_cases hr : rest.length > off
    · rw [if_pos hr] at hp
      cases hq : idx rest off with
      | err _ => rw [hq] at hp; simp at hp
      | panic => rw [hq] at hp; simp at hp
      | ok c =>
        rw [hq] at hp
        have hc : n = 6 + c.toNat := by simp at hp; omega
        subst hc
        obtain ⟨h1, l1, h2, l2, bc, data, rfl⟩ := exists_cons5 rest (by omega)
        · simp only [List.length_cons] at hl
          have e : (fc :: h1 :: l1 :: h2 :: l2 :: bc :: data).take (6 + c.toNat)
              = fc :: h1 :: l1 :: h2 :: l2 :: bc :: data.take c.toNat := by
            rw [Nat.add_comm]; rfl
          rw [e]
          have hk : (data.take c.toNat).length = c.toNat := by rw [List.length_take]; omega
          rw [idx_take5 _ _ _ _ _ _ off hoff] at hq
          rcases hC with h | h <;> subst h
          · by_cases hb : (data.take c.toNat).length < bc.toNat ∨ 255 < packedCoilsLen (rd16 h2 l2).toNat
            · exact .inr (.inr (.inl ⟨h1, l1, h2, l2, bc, _, c, rfl, hq, hk, hb,
                decode_wmc_bad h1 l1 h2 l2 bc _ hb⟩))
            · exact .inl ⟨_, Request.decode_writeMultipleCoils h1 l1 h2 l2 bc _ (by omega) (by omega)⟩
          · by_cases hb : (data.take c.toNat).length < bc.toNat ∨ bc.toNat ≠ (rd16 h2 l2).toNat * 2
            · exact .inr (.inr (.inr (.inl ⟨h1, l1, h2, l2, bc, _, c, rfl, hq, hk, hb,
                decode_wmr_bad h1 l1 h2 l2 bc _ hb⟩)))
            · exact .inl ⟨_, Request.decode_writeMultipleRegisters h1 l1 h2 l2 bc _ (by omega) (by omega)⟩
    · rw [if_neg hr] at hp; simp at hp
  rw [if_neg hC] at hp
  by_cases hD : fc = 0x16
  · rw [if_pos hD] at hp
    have hc : n = 7 := by simp at hp; omega
    subst hc; subst hD
    exact .inl (decode_custom_take _ rest 7 (by omega) (by decide) (by decide))
  rw [if_neg hD] at hp
  by_cases hE : fc = 0x18
  · rw [if_pos hE] at hp
    have hc : n = 3 := by simp at hp; omega
    subst hc; subst hE
    exact .inl (decode_custom_take _ rest 3 (by omega) (by decide) (by decide))
  rw [if_neg hE] at hp
  by_cases hF : fc = 0x17
  · rw [if_pos hF] at hp
    subst hF
    by_cases hr : rest.length > 8
    · rw [if_pos hr] at hp
      obtain ⟨h1, l1, h2, l2, h3, l3, h4, l4, bc, data, rfl⟩ := exists_cons9 rest (by omega)
      · have hq : idx (h1 :: l1 :: h2 :: l2 :: h3 :: l3 :: h4 :: l4 :: bc :: data) 8 = .ok bc := rfl
        rw [hq] at hp
        have hc : n = 10 + bc.toNat := by simp at hp; omega
        subst hc
        simp only [List.length_cons] at hl
        have e : (0x17 :: h1 :: l1 :: h2 :: l2 :: h3 :: l3 :: h4 :: l4 :: bc :: data).take (10 + bc.toNat)
            = 0x17 :: h1 :: l1 :: h2 :: l2 :: h3 :: l3 :: h4 :: l4 :: bc :: data.take bc.toNat := by
          rw [Nat.add_comm]; rfl
        rw [e]
        have hk : (data.take bc.toNat).length = bc.toNat := by rw [List.length_take]; omega
        by_cases hb : bc.toNat ≠ (rd16 h4 l4).toNat * 2
        · exact .inr (.inr (.inr (.inr ⟨h1, l1, h2, l2, h3, l3, h4, l4, bc, _, rfl, hk, hb,
            decode_rwm_bad h1 l1 h2 l2 h3 l3 h4 l4 bc _ hb⟩)))
        · exact .inl ⟨_, Request.decode_readWriteMultipleRegisters h1 l1 h2 l2 h3 l3 h4 l4 bc _
            (by omega) (by omega)⟩
    · rw [if_neg hr] at hp; simp at hp
  rw [if_neg hF] at hp
  simp at hp

/-! ### TCP -/

theorem tcp_attempt_req_stage (raw : Bytes) (f : Tcp.Frame) (sz : Nat)
    (h : Tcp.attemptReq raw = .ok (some (f, sz))) :
    (∃ r, Request.decode f.pdu = .ok r) ∨ StageErr f.pdu := by
  obtain ⟨n, hp, he, _⟩ := mkAttempt_some _ _ _ _ _ _ h
  obtain ⟨hl, hck, _, hf⟩ := Tcp.extractFrame_some he
  rw [hck, Res.bind'_ok] at hp
  have h8 : 8 ≤ raw.length := by
    apply Decidable.by_contra
    intro hlt
    unfold Tcp.requestPduLen at hp
    rw [if_pos (by omega)] at hp
    cases hp
  obtain ⟨a0, a1, a2, a3, a4, a5, a6, fc, rest, rfl⟩ := exists_cons8 raw h8
  rw [tcp_predReq_eq] at hp
  simp only [List.length_cons] at hl
  have := req_stage_of_predReq 4 (by omega) fc rest n hp (by omega)
  rw [hf]
  rcases this with h | h
  · exact .inl h
  · exact .inr (stageErr_of_at4 _ h)

/-- **T1**: after TCP request framing succeeds, `Request::try_from` on the framed PDU either succeeds or
fails in exactly one of the four shapes of `StageErr` (in particular it never panics and never reports
`BufferSize` or `FnCode`) -/
theorem tcp_req_pdu_stage (buf : Bytes) (f : Tcp.Frame) (loc : Loc)
    (h : Tcp.decodeReq buf = .ok (some (f, loc))) :
    (∃ r, Request.decode f.pdu = .ok r) ∨ StageErr f.pdu :=
  tcp_attempt_req_stage _ f loc.size (scan_no_later _ buf f loc h).2.2.1

theorem stageErr_head (pdu : Bytes) (h : StageErr pdu) :
    pdu.head? = some 0x05 ∨ pdu.head? = some 0x0F ∨ pdu.head? = some 0x10 ∨ pdu.head? = some 0x17 := by
  rcases h with ⟨_, _, _, _, rfl, _⟩ | ⟨_, _, _, _, _, _, rfl, _⟩ | ⟨_, _, _, _, _, _, rfl, _⟩ |
    ⟨_, _, _, _, _, _, _, _, _, _, rfl, _⟩
  · exact .inl rfl
  · exact .inr (.inl rfl)
  · exact .inr (.inr (.inl rfl))
  · exact .inr (.inr (.inr rfl))

theorem stageErrRtu_head (pdu : Bytes) (h : StageErrRtu pdu) :
    pdu.head? = some 0x05 ∨ pdu.head? = some 0x0F ∨ pdu.head? = some 0x10 ∨ pdu.head? = some 0x17 := by
  rcases h with ⟨_, _, _, _, rfl, _⟩ | ⟨_, _, _, _, _, _, rfl, _⟩ | ⟨_, _, _, _, _, _, rfl, _⟩ |
    ⟨_, _, _, _, _, _, _, _, _, _, rfl, _⟩
  · exact .inl rfl
  · exact .inr (.inl rfl)
  · exact .inr (.inr (.inl rfl))
  · exact .inr (.inr (.inr rfl))

/-- the function codes the request predictors accept and for which the PDU stage cannot fail -/
def simpleCodes : List (Option UInt8) :=
  [some 0x01, some 0x02, some 0x03, some 0x04, some 0x06, some 0x07, some 0x0B, some 0x0C, some 0x11,
   some 0x16, some 0x18]

theorem simple_not_err (o : Option UInt8) (hfc : o ∈ simpleCodes)
    (h : o = some 0x05 ∨ o = some 0x0F ∨ o = some 0x10 ∨ o = some 0x17) : False := by
  rcases h with h | h | h | h <;> subst h <;> revert hfc <;> decide

/-- **T2**: for every accepted function code other than 0x05, 0x0F, 0x10, 0x17 the PDU stage is dead -/
theorem tcp_req_pdu_stage_ok_simple (buf : Bytes) (f : Tcp.Frame) (loc : Loc)
    (h : Tcp.decodeReq buf = .ok (some (f, loc))) (hfc : f.pdu.head? ∈ simpleCodes) :
    ∃ r, Request.decode f.pdu = .ok r := by
  rcases tcp_req_pdu_stage buf f loc h with h | h
  · exact h
  · exact (simple_not_err _ hfc (stageErr_head _ h)).elim

/-- **T3**: on a non-empty buffer every error of `tcp::server::decode_request` is either the scanner's,
or the PDU stage's on a framed PDU of one of the `StageErr` shapes -/
theorem tcp_server_request_errors (buf : Bytes) (e : Error) (hne : buf ≠ [])
    (h : Tcp.decodeRequest buf = .err e) :
    Tcp.decodeReq buf = .err e ∨
    ∃ f loc, Tcp.decodeReq buf = .ok (some (f, loc)) ∧ Request.decode f.pdu = .err e ∧ StageErr f.pdu := by
  unfold Tcp.decodeRequest at h
  rw [Tcp.isEmpty_eq_false_of_ne hne] at h
  simp only [Bool.false_eq_true, if_false] at h
  cases hd : Tcp.decodeReq buf with
  | err e' => rw [hd] at h; left; simpa using h
  | panic => rw [hd] at h; cases h
  | ok o =>
    rw [hd] at h
    cases o with
    | none => cases h
    | some p =>
      obtain ⟨f, loc⟩ := p
      simp only [Res.bind'_ok] at h
      right
      refine ⟨f, loc, rfl, ?_⟩
      cases hx : Request.decode f.pdu with
      | ok x => rw [hx] at h; cases h
      | panic => rw [hx] at h; cases h
      | err x =>
        rw [hx] at h
        have hxe : x = e := by simpa using h
        subst hxe
        refine ⟨rfl, ?_⟩
        rcases tcp_req_pdu_stage buf f loc hd with ⟨r, hr⟩ | hs
        · rw [hr] at hx; cases hx
        · exact hs

/-! ### RTU -/

theorem rtu_attempt_req_stage (raw : Bytes) (f : Rtu.Frame) (sz : Nat)
    (h : Rtu.attemptReq raw = .ok (some (f, sz))) :
    (∃ r, Request.decode f.pdu = .ok r) ∨ StageErrRtu f.pdu := by
  obtain ⟨n, hp, he, _⟩ := mkAttempt_some _ _ _ _ _ _ h
  obtain ⟨hl, _, hpdu, _, _⟩ := C08.rtu_extract_sound raw n f he
  obtain ⟨s, fc, rest, rfl⟩ := exists_cons2 raw (by omega)
  rw [rtu_predReq_eq] at hp
  simp only [List.length_cons] at hl
  have := req_stage_of_predReq 2 (by omega) fc rest n hp (by omega)
  rw [hpdu]
  rcases this with h | h
  · exact .inl h
  · exact .inr (stageErrRtu_of_at2 _ h)

/-- **T4**: after RTU request framing succeeds, `Request::try_from` on the framed PDU either succeeds or
fails in one of the four shapes of `StageErrRtu` -/
theorem rtu_req_pdu_stage (buf : Bytes) (f : Rtu.Frame) (loc : Loc)
    (h : Rtu.decodeReq buf = .ok (some (f, loc))) :
    (∃ r, Request.decode f.pdu = .ok r) ∨ StageErrRtu f.pdu :=
  rtu_attempt_req_stage _ f loc.size (scan_no_later _ buf f loc h).2.2.1

/-- **T5** -/
theorem rtu_req_pdu_stage_ok_simple (buf : Bytes) (f : Rtu.Frame) (loc : Loc)
    (h : Rtu.decodeReq buf = .ok (some (f, loc))) (hfc : f.pdu.head? ∈ simpleCodes) :
    ∃ r, Request.decode f.pdu = .ok r := by
  rcases rtu_req_pdu_stage buf f loc h with h | h
  · exact h
  · exact (simple_not_err _ hfc (stageErrRtu_head _ h)).elim

/-- **T6**: every error of `rtu::server::decode_request` is either the scanner's, or the PDU stage's on a
framed PDU of one of the `StageErrRtu` shapes (an empty buffer gives `Ok(None)`, so no hypothesis on it) -/
theorem rtu_server_request_errors (buf : Bytes) (e : Error)
    (h : Rtu.serverDecodeRequest buf = .err e) :
    Rtu.decodeReq buf = .err e ∨
    ∃ f loc, Rtu.decodeReq buf = .ok (some (f, loc)) ∧ Request.decode f.pdu = .err e ∧
      StageErrRtu f.pdu := by
  unfold Rtu.serverDecodeRequest at h
  by_cases hb : buf.isEmpty = true
  · rw [if_pos hb] at h; cases h
  rw [if_neg hb] at h
  cases hd : Rtu.decodeReq buf with
  | err e' => rw [hd] at h; left; simpa using h
  | panic => rw [hd] at h; cases h
  | ok o =>
    rw [hd] at h
    cases o with
    | none => cases h
    | some p =>
      obtain ⟨f, loc⟩ := p
      simp only [Res.bind'_ok] at h
      right
      refine ⟨f, loc, rfl, ?_⟩
      cases hx : Request.decode f.pdu with
      | ok x => rw [hx] at h; cases h
      | panic => rw [hx] at h; cases h
      | err x =>
        rw [hx] at h
        have hxe : x = e := by simpa using h
        subst hxe
        refine ⟨rfl, ?_⟩
        rcases rtu_req_pdu_stage buf f loc hd with ⟨r, hr⟩ | hs
        · rw [hr] at hx; cases hx
        · exact hs

/-! ### the characterisation is exact: on a framed PDU the stage fails iff the PDU has a listed shape -/

theorem stageErr_is_err (pdu : Bytes) (h : StageErr pdu) :
    (∃ v, Request.decode pdu = .err (.coilValue v)) ∨ (∃ c, Request.decode pdu = .err (.byteCount c)) := by
  rcases h with ⟨_, _, _, _, _, _, _, h⟩ | ⟨_, _, _, _, _, _, _, _, _, h⟩ | ⟨_, _, _, _, _, _, _, _, _, h⟩ |
    ⟨_, _, _, _, _, _, _, _, _, _, _, _, _, h⟩
  · exact .inl ⟨_, h⟩
  · exact .inr ⟨_, h⟩
  · exact .inr ⟨_, h⟩
  · exact .inr ⟨_, h⟩

theorem stageErrRtu_is_err (pdu : Bytes) (h : StageErrRtu pdu) :
    (∃ v, Request.decode pdu = .err (.coilValue v)) ∨ (∃ c, Request.decode pdu = .err (.byteCount c)) := by
  rcases h with ⟨_, _, _, _, _, _, _, h⟩ | ⟨_, _, _, _, _, _, _, _, _, h⟩ | ⟨_, _, _, _, _, _, _, _, _, h⟩ |
    ⟨_, _, _, _, _, _, _, _, _, _, _, _, _, h⟩
  · exact .inl ⟨_, h⟩
  · exact .inr ⟨_, h⟩
  · exact .inr ⟨_, h⟩
  · exact .inr ⟨_, h⟩

/-- after TCP request framing: the PDU stage fails exactly on the `StageErr` shapes -/
theorem tcp_req_pdu_stage_iff (buf : Bytes) (f : Tcp.Frame) (loc : Loc)
    (h : Tcp.decodeReq buf = .ok (some (f, loc))) :
    (¬ ∃ r, Request.decode f.pdu = .ok r) ↔ StageErr f.pdu := by
  constructor
  · intro hn
    rcases tcp_req_pdu_stage buf f loc h with h | h
    · exact absurd h hn
    · exact h
  · rintro hs ⟨r, hr⟩
    rcases stageErr_is_err _ hs with ⟨_, he⟩ | ⟨_, he⟩ <;> rw [hr] at he <;> cases he

/-- after RTU request framing: the PDU stage fails exactly on the `StageErrRtu` shapes -/
theorem rtu_req_pdu_stage_iff (buf : Bytes) (f : Rtu.Frame) (loc : Loc)
    (h : Rtu.decodeReq buf = .ok (some (f, loc))) :
    (¬ ∃ r, Request.decode f.pdu = .ok r) ↔ StageErrRtu f.pdu := by
  constructor
  · intro hn
    rcases rtu_req_pdu_stage buf f loc h with h | h
    · exact absurd h hn
    · exact h
  · rintro hs ⟨r, hr⟩
    rcases stageErrRtu_is_err _ hs with ⟨_, he⟩ | ⟨_, he⟩ <;> rw [hr] at he <;> cases he

/-! ### every alternative is inhabited, on frames the scanners accept

Tightness.  TCP: each alternative of `StageErr` pins the whole layout of the PDU, the exact error value and the
exact arithmetic cause; the four are realised below, and no further alternative is left open (the stage never
panics, never gives `BufferSize` or `FnCode`).  RTU: the 0x0F and 0x10 alternatives of `StageErrRtu` are a
disjunction of two causes each (byte count beyond the framed data / quantity too large resp. count ≠ 2·quantity);
both causes of both codes are realised below, so neither can be dropped. -/

/-- hypothesis of T1/T2 with a successfully decoded request (Read Holding Registers) -/
example : Tcp.decodeReq [0, 1, 0, 0, 0, 6, 0x11, 0x03, 0, 1, 0, 2]
      = .ok (some (⟨1, 0x11, [0x03, 0, 1, 0, 2]⟩, ⟨0, 12⟩)) ∧
    ([0x03, 0, 1, 0, 2] : Bytes).head? ∈ simpleCodes ∧
    Request.decode [0x03, 0, 1, 0, 2] = .ok (.readHoldingRegisters 1 2) := by decide +kernel

/-- TCP, 0x05 with the value 0x1234 -/
example : Tcp.decodeReq [0, 1, 0, 0, 0, 6, 0x11, 0x05, 0, 1, 0x12, 0x34]
      = .ok (some (⟨1, 0x11, [0x05, 0, 1, 0x12, 0x34]⟩, ⟨0, 12⟩)) ∧
    Tcp.decodeRequest [0, 1, 0, 0, 0, 6, 0x11, 0x05, 0, 1, 0x12, 0x34] = .err (.coilValue 0x1234) := by
  decide +kernel
example : StageErr [0x05, 0, 1, 0x12, 0x34] :=
  .inl ⟨0, 1, 0x12, 0x34, rfl, by decide, by decide, by decide +kernel⟩

/-- TCP, 0x0F with quantity 2048 -/
example : Tcp.decodeReq [0, 1, 0, 0, 0, 8, 0x11, 0x0F, 0, 1, 8, 0, 1, 0xFF]
      = .ok (some (⟨1, 0x11, [0x0F, 0, 1, 8, 0, 1, 0xFF]⟩, ⟨0, 14⟩)) ∧
    Tcp.decodeRequest [0, 1, 0, 0, 0, 8, 0x11, 0x0F, 0, 1, 8, 0, 1, 0xFF] = .err (.byteCount 1) := by
  decide +kernel
example : StageErr [0x0F, 0, 1, 8, 0, 1, 0xFF] :=
  .inr (.inl ⟨0, 1, 8, 0, 1, [0xFF], rfl, by decide, by decide, by decide +kernel⟩)

/-- TCP, 0x10 with quantity 1 and byte count 1 -/
example : Tcp.decodeReq [0, 1, 0, 0, 0, 8, 0x11, 0x10, 0, 1, 0, 1, 1, 0xAA]
      = .ok (some (⟨1, 0x11, [0x10, 0, 1, 0, 1, 1, 0xAA]⟩, ⟨0, 14⟩)) ∧
    Tcp.decodeRequest [0, 1, 0, 0, 0, 8, 0x11, 0x10, 0, 1, 0, 1, 1, 0xAA] = .err (.byteCount 1) := by
  decide +kernel
example : StageErr [0x10, 0, 1, 0, 1, 1, 0xAA] :=
  .inr (.inr (.inl ⟨0, 1, 0, 1, 1, [0xAA], rfl, by decide, by decide, by decide +kernel⟩))

/-- TCP, 0x17 with write quantity 1 and byte count 1 -/
example : Tcp.decodeReq [0, 1, 0, 0, 0, 12, 0x11, 0x17, 0, 1, 0, 1, 0, 2, 0, 1, 1, 0xAA]
      = .ok (some (⟨1, 0x11, [0x17, 0, 1, 0, 1, 0, 2, 0, 1, 1, 0xAA]⟩, ⟨0, 18⟩)) ∧
    Tcp.decodeRequest [0, 1, 0, 0, 0, 12, 0x11, 0x17, 0, 1, 0, 1, 0, 2, 0, 1, 1, 0xAA] = .err (.byteCount 1) := by
  decide +kernel
example : StageErr [0x17, 0, 1, 0, 1, 0, 2, 0, 1, 1, 0xAA] :=
  .inr (.inr (.inr ⟨0, 1, 0, 1, 0, 2, 0, 1, 1, [0xAA], rfl, by decide, by decide, by decide +kernel⟩))

/-- hypothesis of T4/T5 with a successfully decoded request -/
example : Rtu.decodeReq [0x11, 0x03, 0, 1, 0, 2, 151, 91]
      = .ok (some (⟨0x11, [0x03, 0, 1, 0, 2]⟩, ⟨0, 8⟩)) ∧
    ([0x03, 0, 1, 0, 2] : Bytes).head? ∈ simpleCodes := by decide +kernel

/-- RTU, 0x05 with the value 0x1234 -/
example : Rtu.decodeReq [0x11, 0x05, 0, 1, 0x12, 0x34, 147, 237]
      = .ok (some (⟨0x11, [0x05, 0, 1, 0x12, 0x34]⟩, ⟨0, 8⟩)) ∧
    Rtu.serverDecodeRequest [0x11, 0x05, 0, 1, 0x12, 0x34, 147, 237] = .err (.coilValue 0x1234) := by
  decide +kernel
example : StageErrRtu [0x05, 0, 1, 0x12, 0x34] :=
  .inl ⟨0, 1, 0x12, 0x34, rfl, by decide, by decide, by decide +kernel⟩

/-- RTU, 0x0F, first cause: quantity 8 (high byte 0, so NO data byte is framed: D4), byte count 1 -/
example : Rtu.decodeReq [0x11, 0x0F, 0, 1, 0, 8, 1, 221, 2]
      = .ok (some (⟨0x11, [0x0F, 0, 1, 0, 8, 1]⟩, ⟨0, 9⟩)) ∧
    Rtu.serverDecodeRequest [0x11, 0x0F, 0, 1, 0, 8, 1, 221, 2] = .err (.byteCount 1) := by decide +kernel
example : StageErrRtu [0x0F, 0, 1, 0, 8, 1] :=
  .inr (.inl ⟨0, 1, 0, 8, 1, [], rfl, by decide, .inl (by decide), by decide +kernel⟩)

/-- RTU, 0x0F, second cause: quantity 2048 (high byte 8, eight data bytes framed), byte count 8 -/
example : Rtu.decodeReq [0x11, 0x0F, 0, 1, 8, 0, 8, 1, 2, 3, 4, 5, 6, 7, 8, 222, 27]
      = .ok (some (⟨0x11, [0x0F, 0, 1, 8, 0, 8, 1, 2, 3, 4, 5, 6, 7, 8]⟩, ⟨0, 17⟩)) ∧
    Rtu.serverDecodeRequest [0x11, 0x0F, 0, 1, 8, 0, 8, 1, 2, 3, 4, 5, 6, 7, 8, 222, 27]
      = .err (.byteCount 8) := by decide +kernel
example : StageErrRtu [0x0F, 0, 1, 8, 0, 8, 1, 2, 3, 4, 5, 6, 7, 8] :=
  .inr (.inl ⟨0, 1, 8, 0, 8, [1, 2, 3, 4, 5, 6, 7, 8], rfl, by decide, .inr (by decide), by decide +kernel⟩)

/-- RTU, 0x10, first cause: the well-formed header "one register, two bytes" is framed WITHOUT its data
(high quantity byte 0) and refused -/
example : Rtu.decodeReq [0x11, 0x10, 0, 1, 0, 1, 2, 153, 60]
      = .ok (some (⟨0x11, [0x10, 0, 1, 0, 1, 2]⟩, ⟨0, 9⟩)) ∧
    Rtu.serverDecodeRequest [0x11, 0x10, 0, 1, 0, 1, 2, 153, 60] = .err (.byteCount 2) := by decide +kernel
example : StageErrRtu [0x10, 0, 1, 0, 1, 2] :=
  .inr (.inr (.inl ⟨0, 1, 0, 1, 2, [], rfl, by decide, .inl (by decide), by decide +kernel⟩))

/-- RTU, 0x10, second cause: byte count 0 for one register -/
example : Rtu.decodeReq [0x11, 0x10, 0, 1, 0, 1, 0, 24, 253]
      = .ok (some (⟨0x11, [0x10, 0, 1, 0, 1, 0]⟩, ⟨0, 9⟩)) ∧
    Rtu.serverDecodeRequest [0x11, 0x10, 0, 1, 0, 1, 0, 24, 253] = .err (.byteCount 0) := by decide +kernel
example : StageErrRtu [0x10, 0, 1, 0, 1, 0] :=
  .inr (.inr (.inl ⟨0, 1, 0, 1, 0, [], rfl, by decide, .inr (by decide), by decide +kernel⟩))

/-- RTU, 0x17 with write quantity 1 and byte count 1 -/
example : Rtu.decodeReq [0x11, 0x17, 0, 1, 0, 1, 0, 2, 0, 1, 1, 0xAA, 162, 53]
      = .ok (some (⟨0x11, [0x17, 0, 1, 0, 1, 0, 2, 0, 1, 1, 0xAA]⟩, ⟨0, 14⟩)) ∧
    Rtu.serverDecodeRequest [0x11, 0x17, 0, 1, 0, 1, 0, 2, 0, 1, 1, 0xAA, 162, 53] = .err (.byteCount 1) := by
  decide +kernel
example : StageErrRtu [0x17, 0, 1, 0, 1, 0, 2, 0, 1, 1, 0xAA] :=
  .inr (.inr (.inr ⟨0, 1, 0, 1, 0, 2, 0, 1, 1, [0xAA], rfl, by decide, by decide, by decide +kernel⟩))

/-- hypotheses of T3: a non-empty buffer whose error is the scanner's own -/
example : List.replicate 300 (0xFF : UInt8) ≠ [] ∧
    Tcp.decodeRequest (List.replicate 300 0xFF) = .err (.protocolNotModbus 0xFFFF) := by decide +kernel

end Modbus.C13Stage

import Modbus.Lemmas.DecodedAdu
import Modbus.Props.C05
import Modbus.Props.C13
/-
C05 — TCP (MBAP) ADU round trip for DECODED values.

Props/C05Full.lean proves the round trip for values built through the public constructors.  A user
also obtains values by decoding — a gateway decodes a PDU received on one transport and re-encodes the
value for another.  Such values need not be normal: a register response decoded from an odd byte count
has `quantity = byte_count / 2` (the decoder keeps the whole registers only, so `data` holds exactly
`2 · quantity` bytes and the dangling byte is not re-encoded); a decoded coil response has
quantity = 8 × byte count; a decoded write-multiple-coils request keeps every byte after the header
(`bytes[6..]`) whatever its byte-count field said.  Here: for EVERY byte string `b` and every value `v`
with `Response.decode b = .ok v` / `Request.decode b = .ok v`,

* the TCP encoder succeeds on every buffer of at least PDU length + 7 bytes and reports
  `pduLen + 7` (`v.pduLen = .ok v.image.length`);
* the bytes written are `Spec.tcpFrame tid uid v.image`;
* decoding them (or the whole output buffer) returns the same transaction id, the same unit id and a
  value `v'` with the same meaning, `v'.sem = v.sem` (normalisation: surplus payload bytes of a
  write-multiple-coils request are dropped by the encoder); for responses the very same value `v`
  comes back (`rsp_decoded_tcp_roundtrip_exact_partial`).

What is covered (`Response.Decoded.kinds`, `Request.Decoded.kinds` list what the decoders return):

* responses `rsp_decoded_tcp_roundtrip_partial`: every decoded value of a standard kind except
  write-single-coil — `v.Frameable` — (open finding D12: the crate encodes that response in 3 bytes,
  the length table says 5; `rsp_decoded_tcp_roundtrip_fails`);
* requests `req_decoded_tcp_roundtrip_partial`: every decoded standard request outside the
  open-finding-D5b region `WmcShort b` (write-multiple-coils whose byte-count field is smaller than
  its quantity needs; such a value is not encodable — inside the region the value may even panic when
  used, `C13.req_wmc_defect_witness`);
* custom values (`…_custom_…`): a decoded custom value is the input verbatim (`v.image = b`), so it
  frames exactly when `b` itself is a complete PDU of the length table — for responses also: code below
  0x80 (a code ≥ 0x80 is an exception frame on the wire) and length fitting the MBAP length field.
  Without that hypothesis the statement is false (`rsp_custom_needs_complete_witness`): the PDU decoders
  accept any bytes after an unknown function code, the ADU scanners do not.
-/
namespace Modbus.C05Dec
open Modbus.AduRT Modbus.DecodedAdu

/-! ### responses -/

/-- what is known about every decoded response of a frameable kind: it is encodable, its image is a
    complete PDU of at most 257 bytes that is not an exception PDU, and the image decodes to a value with
    the same meaning -/
theorem rsp_decoded_facts (b : Bytes) (v : Response) (h : Response.decode b = .ok v) (hk : v.Frameable) :
    (ResponsePdu.ok v).Encodable ∧ v.pduLen = .ok v.image.length ∧
    Spec.PduComplete .rsp v.image ∧ v.image.length ≤ 257 ∧
    (∃ e, ExceptionResponse.decode v.image = .err e) ∧
    ∃ v', Response.decode v.image = .ok v' ∧ v'.sem = v.sem := by
  have hd := Response.decode_inv h
  have he := hd.encodable
  obtain ⟨c, h0, hlt⟩ := rsp_image_first_lt v hk
  exact ⟨⟨he, Response.image_pos v he⟩, Response.pduLen_eq v he, rsp_image_complete v hk he,
    rsp_image_length_le v hk he, exc_decode_err_of_lt _ c h0 hlt, hd.redecode⟩

/-
Full statement — FALSE for the model of the unedited crate (open finding D12): the theorem below
without `hk`, for every decoded `v` that is not a custom value.  Missing from the proved statement:
exactly `v = .writeSingleCoil a` (`Response.Decoded.kinds`); refuted there by
`rsp_decoded_tcp_roundtrip_fails`.
-/
/-- **Decoded responses over TCP.**  Every value of a standard kind other than write-single-coil that
    `Response::try_from` returns, every transaction id, unit id and buffer with room for PDU + 7 bytes. -/
theorem rsp_decoded_tcp_roundtrip_partial (b : Bytes) (v : Response) (h : Response.decode b = .ok v)
    (hk : v.Frameable)
    (tid : UInt16) (uid : UInt8) (buf : Bytes) (hl : v.image.length + 7 ≤ buf.length) :
    ∃ n out v', Tcp.encodeResponse tid uid (.ok v) buf = .ok (n, out) ∧
      v.pduLen = .ok v.image.length ∧ n = v.image.length + 7 ∧
      out.take n = Spec.tcpFrame tid uid v.image ∧
      Tcp.decodeResponse (out.take n) = .ok (some (tid, uid, .ok v')) ∧
      Tcp.decodeResponse out = .ok (some (tid, uid, .ok v')) ∧
      v'.sem = v.sem := by
  obtain ⟨he, hp, hc, h257, hx, v', hd, hs⟩ := rsp_decoded_facts b v h hk
  obtain ⟨out, h1, h2, h3, h4⟩ := C05.tcp_rsp_encode_decode tid uid v v' buf he hl hc (by omega) hx hd
  exact ⟨_, out, v', h1, hp, rfl, h2, h3, h4, hs⟩

/-- … and it is the very same value that comes back: a decoded response holds whole registers / whole
    bytes only, so its image decodes to itself (`Response.Decoded.redecode_exact`) -/
theorem rsp_decoded_tcp_roundtrip_exact_partial (b : Bytes) (v : Response) (h : Response.decode b = .ok v)
    (hk : v.Frameable)
    (tid : UInt16) (uid : UInt8) (buf : Bytes) (hl : v.image.length + 7 ≤ buf.length) :
    Response.decode v.image = .ok v ∧
    ∃ n out, Tcp.encodeResponse tid uid (.ok v) buf = .ok (n, out) ∧
      n = v.image.length + 7 ∧
      out.take n = Spec.tcpFrame tid uid v.image ∧
      Tcp.decodeResponse (out.take n) = .ok (some (tid, uid, .ok v)) ∧
      Tcp.decodeResponse out = .ok (some (tid, uid, .ok v)) := by
  obtain ⟨he, _, hc, h257, hx, _⟩ := rsp_decoded_facts b v h hk
  have hd := (Response.decode_inv h).redecode_exact
  obtain ⟨out, h1, h2, h3, h4⟩ := C05.tcp_rsp_encode_decode tid uid v v buf he hl hc (by omega) hx hd
  exact ⟨hd, _, out, h1, rfl, h2, h3, h4⟩

/-- a 264-byte buffer is always large enough (a decoded frameable response has at most 257 PDU bytes) -/
theorem rsp_decoded_tcp_roundtrip_264_partial (b : Bytes) (v : Response) (h : Response.decode b = .ok v)
    (hk : v.Frameable) (tid : UInt16) (uid : UInt8) (buf : Bytes) (hl : 264 ≤ buf.length) :
    ∃ n out v', Tcp.encodeResponse tid uid (.ok v) buf = .ok (n, out) ∧ n ≤ 264 ∧
      out.take n = Spec.tcpFrame tid uid v.image ∧
      Tcp.decodeResponse (out.take n) = .ok (some (tid, uid, .ok v')) ∧ v'.sem = v.sem := by
  have h257 := (rsp_decoded_facts b v h hk).2.2.2.1
  obtain ⟨n, out, v', h1, _, h3, h4, h5, _, h7⟩ :=
    rsp_decoded_tcp_roundtrip_partial b v h hk tid uid buf (by omega)
  exact ⟨n, out, v', h1, by omega, h4, h5, h7⟩

/-- a shorter buffer: an error, nothing else -/
theorem rsp_decoded_tcp_short_buffer (b : Bytes) (v : Response) (h : Response.decode b = .ok v)
    (tid : UInt16) (uid : UInt8) (buf : Bytes) (hl : buf.length < v.image.length + 7) :
    Tcp.encodeResponse tid uid (.ok v) buf = .err .bufferSize := by
  have he := (Response.decode_inv h).encodable
  exact C05.tcp_rsp_layout_short tid uid (.ok v) buf ⟨he, Response.image_pos v he⟩ hl

/-- the frame written is a well-formed TCP frame of Spec/Frames.lean -/
theorem rsp_decoded_tcp_wellformed (b : Bytes) (v : Response) (h : Response.decode b = .ok v)
    (hk : v.Frameable) (tid : UInt16) (uid : UInt8) :
    Spec.WellFormedTcp .rsp (Spec.tcpFrame tid uid v.image) := by
  obtain ⟨_, _, hc, h257, _⟩ := rsp_decoded_facts b v h hk
  exact ⟨tid, uid, _, hc, by omega, rfl⟩

/-- a decoded custom response is the input verbatim; it round-trips when the input is a complete PDU
    of the response table with a code below 0x80 whose length fits the MBAP length field — and then
    the very same value comes back -/
theorem rsp_decoded_custom_tcp_roundtrip (b : Bytes) (c : FunctionCode) (d : Bytes)
    (h : Response.decode b = .ok (.custom c d))
    (hc : Spec.PduComplete .rsp b) (hn : b.length + 1 < 65536) (hlt : c.value < 0x80)
    (tid : UInt16) (uid : UInt8) (buf : Bytes) (hl : b.length + 7 ≤ buf.length) :
    (Response.custom c d).image = b ∧
    ∃ out, Tcp.encodeResponse tid uid (.ok (.custom c d)) buf = .ok (b.length + 7, out) ∧
      out.take (b.length + 7) = Spec.tcpFrame tid uid b ∧
      Tcp.decodeResponse (out.take (b.length + 7)) = .ok (some (tid, uid, .ok (.custom c d))) ∧
      Tcp.decodeResponse out = .ok (some (tid, uid, .ok (.custom c d))) := by
  have hi := Response.decode_custom_image h
  refine ⟨hi, ?_⟩
  have hpos : 1 ≤ (Response.custom c d).image.length := by
    show 1 ≤ ([c.value] ++ d).length; simp
  have hx : ∃ e, ExceptionResponse.decode (Response.custom c d).image = .err e :=
    exc_decode_err_of_lt _ c.value rfl hlt
  have := C05.tcp_rsp_encode_decode tid uid (.custom c d) (.custom c d) buf ⟨trivial, hpos⟩
    (by rw [hi]; exact hl) (by rw [hi]; exact hc) (by rw [hi]; exact hn) hx (by rw [hi]; exact h)
  rw [hi] at this
  exact this

/-- every decoded response is of one of the kinds treated above, or write-single-coil (D12) -/
theorem rsp_decoded_kinds (b : Bytes) (v : Response) (h : Response.decode b = .ok v) :
    v.Frameable ∨ (∃ a, v = .writeSingleCoil a) ∨ (∃ c d, v = .custom c d) := by
  rcases (Response.decode_inv h).kinds with hk | hk | ⟨fc, d, rfl, _⟩
  · exact .inl hk
  · exact .inr (.inl hk)
  · exact .inr (.inr ⟨_, _, rfl⟩)

/-- D12 on a decoded value: `05 00 33` decodes to `WriteSingleCoil(0x33)`; re-encoded for TCP it is not
    decoded again — so `hk` cannot be dropped -/
theorem rsp_decoded_tcp_roundtrip_fails :
    ¬ ∀ (b : Bytes) (v : Response), Response.decode b = .ok v → (∀ c d, v ≠ .custom c d) →
        ∀ (tid : UInt16) (uid : UInt8) (buf : Bytes), v.image.length + 7 ≤ buf.length →
        ∃ n out v', Tcp.encodeResponse tid uid (.ok v) buf = .ok (n, out) ∧
          Tcp.decodeResponse (out.take n) = .ok (some (tid, uid, .ok v')) := by
  intro hall
  obtain ⟨n, out, v', he, hd⟩ := hall [0x05, 0x00, 0x33] (.writeSingleCoil 0x33) (by decide +kernel)
    (by intro c d hh; cases hh) 7 1 (List.replicate 12 0) (by decide)
  have he' : Tcp.encodeResponse 7 1 (.ok (.writeSingleCoil 0x33)) (List.replicate 12 0) =
      .ok (10, [0, 7, 0, 0, 0, 4, 1, 0x05, 0x00, 0x33, 0, 0]) := by decide +kernel
  rw [he'] at he
  cases he
  have hd' : Tcp.decodeResponse (List.take 10 [0, 7, 0, 0, 0, 4, 1, 0x05, 0x00, 0x33, 0, 0]) = .ok none := by
    decide +kernel
  rw [hd'] at hd
  cases hd

/-- the hypothesis `PduComplete .rsp b` of the custom theorem cannot be dropped: `16 01 02 03` decodes
    to a custom value (the response decoder takes every byte after an unmodelled code), but the
    response table says a 0x16 PDU has seven bytes — the re-encoded frame does not decode to it.
    (The witness used to be `07 01 02 03`; 0x07 is a modelled response kind now and decodes to
    `ReadExceptionStatus(1)`, a frameable kind.) -/
theorem rsp_custom_needs_complete_witness :
    Response.decode [0x16, 1, 2, 3] = .ok (.custom (FunctionCode.new 0x16) [1, 2, 3]) ∧
    ¬ Spec.PduComplete .rsp [0x16, 1, 2, 3] ∧
    Tcp.encodeResponse 7 1 (.ok (.custom (FunctionCode.new 0x16) [1, 2, 3])) (List.replicate 11 0) =
      .ok (11, [0, 7, 0, 0, 0, 5, 1, 0x16, 1, 2, 3]) ∧
    Tcp.decodeResponse [0, 7, 0, 0, 0, 5, 1, 0x16, 1, 2, 3] ≠
      .ok (some (7, 1, .ok (.custom (FunctionCode.new 0x16) [1, 2, 3]))) := by
  refine ⟨by decide +kernel, ?_, by decide +kernel, by decide +kernel⟩
  unfold Spec.PduComplete; decide +kernel

/-- `07 01 02 03`: decoded as Read Exception Status (trailing bytes ignored), which re-encodes to `07 01` -/
example : Response.decode [0x07, 1, 2, 3] = .ok (.readExceptionStatus 1) ∧
    (Response.readExceptionStatus 1).Frameable ∧ (Response.readExceptionStatus 1).image = [0x07, 1] :=
  ⟨by decide +kernel, trivial, rfl⟩

/-! non-vacuity: a register response with an ODD byte count (the stray byte 0xEF is not part of the decoded
    value), a coil response (quantity 8 × byte count), a complete custom PDU -/
example : Response.decode [0x03, 0x03, 0xAB, 0xCD, 0xEF] = .ok (.readHoldingRegisters ⟨[0xAB, 0xCD], 1⟩) ∧
    (Response.readHoldingRegisters ⟨[0xAB, 0xCD], 1⟩).Frameable := ⟨by decide +kernel, trivial⟩
example : ∃ n out v', Tcp.encodeResponse 0x0102 9 (.ok (.readHoldingRegisters ⟨[0xAB, 0xCD], 1⟩))
      (List.replicate 16 0x55) = .ok (n, out) ∧ n = 11 ∧
    out.take n = [0x01, 0x02, 0, 0, 0, 5, 9, 0x03, 0x02, 0xAB, 0xCD] ∧
    Tcp.decodeResponse (out.take n) = .ok (some (0x0102, 9, .ok v')) ∧
    v'.sem = some (.readHoldingRegisters [0xABCD]) := by
  obtain ⟨n, out, v', h1, _, h3, h4, h5, _, h7⟩ := rsp_decoded_tcp_roundtrip_partial
    [0x03, 0x03, 0xAB, 0xCD, 0xEF] (.readHoldingRegisters ⟨[0xAB, 0xCD], 1⟩) (by decide +kernel) trivial
    0x0102 9 (List.replicate 16 0x55) (by decide +kernel)
  refine ⟨n, out, v', h1, by rw [h3]; decide +kernel, ?_, h5, ?_⟩
  · rw [h4]; decide +kernel
  · rw [h7]; decide +kernel
example : Response.decode [0x01, 0x02, 0xCD, 0x6B] = .ok (.readCoils ⟨[0xCD, 0x6B], 16⟩) ∧
    (Response.readCoils ⟨[0xCD, 0x6B], 16⟩).Frameable := ⟨by decide +kernel, trivial⟩
example : Response.decode [0x18, 0x00, 0x02, 0xAA, 0xBB] = .ok (.custom (FunctionCode.new 0x18) [0x00, 0x02, 0xAA, 0xBB]) ∧
    Spec.PduComplete .rsp [0x18, 0x00, 0x02, 0xAA, 0xBB] ∧ (FunctionCode.new 0x18).value < 0x80 := by
  refine ⟨by decide +kernel, ?_, by decide +kernel⟩
  unfold Spec.PduComplete; decide +kernel

/-! ### requests -/

/-- what is known about every decoded standard request outside the D5b region -/
theorem req_decoded_facts (b : Bytes) (v : Request) (h : Request.decode b = .ok v)
    (hk : v.Standard) (hs : ¬ WmcShort b) :
    v.Encodable ∧ v.pduLen = .ok v.image.length ∧
    Spec.PduComplete .req v.image ∧ v.image.length ≤ 265 ∧
    v.image[0]? = b[0]? ∧
    ∃ v', Request.decode v.image = .ok v' ∧ v'.sem = v.sem := by
  obtain ⟨hd, hh⟩ := Request.decode_inv h
  have he := hd.encodable hs
  have hx := hd.dataExact
  exact ⟨he, Request.pduLen_eq v he, req_image_complete v hk he hx, req_image_length_le v hk he hx,
    by rw [hh]; exact req_image_head v hk, hd.redecode he⟩

/-
Full statement — FALSE for the model of the unedited crate (open finding D5b): the theorem below
without `hs`.  Missing: exactly the accepted write-multiple-coils requests whose byte-count field is
smaller than ⌈quantity / 8⌉ (`WmcShort b`); there the decoded value is not encodable
(`req_decoded_tcp_roundtrip_fails`; `C13.req_wmc_defect_witness`: it panics when used).
-/
/-- **Decoded requests over TCP.**  Every standard request `Request::try_from` returns for an input
    outside the D5b region, every transaction id, unit id and buffer with room for PDU + 7 bytes. -/
theorem req_decoded_tcp_roundtrip_partial (b : Bytes) (v : Request) (h : Request.decode b = .ok v)
    (hk : v.Standard) (hs : ¬ WmcShort b)
    (tid : UInt16) (uid : UInt8) (buf : Bytes) (hl : v.image.length + 7 ≤ buf.length) :
    ∃ n out v', Tcp.encodeRequest tid uid v buf = .ok (n, out) ∧
      v.pduLen = .ok v.image.length ∧ n = v.image.length + 7 ∧
      out.take n = Spec.tcpFrame tid uid v.image ∧
      Tcp.decodeRequest (out.take n) = .ok (some (tid, uid, v')) ∧
      Tcp.decodeRequest out = .ok (some (tid, uid, v')) ∧
      v'.sem = v.sem := by
  obtain ⟨he, hp, hc, _, _, v', hd, hsem⟩ := req_decoded_facts b v h hk hs
  obtain ⟨out, h1, h2, h3, h4⟩ := C05.tcp_req_encode_decode tid uid v v' buf he hl hc hd
  exact ⟨_, out, v', h1, hp, rfl, h2, h3, h4, hsem⟩

/-- with the design's wider exclusion (byte count ≠ ⌈quantity/8⌉) -/
theorem req_decoded_tcp_roundtrip_mismatch_partial (b : Bytes) (v : Request) (h : Request.decode b = .ok v)
    (hk : v.Standard) (hm : ¬ WmcMismatch b)
    (tid : UInt16) (uid : UInt8) (buf : Bytes) (hl : v.image.length + 7 ≤ buf.length) :
    ∃ n out v', Tcp.encodeRequest tid uid v buf = .ok (n, out) ∧
      v.pduLen = .ok v.image.length ∧ n = v.image.length + 7 ∧
      out.take n = Spec.tcpFrame tid uid v.image ∧
      Tcp.decodeRequest (out.take n) = .ok (some (tid, uid, v')) ∧
      Tcp.decodeRequest out = .ok (some (tid, uid, v')) ∧
      v'.sem = v.sem :=
  req_decoded_tcp_roundtrip_partial b v h hk (fun hs => hm hs.mismatch) tid uid buf hl

/-- a 272-byte buffer is always large enough -/
theorem req_decoded_tcp_roundtrip_272_partial (b : Bytes) (v : Request) (h : Request.decode b = .ok v)
    (hk : v.Standard) (hs : ¬ WmcShort b) (tid : UInt16) (uid : UInt8) (buf : Bytes) (hl : 272 ≤ buf.length) :
    ∃ n out v', Tcp.encodeRequest tid uid v buf = .ok (n, out) ∧ n ≤ 272 ∧
      out.take n = Spec.tcpFrame tid uid v.image ∧
      Tcp.decodeRequest (out.take n) = .ok (some (tid, uid, v')) ∧ v'.sem = v.sem := by
  have h265 := (req_decoded_facts b v h hk hs).2.2.2.1
  obtain ⟨n, out, v', h1, _, h3, h4, h5, _, h7⟩ :=
    req_decoded_tcp_roundtrip_partial b v h hk hs tid uid buf (by omega)
  exact ⟨n, out, v', h1, by omega, h4, h5, h7⟩

theorem req_decoded_tcp_short_buffer_partial (b : Bytes) (v : Request) (h : Request.decode b = .ok v)
    (hs : ¬ WmcShort b) (tid : UInt16) (uid : UInt8) (buf : Bytes) (hl : buf.length < v.image.length + 7) :
    Tcp.encodeRequest tid uid v buf = .err .bufferSize :=
  C05.tcp_req_layout_short tid uid v buf ((Request.decode_inv h).1.encodable hs) hl

theorem req_decoded_tcp_wellformed_partial (b : Bytes) (v : Request) (h : Request.decode b = .ok v)
    (hk : v.Standard) (hs : ¬ WmcShort b) (tid : UInt16) (uid : UInt8) :
    Spec.WellFormedTcp .req (Spec.tcpFrame tid uid v.image) := by
  obtain ⟨_, _, hc, h265, _⟩ := req_decoded_facts b v h hk hs
  exact ⟨tid, uid, _, hc, by omega, rfl⟩

/-- a decoded custom request is the input verbatim; it round-trips when the input is a complete PDU of
    the request table — and then the very same value comes back -/
theorem req_decoded_custom_tcp_roundtrip (b : Bytes) (c : FunctionCode) (d : Bytes)
    (h : Request.decode b = .ok (.custom c d)) (hc : Spec.PduComplete .req b)
    (tid : UInt16) (uid : UInt8) (buf : Bytes) (hl : b.length + 7 ≤ buf.length) :
    (Request.custom c d).image = b ∧
    ∃ out, Tcp.encodeRequest tid uid (.custom c d) buf = .ok (b.length + 7, out) ∧
      out.take (b.length + 7) = Spec.tcpFrame tid uid b ∧
      Tcp.decodeRequest (out.take (b.length + 7)) = .ok (some (tid, uid, .custom c d)) ∧
      Tcp.decodeRequest out = .ok (some (tid, uid, .custom c d)) := by
  have hi := Request.decode_custom_image h
  refine ⟨hi, ?_⟩
  have := C05.tcp_req_encode_decode tid uid (.custom c d) (.custom c d) buf trivial
    (by rw [hi]; exact hl) (by rw [hi]; exact hc) (by rw [hi]; exact h)
  rw [hi] at this
  exact this

/-- every decoded request is of one of the kinds treated above -/
theorem req_decoded_kinds (b : Bytes) (v : Request) (h : Request.decode b = .ok v) :
    v.Standard ∨ (∃ c d, v = .custom c d) := by
  rcases (Request.decode_inv h).1.kinds with hk | ⟨fc, d, rfl, _⟩
  · exact .inl hk
  · exact .inr ⟨_, _, rfl⟩

/-- D5b: `hs` cannot be dropped — the byte string the crate's own unit test asserts is accepted decodes to
    a value the TCP encoder does not serialise (here it panics) -/
theorem req_decoded_tcp_roundtrip_fails :
    ¬ ∀ (b : Bytes) (v : Request), Request.decode b = .ok v → v.Standard →
        ∀ (tid : UInt16) (uid : UInt8) (buf : Bytes), v.image.length + 7 ≤ buf.length →
        ∃ n out, Tcp.encodeRequest tid uid v buf = .ok (n, out) := by
  intro hall
  obtain ⟨n, out, he⟩ := hall C13.wmcDefectBytes C13.wmcDefectValue (by decide +kernel) trivial 7 1
    (List.replicate 14 0) (by decide +kernel)
  have he' : Tcp.encodeRequest 7 1 C13.wmcDefectValue (List.replicate 14 0) = .panic := by decide +kernel
  rw [he'] at he
  cases he

/-! non-vacuity: a write-multiple-coils request with a byte count LARGER than needed (2 for 4 coils;
    in the design's mismatch class, outside `WmcShort`): the decoded value keeps both bytes, the encoder
    writes one, the meaning is unchanged; a write-multiple-registers request; a custom request -/
example : Request.decode [0x0F, 0, 1, 0, 4, 2, 0x0A, 0xFF] = .ok (.writeMultipleCoils 1 ⟨[0x0A, 0xFF], 4⟩) ∧
    (Request.writeMultipleCoils 1 ⟨[0x0A, 0xFF], 4⟩).Standard ∧ ¬ WmcShort [0x0F, 0, 1, 0, 4, 2, 0x0A, 0xFF] :=
  ⟨by decide +kernel, trivial, by decide +kernel⟩
example : ∃ n out v', Tcp.encodeRequest 0x0102 9 (.writeMultipleCoils 1 ⟨[0x0A, 0xFF], 4⟩)
      (List.replicate 16 0x55) = .ok (n, out) ∧ n = 14 ∧
    out.take n = [0x01, 0x02, 0, 0, 0, 8, 9, 0x0F, 0, 1, 0, 4, 1, 0x0A] ∧
    Tcp.decodeRequest (out.take n) = .ok (some (0x0102, 9, v')) ∧
    v'.sem = (Request.writeMultipleCoils 1 ⟨[0x0A, 0xFF], 4⟩).sem := by
  obtain ⟨n, out, v', h1, _, h3, h4, h5, _, h7⟩ := req_decoded_tcp_roundtrip_partial
    [0x0F, 0, 1, 0, 4, 2, 0x0A, 0xFF] (.writeMultipleCoils 1 ⟨[0x0A, 0xFF], 4⟩) (by decide +kernel) trivial
    (by decide +kernel) 0x0102 9 (List.replicate 16 0x55) (by decide +kernel)
  refine ⟨n, out, v', h1, by rw [h3]; decide +kernel, ?_, h5, h7⟩
  rw [h4]; decide +kernel
example : Request.decode [0x10, 0, 1, 0, 2, 4, 0, 10, 1, 2] = .ok (.writeMultipleRegisters 1 ⟨[0, 10, 1, 2], 2⟩) ∧
    ¬ WmcMismatch [0x10, 0, 1, 0, 2, 4, 0, 10, 1, 2] := ⟨by decide +kernel, by decide +kernel⟩
example : Request.decode [0x16, 0, 4, 0, 0xF2, 0, 0x25] = .ok (.custom (.custom 0x16) [0, 4, 0, 0xF2, 0, 0x25]) ∧
    Spec.PduComplete .req [0x16, 0, 4, 0, 0xF2, 0, 0x25] := by
  refine ⟨by decide +kernel, ?_⟩
  unfold Spec.PduComplete; decide +kernel

end Modbus.C05Dec
